(* ProvKeys.v — C08: the provenance map of every result has exactly the keys of
   the result's parameters, every list is non-empty, and nothing in it comes
   from anywhere but the inputs' lists for that name.

   Technique (as in Proofs/Annot.v): one invariant on the merger state, carried
   through every stage of `merger`, then through `merge_steps`, `embed_step`,
   `mask_gen`.

   Part 1  dictionary lemmas
   Part 2  the merger invariant
   Part 3  merge (n-ary)
   Part 4  embed
   Part 5  mask / sig_partial / forwards
   Part 6  refutations (statements that are false of the model) *)
From Coq Require Import List NArith Bool Arith Lia Btauto.
From Sigtools.Model Require Import Base Bind Roles Algebra.
From Sigtools.Proofs Require Import SmallModel Basics Prov MaskLaws MaskExact MergeNeutral Annot.
Import ListNotations.
Open Scope N_scope.

(* ================================================================== *)
(* Part 1 — dictionaries                                               *)

Definition keys (m : srcmap) : list name := map fst m.

(* mem on parameter names *)
Definition memn (y : name) (ps : list param) : bool := mem y (names_of ps).

Lemma memn_app y a b : memn y (a ++ b) = memn y a || memn y b.
Proof. unfold memn, names_of. rewrite map_app. apply mem_app. Qed.

Lemma memn_nil y : memn y [] = false.
Proof. reflexivity. Qed.

Lemma memn_cons y p ps : memn y (p :: ps) = N.eqb y (pname p) || memn y ps.
Proof. reflexivity. Qed.

Lemma memn_one y p : memn y [p] = N.eqb y (pname p).
Proof. unfold memn. cbn. apply orb_false_r. Qed.

Lemma memn_In y ps : memn y ps = true <-> exists p, In p ps /\ pname p = y.
Proof.
  unfold memn. rewrite mem_In. unfold names_of. rewrite in_map_iff.
  split; intros [p [A B]]; exists p; auto.
Qed.

Lemma memn_intro p ps : In p ps -> memn (pname p) ps = true.
Proof. intros H. apply memn_In. exists p. auto. Qed.

Lemma memn_od_set y d p : memn y (od_set d p) = memn y d || N.eqb y (pname p).
Proof.
  induction d as [|q d IH]; cbn [od_set].
  - rewrite memn_one. reflexivity.
  - destruct (N.eqb_spec (pname p) (pname q)) as [E|E].
    + rewrite !memn_cons, E. destruct (N.eqb y (pname q)), (memn y d); reflexivity.
    + rewrite !memn_cons, IH. rewrite orb_assoc. reflexivity.
Qed.

Lemma memn_od_update y u : forall d, memn y (od_update d u) = memn y d || memn y u.
Proof.
  unfold od_update. induction u as [|p u IH]; intros d; cbn [fold_left].
  - rewrite memn_nil, orb_false_r. reflexivity.
  - rewrite IH, memn_od_set, memn_cons. rewrite orb_assoc. reflexivity.
Qed.

Lemma names_map_kind k ps : names_of (map (set_kind k) ps) = names_of ps.
Proof. unfold names_of. rewrite map_map. reflexivity. Qed.

Lemma names_map_def d ps : names_of (map (set_def d) ps) = names_of ps.
Proof. unfold names_of. rewrite map_map. reflexivity. Qed.

Lemma memn_map_kind y k ps : memn y (map (set_kind k) ps) = memn y ps.
Proof. unfold memn. rewrite names_map_kind. reflexivity. Qed.

Lemma memn_map_def y d ps : memn y (map (set_def d) ps) = memn y ps.
Proof. unfold memn. rewrite names_map_def. reflexivity. Qed.

Lemma memn_clear y ps : memn y (clear_defaults ps) = memn y ps.
Proof. apply memn_map_def. Qed.

Lemma memn_opt y (o : option param) :
  memn y (opt_list o) = match o with Some p => N.eqb y (pname p) | None => false end.
Proof. destruct o; [apply memn_one | reflexivity]. Qed.

Lemma split_po_prefix_app ps : fst (split_po_prefix ps) ++ snd (split_po_prefix ps) = ps.
Proof.
  induction ps as [|p ps IH]; [reflexivity|]. cbn [split_po_prefix].
  destruct (is_kind PO p); [|reflexivity].
  destruct (split_po_prefix ps) as [a b]. cbn in *. rewrite IH. reflexivity.
Qed.

Lemma remove_param_In x ps p : In p (remove_param x ps) -> In p ps.
Proof.
  induction ps as [|q ps IH]; cbn [remove_param]; [auto|].
  destruct (N.eqb x (pname q)); [intros H; right; auto|].
  intros [H|H]; [left; exact H | right; auto].
Qed.

Lemma od_set_In d p q : In q (od_set d p) -> In q d \/ q = p.
Proof.
  induction d as [|e d IH]; cbn [od_set].
  - intros [H|[]]; right; auto.
  - destruct (N.eqb (pname p) (pname e)).
    + intros [H|H]; [right; auto | left; right; exact H].
    + intros [H|H]; [left; left; exact H|]. destruct (IH H) as [A|A]; [left; right; exact A | right; exact A].
Qed.

Lemma find_param_In x ps q : find_param x ps = Some q -> In q ps /\ pname q = x.
Proof.
  induction ps as [|p ps IH]; cbn [find_param]; [discriminate|].
  destruct (N.eqb_spec x (pname p)) as [E|E].
  - intros H; inversion H; subst. split; [left; reflexivity | reflexivity].
  - intros H. destruct (IH H) as [A B]. split; [right; exact A | exact B].
Qed.

Lemma find_param_none x ps : find_param x ps = None -> memn x ps = false.
Proof.
  induction ps as [|p ps IH]; cbn [find_param]; [reflexivity|].
  rewrite memn_cons. destruct (N.eqb x (pname p)); [discriminate|]. exact IH.
Qed.

(* ---- key sets ---- *)
Lemma src_mem_keys m k : src_mem m k = mem k (keys m).
Proof. induction m as [|[k0 v0] m IH]; cbn; [reflexivity|]. rewrite IH. reflexivity. Qed.

Lemma src_mem_set m k v k' : src_mem (src_set m k v) k' = src_mem m k' || N.eqb k' k.
Proof.
  induction m as [|[k0 v0] m IH]; cbn [src_set src_mem].
  - rewrite orb_false_r. reflexivity.
  - destruct (N.eqb_spec k k0) as [->|Hk]; cbn [src_mem].
    + destruct (N.eqb k' k0), (src_mem m k'); reflexivity.
    + rewrite IH. rewrite orb_assoc. reflexivity.
Qed.

Lemma src_mem_add m k v k' : src_mem (src_add m k v) k' = src_mem m k' || N.eqb k' k.
Proof.
  induction m as [|[k0 v0] m IH]; cbn [src_add src_mem].
  - rewrite orb_false_r. reflexivity.
  - destruct (N.eqb_spec k k0) as [->|Hk]; cbn [src_mem].
    + destruct (N.eqb k' k0), (src_mem m k'); reflexivity.
    + rewrite IH. rewrite orb_assoc. reflexivity.
Qed.

Lemma src_get_nomem m k : src_mem m k = false -> src_get m k = [].
Proof.
  induction m as [|[k0 v0] m IH]; cbn [src_mem src_get]; [reflexivity|].
  destruct (N.eqb k k0); [discriminate|]. exact IH.
Qed.

Lemma mem_true_In x l : mem x l = true -> In x l.
Proof. apply mem_In. Qed.

Lemma keys_set_In m k v x : In x (keys (src_set m k v)) -> In x (keys m) \/ x = k.
Proof.
  intros H. apply mem_In in H. unfold keys in *. rewrite <- src_mem_keys, src_mem_set in H.
  apply orb_true_iff in H. destruct H as [H|H].
  - left. apply mem_In. rewrite <- src_mem_keys. exact H.
  - right. apply N.eqb_eq. exact H.
Qed.

Lemma keys_add_In m k v x : In x (keys (src_add m k v)) -> In x (keys m) \/ x = k.
Proof.
  intros H. apply mem_In in H. unfold keys in *. rewrite <- src_mem_keys, src_mem_add in H.
  apply orb_true_iff in H. destruct H as [H|H].
  - left. apply mem_In. rewrite <- src_mem_keys. exact H.
  - right. apply N.eqb_eq. exact H.
Qed.

Lemma keys_pop_In m k x : In x (keys (src_pop m k)) -> In x (keys m).
Proof.
  intros H. apply mem_In in H. unfold keys in *. rewrite <- src_mem_keys, src_mem_pop in H.
  apply andb_true_iff in H. destruct H as [H _]. apply mem_In. rewrite <- src_mem_keys. exact H.
Qed.

Lemma nodup_set m k v : NoDup (keys m) -> NoDup (keys (src_set m k v)).
Proof.
  induction m as [|[k0 v0] m IH]; cbn [src_set keys map fst]; intros H.
  - constructor; [intros []|constructor].
  - inversion H as [|? ? Hk0 Hm]; subst.
    destruct (N.eqb_spec k k0) as [->|Hk]; cbn [map fst].
    + constructor; assumption.
    + constructor; [|apply IH; exact Hm].
      intros Hin. destruct (keys_set_In _ _ _ _ Hin) as [A|A]; [exact (Hk0 A) | exact (Hk (eq_sym A))].
Qed.

Lemma nodup_add m k v : NoDup (keys m) -> NoDup (keys (src_add m k v)).
Proof.
  induction m as [|[k0 v0] m IH]; cbn [src_add keys map fst]; intros H.
  - constructor; [intros []|constructor].
  - inversion H as [|? ? Hk0 Hm]; subst.
    destruct (N.eqb_spec k k0) as [->|Hk]; cbn [map fst].
    + constructor; assumption.
    + constructor; [|apply IH; exact Hm].
      intros Hin. destruct (keys_add_In _ _ _ _ Hin) as [A|A]; [exact (Hk0 A) | exact (Hk (eq_sym A))].
Qed.

Lemma nodup_pop m k : NoDup (keys m) -> NoDup (keys (src_pop m k)).
Proof.
  induction m as [|[k0 v0] m IH]; cbn [src_pop keys map fst]; intros H; [constructor|].
  inversion H as [|? ? Hk0 Hm]; subst.
  destruct (N.eqb k k0); [apply IH; exact Hm|]. cbn [map fst].
  constructor; [|apply IH; exact Hm]. intros Hin. apply Hk0. eapply keys_pop_In; exact Hin.
Qed.

Lemma nodup_pop_all ks : forall m, NoDup (keys m) -> NoDup (keys (src_pop_all m ks)).
Proof.
  unfold src_pop_all. induction ks as [|k ks IH]; intros m H; cbn [fold_left]; [exact H|].
  apply IH. apply nodup_pop. exact H.
Qed.

Lemma src_get_pop_all ks : forall m y,
  src_get (src_pop_all m ks) y = if mem y ks then [] else src_get m y.
Proof.
  unfold src_pop_all. induction ks as [|k ks IH]; intros m y; cbn [fold_left mem]; [reflexivity|].
  rewrite IH, src_get_pop. destruct (N.eqb y k), (mem y ks); reflexivity.
Qed.

(* dict(i_src, **o_src) *)
Definition overlay (o m : srcmap) : srcmap :=
  fold_left (fun m kv => src_set m (fst kv) (snd kv)) o m.

Lemma overlay_mem o : forall m y, src_mem (overlay o m) y = src_mem m y || src_mem o y.
Proof.
  unfold overlay. induction o as [|[k v] o IH]; intros m y; cbn [fold_left src_mem fst snd].
  - rewrite orb_false_r. reflexivity.
  - rewrite IH, src_mem_set. rewrite <- orb_assoc. reflexivity.
Qed.

Lemma overlay_nodup o : forall m, NoDup (keys m) -> NoDup (keys (overlay o m)).
Proof.
  unfold overlay. induction o as [|[k v] o IH]; intros m H; cbn [fold_left]; [exact H|].
  apply IH. apply nodup_set. exact H.
Qed.

Lemma overlay_get o : NoDup (keys o) -> forall m y,
  src_get (overlay o m) y = if src_mem o y then src_get o y else src_get m y.
Proof.
  unfold overlay. induction o as [|[k v] o IH]; intros Hn m y; cbn [fold_left src_mem src_get fst snd].
  - reflexivity.
  - cbn [keys map fst] in Hn. inversion Hn as [|? ? Hk Ho]; subst.
    rewrite (IH Ho), src_get_set.
    destruct (N.eqb_spec y k) as [->|Hy]; cbn [orb]; [|reflexivity].
    assert (E : src_mem o k = false).
    { rewrite src_mem_keys. apply mem_false_In. exact Hk. }
    rewrite E. reflexivity.
Qed.

(* well-formed provenance with respect to a list of parameter names:
   exactly one entry per name, no entry for anything else, no empty list *)
Definition wf_src (m : srcmap) (ns : list name) : Prop :=
  NoDup (keys m) /\
  (forall x, src_mem m x = mem x ns) /\
  (forall x, mem x ns = true -> src_get m x <> []).

(* C08: the provenance of a signature is complete and refers to nothing else *)
Definition src_ok (s : sigT) : Prop := wf_src (srcs s) (names_of (params s)).

(* the part of src_ok the merger and the inner side of embed rely on *)
Definition src_nonempty (s : sigT) : Prop :=
  forall p, In p (params s) -> src_get (srcs s) (pname p) <> [].

Lemma src_ok_nonempty s : src_ok s -> src_nonempty s.
Proof.
  intros (_ & _ & H) p Hp. apply H. apply mem_In. unfold names_of. apply in_map. exact Hp.
Qed.

(* the same on classified signatures *)
Definition sorted_ok (so : sorted) : Prop := wf_src (ssrc so) (names_of (flatten so)).
Definition nonempty_on (so : sorted) : Prop :=
  forall p, In p (flatten so) -> src_get (ssrc so) (pname p) <> [].

Lemma sorted_ok_nonempty so : sorted_ok so -> nonempty_on so.
Proof.
  intros (_ & _ & H) p Hp. apply H. apply mem_In. unfold names_of. apply in_map. exact Hp.
Qed.

Lemma sort_params_In s p : In p (flatten (sort_params s)) -> In p (params s).
Proof.
  revert p. apply Forall_forall.
  apply (flatten_P (fun p => In p (params s))).
  apply sort_params_P. apply Forall_forall. auto.
Qed.

Lemma sort_params_ssrc s : ssrc (sort_params s) = srcs s.
Proof. unfold sort_params. rewrite (proj1 (sort_aux_src _ _)). reflexivity. Qed.

Lemma sort_params_nonempty s : src_nonempty s -> nonempty_on (sort_params s).
Proof.
  intros H p Hp. rewrite sort_params_ssrc. apply H. apply sort_params_In. exact Hp.
Qed.

(* ================================================================== *)
(* Part 2 — the merger invariant                                       *)

Definition named (s : sorted) : list param := posargs s ++ pokargs s ++ kwoargs s.

Lemma named_flatten s p : In p (named s) -> In p (flatten s).
Proof.
  unfold named, flatten. intros H. apply in_app_or in H. destruct H as [H|H]; [apply in_or_app; left; exact H|].
  apply in_app_or in H. apply in_or_app; right. destruct H as [H|H]; [apply in_or_app; left; exact H|].
  apply in_or_app; right. apply in_or_app; right. apply in_or_app; left. exact H.
Qed.

Lemma memn_flatten y s :
  memn y (flatten s) = memn y (named s) || memn y (opt_list (varargs s)) || memn y (opt_list (varkwargs s)).
Proof.
  unfold flatten, named. rewrite !memn_app.
  destruct (memn y (posargs s)), (memn y (pokargs s)), (memn y (opt_list (varargs s))),
    (memn y (kwoargs s)), (memn y (opt_list (varkwargs s))); reflexivity.
Qed.

Section MergerInv.
Variables l r : sorted.

Definition sside (s : side) (x : name) : list N := src_get (ssrc (my l r s)) x.

Definition outb (st : mstate) (y : name) : bool :=
  memn y (m_pos st) || memn y (m_pok st) || memn y (m_kwo st).

(* a step on behalf of the right operand needs the right operand to have a
   named parameter (this is what makes the bare star operand of _embed inert) *)
Definition side_ok (s : side) : Prop := match s with L => True | R => named r <> [] end.

Definition NS (s : side) (p : param) : Prop := In p (named (my l r s)).

(* lower bound: the whole list of a declaring operand is there *)
Definition LBw (y : name) (v : list N) : Prop :=
  exists s p, side_ok s /\ In p (flatten (my l r s)) /\ pname p = y /\ incl (sside s y) v.
(* upper bound: nothing but the operands' lists for that very name *)
Definition UBw (y : name) (v : list N) : Prop :=
  forall f, In f v -> In f (sside L y) \/ In f (sside R y).

Definition Inv (extra : list name) (st : mstate) : Prop :=
  NoDup (keys (m_src st)) /\
  (forall y, src_mem (m_src st) y = outb st y || mem y extra) /\
  (forall y, src_mem (m_src st) y = true -> LBw y (src_get (m_src st) y)) /\
  (forall y, UBw y (src_get (m_src st) y)) /\
  (m_xva_l st = true -> named r <> []) /\
  (m_xvk_l st = true -> named r <> []) /\
  (forall p, In p (m_lunm st) -> In p (kwoargs l)) /\
  (forall p, In p (m_runm st) -> In p (kwoargs r)) /\
  (forall y, outb st y = true -> memn y (named l ++ named r) = true).

Lemma LBw_mono y v v' : LBw y v -> incl v v' -> LBw y v'.
Proof.
  intros (s & p & A & B & C & D) H. exists s, p. repeat split; try assumption.
  intros f Hf. apply H. apply D. exact Hf.
Qed.

Lemma NS_side_ok s p : NS s p -> side_ok s.
Proof. destruct s; cbn; [auto|]. intros H E. unfold NS in H. cbn [my] in H. rewrite E in H. exact H. Qed.

Lemma NS_named s p : NS s p -> memn (pname p) (named l ++ named r) = true.
Proof.
  intros H. apply memn_intro. apply in_or_app. destruct s; [left|right]; exact H.
Qed.

Lemma LBw_one s p : NS s p -> LBw (pname p) (sside s (pname p)).
Proof.
  intros H. exists s, p. repeat split; [eapply NS_side_ok; eauto | apply named_flatten; exact H | apply incl_refl].
Qed.

Lemma UBw_one s y : UBw y (sside s y).
Proof. intros f Hf. destruct s; [left|right]; exact Hf. Qed.

Lemma UBw_app y v v' : UBw y v -> UBw y v' -> UBw y (v ++ v').
Proof. intros A B f Hf. apply in_app_or in Hf. destruct Hf; auto. Qed.

Lemma Inv_add extra st st' x v :
  Inv extra st ->
  m_src st' = src_add (m_src st) x v ->
  (forall y, outb st' y = outb st y || N.eqb y x) ->
  LBw x v -> UBw x v ->
  memn x (named l ++ named r) = true ->
  (m_xva_l st' = true -> m_xva_l st = true \/ named r <> []) ->
  (m_xvk_l st' = true -> m_xvk_l st = true \/ named r <> []) ->
  (forall p, In p (m_lunm st') -> In p (kwoargs l)) ->
  (forall p, In p (m_runm st') -> In p (kwoargs r)) ->
  Inv extra st'.
Proof.
  intros (I1 & I2 & I3 & I4 & I5 & I6 & I7 & I8 & I9) Hs Ho Hl Hu Hn Fa Fk Ul Ur.
  unfold Inv. rewrite Hs. repeat split.
  - apply nodup_add. exact I1.
  - intros y. rewrite src_mem_add, I2, Ho.
    destruct (outb st y), (mem y extra), (N.eqb y x); reflexivity.
  - intros y. rewrite src_mem_add, src_get_add. destruct (N.eqb_spec y x) as [->|Hy].
    + intros _. eapply LBw_mono; [exact Hl|]. apply incl_appr. apply incl_refl.
    + rewrite orb_false_r. apply I3.
  - intros y. rewrite src_get_add. destruct (N.eqb_spec y x) as [->|Hy]; [|apply I4].
    apply UBw_app; [apply I4 | exact Hu].
  - intros H. destruct (Fa H); auto.
  - intros H. destruct (Fk H); auto.
  - exact Ul.
  - exact Ur.
  - intros y. rewrite Ho. intros H. apply orb_true_iff in H. destruct H as [H|H]; [apply I9; exact H|].
    apply N.eqb_eq in H. subst y. exact Hn.
Qed.

Lemma Inv_set extra st st' x v :
  Inv extra st ->
  m_src st' = src_set (m_src st) x v ->
  (forall y, outb st' y = outb st y || N.eqb y x) ->
  LBw x v -> UBw x v ->
  memn x (named l ++ named r) = true ->
  (m_xva_l st' = true -> m_xva_l st = true \/ named r <> []) ->
  (m_xvk_l st' = true -> m_xvk_l st = true \/ named r <> []) ->
  (forall p, In p (m_lunm st') -> In p (kwoargs l)) ->
  (forall p, In p (m_runm st') -> In p (kwoargs r)) ->
  Inv extra st'.
Proof.
  intros (I1 & I2 & I3 & I4 & I5 & I6 & I7 & I8 & I9) Hs Ho Hl Hu Hn Fa Fk Ul Ur.
  unfold Inv. rewrite Hs. repeat split.
  - apply nodup_set. exact I1.
  - intros y. rewrite src_mem_set, I2, Ho.
    destruct (outb st y), (mem y extra), (N.eqb y x); reflexivity.
  - intros y. rewrite src_mem_set, src_get_set. destruct (N.eqb_spec y x) as [->|Hy].
    + intros _. exact Hl.
    + rewrite orb_false_r. apply I3.
  - intros y. rewrite src_get_set. destruct (N.eqb_spec y x) as [->|Hy]; [exact Hu|apply I4].
  - intros H. destruct (Fa H); auto.
  - intros H. destruct (Fk H); auto.
  - exact Ul.
  - exact Ur.
  - intros y. rewrite Ho. intros H. apply orb_true_iff in H. destruct H as [H|H]; [apply I9; exact H|].
    apply N.eqb_eq in H. subst y. exact Hn.
Qed.

Lemma Inv_frame extra st st' :
  Inv extra st ->
  m_src st' = m_src st ->
  (forall y, outb st' y = outb st y) ->
  (m_xva_l st' = true -> m_xva_l st = true \/ named r <> []) ->
  (m_xvk_l st' = true -> m_xvk_l st = true \/ named r <> []) ->
  (forall p, In p (m_lunm st') -> In p (kwoargs l)) ->
  (forall p, In p (m_runm st') -> In p (kwoargs r)) ->
  Inv extra st'.
Proof.
  intros (I1 & I2 & I3 & I4 & I5 & I6 & I7 & I8 & I9) Hs Ho Fa Fk Ul Ur.
  unfold Inv. rewrite Hs. repeat split; auto.
  - intros y. rewrite I2, Ho. reflexivity.
  - intros H. destruct (Fa H); auto.
  - intros H. destruct (Fk H); auto.
  - intros y. rewrite Ho. apply I9.
Qed.

Lemma Inv_lunm extra st : Inv extra st -> forall p, In p (m_lunm st) -> In p (kwoargs l).
Proof. intros H. apply H. Qed.
Lemma Inv_runm extra st : Inv extra st -> forall p, In p (m_runm st) -> In p (kwoargs r).
Proof. intros H. apply H. Qed.

Lemma kwo_named s p : In p (kwoargs (my l r s)) -> NS s p.
Proof. intros H. unfold NS, named. apply in_or_app; right. apply in_or_app; right. exact H. Qed.
Lemma pos_named s p : In p (posargs (my l r s)) -> NS s p.
Proof. intros H. unfold NS, named. apply in_or_app; left. exact H. Qed.
Lemma pok_named s p : In p (pokargs (my l r s)) -> NS s p.
Proof. intros H. unfold NS, named. apply in_or_app; right. apply in_or_app; left. exact H. Qed.

Ltac outb_solve :=
  intros ?y; unfold outb;
  cbn [m_pos m_pok m_kwo set_pos set_pok set_kwo set_src set_unm add_src1 add_src2 excl_va excl_vk];
  rewrite ?memn_app, ?memn_one, ?memn_od_set, ?memn_map_kind, ?memn_nil;
  cbn [concile set_kind pname];
  btauto.

(* ---- matched keyword-only parameters ---- *)
Lemma kwo_match_Inv extra lk : forall st,
  (forall p, In p lk -> In p (kwoargs l)) -> Inv extra st -> Inv extra (kwo_match l r lk st).
Proof.
  induction lk as [|p lk IH]; intros st Hlk Hst; cbn [kwo_match]; [exact Hst|].
  apply IH; [intros q Hq; apply Hlk; right; exact Hq|].
  assert (Hp : NS L p) by (apply kwo_named; apply Hlk; left; reflexivity).
  destruct (find_param (pname p) (kwoargs r)) as [q|] eqn:E.
  - eapply (Inv_set extra st _ (pname p)); [exact Hst | reflexivity | | | | | | | |].
    + outb_solve.
    + eapply LBw_mono; [apply (LBw_one L p Hp)|]. apply incl_appl. apply incl_refl.
    + apply UBw_app; [apply (UBw_one L) | apply (UBw_one R)].
    + apply (NS_named L p Hp).
    + cbn; auto.
    + cbn; auto.
    + cbn. apply (Inv_lunm _ _ Hst).
    + cbn. apply (Inv_runm _ _ Hst).
  - apply (Inv_frame extra st); [exact Hst | reflexivity | | | | |].
    + outb_solve.
    + cbn; auto.
    + cbn; auto.
    + cbn [set_unm m_lunm]. intros q Hq. apply od_set_In in Hq. destruct Hq as [Hq| ->].
      * apply (Inv_lunm _ _ Hst). exact Hq.
      * apply Hlk. left. reflexivity.
    + cbn. apply (Inv_runm _ _ Hst).
Qed.

Definition oside (s : side) : side := match s with L => R | R => L end.

Lemma flag_keep (b : bool) (Q : Prop) : b = true -> b = true \/ Q.
Proof. auto. Qed.

(* the three shapes of a provenance step *)
Lemma Inv_src1 extra st st0 s e :
  Inv extra st -> NS s e ->
  m_src st0 = m_src st ->
  (forall y, outb st0 y = outb st y || N.eqb y (pname e)) ->
  m_xva_l st0 = m_xva_l st -> m_xvk_l st0 = m_xvk_l st ->
  m_lunm st0 = m_lunm st -> m_runm st0 = m_runm st ->
  Inv extra (add_src1 l r st0 (pname e) s).
Proof.
  intros Hst He Hs Ho Fa Fk Ul Ur.
  apply (Inv_add extra st _ (pname e) (sside s (pname e))); try assumption.
  - cbn [add_src1 set_src m_src]. rewrite Hs. reflexivity.
  - apply LBw_one. exact He.
  - apply UBw_one.
  - apply (NS_named s e He).
  - cbn [add_src1 set_src m_xva_l]. rewrite Fa. auto.
  - cbn [add_src1 set_src m_xvk_l]. rewrite Fk. auto.
  - cbn [add_src1 set_src m_lunm]. rewrite Ul. apply (Inv_lunm _ _ Hst).
  - cbn [add_src1 set_src m_runm]. rewrite Ur. apply (Inv_runm _ _ Hst).
Qed.

Lemma Inv_src2 extra st st0 s e a b :
  Inv extra st -> NS s e -> (a = s \/ b = s) ->
  m_src st0 = m_src st ->
  (forall y, outb st0 y = outb st y || N.eqb y (pname e)) ->
  m_xva_l st0 = m_xva_l st -> m_xvk_l st0 = m_xvk_l st ->
  (forall p, In p (m_lunm st0) -> In p (m_lunm st)) ->
  (forall p, In p (m_runm st0) -> In p (m_runm st)) ->
  Inv extra (add_src2 l r st0 (pname e) a b).
Proof.
  intros Hst He Hab Hs Ho Fa Fk Ul Ur.
  apply (Inv_add extra st _ (pname e) (sside a (pname e) ++ sside b (pname e))); try assumption.
  - cbn [add_src2 set_src m_src]. rewrite Hs. reflexivity.
  - eapply LBw_mono; [apply (LBw_one s e He)|].
    destruct Hab as [->| ->]; [apply incl_appl | apply incl_appr]; apply incl_refl.
  - apply UBw_app; apply UBw_one.
  - apply (NS_named s e He).
  - cbn [add_src2 set_src m_xva_l]. rewrite Fa. auto.
  - cbn [add_src2 set_src m_xvk_l]. rewrite Fk. auto.
  - cbn [add_src2 set_src m_lunm]. intros p Hp. apply (Inv_lunm _ _ Hst). auto.
  - cbn [add_src2 set_src m_runm]. intros p Hp. apply (Inv_runm _ _ Hst). auto.
Qed.

(* ---- positional-only zip ---- *)
Lemma unb_pos1_Inv extra s e conv st st' conv' :
  NS s e -> Forall (NS (oside s)) conv -> Inv extra st ->
  unb_pos1 l r s e conv st = Ok (st', conv') ->
  Inv extra st' /\ Forall (NS (oside s)) conv'.
Proof.
  intros He Hconv Hst. unfold unb_pos1. destruct conv as [|o conv].
  - destruct (isSome (varargs (other l r s))).
    + intros E; inversion E; subst. split; [|constructor].
      assert (H1 : Inv extra (add_src1 l r (set_pos st (m_pos st ++ [e])) (pname e) s)).
      { apply (Inv_src1 extra st); try assumption; try reflexivity. outb_solve. }
      apply (Inv_frame extra _ _ H1).
      * destruct s; reflexivity.
      * intros y. destruct s; reflexivity.
      * destruct s; cbn [oside excl_va m_xva_l add_src1 set_src set_pos].
        -- intros H. left. exact H.
        -- intros _. right. apply (NS_side_ok R e He).
      * intros H. left. destruct s; exact H.
      * destruct s; apply (Inv_lunm _ _ H1).
      * destruct s; apply (Inv_runm _ _ H1).
    + destruct (negb (has_def e)); [discriminate|]. intros E; inversion E; subst.
      split; [exact Hst | constructor].
  - inversion Hconv as [|o' conv'' Ho Hc]; subst.
    intros E; inversion E; subst. split; [|exact Hc].
    destruct (N.eqb (pname o) (pname e)).
    + apply (Inv_src2 extra st _ s e); try assumption; try reflexivity; auto. outb_solve.
    + apply (Inv_src1 extra st); try assumption; try reflexivity. outb_solve.
Qed.

Lemma unb_pos_all_Inv extra s ps : forall conv st st' conv',
  Forall (NS s) ps -> Forall (NS (oside s)) conv -> Inv extra st ->
  unb_pos_all l r s ps conv st = Ok (st', conv') ->
  Inv extra st' /\ Forall (NS (oside s)) conv'.
Proof.
  induction ps as [|p ps IH]; intros conv st st' conv' Hps Hconv Hst; cbn [unb_pos_all].
  - intros E; inversion E; subst. split; assumption.
  - inversion Hps as [|p' ps' Hp Hps']; subst. intros E.
    apply bind_ok in E. destruct E as [[st1 conv1] [E1 E2]].
    destruct (unb_pos1_Inv _ _ _ _ _ _ _ Hp Hconv Hst E1) as [Hst1 Hc1].
    cbn [fst snd] in E2. eapply IH; eauto.
Qed.

Lemma zip_pos_Inv extra lp : forall rp il ir st st' il' ir',
  Forall (NS L) lp -> Forall (NS R) rp -> Forall (NS L) il -> Forall (NS R) ir -> Inv extra st ->
  zip_pos l r lp rp il ir st = Ok (st', il', ir') ->
  Inv extra st' /\ Forall (NS L) il' /\ Forall (NS R) ir'.
Proof.
  induction lp as [|a lp IH]; intros rp il ir st st' il' ir' Hlp Hrp Hil Hir Hst.
  - cbn [zip_pos]. intros E. apply bind_ok in E. destruct E as [[st1 c1] [E1 E2]].
    cbn [fst snd] in E2. inversion E2; subst.
    destruct (unb_pos_all_Inv extra R _ _ _ _ _ Hrp Hil Hst E1) as [H1 H2].
    split; [assumption | split; assumption].
  - destruct rp as [|b rp].
    + cbn [zip_pos]. intros E. apply bind_ok in E. destruct E as [[st1 c1] [E1 E2]].
      cbn [fst snd] in E2. inversion E2; subst.
      destruct (unb_pos_all_Inv extra L _ _ _ _ _ Hlp Hir Hst E1) as [H1 H2].
      split; [assumption | split; assumption].
    + cbn [zip_pos]. inversion Hlp as [|a' lp' Ha Hlp']; subst. inversion Hrp as [|b' rp' Hb Hrp']; subst.
      apply IH; try assumption.
      destruct (N.eqb (pname a) (pname b)).
      * apply (Inv_src2 extra st _ L a); try assumption; try reflexivity; auto. outb_solve.
      * apply (Inv_src1 extra st); try assumption; try reflexivity. outb_solve.
Qed.

(* ---- positional-or-keyword zip ---- *)
Lemma unb_pok1_Inv extra s e st st' :
  NS s e -> Inv extra st -> unb_pok1 l r s e st = Ok st' -> Inv extra st'.
Proof.
  intros He Hst. unfold unb_pok1.
  destruct (find_param (pname e) (unm st (match s with L => R | R => L end))) as [q|] eqn:E.
  - intros E1; inversion E1; subst. clear E1.
    destruct s.
    + apply (Inv_src2 extra st _ L e); try assumption; try reflexivity; auto.
      * outb_solve.
      * cbn [set_kwo set_unm m_runm]. intros p Hp. eapply remove_param_In; exact Hp.
    + apply (Inv_src2 extra st _ R e); try assumption; try reflexivity; auto.
      * outb_solve.
      * cbn [set_kwo set_unm m_lunm]. intros p Hp. eapply remove_param_In; exact Hp.
  - destruct (isSome (varargs (other l r s)) && isSome (varkwargs (other l r s))).
    { intros E1; inversion E1; subst.
      apply (Inv_src1 extra st); try assumption; try reflexivity. outb_solve. }
    destruct (isSome (varkwargs (other l r s))).
    { intros E1; inversion E1; subst.
      apply (Inv_src1 extra st); try assumption; try reflexivity. outb_solve. }
    destruct (isSome (varargs (other l r s))).
    { intros E1; inversion E1; subst.
      apply (Inv_src1 extra st); try assumption; try reflexivity. outb_solve. }
    destruct (negb (has_def e)); [discriminate|]. intros E1; inversion E1; subst. exact Hst.
Qed.

Lemma unb_pok_all_Inv extra s ps : forall st st',
  Forall (NS s) ps -> Inv extra st -> unb_pok_all l r s ps st = Ok st' -> Inv extra st'.
Proof.
  induction ps as [|p ps IH]; intros st st' Hps Hst; cbn [unb_pok_all].
  - intros E; inversion E; subst; exact Hst.
  - inversion Hps as [|p' ps' Hp Hps']; subst. intros E.
    apply bind_ok in E. destruct E as [st1 [E1 E2]].
    eapply IH; [exact Hps' | | exact E2]. eapply unb_pok1_Inv; eauto.
Qed.

Lemma zip_pok_Inv extra il : forall ir st st',
  Forall (NS L) il -> Forall (NS R) ir -> Inv extra st -> zip_pok l r il ir st = Ok st' -> Inv extra st'.
Proof.
  induction il as [|a il IH]; intros ir st st' Hil Hir Hst.
  - exact (unb_pok_all_Inv extra R ir st st' Hir Hst).
  - destruct ir as [|b ir].
    + exact (unb_pok_all_Inv extra L (a :: il) st st' Hil Hst).
    + cbn [zip_pok]. inversion Hil as [|a' il' Ha Hil']; subst. inversion Hir as [|b' ir' Hb Hir']; subst.
      apply IH; try assumption.
      destruct (N.eqb (pname a) (pname b)).
      * apply (Inv_src2 extra st _ L a); try assumption; try reflexivity; auto. outb_solve.
      * apply (Inv_src1 extra st); try assumption; try reflexivity. outb_solve.
Qed.

(* ---- unmatched keyword-only parameters ---- *)
Definition addall (g : name -> list N) (u : list param) (m : srcmap) : srcmap :=
  fold_left (fun m p => src_add m (pname p) (g (pname p))) u m.

Lemma addall_nodup g u : forall m, NoDup (keys m) -> NoDup (keys (addall g u m)).
Proof.
  unfold addall. induction u as [|p u IH]; intros m H; cbn [fold_left]; [exact H|].
  apply IH. apply nodup_add. exact H.
Qed.

Lemma addall_mem g u : forall m y, src_mem (addall g u m) y = src_mem m y || memn y u.
Proof.
  unfold addall. induction u as [|p u IH]; intros m y; cbn [fold_left].
  - rewrite memn_nil, orb_false_r. reflexivity.
  - rewrite IH, src_mem_add, memn_cons. rewrite orb_assoc. reflexivity.
Qed.

Lemma addall_mono g u : forall m y, incl (src_get m y) (src_get (addall g u m) y).
Proof.
  unfold addall. induction u as [|p u IH]; intros m y; cbn [fold_left]; [apply incl_refl|].
  eapply incl_tran; [|apply IH]. rewrite src_get_add.
  destruct (N.eqb_spec y (pname p)) as [->|Hy]; [apply incl_appl|]; apply incl_refl.
Qed.

Lemma addall_in g u : forall m p, In p u -> incl (g (pname p)) (src_get (addall g u m) (pname p)).
Proof.
  unfold addall. induction u as [|q u IH]; intros m p Hp; [destruct Hp|]. cbn [fold_left].
  destruct Hp as [->|Hp]; [|apply IH; exact Hp].
  eapply incl_tran; [|apply (addall_mono g u)]. rewrite src_get_add, N.eqb_refl.
  apply incl_appr. apply incl_refl.
Qed.

Lemma addall_ub g u : forall m y f, In f (src_get (addall g u m) y) ->
  In f (src_get m y) \/ (memn y u = true /\ In f (g y)).
Proof.
  unfold addall. induction u as [|p u IH]; intros m y f H; cbn [fold_left] in H; [left; exact H|].
  apply IH in H. rewrite memn_cons. destruct H as [H|[H1 H2]].
  - rewrite src_get_add in H. destruct (N.eqb_spec y (pname p)) as [->|Hy]; [|left; exact H].
    apply in_app_or in H. destruct H as [H|H]; [left; exact H | right; split; [reflexivity | exact H]].
  - right. split; [rewrite H1; apply orb_true_r | exact H2].
Qed.

Lemma fold_add_src1_src s u : forall st,
  m_src (fold_left (fun a p => add_src1 l r a (pname p) s) u st) = addall (sside s) u (m_src st).
Proof.
  unfold addall. induction u as [|p u IH]; intros st; cbn [fold_left]; [reflexivity|].
  rewrite IH. reflexivity.
Qed.

Lemma unmatched_kwo_Inv extra s st st' :
  Inv extra st -> unmatched_kwo l r s st = Ok st' -> Inv extra st'.
Proof.
  intros Hst. unfold unmatched_kwo.
  assert (Hu : forall p, In p (unm st s) -> In p (kwoargs (my l r s))).
  { destruct s; [apply (Inv_lunm _ _ Hst) | apply (Inv_runm _ _ Hst)]. }
  destruct (unm st s) as [|p0 u0] eqn:Eu.
  - intros E; inversion E; subst; exact Hst.
  - destruct (isSome (varkwargs (other l r s))).
    2:{ destruct (forallb has_def (p0 :: u0)); [|discriminate]. intros E; inversion E; subst; exact Hst. }
    intros E; inversion E; subst. clear E.
    set (u := p0 :: u0) in *.
    set (st1 := set_kwo st (od_update (m_kwo st) u)).
    set (st2 := fold_left (fun a p => add_src1 l r a (pname p) s) u st1).
    pose proof (shp_fold_src l r s u st1) as Hshp. fold st2 in Hshp.
    apply shp_inv in Hshp. destruct Hshp as (A1 & A2 & A3 & A4 & A5 & A6 & A7).
    pose proof (fold_add_src1_src s u st1) as Asrc. fold st2 in Asrc.
    assert (Hside : side_ok s).
    { apply (NS_side_ok s p0). apply kwo_named. apply Hu. left. reflexivity. }
    destruct Hst as (I1 & I2 & I3 & I4 & I5 & I6 & I7 & I8 & I9).
    assert (Eo : forall y, outb st2 y = outb st y || memn y u).
    { intros y. unfold outb. rewrite A1, A2, A3. unfold st1. cbn [set_kwo m_pos m_pok m_kwo].
      rewrite memn_od_update. btauto. }
    assert (G : Inv extra st2).
    { unfold Inv. rewrite Asrc. unfold st1 at 1 2 3 4. cbn [set_kwo m_src]. repeat split.
      - apply addall_nodup. exact I1.
      - intros y. rewrite addall_mem, I2, Eo. btauto.
      - intros y. rewrite addall_mem. intros H.
        destruct (memn y u) eqn:Ey.
        + apply memn_In in Ey. destruct Ey as [p [Hp <-]].
          exists s, p. repeat split; [exact Hside | apply named_flatten; apply kwo_named; apply Hu; exact Hp |].
          apply addall_in. exact Hp.
        + rewrite orb_false_r in H. eapply LBw_mono; [apply I3; exact H | apply addall_mono].
      - intros y f Hf. apply addall_ub in Hf. destruct Hf as [Hf|[_ Hf]]; [apply I4; exact Hf|].
        apply (UBw_one s y). exact Hf.
      - rewrite A4. exact I5.
      - rewrite A5. exact I6.
      - rewrite A6. exact I7.
      - rewrite A7. exact I8.
      - intros y. rewrite Eo. intros H. apply orb_true_iff in H. destruct H as [H|H]; [apply I9; exact H|].
        apply memn_In in H. destruct H as [p [Hp <-]]. apply (NS_named s). apply kwo_named. apply Hu. exact Hp. }
    apply (Inv_frame extra st2 _ G).
    + destruct s; reflexivity.
    + intros y. destruct s; reflexivity.
    + intros H. left. destruct s; exact H.
    + destruct s; cbn [excl_vk m_xvk_l].
      * intros H. left. exact H.
      * intros _. right. exact Hside.
    + destruct s; apply (Inv_lunm _ _ G).
    + destruct s; apply (Inv_runm _ _ G).
Qed.

Lemma normalise_pok_Inv extra st : Inv extra st -> Inv extra (normalise_pok st).
Proof.
  intros Hst. unfold normalise_pok.
  pose proof (split_po_prefix_app (m_pok st)) as Hs.
  destruct (split_po_prefix (m_pok st)) as [a b]. cbn [fst snd] in Hs.
  apply (Inv_frame extra st _ Hst); try reflexivity.
  - intros y. unfold outb. cbn [set_pok set_pos m_pos m_pok m_kwo]. rewrite <- Hs, !memn_app. btauto.
  - cbn. auto.
  - cbn. auto.
  - cbn. apply (Inv_lunm _ _ Hst).
  - cbn. apply (Inv_runm _ _ Hst).
Qed.

(* ---- star parameters ---- *)
Lemma Inv_add_extra extra st st' x v :
  Inv extra st ->
  m_src st' = src_add (m_src st) x v ->
  (forall y, outb st' y = outb st y) ->
  LBw x v -> UBw x v ->
  m_xva_l st' = m_xva_l st -> m_xvk_l st' = m_xvk_l st ->
  m_lunm st' = m_lunm st -> m_runm st' = m_runm st ->
  Inv (x :: extra) st'.
Proof.
  intros (I1 & I2 & I3 & I4 & I5 & I6 & I7 & I8 & I9) Hs Ho Hl Hu Fa Fk Ul Ur.
  unfold Inv. rewrite Hs, Fa, Fk, Ul, Ur. repeat split; auto.
  - apply nodup_add. exact I1.
  - intros y. rewrite src_mem_add, I2, Ho. cbn [mem].
    destruct (outb st y), (mem y extra), (N.eqb y x); reflexivity.
  - intros y. rewrite src_mem_add, src_get_add. destruct (N.eqb_spec y x) as [->|Hy].
    + intros _. eapply LBw_mono; [exact Hl|]. apply incl_appr. apply incl_refl.
    + rewrite orb_false_r. apply I3.
  - intros y. rewrite src_get_add. destruct (N.eqb_spec y x) as [->|Hy]; [|apply I4].
    apply UBw_app; [apply I4 | exact Hu].
  - intros y. rewrite Ho. apply I9.
Qed.

Definition star_from (o osl osr : option param) : Prop :=
  match o with
  | None => True
  | Some p => (exists a, osl = Some a /\ pname p = pname a /\ pkind p = pkind a) \/
              (exists b, osr = Some b /\ pname p = pname b /\ pkind p = pkind b)
  end.

Lemma add_star_Inv extra xl xr osl osr st o st' :
  Inv extra st ->
  (forall a, osl = Some a -> In a (flatten l)) -> (forall b, osr = Some b -> In b (flatten r)) ->
  (xl = true -> named r <> []) ->
  add_star l r xl xr osl osr st = (o, st') ->
  Inv (names_of (opt_list o) ++ extra) st' /\ star_from o osl osr /\
  ((osl = None \/ osr = None) -> o = None).
Proof.
  intros Hst Hl Hr Hx. unfold add_star.
  destruct osl as [a|].
  2:{ intros E; inversion E; subst. cbn. split; [exact Hst | split; [exact I | auto]]. }
  destruct osr as [b|].
  2:{ intros E; inversion E; subst. cbn. split; [exact Hst | split; [exact I | auto]]. }
  pose proof (Hl a eq_refl) as Ha. pose proof (Hr b eq_refl) as Hb.
  assert (La : forall v, incl (sside L (pname a)) v -> LBw (pname a) v).
  { intros v Hv. exists L, a. repeat split; [exact Ha | exact Hv]. }
  destruct (negb xl && negb xr).
  - intros E; inversion E; subst. cbn [opt_list names_of map app]. split; [|split].
    + change (pname (concile a b)) with (pname a).
      destruct (N.eqb (pname a) (pname b)).
      * apply (Inv_add_extra extra st _ (pname a) (sside L (pname a) ++ sside R (pname a))); try assumption; try reflexivity.
        -- apply La. apply incl_appl. apply incl_refl.
        -- apply UBw_app; apply UBw_one.
      * apply (Inv_add_extra extra st _ (pname a) (sside L (pname a))); try assumption; try reflexivity.
        -- apply La. apply incl_refl.
        -- apply UBw_one.
    + cbn. left. exists a. repeat split; reflexivity.
    + intros [H|H]; discriminate.
  - destruct (negb xl) eqn:Exl.
    + intros E; inversion E; subst. cbn [opt_list names_of map app]. split; [|split].
      * apply (Inv_add_extra extra st _ (pname a) (sside L (pname a))); try assumption; try reflexivity.
        -- apply La. apply incl_refl.
        -- apply UBw_one.
      * cbn. left. exists a. repeat split; reflexivity.
      * intros [H|H]; discriminate.
    + intros E; inversion E; subst. cbn [opt_list names_of map app]. split; [|split].
      * apply (Inv_add_extra extra st _ (pname b) (sside R (pname b))); try assumption; try reflexivity.
        -- exists R, b. repeat split; [|exact Hb|apply incl_refl]. cbn. apply Hx.
           destruct xl; [reflexivity|discriminate].
        -- apply UBw_one.
      * cbn. right. exists b. repeat split; reflexivity.
      * intros [H|H]; discriminate.
Qed.

(* ---- the whole merger ---- *)
Definition merger_post (s : sorted) : Prop :=
  NoDup (keys (ssrc s)) /\
  (forall y, src_mem (ssrc s) y = memn y (flatten s)) /\
  (forall y, src_mem (ssrc s) y = true -> LBw y (src_get (ssrc s) y)) /\
  (forall y, UBw y (src_get (ssrc s) y)) /\
  (forall y, memn y (named s) = true -> memn y (named l ++ named r) = true) /\
  star_from (varargs s) (varargs l) (varargs r) /\
  star_from (varkwargs s) (varkwargs l) (varkwargs r) /\
  ((varargs l = None \/ varargs r = None) -> varargs s = None) /\
  ((varkwargs l = None \/ varkwargs r = None) -> varkwargs s = None).

Lemma Inv_init : Inv [] (mkM [] [] [] [] false false false false [] []).
Proof.
  unfold Inv. cbn [m_src m_xva_l m_xvk_l m_lunm m_runm]. repeat split; try discriminate.
  - constructor.
  - intros y f [].
  - intros p [].
  - intros p [].
Qed.

Lemma Forall_NS_pos s : Forall (NS s) (posargs (my l r s)).
Proof. apply Forall_forall. intros p Hp. apply pos_named. exact Hp. Qed.
Lemma Forall_NS_pok s : Forall (NS s) (pokargs (my l r s)).
Proof. apply Forall_forall. intros p Hp. apply pok_named. exact Hp. Qed.

Lemma opt_in_flatten_va (s : sorted) a : varargs s = Some a -> In a (flatten s).
Proof.
  intros H. unfold flatten. rewrite H. apply in_or_app; right. apply in_or_app; right.
  apply in_or_app; left. left. reflexivity.
Qed.
Lemma opt_in_flatten_vk (s : sorted) a : varkwargs s = Some a -> In a (flatten s).
Proof.
  intros H. unfold flatten. rewrite H. repeat (apply in_or_app; right). left. reflexivity.
Qed.

Theorem merger_Inv s : merger l r = Ok s -> merger_post s.
Proof.
  unfold merger. intros E.
  pose proof (kwo_match_Inv [] (kwoargs l) _ (fun p H => H) Inv_init) as H1.
  set (st1 := kwo_match l r (kwoargs l) (mkM [] [] [] [] false false false false [] [])) in *.
  assert (H2 : Inv [] (set_unm st1 R (r_unmatched l r))).
  { apply (Inv_frame [] st1 _ H1); try reflexivity.
    - cbn. auto.
    - cbn. auto.
    - cbn. apply (Inv_lunm _ _ H1).
    - cbn [set_unm m_runm]. unfold r_unmatched. intros p Hp. apply filter_In in Hp. apply Hp. }
  apply bind_ok in E. destruct E as [[[st3 il] ir] [E3 E]].
  destruct (zip_pos_Inv [] _ _ _ _ _ _ _ _ (Forall_NS_pos L) (Forall_NS_pos R)
              (Forall_NS_pok L) (Forall_NS_pok R) H2 E3) as [H3 [Hil Hir]].
  apply bind_ok in E. destruct E as [st4 [E4 E]].
  pose proof (zip_pok_Inv [] _ _ _ _ Hil Hir H3 E4) as H4.
  apply bind_ok in E. destruct E as [st5 [E5 E]].
  pose proof (unmatched_kwo_Inv [] _ _ _ H4 E5) as H5.
  apply bind_ok in E. destruct E as [st6 [E6 E]].
  pose proof (unmatched_kwo_Inv [] _ _ _ H5 E6) as H6.
  pose proof (normalise_pok_Inv [] _ H6) as H7.
  set (st7 := normalise_pok st6) in *.
  destruct (add_star l r (m_xva_l st7) (m_xva_r st7) (varargs l) (varargs r) st7) as [va st8] eqn:E8.
  destruct (add_star_Inv [] _ _ _ _ _ _ _ H7 (opt_in_flatten_va l) (opt_in_flatten_va r)
              (proj1 (proj2 (proj2 (proj2 (proj2 H7))))) E8) as [H8 [Sva Nva]].
  destruct (add_star l r (m_xvk_l st8) (m_xvk_r st8) (varkwargs l) (varkwargs r) st8) as [vk st9] eqn:E9.
  destruct (add_star_Inv _ _ _ _ _ _ _ _ H8 (opt_in_flatten_vk l) (opt_in_flatten_vk r)
              (proj1 (proj2 (proj2 (proj2 (proj2 (proj2 H8)))))) E9) as [H9 [Svk Nvk]].
  inversion E; subst. clear E.
  destruct H9 as (I1 & I2 & I3 & I4 & I5 & I6 & I7 & I8 & I9).
  unfold merger_post. cbn [ssrc varargs varkwargs].
  assert (Ef : forall y, memn y (flatten (mkSorted (m_pos st9) (m_pok st9) va (m_kwo st9) vk (m_src st9)
                                    (merge_depths (sdep l) (sdep r))))
                         = outb st9 y || mem y (names_of (opt_list vk) ++ names_of (opt_list va) ++ [])).
  { intros y. unfold flatten, outb. cbn [posargs pokargs varargs kwoargs varkwargs].
    rewrite !memn_app, !mem_app. unfold memn. cbn [mem]. btauto. }
  repeat split; try assumption.
  - intros y. rewrite Ef. apply I2.
  - intros y H. apply I9. unfold named in H. cbn [posargs pokargs kwoargs] in H. rewrite !memn_app in H.
    unfold outb. rewrite <- H. btauto.
Qed.
End MergerInv.

(* consequences used below *)
Theorem merger_sorted_ok l r s :
  nonempty_on l -> (named r <> [] -> nonempty_on r) -> merger l r = Ok s -> sorted_ok s.
Proof.
  intros Hl Hr E. destruct (merger_Inv l r s E) as (P1 & P2 & P3 & _).
  unfold sorted_ok, wf_src. split; [exact P1|]. split; [exact P2|].
  intros x Hx. fold (memn x (flatten s)) in Hx. rewrite <- P2 in Hx.
  destruct (P3 x Hx) as (sd & p & A & B & C & D). subst x. intros Hnil. rewrite Hnil in D.
  assert (Hne : sside l r sd (pname p) <> []).
  { unfold sside. destruct sd; cbn [my] in *; [apply Hl; exact B | apply (Hr A); exact B]. }
  destruct (sside l r sd (pname p)) as [|f v]; [apply Hne; reflexivity|].
  exact (D f (or_introl eq_refl)).
Qed.

(* truthful: nothing but the operands' lists for that name *)
Theorem merger_truthful l r s x f :
  merger l r = Ok s -> In f (src_get (ssrc s) x) ->
  In f (src_get (ssrc l) x) \/ In f (src_get (ssrc r) x).
Proof.
  intros E. destruct (merger_Inv l r s E) as (_ & _ & _ & P4 & _). apply P4.
Qed.

(* ================================================================== *)
(* Part 3 — merge                                                      *)

Lemma apply_params_fields base acc r :
  apply_params base acc = Ok r -> params r = flatten acc /\ srcs r = ssrc acc.
Proof.
  unfold apply_params. destruct (validate (flatten acc)); intros E; inversion E; subst. cbn. auto.
Qed.

Lemma apply_params_src_ok base acc r : sorted_ok acc -> apply_params base acc = Ok r -> src_ok r.
Proof.
  intros H E. destruct (apply_params_fields _ _ _ E) as [E1 E2]. unfold src_ok. rewrite E1, E2. exact H.
Qed.

Lemma merge_steps_sorted_ok ss : forall acc r,
  sorted_ok acc -> Forall src_nonempty ss -> merge_steps acc ss = Ok r -> sorted_ok r.
Proof.
  induction ss as [|s ss IH]; intros acc r Hacc Hss; cbn [merge_steps].
  - intros E; inversion E; subst; exact Hacc.
  - inversion Hss as [|s' ss' Hs Hss']; subst. intros E.
    apply bind_ok in E. destruct E as [acc' [E1 E2]]. apply to_incompatible_ok in E1.
    eapply IH; [|exact Hss'|exact E2].
    eapply merger_sorted_ok; [apply sorted_ok_nonempty; exact Hacc | | exact E1].
    intros _. apply sort_params_nonempty. exact Hs.
Qed.

(* C08 keys / non-empty for the n-ary merge, n >= 2: the inputs need not even
   be valid signatures, and only the non-emptiness of their lists is used *)
Theorem merge_src_ok_weak s0 s1 ss r :
  Forall src_nonempty (s0 :: s1 :: ss) -> merge (s0 :: s1 :: ss) = Ok r -> src_ok r.
Proof.
  intros Hss. cbn [merge merge_steps]. intros E.
  inversion Hss as [|? ? H0 Hss1]; subst. inversion Hss1 as [|? ? H1 Hss2]; subst.
  apply bind_ok in E. destruct E as [acc [E1 E2]].
  apply bind_ok in E1. destruct E1 as [acc1 [E0 E1]]. apply to_incompatible_ok in E0.
  eapply apply_params_src_ok; [|exact E2].
  eapply merge_steps_sorted_ok; [|exact Hss2|exact E1].
  eapply merger_sorted_ok; [apply sort_params_nonempty; exact H0 | | exact E0].
  intros _. apply sort_params_nonempty. exact H1.
Qed.

Lemma Forall_src_ok_nonempty ss : Forall src_ok ss -> Forall src_nonempty ss.
Proof. intros H. eapply Forall_impl; [|exact H]. apply src_ok_nonempty. Qed.

Theorem merge_src_ok s0 s1 ss r :
  merge (s0 :: s1 :: ss) = Ok r -> Forall src_ok (s0 :: s1 :: ss) -> src_ok r.
Proof. intros E H. eapply merge_src_ok_weak; [apply Forall_src_ok_nonempty; exact H | exact E]. Qed.

(* the one-input merge returns its (valid) input *)
Theorem merge_src_ok_single s r :
  valid_sig (params s) = true -> merge [s] = Ok r -> src_ok s -> src_ok r.
Proof. intros Hv E H. rewrite (merge_single s Hv) in E. inversion E; subst. exact H. Qed.

(* any number of valid inputs *)
Theorem merge_src_ok_valid ss r :
  Forall (fun s => valid_sig (params s) = true) ss ->
  merge ss = Ok r -> Forall src_ok ss -> src_ok r.
Proof.
  destruct ss as [|s0 [|s1 ss]]; intros Hv E H.
  - discriminate E.
  - inversion Hv; subst. inversion H; subst. eapply merge_src_ok_single; eauto.
  - eapply merge_src_ok; eauto.
Qed.

(* truthful: every callable listed for x in the result is listed for x in an input *)
Lemma merge_steps_truthful x f ss : forall acc r,
  merge_steps acc ss = Ok r -> In f (src_get (ssrc r) x) ->
  In f (src_get (ssrc acc) x) \/ exists s, In s ss /\ In f (src_get (srcs s) x).
Proof.
  induction ss as [|s ss IH]; intros acc r; cbn [merge_steps].
  - intros E; inversion E; subst. auto.
  - intros E Hf. apply bind_ok in E. destruct E as [acc' [E1 E2]]. apply to_incompatible_ok in E1.
    destruct (IH _ _ E2 Hf) as [H|[s' [Hs' H]]].
    + destruct (merger_truthful _ _ _ _ _ E1 H) as [A|A]; [left; exact A|].
      right. exists s. split; [left; reflexivity|]. rewrite sort_params_ssrc in A. exact A.
    + right. exists s'. split; [right; exact Hs' | exact H].
Qed.

Theorem merge_truthful ss r x f :
  merge ss = Ok r -> In f (src_get (srcs r) x) -> exists s, In s ss /\ In f (src_get (srcs s) x).
Proof.
  destruct ss as [|s0 ss]; cbn [merge]; [discriminate|]. intros E Hf.
  apply bind_ok in E. destruct E as [acc [E1 E2]].
  destruct (apply_params_fields _ _ _ E2) as [_ Es]. rewrite Es in Hf.
  destruct (merge_steps_truthful _ _ _ _ _ E1 Hf) as [H|[s [Hs H]]].
  - exists s0. split; [left; reflexivity|]. rewrite sort_params_ssrc in H. exact H.
  - exists s. split; [right; exact Hs | exact H].
Qed.

(* default sources (signatures.signature(f)): every parameter -> [f] *)
Lemma default_sources_ok f ps rt ur d :
  NoDup (names_of ps) -> src_ok (mkSig ps rt ur (map (fun p => (pname p, [f])) ps) d).
Proof.
  intros Hn. unfold src_ok, wf_src. cbn [srcs params].
  assert (Ek : keys (map (fun p => (pname p, [f])) ps) = names_of ps).
  { unfold keys, names_of. rewrite map_map. reflexivity. }
  split; [rewrite Ek; exact Hn|]. split.
  - intros x. rewrite src_mem_keys, Ek. reflexivity.
  - intros x. clear Hn Ek. induction ps as [|p ps IH]; cbn [names_of map mem src_get]; [discriminate|].
    destruct (N.eqb x (pname p)); [discriminate|]. exact IH.
Qed.

Lemma valid_default_sources_ok f ps rt ur d :
  valid_sig ps = true -> src_ok (mkSig ps rt ur (map (fun p => (pname p, [f])) ps) d).
Proof.
  intros H. apply default_sources_ok. apply validate_nodup.
  unfold valid_sig in H. apply andb_true_iff in H. destruct H as [H _]. apply andb_true_iff in H. tauto.
Qed.

(* ================================================================== *)
(* Part 4 — embed                                                      *)

(* the forwarded star names of the outer signature are not names of anything
   the outer signature keeps *)
Definition fwd_apart (uva uvk : bool) (outer : sorted) : Prop :=
  (uva = true -> forall p, varargs outer = Some p ->
     memn (pname p) (named outer) = false /\
     (uvk = false -> memn (pname p) (opt_list (varkwargs outer)) = false)) /\
  (uvk = true -> forall p, varkwargs outer = Some p ->
     memn (pname p) (named outer) = false /\
     (uva = false -> memn (pname p) (opt_list (varargs outer)) = false)).

Lemma nodup_names_fwd_apart uva uvk outer :
  NoDup (names_of (flatten outer)) -> fwd_apart uva uvk outer.
Proof.
  intros Hn. unfold flatten, names_of in Hn. rewrite !map_app in Hn.
  fold (names_of (posargs outer)) (names_of (pokargs outer)) (names_of (opt_list (varargs outer)))
       (names_of (kwoargs outer)) (names_of (opt_list (varkwargs outer))) in Hn.
  set (A := names_of (posargs outer)) in *. set (B := names_of (pokargs outer)) in *.
  set (K := names_of (kwoargs outer)) in *.
  assert (Hnamed : forall y, memn y (named outer) = mem y A || mem y B || mem y K).
  { intros y. unfold named. rewrite !memn_app. unfold memn. fold A B K. btauto. }
  split.
  - intros _ p Hp. rewrite Hp in Hn. cbn [opt_list names_of map] in Hn.
    assert (H1 : ~ In (pname p) A).
    { intros H. apply (nodup_app_disjoint _ _ (pname p) Hn H).
      apply in_or_app; right. left. reflexivity. }
    apply nodup_app_r in Hn.
    assert (H2 : ~ In (pname p) B).
    { intros H. apply (nodup_app_disjoint _ _ (pname p) Hn H). left. reflexivity. }
    apply nodup_app_r in Hn. cbn [app] in Hn. inversion Hn as [|? ? H3 _]; subst.
    split.
    + rewrite Hnamed. apply mem_false_In in H1. apply mem_false_In in H2. rewrite H1, H2. cbn [orb].
      apply mem_false_In. intros H. apply H3. apply in_or_app; left. exact H.
    + intros _. unfold memn. apply mem_false_In. intros H. apply H3. apply in_or_app; right. exact H.
  - intros _ p Hp. rewrite Hp in Hn. cbn [opt_list names_of map] in Hn.
    assert (G : forall X Y : list name, NoDup (X ++ Y ++ [pname p]) -> ~ In (pname p) X).
    { intros X Y H Hin. apply (nodup_app_disjoint _ _ (pname p) H Hin).
      apply in_or_app; right. left. reflexivity. }
    assert (H1 : ~ In (pname p) A).
    { rewrite !app_assoc in Hn. rewrite <- !app_assoc in Hn.
      intros H. apply (nodup_app_disjoint _ _ (pname p) Hn H).
      repeat (apply in_or_app; right). left. reflexivity. }
    apply nodup_app_r in Hn.
    assert (H2 : ~ In (pname p) B).
    { intros H. apply (nodup_app_disjoint _ _ (pname p) Hn H).
      repeat (apply in_or_app; right). left. reflexivity. }
    apply nodup_app_r in Hn.
    assert (H3 : ~ In (pname p) (names_of (opt_list (varargs outer)))).
    { intros H. apply (nodup_app_disjoint _ _ (pname p) Hn H).
      repeat (apply in_or_app; right). left. reflexivity. }
    apply nodup_app_r in Hn.
    assert (H4 : ~ In (pname p) K).
    { intros H. apply (nodup_app_disjoint _ _ (pname p) Hn H). left. reflexivity. }
    split.
    + rewrite Hnamed. apply mem_false_In in H1. apply mem_false_In in H2. apply mem_false_In in H4.
      rewrite H1, H2, H4. reflexivity.
    + intros _. unfold memn. apply mem_false_In. exact H3.
Qed.

Lemma orb_cong3 (a b c d w : bool) : a || (b || c) = d -> a || ((b || c) || w) = d || w.
Proof. intros <-. btauto. Qed.

Definition popped (b : bool) (o : option param) (y : name) : bool :=
  match o with Some p => b && N.eqb y (pname p) | None => false end.

Definition pop_star (b : bool) (o : option param) (m : srcmap) : srcmap :=
  match o with Some p => if b then src_pop m (pname p) else m | None => m end.

Lemma pop_star_mem b o m y : src_mem (pop_star b o m) y = src_mem m y && negb (popped b o y).
Proof.
  unfold pop_star, popped. destruct o as [p|]; [|rewrite andb_true_r; reflexivity].
  destruct b; [apply src_mem_pop | rewrite andb_true_r; reflexivity].
Qed.

Lemma pop_star_get b o m y : src_get (pop_star b o m) y = if popped b o y then [] else src_get m y.
Proof.
  unfold pop_star, popped. destruct o as [p|]; [|reflexivity].
  destruct b; [apply src_get_pop | reflexivity].
Qed.

Lemma pop_star_nodup b o m : NoDup (keys m) -> NoDup (keys (pop_star b o m)).
Proof. unfold pop_star. destruct o as [p|]; [|auto]. destruct b; [apply nodup_pop | auto]. Qed.

Lemma popped_opt b o y : popped b o y = b && memn y (opt_list o).
Proof. unfold popped. rewrite memn_opt. destruct o; [reflexivity | rewrite andb_false_r; reflexivity]. Qed.

Lemma embed_step_sorted_ok outer inner uva uvk depth s :
  sorted_ok outer -> fwd_apart uva uvk outer -> nonempty_on inner ->
  embed_step outer inner uva uvk depth = Ok s -> sorted_ok s.
Proof.
  intros Ho Hap Hi. unfold embed_step. intros E.
  apply bind_ok in E. destruct E as [i [Ei E]].
  set (stars := mkSorted [] [] (opt_if uva (varargs outer)) [] (opt_if uvk (varkwargs outer)) [] []) in *.
  assert (Hsi : sorted_ok i).
  { eapply merger_sorted_ok; [exact Hi | | exact Ei]. intros H. exfalso. apply H. reflexivity. }
  destruct (merger_Inv _ _ _ Ei) as (_ & _ & _ & _ & _ & _ & _ & Nva & Nvk).
  cbn [stars varargs varkwargs] in Nva, Nvk.
  apply bind_ok in E. destruct E as [n1 [_ E]].
  apply bind_ok in E. destruct E as [n2 [_ E]].
  apply bind_ok in E. destruct E as [[[e_pos e_pok] n3] [Ee E]].
  assert (He : forall y, memn y (e_pos ++ e_pok ++ pokargs i) =
                         memn y (posargs outer) || memn y (pokargs outer)
                         || memn y (posargs i) || memn y (pokargs i)).
  { intros y. rewrite !memn_app. destruct (posargs i) as [|ip0 ips] eqn:Epi.
    - rewrite memn_nil. destruct (pokargs i) as [|ik0 iks] eqn:Epk.
      + inversion Ee; subst. btauto.
      + destruct (has_def ik0); inversion Ee; subst; rewrite ?memn_clear; btauto.
    - apply bind_ok in Ee. destruct Ee as [n3' [_ Ee]]. inversion Ee; subst.
      destruct (has_def ip0);
        repeat first [rewrite memn_clear | rewrite memn_app | rewrite memn_map_kind | rewrite memn_nil]; btauto. }
  apply bind_ok in E. destruct E as [n4 [_ E]].
  apply bind_ok in E. destruct E as [n5 [_ E]].
  apply bind_ok in E. destruct E as [n6 [_ E]].
  inversion E; subst. clear E.
  fold (pop_star uva (varargs outer) (ssrc outer)).
  fold (pop_star uvk (varkwargs outer) (pop_star uva (varargs outer) (ssrc outer))).
  set (o2 := pop_star uvk (varkwargs outer) (pop_star uva (varargs outer) (ssrc outer))).
  fold (overlay o2 (ssrc i)).
  destruct Ho as (O1 & O2 & O3). destruct Hsi as (J1 & J2 & J3).
  assert (Nva' : uva = false -> varargs i = None).
  { intros ->. apply Nva. right. reflexivity. }
  assert (Nvk' : uvk = false -> varkwargs i = None).
  { intros ->. apply Nvk. right. reflexivity. }
  (* key set of the popped outer map *)
  assert (K2 : forall y, src_mem o2 y =
                 memn y (named outer)
                 || (negb uva && memn y (opt_list (varargs outer)))
                 || (negb uvk && memn y (opt_list (varkwargs outer)))).
  { intros y. unfold o2. rewrite !pop_star_mem, O2. fold (memn y (flatten outer)).
    rewrite memn_flatten, !popped_opt.
    destruct Hap as [Ha Hk].
    destruct (memn y (opt_list (varargs outer))) eqn:Eva.
    - destruct (varargs outer) as [p|] eqn:Ep; [|discriminate Eva].
      rewrite memn_opt in Eva. apply N.eqb_eq in Eva. subst y.
      destruct uva.
      + destruct (Ha eq_refl p eq_refl) as [A1 A2]. rewrite A1.
        destruct uvk; cbn; [rewrite ?andb_false_r; reflexivity|]. rewrite (A2 eq_refl). reflexivity.
      + cbn. destruct (memn (pname p) (named outer)); cbn; [|].
        * destruct uvk; cbn; [|reflexivity].
          destruct (memn (pname p) (opt_list (varkwargs outer))) eqn:Evk; cbn; [|reflexivity].
          destruct (varkwargs outer) as [q|] eqn:Eq; [|discriminate Evk].
          rewrite memn_opt in Evk. apply N.eqb_eq in Evk.
          destruct (Hk eq_refl q eq_refl) as [B1 B2]. pose proof (B2 eq_refl) as B3.
          rewrite memn_opt, <- Evk, N.eqb_refl in B3. discriminate B3.
        * destruct uvk; cbn; [|reflexivity].
          destruct (memn (pname p) (opt_list (varkwargs outer))) eqn:Evk; cbn; [|reflexivity].
          destruct (varkwargs outer) as [q|] eqn:Eq; [|discriminate Evk].
          rewrite memn_opt in Evk. apply N.eqb_eq in Evk.
          destruct (Hk eq_refl q eq_refl) as [B1 B2]. pose proof (B2 eq_refl) as B3.
          rewrite memn_opt, <- Evk, N.eqb_refl in B3. discriminate B3.
    - rewrite !andb_false_r, !orb_false_r. cbn [negb andb].
      destruct (memn y (opt_list (varkwargs outer))) eqn:Evk.
      + destruct (varkwargs outer) as [q|] eqn:Eq; [|discriminate Evk].
        rewrite memn_opt in Evk. apply N.eqb_eq in Evk. subst y.
        destruct uvk; cbn; [|rewrite ?orb_true_r; reflexivity].
        destruct (Hk eq_refl q eq_refl) as [B1 _]. rewrite B1. reflexivity.
      + destruct (memn y (named outer)), uva, uvk; reflexivity. }
  assert (N2 : NoDup (keys o2)) by (unfold o2; apply pop_star_nodup; apply pop_star_nodup; exact O1).
  assert (G2 : forall y, src_mem o2 y = true -> src_get o2 y <> []).
  { intros y Hy. unfold o2 in *. rewrite !pop_star_mem in Hy. rewrite !pop_star_get.
    apply andb_true_iff in Hy. destruct Hy as [Hy H2]. apply andb_true_iff in Hy. destruct Hy as [Hy H1].
    apply negb_true_iff in H1. apply negb_true_iff in H2. rewrite H1, H2.
    apply O3. rewrite <- O2. exact Hy. }
  unfold sorted_ok, wf_src. cbn [ssrc]. split; [apply overlay_nodup; exact J1|].
  assert (KK : forall x, src_mem (overlay o2 (ssrc i)) x =
     mem x (names_of (flatten (mkSorted e_pos (e_pok ++ pokargs i) (if uva then varargs i else varargs outer)
        (od_update (od_update [] (kwoargs outer)) (kwoargs i)) (if uvk then varkwargs i else varkwargs outer)
        (overlay o2 (ssrc i)) (merge_depths (sdep outer) (dep_incr depth (sdep i))))))).
  { intros y. rewrite overlay_mem, J2, K2. fold (memn y (flatten i)).
    match goal with |- _ = mem y (names_of ?X) => fold (memn y X) end.
    rewrite (memn_flatten y i).
    unfold flatten at 1. cbn [posargs pokargs varargs kwoargs varkwargs].
    rewrite !memn_app. pose proof (He y) as Hey. rewrite !memn_app in Hey.
    rewrite (orb_cong3 _ _ _ _ _ Hey). rewrite !memn_od_update, memn_nil.
    unfold named. rewrite !memn_app.
    destruct uva, uvk; cbn [negb andb orb];
      rewrite ?(Nva' eq_refl), ?(Nvk' eq_refl); cbn [opt_list]; rewrite ?memn_nil; btauto. }
  split; [exact KK|].
  intros x Hx. rewrite <- KK, overlay_mem in Hx. rewrite (overlay_get _ N2).
  destruct (src_mem o2 x) eqn:E2; [apply G2; exact E2|].
  rewrite orb_false_r in Hx. apply J3. rewrite <- J2. exact Hx.
Qed.

Lemma valid_sig_validate ps : valid_sig ps = true -> validate ps = true.
Proof.
  unfold valid_sig. intros H. apply andb_true_iff in H. destruct H as [H _].
  apply andb_true_iff in H. tauto.
Qed.

Lemma sort_params_sorted_ok s : valid_sig (params s) = true -> src_ok s -> sorted_ok (sort_params s).
Proof.
  intros Hv H. unfold sorted_ok. rewrite sort_params_ssrc, (sort_flatten_roundtrip s Hv). exact H.
Qed.

Lemma sort_params_nodup s : valid_sig (params s) = true -> NoDup (names_of (flatten (sort_params s))).
Proof.
  intros Hv. rewrite (sort_flatten_roundtrip s Hv). apply validate_nodup. apply valid_sig_validate. exact Hv.
Qed.

(* C08 keys / non-empty for embed of two signatures (the case forwards uses) *)
Theorem embed2_src_ok o i uva uvk r :
  embed [o; i] uva uvk = Ok r ->
  valid_sig (params o) = true -> src_ok o -> src_nonempty i -> src_ok r.
Proof.
  cbn [embed embed_steps]. intros E Hv Ho Hi.
  apply bind_ok in E. destruct E as [acc [E1 E2]].
  apply bind_ok in E1. destruct E1 as [acc1 [E0 E1]]. apply to_incompatible_ok in E0.
  inversion E1; subst. clear E1.
  eapply apply_params_src_ok; [|exact E2].
  eapply embed_step_sorted_ok; [| | |exact E0].
  - apply sort_params_sorted_ok; assumption.
  - apply nodup_names_fwd_apart. apply sort_params_nodup. exact Hv.
  - apply sort_params_nonempty. exact Hi.
Qed.

(* ---- the n-ary fold: star names kept apart from everything else ---- *)
Section Apart.
Variables NN VA VK : list name.
Hypothesis NN_VA : forall x, In x NN -> ~ In x VA.
Hypothesis NN_VK : forall x, In x NN -> ~ In x VK.
Hypothesis VA_VK : forall x, In x VA -> ~ In x VK.

Definition sorted_in (so : sorted) : Prop :=
  (forall y, memn y (named so) = true -> In y NN) /\
  (forall p, varargs so = Some p -> In (pname p) VA) /\
  (forall p, varkwargs so = Some p -> In (pname p) VK).

Lemma sorted_in_fwd_apart uva uvk so : sorted_in so -> fwd_apart uva uvk so.
Proof.
  intros (H1 & H2 & H3). split.
  - intros _ p Hp. split.
    + destruct (memn (pname p) (named so)) eqn:E; [|reflexivity].
      exfalso. apply (NN_VA _ (H1 _ E)). apply H2. exact Hp.
    + intros _. rewrite memn_opt. destruct (varkwargs so) as [q|] eqn:Eq; [|reflexivity].
      destruct (N.eqb_spec (pname p) (pname q)) as [E|E]; [|reflexivity].
      exfalso. apply (VA_VK (pname p)); [apply H2; exact Hp | rewrite E; apply H3; reflexivity].
  - intros _ p Hp. split.
    + destruct (memn (pname p) (named so)) eqn:E; [|reflexivity].
      exfalso. apply (NN_VK _ (H1 _ E)). apply H3. exact Hp.
    + intros _. rewrite memn_opt. destruct (varargs so) as [q|] eqn:Eq; [|reflexivity].
      destruct (N.eqb_spec (pname p) (pname q)) as [E|E]; [|reflexivity].
      exfalso. apply (VA_VK (pname q)); [apply H2; reflexivity | rewrite <- E; apply H3; exact Hp].
Qed.

Lemma embed_step_sorted_in outer inner uva uvk depth s :
  sorted_in outer -> sorted_in inner ->
  embed_step outer inner uva uvk depth = Ok s -> sorted_in s.
Proof.
  intros (O1 & O2 & O3) (J1 & J2 & J3). unfold embed_step. intros E.
  apply bind_ok in E. destruct E as [i [Ei E]].
  destruct (merger_Inv _ _ _ Ei) as (_ & _ & _ & _ & Pn & Sva & Svk & _ & _).
  cbn [varargs varkwargs] in Sva, Svk.
  assert (Hin : forall y, memn y (named i) = true -> In y NN).
  { intros y Hy. apply Pn in Hy. rewrite memn_app in Hy. unfold named at 2 in Hy.
    cbn [posargs pokargs kwoargs app] in Hy. rewrite memn_nil, orb_false_r in Hy. apply J1. exact Hy. }
  apply bind_ok in E. destruct E as [n1 [_ E]].
  apply bind_ok in E. destruct E as [n2 [_ E]].
  apply bind_ok in E. destruct E as [[[e_pos e_pok] n3] [Ee E]].
  assert (He : forall y, memn y (e_pos ++ e_pok ++ pokargs i) =
                         memn y (posargs outer) || memn y (pokargs outer)
                         || memn y (posargs i) || memn y (pokargs i)).
  { intros y. rewrite !memn_app. destruct (posargs i) as [|ip0 ips] eqn:Epi.
    - rewrite memn_nil. destruct (pokargs i) as [|ik0 iks] eqn:Epk.
      + inversion Ee; subst. btauto.
      + destruct (has_def ik0); inversion Ee; subst; rewrite ?memn_clear; btauto.
    - apply bind_ok in Ee. destruct Ee as [n3' [_ Ee]]. inversion Ee; subst.
      destruct (has_def ip0);
        repeat first [rewrite memn_clear | rewrite memn_app | rewrite memn_map_kind | rewrite memn_nil]; btauto. }
  apply bind_ok in E. destruct E as [n4 [_ E]].
  apply bind_ok in E. destruct E as [n5 [_ E]].
  apply bind_ok in E. destruct E as [n6 [_ E]].
  inversion E; subst. clear E. unfold sorted_in. cbn [varargs varkwargs]. split; [|split].
  - intros y. unfold named at 1. cbn [posargs pokargs kwoargs].
    rewrite app_assoc, memn_app, He, !memn_od_update, memn_nil. intros H.
    assert (Ho : memn y (named outer) = true \/ memn y (named i) = true).
    { unfold named. rewrite !memn_app.
      destruct (memn y (posargs outer)), (memn y (pokargs outer)), (memn y (kwoargs outer)),
        (memn y (posargs i)), (memn y (pokargs i)), (memn y (kwoargs i)); cbn in *; auto. }
    destruct Ho as [Ho|Ho]; [apply O1; exact Ho | apply Hin; exact Ho].
  - intros p. destruct uva; [|apply O2]. intros Hp. rewrite Hp in Sva. cbn in Sva.
    destruct Sva as [[a [Ha [En _]]]|[b [Hb [En _]]]]; rewrite En.
    + apply J2. exact Ha.
    + apply O2. exact Hb.
  - intros p. destruct uvk; [|apply O3]. intros Hp. rewrite Hp in Svk. cbn in Svk.
    destruct Svk as [[a [Ha [En _]]]|[b [Hb [En _]]]]; rewrite En.
    + apply J3. exact Ha.
    + apply O3. exact Hb.
Qed.

Lemma embed_steps_sorted_ok ss : forall acc uva uvk depth r,
  sorted_ok acc -> sorted_in acc ->
  Forall (fun s => src_nonempty s /\ sorted_in (sort_params s)) ss ->
  embed_steps acc ss uva uvk depth = Ok r -> sorted_ok r.
Proof.
  induction ss as [|s ss IH]; intros acc uva uvk depth r Hacc Hin Hss; cbn [embed_steps].
  - intros E; inversion E; subst; exact Hacc.
  - inversion Hss as [|s' ss' [Hs1 Hs2] Hss']; subst. intros E.
    apply bind_ok in E. destruct E as [acc' [E1 E2]]. apply to_incompatible_ok in E1.
    eapply IH; [| |exact Hss'|exact E2].
    + eapply embed_step_sorted_ok; [exact Hacc | apply sorted_in_fwd_apart; exact Hin | | exact E1].
      apply sort_params_nonempty. exact Hs1.
    + eapply embed_step_sorted_in; [exact Hin | exact Hs2 | exact E1].
Qed.
End Apart.

(* names of the named / star parameters of a list of inputs *)
Definition named_names (ss : list sigT) : list name :=
  flat_map (fun s => names_of (filter is_named (params s))) ss.
Definition va_names (ss : list sigT) : list name :=
  flat_map (fun s => names_of (filter (is_kind VP) (params s))) ss.
Definition vk_names (ss : list sigT) : list name :=
  flat_map (fun s => names_of (filter (is_kind VK) (params s))) ss.

(* no star parameter of any input is named like a named parameter of any
   input, and no star-args like a star-kwargs *)
Definition stars_apart (ss : list sigT) : bool :=
  disjointb (named_names ss) (va_names ss) && disjointb (named_names ss) (vk_names ss)
  && disjointb (va_names ss) (vk_names ss).

Lemma disjointb_spec a b : disjointb a b = true -> forall x, In x a -> ~ In x b.
Proof.
  unfold disjointb. intros H x Hx Hb. rewrite forallb_forall in H. specialize (H x Hx).
  apply negb_true_iff in H. apply mem_false_In in H. exact (H Hb).
Qed.

Lemma sort_params_sorted_in ss s : In s ss ->
  sorted_in (named_names ss) (va_names ss) (vk_names ss) (sort_params s).
Proof.
  intros Hs. destruct (sort_params_kinds s) as (K1 & K2 & K3 & K4 & K5).
  rewrite Forall_forall in K1, K2, K4.
  assert (G : forall (f : param -> bool) p, In p (flatten (sort_params s)) -> f p = true ->
                In (pname p) (flat_map (fun s => names_of (filter f (params s))) ss)).
  { intros f p Hp Hf. apply in_flat_map. exists s. split; [exact Hs|].
    unfold names_of. apply in_map. apply filter_In. split; [apply sort_params_In; exact Hp | exact Hf]. }
  split; [|split].
  - intros y Hy. apply memn_In in Hy. destruct Hy as [p [Hp <-]].
    apply (G is_named); [apply named_flatten; exact Hp|].
    unfold named in Hp. apply in_app_or in Hp. unfold is_named.
    destruct Hp as [Hp|Hp]; [rewrite (K1 _ Hp); reflexivity|].
    apply in_app_or in Hp. destruct Hp as [Hp|Hp]; [rewrite (K2 _ Hp) | rewrite (K4 _ Hp)]; reflexivity.
  - intros p Hp. apply (G (is_kind VP)); [apply opt_in_flatten_va; exact Hp|].
    unfold is_kind. rewrite (K3 _ Hp). reflexivity.
  - intros p Hp. apply (G (is_kind VK)); [apply opt_in_flatten_vk; exact Hp|].
    unfold is_kind. rewrite (K5 _ Hp). reflexivity.
Qed.

(* C08 keys / non-empty for the n-ary embed *)
Theorem embed_src_ok s0 ss uva uvk r :
  embed (s0 :: ss) uva uvk = Ok r ->
  valid_sig (params s0) = true -> stars_apart (s0 :: ss) = true ->
  src_ok s0 -> Forall src_nonempty ss -> src_ok r.
Proof.
  cbn [embed]. intros E Hv Hap H0 Hss.
  apply bind_ok in E. destruct E as [acc [E1 E2]].
  eapply apply_params_src_ok; [|exact E2].
  unfold stars_apart in Hap. apply andb_true_iff in Hap. destruct Hap as [Hap A3].
  apply andb_true_iff in Hap. destruct Hap as [A1 A2].
  eapply (embed_steps_sorted_ok (named_names (s0 :: ss)) (va_names (s0 :: ss)) (vk_names (s0 :: ss))
            (disjointb_spec _ _ A1) (disjointb_spec _ _ A2) (disjointb_spec _ _ A3)); [| | |exact E1].
  - apply sort_params_sorted_ok; assumption.
  - apply sort_params_sorted_in. left. reflexivity.
  - apply Forall_forall. intros s Hs. split.
    + rewrite Forall_forall in Hss. apply Hss. exact Hs.
    + apply sort_params_sorted_in. right. exact Hs.
Qed.

(* ================================================================== *)
(* Part 5 — mask / sig_partial / forwards                              *)

(* number of parameters called y *)
Definition cntn (y : name) (ps : list param) : nat :=
  length (filter (fun p => N.eqb y (pname p)) ps).

Lemma cntn_app y a b : cntn y (a ++ b) = (cntn y a + cntn y b)%nat.
Proof. unfold cntn. rewrite filter_app, app_length. reflexivity. Qed.

Lemma cntn_cons y p ps : cntn y (p :: ps) = ((if N.eqb y (pname p) then 1 else 0) + cntn y ps)%nat.
Proof. unfold cntn. cbn [filter]. destruct (N.eqb y (pname p)); reflexivity. Qed.

Lemma cntn_nil y : cntn y [] = 0%nat.
Proof. reflexivity. Qed.

Lemma memn_cntn y ps : memn y ps = true -> (1 <= cntn y ps)%nat.
Proof.
  induction ps as [|p ps IH]; [discriminate|]. rewrite memn_cons, cntn_cons.
  destruct (N.eqb y (pname p)); cbn [orb]; [lia|]. intros H. apply IH in H. lia.
Qed.

Lemma memn_false_cntn y ps : memn y ps = false -> cntn y ps = 0%nat.
Proof.
  induction ps as [|p ps IH]; [reflexivity|]. rewrite memn_cons, cntn_cons.
  destruct (N.eqb y (pname p)); cbn [orb]; [discriminate|]. exact IH.
Qed.

Lemma cntn_memn_false y ps : cntn y ps = 0%nat -> memn y ps = false.
Proof. intros H. destruct (memn y ps) eqn:E; [apply memn_cntn in E; lia | reflexivity]. Qed.

Lemma cntn_od_set_le y d p :
  (cntn y (od_set d p) <= cntn y d + (if N.eqb y (pname p) then 1 else 0))%nat.
Proof.
  induction d as [|q d IH]; cbn [od_set].
  - rewrite cntn_cons, cntn_nil. lia.
  - destruct (N.eqb_spec (pname p) (pname q)) as [E|E]; rewrite !cntn_cons.
    + rewrite E. destruct (N.eqb y (pname q)); lia.
    + destruct (N.eqb y (pname q)), (N.eqb y (pname p)); lia.
Qed.

Lemma cntn_od_update_le y u : forall d, (cntn y (od_update d u) <= cntn y d + cntn y u)%nat.
Proof.
  unfold od_update. induction u as [|p u IH]; intros d; cbn [fold_left]; [rewrite cntn_nil; lia|].
  specialize (IH (od_set d p)). pose proof (cntn_od_set_le y d p) as H. rewrite cntn_cons. lia.
Qed.

Lemma cntn_remove_le y x ps : (cntn y (remove_param x ps) <= cntn y ps)%nat.
Proof.
  induction ps as [|q ps IH]; cbn [remove_param]; [lia|].
  destruct (N.eqb x (pname q)); rewrite ?cntn_cons; lia.
Qed.

Lemma cntn_map_kind y k ps : cntn y (map (set_kind k) ps) = cntn y ps.
Proof. induction ps as [|q ps IH]; [reflexivity|]. cbn [map]. rewrite !cntn_cons, IH. reflexivity. Qed.

Lemma nodup_cntn ps y : NoDup (names_of ps) -> (cntn y ps <= 1)%nat.
Proof.
  induction ps as [|p ps IH]; intros H; [cbn; lia|]. cbn [names_of map] in H.
  inversion H as [|? ? Hp Hn]; subst. rewrite cntn_cons. specialize (IH Hn).
  destruct (N.eqb_spec y (pname p)) as [->|Hy]; [|lia].
  apply mem_false_In in Hp. fold (memn (pname p) ps) in Hp. rewrite (memn_false_cntn _ _ Hp). lia.
Qed.

Lemma memn_remove y x ps : memn y (remove_param x ps) = memn y ps && negb (N.eqb y x).
Proof.
  induction ps as [|q ps IH]; cbn [remove_param]; [reflexivity|].
  destruct (N.eqb_spec x (pname q)) as [E|E]; rewrite ?memn_cons, IH.
  - subst x. destruct (N.eqb y (pname q)); cbn; [rewrite andb_false_r; reflexivity | reflexivity].
  - destruct (N.eqb_spec y (pname q)) as [->|Hy]; cbn [orb]; [|reflexivity].
    destruct (N.eqb_spec (pname q) x); [congruence|]. reflexivity.
Qed.

Lemma split_at_name_spec x ps : forall a q b,
  split_at_name x ps = Some (a, q, b) -> ps = a ++ q :: b /\ pname q = x.
Proof.
  induction ps as [|p ps IH]; intros a q b; cbn [split_at_name]; [discriminate|].
  destruct (N.eqb_spec x (pname p)) as [E|E].
  - intros H; inversion H; subst. split; reflexivity.
  - destruct (split_at_name x ps) as [[[a' q'] b']|]; [|discriminate].
    intros H; inversion H; subst. destruct (IH _ _ _ eq_refl) as [A B]. subst ps. split; [reflexivity | exact B].
Qed.

Lemma split_at_name_none x ps : split_at_name x ps = None -> memn x ps = false.
Proof.
  induction ps as [|p ps IH]; cbn [split_at_name]; [reflexivity|]. rewrite memn_cons.
  destruct (N.eqb x (pname p)); [discriminate|].
  destruct (split_at_name x ps) as [[[a q] b]|]; [discriminate|]. intros _. apply IH. reflexivity.
Qed.

(* no key with an empty list *)
Definition NE (m : srcmap) : Prop := forall y, src_mem m y = true -> src_get m y <> [].

Lemma NE_pop m k : NE m -> NE (src_pop m k).
Proof.
  intros H y. rewrite src_mem_pop, src_get_pop. intros Hy. apply andb_true_iff in Hy.
  destruct Hy as [Hy Hk]. apply negb_true_iff in Hk. rewrite Hk. apply H. exact Hy.
Qed.

Lemma NE_pop_all ks : forall m, NE m -> NE (src_pop_all m ks).
Proof.
  unfold src_pop_all. induction ks as [|k ks IH]; intros m H; cbn [fold_left]; [exact H|].
  apply IH. apply NE_pop. exact H.
Qed.

Lemma NE_pop_star b o m : NE m -> NE (pop_star b o m).
Proof. unfold pop_star. destruct o; [|auto]. destruct b; [apply NE_pop | auto]. Qed.

Section MaskInv.
Variable pm : pmode.
Variable fx : list param.          (* parameters mask_names never touches *)
Variable ova : option param.       (* the signature's own star-args *)

Definition live (st : kstate) (y : name) : bool :=
  memn y (k_pok st) || memn y (opt_list (k_va st)) || memn y (k_kwo st) || memn y fx.

Definition KI (st : kstate) : Prop :=
  NoDup (keys (k_src st)) /\
  (forall y, src_mem (k_src st) y = live st y) /\
  NE (k_src st) /\
  (* the star-args is named like no positional-or-keyword / untouched parameter;
     in partial mode a keyword-only parameter created by a bound keyword may
     carry its name (then _mask keeps the entry when the star goes) *)
  (forall v, k_va st = Some v ->
     ova = Some v /\ memn (pname v) (k_pok st) = false /\
     (pm = None -> memn (pname v) (k_kwo st) = false) /\
     memn (pname v) fx = false) /\
  (pm = None -> forall y, (cntn y (k_pok st) + cntn y (k_kwo st) + cntn y fx <= 1)%nat).

Lemma va_false_of st x : KI st ->
  (memn x (k_pok st) = true \/ (pm = None /\ memn x (k_kwo st) = true) \/ memn x fx = true) ->
  memn x (opt_list (k_va st)) = false.
Proof.
  intros (_ & _ & _ & K4 & _) H. rewrite memn_opt. destruct (k_va st) as [v|]; [|reflexivity].
  destruct (N.eqb_spec x (pname v)) as [->|]; [|reflexivity].
  destruct (K4 v eq_refl) as (_ & A & B & C). rewrite A, C in H.
  destruct H as [H|[[Hn H]|H]]; try discriminate. rewrite (B Hn) in H. discriminate.
Qed.

(* the star's entry goes unless a keyword-only parameter carries its name *)
Definition vin (kwo : list param) (o : option param) : bool :=
  match o with Some v => memn (pname v) kwo | None => false end.

Lemma isSome_find x ps : isSome (find_param x ps) = memn x ps.
Proof.
  induction ps as [|p ps IH]; [reflexivity|]. cbn [find_param]. rewrite memn_cons.
  destruct (N.eqb x (pname p)); [reflexivity | exact IH].
Qed.

Lemma pop_unless_eq kwo o m :
  match o with
  | Some v => if isSome (find_param (pname v) kwo) then m else src_pop m (pname v)
  | None => m
  end = pop_star (negb (vin kwo o)) o m.
Proof.
  destruct o as [v|]; [|reflexivity]. cbn [vin pop_star]. rewrite isSome_find.
  destruct (memn (pname v) kwo); reflexivity.
Qed.

Lemma mask_name_KI hv st kv st' :
  KI st -> mask_name pm hv st kv = Ok st' -> KI st'.
Proof.
  intros HK. pose proof HK as (K1 & K2 & K3 & K4 & K5). unfold mask_name.
  set (x := fst kv) in *.
  destruct (mem x (k_consumed st)); [discriminate|].
  destruct (split_at_name x (k_pok st)) as [[[before p] after]|] eqn:Es.
  - destruct (split_at_name_spec _ _ _ _ _ Es) as [Hpok Hp].
    assert (Hxin : memn x (k_pok st) = true).
    { rewrite Hpok, memn_app, memn_cons, Hp, N.eqb_refl. apply orb_true_r. }
    pose proof (va_false_of st x HK (or_introl Hxin)) as Hvx.
    assert (Hlive : forall y, live st y = memn y before || N.eqb y x || memn y after
                                 || memn y (opt_list (k_va st)) || memn y (k_kwo st) || memn y fx).
    { intros y. unfold live. rewrite Hpok, memn_app, memn_cons, Hp. btauto. }
    assert (Hva : forall y, memn y (opt_list (k_va st)) = true ->
                   memn y before = false /\ N.eqb y x = false /\ memn y after = false /\
                   (pm = None -> memn y (k_kwo st) = false) /\ memn y fx = false /\
                   vin (k_kwo st) (k_va st) = memn y (k_kwo st)).
    { intros y Hy. destruct (k_va st) as [v|] eqn:Ev; [|discriminate Hy].
      rewrite memn_opt in Hy. apply N.eqb_eq in Hy. subst y.
      destruct (K4 v eq_refl) as (_ & A & B & C).
      rewrite Hpok, memn_app, memn_cons, Hp in A.
      destruct (memn (pname v) before), (N.eqb (pname v) x), (memn (pname v) after); try discriminate A.
      cbn [vin]. repeat split; auto. }
    (* the star's name among the new keyword-only parameters: only the old ones matter *)
    assert (Hvin : forall extra, (forall y, memn y extra = true -> memn y after = true \/ N.eqb y x = true) ->
              forall kwo2, (forall y, memn y kwo2 = memn y (k_kwo st) || memn y extra) ->
              vin kwo2 (k_va st) = vin (k_kwo st) (k_va st)).
    { intros extra Hex kwo2 Hk2. destruct (k_va st) as [v|] eqn:Ev; [|reflexivity]. cbn [vin].
      rewrite Hk2. destruct (memn (pname v) extra) eqn:Ee; [|apply orb_false_r].
      exfalso. destruct (Hva (pname v)) as (_ & B & C & _); [rewrite memn_opt; apply N.eqb_refl|].
      destruct (Hex _ Ee) as [H|H]; [rewrite C in H | rewrite B in H]; discriminate. }
    destruct pm as [pobj|] eqn:Epm.
    + intros E; inversion E; subst st'. clear E.
      rewrite pop_unless_eq.
      set (kwo2 := od_set (od_update (k_kwo st) (map (set_kind KO) after))
                          (set_def (Some (snd kv)) (set_kind KO p))).
      assert (Hk2 : forall y, memn y kwo2 = memn y (k_kwo st) || memn y (p :: after)).
      { intros y. unfold kwo2. rewrite memn_od_set, memn_od_update, memn_map_kind, memn_cons.
        change (pname (set_def (Some (snd kv)) (set_kind KO p))) with (pname p). btauto. }
      assert (Ev2 : vin kwo2 (k_va st) = vin (k_kwo st) (k_va st)).
      { apply (Hvin (p :: after)); [|exact Hk2]. intros y. rewrite memn_cons, Hp. intros H.
        apply orb_true_iff in H. tauto. }
      rewrite Ev2.
      unfold KI. cbn [k_src k_pok k_va k_kwo]. split; [|split; [|split; [|split]]].
      * apply pop_star_nodup. exact K1.
      * intros y. rewrite pop_star_mem, popped_opt, K2, Hlive. unfold live. cbn [k_pok k_va k_kwo opt_list].
        rewrite Hk2, memn_cons, Hp, memn_nil.
        destruct (memn y (opt_list (k_va st))) eqn:EV.
        -- destruct (Hva y EV) as (A & B & C & _ & F & G). rewrite A, B, C, F, G.
           destruct (memn y (k_kwo st)); reflexivity.
        -- rewrite andb_false_r. cbn [negb]. btauto.
      * apply NE_pop_star. exact K3.
      * intros v H; discriminate H.
      * intros H; congruence.
    + intros E; inversion E; subst st'. clear E.
      rewrite pop_unless_eq.
      assert (Hk2 : forall y, memn y (od_update (k_kwo st) (map (set_kind KO) after))
                              = memn y (k_kwo st) || memn y after).
      { intros y. rewrite memn_od_update, memn_map_kind. reflexivity. }
      assert (Ev2 : vin (od_update (k_kwo st) (map (set_kind KO) after)) (k_va st) = false).
      { rewrite (Hvin after); [| intros y H; left; exact H | exact Hk2].
        destruct (k_va st) as [v|] eqn:Ev; [|reflexivity]. cbn [vin].
        destruct (K4 v eq_refl) as (_ & _ & B & _). apply B. reflexivity. }
      rewrite Ev2. cbn [negb].
      pose proof (K5 eq_refl x) as Hc. rewrite Hpok, cntn_app, cntn_cons, Hp, N.eqb_refl in Hc.
      assert (Z1 : memn x before = false) by (apply cntn_memn_false; lia).
      assert (Z2 : memn x after = false) by (apply cntn_memn_false; lia).
      assert (Z3 : memn x (k_kwo st) = false) by (apply cntn_memn_false; lia).
      assert (Z4 : memn x fx = false) by (apply cntn_memn_false; lia).
      unfold KI. cbn [k_src k_pok k_va k_kwo]. split; [|split; [|split; [|split]]].
      * apply pop_star_nodup. apply nodup_pop. exact K1.
      * intros y. rewrite pop_star_mem, popped_opt, src_mem_pop, K2, Hlive. unfold live.
        cbn [k_pok k_va k_kwo opt_list andb]. rewrite Hk2, memn_nil.
        destruct (N.eqb_spec y x) as [->|Hy].
        -- rewrite Z1, Z2, Z3, Z4, Hvx. reflexivity.
        -- destruct (memn y (opt_list (k_va st))) eqn:EV.
           ++ destruct (Hva y EV) as (A & B & C & D & F & _). rewrite A, C, (D eq_refl), F. reflexivity.
           ++ cbn [negb]. btauto.
      * apply NE_pop_star. apply NE_pop. exact K3.
      * intros v H; discriminate H.
      * intros _ y. pose proof (K5 eq_refl y) as Hy. rewrite Hpok, cntn_app, cntn_cons in Hy.
        pose proof (cntn_od_update_le y (map (set_kind KO) after) (k_kwo st)) as Hu.
        rewrite cntn_map_kind in Hu. lia.
  - apply split_at_name_none in Es.
    destruct (find_param x (k_kwo st)) as [p|] eqn:Ef.
    + destruct (find_param_In _ _ _ Ef) as [Hin Hp].
      assert (Hxin : memn x (k_kwo st) = true) by (rewrite <- Hp; apply memn_intro; exact Hin).
      destruct pm as [pobj|] eqn:Epm.
      * intros E; inversion E; subst st'. clear E.
        unfold KI. cbn [k_src k_pok k_va k_kwo]. split; [|split; [|split; [|split]]]; try assumption.
        -- intros y. rewrite K2. unfold live. cbn [k_pok k_va k_kwo]. rewrite memn_od_set.
           change (pname (set_def (Some (snd kv)) (set_kind KO p))) with (pname p). rewrite Hp.
           destruct (N.eqb_spec y x) as [->|Hy]; [rewrite Hxin|]; btauto.
        -- intros v H. destruct (K4 v H) as (A0 & A & B & C). repeat split; try assumption. intros Hn; congruence.
        -- intros H; congruence.
      * intros E; inversion E; subst st'. clear E.
        pose proof (va_false_of st x HK (or_intror (or_introl (conj Epm Hxin)))) as Hvx.
        pose proof (K5 eq_refl x) as Hc. apply memn_cntn in Hxin.
        assert (Z4 : memn x fx = false) by (apply cntn_memn_false; lia).
        unfold KI. cbn [k_src k_pok k_va k_kwo]. split; [|split; [|split; [|split]]].
        -- apply nodup_pop. exact K1.
        -- intros y. rewrite src_mem_pop, K2. unfold live. cbn [k_pok k_va k_kwo]. rewrite memn_remove.
           destruct (N.eqb_spec y x) as [->|Hy]; [rewrite Es, Hvx, Z4|]; btauto.
        -- apply NE_pop. exact K3.
        -- intros v H. destruct (K4 v H) as (A0 & A & B & C). repeat split; try assumption.
           intros _. rewrite memn_remove, (B eq_refl). reflexivity.
        -- intros _ y. pose proof (K5 eq_refl y) as Hy. pose proof (cntn_remove_le y x (k_kwo st)). lia.
    + apply find_param_none in Ef. destruct (negb hv); [discriminate|].
      destruct pm as [pobj|] eqn:Epm.
      * intros E; inversion E; subst st'. clear E.
        unfold KI. cbn [k_src k_pok k_va k_kwo]. split; [|split; [|split; [|split]]].
        -- apply nodup_set. exact K1.
        -- intros y. rewrite src_mem_set, K2. unfold live. cbn [k_pok k_va k_kwo]. rewrite memn_od_set.
           cbn [pname]. btauto.
        -- intros y. rewrite src_mem_set, src_get_set. destruct (N.eqb y x); [discriminate|].
           rewrite orb_false_r. apply K3.
        -- intros v H. destruct (K4 v H) as (A0 & A & B & C). repeat split; try assumption. intros Hn; congruence.
        -- intros H; congruence.
      * intros E; inversion E; subst st'. clear E. exact HK.
Qed.

Lemma mask_names_KI hv kvs : forall st st',
  KI st -> mask_names pm hv st kvs = Ok st' -> KI st'.
Proof.
  induction kvs as [|kv kvs IH]; intros st st' Hst; cbn [mask_names].
  - intros E; inversion E; subst; exact Hst.
  - intros E. apply bind_ok in E. destruct E as [st1 [E1 E2]].
    eapply IH; [|exact E2]. eapply mask_name_KI; [exact Hst | exact E1].
Qed.
End MaskInv.

Lemma skipn_split (n : nat) (a b : list param) :
  a ++ b = firstn n (a ++ b) ++ skipn n a ++ skipn (n - length a) b.
Proof. rewrite <- skipn_app. symmetry. apply firstn_skipn. Qed.

Lemma pop_star_true o m :
  match o with Some v => src_pop m (pname v) | None => m end = pop_star true o m.
Proof. destruct o; reflexivity. Qed.

Lemma cntn_opt_self v : cntn (pname v) (opt_list (Some v)) = 1%nat.
Proof. cbn [opt_list]. rewrite cntn_cons, N.eqb_refl, cntn_nil. reflexivity. Qed.

Ltac cnt_case b E := destruct b eqn:E; [apply memn_cntn in E|].

(* C08 keys / non-empty for _mask in both modes.  In partial mode (pm = Some _)
   the star-kwargs parameter is not hidden (signature(partial) never hides it).
   (Before the repair of _mask the bound keyword names also had to avoid the name
   of the star-args parameter: partial(f, args=7, a=7) for f(a, *args, **kw) lost
   the entry of the new keyword-only `args`; see sig_partial_star_named_keyword.) *)
Theorem mask_gen_src_ok s n h named0 pm r :
  mask_gen s n h named0 pm = Ok r ->
  valid_sig (params s) = true -> src_ok s ->
  (pm <> None -> (h_kwargs h || h_varkwargs h) = false) ->
  src_ok r.
Proof.
  intros E Hv Hs Hpm. unfold mask_gen in E.
  set (so := sort_params s) in *.
  pose proof (sort_params_sorted_ok s Hv Hs) as (S1 & S2 & S3). fold so in S1, S2, S3.
  pose proof (sort_params_nodup s Hv) as Hnd. fold so in Hnd.
  apply bind_ok in E. destruct E as [[[pos1 pok1] consumed] [Ec E]].
  assert (Hc : exists gone, posargs so ++ pokargs so = gone ++ pos1 ++ pok1 /\ consumed = names_of gone).
  { destruct (h_args h).
    - inversion Ec; subst. exists (posargs so ++ pokargs so). rewrite app_nil_r. auto.
    - destruct (Nat.eqb n 0).
      + inversion Ec; subst. exists []. auto.
      + destruct (_ && _); [discriminate|]. inversion Ec; subst.
        exists (firstn n (posargs so ++ pokargs so)). split; [apply skipn_split | reflexivity]. }
  destruct Hc as [gone [Hg Hcons]]. clear Ec.
  assert (Hcnt : forall y, (cntn y gone + cntn y pos1 + cntn y pok1 + cntn y (opt_list (varargs so))
                            + cntn y (kwoargs so) + cntn y (opt_list (varkwargs so)) <= 1)%nat).
  { intros y. pose proof (nodup_cntn (flatten so) y Hnd) as H. unfold flatten in H.
    rewrite app_assoc, Hg in H. rewrite !cntn_app in H. lia. }
  assert (Hflat : forall y, memn y (flatten so) =
            memn y gone || memn y pos1 || memn y pok1 || memn y (opt_list (varargs so))
            || memn y (kwoargs so) || memn y (opt_list (varkwargs so))).
  { intros y. unfold flatten. rewrite app_assoc, Hg, !memn_app. btauto. }
  assert (S3' : NE (ssrc so)).
  { intros y Hy. apply S3. rewrite <- S2. exact Hy. }
  set (src1 := src_pop_all (ssrc so) consumed) in *.
  assert (C1 : NoDup (keys src1) /\ NE src1 /\
               forall y, src_mem src1 y = memn y pos1 || memn y pok1 || memn y (opt_list (varargs so))
                                          || memn y (kwoargs so) || memn y (opt_list (varkwargs so))).
  { split; [apply nodup_pop_all; exact S1|]. split; [apply NE_pop_all; exact S3'|].
    intros y. unfold src1. rewrite src_pop_all_mem, S2, Hcons. fold (memn y (flatten so)) (memn y gone).
    rewrite Hflat. pose proof (Hcnt y) as Hy.
    cnt_case (memn y gone) EG; cnt_case (memn y pos1) EP; cnt_case (memn y pok1) EK;
      cnt_case (memn y (opt_list (varargs so))) EV; cnt_case (memn y (kwoargs so)) EW;
      cnt_case (memn y (opt_list (varkwargs so))) EZ; first [reflexivity | exfalso; lia]. }
  destruct C1 as (C1a & C1b & C1c).
  destruct (if h_args h || h_varargs h then _ else _) as [va1 src2] eqn:Eva.
  assert (C2 : (va1 = None \/ va1 = varargs so) /\ NoDup (keys src2) /\ NE src2 /\
               forall y, src_mem src2 y = memn y pos1 || memn y pok1 || memn y (opt_list va1)
                                          || memn y (kwoargs so) || memn y (opt_list (varkwargs so))).
  { destruct (h_args h || h_varargs h); inversion Eva; subst; clear Eva.
    - rewrite pop_star_true. split; [left; reflexivity|].
      split; [apply pop_star_nodup; exact C1a|]. split; [apply NE_pop_star; exact C1b|].
      intros y. rewrite pop_star_mem, popped_opt, C1c. cbn [opt_list andb]. rewrite memn_nil.
      pose proof (Hcnt y) as Hy.
      cnt_case (memn y pos1) EP; cnt_case (memn y pok1) EK;
        cnt_case (memn y (opt_list (varargs so))) EV; cnt_case (memn y (kwoargs so)) EW;
        cnt_case (memn y (opt_list (varkwargs so))) EZ; first [reflexivity | exfalso; lia].
    - split; [right; reflexivity|]. split; [exact C1a|]. split; [exact C1b | exact C1c]. }
  destruct C2 as (C2v & C2a & C2b & C2c).
  assert (Hv1 : forall y, memn y (opt_list va1) = true -> memn y (opt_list (varargs so)) = true).
  { intros y. destruct C2v as [-> | ->]; [discriminate | auto]. }
  destruct (if h_kwargs h then _ else _) as [[[pok2 kwo2] src3] named2] eqn:Ek.
  assert (C3 : (pok2 = [] \/ pok2 = pok1) /\ (kwo2 = [] \/ kwo2 = kwoargs so) /\
               (named2 = [] \/ named2 = named0) /\ NoDup (keys src3) /\ NE src3 /\
               forall y, src_mem src3 y = memn y pos1 || memn y pok2 || memn y (opt_list va1)
                                          || memn y kwo2 || memn y (opt_list (varkwargs so))).
  { destruct (h_kwargs h); inversion Ek; subst; clear Ek.
    - split; [left; reflexivity|]. split; [left; reflexivity|]. split; [left; reflexivity|].
      split; [apply nodup_pop_all; apply nodup_pop_all; exact C2a|].
      split; [apply NE_pop_all; apply NE_pop_all; exact C2b|].
      intros y. rewrite !src_pop_all_mem, C2c. fold (memn y pok1) (memn y (kwoargs so)). rewrite memn_nil.
      pose proof (Hcnt y) as Hy. pose proof (Hv1 y) as Hy1.
      cnt_case (memn y pos1) EP; cnt_case (memn y pok1) EK;
        cnt_case (memn y (kwoargs so)) EW; cnt_case (memn y (opt_list (varkwargs so))) EZ;
        destruct (memn y (opt_list va1)) eqn:EV1;
        try (specialize (Hy1 eq_refl); apply memn_cntn in Hy1);
        first [reflexivity | exfalso; lia].
    - split; [right; reflexivity|]. split; [right; reflexivity|]. split; [right; reflexivity|].
      split; [exact C2a|]. split; [exact C2b | exact C2c]. }
  destruct C3 as (C3p & C3k & C3n & C3a & C3b & C3c).
  assert (Hp2 : forall y, (cntn y pok2 <= cntn y pok1)%nat).
  { intros y. destruct C3p as [-> | ->]; [rewrite cntn_nil; lia | lia]. }
  assert (Hk2 : forall y, (cntn y kwo2 <= cntn y (kwoargs so))%nat).
  { intros y. destruct C3k as [-> | ->]; [rewrite cntn_nil; lia | lia]. }
  apply bind_ok in E. destruct E as [st [Est E]].
  set (fx := pos1 ++ opt_list (varkwargs so)).
  assert (HK0 : forall cons, KI pm fx (varargs so) (mkK pok2 va1 kwo2 src3 cons)).
  { intros cons. unfold KI. cbn [k_src k_pok k_va k_kwo]. split; [exact C3a|]. split; [|split; [exact C3b|split]].
    - intros y. rewrite C3c. unfold live, fx. cbn [k_pok k_va k_kwo]. rewrite memn_app. btauto.
    - intros v Hv0. subst va1. destruct C2v as [C|C]; [discriminate C|].
      pose proof (Hcnt (pname v)) as Hy. rewrite <- C, cntn_opt_self in Hy.
      pose proof (Hp2 (pname v)). pose proof (Hk2 (pname v)).
      split; [symmetry; exact C|]. unfold fx.
      split; [apply cntn_memn_false; lia|]. split; [intros _; apply cntn_memn_false; lia|].
      apply cntn_memn_false. rewrite cntn_app. lia.
    - intros _ y. pose proof (Hcnt y). pose proof (Hp2 y). pose proof (Hk2 y).
      unfold fx. rewrite cntn_app. lia. }
  assert (HK : KI pm fx (varargs so) st).
  { eapply mask_names_KI; [apply HK0 | exact Est]. }
  destruct HK as (K1 & K2 & K3 & K4 & K5).
  destruct (if h_kwargs h || h_varkwargs h then _ else _) as [vk3 src4] eqn:Evk.
  assert (C4 : wf_src src4 (names_of (flatten (mkSorted pos1 (k_pok st) (k_va st) (k_kwo st) vk3 src4 [])))).
  { assert (Hfl : forall y (d : depths), mem y (names_of (flatten (mkSorted pos1 (k_pok st) (k_va st) (k_kwo st) vk3 src4 d)))
                   = memn y (k_pok st) || memn y (opt_list (k_va st)) || memn y (k_kwo st)
                     || memn y pos1 || memn y (opt_list vk3)).
    { intros y d. fold (memn y (flatten (mkSorted pos1 (k_pok st) (k_va st) (k_kwo st) vk3 src4 d))).
      unfold flatten. cbn [posargs pokargs varargs kwoargs varkwargs]. rewrite !memn_app. btauto. }
    destruct (h_kwargs h || h_varkwargs h) eqn:Eh; inversion Evk; subst; clear Evk.
    - rewrite pop_star_true.
      assert (Hnone : pm = None).
      { destruct pm as [pobj|]; [|reflexivity]. pose proof (Hpm ltac:(discriminate)) as A. discriminate A. }
      assert (KK : forall y, src_mem (pop_star true (varkwargs so) (k_src st)) y =
                     memn y (k_pok st) || memn y (opt_list (k_va st)) || memn y (k_kwo st)
                     || memn y pos1 || memn y (opt_list None)).
      { intros y. rewrite pop_star_mem, popped_opt, K2. unfold live, fx. rewrite memn_app. cbn [opt_list andb].
        rewrite memn_nil.
        destruct (memn y (opt_list (varkwargs so))) eqn:EZ; [|cbn [negb]; btauto].
        pose proof (K5 Hnone y) as Hy. unfold fx in Hy. rewrite cntn_app in Hy.
        pose proof (memn_cntn _ _ EZ) as Hz.
        assert (Hva0 : memn y (opt_list (k_va st)) = false).
        { apply (va_false_of pm fx (varargs so) st y); [unfold KI; auto|].
          right; right. unfold fx. rewrite memn_app, EZ. apply orb_true_r. }
        rewrite Hva0.
        cnt_case (memn y (k_pok st)) E1; cnt_case (memn y (k_kwo st)) E2; cnt_case (memn y pos1) E3;
          first [reflexivity | exfalso; lia]. }
      split; [apply pop_star_nodup; exact K1|]. split.
      + intros y. rewrite Hfl. apply KK.
      + intros y Hy. rewrite Hfl, <- KK in Hy. apply (NE_pop_star true (varkwargs so) _ K3). exact Hy.
    - split; [exact K1|]. split.
      + intros y. rewrite Hfl, K2. unfold live, fx. rewrite memn_app. btauto.
      + intros y Hy. apply K3. rewrite K2. rewrite Hfl in Hy. unfold live, fx. rewrite memn_app, <- Hy. btauto. }
  destruct pm as [pobj|]; cbv beta iota in E;
    (eapply apply_params_src_ok; [|exact E]); unfold sorted_ok; cbn [ssrc]; exact C4.
Qed.

Theorem mask_src_ok s n names0 h r :
  mask s n names0 h = Ok r -> valid_sig (params s) = true -> src_ok s -> src_ok r.
Proof.
  unfold mask. intros E Hv Hs. eapply mask_gen_src_ok; [exact E | exact Hv | exact Hs|].
  intros H. exfalso. apply H. reflexivity.
Qed.

Theorem sig_partial_src_ok s n kw pobj r :
  sig_partial s n kw pobj = Ok r -> valid_sig (params s) = true -> src_ok s -> src_ok r.
Proof.
  unfold sig_partial. intros E Hv Hs. eapply mask_gen_src_ok; [exact E | exact Hv | exact Hs|].
  intros _. reflexivity.
Qed.

(* forwards = embed o mask; in partial mode the inner parameters get defaults first *)
Definition defaulted (p : param) : param :=
  match pkind p with VP | VK => p | _ => set_def (Some 0) p end.

Lemma defaulted_name p : pname (defaulted p) = pname p.
Proof. unfold defaulted. destruct (pkind p); reflexivity. Qed.
Lemma defaulted_kind p : pkind (defaulted p) = pkind p.
Proof. unfold defaulted. destruct (pkind p) eqn:E; cbn [set_def pkind]; rewrite ?E; reflexivity. Qed.

Lemma validate_aux_defaulted ps : forall top sd sd' seen,
  validate_aux ps top sd seen = true -> validate_aux (map defaulted ps) top sd' seen = true.
Proof.
  induction ps as [|p ps IH]; intros top sd sd' seen H; [reflexivity|].
  cbn [map validate_aux] in *. rewrite defaulted_kind, defaulted_name.
  destruct (Nat.ltb (kind_rank (pkind p)) top); [discriminate|].
  assert (Hpos : is_positional (defaulted p) && negb (has_def (defaulted p)) && sd' = false).
  { unfold is_positional, defaulted. destruct (pkind p) eqn:Ek; cbn; rewrite ?Ek; reflexivity. }
  rewrite Hpos.
  destruct (is_positional p && negb (has_def p) && sd); [discriminate|].
  destruct (mem (pname p) seen); [discriminate|]. eapply IH. exact H.
Qed.

Lemma count_kind_defaulted k ps : count_kind k (map defaulted ps) = count_kind k ps.
Proof.
  unfold count_kind. induction ps as [|p ps IH]; [reflexivity|]. cbn [map filter].
  assert (E : is_kind k (defaulted p) = is_kind k p) by (unfold is_kind; rewrite defaulted_kind; reflexivity).
  rewrite E. destruct (is_kind k p); cbn [length]; rewrite IH; reflexivity.
Qed.

Lemma valid_sig_defaulted ps : valid_sig ps = true -> valid_sig (map defaulted ps) = true.
Proof.
  unfold valid_sig. rewrite !count_kind_defaulted. intros H.
  apply andb_true_iff in H. destruct H as [H H3]. apply andb_true_iff in H. destruct H as [H1 H2].
  rewrite H2, H3. unfold validate in *. rewrite (validate_aux_defaulted _ _ _ false _ H1). reflexivity.
Qed.

Lemma names_defaulted ps : names_of (map defaulted ps) = names_of ps.
Proof. unfold names_of. rewrite map_map. apply map_ext. apply defaulted_name. Qed.

Theorem forwards_src_ok o i n names0 ha hk uva uvk pt r :
  forwards o i n names0 ha hk uva uvk pt = Ok r ->
  valid_sig (params o) = true -> src_ok o -> valid_sig (params i) = true -> src_ok i -> src_ok r.
Proof.
  unfold forwards. intros E Hvo Ho Hvi Hi. apply bind_ok in E. destruct E as [m [Em E]].
  eapply embed2_src_ok; [exact E | exact Hvo | exact Ho|]. apply src_ok_nonempty.
  eapply mask_src_ok; [exact Em | |].
  - destruct pt; [|exact Hvi]. cbn [params]. apply (valid_sig_defaulted _ Hvi).
  - destruct pt; [|exact Hi]. unfold src_ok. cbn [params srcs].
    fold (map defaulted (params i)). rewrite names_defaulted. exact Hi.
Qed.

(* ================================================================== *)
(* Part 6 — what is false of the model                                 *)

Definition dsig (f : N) (ps : list param) : sigT :=
  mkSig ps None UEmpty (map (fun p => (pname p, [f])) ps) [(f, 0)].
Definition bp (x : name) (k : kind) : param := mkParam x k None None UEmpty.

Lemma dsig_src_ok f ps : valid_sig ps = true -> src_ok (dsig f ps).
Proof. apply valid_default_sources_ok. Qed.

(* the n-ary embed without the stars_apart hypothesis: the star-args of the
   middle signature is named like a parameter of the outer one; the second step
   pops that name from the accumulated map.
   embed((x, *a, **k), ( *x, **k), ( *args)) = (x, *args) with sources {args}. *)
Theorem embed_src_ok_refuted :
  exists s0 s1 s2 r,
    valid_sig (params s0) = true /\ valid_sig (params s1) = true /\ valid_sig (params s2) = true /\
    src_ok s0 /\ src_ok s1 /\ src_ok s2 /\
    embed [s0; s1; s2] true true = Ok r /\ src_mem (srcs r) 1 = false /\
    mem 1 (names_of (params r)) = true /\ ~ src_ok r.
Proof.
  exists (dsig 100 [bp 1 PK; bp 9 VP; bp 10 VK]), (dsig 101 [bp 1 VP; bp 10 VK]), (dsig 102 [bp 11 VP]).
  eexists.
  split; [vm_compute; reflexivity|]. split; [vm_compute; reflexivity|]. split; [vm_compute; reflexivity|].
  split; [apply dsig_src_ok; vm_compute; reflexivity|].
  split; [apply dsig_src_ok; vm_compute; reflexivity|].
  split; [apply dsig_src_ok; vm_compute; reflexivity|].
  split; [vm_compute; reflexivity|]. split; [vm_compute; reflexivity|]. split; [vm_compute; reflexivity|].
  intros (_ & H & _). specialize (H 1). vm_compute in H. discriminate H.
Qed.

(* signature(functools.partial(f, args=7, a=7)) for f(a, *args, **kw): before
   the repair of _mask the new keyword-only parameter `args` lost its entry when
   *args was removed; now the entry stays and names the partial object *)
Example sig_partial_star_named_keyword :
  exists r, sig_partial (dsig 100 [bp 1 PK; bp 9 VP; bp 10 VK]) 0 [(9, 7); (1, 7)] 200 = Ok r /\
    names_of (params r) = [9; 1; 10] /\ map pkind (params r) = [KO; KO; VK] /\
    srcs r = [(1, [100]); (9, [200]); (10, [100])] /\ src_ok r.
Proof.
  eexists. split; [vm_compute; reflexivity|]. split; [reflexivity|]. split; [reflexivity|].
  split; [reflexivity|].
  eapply (sig_partial_src_ok (dsig 100 [bp 1 PK; bp 9 VP; bp 10 VK]) 0 [(9, 7); (1, 7)] 200);
    [vm_compute; reflexivity | vm_compute; reflexivity | apply dsig_src_ok; vm_compute; reflexivity].
Qed.

(* duplicate-freedom of the lists is false (DESIGN section 6 #10): a callable
   that reaches a parameter through both operands is listed twice *)
Theorem merge_nodup_refuted :
  exists a b r, src_ok a /\ src_ok b /\
    (forall x, NoDup (src_get (srcs a) x)) /\ (forall x, NoDup (src_get (srcs b) x)) /\
    merge [a; b] = Ok r /\ src_get (srcs r) 1 = [100; 100].
Proof.
  exists (dsig 100 [bp 1 PK]), (dsig 100 [bp 1 PK]). eexists.
  assert (Hn : forall x, NoDup (src_get (srcs (dsig 100 [bp 1 PK])) x)).
  { intros x. cbn. destruct (N.eqb x 1); repeat constructor; intros []; try discriminate; auto. }
  split; [apply dsig_src_ok; vm_compute; reflexivity|].
  split; [apply dsig_src_ok; vm_compute; reflexivity|].
  split; [exact Hn|]. split; [exact Hn|].
  split; vm_compute; reflexivity.
Qed.

(* the hypotheses are satisfiable on non-trivial inputs *)
Example merge_src_ok_sat :
  exists r, merge [dsig 100 [bp 1 PO; bp 2 PK; bp 9 VP; bp 10 VK]; dsig 101 [bp 3 PK; bp 2 PK; bp 4 KO];
                   dsig 102 [bp 1 PK; bp 9 VP; bp 10 VK]] = Ok r /\
            Forall src_ok [dsig 100 [bp 1 PO; bp 2 PK; bp 9 VP; bp 10 VK]; dsig 101 [bp 3 PK; bp 2 PK; bp 4 KO];
                           dsig 102 [bp 1 PK; bp 9 VP; bp 10 VK]].
Proof.
  eexists. split; [vm_compute; reflexivity|].
  constructor; [apply dsig_src_ok; vm_compute; reflexivity|].
  constructor; [apply dsig_src_ok; vm_compute; reflexivity|].
  constructor; [apply dsig_src_ok; vm_compute; reflexivity|]. constructor.
Qed.

Example embed_src_ok_sat :
  exists r, embed [dsig 100 [bp 1 PK; bp 9 VP; bp 10 VK]; dsig 101 [bp 2 PK; bp 9 VP; bp 10 VK];
                   dsig 102 [bp 3 PK; bp 4 KO]] true true = Ok r /\
            stars_apart [dsig 100 [bp 1 PK; bp 9 VP; bp 10 VK]; dsig 101 [bp 2 PK; bp 9 VP; bp 10 VK];
                         dsig 102 [bp 3 PK; bp 4 KO]] = true.
Proof. eexists. split; vm_compute; reflexivity. Qed.

Example sig_partial_src_ok_sat :
  exists r, sig_partial (dsig 100 [bp 1 PK; bp 2 PK; bp 9 VP; bp 10 VK]) 1 [(2, 7); (5, 8)] 200 = Ok r /\
            srcs r = [(2, [100]); (10, [100]); (5, [200])].
Proof. eexists. split; vm_compute; reflexivity. Qed.

(* truthful for embed: a callable listed for x in the result is listed for x
   in the outer or in the inner signature *)
Theorem embed2_truthful o i uva uvk r x f :
  embed [o; i] uva uvk = Ok r -> valid_sig (params o) = true -> src_ok o ->
  In f (src_get (srcs r) x) -> In f (src_get (srcs o) x) \/ In f (src_get (srcs i) x).
Proof.
  cbn [embed embed_steps]. intros E Hv Ho Hf.
  apply bind_ok in E. destruct E as [acc [E1 E2]].
  apply bind_ok in E1. destruct E1 as [acc1 [E0 E1]]. apply to_incompatible_ok in E0.
  inversion E1; subst. clear E1.
  destruct (apply_params_fields _ _ _ E2) as [_ Es]. rewrite Es in Hf. clear E2 Es.
  pose proof (sort_params_sorted_ok o Hv Ho) as (O1 & _ & _).
  unfold embed_step in E0. apply bind_ok in E0. destruct E0 as [m [Em E0]].
  apply bind_ok in E0. destruct E0 as [n1 [_ E0]].
  apply bind_ok in E0. destruct E0 as [n2 [_ E0]].
  apply bind_ok in E0. destruct E0 as [[[e_pos e_pok] n3] [_ E0]].
  apply bind_ok in E0. destruct E0 as [n4 [_ E0]].
  apply bind_ok in E0. destruct E0 as [n5 [_ E0]].
  apply bind_ok in E0. destruct E0 as [n6 [_ E0]].
  inversion E0; subst. clear E0. cbn [ssrc] in Hf.
  set (so := sort_params o) in *.
  fold (pop_star uva (varargs so) (ssrc so)) in Hf.
  fold (pop_star uvk (varkwargs so) (pop_star uva (varargs so) (ssrc so))) in Hf.
  set (o2 := pop_star uvk (varkwargs so) (pop_star uva (varargs so) (ssrc so))) in *.
  fold (overlay o2 (ssrc m)) in Hf.
  assert (N2 : NoDup (keys o2)) by (unfold o2; apply pop_star_nodup; apply pop_star_nodup; exact O1).
  rewrite (overlay_get _ N2) in Hf. destruct (src_mem o2 x).
  - left. unfold o2 in Hf. rewrite !pop_star_get in Hf.
    destruct (popped uvk (varkwargs so) x); [destruct Hf|].
    destruct (popped uva (varargs so) x); [destruct Hf|].
    unfold so in Hf. rewrite sort_params_ssrc in Hf. exact Hf.
  - destruct (merger_truthful _ _ _ _ _ Em Hf) as [H|H].
    + right. rewrite sort_params_ssrc in H. exact H.
    + cbn [ssrc src_get] in H. destruct H.
Qed.

Example forwards_src_ok_sat :
  exists r, forwards (dsig 100 [bp 1 PK; bp 9 VP; bp 10 VK]) (dsig 101 [bp 2 PK; bp 3 PK; bp 4 KO]) 1 [4]
                     false false true true false = Ok r /\
            srcs r = [(3, [101]); (1, [100])].
Proof. eexists. split; vm_compute; reflexivity. Qed.

Print Assumptions merger_Inv.
Print Assumptions merger_sorted_ok.
Print Assumptions merger_truthful.
Print Assumptions merge_src_ok_weak.
Print Assumptions merge_src_ok.
Print Assumptions merge_src_ok_single.
Print Assumptions merge_src_ok_valid.
Print Assumptions merge_truthful.
Print Assumptions default_sources_ok.
Print Assumptions embed_step_sorted_ok.
Print Assumptions embed2_src_ok.
Print Assumptions embed_src_ok.
Print Assumptions embed2_truthful.
Print Assumptions mask_gen_src_ok.
Print Assumptions mask_src_ok.
Print Assumptions sig_partial_src_ok.
Print Assumptions forwards_src_ok.
Print Assumptions embed_src_ok_refuted.
Print Assumptions sig_partial_star_named_keyword.
Print Assumptions merge_nodup_refuted.
Print Assumptions merge_src_ok_sat.
Print Assumptions embed_src_ok_sat.
Print Assumptions sig_partial_src_ok_sat.
Print Assumptions forwards_src_ok_sat.
