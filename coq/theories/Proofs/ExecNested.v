(* Proofs/ExecNested.v -- C05 for wrapper bodies with nested scopes that forward but do
   not mutate (Model/ExecNested.v): the walker's flags are sound for every program of the
   grammar, every execution path and every executed call, in the wrapper's own scope or in
   a nested function / lambda, whenever the nested function is invoked.

   1. Walking a tree without nested scopes in the wrapper's own scope does not look at the
      other frames or at the deferred work list (a frame rule), so the single-frame proof
      of Proofs/Exec.v carries over to states with finished nested frames and pending calls.
   2. def / h() / lambda: the nested frame stays EMPTY, its calls are deferred.
   3. drain: a deferred call sees the FINAL state of the wrapper's own scope through the
      (empty) nested frame; it is marked `use` only if the star is untouched at the end,
      hence at every moment the nested function can run.
   4. soundness of the execution semantics against these flags. *)
From Sigtools.Model Require Import Base Visitor Exec ExecNested.
From Sigtools.Proofs Require Import VisitorTotal Exec.
From Coq Require Import Lia.

(* ================================================================== *)
(* 1. the frame rule                                                   *)

(* trees without nested scope and without nonlocal declarations *)
Fixpoint simple (n : node) : bool :=
  match n with
  | NName _ _ => true
  | NAttr v _ => simple v
  | NCall f args kws =>
      simple f
      && (fix go (l : list node) : bool := match l with [] => true | x :: l' => simple x && go l' end) args
      && (fix go (l : list node) : bool := match l with [] => true | x :: l' => simple x && go l' end) kws
  | NStarred v => simple v
  | NKeyword _ v => simple v
  | NFunc _ _ _ _ _ => false
  | NNonlocal _ => false
  | NOpaque ch =>
      (fix go (l : list node) : bool := match l with [] => true | x :: l' => simple x && go l' end) ch
  end.

Definition simple_list : list node -> bool :=
  fix go (l : list node) : bool := match l with [] => true | x :: l' => simple x && go l' end.

Lemma simple_call_eq f args kws : simple (NCall f args kws) = simple f && simple_list args && simple_list kws.
Proof. reflexivity. Qed.
Lemma simple_opaque_eq ch : simple (NOpaque ch) = simple_list ch.
Proof. reflexivity. Qed.
Lemma simple_list_cons x l : simple_list (x :: l) = simple x && simple_list l.
Proof. reflexivity. Qed.

(* a state whose only frame is the wrapper's own, and the same state with further frames
   [X] and a deferred work list [T] *)
Definition gst nm im calls tn nx sa sk rv : vstate :=
  mkV [mkFrame None nm [] im] 0 calls [] tn nx sa sk rv.
Definition gstX (X : list frame) (T : list (node * nat)) nm im calls tn nx sa sk rv : vstate :=
  mkV (mkFrame None nm [] im :: X) 0 calls T tn nx sa sk rv.

Definition Sh (st : vstate) : Prop := exists nm im calls tn nx sa sk rv, st = gst nm im calls tn nx sa sk rv.

Definition ext (X : list frame) (T : list (node * nat)) (st : vstate) : vstate :=
  mkV (v_frames st ++ X) (v_cur st) (v_calls st) T (v_taint st) (v_next st) (v_varargs st) (v_varkwargs st) (v_rev st).

Lemma ext_gst X T nm im calls tn nx sa sk rv :
  ext X T (gst nm im calls tn nx sa sk rv) = gstX X T nm im calls tn nx sa sk rv.
Proof. reflexivity. Qed.

Section Frame.
Variables (X : list frame) (T : list (node * nat)).
Notation E := (ext X T).

Lemma visit_name_ext id c st : Sh st -> visit_name id c (E st) = E (visit_name id c st) /\ Sh (visit_name id c st).
Proof.
  intros (nm & im & calls & tn & nx & sa & sk & rv & ->). rewrite ext_gst.
  unfold visit_name, ns_is_immutable. cbn [gst gstX v_frames v_cur target_of get_frame nth f_nonlocals assoc f_immut].
  destruct (mem id im && match c with Load => true | _ => false end).
  - split; [reflexivity|]. repeat eexists.
  - split; [reflexivity|]. unfold ns_set. cbn. repeat eexists.
Qed.

Lemma ns_get_ext id st : Sh st -> ns_get (E st) id = ns_get st id.
Proof.
  intros (nm & im & calls & tn & nx & sa & sk & rv & ->). rewrite ext_gst.
  unfold ns_get. cbn. destruct (assoc id nm); reflexivity.
Qed.

Lemma get_untainted_ext m st : get_untainted (E st) m = get_untainted st m.
Proof. reflexivity. Qed.

Lemma add_taint_ext u st : Sh st -> add_taint (E st) u = E (add_taint st u) /\ Sh (add_taint st u).
Proof. intros (nm & im & calls & tn & nx & sa & sk & rv & ->). split; [reflexivity|]. repeat eexists. Qed.

Lemma add_call_ext c st : Sh st -> add_call (E st) c = E (add_call st c) /\ Sh (add_call st c).
Proof. intros (nm & im & calls & tn & nx & sa & sk & rv & ->). split; [reflexivity|]. repeat eexists. Qed.

(* the statement, for walk and resolve_na together *)
Definition Cw (n : node) : Prop := forall st, Sh st ->
  (forall force, walk force n (E st) = E (walk force n st) /\ Sh (walk force n st)) /\
  (forall ro t, resolve_na n ro t (E st) = (fst (resolve_na n ro t st), E (snd (resolve_na n ro t st)))
                /\ Sh (snd (resolve_na n ro t st))).

Definition Pw (n : node) : Prop :=
  simple n = true -> Cw n /\ match n with NStarred v | NKeyword _ v => Cw v | _ => True end.

Lemma Cw_res n ro t st : Cw n -> Sh st ->
  res_with (walk false) resolve_na n ro t (E st)
  = (fst (res_with (walk false) resolve_na n ro t st), E (snd (res_with (walk false) resolve_na n ro t st)))
  /\ Sh (snd (res_with (walk false) resolve_na n ro t st)).
Proof.
  intros H HS. destruct (H st HS) as [H1 H2]. unfold res_with.
  destruct n; try apply H2; cbn [fst snd]; destruct (H1 false) as [A B]; rewrite A; auto.
Qed.

Lemma walk_list_ext l : Forall Pw l -> simple_list l = true -> forall st, Sh st ->
  walk_list l (E st) = E (walk_list l st) /\ Sh (walk_list l st).
Proof.
  induction 1 as [|x l Hx _ IH]; intros Hs st HS; [auto|].
  rewrite simple_list_cons in Hs. apply andb_true_iff in Hs as [Hs1 Hs2].
  destruct (Hx Hs1) as [Hc _]. destruct (Hc st HS) as [H1 _]. destruct (H1 false) as [A B].
  cbn [walk_list]. rewrite A. exact (IH Hs2 _ B).
Qed.

Lemma args_loop_ext l : Forall Pw l -> simple_list l = true -> forall st, Sh st ->
  args_loop l (E st) = (fst (args_loop l st), E (snd (args_loop l st))) /\ Sh (snd (args_loop l st)).
Proof.
  induction 1 as [|x l Hx _ IH]; intros Hs st HS; [auto|].
  rewrite simple_list_cons in Hs. apply andb_true_iff in Hs as [Hs1 Hs2].
  destruct (Hx Hs1) as [Hc _].
  destruct x; cbn [args_loop];
    try (destruct (Cw_res _ false false st Hc HS) as [A B]; rewrite A;
         destruct (res_with (walk false) resolve_na _ false false st) as [m s1]; cbn [fst snd] in *;
         destruct (IH Hs2 s1 B) as [A2 B2]; rewrite A2;
         destruct (args_loop l s1) as [ms s2]; cbn [fst snd] in *; auto).
  exact (IH Hs2 st HS).
Qed.

Lemma kws_loop_ext l : Forall Pw l -> simple_list l = true -> forall st, Sh st ->
  kws_loop l (E st) = (fst (kws_loop l st), E (snd (kws_loop l st))) /\ Sh (snd (kws_loop l st)).
Proof.
  induction 1 as [|x l Hx _ IH]; intros Hs st HS; [auto|].
  rewrite simple_list_cons in Hs. apply andb_true_iff in Hs as [Hs1 Hs2].
  destruct (Hx Hs1) as [_ Hc].
  destruct x as [| | | |a v| | |]; cbn [kws_loop]; try exact (IH Hs2 st HS).
  destruct a as [k|]; [|exact (IH Hs2 st HS)].
  destruct (Cw_res v false false st Hc HS) as [A B]. rewrite A.
  destruct (res_with (walk false) resolve_na v false false st) as [m s1]. cbn [fst snd] in *.
  destruct (IH Hs2 s1 B) as [A2 B2]. rewrite A2.
  destruct (kws_loop l s1) as [ms s2]. cbn [fst snd] in *. auto.
Qed.

Lemma star_one_ext l : Forall Pw l -> simple_list l = true -> forall seen st, Sh st ->
  star_one l seen (E st) = (fst (star_one l seen st), E (snd (star_one l seen st))) /\ Sh (snd (star_one l seen st)).
Proof.
  induction 1 as [|x l Hx _ IH]; intros Hs seen st HS; [auto|].
  rewrite simple_list_cons in Hs. apply andb_true_iff in Hs as [Hs1 Hs2].
  destruct (Hx Hs1) as [_ Hc].
  destruct x; cbn [star_one]; try exact (IH Hs2 seen st HS).
  destruct seen; [|auto]. destruct (is_empty (starred_values l)); [|auto].
  destruct (Cw_res x true false st Hc HS) as [A B]. rewrite A. cbn [fst snd]. auto.
Qed.

Lemma dstar_one_ext l : Forall Pw l -> simple_list l = true -> forall st, Sh st ->
  dstar_one l (E st) = (fst (dstar_one l st), E (snd (dstar_one l st))) /\ Sh (snd (dstar_one l st)).
Proof.
  induction 1 as [|x l Hx _ IH]; intros Hs st HS; [auto|].
  rewrite simple_list_cons in Hs. apply andb_true_iff in Hs as [Hs1 Hs2].
  destruct (Hx Hs1) as [_ Hc].
  destruct x as [| | | |a v| | |]; cbn [dstar_one]; try exact (IH Hs2 st HS).
  destruct a as [k|]; [exact (IH Hs2 st HS)|]. destruct (is_empty (dstar_values l)); [|auto].
  destruct (Cw_res v true false st Hc HS) as [A B]. rewrite A. cbn [fst snd]. auto.
Qed.

Lemma process_call_ext w st1 args kws :
  Forall Pw args -> Forall Pw kws -> simple_list args = true -> simple_list kws = true -> Sh st1 ->
  process_call (w, E st1) args kws = E (process_call (w, st1) args kws) /\ Sh (process_call (w, st1) args kws).
Proof.
  intros Ha Hk Sa Sk HS. unfold process_call.
  set (st2 := if is_attr w then match attr_base w with MArg u _ => add_taint st1 u | _ => st1 end else st1).
  assert (H2 : (if is_attr w then match attr_base w with MArg u _ => add_taint (E st1) u | _ => E st1 end else E st1)
               = E st2 /\ Sh st2).
  { unfold st2. destruct (is_attr w); [|auto]. destruct (attr_base w); auto. apply add_taint_ext. exact HS. }
  destruct H2 as [A2 B2]. rewrite A2.
  destruct (args_loop_ext args Ha Sa st2 B2) as [A3 B3]. rewrite A3.
  destruct (args_loop args st2) as [margs st3]. cbn [fst snd] in *.
  destruct (kws_loop_ext kws Hk Sk st3 B3) as [A4 B4]. rewrite A4.
  destruct (kws_loop kws st3) as [mkws st4]. cbn [fst snd] in *.
  destruct (star_one_ext args Ha Sa O st4 B4) as [A5 B5]. rewrite A5.
  destruct (star_one args O st4) as [mva st5]. cbn [fst snd] in *.
  destruct (dstar_one_ext kws Hk Sk st5 B5) as [A6 B6]. rewrite A6.
  destruct (dstar_one kws st5) as [mvk st6]. cbn [fst snd] in *.
  change (v_varargs (E st6)) with (v_varargs st6). change (v_varkwargs (E st6)) with (v_varkwargs st6).
  destruct (has_hide mva (v_varargs st6)) as [uva ha]. destruct (has_hide mvk (v_varkwargs st6)) as [uvk hk].
  apply add_call_ext. exact B6.
Qed.

Theorem walk_frame : forall n, Pw n.
Proof.
  apply node_rect'.
  - (* NName *) intros id c _. split; [|exact I]. intros st HS. split.
    + intros force. cbn [walk]. apply visit_name_ext. exact HS.
    + intros ro t. cbn [resolve_na fst snd]. rewrite (ns_get_ext id st HS), get_untainted_ext.
      destruct ro; [auto|]. destruct (visit_name_ext id c st HS) as [A B]. rewrite A. auto.
  - (* NAttr *) intros v a Hv Hs. cbn [simple] in Hs. destruct (Hv Hs) as [Hc _]. split; [|exact I].
    intros st HS. split; [intros force; cbn [walk]; auto|].
    intros ro t. cbn [resolve_na]. destruct (Hc st HS) as [H1 H2].
    destruct v; try (destruct (H2 true t) as [A B]; rewrite A;
                     destruct (resolve_na _ true t st) as [mv s1]; cbn [fst snd] in *; auto);
      try (cbn [fst snd]; destruct (H1 false) as [A B]; rewrite A; auto).
  - (* NCall *) intros f args kws Hf Ha Hk Hs. rewrite simple_call_eq in Hs.
    apply andb_true_iff in Hs as [Hs Hsk]. apply andb_true_iff in Hs as [Hsf Hsa].
    destruct (Hf Hsf) as [Hcf _]. split; [|exact I]. intros st HS. split.
    + intros force. rewrite !walk_call_eq.
      destruct HS as (nm & im & calls & tn & nx & sa & sk & rv & ->). rewrite ext_gst.
      cbn [gst gstX v_rev v_frames v_cur get_frame nth f_parent is_some]. rewrite !andb_false_r.
      rewrite <- ext_gst.
      assert (HS : Sh (gst nm im calls tn nx sa sk rv)) by (repeat eexists).
      destruct (Cw_res f true true _ Hcf HS) as [A B]. rewrite A.
      destruct (res_with (walk false) resolve_na f true true (gst nm im calls tn nx sa sk rv)) as [w st1].
      cbn [fst snd] in *. exact (process_call_ext w st1 args kws Ha Hk Hsa Hsk B).
    + intros ro t. cbn [resolve_na fst snd]. auto.
  - (* NStarred *) intros v Hv Hs. cbn [simple] in Hs. destruct (Hv Hs) as [Hc _]. split; [|exact Hc].
    intros st HS. destruct (Hc st HS) as [H1 _]. split; [intros force; cbn [walk]; apply H1|].
    intros ro t. cbn [resolve_na fst snd]. auto.
  - (* NKeyword *) intros a v Hv Hs. cbn [simple] in Hs. destruct (Hv Hs) as [Hc _]. split; [|exact Hc].
    intros st HS. destruct (Hc st HS) as [H1 _]. split; [intros force; cbn [walk]; apply H1|].
    intros ro t. cbn [resolve_na fst snd]. auto.
  - (* NFunc *) intros a k va kw body _ Hs. discriminate Hs.
  - (* NNonlocal *) intros names Hs. discriminate Hs.
  - (* NOpaque *) intros ch Hc Hs. rewrite simple_opaque_eq in Hs. split; [|exact I]. intros st HS. split.
    + intros force. rewrite !walk_opaque_eq. exact (walk_list_ext ch Hc Hs st HS).
    + intros ro t. cbn [resolve_na fst snd]. auto.
Qed.
End Frame.

(* ================================================================== *)
(* 2. the walker on the statements of the grammar                      *)

Lemma simple_list_app a b : simple_list (a ++ b) = simple_list a && simple_list b.
Proof. induction a as [|x a IH]; [reflexivity|]. cbn [app]. rewrite !simple_list_cons, IH. apply andb_assoc. Qed.

Lemma simple_consts n : simple_list (repeat const n) = true.
Proof. induction n; [reflexivity|]. cbn [repeat]. rewrite simple_list_cons, IHn. reflexivity. Qed.

Lemma simple_kws kw : simple_list (map (fun k => NKeyword (Some k) const) kw) = true.
Proof. induction kw; [reflexivity|]. cbn [map]. rewrite simple_list_cons, IHkw. reflexivity. Qed.

Lemma compile_simple va vk : forall s, flat s = true -> simple (compile va vk s) = true.
Proof.
  apply (stmt_ind' (fun s => flat s = true -> simple (compile va vk s) = true));
    try (intros; try match goal with x : star |- _ => destruct x end; reflexivity).
  - intros c n kw pa pk _. cbn [compile]. rewrite simple_opaque_eq, simple_list_cons, simple_call_eq.
    rewrite !simple_list_app, simple_consts, simple_kws. destruct pa, pk; reflexivity.
  - intros a b Ha Hb Hf. rewrite flat_if in Hf. apply andb_true_iff in Hf as [Hfa Hfb].
    rewrite compile_if, simple_opaque_eq, simple_list_cons, simple_list_app.
    assert (G : forall l, Forall (fun s => flat s = true -> simple (compile va vk s) = true) l ->
                flat_block l = true -> simple_list (compile_block va vk l) = true).
    { induction 1 as [|x l Hx _ IH]; intros Hl; [reflexivity|]. cbn [flat_block forallb] in Hl.
      apply andb_true_iff in Hl as [H1 H2]. cbn [compile_block map]. rewrite simple_list_cons, (Hx H1).
      exact (IH H2). }
    rewrite (G a Ha Hfa), (G b Hb Hfb). reflexivity.
  - intros m Hf. discriminate Hf.
Qed.

Section Steps.
Variables va vk : N.
Hypothesis Hne : va <> vk.

(* the wrapper's own frame, finished nested frames [X], pending calls [T]; between statements
   the current namespace is the wrapper's *)
Definition nstc (X : list frame) (T : list (node * nat)) (cur : nat) nm im calls tn nx rv : vstate :=
  mkV (mkFrame None nm [] im :: X) cur calls T tn nx (Some (MArg 0 va)) (Some (MArg 1 vk)) rv.
Definition nst X T nm im calls tn nx : vstate := nstc X T 0 nm im calls tn nx false.

Lemma nst_ext X T nm im calls tn nx : nst X T nm im calls tn nx = ext X T (mst va vk nm im calls tn nx false).
Proof. reflexivity. Qed.

Lemma Sh_mst nm im calls tn nx rev : Sh (mst va vk nm im calls tn nx rev).
Proof. repeat eexists. Qed.

(* a flat statement: as in the single-frame proof *)
Lemma leaf_step s X T nm im calls tn nx k :
  Good va vk nm im tn k -> names_ok va vk s = true ->
  exists nm' im' tn' cs,
    walk false (compile va vk s) (nst X T nm im calls tn nx) = nst X T nm' im' (calls ++ cs) tn' nx
    /\ Good va vk nm' im' tn' (fst (absint s k)) /\ map fl cs = snd (absint s k).
Proof.
  intros G Hok. destruct (step_all va vk Hne s nm im calls tn nx false k G Hok) as (nm' & im' & tn' & cs & E & G' & F).
  exists nm', im', tn', cs. split; [|auto]. rewrite !nst_ext.
  destruct (walk_frame X T (compile va vk s) (compile_simple va vk s (names_ok_flat va vk s Hok))) as [Hc _].
  destruct (Hc _ (Sh_mst nm im calls tn nx false)) as [H1 _]. destruct (H1 false) as [A _]. rewrite A, E. reflexivity.
Qed.

(* h() : an ordinary call of the wrapper's own scope *)
Lemma callh_step h X T nm im calls tn nx k :
  Good va vk nm im tn k ->
  exists c, walk false (compile_n va vk (NCallH h)) (nst X T nm im calls tn nx) = nst X T nm im (calls ++ [c]) tn nx
            /\ fl c = dflags.
Proof.
  intros G. pose proof G as (HW & _).
  assert (Hs : simple (compile_n va vk (NCallH h)) = true) by reflexivity.
  assert (E : exists c, walk false (compile_n va vk (NCallH h)) (mst va vk nm im calls tn nx false)
                        = mst va vk nm im (calls ++ [c]) tn nx false /\ fl c = dflags).
  { eexists. split.
    - cbn [compile_n]. rewrite walk_opaque_eq. cbn [walk_list]. rewrite walk_call_eq.
      cbn [mst v_rev v_frames v_cur get_frame nth f_parent is_some]. rewrite Bool.andb_false_r.
      fold (mst va vk nm im calls tn nx false).
      unfold res_with. cbn [resolve_na]. unfold process_call.
      rewrite (ns_get_not_attr va vk nm im calls tn nx false h HW). reflexivity.
    - reflexivity. }
  destruct E as [c [E F]]. exists c. split; [|exact F]. rewrite !nst_ext.
  destruct (walk_frame X T _ Hs) as [Hc _]. destruct (Hc _ (Sh_mst nm im calls tn nx false)) as [H1 _].
  destruct (H1 false) as [A _]. rewrite A, E. reflexivity.
Qed.

(* inside a fresh nested frame every call is deferred *)
Definition ef : frame := empty_frame (Some 0%nat).

Lemma get_new_frame nm im X : get_frame (mkFrame None nm [] im :: X ++ [ef]) (S (length X)) = ef.
Proof. unfold get_frame. cbn [nth]. apply nth_middle. Qed.

Lemma defer_call c X T nm im calls tn nx :
  walk false (ncall_node va vk c) (nstc (X ++ [ef]) T (S (length X)) nm im calls tn nx false)
  = nstc (X ++ [ef]) (T ++ [(ncall_node va vk c, S (length X))]) (S (length X)) nm im calls tn nx false.
Proof.
  destruct c; cbn [ncall_node]; rewrite walk_call_eq;
    cbn [nstc v_rev v_frames v_cur negb andb]; rewrite get_new_frame; reflexivity.
Qed.

Lemma defer_body body : forall X T nm im calls tn nx,
  walk_list (map (fun c => NOpaque [ncall_node va vk c]) body) (nstc (X ++ [ef]) T (S (length X)) nm im calls tn nx false)
  = nstc (X ++ [ef]) (T ++ map (fun c => (ncall_node va vk c, S (length X))) body) (S (length X)) nm im calls tn nx false.
Proof.
  induction body as [|c body IH]; intros X T nm im calls tn nx; cbn [map walk_list].
  - rewrite app_nil_r. reflexivity.
  - rewrite walk_opaque_eq. cbn [walk_list]. rewrite defer_call, IH, <- app_assoc. reflexivity.
Qed.

Lemma enter_func X T nm im calls tn nx bodynodes :
  walk false (NFunc [] [] None None bodynodes) (nst X T nm im calls tn nx)
  = let st3 := walk_list bodynodes (nstc (X ++ [ef]) T (S (length X)) nm im calls tn nx false) in
    match f_parent (get_frame (v_frames st3) (v_cur st3)) with Some p => set_cur st3 p | None => st3 end.
Proof. rewrite walk_func_eq. reflexivity. Qed.

(* def h(): ...  -- one more (empty) frame, the calls of the body are deferred *)
Lemma def_step h body X T nm im calls tn nx :
  walk false (compile_n va vk (NDef h body)) (nst X T nm im calls tn nx)
  = nst (X ++ [ef]) (T ++ map (fun c => (ncall_node va vk c, S (length X))) body) nm im calls tn nx.
Proof.
  cbn [compile_n]. rewrite enter_func. destruct body as [|c body].
  - cbn [walk_list map]. rewrite walk_opaque_eq. cbn [walk_list]. cbv zeta.
    cbn [nstc v_frames v_cur]. rewrite get_new_frame. cbn [ef empty_frame f_parent]. rewrite app_nil_r. reflexivity.
  - rewrite defer_body. cbv zeta. cbn [nstc v_frames v_cur]. rewrite get_new_frame. reflexivity.
Qed.

(* (lambda: <call>)() : the frame of the lambda, its call deferred, the call of the lambda recorded *)
Lemma lam_step c X T nm im calls tn nx :
  exists r, walk false (compile_n va vk (NLam c)) (nst X T nm im calls tn nx)
            = nst (X ++ [ef]) (T ++ [(ncall_node va vk c, S (length X))]) nm im (calls ++ [r]) tn nx
            /\ fl r = dflags.
Proof.
  eexists. split.
  - cbn [compile_n]. rewrite walk_opaque_eq. cbn [walk_list]. rewrite walk_call_eq.
    cbn [nst nstc v_rev v_frames v_cur get_frame nth f_parent is_some]. rewrite Bool.andb_false_r.
    fold (nstc X T 0 nm im calls tn nx false). fold (nst X T nm im calls tn nx).
    unfold res_with. rewrite enter_func. cbn [walk_list]. rewrite defer_call. cbv zeta.
    cbn [nstc v_frames v_cur]. rewrite get_new_frame. cbn [ef empty_frame f_parent set_cur].
    unfold process_call. cbn. reflexivity.
  - reflexivity.
Qed.

(* ---- the whole body of the wrapper ---- *)
(* frames opened and calls deferred by a block, the first new frame having index [S j] *)
Fixpoint nfr (l : list nstmt) : nat :=
  match l with
  | [] => O
  | NDef _ _ :: l' | NLam _ :: l' => S (nfr l')
  | _ :: l' => nfr l'
  end.

Fixpoint tod (l : list nstmt) (j : nat) : list (ncall * nat) :=
  match l with
  | [] => []
  | NDef _ body :: l' => map (fun c => (c, S j)) body ++ tod l' (S j)
  | NLam c :: l' => (c, S j) :: tod l' (S j)
  | _ :: l' => tod l' j
  end.

Definition tnode (p : ncall * nat) : node * nat := (ncall_node va vk (fst p), snd p).

Lemma tod_deferred l : forall j, map fst (tod l j) = deferred l.
Proof.
  induction l as [|x l IH]; intros j; [reflexivity|]. unfold deferred in *. cbn [flat_map].
  destruct x; cbn [tod deferred1 app]; rewrite ?map_app, ?map_map; cbn [map fst]; rewrite ?IH; try reflexivity.
  rewrite map_id. reflexivity.
Qed.

Lemma tod_range l : forall j p, In p (tod l j) -> (j < snd p <= j + nfr l)%nat.
Proof.
  induction l as [|x l IH]; intros j p Hp; [destruct Hp|].
  destruct x; cbn [tod nfr] in *.
  - exact (IH j p Hp).
  - apply in_app_or in Hp. destruct Hp as [Hp|Hp].
    + apply in_map_iff in Hp. destruct Hp as [c [<- _]]. cbn [snd]. lia.
    + specialize (IH (S j) p Hp). lia.
  - exact (IH j p Hp).
  - destruct Hp as [<-|Hp]; [cbn [snd]; lia|]. specialize (IH (S j) p Hp). lia.
Qed.

Lemma repeat_snoc {A} (x : A) n : repeat x n ++ [x] = repeat x (S n).
Proof. induction n; [reflexivity|]. cbn [repeat app]. rewrite IHn. reflexivity. Qed.

Lemma nblock_step l : forall X T nm im calls tn nx k,
  Good va vk nm im tn k -> nblock_ok va vk l = true ->
  exists nm' im' tn' cs,
    walk_list (compile_nblock va vk l) (nst X T nm im calls tn nx)
    = nst (X ++ repeat ef (nfr l)) (T ++ map tnode (tod l (length X))) nm' im' (calls ++ cs) tn' nx
    /\ Good va vk nm' im' tn' (fst (absint_n l k)) /\ map fl cs = snd (absint_n l k).
Proof.
  induction l as [|x l IH]; intros X T nm im calls tn nx k G Hok.
  - exists nm, im, tn, []. cbn. rewrite !app_nil_r. auto.
  - cbn [nblock_ok forallb] in Hok. apply andb_true_iff in Hok as [Hx Hl].
    cbn [compile_nblock map walk_list]. fold (compile_nblock va vk l).
    destruct x as [s|h body|h|c]; cbn [nfr tod absint_n].
    + destruct (leaf_step s X T nm im calls tn nx k G Hx) as (nm1 & im1 & tn1 & cs1 & E1 & G1 & F1).
      cbn [compile_n]. rewrite E1.
      destruct (IH X T nm1 im1 (calls ++ cs1) tn1 nx _ G1 Hl) as (nm2 & im2 & tn2 & cs2 & E2 & G2 & F2).
      exists nm2, im2, tn2, (cs1 ++ cs2). rewrite E2, app_assoc. split; [reflexivity|].
      destruct (absint s k) as [k1 f1]. cbn [fst snd] in *. destruct (absint_n l k1) as [k2 f2]. cbn [fst snd] in *.
      split; [exact G2|]. rewrite map_app, F1, F2. reflexivity.
    + rewrite def_step.
      destruct (IH (X ++ [ef]) (T ++ map (fun c => (ncall_node va vk c, S (length X))) body) nm im calls tn nx k G Hl)
        as (nm2 & im2 & tn2 & cs2 & E2 & G2 & F2).
      exists nm2, im2, tn2, cs2. rewrite E2. split; [|auto].
      rewrite app_length. cbn [length]. rewrite Nat.add_1_r.
      rewrite <- !app_assoc. cbn [app repeat]. rewrite map_app, map_map. reflexivity.
    + destruct (callh_step h X T nm im calls tn nx k G) as [c [E1 F1]]. rewrite E1.
      destruct (IH X T nm im (calls ++ [c]) tn nx k G Hl) as (nm2 & im2 & tn2 & cs2 & E2 & G2 & F2).
      exists nm2, im2, tn2, (c :: cs2). rewrite E2, <- app_assoc. split; [reflexivity|].
      destruct (absint_n l k) as [k2 f2]. cbn [fst snd] in *. split; [exact G2|].
      cbn [map]. rewrite F1, F2. reflexivity.
    + destruct (lam_step c X T nm im calls tn nx) as [r [E1 F1]]. rewrite E1.
      destruct (IH (X ++ [ef]) (T ++ [(ncall_node va vk c, S (length X))]) nm im (calls ++ [r]) tn nx k G Hl)
        as (nm2 & im2 & tn2 & cs2 & E2 & G2 & F2).
      exists nm2, im2, tn2, (r :: cs2). rewrite E2. split.
      * rewrite app_length. cbn [length]. rewrite Nat.add_1_r.
        rewrite <- !app_assoc. cbn [app repeat map tnode fst snd]. reflexivity.
      * destruct (absint_n l k) as [k2 f2]. cbn [fst snd] in *. split; [exact G2|].
        cbn [map]. rewrite F1, F2. reflexivity.
Qed.

(* ================================================================== *)
(* 3. the deferred calls                                               *)

(* through an empty nested frame a name is looked up in the wrapper's own (non-empty) scope *)
Lemma ns_get_nested X T idx nm im calls tn nx rv id :
  get_frame (mkFrame None nm [] im :: X) idx = ef ->
  ns_get (nstc X T idx nm im calls tn nx rv) id = match assoc id nm with Some m => m | None => MName id end.
Proof.
  intros Hf. unfold ns_get. cbn [nstc v_frames v_cur length].
  cbn [ns_lookup]. unfold target_of. rewrite Hf. cbn [ef empty_frame f_nonlocals f_names f_parent assoc].
  rewrite Hf. cbn [ef empty_frame f_names assoc f_parent get_frame nth f_nonlocals].
  destruct nm as [|b nm']; [reflexivity|]. cbn [is_empty].
  destruct (assoc id (b :: nm')); reflexivity.
Qed.

Lemma get_ef_repeat nm im m idx : (1 <= idx <= m)%nat -> get_frame (mkFrame None nm [] im :: repeat ef m) idx = ef.
Proof.
  intros H. unfold get_frame. destruct idx as [|i]; [lia|]. cbn [nth].
  assert (Hi : (i < m)%nat) by lia. clear H. revert i Hi. induction m as [|m IH]; intros i Hi; [lia|].
  cbn [repeat]. destruct i; [reflexivity|]. cbn [nth]. apply IH. lia.
Qed.

Lemma W_nonattr nm id : W va vk nm -> is_attr (match assoc id nm with Some m => m | None => MName id end) = false.
Proof.
  intros HW. destruct (assoc id nm) as [m|] eqn:E; [|reflexivity].
  destruct (W_assoc va vk _ _ _ HW E) as [H|[H|H]]; cbn in H; [now rewrite H| |]; inversion H; reflexivity.
Qed.

Lemma deferred_call X T idx nm im calls tn nx k c :
  get_frame (mkFrame None nm [] im :: X) idx = ef -> Good va vk nm im tn k ->
  exists r, walk true (ncall_node va vk c) (nstc X T idx nm im calls tn nx true)
            = nstc X T idx nm im (calls ++ [r]) tn nx true /\ fl r = nflags k c.
Proof.
  intros Hf G. pose proof G as (HW & Ha & Hk & Hi & Hm).
  set (st := nstc X T idx nm im calls tn nx true).
  assert (Hget : forall id, ns_get st id = match assoc id nm with Some m => m | None => MName id end)
    by (intros id; apply ns_get_nested; assumption).
  assert (Hview : forall x u y, same_object (get_untainted st (ns_get st x)) (Some (MArg u y)) = view x u nm tn).
  { intros x u y. rewrite Hget. unfold get_untainted, view. cbn [st nstc v_taint].
    destruct (assoc x nm) as [[| |w n|]|]; try reflexivity.
    destruct (existsb (Nat.eqb w) tn); cbn; [now rewrite Bool.andb_false_r|now rewrite Bool.andb_true_r]. }
  destruct c as [c n kw pa pk|f]; cbn [ncall_node nflags]; rewrite walk_call_eq; cbn [negb andb];
    unfold res_with; cbn [resolve_na]; unfold process_call; fold st; rewrite Hget, (W_nonattr nm _ HW).
  - assert (EA : forall s, args_loop (if pa then [NStarred (NName va Load)] else []) s = ([], s))
      by (intros s; destruct pa; reflexivity).
    assert (EK : forall s, kws_loop (if pk then [NKeyword None (NName vk Load)] else []) s = ([], s))
      by (intros s; destruct pk; reflexivity).
    assert (SA1 : star_one (if pa then [NStarred (NName va Load)] else []) 0 st =
                  (if pa then Some (get_untainted st (ns_get st va)) else None, st))
      by (destruct pa; reflexivity).
    assert (SK1 : dstar_one (if pk then [NKeyword None (NName vk Load)] else []) st =
                  (if pk then Some (get_untainted st (ns_get st vk)) else None, st))
      by (destruct pk; reflexivity).
    assert (HA : has_hide (if pa then Some (get_untainted st (ns_get st va)) else None) (v_varargs st)
                 = (pa && fst k, pa && negb (fst k))).
    { destruct pa; [|reflexivity]. unfold has_hide. unfold st at 3. cbn [nstc v_varargs].
      rewrite Hview, <- Ha. now destruct (fst k). }
    assert (HK : has_hide (if pk then Some (get_untainted st (ns_get st vk)) else None) (v_varkwargs st)
                 = (pk && snd k, pk && negb (snd k))).
    { destruct pk; [|reflexivity]. unfold has_hide. unfold st at 3. cbn [nstc v_varkwargs].
      rewrite Hview, <- Hk. now destruct (snd k). }
    rewrite args_loop_consts, EA. cbv beta iota. cbn [fst snd].
    rewrite kws_loop_consts, EK. cbv beta iota. cbn [fst snd].
    rewrite star_one_consts, SA1. cbv beta iota.
    rewrite dstar_one_consts, SK1. cbv beta iota.
    rewrite HA, HK. eexists. split; reflexivity.
  - eexists. split; reflexivity.
Qed.

Lemma drain_spec X nm im tn nx k : forall TL calls cur fuel,
  Good va vk nm im tn k ->
  (forall p, In p TL -> get_frame (mkFrame None nm [] im :: X) (snd p) = ef) ->
  (length TL <= fuel)%nat ->
  exists rs cur', drain fuel (nstc X (map tnode TL) cur nm im calls tn nx true)
                  = Some (nstc X [] cur' nm im (calls ++ rs) tn nx true)
                  /\ map fl rs = map (nflags k) (map fst TL).
Proof.
  induction TL as [|[c idx] TL IH]; intros calls cur fuel G Hf Hl.
  - exists [], cur. rewrite app_nil_r. destruct fuel; cbn; auto.
  - destruct fuel as [|fuel]; [cbn in Hl; lia|].
    assert (E0 : drain (S fuel) (nstc X (map tnode ((c, idx) :: TL)) cur nm im calls tn nx true)
                 = drain fuel (walk true (ncall_node va vk c) (nstc X (map tnode TL) idx nm im calls tn nx true)))
      by reflexivity.
    rewrite E0.
    destruct (deferred_call X (map tnode TL) idx nm im calls tn nx k c (Hf (c, idx) (or_introl eq_refl)) G) as [r [E F]].
    rewrite E.
    assert (Hl' : (length TL <= fuel)%nat) by (cbn in Hl; lia).
    destruct (IH (calls ++ [r]) idx fuel G (fun p Hp => Hf p (or_intror Hp)) Hl') as (rs & cur' & E2 & F2).
    exists (r :: rs), cur'. rewrite E2, <- app_assoc. split; [reflexivity|]. cbn [map fst]. rewrite F, F2. reflexivity.
Qed.

(* ---- the walker on the whole wrapper ---- *)
Theorem visitor_flags_n_spec l :
  nblock_ok va vk l = true -> visitor_flags_n va vk l = Some (absflags_n l).
Proof.
  intros Hok. unfold visitor_flags_n, visit_function.
  assert (E0 : process_parameters true [] [] (Some va) (Some vk) init_state =
               nst [] [] [(va, MArg 0 va); (vk, MArg 1 vk)] [va] [] [] 2%nat).
  { assert (Eb : N.eqb vk va = false) by (apply N.eqb_neq; congruence).
    cbv -[N.eqb]. rewrite !Eb. reflexivity. }
  rewrite E0, fold_walk_list, fold_count. cbn [Nat.add].
  assert (G0 : Good va vk [(va, MArg 0 va); (vk, MArg 1 vk)] [va] [] (true, true)).
  { assert (Eb : N.eqb vk va = false) by (apply N.eqb_neq; congruence).
    unfold Good, W, view. cbn [assoc mem fst snd]. rewrite !N.eqb_refl, !Eb. cbn.
    split; [|repeat split; auto].
    constructor; [right; left; reflexivity|constructor; [right; right; reflexivity|constructor]]. }
  pose proof (walk_list_keeps (compile_nblock va vk l) (Forall_P _)
                (nst [] [] [(va, MArg 0 va); (vk, MArg 1 vk)] [va] [] [] 2%nat)) as [_ [_ Hlen]].
  destruct (nblock_step l [] [] _ _ [] _ 2%nat _ G0 Hok) as (nm' & im' & tn' & cs & E & G' & F).
  rewrite E in *. cbn [app length nst nstc v_todo] in Hlen. rewrite map_length in Hlen.
  cbn [app].
  destruct (drain_spec (repeat ef (nfr l)) nm' im' tn' 2%nat _ (tod l 0) cs 0%nat (S (count_list (compile_nblock va vk l))) G')
    as (rs & cur' & E2 & F2).
  { intros p Hp. apply get_ef_repeat. pose proof (tod_range l 0 p Hp). lia. }
  { lia. }
  assert (Es : set_rev (nst (repeat ef (nfr l)) (map tnode (tod l (length (@nil frame)))) nm' im' cs tn' 2) true
               = nstc (repeat ef (nfr l)) (map tnode (tod l 0)) 0 nm' im' cs tn' 2 true) by reflexivity.
  rewrite Es, E2. cbn [nstc v_calls]. f_equal. rewrite map_app. fold fl. change (map (fun c => fl c) cs) with (map fl cs).
  unfold absflags_n. rewrite tod_deferred in F2.
  destruct (absint_n l (true, true)) as [kF fm]. cbn [fst snd] in *. rewrite <- F, <- F2. reflexivity.
Qed.
End Steps.

(* ================================================================== *)
(* 4. soundness of the execution semantics against the flags            *)

Lemma absint_n_shape l : forall k,
  le_k (fst (absint_n l k)) k /\ length (snd (absint_n l k)) = mcalls_block l.
Proof.
  induction l as [|x l IH]; intros k; cbn [absint_n mcalls_block].
  - split; [apply le_k_refl|reflexivity].
  - destruct x as [s|h body|h|c]; cbn [mcalls].
    + destruct (shape_all s k) as [A B]. destruct (absint s k) as [k1 f1]. cbn [fst snd] in *.
      destruct (IH k1) as [C D]. destruct (absint_n l k1) as [k2 f2]. cbn [fst snd] in *.
      split; [eapply le_k_trans; eauto|]. rewrite app_length. lia.
    + apply IH.
    + destruct (IH k) as [C D]. destruct (absint_n l k) as [k2 f2]. cbn [fst snd length] in *. split; [exact C|lia].
    + destruct (IH k) as [C D]. destruct (absint_n l k) as [k2 f2]. cbn [fst snd length] in *. split; [exact C|lia].
Qed.

Lemma call_event_sound kF c st site :
  le_abs kF st -> flag_sound (nflags kF c) (call_event site c st).
Proof.
  intros [La Lk]. destruct c as [c n kw pa pk|f]; cbn [nflags call_event flag_sound ev_a ev_k].
  - destruct pa, pk, (fst kF), (snd kF); cbn; repeat split; try discriminate;
      try (rewrite La by reflexivity); try (rewrite Lk by reflexivity); reflexivity.
  - cbn. repeat split; discriminate.
Qed.

Lemma skipn_nth {A} (l : list A) off j d : nth (off + j) l d = nth j (skipn off l) d.
Proof.
  revert l. induction off as [|off IH]; intros l; [reflexivity|]. destruct l as [|x l]; cbn [skipn Nat.add nth].
  - destruct j; reflexivity.
  - apply IH.
Qed.

Lemma skipn_nth_error {A} (l : list A) off j : nth_error l (off + j) = nth_error (skipn off l) j.
Proof.
  revert l. induction off as [|off IH]; intros l; [reflexivity|]. destruct l as [|x l]; cbn [skipn Nat.add nth_error].
  - destruct j; reflexivity.
  - apply IH.
Qed.

Lemma skipn_add {A} (l : list A) a b : skipn (a + b) l = skipn b (skipn a l).
Proof.
  revert l. induction a as [|a IH]; intros l; [reflexivity|]. destruct l as [|x l]; cbn [skipn Nat.add].
  - destruct b; reflexivity.
  - apply IH.
Qed.

Lemma skipn_app_len {A} (a b : list A) : skipn (length a) (a ++ b) = b.
Proof. induction a as [|x a IH]; [reflexivity|]. cbn. exact IH. Qed.

Lemma skipn_len_le {A} (l : list A) off (r : list A) : skipn off l = r -> (off + length r <= length l \/ r = [])%nat.
Proof.
  intros <-. destruct (Nat.le_gt_cases off (length l)) as [H|H].
  - left. rewrite skipn_length. lia.
  - right. apply skipn_all2. lia.
Qed.

Section Sound.
Variables (M : nat) (FM : list flags) (D : list ncall) (kF : bool * bool).
Hypothesis HM : length FM = M.

(* what holds of one executed call *)
Definition ev_ok (e : event) : Prop :=
  ((ev_site e < M)%nat /\ flag_sound (nth (ev_site e) FM dflags) e) \/
  ((M <= ev_site e)%nat /\ exists c, nth_error D (ev_site e - M) = Some c /\ flag_sound (nflags kF c) e).

Definition env_ok (env : fenv) : Prop :=
  forall h b base, assoc h env = Some (b, base) ->
  forall i c, nth_error b i = Some c -> nth_error D (base + i) = Some c.

Lemma body_events_ok st : le_abs kF st -> forall body base,
  (forall i c, nth_error body i = Some c -> nth_error D (base + i) = Some c) ->
  forall e, In e (body_events (M + base) body st) -> ev_ok e.
Proof.
  intros Hle. induction body as [|c body IH]; intros base Hb e He; [destruct He|].
  cbn [body_events] in He. destruct He as [<-|He].
  - right. assert (Es : ev_site (call_event (M + base) c st) = (M + base)%nat) by (destruct c; reflexivity).
    rewrite Es. split; [lia|]. exists c. split; [|apply call_event_sound; exact Hle].
    replace (M + base - M)%nat with (base + 0)%nat by lia. apply Hb. reflexivity.
  - replace (S (M + base)) with (M + S base)%nat in He by lia. apply (IH (S base)); [|exact He].
    intros i c' Hi. replace (S base + i)%nat with (base + S i)%nat by lia. apply Hb. exact Hi.
Qed.

Lemma sound_n fuel : forall l off noff env k st r,
  forallb (fun x => match x with NLeaf s => flat s | _ => true end) l = true ->
  le_abs k st -> le_k kF (fst (absint_n l k)) ->
  skipn off FM = snd (absint_n l k) -> skipn noff D = deferred l -> env_ok env ->
  In r (exec_n fuel M l off noff env st) ->
  forall e, In e (snd r) -> ev_ok e.
Proof.
  induction l as [|x l IH]; intros off noff env k st r Hfl Hle HkF HFM HD Henv Hin e He.
  - cbn in Hin. destruct Hin as [<-|[]]. destruct He.
  - cbn [forallb] in Hfl. apply andb_true_iff in Hfl as [Hfx Hfl].
    destruct x as [s|h body|h|c]; cbn [exec_n absint_n deferred flat_map deferred1] in *.
    + (* a flat statement *)
      apply in_flat_map in Hin as (r1 & H1 & Hin). apply in_map_iff in Hin as (r2 & <- & H2).
      destruct (sound_all fuel s off k st r1 Hfx Hle H1) as [L1 E1].
      destruct (shape_all s k) as [_ Len1].
      destruct (absint s k) as [k1 f1]. cbn [fst snd] in *.
      destruct (absint_n l k1) as [k2 f2] eqn:E2. cbn [fst snd] in *.
      apply in_app_or in He as [He|He].
      * destruct (E1 e He) as [R F]. left.
        assert (Hlen : (off + length f1 <= length FM)%nat).
        { destruct (skipn_len_le FM off _ HFM) as [X|X]; [rewrite app_length in X; lia|].
          apply app_eq_nil in X as [X _]. subst f1. cbn in Len1. lia. }
        split; [lia|]. replace (ev_site e) with (off + (ev_site e - off))%nat at 1 by lia.
        rewrite skipn_nth, HFM, app_nth1 by lia. exact F.
      * apply (IH (off + ncalls s)%nat noff env k1 (fst r1) r2 Hfl L1); auto.
        -- rewrite E2. exact HkF.
        -- rewrite E2. cbn [snd]. rewrite skipn_add, HFM, <- Len1. apply skipn_app_len.
    + (* def h(): ... *)
      apply (IH off (noff + length body)%nat ((h, (body, noff)) :: env) k st r Hfl Hle HkF HFM); auto.
      * rewrite skipn_add, HD. apply skipn_app_len.
      * intros h' b base Ha i c Hi. cbn [assoc] in Ha. destruct (N.eqb h' h).
        -- injection Ha as <- <-. rewrite skipn_nth_error, HD, nth_error_app1; [exact Hi|].
           apply nth_error_Some. congruence.
        -- exact (Henv h' b base Ha i c Hi).
    + (* h() *)
      apply in_map_iff in Hin as (r2 & <- & H2). cbn [snd] in He.
      destruct (absint_n l k) as [k2 f2] eqn:E2. cbn [fst snd] in *.
      assert (LF : le_abs kF st).
      { eapply le_abs_mono; [|exact Hle]. eapply le_k_trans; [exact HkF|].
        pose proof (absint_n_shape l k) as [X _]. rewrite E2 in X. exact X. }
      destruct He as [<-|He].
      * left. cbn [ev_site]. assert (Hn : nth off FM dflags = dflags).
        { replace off with (off + 0)%nat by lia. rewrite skipn_nth, HFM. reflexivity. }
        split; [|rewrite Hn; cbn; repeat split; discriminate].
        destruct (skipn_len_le FM off _ HFM) as [X|X]; [cbn [length] in X; lia|discriminate].
      * apply in_app_or in He as [He|He].
        -- destruct (assoc h env) as [[b base]|] eqn:Ea; [|destruct He].
           exact (body_events_ok st LF b base (Henv h b base Ea) e He).
        -- apply (IH (S off) noff env k st r2 Hfl Hle); auto.
           ++ rewrite E2. exact HkF.
           ++ rewrite E2. cbn [snd]. replace (S off) with (off + 1)%nat by lia. rewrite skipn_add, HFM. reflexivity.
    + (* (lambda: ...)() *)
      apply in_map_iff in Hin as (r2 & <- & H2). cbn [snd] in He.
      destruct (absint_n l k) as [k2 f2] eqn:E2. cbn [fst snd] in *.
      assert (LF : le_abs kF st).
      { eapply le_abs_mono; [|exact Hle]. eapply le_k_trans; [exact HkF|].
        pose proof (absint_n_shape l k) as [X _]. rewrite E2 in X. exact X. }
      destruct He as [<-|[<-|He]].
      * left. cbn [ev_site]. assert (Hn : nth off FM dflags = dflags).
        { replace off with (off + 0)%nat by lia. rewrite skipn_nth, HFM. reflexivity. }
        split; [|rewrite Hn; cbn; repeat split; discriminate].
        destruct (skipn_len_le FM off _ HFM) as [X|X]; [cbn [length] in X; lia|discriminate].
      * right. assert (Es : ev_site (call_event (M + noff) c st) = (M + noff)%nat) by (destruct c; reflexivity).
        rewrite Es. split; [lia|]. exists c. split; [|apply call_event_sound; exact LF].
        replace (M + noff - M)%nat with (noff + 0)%nat by lia. rewrite skipn_nth_error, HD. reflexivity.
      * apply (IH (S off) (S noff) env k st r2 Hfl Hle); auto.
        -- rewrite E2. exact HkF.
        -- rewrite E2. cbn [snd]. replace (S off) with (off + 1)%nat by lia. rewrite skipn_add, HFM. reflexivity.
        -- replace (S noff) with (noff + 1)%nat by lia. rewrite skipn_add, HD. reflexivity.
Qed.
End Sound.

Lemma nblock_ok_flat va vk l :
  nblock_ok va vk l = true -> forallb (fun x => match x with NLeaf s => flat s | _ => true end) l = true.
Proof.
  unfold nblock_ok. rewrite !forallb_forall. intros H x Hx. specialize (H x Hx).
  destruct x; [apply (names_ok_flat va vk); exact H|reflexivity|reflexivity|reflexivity].
Qed.

(* C05 for nested scopes that forward but do not mutate: for every wrapper body of the grammar,
   every execution path and every call it executes -- in the wrapper's own scope, or inside a
   nested function / lambda whenever that function is invoked:
   - a star argument the walker marks as used is the caller's untouched object when the callee
     receives it;
   - a star argument written in the call is marked used or hidden, never neither. *)
Theorem flags_sound_nested va vk l fls :
  va <> vk -> nblock_ok va vk l = true ->
  visitor_flags_n va vk l = Some fls ->
  forall fuel st' evs e,
    In (st', evs) (exec_n fuel (mcalls_block l) l 0 0 [] (mkSem true true)) -> In e evs ->
    (ev_site e < length fls)%nat /\ flag_sound (nth (ev_site e) fls dflags) e.
Proof.
  intros Hne Hok Hv fuel st' evs e Hin He.
  rewrite (visitor_flags_n_spec va vk Hne l Hok) in Hv. injection Hv as <-.
  unfold absflags_n. destruct (absint_n_shape l (true, true)) as [_ Len].
  destruct (absint_n l (true, true)) as [kF fm] eqn:E. cbn [fst snd] in *.
  assert (L0 : le_abs (true, true) (mkSem true true)) by (split; reflexivity).
  assert (H : ev_ok (mcalls_block l) fm (deferred l) kF e).
  { apply (sound_n (mcalls_block l) fm (deferred l) kF Len fuel l 0 0 [] (true, true) (mkSem true true) (st', evs));
      auto; try (eapply nblock_ok_flat; exact Hok).
    - rewrite E. apply le_k_refl.
    - rewrite E. reflexivity.
    - intros h b base Ha. discriminate Ha. }
  destruct H as [[H1 H2]|[H1 [c [H2 H3]]]].
  - split; [rewrite app_length; lia|]. rewrite app_nth1 by lia. exact H2.
  - assert (Hd : (ev_site e - mcalls_block l < length (deferred l))%nat) by (apply nth_error_Some; congruence).
    split; [rewrite app_length, map_length; lia|]. rewrite app_nth2 by lia. rewrite Len.
    rewrite (nth_indep _ dflags (nflags kF c)) by (rewrite map_length; exact Hd).
    rewrite map_nth. rewrite (nth_error_nth _ _ _ H2). exact H3.
Qed.

(* the walker's flags are the abstract interpretation (main scope in source order, then the
   nested calls judged against the FINAL state of the main scope) *)
Theorem visitor_flags_n_absint va vk l :
  va <> vk -> nblock_ok va vk l = true -> visitor_flags_n va vk l = Some (absflags_n l).
Proof. intros Hne Hok. exact (visitor_flags_n_spec va vk Hne l Hok). Qed.

(* the statement is not vacuous: with enough fuel every program has an execution *)
Theorem exec_n_total l : forall fuel M off noff env st,
  (ndepth_block l <= fuel)%nat -> exec_n fuel M l off noff env st <> [].
Proof.
  induction l as [|x l IH]; intros fuel M off noff env st Hd; cbn [exec_n]; [discriminate|].
  cbn [ndepth_block] in Hd. destruct x as [s|h body|h|c]; cbn [ndepth] in Hd.
  - destruct (exec_stmt fuel off s st) as [|r1 rs] eqn:E1;
      [exfalso; apply (runs_all s fuel off st); [lia|exact E1]|].
    cbn [flat_map]. destruct (exec_n fuel M l (off + ncalls s) noff env (fst r1)) as [|r2 rs2] eqn:E2;
      [exfalso; apply (IH fuel M (off + ncalls s)%nat noff env (fst r1)); [lia|exact E2]|]. discriminate.
  - apply IH. lia.
  - destruct (exec_n fuel M l (S off) noff env st) eqn:E2; [exfalso; apply (IH fuel M (S off) noff env st); [lia|exact E2]|].
    discriminate.
  - destruct (exec_n fuel M l (S off) (S noff) env st) eqn:E2;
      [exfalso; apply (IH fuel M (S off) (S noff) env st); [lia|exact E2]|]. discriminate.
Qed.

Corollary run_n_total l : run_n l <> [].
Proof. apply exec_n_total. lia. Qed.

(* a concrete program meeting every hypothesis: a nested function called before and after the
   dict is mutated, a lambda, a redefinition-free def with an empty body
   (names args=1 kwargs=2 callee=5 f=12 h=20 g=21) *)
Definition nsample : list nstmt :=
  [NLeaf (SFwd 5 1 [] true true); NDef 20 [NCFwd 5 0 [7] true true; NCOther 12];
   NCallH 20; NLeaf (SMethod SK 9); NLam (NCFwd 5 2 [] false true); NCallH 20; NLeaf (SFwd 5 0 [] true true);
   NDef 21 []; NCallH 21]%N.

Example nsample_ok :
  nblock_ok 1 2 nsample = true /\ defs_before [] nsample = true /\
  visitor_flags_n 1 2 nsample =
    Some [(true, true, false, false); dflags; dflags; dflags; dflags; (true, false, false, true); dflags;
          (true, false, false, true); dflags; (false, false, false, true)] /\
  length (run_n nsample) = 1%nat.
Proof. vm_compute. repeat split. Qed.

(* the refutation witness of Proofs/Exec.v (a MUTATION in a nested scope) is outside the grammar *)
Example nested_mutation_outside va vk m : nnames_ok va vk (NLeaf (SLambdaMut m)) = false.
Proof. reflexivity. Qed.

Print Assumptions walk_frame.
Print Assumptions visitor_flags_n_absint.
Print Assumptions flags_sound_nested.
Print Assumptions run_n_total.
Print Assumptions nsample_ok.
