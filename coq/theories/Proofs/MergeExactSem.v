(* MergeExactSem.v -- the semantic half of C09_exact: acceptance of a call,
   read on the four components (positional parameters, keyword-only parameters,
   star-args, star-kwargs), peels one parameter at a time; a relation [MR] between two
   operand shapes and a result shape, closed under these peelings, forces the result to
   accept exactly the non-colliding calls both operands accept.  No merger here. *)
From Sigtools.Model Require Import Base Bind Roles Algebra.
From Sigtools.Proofs Require Import SmallModel Basics ValidateSpec.
From Coq Require Import Lia Permutation.

(* ================================================================== *)
(* 1. acceptance on components                                         *)

Definition ispk (p : param) : bool := is_kind PK p.

Definition kwcls (P K : list param) (n : nat) (k : name) : kwclass :=
  match kw_class_pos P n k with
  | Some c => c
  | None => if mem k (names_of K) then KDirect else KExtra
  end.
Definition kwok4 (P K : list param) (vk : bool) (n : nat) (k : name) : bool :=
  match kwcls P K n k with KDirect => true | KDup => false | KExtra => vk end.
Definition reqk (K : list param) (ks : list name) : bool :=
  forallb (fun p => has_def p || mem (pname p) ks) K.
Definition acc4 (P K : list param) (va vk : bool) (n : nat) (ks : list name) : bool :=
  (Nat.leb n (length P) || va) && forallb (kwok4 P K vk n) ks && req_pos P n ks && reqk K ks.

Lemma accepts_acc4 ps c :
  accepts ps c = acc4 (positional ps) (kwonly ps) (has_kind VP ps) (has_kind VK ps) (npos c) (kws c).
Proof. reflexivity. Qed.

Definition rm (x : name) (ks : list name) : list name := filter (fun k => negb (N.eqb k x)) ks.

Lemma mem_rm y x ks : mem y (rm x ks) = mem y ks && negb (N.eqb y x).
Proof. unfold rm. apply mem_filter. Qed.

Lemma mem_rm_other y x ks : y <> x -> mem y (rm x ks) = mem y ks.
Proof. intros H. rewrite mem_rm. apply N.eqb_neq in H. rewrite H. apply andb_true_r. Qed.

Lemma rm_notin x ks : mem x ks = false -> rm x ks = ks.
Proof.
  induction ks as [|k ks IH]; cbn [mem rm filter]; [reflexivity|]. intros H. apply orb_false_iff in H. destruct H as [H1 H2].
  rewrite N.eqb_sym, H1. cbn [negb]. fold (rm x ks). rewrite IH by exact H2. reflexivity.
Qed.

Lemma in_rm k x ks : In k (rm x ks) <-> In k ks /\ k <> x.
Proof. unfold rm. rewrite filter_In. rewrite negb_true_iff, N.eqb_neq. tauto. Qed.

Lemma kw_class_pos_none P n k : ~ In k (names_of P) -> kw_class_pos P n k = None.
Proof. apply kw_class_pos_foreign. Qed.

Lemma names_app_notin x (P K : list param) :
  ~ In x (names_of (P ++ K)) -> ~ In x (names_of P) /\ ~ In x (names_of K).
Proof. unfold names_of. rewrite map_app. intros H. split; intros X; apply H; apply in_or_app; tauto. Qed.

(* a keyword naming nothing goes to star-kwargs *)
Lemma kwok4_foreign P K vk n k : ~ In k (names_of (P ++ K)) -> kwok4 P K vk n k = vk.
Proof.
  intros H. apply names_app_notin in H. destruct H as [H1 H2]. unfold kwok4, kwcls.
  rewrite (kw_class_pos_none P n k H1). apply mem_false_In in H2. rewrite H2. reflexivity.
Qed.

Lemma req_pos_rm P x : ~ In x (names_of P) -> forall n ks, req_pos P n (rm x ks) = req_pos P n ks.
Proof.
  induction P as [|p P IH]; intros H n ks; [reflexivity|]. cbn [names_of map] in H.
  assert (H1 : pname p <> x) by (intros E; apply H; left; exact E).
  assert (H2 : ~ In x (names_of P)) by (intros E; apply H; right; exact E).
  cbn [req_pos]. destruct n as [|n]; [|apply IH; exact H2]. rewrite (IH H2), (mem_rm_other _ _ _ H1). reflexivity.
Qed.

Lemma reqk_rm K x ks : ~ In x (names_of K) -> reqk K (rm x ks) = reqk K ks.
Proof.
  intros H. unfold reqk. apply forallb_ext_in. intros p Hp. rewrite mem_rm_other; [reflexivity|].
  intros E. apply H. rewrite <- E. apply in_map. exact Hp.
Qed.

Lemma forallb_and {A} (f g : A -> bool) l : forallb (fun x => f x && g x) l = forallb f l && forallb g l.
Proof.
  induction l as [|a l IH]; [reflexivity|]. cbn [forallb]. rewrite IH.
  destruct (f a), (g a), (forallb f l), (forallb g l); reflexivity.
Qed.

Lemma forallb_neq_mem (b : bool) x ks : forallb (fun k => negb (b && N.eqb k x)) ks = negb (b && mem x ks).
Proof.
  destruct b; cbn [andb negb]; [|induction ks; cbn; auto].
  induction ks as [|k ks IH]; [reflexivity|]. cbn [forallb mem]. rewrite IH, (N.eqb_sym x k).
  destruct (N.eqb k x), (mem x ks); reflexivity.
Qed.

Lemma forallb_rm (f : name -> bool) x ks :
  forallb f (rm x ks) = forallb (fun k => N.eqb k x || f k) ks.
Proof.
  induction ks as [|k ks IH]; [reflexivity|]. cbn [rm filter forallb]. fold (rm x ks).
  destruct (N.eqb k x); cbn [negb orb forallb]; rewrite IH; reflexivity.
Qed.

(* ---- one positional parameter ---- *)
Lemma kw_class_pos_cons p P n k :
  kw_class_pos (p :: P) n k =
  if N.eqb k (pname p)
  then Some (match pkind p with PK => match n with O => KDirect | S _ => KDup end | _ => KExtra end)
  else kw_class_pos P (Nat.pred n) k.
Proof. reflexivity. Qed.

Lemma ispk_kind p : ispk p = true -> pkind p = PK.
Proof. unfold ispk, is_kind. destruct (pkind p); cbn; congruence. Qed.
Lemma ispk_false_kind p : ispk p = false -> pkind p <> PK.
Proof. unfold ispk, is_kind. destruct (pkind p); cbn; congruence. Qed.

(* more positional arguments than zero: the head is bound positionally *)
Lemma peel_S p P K va vk n ks :
  ~ In (pname p) (names_of (P ++ K)) ->
  acc4 (p :: P) K va vk (S n) ks = negb (ispk p && mem (pname p) ks) && acc4 P K va vk n ks.
Proof.
  intros Hx. unfold acc4. cbn [length req_pos]. change (Nat.leb (S n) (S (length P))) with (Nat.leb n (length P)).
  assert (E : forallb (kwok4 (p :: P) K vk (S n)) ks =
              negb (ispk p && mem (pname p) ks) && forallb (kwok4 P K vk n) ks).
  { rewrite <- forallb_neq_mem, <- forallb_and. apply forallb_ext. intros k.
    unfold kwok4 at 1, kwcls. rewrite kw_class_pos_cons. cbn [Nat.pred].
    destruct (N.eqb_spec k (pname p)) as [->|Hk].
    - rewrite (kwok4_foreign P K vk n _ Hx). destruct (ispk p) eqn:Ep.
      + rewrite (ispk_kind p Ep). reflexivity.
      + cbn [andb negb]. pose proof (ispk_false_kind p Ep). destruct (pkind p); try reflexivity; congruence.
    - rewrite andb_false_r. reflexivity. }
  rewrite E. destruct (negb (ispk p && mem (pname p) ks)), (Nat.leb n (length P) || va); cbn [andb]; reflexivity.
Qed.

(* no positional argument: the head is bound by keyword or by its default *)
Lemma peel_0 p P K va vk ks :
  ~ In (pname p) (names_of (P ++ K)) ->
  acc4 (p :: P) K va vk 0 ks =
  (has_def p || ispk p && mem (pname p) ks) &&
  acc4 P K va vk 0 (if ispk p then rm (pname p) ks else ks).
Proof.
  intros Hx. pose proof (names_app_notin _ _ _ Hx) as [HP HK]. unfold acc4. cbn [length req_pos Nat.leb orb andb].
  fold (ispk p).
  destruct (ispk p) eqn:Ep.
  - rewrite (req_pos_rm P _ HP), (reqk_rm K _ ks HK).
    assert (E : forallb (kwok4 (p :: P) K vk 0) ks = forallb (kwok4 P K vk 0) (rm (pname p) ks)).
    { rewrite forallb_rm. apply forallb_ext. intros k. unfold kwok4 at 1, kwcls. rewrite kw_class_pos_cons. cbn [Nat.pred].
      destruct (N.eqb k (pname p)); [rewrite (ispk_kind p Ep); reflexivity|reflexivity]. }
    rewrite E. cbn [andb]. destruct (has_def p || mem (pname p) ks); cbn [andb];
      [|rewrite !andb_false_r; reflexivity].
    destruct (forallb (kwok4 P K vk 0) (rm (pname p) ks)), (req_pos P 0 ks); reflexivity.
  - cbn [andb]. rewrite orb_false_r.
    assert (E : forallb (kwok4 (p :: P) K vk 0) ks = forallb (kwok4 P K vk 0) ks).
    { apply forallb_ext. intros k. unfold kwok4 at 1, kwcls. rewrite kw_class_pos_cons. cbn [Nat.pred].
      destruct (N.eqb_spec k (pname p)) as [->|Hk]; [|reflexivity].
      rewrite (kwok4_foreign P K vk 0 _ Hx). pose proof (ispk_false_kind p Ep).
      destruct (pkind p); try reflexivity; congruence. }
    rewrite E. destruct (has_def p), (forallb (kwok4 P K vk 0) ks), (req_pos P 0 ks); reflexivity.
Qed.

(* ---- one keyword-only parameter ---- *)
Lemma peel_K q P K va vk n ks :
  ~ In (pname q) (names_of (P ++ K)) ->
  acc4 P (q :: K) va vk n ks = (has_def q || mem (pname q) ks) && acc4 P K va vk n (rm (pname q) ks).
Proof.
  intros Hx. pose proof (names_app_notin _ _ _ Hx) as [HP HK]. unfold acc4.
  rewrite (req_pos_rm P _ HP), (reqk_rm K _ ks HK). unfold reqk at 1. cbn [forallb]. fold (reqk K ks).
  assert (E : forallb (kwok4 P (q :: K) vk n) ks = forallb (kwok4 P K vk n) (rm (pname q) ks)).
  { rewrite forallb_rm. apply forallb_ext. intros k. unfold kwok4, kwcls. cbn [names_of map mem].
    destruct (N.eqb_spec k (pname q)) as [->|Hk]; [|reflexivity].
    rewrite (kw_class_pos_none P n _ HP). cbn [orb]. reflexivity. }
  rewrite E.
  destruct (Nat.leb n (length P) || va), (forallb (kwok4 P K vk n) (rm (pname q) ks)), (req_pos P n ks),
    (has_def q || mem (pname q) ks), (reqk K ks); reflexivity.
Qed.

(* ---- a keyword naming nothing, with star-kwargs ---- *)
Lemma acc4_rm_foreign P K va n ks x :
  ~ In x (names_of (P ++ K)) -> acc4 P K va true n (rm x ks) = acc4 P K va true n ks.
Proof.
  intros Hx. pose proof (names_app_notin _ _ _ Hx) as [HP HK]. unfold acc4.
  rewrite (req_pos_rm P _ HP), (reqk_rm K _ ks HK).
  assert (E : forallb (kwok4 P K true n) (rm x ks) = forallb (kwok4 P K true n) ks).
  { rewrite forallb_rm. apply forallb_ext. intros k. destruct (N.eqb_spec k x) as [->|Hk]; [|reflexivity].
    rewrite (kwok4_foreign P K true n _ Hx). reflexivity. }
  rewrite E. reflexivity.
Qed.

(* ---- no positional parameter and star-args: the count does not matter ---- *)
Lemma acc4_nopos_n K vk n ks : acc4 [] K true vk n ks = acc4 [] K true vk 0 ks.
Proof.
  unfold acc4. rewrite !orb_true_r. cbn [andb].
  assert (E : forallb (kwok4 [] K vk n) ks = forallb (kwok4 [] K vk 0) ks) by (apply forallb_ext; intros k; reflexivity).
  rewrite E. destruct n; reflexivity.
Qed.

Lemma acc4_nopos_S K vk n ks : acc4 [] K false vk (S n) ks = false.
Proof. reflexivity. Qed.

(* ---- the order of keyword-only parameters does not matter ---- *)
Lemma mem_perm x l l' : Permutation l l' -> mem x l = mem x l'.
Proof.
  induction 1 as [|y l l' _ IH|y z l|l l' l'' _ IH1 _ IH2]; cbn [mem]; auto.
  - rewrite IH. reflexivity.
  - destruct (N.eqb x y), (N.eqb x z); reflexivity.
  - congruence.
Qed.

Lemma forallb_perm {A} (f : A -> bool) l l' : Permutation l l' -> forallb f l = forallb f l'.
Proof.
  induction 1 as [|y l l' _ IH|y z l|l l' l'' _ IH1 _ IH2]; cbn [forallb]; auto.
  - rewrite IH. reflexivity.
  - destruct (f y), (f z); reflexivity.
  - congruence.
Qed.

Lemma acc4_perm P K K' va vk n ks : Permutation K K' -> acc4 P K va vk n ks = acc4 P K' va vk n ks.
Proof.
  intros H. unfold acc4, reqk. rewrite (forallb_perm _ K K' H).
  assert (E : forallb (kwok4 P K vk n) ks = forallb (kwok4 P K' vk n) ks).
  { apply forallb_ext. intros k. unfold kwok4, kwcls.
    rewrite (mem_perm k (names_of K) (names_of K')); [reflexivity|]. unfold names_of. apply Permutation_map. exact H. }
  rewrite E. reflexivity.
Qed.

(* ================================================================== *)
(* 2. the relation between two operands and a result                   *)

Section MRel.
(* keyword-only parameters and stars of the two operands; the first operand is the
   one whose positional parameters may outnumber the other's *)
Variables (KA KB : list param) (vaA vkA vaB vkB : bool).

(* keyword-only part, once no positional parameter is left *)
Record KSpec (KR : list param) : Prop := {
  ks_in : forall qr, In qr KR -> In (pname qr) (names_of KA) \/ In (pname qr) (names_of KB);
  ks_src : forall qr, In qr KR ->
             (In (pname qr) (names_of KA) \/ vkA = true) /\ (In (pname qr) (names_of KB) \/ vkB = true);
  ks_def : forall qr, In qr KR -> has_def qr = false ->
             (exists qa, In qa KA /\ pname qa = pname qr /\ has_def qa = false) \/
             (exists qb, In qb KB /\ pname qb = pname qr /\ has_def qb = false);
  ks_a : forall qa, In qa KA -> has_def qa = false ->
             exists qr, In qr KR /\ pname qr = pname qa /\ has_def qr = false;
  ks_b : forall qb, In qb KB -> has_def qb = false ->
             exists qr, In qr KR /\ pname qr = pname qb /\ has_def qr = false
}.

Inductive MR : list param -> list param -> list param -> list param -> Prop :=
| mr_base KR : KSpec KR -> MR [] [] [] KR
| mr_pair pa pb pr PA PB PR KR :
    MR PA PB PR KR ->
    pname pb = pname pa -> pname pr = pname pa -> ispk pb = ispk pa ->
    (ispk pr = true -> ispk pa = true) -> has_def pr = has_def pa && has_def pb ->
    ~ In (pname pa) (names_of (PA ++ KA)) -> ~ In (pname pa) (names_of (PB ++ KB)) ->
    ~ In (pname pa) (names_of (PR ++ KR)) ->
    MR (pa :: PA) (pb :: PB) (pr :: PR) KR
| mr_keep pa pr PA PR KR :
    MR PA [] PR KR -> vaB = true ->
    pname pr = pname pa -> has_def pr = has_def pa ->
    (ispk pr = true -> ispk pa = true /\ vkB = true) ->
    ~ In (pname pa) (names_of (PA ++ KA)) -> ~ In (pname pa) (names_of KB) ->
    ~ In (pname pa) (names_of (PR ++ KR)) ->
    MR (pa :: PA) [] (pr :: PR) KR
| mr_drop pa PA PR KR :
    MR PA [] PR KR -> vaB = false -> has_def pa = true ->
    ~ In (pname pa) (names_of (PA ++ KA)) -> ~ In (pname pa) (names_of (PR ++ KR)) ->
    MR (pa :: PA) [] PR KR
| mr_conv pa q PA PR KR KR' :
    MR PA [] PR KR -> vaB = false -> vkB = true -> ispk pa = true ->
    pname q = pname pa -> has_def q = has_def pa -> Permutation KR' (q :: KR) ->
    ~ In (pname pa) (names_of (PA ++ KA)) -> ~ In (pname pa) (names_of KB) ->
    ~ In (pname pa) (names_of (PR ++ KR)) ->
    MR (pa :: PA) [] PR KR'
(* the same three with the second operand holding the unbalanced parameters *)
| mr_keepR pb pr PB PR KR :
    MR [] PB PR KR -> vaA = true ->
    pname pr = pname pb -> has_def pr = has_def pb ->
    (ispk pr = true -> ispk pb = true /\ vkA = true) ->
    ~ In (pname pb) (names_of (PB ++ KB)) -> ~ In (pname pb) (names_of KA) ->
    ~ In (pname pb) (names_of (PR ++ KR)) ->
    MR [] (pb :: PB) (pr :: PR) KR
| mr_dropR pb PB PR KR :
    MR [] PB PR KR -> vaA = false -> has_def pb = true ->
    ~ In (pname pb) (names_of (PB ++ KB)) -> ~ In (pname pb) (names_of (PR ++ KR)) ->
    MR [] (pb :: PB) PR KR
| mr_convR pb q PB PR KR KR' :
    MR [] PB PR KR -> vaA = false -> vkA = true -> ispk pb = true ->
    pname q = pname pb -> has_def q = has_def pb -> Permutation KR' (q :: KR) ->
    ~ In (pname pb) (names_of (PB ++ KB)) -> ~ In (pname pb) (names_of KA) ->
    ~ In (pname pb) (names_of (PR ++ KR)) ->
    MR [] (pb :: PB) PR KR'.

Lemma MR_nova PA PR KR : MR PA [] PR KR -> vaB = false -> PR = [].
Proof.
  intros H. remember (@nil param) as PB eqn:EB. induction H; intros Hv; try discriminate; auto; congruence.
Qed.

Lemma MR_novaR PB PR KR : MR [] PB PR KR -> vaA = false -> PR = [].
Proof.
  intros H. remember (@nil param) as PA eqn:EA. induction H; intros Hv; try discriminate; auto; congruence.
Qed.

(* a keyword may name a parameter of the result only if the result lets it be passed by name *)
Definition kwp (PR KR : list param) (k : name) : Prop :=
  (exists p, In p PR /\ ispk p = true /\ pname p = k) \/ In k (names_of KR).
Definition NC (PR KR PA PB : list param) (ks : list name) : Prop :=
  forall k, In k ks ->
    kwp PR KR k \/ (~ In k (names_of (PA ++ KA)) /\ ~ In k (names_of (PB ++ KB))).

Lemma NC_sub PR KR PA PB ks ks' : (forall k, In k ks' -> In k ks) -> NC PR KR PA PB ks -> NC PR KR PA PB ks'.
Proof. intros Hs H k Hk. apply H. apply Hs. exact Hk. Qed.

Lemma notin_cons x (p : param) (P K : list param) :
  ~ In x (names_of ((p :: P) ++ K)) -> ~ In x (names_of (P ++ K)).
Proof. intros H X. apply H. cbn. right. exact X. Qed.

Lemma NC_tail pr PR KR pa PA pb PB ks :
  NC (pr :: PR) KR (pa :: PA) (pb :: PB) ks ->
  pname pb = pname pa -> pname pr = pname pa ->
  ~ In (pname pa) (names_of (PA ++ KA)) -> ~ In (pname pa) (names_of (PB ++ KB)) ->
  NC PR KR PA PB ks.
Proof.
  intros H Eb Er Fa Fb k Hk. destruct (N.eq_dec k (pname pa)) as [->|Hne]; [right; auto|].
  destruct (H k Hk) as [[[p [Hp [Pp Np]]]|Hkr]|[X Y]].
  - destruct Hp as [<-|Hp]; [congruence|]. left. left. exists p. auto.
  - left. right. exact Hkr.
  - right. split; [apply (notin_cons _ pa); exact X|apply (notin_cons _ pb); exact Y].
Qed.

Lemma NC_tail1 pr PR KR pa PA ks :
  NC (pr :: PR) KR (pa :: PA) [] ks -> pname pr = pname pa ->
  ~ In (pname pa) (names_of (PA ++ KA)) -> ~ In (pname pa) (names_of KB) ->
  NC PR KR PA [] ks.
Proof.
  intros H Er Fa Fb k Hk. destruct (N.eq_dec k (pname pa)) as [->|Hne]; [right; auto|].
  destruct (H k Hk) as [[[p [Hp [Pp Np]]]|Hkr]|[X Y]].
  - destruct Hp as [<-|Hp]; [congruence|]. left. left. exists p. auto.
  - left. right. exact Hkr.
  - right. split; [apply (notin_cons _ pa); exact X|exact Y].
Qed.

Lemma NC_tail1R pr PR KR pb PB ks :
  NC (pr :: PR) KR [] (pb :: PB) ks -> pname pr = pname pb ->
  ~ In (pname pb) (names_of (PB ++ KB)) -> ~ In (pname pb) (names_of KA) ->
  NC PR KR [] PB ks.
Proof.
  intros H Er Fb Fa k Hk. destruct (N.eq_dec k (pname pb)) as [->|Hne]; [right; auto|].
  destruct (H k Hk) as [[[p [Hp [Pp Np]]]|Hkr]|[X Y]].
  - destruct Hp as [<-|Hp]; [congruence|]. left. left. exists p. auto.
  - left. right. exact Hkr.
  - right. split; [exact X|apply (notin_cons _ pb); exact Y].
Qed.

Lemma NC_head_pkR pr PR KR PA pb PB ks :
  NC (pr :: PR) KR PA (pb :: PB) ks -> pname pr = pname pb ->
  ~ In (pname pb) (names_of (PR ++ KR)) -> mem (pname pb) ks = true -> ispk pr = true.
Proof.
  intros H Er Fr Hm. apply mem_In in Hm. apply names_app_notin in Fr. destruct Fr as [F1 F2].
  destruct (H _ Hm) as [[[p [Hp [Pp Np]]]|Hkr]|[_ X]].
  - destruct Hp as [<-|Hp]; [exact Pp|]. exfalso. apply F1. rewrite <- Np. apply in_map. exact Hp.
  - contradiction.
  - exfalso. apply X. cbn. left. reflexivity.
Qed.

Lemma NC_head_absentR PR KR PA pb PB ks :
  NC PR KR PA (pb :: PB) ks -> ~ In (pname pb) (names_of (PR ++ KR)) -> mem (pname pb) ks = false.
Proof.
  intros H Fr. destruct (mem (pname pb) ks) eqn:Hm; [|reflexivity]. exfalso.
  apply mem_In in Hm. apply names_app_notin in Fr. destruct Fr as [F1 F2].
  destruct (H _ Hm) as [[[p [Hp [Pp Np]]]|Hkr]|[_ X]].
  - apply F1. rewrite <- Np. apply in_map. exact Hp.
  - contradiction.
  - apply X. cbn. left. reflexivity.
Qed.

(* a keyword naming the head: the result must let it through by name *)
Lemma NC_head_pk pr PR KR pa PA PB ks :
  NC (pr :: PR) KR (pa :: PA) PB ks -> pname pr = pname pa ->
  ~ In (pname pa) (names_of (PR ++ KR)) -> mem (pname pa) ks = true -> ispk pr = true.
Proof.
  intros H Er Fr Hm. apply mem_In in Hm. apply names_app_notin in Fr. destruct Fr as [F1 F2].
  destruct (H _ Hm) as [[[p [Hp [Pp Np]]]|Hkr]|[X _]].
  - destruct Hp as [<-|Hp]; [exact Pp|]. exfalso. apply F1. rewrite <- Np. apply in_map. exact Hp.
  - contradiction.
  - exfalso. apply X. cbn. left. reflexivity.
Qed.

Lemma NC_head_absent PR KR pa PA PB ks :
  NC PR KR (pa :: PA) PB ks -> ~ In (pname pa) (names_of (PR ++ KR)) -> mem (pname pa) ks = false.
Proof.
  intros H Fr. destruct (mem (pname pa) ks) eqn:Hm; [|reflexivity]. exfalso.
  apply mem_In in Hm. apply names_app_notin in Fr. destruct Fr as [F1 F2].
  destruct (H _ Hm) as [[[p [Hp [Pp Np]]]|Hkr]|[X _]].
  - apply F1. rewrite <- Np. apply in_map. exact Hp.
  - contradiction.
  - apply X. cbn. left. reflexivity.
Qed.

Lemma rm_sub x ks : forall k, In k (rm x ks) -> In k ks.
Proof. intros k Hk. apply in_rm in Hk. tauto. Qed.

(* ---- the keyword-only part alone ---- *)
Lemma acc4_nopos P K va vk n ks :
  P = [] ->
  acc4 P K va vk n ks =
  (Nat.leb n 0 || va) && forallb (fun k => mem k (names_of K) || vk) ks && reqk K ks.
Proof.
  intros ->. unfold acc4. cbn [length req_pos]. rewrite andb_true_r.
  f_equal. f_equal. apply forallb_ext. intros k. unfold kwok4, kwcls. cbn [kw_class_pos].
  destruct (mem k (names_of K)); reflexivity.
Qed.

Lemma reqk_spec K ks : reqk K ks = true <-> forall q, In q K -> has_def q = true \/ mem (pname q) ks = true.
Proof.
  unfold reqk. rewrite forallb_forall. split; intros H q Hq; specialize (H q Hq).
  - apply orb_true_iff. exact H.
  - apply orb_true_iff. exact H.
Qed.

Lemma K_exact KR n ks :
  KSpec KR -> NC [] KR [] [] ks ->
  acc4 [] KR (vaA && vaB) (vkA && vkB) n ks = acc4 [] KA vaA vkA n ks && acc4 [] KB vaB vkB n ks.
Proof.
  intros [S0 S1 S2 S3 S4] HN. rewrite !acc4_nopos by reflexivity.
  assert (Epos : (Nat.leb n 0 || vaA && vaB) = (Nat.leb n 0 || vaA) && (Nat.leb n 0 || vaB))
    by (destruct (Nat.leb n 0), vaA, vaB; reflexivity).
  assert (Ekw : forallb (fun k => mem k (names_of KR) || vkA && vkB) ks =
                forallb (fun k => mem k (names_of KA) || vkA) ks && forallb (fun k => mem k (names_of KB) || vkB) ks).
  { rewrite <- forallb_and. apply forallb_ext_in. intros k Hk.
    destruct (mem k (names_of KR)) eqn:Mr.
    - apply mem_In in Mr. apply in_map_iff in Mr. destruct Mr as [qr [Eq Hq]]. destruct (S1 qr Hq) as [X Y].
      rewrite Eq in X, Y. cbn [orb].
      assert (X' : mem k (names_of KA) || vkA = true) by (destruct X as [X| ->]; [apply mem_In in X; rewrite X; reflexivity|apply orb_true_r]).
      assert (Y' : mem k (names_of KB) || vkB = true) by (destruct Y as [Y| ->]; [apply mem_In in Y; rewrite Y; reflexivity|apply orb_true_r]).
      rewrite X', Y'. reflexivity.
    - destruct (HN k Hk) as [[[p [[] _]]|Hkr]|[X Y]].
      + apply mem_In in Hkr. congruence.
      + cbn [app] in X, Y. apply mem_false_In in X. apply mem_false_In in Y. rewrite X, Y. reflexivity. }
  assert (Ereq : reqk KR ks = reqk KA ks && reqk KB ks).
  { apply eq_true_iff_eq. rewrite andb_true_iff, !reqk_spec. split.
    - intros H. split; intros q Hq; (destruct (has_def q) eqn:Dq; [left; reflexivity|right]).
      + destruct (S3 q Hq Dq) as [qr [Hr [Nr Dr]]]. destruct (H qr Hr) as [X|X]; congruence.
      + destruct (S4 q Hq Dq) as [qr [Hr [Nr Dr]]]. destruct (H qr Hr) as [X|X]; congruence.
    - intros [Ha Hb] q Hq. destruct (has_def q) eqn:Dq; [left; reflexivity|right].
      destruct (S2 q Hq Dq) as [[qa [Hqa [Na Da]]]|[qb [Hqb [Nb Db]]]].
      + destruct (Ha qa Hqa) as [X|X]; congruence.
      + destruct (Hb qb Hqb) as [X|X]; congruence. }
  rewrite Epos, Ekw, Ereq.
  destruct (Nat.leb n 0 || vaA), (Nat.leb n 0 || vaB), (forallb (fun k => mem k (names_of KA) || vkA) ks),
    (forallb (fun k => mem k (names_of KB) || vkB) ks), (reqk KA ks), (reqk KB ks); reflexivity.
Qed.

(* ---- the result accepts exactly the non-colliding calls both operands accept ---- *)
Theorem MR_exact PA PB PR KR :
  MR PA PB PR KR -> forall n ks, NC PR KR PA PB ks ->
  acc4 PR KR (vaA && vaB) (vkA && vkB) n ks = acc4 PA KA vaA vkA n ks && acc4 PB KB vaB vkB n ks.
Proof.
  induction 1 as [KR HS
                 |pa pb pr PA PB PR KR HM IH Eb Er Epk Hpk Hd Fa Fb Fr
                 |pa pr PA PR KR HM IH Hva Er Hd Hpk Fa Fb Fr
                 |pa PA PR KR HM IH Hva Hd Fa Fr
                 |pa q PA PR KR KR' HM IH Hva Hvk Hpk Eq Hd HP Fa Fb Fr
                 |pb pr PB PR KR HM IH Hva Er Hd Hpk Fb Fa Fr
                 |pb PB PR KR HM IH Hva Hd Fb Fr
                 |pb q PB PR KR KR' HM IH Hva Hvk Hpk Eq Hd HP Fb Fa Fr]; intros n ks HN.
  - apply K_exact; assumption.
  - (* a pair *)
    assert (Fb' : ~ In (pname pb) (names_of (PB ++ KB))) by (rewrite Eb; exact Fb).
    assert (Fr' : ~ In (pname pr) (names_of (PR ++ KR))) by (rewrite Er; exact Fr).
    pose proof (NC_tail _ _ _ _ _ _ _ _ HN Eb Er Fa Fb) as HN'.
    destruct n as [|n].
    + rewrite (peel_0 pr PR KR _ _ ks Fr'), (peel_0 pa PA KA _ _ ks Fa), (peel_0 pb PB KB _ _ ks Fb').
      rewrite Er, Eb, Epk, Hd.
      destruct (mem (pname pa) ks) eqn:Hm.
      * pose proof (NC_head_pk _ _ _ _ _ _ _ HN Er Fr Hm) as Pr. rewrite Pr, (Hpk Pr). rewrite !orb_true_r. cbn [andb].
        apply IH. eapply NC_sub; [apply rm_sub|exact HN'].
      * rewrite !andb_false_r, !orb_false_r. rewrite (rm_notin _ _ Hm).
        assert (E : (if ispk pr then ks else ks) = ks) by (destruct (ispk pr); reflexivity). rewrite E.
        assert (E' : (if ispk pa then ks else ks) = ks) by (destruct (ispk pa); reflexivity). rewrite E'.
        rewrite (IH 0%nat ks HN').
        destruct (has_def pa), (has_def pb), (acc4 PA KA vaA vkA 0 ks), (acc4 PB KB vaB vkB 0 ks); reflexivity.
    + rewrite (peel_S pr PR KR _ _ n ks Fr'), (peel_S pa PA KA _ _ n ks Fa), (peel_S pb PB KB _ _ n ks Fb').
      rewrite Er, Eb, Epk, (IH n ks HN').
      destruct (mem (pname pa) ks) eqn:Hm.
      * pose proof (NC_head_pk _ _ _ _ _ _ _ HN Er Fr Hm) as Pr. rewrite Pr, (Hpk Pr). reflexivity.
      * rewrite !andb_false_r. cbn [negb andb]. reflexivity.
  - (* an unbalanced parameter kept: the other side has star-args *)
    assert (Fr' : ~ In (pname pr) (names_of (PR ++ KR))) by (rewrite Er; exact Fr).
    assert (Fb0 : ~ In (pname pa) (names_of ([] ++ KB))) by exact Fb.
    pose proof (NC_tail1 _ _ _ _ _ _ HN Er Fa Fb) as HN'.
    rewrite Hva in *. destruct n as [|n].
    + rewrite (peel_0 pr PR KR _ _ ks Fr'), (peel_0 pa PA KA _ _ ks Fa). rewrite Er, Hd.
      destruct (mem (pname pa) ks) eqn:Hm.
      * pose proof (NC_head_pk _ _ _ _ _ _ _ HN Er Fr Hm) as Pr. destruct (Hpk Pr) as [Pa Hvk]. rewrite Pr, Pa, Hvk in *.
        rewrite !orb_true_r. cbn [andb]. rewrite <- (acc4_rm_foreign [] KB true 0 ks (pname pa) Fb0).
        apply IH. eapply NC_sub; [apply rm_sub|exact HN'].
      * rewrite !andb_false_r, !orb_false_r. rewrite (rm_notin _ _ Hm).
        assert (E : (if ispk pr then ks else ks) = ks) by (destruct (ispk pr); reflexivity). rewrite E.
        assert (E' : (if ispk pa then ks else ks) = ks) by (destruct (ispk pa); reflexivity). rewrite E'.
        rewrite (IH 0%nat ks HN'). destruct (has_def pa); reflexivity.
    + rewrite (peel_S pr PR KR _ _ n ks Fr'), (peel_S pa PA KA _ _ n ks Fa). rewrite Er.
      rewrite (acc4_nopos_n KB vkB (S n) ks), <- (acc4_nopos_n KB vkB n ks). rewrite (IH n ks HN').
      destruct (mem (pname pa) ks) eqn:Hm.
      * pose proof (NC_head_pk _ _ _ _ _ _ _ HN Er Fr Hm) as Pr. destruct (Hpk Pr) as [Pa _]. rewrite Pr, Pa. reflexivity.
      * rewrite !andb_false_r. cbn [negb andb]. reflexivity.
  - (* an unbalanced optional parameter dropped: the other side has no star-args *)
    pose proof (MR_nova _ _ _ HM Hva) as EP. subst PR. rewrite Hva in *. rewrite andb_false_r.
    destruct n as [|n].
    + rewrite (peel_0 pa PA KA _ _ ks Fa). rewrite Hd. cbn [orb andb].
      pose proof (NC_head_absent _ _ _ _ _ _ HN Fr) as Hm. rewrite (rm_notin _ _ Hm).
      assert (E' : (if ispk pa then ks else ks) = ks) by (destruct (ispk pa); reflexivity). rewrite E'.
      rewrite <- (andb_false_r vaA). apply IH.
      intros k Hk. destruct (HN k Hk) as [X|[X Y]]; [left; exact X|right; split; [apply (notin_cons _ pa); exact X|exact Y]].
    + rewrite acc4_nopos_S, andb_false_r. reflexivity.
  - (* an unbalanced positional-or-keyword parameter becomes keyword-only *)
    pose proof (MR_nova _ _ _ HM Hva) as EP. subst PR. rewrite Hva, Hvk in *. rewrite andb_false_r.
    assert (Fb0 : ~ In (pname pa) (names_of ([] ++ KB))) by exact Fb.
    destruct n as [|n].
    + rewrite (acc4_perm [] KR' (q :: KR) _ _ _ _ HP).
      assert (Fq : ~ In (pname q) (names_of ([] ++ KR))) by (rewrite Eq; exact Fr).
      rewrite (peel_K q [] KR _ _ 0 ks Fq), (peel_0 pa PA KA _ _ ks Fa). rewrite Eq, Hd, Hpk. cbn [andb].
      rewrite <- (acc4_rm_foreign [] KB false 0 ks (pname pa) Fb0).
      rewrite <- (andb_false_r vaA).
      rewrite (IH 0%nat (rm (pname pa) ks)).
      * destruct (has_def pa || mem (pname pa) ks); reflexivity.
      * intros k Hk. apply in_rm in Hk. destruct Hk as [Hk Hne]. destruct (HN k Hk) as [[[p [[] _]]|X]|[X Y]].
        -- pose proof (Permutation_in _ (Permutation_map pname HP) X) as X'. cbn [map] in X'.
           destruct X' as [X'|X']; [exfalso; apply Hne; rewrite <- X', Eq; reflexivity|left; right; exact X'].
        -- right. split; [apply (notin_cons _ pa); exact X|exact Y].
    + rewrite acc4_nopos_S, andb_false_r. unfold acc4. cbn [length]. reflexivity.
  - (* kept, second operand *)
    assert (Fr' : ~ In (pname pr) (names_of (PR ++ KR))) by (rewrite Er; exact Fr).
    assert (Fa0 : ~ In (pname pb) (names_of ([] ++ KA))) by exact Fa.
    pose proof (NC_tail1R _ _ _ _ _ _ HN Er Fb Fa) as HN'.
    rewrite Hva in *. cbn [andb] in *. destruct n as [|n].
    + rewrite (peel_0 pr PR KR _ _ ks Fr'), (peel_0 pb PB KB _ _ ks Fb). rewrite Er, Hd.
      destruct (mem (pname pb) ks) eqn:Hm.
      * pose proof (NC_head_pkR _ _ _ _ _ _ _ HN Er Fr Hm) as Pr. destruct (Hpk Pr) as [Pb Hvk]. rewrite Pr, Pb, Hvk in *.
        rewrite !orb_true_r. cbn [andb]. rewrite <- (acc4_rm_foreign [] KA true 0 ks (pname pb) Fa0).
        apply IH. eapply NC_sub; [apply rm_sub|exact HN'].
      * rewrite !andb_false_r, !orb_false_r. rewrite (rm_notin _ _ Hm).
        assert (E : (if ispk pr then ks else ks) = ks) by (destruct (ispk pr); reflexivity). rewrite E.
        assert (E' : (if ispk pb then ks else ks) = ks) by (destruct (ispk pb); reflexivity). rewrite E'.
        rewrite (IH 0%nat ks HN'). destruct (has_def pb), (acc4 [] KA true vkA 0 ks); reflexivity.
    + rewrite (peel_S pr PR KR _ _ n ks Fr'), (peel_S pb PB KB _ _ n ks Fb). rewrite Er.
      rewrite (acc4_nopos_n KA vkA (S n) ks), <- (acc4_nopos_n KA vkA n ks). rewrite (IH n ks HN').
      destruct (mem (pname pb) ks) eqn:Hm.
      * pose proof (NC_head_pkR _ _ _ _ _ _ _ HN Er Fr Hm) as Pr. destruct (Hpk Pr) as [Pb _]. rewrite Pr, Pb.
        cbn [andb negb]. rewrite andb_false_r. reflexivity.
      * rewrite !andb_false_r. cbn [negb andb]. reflexivity.
  - (* dropped, second operand *)
    pose proof (MR_novaR _ _ _ HM Hva) as EP. subst PR. rewrite Hva in *. cbn [andb] in *.
    destruct n as [|n].
    + rewrite (peel_0 pb PB KB _ _ ks Fb). rewrite Hd. cbn [orb andb].
      pose proof (NC_head_absentR _ _ _ _ _ _ HN Fr) as Hm. rewrite (rm_notin _ _ Hm).
      assert (E' : (if ispk pb then ks else ks) = ks) by (destruct (ispk pb); reflexivity). rewrite E'.
      apply IH.
      intros k Hk. destruct (HN k Hk) as [X|[X Y]]; [left; exact X|right; split; [exact X|apply (notin_cons _ pb); exact Y]].
    + rewrite acc4_nopos_S. reflexivity.
  - (* converted, second operand *)
    pose proof (MR_novaR _ _ _ HM Hva) as EP. subst PR. rewrite Hva, Hvk in *. cbn [andb] in *.
    assert (Fa0 : ~ In (pname pb) (names_of ([] ++ KA))) by exact Fa.
    destruct n as [|n].
    + rewrite (acc4_perm [] KR' (q :: KR) _ _ _ _ HP).
      assert (Fq : ~ In (pname q) (names_of ([] ++ KR))) by (rewrite Eq; exact Fr).
      rewrite (peel_K q [] KR _ _ 0 ks Fq), (peel_0 pb PB KB _ _ ks Fb). rewrite Eq, Hd, Hpk. cbn [andb].
      rewrite <- (acc4_rm_foreign [] KA false 0 ks (pname pb) Fa0).
      rewrite (IH 0%nat (rm (pname pb) ks)).
      * destruct (has_def pb || mem (pname pb) ks), (acc4 [] KA false true 0 (rm (pname pb) ks)); reflexivity.
      * intros k Hk. apply in_rm in Hk. destruct Hk as [Hk Hne]. destruct (HN k Hk) as [[[p [[] _]]|X]|[X Y]].
        -- pose proof (Permutation_in _ (Permutation_map pname HP) X) as X'. cbn [map] in X'.
           destruct X' as [X'|X']; [exfalso; apply Hne; rewrite <- X', Eq; reflexivity|left; right; exact X'].
        -- right. split; [exact X|apply (notin_cons _ pb); exact Y].
    + rewrite acc4_nopos_S. unfold acc4. cbn [length]. reflexivity.
Qed.

(* ---- names of the result, and constructors that need no freshness of the result ---- *)
Lemma names_cons_l x (p : param) (P K : list param) :
  In x (names_of (P ++ K)) -> In x (names_of ((p :: P) ++ K)).
Proof. intros H. cbn. right. exact H. Qed.

Lemma MR_names PA PB PR KR :
  MR PA PB PR KR -> forall x, In x (names_of (PR ++ KR)) ->
  In x (names_of (PA ++ KA)) \/ In x (names_of (PB ++ KB)).
Proof.
  induction 1 as [KR HS
                 |pa pb pr PA PB PR KR HM IH Eb Er Epk Hpk Hd Fa Fb Fr
                 |pa pr PA PR KR HM IH Hva Er Hd Hpk Fa Fb Fr
                 |pa PA PR KR HM IH Hva Hd Fa Fr
                 |pa q PA PR KR KR' HM IH Hva Hvk Hpk Eq Hd HP Fa Fb Fr
                 |pb pr PB PR KR HM IH Hva Er Hd Hpk Fb Fa Fr
                 |pb PB PR KR HM IH Hva Hd Fb Fr
                 |pb q PB PR KR KR' HM IH Hva Hvk Hpk Eq Hd HP Fb Fa Fr]; intros x Hx.
  - cbn [app] in *. apply in_map_iff in Hx. destruct Hx as [q [E Hq]]. rewrite <- E. apply (ks_in KR HS q Hq).
  - cbn in Hx. destruct Hx as [Hx|Hx]; [left; cbn; left; congruence|].
    destruct (IH x Hx) as [Y|Y]; [left|right]; apply names_cons_l; exact Y.
  - cbn in Hx. destruct Hx as [Hx|Hx]; [left; cbn; left; congruence|].
    destruct (IH x Hx) as [Y|Y]; [left; apply names_cons_l; exact Y|right; exact Y].
  - destruct (IH x Hx) as [Y|Y]; [left; apply names_cons_l; exact Y|right; exact Y].
  - unfold names_of in Hx. rewrite map_app in Hx. apply in_app_or in Hx. destruct Hx as [Hx|Hx].
    + destruct (IH x) as [Y|Y]; [unfold names_of; rewrite map_app; apply in_or_app; left; exact Hx
                                 |left; apply names_cons_l; exact Y|right; exact Y].
    + pose proof (Permutation_in _ (Permutation_map pname HP) Hx) as X'. cbn [map] in X'. destruct X' as [X'|X'].
      * left. cbn. left. congruence.
      * destruct (IH x) as [Y|Y]; [unfold names_of; rewrite map_app; apply in_or_app; right; exact X'
                                   |left; apply names_cons_l; exact Y|right; exact Y].
  - cbn in Hx. destruct Hx as [Hx|Hx]; [right; cbn; left; congruence|].
    destruct (IH x Hx) as [Y|Y]; [left; exact Y|right; apply names_cons_l; exact Y].
  - destruct (IH x Hx) as [Y|Y]; [left; exact Y|right; apply names_cons_l; exact Y].
  - unfold names_of in Hx. rewrite map_app in Hx. apply in_app_or in Hx. destruct Hx as [Hx|Hx].
    + destruct (IH x) as [Y|Y]; [unfold names_of; rewrite map_app; apply in_or_app; left; exact Hx
                                 |left; exact Y|right; apply names_cons_l; exact Y].
    + pose proof (Permutation_in _ (Permutation_map pname HP) Hx) as X'. cbn [map] in X'. destruct X' as [X'|X'].
      * right. cbn. left. congruence.
      * destruct (IH x) as [Y|Y]; [unfold names_of; rewrite map_app; apply in_or_app; right; exact X'
                                   |left; exact Y|right; apply names_cons_l; exact Y].
Qed.

Lemma MR_fresh PA PB PR KR x :
  MR PA PB PR KR -> ~ In x (names_of (PA ++ KA)) -> ~ In x (names_of (PB ++ KB)) ->
  ~ In x (names_of (PR ++ KR)).
Proof. intros H Fa Fb Hx. destruct (MR_names _ _ _ _ H x Hx); contradiction. Qed.

Lemma mr_pair' pa pb pr PA PB PR KR :
  MR PA PB PR KR ->
  pname pb = pname pa -> pname pr = pname pa -> ispk pb = ispk pa ->
  (ispk pr = true -> ispk pa = true) -> has_def pr = has_def pa && has_def pb ->
  ~ In (pname pa) (names_of (PA ++ KA)) -> ~ In (pname pa) (names_of (PB ++ KB)) ->
  MR (pa :: PA) (pb :: PB) (pr :: PR) KR.
Proof. intros. apply mr_pair; auto. eapply MR_fresh; eauto. Qed.

Lemma mr_keep' pa pr PA PR KR :
  MR PA [] PR KR -> vaB = true -> pname pr = pname pa -> has_def pr = has_def pa ->
  (ispk pr = true -> ispk pa = true /\ vkB = true) ->
  ~ In (pname pa) (names_of (PA ++ KA)) -> ~ In (pname pa) (names_of KB) ->
  MR (pa :: PA) [] (pr :: PR) KR.
Proof. intros. apply mr_keep; auto. eapply MR_fresh; eauto. Qed.

Lemma mr_drop' pa PA PR KR :
  MR PA [] PR KR -> vaB = false -> has_def pa = true ->
  ~ In (pname pa) (names_of (PA ++ KA)) -> ~ In (pname pa) (names_of KB) ->
  MR (pa :: PA) [] PR KR.
Proof. intros. apply mr_drop; auto. eapply MR_fresh; eauto. Qed.

Lemma mr_conv' pa q PA PR KR :
  MR PA [] PR KR -> vaB = false -> vkB = true -> ispk pa = true ->
  pname q = pname pa -> has_def q = has_def pa ->
  ~ In (pname pa) (names_of (PA ++ KA)) -> ~ In (pname pa) (names_of KB) ->
  MR (pa :: PA) [] PR (q :: KR).
Proof. intros. eapply mr_conv; eauto. eapply MR_fresh; eauto. Qed.

Lemma mr_keepR' pb pr PB PR KR :
  MR [] PB PR KR -> vaA = true -> pname pr = pname pb -> has_def pr = has_def pb ->
  (ispk pr = true -> ispk pb = true /\ vkA = true) ->
  ~ In (pname pb) (names_of (PB ++ KB)) -> ~ In (pname pb) (names_of KA) ->
  MR [] (pb :: PB) (pr :: PR) KR.
Proof. intros. apply mr_keepR; auto. eapply MR_fresh; eauto. Qed.

Lemma mr_dropR' pb PB PR KR :
  MR [] PB PR KR -> vaA = false -> has_def pb = true ->
  ~ In (pname pb) (names_of (PB ++ KB)) -> ~ In (pname pb) (names_of KA) ->
  MR [] (pb :: PB) PR KR.
Proof. intros. apply mr_dropR; auto. eapply MR_fresh; eauto. Qed.

Lemma mr_convR' pb q PB PR KR :
  MR [] PB PR KR -> vaA = false -> vkA = true -> ispk pb = true ->
  pname q = pname pb -> has_def q = has_def pb ->
  ~ In (pname pb) (names_of (PB ++ KB)) -> ~ In (pname pb) (names_of KA) ->
  MR [] (pb :: PB) PR (q :: KR).
Proof. intros. eapply mr_convR; eauto. eapply MR_fresh; eauto. Qed.

Lemma KSpec_perm KR KR' : Permutation KR KR' -> KSpec KR -> KSpec KR'.
Proof.
  intros HP [S0 S1 S2 S3 S4]. pose proof (Permutation_sym HP) as HP'. constructor.
  - intros q Hq. apply S0. eapply Permutation_in; eauto.
  - intros q Hq. apply S1. eapply Permutation_in; eauto.
  - intros q Hq. apply S2. eapply Permutation_in; eauto.
  - intros q Hq Hd. destruct (S3 q Hq Hd) as [qr [Hr X]]. exists qr. split; [eapply Permutation_in; eauto|exact X].
  - intros q Hq Hd. destruct (S4 q Hq Hd) as [qr [Hr X]]. exists qr. split; [eapply Permutation_in; eauto|exact X].
Qed.

Lemma notin_perm x (PR KR KR' : list param) :
  Permutation KR KR' -> ~ In x (names_of (PR ++ KR)) -> ~ In x (names_of (PR ++ KR')).
Proof.
  intros HP H X. apply H. unfold names_of in *. rewrite map_app in *. apply in_app_or in X. apply in_or_app.
  destruct X as [X|X]; [left; exact X|right]. eapply Permutation_in; [apply Permutation_map, Permutation_sym, HP|exact X].
Qed.

Lemma MR_perm PA PB PR KR :
  MR PA PB PR KR -> forall KR', Permutation KR KR' -> MR PA PB PR KR'.
Proof.
  induction 1 as [KR HS
                 |pa pb pr PA PB PR KR HM IH Eb Er Epk Hpk Hd Fa Fb Fr
                 |pa pr PA PR KR HM IH Hva Er Hd Hpk Fa Fb Fr
                 |pa PA PR KR HM IH Hva Hd Fa Fr
                 |pa q PA PR KR KR' HM IH Hva Hvk Hpk Eq Hd HP Fa Fb Fr
                 |pb pr PB PR KR HM IH Hva Er Hd Hpk Fb Fa Fr
                 |pb PB PR KR HM IH Hva Hd Fb Fr
                 |pb q PB PR KR KR' HM IH Hva Hvk Hpk Eq Hd HP Fb Fa Fr]; intros K2 H2.
  - apply mr_base. eapply KSpec_perm; eauto.
  - apply mr_pair; auto. eapply notin_perm; eauto.
  - apply mr_keep; auto. eapply notin_perm; eauto.
  - apply mr_drop; auto. eapply notin_perm; eauto.
  - eapply mr_conv; eauto. eapply Permutation_trans; [apply Permutation_sym; exact H2|exact HP].
  - apply mr_keepR; auto. eapply notin_perm; eauto.
  - apply mr_dropR; auto. eapply notin_perm; eauto.
  - eapply mr_convR; eauto. eapply Permutation_trans; [apply Permutation_sym; exact H2|exact HP].
Qed.
End MRel.

(* ================================================================== *)
(* 3. when no call can satisfy both operands                           *)

Lemma req_pos_nth P : forall n i p ks,
  req_pos P n ks = true -> nth_error P i = Some p -> (n <= i)%nat ->
  has_def p || is_kind PK p && mem (pname p) ks = true.
Proof.
  induction P as [|q P IH]; intros n i p ks H Hi Hn; [destruct i; discriminate|].
  cbn [req_pos] in H. destruct n as [|n].
  - apply andb_true_iff in H. destruct H as [H1 H2]. destruct i as [|i]; cbn [nth_error] in Hi.
    + inversion Hi; subst. exact H1.
    + apply (IH 0%nat i p ks H2 Hi). lia.
  - destruct i as [|i]; [lia|]. cbn [nth_error] in Hi. apply (IH n i p ks H Hi). lia.
Qed.

(* an unbalanced required parameter the other operand can neither take positionally
   (no star-args) nor by name (positional-only, or no star-kwargs) *)
Lemma no_call_pos PA KA vaA vkA PB KB vkB t i n ks :
  nth_error PA i = Some t -> (length PB <= i)%nat -> has_def t = false ->
  (ispk t = false \/ (vkB = false /\ ~ In (pname t) (names_of (PB ++ KB)))) ->
  acc4 PA KA vaA vkA n ks && acc4 PB KB false vkB n ks = false.
Proof.
  intros Hi Hl Hd Hk. destruct (acc4 PA KA vaA vkA n ks) eqn:EA; [|reflexivity].
  destruct (acc4 PB KB false vkB n ks) eqn:EB; [|reflexivity]. exfalso.
  unfold acc4 in EA, EB.
  apply andb_true_iff in EA. destruct EA as [EA A4]. apply andb_true_iff in EA. destruct EA as [EA A3].
  apply andb_true_iff in EA. destruct EA as [A1 A2].
  apply andb_true_iff in EB. destruct EB as [EB B4]. apply andb_true_iff in EB. destruct EB as [EB B3].
  apply andb_true_iff in EB. destruct EB as [B1 B2].
  rewrite orb_false_r in B1. apply Nat.leb_le in B1.
  assert (X : has_def t || is_kind PK t && mem (pname t) ks = true) by (apply (req_pos_nth PA n i t ks A3 Hi); lia).
  rewrite Hd in X. cbn [orb] in X. apply andb_true_iff in X. destruct X as [X1 X2].
  destruct Hk as [Hk|[Hv Hf]]; [unfold ispk in Hk; congruence|].
  apply mem_In in X2. rewrite forallb_forall in B2. specialize (B2 _ X2).
  rewrite (kwok4_foreign PB KB vkB n _ Hf) in B2. congruence.
Qed.

(* a required keyword-only parameter the other operand cannot take (no star-kwargs) *)
Lemma no_call_kwo PA KA vaA vkA PB KB vaB q n ks :
  In q KA -> has_def q = false -> ~ In (pname q) (names_of (PB ++ KB)) ->
  acc4 PA KA vaA vkA n ks && acc4 PB KB vaB false n ks = false.
Proof.
  intros Hq Hd Hf. destruct (acc4 PA KA vaA vkA n ks) eqn:EA; [|reflexivity].
  destruct (acc4 PB KB vaB false n ks) eqn:EB; [|reflexivity]. exfalso.
  unfold acc4 in EA, EB.
  apply andb_true_iff in EA. destruct EA as [EA A4]. apply andb_true_iff in EA. destruct EA as [EA A3].
  apply andb_true_iff in EA. destruct EA as [A1 A2].
  apply andb_true_iff in EB. destruct EB as [EB B4]. apply andb_true_iff in EB. destruct EB as [EB B3].
  apply andb_true_iff in EB. destruct EB as [B1 B2].
  pose proof (proj1 (reqk_spec KA ks) A4) as A4'. destruct (A4' q Hq) as [X|X]; [congruence|].
  apply mem_In in X. rewrite forallb_forall in B2. specialize (B2 _ X).
  rewrite (kwok4_foreign PB KB false n _ Hf) in B2. discriminate.
Qed.

Print Assumptions MR_exact.
Print Assumptions MR_perm.
Print Assumptions no_call_pos.
Print Assumptions no_call_kwo.
