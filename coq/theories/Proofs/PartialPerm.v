(* PartialPerm.v — the signature of functools.partial does not depend on the
   order of the bound keywords (up to the order of the keyword-only
   parameters): C19 counterpart of C03_perm, for ALL valid signatures. *)
From Sigtools.Model Require Import Base Bind Roles Algebra.
From Sigtools.Proofs Require Import SmallModel Basics MaskLaws MaskExact MergeNeutral Prov
     MaskNamesLib MaskNamesStep MaskNames MaskAlgebra MaskHide PartialShape.
From Coq Require Import Lia Permutation.

Lemma mask_name_some_err pobj hv st x v e :
  mask_name (Some pobj) hv st (x, v) = Err e ->
  In x (k_consumed st) \/ (hv = false /\ ~ In x (names_of (k_pok st)) /\ ~ In x (names_of (k_kwo st))).
Proof.
  unfold mask_name. cbn [fst snd].
  destruct (mem x (k_consumed st)) eqn:E; [intros _; left; apply mem_In; exact E|].
  pose proof (split_at_name_spec x (k_pok st)) as Sp.
  destruct (split_at_name x (k_pok st)) as [[[a p] b]|]; [discriminate|].
  pose proof (find_param_split x (k_kwo st)) as F.
  destruct (find_param x (k_kwo st)) as [p|]; [discriminate|].
  destruct hv; cbn [negb]; [discriminate|]. intros _. right. auto.
Qed.

(* when the loop succeeds: the same condition as in mask mode *)
Lemma partial_names_ok pobj hv pos1 vk : forall kvs st,
  KInv pos1 vk st -> hv = isSome vk ->
  (forall x, In x (map fst kvs) ->
     ~ In x (names_of pos1 ++ names_of (opt_list (k_va st)) ++ names_of (opt_list vk))) ->
  ((exists stf, mask_names (Some pobj) hv st kvs = Ok stf) <-> ok_names hv st (map fst kvs)).
Proof.
  induction kvs as [|[x v] kvs IH]; intros st Hinv Hhv Hnm.
  - cbn [mask_names map]. split; [intros _|intros _; eexists; reflexivity].
    split; [constructor|split; [intros x []|intros _ x []]].
  - cbn [mask_names map fst] in *.
    pose proof (mask_name_some_cases pobj hv pos1 vk st x v Hinv) as Hc.
    destruct (mask_name (Some pobj) hv st (x, v)) as [st'|e] eqn:Est; cbn [bind].
    + destruct Hc as (Hxc & Hcons & Hcases).
      pose proof (mask_name_step (Some pobj) hv pos1 vk st x v Hinv Hhv Hxc
                                 (fun _ => Hnm x (or_introl eq_refl))) as Hs.
      rewrite Est in Hs. destruct Hs as (Hinv' & _ & _ & Hva' & _).
      assert (Hnm' : forall y, In y (map fst kvs) ->
                ~ In y (names_of pos1 ++ names_of (opt_list (k_va st')) ++ names_of (opt_list vk))).
      { intros y Hy X. apply (Hnm y (or_intror Hy)).
        apply in_app_or in X. destruct X as [X|X]; [apply in_or_app; left; exact X|].
        apply in_app_or in X. destruct X as [X|X].
        - apply in_or_app. right. apply in_or_app. left. apply Hva'. exact X.
        - apply in_or_app. right. apply in_or_app. right. exact X. }
      rewrite (IH st' Hinv' Hhv Hnm'). clear IH.
      (* the names of the keyword-passable parameters, x apart, are unchanged *)
      assert (Hnames : forall y, y <> x ->
                (In y (names_of (k_pok st') ++ names_of (k_kwo st'))
                 <-> In y (names_of (k_pok st) ++ names_of (k_kwo st)))).
      { intros y Hy. destruct Hcases as [A|[B|C]].
        - destruct A as (before & p & after & Ep & Hp & _ & _ & _ & E1 & _ & E3 & _).
          rewrite E1, E3, Ep. rewrite !names_of_app, names_of_set_kind, !names_of_cons, names_of_nil.
          cbn [set_def set_kind pname]. rewrite !in_app_iff. cbn [In]. rewrite Hp. tauto.
        - destruct B as (l1 & p & l2 & _ & Ek & Hp & _ & E1 & _ & E3 & _).
          rewrite E1, E3, Ek. rewrite !names_of_app, !names_of_cons. reflexivity.
        - destruct C as (_ & _ & _ & E1 & _ & E3 & _).
          rewrite E1, E3. rewrite !names_of_app, names_of_cons, names_of_nil. cbn [newp fst pname].
          rewrite !in_app_iff. cbn [In]. split; [|tauto]. intros [X|[X|[X|[]]]]; try tauto.
          exfalso. apply Hy. symmetry. exact X. }
      assert (Hxin : hv = false -> In x (names_of (k_pok st) ++ names_of (k_kwo st))).
      { intros Hf. destruct Hcases as [A|[B|C]].
        - destruct A as (before & p & after & Ep & Hp & _). apply in_or_app. left.
          rewrite Ep, names_of_app. apply in_or_app. right. left. exact Hp.
        - destruct B as (l1 & p & l2 & _ & Ek & Hp & _). apply in_or_app. right.
          rewrite Ek, names_of_app. apply in_or_app. right. left. exact Hp.
        - destruct C as (_ & _ & Ht & _). rewrite Ht in Hf. discriminate. }
      split.
      * intros (O1 & O2 & O3). split; [|split].
        -- constructor; [|exact O1]. intros Hin. apply (O2 x Hin). rewrite Hcons. left; reflexivity.
        -- intros y [<-|Hy]; [exact Hxc|]. intros X. apply (O2 y Hy). rewrite Hcons. right. exact X.
        -- intros Hf y [<-|Hy]; [exact (Hxin Hf)|]. apply (Hnames y).
           ++ intros E. subst y. apply (O2 x Hy). rewrite Hcons. left. reflexivity.
           ++ exact (O3 Hf y Hy).
      * intros (O1 & O2 & O3). apply NoDup_cons_iff in O1. destruct O1 as [Hxn O1]. split; [exact O1|split].
        -- intros y Hy. rewrite Hcons. intros [E|X]; [subst y; contradiction|]. exact (O2 y (or_intror Hy) X).
        -- intros Hf y Hy. apply (Hnames y).
           ++ intros E. subst y. contradiction.
           ++ exact (O3 Hf y (or_intror Hy)).
    + split; [intros [stf Hx]; discriminate|]. intros (O1 & O2 & O3). exfalso.
      destruct (mask_name_some_err pobj hv st x v e Est) as [Hin|(Hf & H1 & H2)].
      * exact (O2 x (or_introl eq_refl) Hin).
      * specialize (O3 Hf x (or_introl eq_refl)). apply in_app_or in O3. tauto.
Qed.

Lemma lookup_perm x kvs kvs' :
  NoDup (map fst kvs) -> Permutation kvs kvs' -> lookup x kvs = lookup x kvs'.
Proof.
  intros Hnd Hp. induction Hp as [|[k v] l l' Hp IH|[k1 v1] [k2 v2] l|l l' l'' Hp1 IH1 Hp2 IH2].
  - reflexivity.
  - cbn [lookup]. cbn [map fst] in Hnd. apply NoDup_cons_iff in Hnd. rewrite (IH (proj2 Hnd)). reflexivity.
  - cbn [lookup]. cbn [map fst] in Hnd. apply NoDup_cons_iff in Hnd. destruct Hnd as [Hn _].
    destruct (N.eqb_spec x k1) as [E1|_]; destruct (N.eqb_spec x k2) as [E2|_]; try reflexivity.
    exfalso. apply Hn. left. congruence.
  - rewrite (IH1 Hnd). apply IH2. eapply Permutation_NoDup; [apply Permutation_map; exact Hp1|exact Hnd].
Qed.

Lemma kwo_formP_perm kvs kvs' pok kwo :
  NoDup (map fst kvs) -> Permutation kvs kvs' ->
  Permutation (kwo_formP kvs pok kwo) (kwo_formP kvs' pok kwo).
Proof.
  intros Hnd Hp. unfold kwo_formP.
  assert (Hns : Permutation (map fst kvs) (map fst kvs')) by (apply Permutation_map; exact Hp).
  assert (Enh : forall q, nh (map fst kvs) q = nh (map fst kvs') q) by (intros q; apply nh_perm; exact Hns).
  rewrite (dropw_ext_in _ _ pok (fun q _ => Enh q)).
  apply Permutation_app.
  - assert (E : forall l, map (bindv kvs) l = map (bindv kvs') l).
    { intros l. apply map_ext. intros q. unfold bindv. rewrite (lookup_perm _ _ _ Hnd Hp). reflexivity. }
    rewrite E. apply Permutation_refl.
  - apply Permutation_map. unfold absorbed. apply filter_perm. exact Hp.
Qed.

Lemma forallb_perm {A} (f : A -> bool) l l' : Permutation l l' -> forallb f l = forallb f l'.
Proof.
  intros H. apply eq_true_iff_eq. rewrite !forallb_forall.
  split; intros Hl x Hx; apply Hl; [apply Permutation_sym in H|]; eapply Permutation_in; eassumption.
Qed.

Lemma names_passable_n_perm ps n l l' :
  Permutation l l' -> names_passable_n ps n l = names_passable_n ps n l'.
Proof.
  intros H. unfold names_passable_n, avoid_remaining_po, names_avoid_stars.
  rewrite (forallb_perm _ _ _ H). f_equal. apply forallb_perm. exact H.
Qed.

(* C19, order independence: for ALL valid signatures *)
Theorem partial_perm s n kw kw' pobj :
  valid_sig (params s) = true -> NoDup (map fst kw) ->
  names_passable_n (params s) n (map fst kw) = true -> Permutation kw kw' ->
  perm_rel (sig_partial s n kw pobj) (sig_partial s n kw' pobj).
Proof.
  intros Hv Hnd Hpass Hp.
  assert (Hns : Permutation (map fst kw) (map fst kw')) by (apply Permutation_map; exact Hp).
  assert (Hnd' : NoDup (map fst kw')) by (eapply Permutation_NoDup; eassumption).
  assert (Hpass' : names_passable_n (params s) n (map fst kw') = true)
    by (rewrite <- (names_passable_n_perm _ _ _ _ Hns); exact Hpass).
  unfold sig_partial. change (mkHide false false false false) with nohide0.
  rewrite !mask_gen_unfold. cbv zeta.
  destruct (Nat.ltb _ n && _); [reflexivity|].
  pose proof (st0_inv s n Hv) as Hinv.
  pose proof (passable_n_names s n _ Hv Hpass) as Hnm.
  pose proof (passable_n_names s n _ Hv Hpass') as Hnm'.
  set (so := sort_params s) in *. set (st0 := st0_of so n) in *.
  pose proof (partial_names_ok pobj (isSome (varkwargs so)) _ _ kw st0 Hinv eq_refl Hnm) as Ok1.
  pose proof (partial_names_ok pobj (isSome (varkwargs so)) _ _ kw' st0 Hinv eq_refl Hnm') as Ok2.
  destruct (mask_names (Some pobj) (isSome (varkwargs so)) st0 kw) as [a|e1] eqn:Ha;
    destruct (mask_names (Some pobj) (isSome (varkwargs so)) st0 kw') as [b|e2] eqn:Hb; cbn [bind].
  - destruct (partial_names_closed pobj _ _ _ kw st0 Hinv eq_refl Hnd Hnm a Ha) as (I1 & I2 & I3 & I4 & _).
    destruct (partial_names_closed pobj _ _ _ kw' st0 Hinv eq_refl Hnd' Hnm' b Hb) as (J1 & J2 & J3 & J4 & _).
    unfold apply_params.
    change (flatten (mkSorted (skipn n (posargs so)) (k_pok a) (k_va a) (k_kwo a) (varkwargs so) (k_src a)
                              (dep_of so (Some pobj)))) with (kps (skipn n (posargs so)) (varkwargs so) a).
    change (flatten (mkSorted (skipn n (posargs so)) (k_pok b) (k_va b) (k_kwo b) (varkwargs so) (k_src b)
                              (dep_of so (Some pobj)))) with (kps (skipn n (posargs so)) (varkwargs so) b).
    rewrite (KInv_validate _ _ _ I4), (KInv_validate _ _ _ J4). cbn [perm_rel params].
    assert (Enh : forall q, nh (map fst kw) q = nh (map fst kw') q) by (intros q; apply nh_perm; exact Hns).
    assert (Epok : k_pok a = k_pok b).
    { rewrite I1, J1. apply takew_ext_in. intros q _. apply Enh. }
    assert (Eva : k_va a = k_va b).
    { rewrite I2, J2. unfold va_form. rewrite (forallb_ext _ _ (k_pok st0) Enh). reflexivity. }
    destruct I4 as (Ka & _). destruct J4 as (Kb & _). unfold kps. split.
    + rewrite (blk_nonko _ _ _ _ _ Ka), (blk_nonko _ _ _ _ _ Kb), Epok, Eva. reflexivity.
    + rewrite (blk_kwonly _ _ _ _ _ Ka), (blk_kwonly _ _ _ _ _ Kb).
      eapply perm_trans; [exact I3|]. eapply perm_trans; [apply (kwo_formP_perm kw kw' _ _ Hnd Hp)|].
      symmetry. exact J3.
  - exfalso. assert (O : ok_names (isSome (varkwargs so)) st0 (map fst kw)) by (apply Ok1; eexists; reflexivity).
    apply (ok_names_perm _ _ _ _ Hns) in O. apply Ok2 in O. destruct O as [stf O]. discriminate.
  - exfalso. assert (O : ok_names (isSome (varkwargs so)) st0 (map fst kw')) by (apply Ok2; eexists; reflexivity).
    apply (ok_names_perm _ _ _ _ (Permutation_sym Hns)) in O. apply Ok1 in O. destruct O as [stf O]. discriminate.
  - cbn [perm_rel]. rewrite (mask_names_err _ _ _ _ _ Ha), (mask_names_err _ _ _ _ _ Hb). reflexivity.
Qed.

Example partial_perm_nonvacuous :
  valid_sig (params ex_sig) = true /\ NoDup (map fst [(2, 5); (1, 6); (4, 7)]) /\
  names_passable_n (params ex_sig) 1 (map fst [(2, 5); (1, 6); (4, 7)]) = true /\
  res_names (sig_partial ex_sig 1 [(2, 5); (1, 6); (4, 7)] 200) = Some [(4, KO); (3, KO); (2, KO); (1, KO); (10, VK)] /\
  res_names (sig_partial ex_sig 1 [(1, 6); (4, 7); (2, 5)] 200) = Some [(4, KO); (1, KO); (3, KO); (2, KO); (10, VK)].
Proof.
  split; [vm_compute; reflexivity|]. split; [apply nodup3; discriminate|].
  split; [vm_compute; reflexivity|]. split; vm_compute; reflexivity.
Qed.

Print Assumptions partial_names_ok.
Print Assumptions partial_perm.
Print Assumptions partial_perm_nonvacuous.
