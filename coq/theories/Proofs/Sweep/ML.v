From Sigtools.Model Require Import Universe.
From Sigtools.Proofs Require Import SweepDefs SweepDefs2 SweepDefs3.
Lemma fold_all : fold_sweep U1ab = true.
Proof. vm_compute. reflexivity. Qed.
Lemma assoc_all : assoc_sweep U1ab = true.
Proof. vm_compute. reflexivity. Qed.
Lemma compose_all : compose_sweep U2ab = true.
Proof. vm_compute. reflexivity. Qed.
