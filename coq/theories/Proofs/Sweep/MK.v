From Sigtools.Model Require Import Universe.
From Sigtools.Proofs Require Import SweepDefs SweepDefs2.
Lemma mk : mask_sweep U2ab = true.
Proof. vm_compute. reflexivity. Qed.
Lemma pk : partial_sweep U2ab = true.
Proof. vm_compute. reflexivity. Qed.
