From Sigtools.Model Require Import Universe.
From Sigtools.Proofs Require Import SweepDefs.
Lemma mt : triples_sweep (chunk TCH 0 U1ab) = true.
Proof. vm_compute. reflexivity. Qed.
