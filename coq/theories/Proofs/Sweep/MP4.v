From Sigtools.Model Require Import Universe.
From Sigtools.Proofs Require Import SweepDefs.
Lemma mp : pairs_sweep (chunk PCH 4 U2ab) = true.
Proof. vm_compute. reflexivity. Qed.
