From Sigtools.Model Require Import Universe.
From Sigtools.Proofs Require Import SweepDefs SweepDefs2.
Lemma me : embed_sweep (chunk ECH 2 U2ab) = true.
Proof. vm_compute. reflexivity. Qed.
