(* MaskNames.v — C03 / C19 for ALL signatures with NAMED arguments:
   mask(sig, n, *names) accepts a non-colliding call (keywords disjoint from
   names) exactly when sig accepts it with n extra leading positionals and the
   names added as keywords, and raises ValueError exactly when sig accepts no
   such extended call; the same for the signature of
   functools.partial(f, <n positionals>, **{names}), where the call may override
   the bound keywords. *)
From Sigtools.Model Require Import Base Bind Roles Algebra.
From Sigtools.Proofs Require Import SmallModel Basics MaskLaws MaskExact MergeNeutral
     MaskNamesLib MaskNamesStep.
From Coq Require Import Lia Btauto.

(* ------------------------------------------------------------------ *)
(* the loop over the named arguments                                    *)

Lemma mask_names_chain pm hv pos1 vk : forall kvs st,
  KInv pos1 vk st -> hv = isSome vk -> NoDup (map fst kvs) ->
  (forall x, In x (map fst kvs) -> ~ In x (k_consumed st)) ->
  (pm <> None -> forall x, In x (map fst kvs) ->
     ~ In x (names_of pos1 ++ names_of (opt_list (k_va st)) ++ names_of (opt_list vk))) ->
  match mask_names pm hv st kvs with
  | Ok stf =>
      KInv pos1 vk stf /\
      (forall y, In y (names_of (kps pos1 vk stf)) ->
                 In y (names_of (kps pos1 vk st)) \/ (pm <> None /\ In y (map fst kvs))) /\
      forall m K, (pm = None -> forall x, In x (map fst kvs) -> ~ In x K) ->
        accepts (kps pos1 vk stf) (mkCall m K)
        = accepts (kps pos1 vk st) (mkCall m (map fst kvs ++ K))
  | Err e => e = ValueErr /\
      forall m K, (pm = None -> forall x, In x (map fst kvs) -> ~ In x K) ->
        accepts (kps pos1 vk st) (mkCall m (map fst kvs ++ K)) = false
  end.
Proof.
  induction kvs as [|[x v] kvs IH]; intros st Hinv Hhv Hnd Hcons Hpm.
  - cbn [mask_names map app]. split; [exact Hinv|]. split; [intros y Hy; left; exact Hy|reflexivity].
  - cbn [mask_names map fst] in *. apply NoDup_cons_iff in Hnd. destruct Hnd as [Hx Hnd'].
    pose proof (mask_name_step pm hv pos1 vk st x v Hinv Hhv (Hcons x (or_introl eq_refl))
                               (fun H => Hpm H x (or_introl eq_refl))) as Hs.
    destruct (mask_name pm hv st (x, v)) as [st'|e]; cbn [bind].
    + destruct Hs as (Hinv' & Hc' & Hnm & Hva & Hacc).
      assert (Hcons' : forall y, In y (map fst kvs) -> ~ In y (k_consumed st')).
      { intros y Hy. rewrite Hc'. intros [E|X]; [subst y; exact (Hx Hy)|].
        exact (Hcons y (or_intror Hy) X). }
      assert (Hpm' : pm <> None -> forall y, In y (map fst kvs) ->
                ~ In y (names_of pos1 ++ names_of (opt_list (k_va st')) ++ names_of (opt_list vk))).
      { intros Hp y Hy X. apply (Hpm Hp y (or_intror Hy)).
        apply in_app_or in X. destruct X as [X|X]; [apply in_or_app; left; exact X|].
        apply in_app_or in X. destruct X as [X|X].
        - apply in_or_app. right. apply in_or_app. left. apply Hva. exact X.
        - apply in_or_app. right. apply in_or_app. right. exact X. }
      specialize (IH st' Hinv' Hhv Hnd' Hcons' Hpm').
      assert (Hside : forall K, (pm = None -> forall y, x = y \/ In y (map fst kvs) -> ~ In y K) ->
                pm = None -> ~ In x (map fst kvs ++ K)).
      { intros K HK Hp X. apply in_app_or in X. destruct X as [X|X]; [exact (Hx X)|].
        exact (HK Hp x (or_introl eq_refl) X). }
      destruct (mask_names pm hv st' kvs) as [stf|e].
      * destruct IH as (Hinvf & Hnmf & Haccf). split; [exact Hinvf|]. split.
        -- intros y Hy. destruct (Hnmf y Hy) as [H|[Ha Hb]].
           ++ destruct (Hnm y H) as [H'|[Ha Hb]]; [left; exact H'|].
              right. split; [exact Ha|left; symmetry; exact Hb].
           ++ right. split; [exact Ha|right; exact Hb].
        -- intros m K HK. rewrite (Haccf m K (fun Hp y Hy => HK Hp y (or_intror Hy))).
           rewrite (Hacc m (map fst kvs ++ K) (Hside K HK)). reflexivity.
      * destruct IH as (-> & Hf). split; [reflexivity|]. intros m K HK. cbn [app].
        rewrite <- (Hacc m (map fst kvs ++ K) (Hside K HK)).
        apply Hf. intros Hp y Hy. exact (HK Hp y (or_intror Hy)).
    + destruct Hs as (-> & Hf). split; [reflexivity|]. intros m K _. cbn [app]. apply Hf.
Qed.

(* a name among the consumed ones makes the loop raise *)
Lemma mask_name_consumed pm hv st x v :
  match mask_name pm hv st (x, v) with
  | Ok st' => k_consumed st' = x :: k_consumed st /\ ~ In x (k_consumed st)
  | Err e => e = ValueErr
  end.
Proof.
  unfold mask_name. cbn [fst snd].
  destruct (mem x (k_consumed st)) eqn:E; [reflexivity|]. apply mem_false_In in E.
  destruct (split_at_name x (k_pok st)) as [[[a p] b]|]; [split; [reflexivity|exact E]|].
  destruct (find_param x (k_kwo st)) as [p|]; [destruct pm; split; [reflexivity|exact E|reflexivity|exact E]|].
  destruct (negb hv); [reflexivity|]. destruct pm; split; [reflexivity|exact E|reflexivity|exact E].
Qed.

Lemma mask_names_consumed_err pm hv : forall kvs st x,
  In x (map fst kvs) -> In x (k_consumed st) -> mask_names pm hv st kvs = Err ValueErr.
Proof.
  induction kvs as [|[y v] kvs IH]; intros st x Hx Hc; [destruct Hx|].
  cbn [mask_names map fst] in *. pose proof (mask_name_consumed pm hv st y v) as Hs.
  destruct (mask_name pm hv st (y, v)) as [st'|e]; cbn [bind]; [|subst e; reflexivity].
  destruct Hs as [Hc' Hny]. destruct Hx as [E|Hx].
  - subst y. contradiction.
  - apply (IH st' x Hx). rewrite Hc'. right. exact Hc.
Qed.

(* ------------------------------------------------------------------ *)
(* consumption of n leading positionals, for arbitrary keywords         *)

Lemma kw_class_pos_consumed a : forall n m k,
  In k (names_of (firstn n a)) ->
  kw_class_pos a (n + m) k = Some KDup \/ kw_class_pos a (n + m) k = Some KExtra.
Proof.
  induction a as [|p a IH]; intros n m k Hk.
  - destruct n; destruct Hk.
  - destruct n as [|n]; [destruct Hk|]. cbn [firstn names_of map] in Hk. cbn [kw_class_pos Nat.add].
    destruct (N.eqb_spec k (pname p)) as [E|Hne].
    + destruct (pkind p); auto.
    + cbn [Nat.pred]. apply IH. destruct Hk as [X|X]; [exfalso; apply Hne; symmetry; exact X|exact X].
Qed.

Lemma kw_class_pos_consumed_pk a : forall n m k,
  In k (names_of (firstn n a)) ->
  (forall q, In q (firstn n a) -> pname q = k -> pkind q = PK) ->
  kw_class_pos a (n + m) k = Some KDup.
Proof.
  induction a as [|p a IH]; intros n m k Hk Hq.
  - destruct n; destruct Hk.
  - destruct n as [|n]; [destruct Hk|]. cbn [firstn names_of map] in Hk, Hq. cbn [kw_class_pos Nat.add].
    destruct (N.eqb_spec k (pname p)) as [E|Hne].
    + rewrite (Hq p (or_introl eq_refl) (eq_sym E)). reflexivity.
    + cbn [Nat.pred]. apply IH.
      * destruct Hk as [X|X]; [exfalso; apply Hne; symmetry; exact X|exact X].
      * intros q Hin. apply Hq. right. exact Hin.
Qed.

Lemma has_kind_skip k a b n :
  all_positional a -> (k = VP \/ k = VK) -> has_kind k (skipn n a ++ b) = has_kind k (a ++ b).
Proof.
  intros Ha Hk. unfold has_kind. rewrite !existsb_app.
  pose proof (has_kind_positional k (skipn n a) (all_positional_skipn n a Ha)) as E1.
  pose proof (has_kind_positional k a Ha) as E2. unfold has_kind in E1, E2.
  rewrite E1, E2 by tauto. reflexivity.
Qed.

Lemma consume_accepts_imp a b n m K :
  all_positional a -> none_positional b -> NoDup (names_of (a ++ b)) ->
  accepts (a ++ b) (mkCall (n + m) K) = true -> accepts (skipn n a ++ b) (mkCall m K) = true.
Proof.
  intros Ha Hb Hn H. unfold accepts in *. cbn [npos kws] in *.
  destruct (consume_positional a b n Ha Hb) as [E1 E2]. rewrite E1. rewrite E2 in H.
  apply andb_true_iff in H. destruct H as [H H4]. apply andb_true_iff in H. destruct H as [H H3].
  apply andb_true_iff in H. destruct H as [H1 H2].
  apply andb_true_iff. split; [apply andb_true_iff; split; [apply andb_true_iff; split|]|].
  - rewrite (has_kind_skip VP a b n Ha) by tauto. apply orb_true_iff in H1. apply orb_true_iff.
    destruct H1 as [H1|H1]; [left|right; exact H1]. apply Nat.leb_le in H1. apply Nat.leb_le.
    rewrite skipn_length. lia.
  - rewrite forallb_forall in H2. apply forallb_forall. intros k Hk. specialize (H2 k Hk).
    unfold kw_ok in *. rewrite (has_kind_skip VK a b n Ha) by tauto.
    destruct (in_dec N.eq_dec k (names_of (firstn n a))) as [Hin|Hnin].
    + (* k names a consumed parameter: a positional-only one *)
      assert (Hcl : kw_class (a ++ b) (n + m) k = KExtra /\ has_kind VK (a ++ b) = true).
      { unfold kw_class in *. rewrite E2 in *.
        destruct (kw_class_pos_consumed a n m k Hin) as [E|E]; rewrite E in *; [discriminate|auto]. }
      destruct Hcl as [_ Hvk]. rewrite Hvk.
      rewrite kw_class_foreign; [reflexivity|].
      rewrite <- (firstn_skipn n a) in Hn. rewrite <- app_assoc, names_of_app in Hn.
      intros X. exact (nodup_app_disjoint _ _ k Hn Hin X).
    + rewrite (consume_kw_class a b n Ha Hb m k Hnin). exact H2.
  - rewrite req_pos_skip. exact H3.
  - unfold req_kwo in *. rewrite (consume_kwonly a b n Ha). exact H4.
Qed.

Lemma kw_class_pos_consumed_po a : forall n m k,
  In k (names_of (firstn n a)) ->
  (forall q, In q (firstn n a) -> pname q = k -> pkind q = PO) ->
  kw_class_pos a (n + m) k = Some KExtra.
Proof.
  induction a as [|p a IH]; intros n m k Hk Hq.
  - destruct n; destruct Hk.
  - destruct n as [|n]; [destruct Hk|]. cbn [firstn names_of map] in Hk, Hq. cbn [kw_class_pos Nat.add].
    destruct (N.eqb_spec k (pname p)) as [E|Hne].
    + rewrite (Hq p (or_introl eq_refl) (eq_sym E)). reflexivity.
    + cbn [Nat.pred]. apply IH.
      * destruct Hk as [X|X]; [exfalso; apply Hne; symmetry; exact X|exact X].
      * intros q Hin. apply Hq. right. exact Hin.
Qed.

(* consumption of n leading positionals when the keywords may name consumed
   POSITIONAL-ONLY parameters (such a keyword goes to the double-star parameter
   before and after) *)
Lemma consume_accepts_po a b n m K :
  all_positional a -> none_positional b -> NoDup (names_of (a ++ b)) ->
  (n <= length a)%nat \/ has_kind VP b = true ->
  (forall k, In k K -> forall q, In q (firstn n a) -> pname q = k -> pkind q = PO) ->
  accepts (skipn n a ++ b) (mkCall m K) = accepts (a ++ b) (mkCall (n + m) K).
Proof.
  intros Ha Hb Hn Hfit HK. unfold accepts. cbn [npos kws].
  destruct (consume_positional a b n Ha Hb) as [E1 E2]. rewrite E1, E2.
  rewrite (has_kind_skip VP a b n Ha) by tauto.
  assert (F1 : (Nat.leb m (length (skipn n a)) || has_kind VP (a ++ b))
               = (Nat.leb (n + m) (length a) || has_kind VP (a ++ b))).
  { rewrite skipn_length. destruct Hfit as [Hle|Hvp].
    - f_equal. destruct (Nat.leb_spec m (length a - n)), (Nat.leb_spec (n + m) (length a)); try reflexivity; lia.
    - unfold has_kind. rewrite existsb_app. fold (has_kind VP b). rewrite Hvp, !orb_true_r. reflexivity. }
  rewrite F1. f_equal; [f_equal; [f_equal|]|].
  - apply forallb_ext_in. intros k Hk. unfold kw_ok.
    rewrite (has_kind_skip VK a b n Ha) by tauto.
    destruct (in_dec N.eq_dec k (names_of (firstn n a))) as [Hin|Hnin].
    + assert (Ecl : kw_class (a ++ b) (n + m) k = KExtra).
      { unfold kw_class. rewrite E2, (kw_class_pos_consumed_po a n m k Hin (HK k Hk)). reflexivity. }
      rewrite Ecl. rewrite kw_class_foreign; [reflexivity|].
      rewrite <- (firstn_skipn n a) in Hn. rewrite <- app_assoc, names_of_app in Hn.
      intros X. exact (nodup_app_disjoint _ _ k Hn Hin X).
    + rewrite (consume_kw_class a b n Ha Hb m k Hnin). reflexivity.
  - apply req_pos_skip.
  - unfold req_kwo. rewrite (consume_kwonly a b n Ha). reflexivity.
Qed.

(* ------------------------------------------------------------------ *)
(* _mask without hide flags, both modes                                 *)

Definition st0_of (so : sorted) (n : nat) : kstate :=
  mkK (skipn (n - length (posargs so)) (pokargs so)) (varargs so) (kwoargs so)
      (src_pop_all (ssrc so) (names_of (firstn n (posargs so ++ pokargs so))))
      (names_of (firstn (n - length (posargs so)) (pokargs so))).

Definition dep_of (so : sorted) (pm : pmode) : depths :=
  match pm with
  | Some pobj => dep_set (dep_incr 1 (sdep so)) pobj 0
  | None => sdep so
  end.

Lemma mask_gen_unfold s n named pm :
  mask_gen s n nohide0 named pm =
  let so := sort_params s in
  if Nat.ltb (length (posargs so ++ pokargs so)) n && negb (isSome (varargs so)) then Err ValueErr
  else
    do st <- mask_names pm (isSome (varkwargs so)) (st0_of so n) named ;;
    apply_params s (mkSorted (skipn n (posargs so)) (k_pok st) (k_va st) (k_kwo st) (varkwargs so)
                             (k_src st) (dep_of so pm)).
Proof.
  unfold mask_gen, st0_of, dep_of. cbn [h_args h_kwargs h_varargs h_varkwargs nohide0 orb]. cbv zeta.
  destruct n as [|n].
  - cbn [Nat.eqb Nat.ltb Nat.leb andb bind Nat.sub skipn firstn names_of map].
    destruct (mask_names pm _ _ named) as [st|e]; cbn [bind]; [|reflexivity]. destruct pm; reflexivity.
  - cbn [Nat.eqb].
    destruct (Nat.ltb (length (posargs (sort_params s) ++ pokargs (sort_params s))) (S n)
              && negb (isSome (varargs (sort_params s)))); [reflexivity|].
    cbn [bind]. destruct (mask_names pm _ _ named) as [st|e]; cbn [bind]; [|reflexivity].
    destruct pm; reflexivity.
Qed.

Lemma Forall_skipn {A} (P : A -> Prop) n : forall l, Forall P l -> Forall P (skipn n l).
Proof.
  induction n as [|n IH]; intros l H; [exact H|]. destruct l as [|x l]; [exact H|].
  cbn [skipn]. apply IH. inversion H; assumption.
Qed.

Lemma valid_sig_validate ps : valid_sig ps = true -> validate ps = true.
Proof.
  unfold valid_sig. intros Hv. apply andb_true_iff in Hv. destruct Hv as [Hv _].
  apply andb_true_iff in Hv. tauto.
Qed.

Section Initial.
Variables (s : sigT) (n : nat).
Hypothesis Hv : valid_sig (params s) = true.
Let so := sort_params s.
Let A := posargs so ++ pokargs so.
Let B := rest_of so.

Lemma st0_kps : kps (skipn n (posargs so)) (varkwargs so) (st0_of so n) = skipn n A ++ B.
Proof.
  unfold kps, blk, st0_of, A, B, rest_of. cbn [k_pok k_va k_kwo].
  rewrite skipn_app, <- !app_assoc. reflexivity.
Qed.

Lemma params_AB : A ++ B = params s.
Proof. unfold A, B. rewrite <- flatten_split. apply sort_flatten_roundtrip. exact Hv. Qed.

Lemma validate_skip_AB : validate (skipn n A ++ B) = true.
Proof.
  pose proof (valid_sig_validate _ Hv) as Hval. pose proof params_AB as Hf.
  destruct (Nat.le_gt_cases n (length A)) as [Hle|Hgt].
  - assert (E : skipn n A ++ B = skipn n (A ++ B)).
    { rewrite skipn_app. replace (n - length A)%nat with 0%nat by lia. reflexivity. }
    rewrite E, Hf. apply validate_skipn. exact Hval.
  - assert (E : skipn n A ++ B = skipn (length A) (A ++ B)).
    { rewrite skipn_app, !skipn_all2 by lia. rewrite Nat.sub_diag. reflexivity. }
    rewrite E, Hf. apply validate_skipn. exact Hval.
Qed.

Lemma st0_inv : KInv (skipn n (posargs so)) (varkwargs so) (st0_of so n).
Proof.
  destruct (sort_params_kinds s) as (H1 & H2 & H3 & H4 & H5). fold so in H1, H2, H3, H4, H5.
  split; [|split].
  - unfold st0_of. cbn [k_pok k_va k_kwo]. repeat split; auto using Forall_skipn.
  - rewrite st0_kps. apply validate_nodup. exact validate_skip_AB.
  - unfold st0_of. cbn [k_pok]. rewrite <- skipn_app. fold A.
    pose proof (valid_sig_validate _ Hv) as Hval. rewrite <- params_AB in Hval.
    apply validate_iff in Hval. destruct Hval as (_ & _ & Hd).
    destruct (kinds_split s) as [Ha Hb]. fold so in Ha, Hb. fold A in Ha. fold (rest_of so) in Hb. fold B in Hb.
    rewrite positional_app, (positional_all A Ha), (positional_none B Hb), app_nil_r in Hd.
    eapply defs_ok_skipn. exact Hd.
Qed.
End Initial.

Lemma in_names (q : param) l : In q l -> In (pname q) (names_of l).
Proof. intros H. unfold names_of. apply in_map. exact H. Qed.

(* side conditions on the names (functools.partial mode only) *)
(* no name is a positional-only parameter that is NOT among the n consumed ones:
   such a keyword is absorbed by **kwargs and shown as a keyword-only parameter
   of the same name as the remaining positional-only one *)
Definition avoid_remaining_po (ps : list param) (n : nat) (names0 : list name) : bool :=
  forallb (fun k => negb (existsb (fun p => is_kind PO p && N.eqb k (pname p)) (skipn n ps))) names0.

(* no name is the name of a star parameter *)
Definition names_avoid_stars (ps : list param) (names0 : list name) : bool :=
  forallb (fun k => negb (existsb (fun p => (is_kind VP p || is_kind VK p) && N.eqb k (pname p)) ps)) names0.

Definition names_passable_n (ps : list param) (n : nat) (names0 : list name) : bool :=
  avoid_remaining_po ps n names0 && names_avoid_stars ps names0.

(* the stronger condition used before the model change: no name is the name of
   any parameter that cannot be passed by keyword *)
Definition names_passable (ps : list param) (names0 : list name) : bool :=
  forallb (fun k => negb (existsb (fun p => negb (is_kwpassable p) && N.eqb k (pname p)) ps)) names0.

Lemma names_passable_weaken ps n names0 :
  names_passable ps names0 = true -> names_passable_n ps n names0 = true.
Proof.
  unfold names_passable, names_passable_n, avoid_remaining_po, names_avoid_stars. intros H.
  rewrite forallb_forall in H. apply andb_true_iff.
  split; apply forallb_forall; intros x Hx; specialize (H x Hx); apply negb_true_iff in H; apply negb_true_iff.
  - destruct (existsb (fun p => is_kind PO p && N.eqb x (pname p)) (skipn n ps)) eqn:E; [|reflexivity].
    apply existsb_exists in E. destruct E as [q [Hq E]]. apply andb_true_iff in E. destruct E as [E1 E2].
    assert (X : existsb (fun p => negb (is_kwpassable p) && N.eqb x (pname p)) ps = true).
    { apply existsb_exists. exists q. split.
      - rewrite <- (firstn_skipn n ps). apply in_or_app. right. exact Hq.
      - rewrite E2, andb_true_r. unfold is_kind, kind_eqb in E1. unfold is_kwpassable.
        destruct (pkind q); try discriminate; reflexivity. }
    rewrite X in H. discriminate.
  - destruct (existsb (fun p => (is_kind VP p || is_kind VK p) && N.eqb x (pname p)) ps) eqn:E; [|reflexivity].
    apply existsb_exists in E. destruct E as [q [Hq E]]. apply andb_true_iff in E. destruct E as [E1 E2].
    assert (X : existsb (fun p => negb (is_kwpassable p) && N.eqb x (pname p)) ps = true).
    { apply existsb_exists. exists q. split; [exact Hq|].
      rewrite E2, andb_true_r. unfold is_kind, kind_eqb in E1. unfold is_kwpassable.
      destruct (pkind q); try discriminate; reflexivity. }
    rewrite X in H. discriminate.
Qed.

Lemma avoid_remaining_po_spec ps n names0 x q :
  avoid_remaining_po ps n names0 = true -> In x names0 -> In q (skipn n ps) -> pname q = x -> pkind q <> PO.
Proof.
  unfold avoid_remaining_po. intros H Hx Hq E Ek. rewrite forallb_forall in H. specialize (H x Hx).
  apply negb_true_iff in H.
  assert (X : existsb (fun p => is_kind PO p && N.eqb x (pname p)) (skipn n ps) = true).
  { apply existsb_exists. exists q. split; [exact Hq|]. unfold is_kind. rewrite Ek, E, N.eqb_refl. reflexivity. }
  rewrite X in H. discriminate.
Qed.

Lemma names_avoid_stars_spec ps names0 x q :
  names_avoid_stars ps names0 = true -> In x names0 -> In q ps -> pname q = x ->
  pkind q <> VP /\ pkind q <> VK.
Proof.
  unfold names_avoid_stars. intros H Hx Hq E. rewrite forallb_forall in H. specialize (H x Hx).
  apply negb_true_iff in H.
  split; intros Ek;
    (assert (X : existsb (fun p => (is_kind VP p || is_kind VK p) && N.eqb x (pname p)) ps = true);
     [apply existsb_exists; exists q; split; [exact Hq|]; unfold is_kind; rewrite Ek, E, N.eqb_refl; reflexivity|];
     rewrite X in H; discriminate).
Qed.

(* ------------------------------------------------------------------ *)
(* the general statement, both modes                                    *)

Section Top.
Variables (s : sigT) (n : nat) (named : list (name * N)) (pm : pmode).
Hypothesis Hv : valid_sig (params s) = true.
Hypothesis Hnd : NoDup (map fst named).
Hypothesis Hpass : pm <> None -> names_passable_n (params s) n (map fst named) = true.

Let names0 := map fst named.

Theorem mask_gen_exact :
  match mask_gen s n nohide0 named pm with
  | Ok r =>
      forall c, (pm = None -> disjointb (kws c) names0 = true) ->
                noncolliding c (params r) [params s] = true ->
                accepts (params r) c = accepts (params s) (mkCall (n + npos c) (names0 ++ kws c))
  | Err e =>
      e = ValueErr /\
      forall c, (pm = None -> disjointb (kws c) names0 = true) ->
                accepts (params s) (mkCall (n + npos c) (names0 ++ kws c)) = false
  end.
Proof.
  rewrite mask_gen_unfold. cbv zeta.
  pose proof (params_AB s Hv) as Hf.
  destruct (kinds_split s) as [Ha Hb]. fold (rest_of (sort_params s)) in Hb.
  pose proof (st0_inv s n Hv) as Hinv0. pose proof (st0_kps s n) as Ekps.
  pose proof (valid_sig_validate _ Hv) as Hval.
  destruct (sort_params_kinds s) as (K1 & K2 & K3 & K4 & K5).
  set (so := sort_params s) in *. set (A := posargs so ++ pokargs so) in *. set (B := rest_of so) in *.
  assert (HndAB : NoDup (names_of (A ++ B))) by (rewrite Hf; apply validate_nodup; exact Hval).
  assert (Hdisj : forall c, (pm = None -> disjointb (kws c) names0 = true) ->
                    pm = None -> forall x, In x names0 -> ~ In x (kws c)).
  { intros c Hd Hp x Hx Hin. specialize (Hd Hp). unfold disjointb in Hd. rewrite forallb_forall in Hd.
    specialize (Hd x Hin). apply negb_true_iff in Hd. apply mem_false_In in Hd. exact (Hd Hx). }
  destruct (Nat.ltb (length A) n && negb (isSome (varargs so))) eqn:Hc.
  - (* sig cannot be passed n positional arguments *)
    split; [reflexivity|]. intros c _. apply andb_true_iff in Hc. destruct Hc as [Hlt Hva].
    apply Nat.ltb_lt in Hlt. apply negb_true_iff in Hva.
    unfold accepts. cbn [npos kws]. rewrite <- Hf.
    rewrite positional_app, (positional_all A Ha), (positional_none B Hb), app_nil_r.
    unfold has_kind at 1. rewrite existsb_app.
    pose proof (has_kind_positional VP A Ha (or_introl eq_refl)) as E1. unfold has_kind in E1. rewrite E1.
    fold (has_kind VP B). pose proof (has_vp_rest s) as Hvp. fold so in Hvp. fold B in Hvp.
    rewrite Hvp, Hva.
    destruct (Nat.leb_spec (n + npos c) (length A)); [lia|]. reflexivity.
  - assert (Hfit : (n <= length A)%nat \/ has_kind VP B = true).
    { apply andb_false_iff in Hc. destruct Hc as [Hc|Hc].
      - left. apply Nat.ltb_ge in Hc. exact Hc.
      - right. pose proof (has_vp_rest s) as Hvp. fold so in Hvp. fold B in Hvp. rewrite Hvp.
        apply negb_false_iff in Hc. exact Hc. }
    set (j := (n - length (posargs so))%nat) in *.
    set (cons0 := names_of (firstn j (pokargs so))) in *.
    (* a consumed parameter is positional-only or one of the first j positional-or-keyword ones *)
    assert (Hsplit : forall q, In q (firstn n A) -> pkind q = PO \/ In q (firstn j (pokargs so))).
    { intros q Hq. unfold A in Hq. rewrite firstn_app in Hq. apply in_app_or in Hq. destruct Hq as [Hq|Hq].
      - left. rewrite Forall_forall in K1. apply K1.
        rewrite <- (firstn_skipn n (posargs so)). apply in_or_app. left. exact Hq.
      - right. exact Hq. }
    destruct (existsb (fun x => mem x cons0) names0) eqn:Hex.
    + (* a name is one of the consumed positional-or-keyword parameters *)
      apply existsb_exists in Hex. destruct Hex as [x [Hx Hxc]]. apply mem_In in Hxc.
      rewrite (mask_names_consumed_err pm _ named (st0_of so n) x Hx Hxc). cbn [bind].
      split; [reflexivity|]. intros c _.
      apply (accepts_bad_kw _ _ _ x); [apply in_or_app; left; exact Hx|].
      rewrite <- Hf. unfold kw_ok, kw_class.
      rewrite positional_app, (positional_all A Ha), (positional_none B Hb), app_nil_r.
      assert (Hj : (0 < j)%nat).
      { destruct j; [destruct Hxc|lia]. }
      assert (HxPO : ~ In x (names_of (posargs so))).
      { intros X. rewrite names_of_app in HndAB. apply nodup_app_l in HndAB. unfold A in HndAB.
        rewrite names_of_app in HndAB. apply (nodup_app_disjoint _ _ x HndAB X).
        unfold cons0 in Hxc. unfold names_of in *. apply in_map_iff in Hxc. destruct Hxc as [q [E Hq]].
        apply in_map_iff. exists q. split; [exact E|].
        rewrite <- (firstn_skipn j (pokargs so)). apply in_or_app. left. exact Hq. }
      unfold A. rewrite kw_class_pos_app, (kw_class_pos_foreign _ _ x HxPO).
      replace (n + npos c - length (posargs so))%nat with (j + npos c)%nat by (unfold j in *; lia).
      rewrite (kw_class_pos_consumed_pk (pokargs so) j (npos c) x Hxc); [reflexivity|].
      intros q Hq _. rewrite Forall_forall in K2. apply K2.
      rewrite <- (firstn_skipn j (pokargs so)). apply in_or_app. left. exact Hq.
    + (* no name is a consumed positional-or-keyword parameter *)
      assert (Hnc0 : forall x, In x names0 -> ~ In x cons0).
      { intros x Hx Hin. apply mem_In in Hin.
        assert (X : existsb (fun x => mem x cons0) names0 = true)
          by (apply existsb_exists; exists x; split; assumption).
        rewrite X in Hex. discriminate. }
      assert (Hn0po : forall k, In k names0 -> forall q, In q (firstn n A) -> pname q = k -> pkind q = PO).
      { intros k Hk q Hq E. destruct (Hsplit q Hq) as [H|H]; [exact H|]. exfalso.
        apply (Hnc0 k Hk). unfold cons0. rewrite <- E. apply in_names. exact H. }
      assert (Hpm0 : pm <> None -> forall x, In x (map fst named) ->
                ~ In x (names_of (skipn n (posargs so)) ++ names_of (opt_list (k_va (st0_of so n)))
                        ++ names_of (opt_list (varkwargs so)))).
      { intros Hp x Hx X. specialize (Hpass Hp). unfold names_passable_n in Hpass.
        apply andb_true_iff in Hpass. destruct Hpass as [Hp1 Hp2].
        cbn [st0_of k_va] in X.
        apply in_app_or in X. destruct X as [X|X]; [|apply in_app_or in X; destruct X as [X|X]].
        - unfold names_of in X. apply in_map_iff in X. destruct X as [q [E Hq]].
          apply (avoid_remaining_po_spec _ _ _ x q Hp1 Hx); [|exact E|].
          + rewrite <- Hf. unfold A. rewrite <- app_assoc, skipn_app. apply in_or_app. left. exact Hq.
          + rewrite Forall_forall in K1. apply K1.
            rewrite <- (firstn_skipn n (posargs so)). apply in_or_app. right. exact Hq.
        - destruct (varargs so) as [w|] eqn:Ew; [|destruct X]. destruct X as [E|[]].
          assert (Hw : In w (params s)).
          { rewrite <- Hf. unfold B, rest_of. rewrite Ew. apply in_or_app. right. left. reflexivity. }
          destruct (names_avoid_stars_spec _ _ x w Hp2 Hx Hw E) as [H _]. apply H. apply K3. reflexivity.
        - destruct (varkwargs so) as [w|] eqn:Ew; [|destruct X]. destruct X as [E|[]].
          assert (Hw : In w (params s)).
          { rewrite <- Hf. unfold B, rest_of. rewrite Ew. apply in_or_app. right.
            apply in_or_app. right. apply in_or_app. right. left. reflexivity. }
          destruct (names_avoid_stars_spec _ _ x w Hp2 Hx Hw E) as [_ H]. apply H. apply K5. reflexivity. }
      pose proof (mask_names_chain pm (isSome (varkwargs so)) (skipn n (posargs so)) (varkwargs so)
                                   named (st0_of so n) Hinv0 eq_refl Hnd Hnc0 Hpm0) as Hch.
      destruct (mask_names pm (isSome (varkwargs so)) (st0_of so n) named) as [stf|e]; cbn [bind].
      * destruct Hch as (Hinvf & Hnmf & Haccf).
        unfold apply_params.
        change (flatten (mkSorted (skipn n (posargs so)) (k_pok stf) (k_va stf) (k_kwo stf) (varkwargs so)
                                  (k_src stf) (dep_of so pm)))
          with (kps (skipn n (posargs so)) (varkwargs so) stf).
        rewrite (KInv_validate _ _ _ Hinvf). cbn [params]. intros [m K] Hd Hnc. cbn [npos kws] in *.
        rewrite (Haccf m K (Hdisj (mkCall m K) Hd)). rewrite Ekps, <- Hf.
        apply (consume_accepts_po A B n m (names0 ++ K) Ha Hb HndAB Hfit).
        intros k Hk. apply in_app_or in Hk. destruct Hk as [Hk|Hk]; [exact (Hn0po k Hk)|].
        intros q Hq E.
        assert (Hin : In k (names_of (firstn n A))) by (rewrite <- E; apply in_names; exact Hq).
        unfold noncolliding in Hnc. rewrite forallb_forall in Hnc. specialize (Hnc k Hk).
        assert (HinA : In k (names_of A)).
        { rewrite <- (firstn_skipn n A). rewrite names_of_app. apply in_or_app. left. exact Hin. }
        apply orb_true_iff in Hnc. destruct Hnc as [Hkw|Hfor].
        -- apply kwpassable_name_In in Hkw. destruct (Hnmf k Hkw) as [H0|[_ H0]]; [|exact (Hn0po k H0 q Hq E)].
           exfalso. rewrite Ekps in H0. rewrite <- (firstn_skipn n A), <- app_assoc, names_of_app in HndAB.
           exact (nodup_app_disjoint _ _ k HndAB Hin H0).
        -- exfalso. apply negb_true_iff in Hfor. apply mem_false_In in Hfor. apply Hfor.
           unfold all_names. cbn [flat_map]. rewrite app_nil_r, <- Hf, names_of_app.
           apply in_or_app. left. exact HinA.
      * destruct Hch as (-> & Hff). split; [reflexivity|]. intros [m K] Hd. cbn [npos kws] in *.
        destruct (accepts (params s) (mkCall (n + m) (names0 ++ K))) eqn:E; [|reflexivity]. exfalso.
        rewrite <- Hf in E. apply (consume_accepts_imp A B n m _ Ha Hb HndAB) in E.
        rewrite <- Ekps in E. unfold names0 in E. rewrite (Hff m K (Hdisj (mkCall m K) Hd)) in E. discriminate.
Qed.
End Top.

(* ------------------------------------------------------------------ *)
(* C03: mask(sig, n, *names)                                            *)

Lemma map_fst_pair {A} (f : name -> A) (l : list name) : map fst (map (fun x => (x, f x)) l) = l.
Proof. rewrite map_map. cbn [fst]. apply map_id. Qed.

(* for ALL signatures, ALL n, ALL duplicate-free name tuples (foreign names, the
   names of the star parameters and of positional-only parameters included), ALL
   calls; no side condition on the names is left *)
Theorem mask_names_exact s n names0 :
  valid_sig (params s) = true -> NoDup names0 ->
  match mask s n names0 nohide0 with
  | Ok r => forall c, disjointb (kws c) names0 = true -> noncolliding c (params r) [params s] = true ->
                      accepts (params r) c = accepts (params s) (shift_call n names0 c)
  | Err e => e = ValueErr /\
             forall c, disjointb (kws c) names0 = true ->
                       accepts (params s) (shift_call n names0 c) = false
  end.
Proof.
  intros Hv Hnd. unfold mask.
  pose proof (map_fst_pair (fun _ => 0) names0) as Emap.
  assert (Hnd' : NoDup (map fst (map (fun x => (x, 0)) names0))) by (rewrite Emap; exact Hnd).
  pose proof (mask_gen_exact s n (map (fun x => (x, 0)) names0) None Hv Hnd'
                             (fun H => False_ind _ (H eq_refl))) as M.
  rewrite Emap in M.
  destruct (mask_gen s n nohide0 (map (fun x => (x, 0)) names0) None) as [r|e].
  - intros c Hd Hnc. exact (M c (fun _ => Hd) Hnc).
  - destruct M as [-> M]. split; [reflexivity|]. intros c Hd. exact (M c (fun _ => Hd)).
Qed.

(* the input that refuted the statement before the repair of _mask (a keyword
   named like a CONSUMED positional-only parameter): mask((a, /, **kw), 1, 'a')
   is now ( **kw), as Python binds f(1, a=2) *)
Definition po_sig : sigT :=
  mkSig [mkParam 1 PO None None UEmpty; mkParam 10 VK None None UEmpty] None UEmpty [] [].

Example mask_names_exact_formerly_refuted :
  valid_sig (params po_sig) = true /\ NoDup [1] /\
  exists r, mask po_sig 1 [1] nohide0 = Ok r /\
            params r = [mkParam 10 VK None None UEmpty] /\
            forall c, disjointb (kws c) [1] = true -> noncolliding c (params r) [params po_sig] = true ->
                      accepts (params r) c = accepts (params po_sig) (shift_call 1 [1] c).
Proof.
  split; [vm_compute; reflexivity|]. split; [constructor; [intros []|constructor]|].
  pose proof (mask_names_exact po_sig 1 [1] eq_refl (NoDup_cons 1 (fun H : In 1 [] => H) (NoDup_nil _))) as M.
  assert (E : mask po_sig 1 [1] nohide0
              = Ok (mkSig [mkParam 10 VK None None UEmpty] None UEmpty [] [])) by (vm_compute; reflexivity).
  rewrite E in M. eexists. split; [exact E|]. split; [reflexivity|exact M].
Qed.

(* NoDup cannot be dropped: a repeated name raises, the call with the name
   passed once is accepted *)
Theorem mask_names_exact_dup_refuted :
  exists s n names0 c,
    valid_sig (params s) = true /\ disjointb (kws c) names0 = true /\
    mask s n names0 nohide0 = Err ValueErr /\ accepts (params s) (shift_call n names0 c) = true.
Proof.
  exists (mkSig [mkParam 1 PK None None UEmpty] None UEmpty [] []), 0%nat, [1; 1], (mkCall 0 []).
  repeat split; vm_compute; reflexivity.
Qed.

(* ------------------------------------------------------------------ *)
(* C19: signature(functools.partial(f, <n positionals>, **kw))          *)

Lemma partial_call_same_set names0 K :
  same_set (names0 ++ K) (filter (fun k => negb (mem k K)) names0 ++ K).
Proof.
  intros y. rewrite !mem_app, mem_filter.
  destruct (mem y names0), (mem y K); reflexivity.
Qed.

(* the bound keywords may name consumed positional-only parameters (absorbed by
   **kwargs), foreign names, keyword-passable parameters; not a positional-only
   parameter that remains, nor a star parameter *)
Theorem partial_names_exact s n kw pobj :
  valid_sig (params s) = true -> NoDup (map fst kw) ->
  names_passable_n (params s) n (map fst kw) = true ->
  match sig_partial s n kw pobj with
  | Ok r => forall c, noncolliding c (params r) [params s] = true ->
                      accepts (params r) c = accepts (params s) (partial_call n (map fst kw) c)
  | Err e => e = ValueErr /\ forall c, accepts (params s) (partial_call n (map fst kw) c) = false
  end.
Proof.
  intros Hv Hnd Hpass. unfold sig_partial.
  pose proof (mask_gen_exact s n kw (Some pobj) Hv Hnd (fun _ => Hpass)) as M.
  change (mkHide false false false false) with nohide0.
  assert (Hnone : (Some pobj : pmode) = None -> forall c : call, disjointb (kws c) (map fst kw) = true)
    by discriminate.
  destruct (mask_gen s n nohide0 kw (Some pobj)) as [r|e].
  - intros c Hnc. rewrite (M c (fun H => Hnone H c) Hnc). unfold partial_call.
    apply accepts_same_set. apply partial_call_same_set.
  - destruct M as [-> M]. split; [reflexivity|]. intros c. unfold partial_call.
    rewrite <- (accepts_same_set _ _ _ _ (partial_call_same_set (map fst kw) (kws c))).
    exact (M c (fun H => Hnone H c)).
Qed.

(* names_avoid_stars cannot be dropped: binding a keyword named like the
   double-star parameter gives a duplicate name, signature() raises, yet the
   partial object can be called *)
Theorem partial_names_exact_refuted :
  exists s n kw pobj c,
    valid_sig (params s) = true /\ NoDup (map fst kw) /\
    avoid_remaining_po (params s) n (map fst kw) = true /\
    sig_partial s n kw pobj = Err ValueErr /\
    accepts (params s) (partial_call n (map fst kw) c) = true.
Proof.
  exists (mkSig [mkParam 10 VK None None UEmpty] None UEmpty [] []), 0%nat, [(10, 5)], 200, (mkCall 0 []).
  repeat split; try (vm_compute; reflexivity). constructor; [intros []|constructor].
Qed.

(* avoid_remaining_po cannot be dropped either: partial(f, a=2) with
   def f(a, /, **kw) shows a twice *)
Theorem partial_names_exact_refuted_po :
  exists s n kw pobj c,
    valid_sig (params s) = true /\ NoDup (map fst kw) /\
    names_avoid_stars (params s) (map fst kw) = true /\
    sig_partial s n kw pobj = Err ValueErr /\
    accepts (params s) (partial_call n (map fst kw) c) = true.
Proof.
  exists po_sig, 0%nat, [(1, 5)], 200, (mkCall 1 []).
  repeat split; try (vm_compute; reflexivity). constructor; [intros []|constructor].
Qed.

(* the input of the defect report: partial(f, 1, a=2) with def f(a, /, **kw) *)
Example partial_consumed_po_ok :
  valid_sig (params po_sig) = true /\ names_passable_n (params po_sig) 1 (map fst [(1, 2)]) = true /\
  names_passable (params po_sig) (map fst [(1, 2)]) = false /\
  option_map (fun r => map (fun p => (pname p, pkind p, pdef p)) (params r))
             (match sig_partial po_sig 1 [(1, 2)] 200 with Ok r => Some r | Err _ => None end)
  = Some [(1, KO, Some 2); (10, VK, None)].
Proof. repeat split; vm_compute; reflexivity. Qed.

(* the hypotheses are satisfiable on non-trivial inputs *)
Definition ex_sig : sigT :=
  mkSig [mkParam 1 PO None None UEmpty; mkParam 2 PK None None UEmpty;
         mkParam 3 PK (Some 1) None UEmpty; mkParam 9 VP None None UEmpty;
         mkParam 4 KO None None UEmpty; mkParam 10 VK None None UEmpty] None UEmpty [] [].

Lemma nodup3 (a b c : N) : a <> b -> a <> c -> b <> c -> NoDup [a; b; c].
Proof.
  intros H1 H2 H3. constructor; [intros [X|[X|[]]]; congruence|].
  constructor; [intros [X|[]]; congruence|]. constructor; [intros []|constructor].
Qed.

Example mask_names_exact_nonvacuous :
  valid_sig (params ex_sig) = true /\ NoDup [3; 1; 4] /\
  option_map (fun r => map (fun p => (pname p, pkind p)) (params r))
             (match mask ex_sig 1 [3; 1; 4] nohide0 with Ok r => Some r | Err _ => None end)
  = Some [(2, PK); (10, VK)].
Proof.
  split; [vm_compute; reflexivity|]. split; [apply nodup3; discriminate|].
  vm_compute; reflexivity.
Qed.

Example partial_names_exact_nonvacuous :
  valid_sig (params ex_sig) = true /\ NoDup (map fst [(2, 5); (1, 6); (4, 7)]) /\
  names_passable_n (params ex_sig) 1 (map fst [(2, 5); (1, 6); (4, 7)]) = true /\
  option_map (fun r => map (fun p => (pname p, pkind p, pdef p)) (params r))
             (match sig_partial ex_sig 1 [(2, 5); (1, 6); (4, 7)] 200 with Ok r => Some r | Err _ => None end)
  = Some [(4, KO, Some 7); (3, KO, Some 1); (2, KO, Some 5); (1, KO, Some 6); (10, VK, None)].
Proof.
  split; [vm_compute; reflexivity|]. split; [apply nodup3; discriminate|].
  split; vm_compute; reflexivity.
Qed.

Print Assumptions mask_gen_exact.
Print Assumptions mask_names_exact.
Print Assumptions mask_names_exact_formerly_refuted.
Print Assumptions mask_names_exact_dup_refuted.
Print Assumptions partial_names_exact.
Print Assumptions partial_names_exact_refuted.
Print Assumptions partial_names_exact_refuted_po.
Print Assumptions partial_consumed_po_ok.
Print Assumptions mask_names_exact_nonvacuous.
Print Assumptions partial_names_exact_nonvacuous.
