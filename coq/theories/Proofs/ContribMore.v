(* ContribMore.v — more of C10 / C08 for whole operations.

   Part 1  forwards: the contributor theorem, as mask-then-embed
   Part 2  n-ary embed under stars_apart: every provenance list is one input's
           list for that name (hence duplicate-freedom)
   Part 3  the n-ary merge fold: the list shape is FALSE without role consistency
           (merge_fold_shape_refuted; same on the implementation)
   Part 4  C10_order for merge [a; b]: positional parameters are merged position
           by position, the left-over ones keep their order; keyword-only
           parameters in closed form *)
From Coq Require Import List NArith Bool Arith Lia Btauto.
From Sigtools.Model Require Import Base Bind Roles Algebra.
From Sigtools.Proofs Require Import SmallModel Basics Prov MaskLaws MaskExact MergeNeutral Annot
     ProvKeys Contrib ProvNoDup ContribEmbed ProvNoDupOps.
Import Base Bind Roles Algebra.
Import ListNotations.
Open Scope N_scope.

(* ================================================================== *)
(* Part 1 — forwards                                                   *)

Lemma kind_ok_trans k0 k1 k2 : kind_ok k0 k1 -> kind_ok k1 k2 -> kind_ok k0 k2.
Proof.
  intros [->|[-> H1]] H2; [exact H2|].
  destruct H2 as [->|[E _]]; [right; auto|]. destruct H1 as [->| ->]; discriminate E.
Qed.

Lemma restr_trans a b c : restr a b -> restr b c -> restr a c.
Proof.
  intros [E1 K1] [E2 K2]. split; [|eapply kind_ok_trans; eauto].
  rewrite E2 at 1. rewrite E1. reflexivity.
Qed.

Lemma restr_star q a : restr q a -> (pkind a = VP \/ pkind a = VK) -> a = q.
Proof.
  intros [E K] Hk. assert (Hq : pkind q = pkind a).
  { destruct K as [K|[K1 [K2|K2]]]; [symmetry; exact K | |]; rewrite K2 in Hk; destruct Hk; discriminate. }
  rewrite E, <- Hq. destruct q; reflexivity.
Qed.

(* the inner signature forwards really embeds: all-optional in partial mode *)
Definition finner (pt : bool) (I : list param) : list param := if pt then map defaulted I else I.

(* C10_contrib for forwards: every parameter of the result is an outer
   parameter (possibly PO for PK, positional ones possibly without default), a
   legal kind restriction of an inner parameter (of the all-optional inner
   signature in partial mode), or the inner star conciled with the outer star *)
Theorem forwards_contrib o i n names0 ha hk uva uvk pt r :
  forwards o i n names0 ha hk uva uvk pt = Ok r ->
  Forall (econtrib (params o) (finner pt (params i))) (params r).
Proof.
  intros E. destruct (forwards_inv _ _ _ _ _ _ _ _ _ _ E) as (i' & m & Ep' & _ & Em & Ee).
  fold (finner pt (params i)) in Ep'.
  pose proof (embed2_contrib o m uva uvk r Ee) as H. eapply Forall_impl; [|exact H].
  intros p [Ho | [(q & Hq & Hr) | (a & b & Ha & Hb & Hk & Hkb & ->)]].
  - left. exact Ho.
  - right; left. destruct (mask_contrib _ _ _ _ _ Em q Hq) as (q0 & Hq0 & Hr0).
    exists q0. rewrite <- Ep'. split; [exact Hq0 | eapply restr_trans; eauto].
  - right; right. destruct (mask_contrib _ _ _ _ _ Em a Ha) as (q0 & Hq0 & Hr0).
    pose proof (restr_star _ _ Hr0 Hk) as Ea. subst a. exists q0, b. rewrite <- Ep'. repeat split; auto.
Qed.

(* nothing becomes optional that is not optional in an input (in partial mode:
   in the all-optional inner signature) *)
Corollary forwards_optional o i n names0 ha hk uva uvk r p :
  forwards o i n names0 ha hk uva uvk false = Ok r -> In p (params r) -> has_def p = true ->
  exists q, (In q (params o) \/ In q (params i)) /\ pname q = pname p /\ has_def q = true.
Proof.
  intros E Hp Hd. pose proof (forwards_contrib _ _ _ _ _ _ _ _ _ _ E) as H. rewrite Forall_forall in H.
  cbn [finner] in H.
  destruct (H p Hp) as [(q & Hq & [Hr|[_ Hr]]) | [(q & Hq & Hr) | (a & b & Ha & Hb & _ & _ & ->)]].
  - destruct (restr_fields _ _ Hr) as (A & B & _). exists q. repeat split; auto.
    unfold has_def in *. rewrite <- B. exact Hd.
  - destruct (restr_fields _ _ Hr) as (_ & B & _). unfold has_def in Hd. rewrite B in Hd. discriminate Hd.
  - destruct (restr_fields _ _ Hr) as (A & B & _). exists q. repeat split; auto.
    unfold has_def in *. rewrite <- B. exact Hd.
  - rewrite concile_optional_iff in Hd. apply andb_true_iff in Hd. exists a. repeat split; [right; exact Ha | apply Hd].
Qed.

(* ================================================================== *)
(* Part 2 — n-ary embed under stars_apart                              *)
Section EmbedN.
Variables NN VA VK : list name.
Hypothesis NN_VA : forall x, In x NN -> ~ In x VA.
Hypothesis NN_VK : forall x, In x NN -> ~ In x VK.
Hypothesis VA_VK : forall x, In x VA -> ~ In x VK.

Lemma embed_step_src_shape outer inner uva uvk depth s x :
  sorted_ok outer -> sorted_in NN VA VK outer -> sorted_in NN VA VK inner ->
  Forall (fun p => pkind p = PK) (pokargs inner) -> NoDup (names_of (flatten inner)) ->
  embed_step outer inner uva uvk depth = Ok s ->
  src_get (ssrc s) x = src_get (ssrc outer) x \/ src_get (ssrc s) x = src_get (ssrc inner) x \/
  src_get (ssrc s) x = [].
Proof.
  intros (O1 & _ & _) (Oi1 & Oi2 & Oi3) (Ii1 & Ii2 & Ii3) PKi Ni E.
  unfold embed_step in E. apply bind_ok in E. destruct E as [m [Em E]].
  apply bind_ok in E. destruct E as [n1 [_ E]].
  apply bind_ok in E. destruct E as [n2 [_ E]].
  apply bind_ok in E. destruct E as [[[e_pos e_pok] n3] [_ E]].
  apply bind_ok in E. destruct E as [n4 [_ E]].
  apply bind_ok in E. destruct E as [n5 [_ E]].
  apply bind_ok in E. destruct E as [n6 [_ E]].
  apply Ok_inj in E. subst s. cbn [ssrc].
  fold (pop_star uva (varargs outer) (ssrc outer)).
  fold (pop_star uvk (varkwargs outer) (pop_star uva (varargs outer) (ssrc outer))).
  set (o2 := pop_star uvk (varkwargs outer) (pop_star uva (varargs outer) (ssrc outer))).
  fold (overlay o2 (ssrc m)).
  assert (N2 : NoDup (keys o2)) by (unfold o2; apply pop_star_nodup; apply pop_star_nodup; exact O1).
  rewrite (overlay_get _ N2). destruct (src_mem o2 x).
  - unfold o2. rewrite !pop_star_get. destruct (popped uvk (varkwargs outer) x); [right; right; reflexivity|].
    destruct (popped uva (varargs outer) x); [right; right; reflexivity | left; reflexivity].
  - fold (estars uva uvk outer) in Em.
    destruct (merger_stars inner _ _ [] [] PKi m Em) as (M1 & M2 & M3 & _).
    destruct (merger_Inv inner (estars uva uvk outer) m Em) as (_ & _ & _ & _ & _ & Sva & Svk & _ & _).
    cbn [estars varargs varkwargs] in Sva, Svk.
    (* the star-only operand has distinct names *)
    assert (Nr : NoDup (names_of (flatten (estars uva uvk outer)))).
    { apply cntn_le_nodup. intros y. unfold flatten. cbn [estars posargs pokargs varargs kwoargs varkwargs app].
      rewrite ?cntn_app.
      destruct (opt_if uva (varargs outer)) as [a|] eqn:Ea; destruct (opt_if uvk (varkwargs outer)) as [k|] eqn:Ek;
        cbn [opt_list app]; rewrite ?cntn_cons, ?cntn_nil; try (destruct (N.eqb y (pname a)); lia);
        try (destruct (N.eqb y (pname k)); lia); try lia.
      destruct (N.eqb_spec y (pname a)) as [->|Hya].
      - destruct (N.eqb_spec (pname a) (pname k)) as [Evv|]; [|lia].
        exfalso. destruct uva; [|discriminate Ea]. destruct uvk; [|discriminate Ek]. cbn [opt_if] in Ea, Ek.
        apply (VA_VK (pname a)); [apply Oi2; exact Ea | rewrite Evv; apply Oi3; exact Ek].
      - destruct (N.eqb y (pname k)); lia. }
    (* names of the merged inner signature are distinct *)
    assert (Hcnt : (cntn x (flatten m) <= 1)%nat).
    { pose proof (flatten_cnt inner x Ni) as Hi.
      assert (Hnamed : (cntn x (posargs m) + cntn x (pokargs m) + cntn x (kwoargs m)
                        <= cntn x (posargs inner) + cntn x (pokargs inner) + cntn x (kwoargs inner))%nat).
      { rewrite M1, M2, M3. set (hva := isSome (opt_if uva (varargs outer))). set (hvk := isSome (opt_if uvk (varkwargs outer))).
        pose proof (cntn_od_update_le x (od_update [] (kwoargs inner)) (od_update [] (if hva then [] else map (set_kind KO) (pokargs inner)))) as U1.
        pose proof (cntn_od_update_le x (kwoargs inner) []) as U2.
        pose proof (cntn_od_update_le x (if hva then [] else map (set_kind KO) (pokargs inner)) []) as U3.
        rewrite !cntn_nil in *.
        destruct hva, hvk; cbn [andb negb] in *; rewrite ?cntn_app, ?cntn_nil, ?cntn_map_kind in *; lia. }
      assert (Hin : forall y, (1 <= cntn y (posargs m) + cntn y (pokargs m) + cntn y (kwoargs m))%nat -> In y NN).
      { intros y Hy. apply Ii1. unfold named. rewrite !memn_app.
        pose proof (flatten_cnt inner y Ni).
        assert (Hy' : (1 <= cntn y (posargs inner) + cntn y (pokargs inner) + cntn y (kwoargs inner))%nat).
        { revert Hy. rewrite M1, M2, M3. set (hva := isSome (opt_if uva (varargs outer))). set (hvk := isSome (opt_if uvk (varkwargs outer))).
          pose proof (cntn_od_update_le y (od_update [] (kwoargs inner)) (od_update [] (if hva then [] else map (set_kind KO) (pokargs inner)))) as U1.
          pose proof (cntn_od_update_le y (kwoargs inner) []) as U2.
          pose proof (cntn_od_update_le y (if hva then [] else map (set_kind KO) (pokargs inner)) []) as U3.
          rewrite !cntn_nil in *.
          destruct hva, hvk; cbn [andb negb] in *; rewrite ?cntn_app, ?cntn_nil, ?cntn_map_kind in *; lia. }
        destruct (memn y (posargs inner)) eqn:E1; [reflexivity|]. destruct (memn y (pokargs inner)) eqn:E2; [reflexivity|].
        destruct (memn y (kwoargs inner)) eqn:E3; [reflexivity|].
        apply memn_false_cntn in E1. apply memn_false_cntn in E2. apply memn_false_cntn in E3. lia. }
      assert (HA : forall v, varargs m = Some v -> In (pname v) VA).
      { intros v Hv. rewrite Hv in Sva. cbn in Sva. destruct Sva as [(a & Ha & -> & _) | (b & Hb & -> & _)].
        - apply Ii2. exact Ha.
        - destruct uva; [|discriminate Hb]. apply Oi2. exact Hb. }
      assert (HK : forall v, varkwargs m = Some v -> In (pname v) VK).
      { intros v Hv. rewrite Hv in Svk. cbn in Svk. destruct Svk as [(a & Ha & -> & _) | (b & Hb & -> & _)].
        - apply Ii3. exact Ha.
        - destruct uvk; [|discriminate Hb]. apply Oi3. exact Hb. }
      unfold flatten. rewrite !cntn_app.
      destruct (varargs m) as [va|] eqn:Eva; destruct (varkwargs m) as [vk|] eqn:Evk; cbn [opt_list]; rewrite ?cntn_cons, ?cntn_nil.
      - destruct (N.eqb_spec x (pname va)) as [->|]; destruct (N.eqb_spec (pname va) (pname vk)) as [Evv|]; try lia.
        + exfalso. apply (VA_VK (pname va)); [apply HA; reflexivity | rewrite Evv; apply HK; reflexivity].
        + assert (Z : (cntn (pname va) (posargs m) + cntn (pname va) (pokargs m) + cntn (pname va) (kwoargs m) = 0)%nat).
          { destruct (Nat.eq_dec (cntn (pname va) (posargs m) + cntn (pname va) (pokargs m) + cntn (pname va) (kwoargs m)) 0) as [Z|Z]; [exact Z|].
            exfalso. apply (NN_VA (pname va)); [apply Hin; lia | apply HA; reflexivity]. }
          destruct (N.eqb_spec (pname va) (pname vk)); [contradiction|]. lia.
        + destruct (N.eqb_spec x (pname vk)) as [->|]; [|lia].
          assert (Z : (cntn (pname vk) (posargs m) + cntn (pname vk) (pokargs m) + cntn (pname vk) (kwoargs m) = 0)%nat).
          { destruct (Nat.eq_dec (cntn (pname vk) (posargs m) + cntn (pname vk) (pokargs m) + cntn (pname vk) (kwoargs m)) 0) as [Z|Z]; [exact Z|].
            exfalso. apply (NN_VK (pname vk)); [apply Hin; lia | apply HK; reflexivity]. }
          lia.
        + destruct (N.eqb_spec x (pname vk)) as [->|]; [|lia].
          assert (Z : (cntn (pname vk) (posargs m) + cntn (pname vk) (pokargs m) + cntn (pname vk) (kwoargs m) = 0)%nat).
          { destruct (Nat.eq_dec (cntn (pname vk) (posargs m) + cntn (pname vk) (pokargs m) + cntn (pname vk) (kwoargs m)) 0) as [Z|Z]; [exact Z|].
            exfalso. apply (NN_VK (pname vk)); [apply Hin; lia | apply HK; reflexivity]. }
          lia.
      - destruct (N.eqb_spec x (pname va)) as [->|]; [|lia].
        assert (Z : (cntn (pname va) (posargs m) + cntn (pname va) (pokargs m) + cntn (pname va) (kwoargs m) = 0)%nat).
        { destruct (Nat.eq_dec (cntn (pname va) (posargs m) + cntn (pname va) (pokargs m) + cntn (pname va) (kwoargs m)) 0) as [Z|Z]; [exact Z|].
          exfalso. apply (NN_VA (pname va)); [apply Hin; lia | apply HA; reflexivity]. }
        lia.
      - destruct (N.eqb_spec x (pname vk)) as [->|]; [|lia].
        assert (Z : (cntn (pname vk) (posargs m) + cntn (pname vk) (pokargs m) + cntn (pname vk) (kwoargs m) = 0)%nat).
        { destruct (Nat.eq_dec (cntn (pname vk) (posargs m) + cntn (pname vk) (pokargs m) + cntn (pname vk) (kwoargs m)) 0) as [Z|Z]; [exact Z|].
          exfalso. apply (NN_VK (pname vk)); [apply Hin; lia | apply HK; reflexivity]. }
        lia.
      - lia. }
    pose proof (merger_shape inner (estars uva uvk outer) Ni Nr m Em x Hcnt) as H.
    unfold shape, shape1, sside in H. cbn [my estars ssrc src_get] in H. rewrite !app_nil_r in H. cbn [app] in H. tauto.
Qed.
End EmbedN.

Lemma embed_steps_src_shape NN VA VK
  (NN_VA : forall x, In x NN -> ~ In x VA) (NN_VK : forall x, In x NN -> ~ In x VK)
  (VA_VK : forall x, In x VA -> ~ In x VK) x ss : forall acc uva uvk depth r,
  sorted_ok acc -> sorted_in NN VA VK acc ->
  Forall (fun s => valid_sig (params s) = true /\ src_nonempty s /\ sorted_in NN VA VK (sort_params s)) ss ->
  embed_steps acc ss uva uvk depth = Ok r ->
  src_get (ssrc r) x = src_get (ssrc acc) x \/ (exists s, In s ss /\ src_get (ssrc r) x = src_get (srcs s) x) \/
  src_get (ssrc r) x = [].
Proof.
  induction ss as [|s ss IH]; intros acc uva uvk depth r Hacc Hin Hss; cbn [embed_steps].
  - intros E. apply Ok_inj in E. subst r. left. reflexivity.
  - inversion Hss as [|? ? (Vs & Ns & Is) Hss']; subst. intros E.
    apply bind_ok in E. destruct E as [acc' [E1 E2]]. apply to_incompatible_ok in E1.
    assert (Hacc' : sorted_ok acc').
    { eapply embed_step_sorted_ok; [exact Hacc | exact (sorted_in_fwd_apart NN VA VK NN_VA NN_VK VA_VK uva uvk acc Hin)
                                    | apply sort_params_nonempty; exact Ns | exact E1]. }
    assert (Hin' : sorted_in NN VA VK acc') by (exact (embed_step_sorted_in NN VA VK acc _ uva uvk depth acc' Hin Is E1)).
    destruct (sort_params_kinds s) as (_ & K2 & _).
    pose proof (embed_step_src_shape NN VA VK NN_VA NN_VK VA_VK acc (sort_params s) uva uvk depth acc' x
                  Hacc Hin Is K2 (sort_params_nodup s Vs) E1) as H1.
    rewrite sort_params_ssrc in H1.
    destruct (IH acc' uva uvk (depth + 1) r Hacc' Hin' Hss' E2) as [H|[(s' & Hs' & H)|H]].
    + rewrite H. destruct H1 as [H1|[H1|H1]]; [left; exact H1 | right; left; exists s; split; [left; reflexivity | exact H1] | right; right; exact H1].
    + right; left. exists s'. split; [right; exact Hs' | exact H].
    + right; right. exact H.
Qed.

(* C08: as a list, every provenance entry of the n-ary embed is the entry of one
   of the inputs for that name *)
Theorem embed_src_shape s0 ss uva uvk r x :
  embed (s0 :: ss) uva uvk = Ok r ->
  Forall (fun s => valid_sig (params s) = true) (s0 :: ss) -> stars_apart (s0 :: ss) = true ->
  src_ok s0 -> Forall src_nonempty ss ->
  src_get (srcs r) x = [] \/ exists s, In s (s0 :: ss) /\ src_get (srcs r) x = src_get (srcs s) x.
Proof.
  cbn [embed]. intros E Hv Hap H0 Hss.
  apply bind_ok in E. destruct E as [acc [E1 E2]].
  destruct (apply_params_fields _ _ _ E2) as [_ Es]. rewrite Es.
  unfold stars_apart in Hap. apply andb_true_iff in Hap. destruct Hap as [Hap A3].
  apply andb_true_iff in Hap. destruct Hap as [A1 A2].
  inversion Hv as [|? ? V0 Vr]; subst.
  destruct (embed_steps_src_shape (named_names (s0 :: ss)) (va_names (s0 :: ss)) (vk_names (s0 :: ss))
              (disjointb_spec _ _ A1) (disjointb_spec _ _ A2) (disjointb_spec _ _ A3) x ss
              (sort_params s0) uva uvk 1 acc) as [H|[(s & Hs & H)|H]].
  - apply sort_params_sorted_ok; assumption.
  - apply sort_params_sorted_in. left. reflexivity.
  - apply Forall_forall. intros s Hs. rewrite Forall_forall in Vr, Hss.
    split; [apply Vr; exact Hs|]. split; [apply Hss; exact Hs | apply sort_params_sorted_in; right; exact Hs].
  - exact E1.
  - right. exists s0. split; [left; reflexivity|]. rewrite H, sort_params_ssrc. reflexivity.
  - right. exists s. split; [right; exact Hs | exact H].
  - left. exact H.
Qed.

Theorem embed_nodup s0 ss uva uvk r x :
  embed (s0 :: ss) uva uvk = Ok r ->
  Forall (fun s => valid_sig (params s) = true) (s0 :: ss) -> stars_apart (s0 :: ss) = true ->
  src_ok s0 -> Forall src_nonempty ss ->
  (forall s, In s (s0 :: ss) -> NoDup (src_get (srcs s) x)) -> NoDup (src_get (srcs r) x).
Proof.
  intros E Hv Hap H0 Hss Hn. destruct (embed_src_shape s0 ss uva uvk r x E Hv Hap H0 Hss) as [-> | (s & Hs & ->)];
    [constructor | apply Hn; exact Hs].
Qed.

(* ================================================================== *)
(* Part 3 — the n-ary merge fold                                       *)

(* Through nested merges, and for role-consistent inputs, every list is a
   concatenation of DISTINCT inputs' lists (ProvNoDupOps.merge_nested_src_shape,
   merge_src_shape_rc).  For the fold in general this is false: an intermediate
   accumulator may carry two parameters of one name, both fed from the same
   inputs, and lose one of them again later.
   merge((a=1, /, *args), (b=1, /, a=1), ( *args), (c=1, /)) = (a=1, /) with sources
   a: [s1, s2, s1, s2] (the same on the implementation). *)
Theorem merge_fold_shape_refuted :
  exists s1 s2 s3 s4 r,
    valid_sig (params s1) = true /\ valid_sig (params s2) = true /\ valid_sig (params s3) = true /\
    valid_sig (params s4) = true /\ src_ok s1 /\ src_ok s2 /\ src_ok s3 /\ src_ok s4 /\
    merge [s1; s2; s3; s4] = Ok r /\ names_of (params r) = [1] /\
    src_get (srcs r) 1 = [100; 101; 100; 101] /\ ~ NoDup (src_get (srcs r) 1) /\
    (* each input lists one callable of its own *)
    srcs s1 = [(1, [100]); (9, [100])] /\ srcs s2 = [(2, [101]); (1, [101])] /\
    srcs s3 = [(9, [102])] /\ srcs s4 = [(3, [103])].
Proof.
  exists (dsig 100 [mkParam 1 PO (Some 1) None UEmpty; bp 9 VP]),
         (dsig 101 [mkParam 2 PO (Some 1) None UEmpty; mkParam 1 PK (Some 1) None UEmpty]),
         (dsig 102 [bp 9 VP]), (dsig 103 [mkParam 3 PO (Some 1) None UEmpty]).
  eexists.
  split; [vm_compute; reflexivity|]. split; [vm_compute; reflexivity|]. split; [vm_compute; reflexivity|].
  split; [vm_compute; reflexivity|].
  split; [apply dsig_src_ok; vm_compute; reflexivity|]. split; [apply dsig_src_ok; vm_compute; reflexivity|].
  split; [apply dsig_src_ok; vm_compute; reflexivity|]. split; [apply dsig_src_ok; vm_compute; reflexivity|].
  split; [vm_compute; reflexivity|]. split; [vm_compute; reflexivity|]. split; [vm_compute; reflexivity|].
  split; [|repeat split].
  intros H. vm_compute in H. inversion H as [|? ? Hn _]; subst. apply Hn. right. left. reflexivity.
Qed.

Example embed_src_shape_sat :
  exists r, embed [dsig 100 [bp 1 PK; bp 9 VP; bp 10 VK]; dsig 101 [bp 2 PK; bp 9 VP; bp 10 VK];
                   dsig 102 [bp 3 PK; bp 4 KO]] true true = Ok r /\
            srcs r = [(3, [102]); (4, [102]); (2, [101]); (1, [100])].
Proof. eexists. split; vm_compute; reflexivity. Qed.

(* ================================================================== *)
(* Part 4 — C10_order for merge                                        *)

Definition erase (p : param) : param := set_kind PO p.

(* two parameters met at the same positional index: the left one gives name and
   kind, except that a positional-only right one takes over a positional-or-keyword left one *)
Definition zipw (a b : param) : param :=
  if kind_eqb (pkind a) PK && kind_eqb (pkind b) PO then concile b a else concile a b.

Fixpoint zipl (l r : list param) : list param :=
  match l, r with a :: l', b :: r' => zipw a b :: zipl l' r' | _, _ => [] end.

Lemma zipl_snoc dl : forall dr a b, length dl = length dr ->
  zipl (dl ++ [a]) (dr ++ [b]) = zipl dl dr ++ [zipw a b].
Proof.
  induction dl as [|x dl IH]; intros [|y dr] a b H; try discriminate H; [reflexivity|].
  cbn [app zipl]. rewrite IH by (cbn in H; lia). reflexivity.
Qed.

Lemma zipl_long_l dl : forall dr x, (length dr <= length dl)%nat -> zipl (dl ++ x) dr = zipl dl dr.
Proof.
  induction dl as [|a dl IH]; intros [|b dr] x H; cbn [app zipl]; try reflexivity.
  - destruct x; reflexivity.
  - cbn in H. lia.
  - rewrite IH by (cbn in H; lia). reflexivity.
Qed.

Lemma zipl_long_r dl : forall dr x, (length dl <= length dr)%nat -> zipl dl (dr ++ x) = zipl dl dr.
Proof.
  induction dl as [|a dl IH]; intros [|b dr] x H; cbn [app zipl]; try reflexivity.
  - cbn in H. lia.
  - rewrite IH by (cbn in H; lia). reflexivity.
Qed.

Lemma zipl_length dl : forall dr, length (zipl dl dr) = Nat.min (length dl) (length dr).
Proof. induction dl as [|a dl IH]; intros [|b dr]; cbn [zipl length Nat.min]; try reflexivity. rewrite IH. reflexivity. Qed.

(* ordered sub-list *)
Inductive Sub {A : Type} : list A -> list A -> Prop :=
| Sub_nil : Sub [] []
| Sub_skip x l1 l2 : Sub l1 l2 -> Sub l1 (x :: l2)
| Sub_take x l1 l2 : Sub l1 l2 -> Sub (x :: l1) (x :: l2).

Lemma Sub_nil_l {A} (l : list A) : Sub [] l.
Proof. induction l; constructor; assumption. Qed.

Lemma Sub_nil_inv {A} (l : list A) : Sub l [] -> l = [].
Proof. intros H. inversion H. reflexivity. Qed.

Lemma Sub_snoc_skip {A} (a b : list A) x : Sub a b -> Sub a (b ++ [x]).
Proof.
  induction 1 as [|y l1 l2 H IH|y l1 l2 H IH]; cbn [app].
  - apply Sub_skip. apply Sub_nil.
  - apply Sub_skip. exact IH.
  - apply Sub_take. exact IH.
Qed.

Lemma Sub_snoc_take {A} (a b : list A) x : Sub a b -> Sub (a ++ [x]) (b ++ [x]).
Proof.
  induction 1 as [|y l1 l2 H IH|y l1 l2 H IH]; cbn [app].
  - apply Sub_take. apply Sub_nil.
  - apply Sub_skip. exact IH.
  - apply Sub_take. exact IH.
Qed.

Lemma Sub_In {A} (a b : list A) x : Sub a b -> In x a -> In x b.
Proof.
  induction 1 as [|y l1 l2 Hs IH|y l1 l2 Hs IH]; intros Hin; [exact Hin | right; auto |].
  destruct Hin as [->|Hin]; [left; reflexivity | right; auto].
Qed.

(* with distinct elements a sub-list is the filter by membership *)
Lemma Sub_filter (a b : list N) : Sub a b -> NoDup b -> a = filter (fun x => mem x a) b.
Proof.
  induction 1 as [|x l1 l2 H IH|x l1 l2 H IH]; intros Hn; [reflexivity| |].
  - inversion Hn as [|? ? Hx Hn']; subst. cbn [filter].
    assert (E : mem x l1 = false).
    { apply mem_false_In. intros Hin. apply Hx. eapply Sub_In; eauto. }
    rewrite E. apply IH. exact Hn'.
  - inversion Hn as [|? ? Hx Hn']; subst. cbn [filter mem]. rewrite N.eqb_refl. cbn [orb]. f_equal.
    rewrite (IH Hn') at 1. apply filter_ext_in. intros y Hy.
    destruct (N.eqb_spec y x) as [->|]; [contradiction | reflexivity].
Qed.

Section Order.
Variables l r : sorted.
Hypothesis Kl : kinds_ok l.
Hypothesis Kr : kinds_ok r.

Definition seqE (st : mstate) : list param := map erase (m_pos st ++ m_pok st).

Definition side2 {A} (s : side) (x y : A) : A * A := match s with L => (x, y) | R => (y, x) end.

(* the consumed prefixes dS (side s) / dO (other side), and what the result holds *)
Definition OP (s : side) (restS restO : list param) (st : mstate) : Prop :=
  exists dS dO kept,
    Pseq l r s = dS ++ restS /\ Pseq l r (oside s) = dO ++ restO /\
    (length dS = length dO \/ (restO = [] /\ (length dO <= length dS)%nat)
     \/ (restS = [] /\ (length dS <= length dO)%nat)) /\
    seqE st = map erase (zipl (fst (side2 s dS dO)) (snd (side2 s dS dO))) ++ kept /\
    Sub (names_of kept) (names_of (skipn (length dO) dS ++ skipn (length dS) dO)).

Lemma OP_sym s a b st : OP s a b st -> OP (oside s) b a st.
Proof.
  intros (dS & dO & kept & E1 & E2 & H & Hs & Hk). exists dO, dS, kept. rewrite oside_invol.
  split; [exact E2|]. split; [exact E1|]. split.
  - destruct H as [H|[H|H]]; [left; auto | right; right; exact H | right; left; exact H].
  - split.
    + destruct s; exact Hs.
    + assert (E : skipn (length dS) dO ++ skipn (length dO) dS = skipn (length dO) dS ++ skipn (length dS) dO).
      { destruct H as [H|[[_ H]|[_ H]]].
        - rewrite H, !skipn_all, <- H, skipn_all. reflexivity.
        - rewrite (skipn_all2 dO) by exact H. rewrite app_nil_r. reflexivity.
        - rewrite (skipn_all2 dS) by exact H. rewrite app_nil_r. reflexivity. }
      rewrite E. exact Hk.
Qed.

Lemma OP_sym' s a b st : OP (oside s) a b st -> OP s b a st.
Proof. intros H. apply OP_sym in H. rewrite oside_invol in H. exact H. Qed.

Lemma names_erase ps : names_of (map erase ps) = names_of ps.
Proof. apply names_map_kind. Qed.

(* a pair: e of side s meets o of the other side *)
Lemma OP_pair s e rest o conv st st' c :
  OP s (e :: rest) (o :: conv) st ->
  erase c = erase (zipw (fst (side2 s e o)) (snd (side2 s e o))) ->
  seqE st' = seqE st ++ [erase c] -> OP s rest conv st'.
Proof.
  intros (dS & dO & kept & E1 & E2 & H & Hs & Hk) Hc Hst.
  assert (Hl : length dS = length dO).
  { destruct H as [H|[[H _]|[H _]]]; [exact H | discriminate H | discriminate H]. }
  rewrite Hl, <- Hl, !skipn_all in Hk. cbn [app] in Hk. rewrite Hl, skipn_all in Hk.
  assert (Ek : kept = []).
  { apply Sub_nil_inv in Hk. destruct kept; [reflexivity | discriminate Hk]. }
  subst kept. rewrite app_nil_r in Hs.
  exists (dS ++ [e]), (dO ++ [o]), []. rewrite <- !app_assoc. cbn [app].
  split; [exact E1|]. split; [exact E2|]. split; [left; rewrite !app_length; cbn; lia|]. split.
  - rewrite Hst, Hs, Hc, app_nil_r.
    destruct s; cbn [side2 fst snd] in *; rewrite zipl_snoc by (auto; lia); rewrite map_app; reflexivity.
  - rewrite !app_length. cbn [length]. rewrite !skipn_all2 by (rewrite app_length; cbn; lia). constructor.
Qed.

(* a left-over parameter of side s: kept, or gone *)
Lemma OP_left s e rest st st' :
  OP s (e :: rest) [] st ->
  (seqE st' = seqE st ++ [erase e] \/ seqE st' = seqE st) -> OP s rest [] st'.
Proof.
  intros (dS & dO & kept & E1 & E2 & H & Hs & Hk) Hst.
  assert (Hl : (length dO <= length dS)%nat).
  { destruct H as [H|[[_ H]|[H _]]]; [lia | exact H | discriminate H]. }
  rewrite (skipn_all2 dO) in Hk by exact Hl. rewrite app_nil_r in Hk.
  assert (Hz : zipl (fst (side2 s (dS ++ [e]) dO)) (snd (side2 s (dS ++ [e]) dO))
               = zipl (fst (side2 s dS dO)) (snd (side2 s dS dO))).
  { destruct s; cbn [side2 fst snd]; [apply zipl_long_l | apply zipl_long_r]; exact Hl. }
  assert (Hsk : skipn (length dO) (dS ++ [e]) ++ skipn (length (dS ++ [e])) dO = skipn (length dO) dS ++ [e]).
  { rewrite skipn_app. replace (length dO - length dS)%nat with 0%nat by lia. cbn [skipn].
    rewrite (skipn_all2 dO) by (rewrite app_length; cbn; lia). rewrite app_nil_r. reflexivity. }
  destruct Hst as [Hst|Hst].
  - exists (dS ++ [e]), dO, (kept ++ [erase e]). rewrite <- !app_assoc. cbn [app].
    split; [exact E1|]. split; [exact E2|]. split; [right; left; split; [reflexivity | rewrite app_length; cbn; lia]|].
    split; [rewrite Hst, Hs, Hz, <- app_assoc; reflexivity|].
    rewrite Hsk, !names_app. cbn [names_of map erase set_kind pname]. apply Sub_snoc_take. exact Hk.
  - exists (dS ++ [e]), dO, kept. rewrite <- !app_assoc. cbn [app].
    split; [exact E1|]. split; [exact E2|]. split; [right; left; split; [reflexivity | rewrite app_length; cbn; lia]|].
    split; [rewrite Hst, Hs, Hz; reflexivity|].
    rewrite Hsk, names_app. apply Sub_snoc_skip. exact Hk.
Qed.

Lemma OP_init : OP L (posargs l ++ pokargs l) (posargs r ++ pokargs r) (mkM [] [] [] [] false false false false [] []).
Proof.
  exists [], [], []. cbn. repeat split; auto. constructor.
Qed.

Lemma seqE_frame st st' : m_pos st' = m_pos st -> m_pok st' = m_pok st -> seqE st' = seqE st.
Proof. unfold seqE. intros -> ->. reflexivity. Qed.

Lemma erase_idem p : erase (erase p) = erase p.
Proof. reflexivity. Qed.

Lemma map_erase_PO ps : map erase (map (set_kind PO) ps) = map erase ps.
Proof. rewrite map_map. reflexivity. Qed.

Lemma seqE_pos_snoc st st' c : m_pok st = [] -> m_pos st' = m_pos st ++ [c] -> m_pok st' = [] ->
  seqE st' = seqE st ++ [erase c].
Proof. unfold seqE. intros H1 -> ->. rewrite H1, !app_nil_r, map_app. reflexivity. Qed.

Lemma unb_pos1_O s e rest conv st st' conv' :
  OP s (e :: rest) conv st -> m_pok st = [] -> pkind e = PO ->
  (s = R -> forall o, In o conv -> pkind o = PK) ->
  unb_pos1 l r s e conv st = Ok (st', conv') ->
  OP s rest conv' st' /\ m_pok st' = [] /\ (forall o, In o conv' -> In o conv).
Proof.
  intros Hop Hpok Ke Kc. unfold unb_pos1. destruct conv as [|o conv].
  - destruct (isSome (varargs (other l r s))).
    + intros E. apply Ok_inj in E. injection E as <- <-. split; [|split; [destruct s; exact Hpok | auto]].
      apply (OP_left s e rest st _ Hop). left.
      apply seqE_pos_snoc; [exact Hpok | destruct s; reflexivity | destruct s; exact Hpok].
    + destruct (negb (has_def e)); [discriminate|]. intros E. apply Ok_inj in E. injection E as <- <-.
      split; [|split; [exact Hpok | auto]]. apply (OP_left s e rest st st Hop). right. reflexivity.
  - intros E. apply Ok_inj in E. injection E as <- <-.
    split; [|split; [destruct (N.eqb (pname o) (pname e)); exact Hpok | intros x Hx; right; exact Hx]].
    apply (OP_pair s e rest o conv st _ (concile e o) Hop).
    + destruct s; cbn [side2 fst snd]; unfold zipw.
      * rewrite Ke. reflexivity.
      * rewrite (Kc eq_refl o (or_introl eq_refl)), Ke. reflexivity.
    + apply seqE_pos_snoc; [exact Hpok | destruct (N.eqb (pname o) (pname e)); reflexivity
                            | destruct (N.eqb (pname o) (pname e)); exact Hpok].
Qed.

Lemma unb_pos_all_O s ps : forall iS conv st st' conv',
  OP s (ps ++ iS) conv st -> m_pok st = [] -> Forall (fun p => pkind p = PO) ps ->
  (s = R -> forall o, In o conv -> pkind o = PK) ->
  unb_pos_all l r s ps conv st = Ok (st', conv') ->
  OP s iS conv' st' /\ m_pok st' = [] /\ (forall o, In o conv' -> In o conv).
Proof.
  induction ps as [|p ps IH]; intros iS conv st st' conv' Hop Hpok Kp Kc; cbn [unb_pos_all].
  - intros E. apply Ok_inj in E. injection E as <- <-. auto.
  - inversion Kp as [|? ? K1 K2]; subst. intros E.
    apply bind_ok in E. destruct E as [[st1 conv1] [E1 E2]]. cbn [fst snd] in E2. cbn [app] in Hop.
    destruct (unb_pos1_O s p (ps ++ iS) conv st st1 conv1 Hop Hpok K1 Kc E1) as (H1 & H2 & H3).
    destruct (IH iS conv1 st1 st' conv' H1 H2 K2) as (G1 & G2 & G3); [|exact E2|].
    { intros Hs o Ho. apply (Kc Hs). apply H3. exact Ho. }
    split; [exact G1 | split; [exact G2 | intros o Ho; apply H3; apply G3; exact Ho]].
Qed.

Lemma zip_pos_O lp : forall rp il ir st st' il' ir',
  OP L (lp ++ il) (rp ++ ir) st -> m_pok st = [] ->
  Forall (fun p => pkind p = PO) lp -> Forall (fun p => pkind p = PO) rp ->
  (forall p, In p il -> pkind p = PK) -> (forall p, In p ir -> pkind p = PK) ->
  zip_pos l r lp rp il ir st = Ok (st', il', ir') ->
  OP L il' ir' st' /\ m_pok st' = [] /\ (forall p, In p il' -> pkind p = PK) /\ (forall p, In p ir' -> pkind p = PK).
Proof.
  induction lp as [|a lp IH]; intros rp il ir st st' il' ir' Hop Hpok Klp Krp Kil Kir.
  - cbn [zip_pos]. intros E. apply bind_ok in E. destruct E as [[st1 c1] [E1 E2]].
    cbn [fst snd] in E2. apply Ok_inj in E2. injection E2 as X1 X2 X3. subst st' il' ir'. cbn [app] in Hop.
    destruct (unb_pos_all_O R rp ir il st st1 c1) as (H1 & H2 & H3); [apply (OP_sym L); exact Hop | exact Hpok | exact Krp | intros _; exact Kil | exact E1 |].
    split; [apply (OP_sym' L); exact H1|]. split; [exact H2|]. split; [intros p Hp; apply Kil; apply H3; exact Hp | exact Kir].
  - destruct rp as [|b rp].
    + cbn [zip_pos]. intros E. apply bind_ok in E. destruct E as [[st1 c1] [E1 E2]].
      cbn [fst snd] in E2. apply Ok_inj in E2. injection E2 as X1 X2 X3. subst st' il' ir'. cbn [app] in Hop.
      destruct (unb_pos_all_O L (a :: lp) il ir st st1 c1 Hop Hpok Klp) as (H1 & H2 & H3); [intros Hs; discriminate Hs | exact E1 |].
      split; [exact H1|]. split; [exact H2|]. split; [exact Kil | intros p Hp; apply Kir; apply H3; exact Hp].
    + cbn [zip_pos]. inversion Klp as [|? ? Ka Klp']; subst. inversion Krp as [|? ? Kb Krp']; subst.
      apply IH; try assumption.
      * cbn [app] in Hop. apply (OP_pair L a (lp ++ il) b (rp ++ ir) st _ (concile a b) Hop).
        -- cbn [side2 fst snd]. unfold zipw. rewrite Ka. reflexivity.
        -- apply seqE_pos_snoc; [exact Hpok | destruct (N.eqb (pname a) (pname b)); reflexivity
                                 | destruct (N.eqb (pname a) (pname b)); exact Hpok].
      * destruct (N.eqb (pname a) (pname b)); exact Hpok.
Qed.

(* ---- positional-or-keyword phase ---- *)
Lemma unb_pok1_O s e rest st st' :
  OP s (e :: rest) [] st -> unb_pok1 l r s e st = Ok st' -> OP s rest [] st'.
Proof.
  intros Hop. unfold unb_pok1.
  destruct (find_param (pname e) (unm st (match s with L => R | R => L end))) as [q|].
  - intros E. apply Ok_inj in E. subst st'. apply (OP_left s e rest st _ Hop). right.
    apply seqE_frame; destruct s; reflexivity.
  - destruct (isSome (varargs (other l r s)) && isSome (varkwargs (other l r s))).
    { intros E. apply Ok_inj in E. subst st'. apply (OP_left s e rest st _ Hop). left.
      unfold seqE. cbn [add_src1 set_src set_pok m_pos m_pok]. rewrite app_assoc, map_app. reflexivity. }
    destruct (isSome (varkwargs (other l r s))).
    { intros E. apply Ok_inj in E. subst st'. apply (OP_left s e rest st _ Hop). right.
      apply seqE_frame; reflexivity. }
    destruct (isSome (varargs (other l r s))).
    { intros E. apply Ok_inj in E. subst st'. apply (OP_left s e rest st _ Hop). left.
      unfold seqE. cbn [add_src1 set_src set_pok set_pos m_pos m_pok]. rewrite app_nil_r.
      rewrite !map_app, map_erase_PO, <- app_assoc. reflexivity. }
    destruct (negb (has_def e)); [discriminate|]. intros E. apply Ok_inj in E. subst st'.
    apply (OP_left s e rest st st Hop). right. reflexivity.
Qed.

Lemma unb_pok_all_O s ps : forall st st',
  OP s ps [] st -> unb_pok_all l r s ps st = Ok st' -> OP s [] [] st'.
Proof.
  induction ps as [|p ps IH]; intros st st' Hop; cbn [unb_pok_all].
  - intros E. apply Ok_inj in E. subst. exact Hop.
  - intros E. apply bind_ok in E. destruct E as [st1 [E1 E2]].
    eapply IH; [|exact E2]. eapply unb_pok1_O; eauto.
Qed.

Lemma zip_pok_O il : forall ir st st',
  OP L il ir st -> (forall p, In p il -> pkind p = PK) -> (forall p, In p ir -> pkind p = PK) ->
  zip_pok l r il ir st = Ok st' -> OP L [] [] st'.
Proof.
  induction il as [|a il IH]; intros ir st st' Hop Kil Kir.
  - cbn [zip_pok]. intros E. apply (OP_sym' L). apply (unb_pok_all_O R ir st st'); [apply (OP_sym L); exact Hop|].
    destruct ir; exact E.
  - destruct ir as [|b ir].
    + exact (unb_pok_all_O L (a :: il) st st' Hop).
    + cbn [zip_pok]. apply IH; [| intros p Hp; apply Kil; right; exact Hp | intros p Hp; apply Kir; right; exact Hp].
      apply (OP_pair L a il b ir st _ (concile a b) Hop).
      * cbn [side2 fst snd]. unfold zipw. rewrite (Kir b (or_introl eq_refl)). cbn. rewrite andb_false_r. reflexivity.
      * destruct (N.eqb (pname a) (pname b)); unfold seqE; cbn [add_src1 add_src2 set_src set_pok m_pos m_pok].
        -- rewrite app_assoc, map_app. reflexivity.
        -- rewrite !map_app, map_erase_PO. cbn [map]. rewrite <- app_assoc. reflexivity.
Qed.

Lemma OP_frame s a b st st' : seqE st' = seqE st -> OP s a b st -> OP s a b st'.
Proof. intros E (dS & dO & kept & H). exists dS, dO, kept. rewrite E. exact H. Qed.

Lemma unmatched_kwo_seqE s st st' : unmatched_kwo l r s st = Ok st' -> seqE st' = seqE st.
Proof.
  unfold unmatched_kwo. destruct (unm st s) as [|p0 u0]; [intros E; apply Ok_inj in E; subst; reflexivity|].
  destruct (isSome (varkwargs (other l r s))).
  - intros E. apply Ok_inj in E. subst st'.
    pose proof (shp_fold_src l r s (p0 :: u0) (set_kwo st (od_update (m_kwo st) (p0 :: u0)))) as Hs.
    apply shp_inv in Hs. destruct Hs as (A1 & A2 & _).
    apply seqE_frame; destruct s; cbn [excl_vk m_pos m_pok]; assumption.
  - destruct (forallb has_def (p0 :: u0)); [|discriminate]. intros E. apply Ok_inj in E. subst. reflexivity.
Qed.

(* the positional part of the merger's result: the pairs, position by position,
   then what is kept of the longer side's left-over parameters, in their order *)
Theorem merger_pos_order s : merger l r = Ok s ->
  exists kept,
    map erase (posargs s ++ pokargs s) = map erase (zipl (Pseq l r L) (Pseq l r R)) ++ kept /\
    Sub (names_of kept) (names_of (skipn (length (Pseq l r R)) (Pseq l r L) ++ skipn (length (Pseq l r L)) (Pseq l r R))).
Proof.
  unfold merger. intros E.
  set (st0 := mkM [] [] [] [] false false false false [] []) in *.
  destruct (kwo_match_fields l r (kwoargs l) st0) as (F1 & F2 & _).
  set (st1 := kwo_match l r (kwoargs l) st0) in *.
  set (st2 := set_unm st1 R (r_unmatched l r)) in *.
  assert (H2 : OP L (posargs l ++ pokargs l) (posargs r ++ pokargs r) st2).
  { apply (OP_frame L _ _ st0); [|apply OP_init]. apply seqE_frame; [exact F1 | exact F2]. }
  assert (P2 : m_pok st2 = []) by exact F2.
  destruct Kl as (Kl1 & Kl2 & _). destruct Kr as (Kr1 & Kr2 & _).
  apply bind_ok in E. destruct E as [[[st3 il] ir] [E3 E]].
  destruct (zip_pos_O _ _ _ _ _ _ _ _ H2 P2 Kl1 Kr1 (proj1 (Forall_forall _ _) Kl2) (proj1 (Forall_forall _ _) Kr2) E3)
    as (H3 & P3 & Kil & Kir).
  apply bind_ok in E. destruct E as [st4 [E4 E]].
  pose proof (zip_pok_O _ _ _ _ H3 Kil Kir E4) as H4.
  apply bind_ok in E. destruct E as [st5 [E5 E]].
  apply bind_ok in E. destruct E as [st6 [E6 E]].
  pose proof (OP_frame L [] [] st5 st6 (unmatched_kwo_seqE _ _ _ E6)
                (OP_frame L [] [] st4 st5 (unmatched_kwo_seqE _ _ _ E5) H4)) as H6.
  assert (H7 : OP L [] [] (normalise_pok st6)).
  { apply (OP_frame L [] [] st6); [|exact H6]. unfold normalise_pok, seqE.
    pose proof (split_po_prefix_app (m_pok st6)) as Hs. destruct (split_po_prefix (m_pok st6)) as [a b].
    cbn [fst snd] in Hs. cbn [set_pok set_pos m_pos m_pok]. rewrite <- app_assoc, Hs. reflexivity. }
  set (st7 := normalise_pok st6) in *.
  pose proof (add_star_shp l r (m_xva_l st7) (m_xva_r st7) (varargs l) (varargs r) st7) as S8.
  destruct (add_star l r (m_xva_l st7) (m_xva_r st7) (varargs l) (varargs r) st7) as [va st8]. cbn [snd] in S8.
  pose proof (add_star_shp l r (m_xvk_l st8) (m_xvk_r st8) (varkwargs l) (varkwargs r) st8) as S9.
  destruct (add_star l r (m_xvk_l st8) (m_xvk_r st8) (varkwargs l) (varkwargs r) st8) as [vk st9]. cbn [snd] in S9.
  apply Ok_inj in E. subst s. cbn [posargs pokargs].
  apply shp_inv in S8. destruct S8 as (A1 & A2 & _). apply shp_inv in S9. destruct S9 as (B1 & B2 & _).
  assert (H9 : OP L [] [] st9).
  { apply (OP_frame L [] [] st7); [|exact H7]. apply seqE_frame; congruence. }
  destruct H9 as (dS & dO & kept & E1 & E2 & _ & Hs & Hk). rewrite app_nil_r in E1, E2. cbn [oside] in E2.
  subst dS dO. cbn [side2 fst snd] in Hs. exists kept. split; [exact Hs | exact Hk].
Qed.
End Order.

(* C10_order for merge [a; b], valid inputs: *)
Theorem merge2_order_pos a b r :
  merge [a; b] = Ok r -> valid_sig (params a) = true -> valid_sig (params b) = true ->
  let LP := positional (params a) in let RP := positional (params b) in
  let n := Nat.min (length LP) (length RP) in
  (* the first n positional parameters of the result are the inputs' positional
     parameters conciled position by position (kinds apart) *)
  map erase (firstn n (positional (params r))) = map erase (zipl LP RP) /\
  (* the others are what is kept of the longer input's further positional
     parameters, in that input's order *)
  names_of (skipn n (positional (params r))) =
    filter (fun x => mem x (names_of (skipn n (positional (params r)))))
           (names_of (skipn (length RP) LP ++ skipn (length LP) RP)).
Proof.
  intros E Va Vb LP RP n.
  destruct (FoldLaw.merge_pair_inv a b r E) as (acc & Em & Er & _).
  pose proof (sort_params_kinds a) as Ka. pose proof (sort_params_kinds b) as Kb.
  destruct (FoldLaw.merger_kinds _ _ _ Ka Kb Em) as [Kacc _].
  destruct (merger_pos_order (sort_params a) (sort_params b) Ka Kb acc Em) as (kept & Hs & Hk).
  unfold Pseq in Hs, Hk. cbn [my] in Hs, Hk.
  rewrite <- (positional_sorted a Va), <- (positional_sorted b Vb) in Hs, Hk. fold LP RP in Hs, Hk.
  assert (Hpos : positional (params r) = posargs acc ++ pokargs acc).
  { rewrite Er. cbn [params]. destruct Kacc as (K1 & K2 & K3 & K4 & K5). unfold flatten.
    rewrite app_assoc, positional_app. rewrite (positional_none (opt_list _ ++ _)); [rewrite app_nil_r|].
    - apply positional_all. apply all_positional_kinds. apply Forall_app. split; [eapply Forall_impl; [|exact K1] | eapply Forall_impl; [|exact K2]]; cbn; auto.
    - apply none_positional_kinds. repeat (apply Forall_app; split).
      + apply opt_forall. intros v Hv. left. apply K3. exact Hv.
      + eapply Forall_impl; [|exact K4]. cbn. auto.
      + apply opt_forall. intros v Hv. right; right. apply K5. exact Hv. }
  rewrite Hpos.
  assert (Hlen : length (map erase (zipl LP RP)) = n) by (rewrite map_length; apply zipl_length).
  split.
  - rewrite <- firstn_map, Hs. rewrite firstn_app, Hlen, Nat.sub_diag. cbn [firstn]. rewrite app_nil_r.
    rewrite <- Hlen at 1. apply firstn_all.
  - assert (Ek : map erase (skipn n (posargs acc ++ pokargs acc)) = kept).
    { rewrite <- skipn_map, Hs, skipn_app, Hlen, Nat.sub_diag. cbn [skipn]. rewrite <- Hlen at 1. rewrite skipn_all. reflexivity. }
    rewrite <- (names_erase (skipn n _)), Ek. apply Sub_filter; [exact Hk|].
    (* the longer input's further positional parameters have distinct names *)
    pose proof (validate_nodup _ (valid_sig_validate _ Va)) as Na. pose proof (validate_nodup _ (valid_sig_validate _ Vb)) as Nb.
    assert (Np : forall ps k, NoDup (names_of ps) -> NoDup (names_of (skipn k (positional ps)))).
    { intros ps k H. apply cntn_le_nodup. intros y. pose proof (nodup_cntn ps y H) as Hc.
      assert (H1 : (cntn y (positional ps) <= cntn y ps)%nat).
      { clear. induction ps as [|p ps IH]; [cbn; lia|]. unfold positional in *. cbn [filter].
        destruct (is_positional p); rewrite ?cntn_cons; lia. }
      assert (H2 : forall (q : list param), (cntn y (skipn k q) <= cntn y q)%nat).
      { intros q. rewrite <- (firstn_skipn k q) at 2. rewrite cntn_app. lia. }
      specialize (H2 (positional ps)). lia. }
    destruct (Nat.le_ge_cases (length LP) (length RP)) as [Hle|Hle].
    + rewrite (skipn_all2 LP) by exact Hle. cbn [app]. apply Np. exact Nb.
    + rewrite (skipn_all2 RP) by exact Hle. rewrite app_nil_r. apply Np. exact Na.
Qed.

(* ---- keyword-only parameters of merge, in closed form ---- *)
Lemma unb_pos_all_conv l r s ps : forall conv st st' conv',
  unb_pos_all l r s ps conv st = Ok (st', conv') -> conv' = skipn (length ps) conv.
Proof.
  induction ps as [|p ps IH]; intros conv st st' conv'; cbn [unb_pos_all].
  - intros E. apply Ok_inj in E. injection E as _ <-. reflexivity.
  - intros E. apply bind_ok in E. destruct E as [[st1 conv1] [E1 E2]]. cbn [fst snd] in E2.
    apply IH in E2. subst conv'. unfold unb_pos1 in E1. destruct conv as [|o conv].
    + assert (conv1 = []).
      { destruct (isSome (varargs (other l r s))); [apply Ok_inj in E1; injection E1 as _ <-; reflexivity|].
        destruct (negb (has_def p)); [discriminate|]. apply Ok_inj in E1. injection E1 as _ <-. reflexivity. }
      subst conv1. cbn [length]. rewrite !skipn_nil. reflexivity.
    + apply Ok_inj in E1. injection E1 as _ <-. reflexivity.
Qed.

Lemma zip_pos_rests l r lp : forall rp il ir st st' il' ir',
  zip_pos l r lp rp il ir st = Ok (st', il', ir') ->
  il' = skipn (length rp - length lp) il /\ ir' = skipn (length lp - length rp) ir.
Proof.
  induction lp as [|a lp IH]; intros rp il ir st st' il' ir'.
  - cbn [zip_pos]. intros E. apply bind_ok in E. destruct E as [[st1 c1] [E1 E2]].
    cbn [fst snd] in E2. apply Ok_inj in E2. injection E2 as _ <- <-.
    apply unb_pos_all_conv in E1. cbn [length]. rewrite Nat.sub_0_r. split; [exact E1 | reflexivity].
  - destruct rp as [|b rp].
    + cbn [zip_pos]. intros E. apply bind_ok in E. destruct E as [[st1 c1] [E1 E2]].
      cbn [fst snd] in E2. apply Ok_inj in E2. injection E2 as _ <- <-.
      apply unb_pos_all_conv in E1. split; [reflexivity | exact E1].
    + cbn [zip_pos length]. intros E. apply IH in E. exact E.
Qed.

Lemma names_filter_by (f : param -> bool) (g : name -> bool) ps :
  (forall p, In p ps -> f p = g (pname p)) -> names_of (filter f ps) = filter g (names_of ps).
Proof.
  induction ps as [|p ps IH]; intros H; [reflexivity|]. cbn [filter names_of map].
  rewrite (H p (or_introl eq_refl)). destruct (g (pname p)); cbn [names_of map]; fold (names_of ps);
    rewrite <- IH by (intros q Hq; apply H; right; exact Hq); reflexivity.
Qed.

Lemma names_remove x ps : names_of (remove_param x ps) = filter (fun y => negb (N.eqb x y)) (names_of ps).
Proof.
  induction ps as [|p ps IH]; [reflexivity|]. cbn [remove_param names_of map filter]. fold (names_of ps).
  destruct (N.eqb x (pname p)); cbn [negb]; [exact IH | cbn [names_of map]; rewrite <- IH; reflexivity].
Qed.

Lemma names_od_set_fresh d p : memn (pname p) d = false -> names_of (od_set d p) = names_of d ++ [pname p].
Proof. intros H. rewrite od_set_fresh by (apply mem_false_In; exact H). rewrite names_app. reflexivity. Qed.

(* phase A: the first loop, names only *)
Lemma kwo_match_names l r lk : forall st,
  NoDup (names_of lk) ->
  (forall y, memn y lk = true -> memn y (m_kwo st) = false /\ memn y (m_lunm st) = false) ->
  names_of (m_kwo (kwo_match l r lk st)) = names_of (m_kwo st) ++ filter (fun x => memn x (kwoargs r)) (names_of lk) /\
  names_of (m_lunm (kwo_match l r lk st)) = names_of (m_lunm st) ++ filter (fun x => negb (memn x (kwoargs r))) (names_of lk).
Proof.
  induction lk as [|p lk IH]; intros st Hn Hf; cbn [kwo_match names_of map filter]; [rewrite !app_nil_r; auto|].
  fold (names_of lk). cbn [names_of map] in Hn. inversion Hn as [|? ? Hp Hn']; subst.
  apply mem_false_In in Hp. fold (names_of lk) in Hp. fold (memn (pname p) lk) in Hp.
  destruct (Hf (pname p)) as [F1 F2]; [rewrite memn_cons, N.eqb_refl; reflexivity|].
  destruct (find_param (pname p) (kwoargs r)) as [q|] eqn:E.
  - assert (Em : memn (pname p) (kwoargs r) = true).
    { destruct (find_param_In _ _ _ E) as [Hq Hqn]. rewrite <- Hqn. apply memn_intro. exact Hq. }
    rewrite Em. cbn [negb].
    destruct (IH (set_src (set_kwo st (od_set (m_kwo st) (concile p q)))
                    (src_set (m_src (set_kwo st (od_set (m_kwo st) (concile p q)))) (pname p)
                       (src_get (ssrc l) (pname p) ++ src_get (ssrc r) (pname p)))) Hn') as [A B].
    + intros y Hy. cbn [set_src set_kwo m_kwo m_lunm]. rewrite memn_od_set. change (pname (concile p q)) with (pname p).
      destruct (Hf y) as [G1 G2]; [rewrite memn_cons, Hy; apply orb_true_r|]. rewrite G1, G2. split; [|reflexivity].
      destruct (N.eqb_spec y (pname p)) as [->|]; [rewrite Hy in Hp; discriminate | reflexivity].
    + cbn [set_src set_kwo m_kwo m_lunm] in A, B. rewrite A, B.
      rewrite (names_od_set_fresh (m_kwo st) (concile p q)) by exact F1.
      change (pname (concile p q)) with (pname p). rewrite <- app_assoc. split; reflexivity.
  - apply find_param_none in E. rewrite E. cbn [negb].
    destruct (IH (set_unm st L (od_set (m_lunm st) p)) Hn') as [A B].
    + intros y Hy. cbn [set_unm m_kwo m_lunm]. rewrite memn_od_set.
      destruct (Hf y) as [G1 G2]; [rewrite memn_cons, Hy; apply orb_true_r|]. rewrite G1, G2. split; [reflexivity|].
      destruct (N.eqb_spec y (pname p)) as [->|]; [rewrite Hy in Hp; discriminate | reflexivity].
    + cbn [set_unm m_kwo m_lunm] in A, B. cbn [set_unm]. rewrite A, B.
      rewrite (names_od_set_fresh (m_lunm st) p) by exact F2. rewrite <- app_assoc. split; reflexivity.
Qed.

Section KwOrder.
Variables l r : sorted.
Hypothesis Kl : kinds_ok l.
Hypothesis Kr : kinds_ok r.
Hypothesis Nl : NoDup (names_of (flatten l)).
Hypothesis Nr : NoDup (names_of (flatten r)).

Definition hva (s : side) : bool := isSome (varargs (my l r s)).
Definition hvk (s : side) : bool := isSome (varkwargs (my l r s)).

(* pairs phase of zip_pok, then the left-over call *)
Lemma zip_pok_pairs il : forall ir st st',
  Forall (NS l r L) il -> Forall (NS l r R) ir -> Inv l r [] st -> N2 l r [] st ->
  P L il st -> P R ir st -> zip_pok l r il ir st = Ok st' ->
  exists stm, Inv l r [] stm /\ N2 l r [] stm /\ same_k st stm /\
    P L (skipn (length ir) il) stm /\ P R (skipn (length il) ir) stm /\
    Forall (NS l r L) (skipn (length ir) il) /\ Forall (NS l r R) (skipn (length il) ir) /\
    ((unb_pok_all l r L (skipn (length ir) il) stm = Ok st' /\ skipn (length il) ir = []) \/
     (unb_pok_all l r R (skipn (length il) ir) stm = Ok st' /\ skipn (length ir) il = [])).
Proof.
  induction il as [|a il IH]; intros ir st st' Hil Hir HI HN HPl HPr.
  - cbn [zip_pok]. intros E. exists st. cbn [length skipn]. rewrite skipn_nil.
    split; [exact HI|]. split; [exact HN|]. split; [apply same_k_refl|]. split; [exact HPl|]. split; [exact HPr|].
    split; [constructor|]. split; [exact Hir|]. right. split; [destruct ir; exact E | reflexivity].
  - destruct ir as [|b ir].
    + cbn [zip_pok]. intros E. exists st. cbn [length skipn].
      split; [exact HI|]. split; [exact HN|]. split; [apply same_k_refl|]. split; [exact HPl|]. split; [exact HPr|].
      split; [exact Hil|]. split; [constructor|]. left. split; [exact E | reflexivity].
    + cbn [zip_pok length skipn]. inversion Hil as [|? ? Ha Hil']; subst. inversion Hir as [|? ? Hb Hir']; subst.
      intros E.
      set (st2 := if N.eqb (pname a) (pname b)
                  then add_src2 l r (set_pok st (m_pok st ++ [concile a b])) (pname a) L R
                  else add_src1 l r (set_pok st (map (set_kind PO) (m_pok st) ++ [set_kind PO (concile a b)]))
                                (pname a) L) in *.
      assert (HI2 : Inv l r [] st2).
      { unfold st2. destruct (N.eqb (pname a) (pname b)).
        - apply (Inv_src2 l r [] st _ L a); try assumption; try reflexivity; auto.
          intros y. unfold outb. cbn [add_src2 set_src set_pok m_pos m_pok m_kwo].
          rewrite memn_app, memn_one. cbn [concile pname]. btauto.
        - apply (Inv_src1 l r [] st); try assumption; try reflexivity.
          intros y. unfold outb. cbn [add_src1 set_src set_pok m_pos m_pok m_kwo].
          rewrite memn_app, memn_one, memn_map_kind. cbn [set_kind concile pname]. btauto. }
      assert (HN2 : N2 l r [] st2).
      { unfold st2. destruct (N.eqb (pname a) (pname b)).
        - eapply (N2_add l r [] st _ (pname a)); [exact HI | exact HN | reflexivity | | |].
          + intros y Hy. unfold cnt_out. cbn [add_src2 set_src set_pok m_pos m_pok m_kwo]. rewrite cntn_app. lia.
          + unfold cnt_out. cbn [add_src2 set_src set_pok m_pos m_pok m_kwo]. rewrite cntn_app, cntn_cons, cntn_nil.
            cbn [concile pname]. rewrite N.eqb_refl. lia.
          + apply shape1_two. discriminate.
        - eapply (N2_add l r [] st _ (pname a)); [exact HI | exact HN | reflexivity | | | apply (shape1_side l r L)].
          + intros y Hy. unfold cnt_out. cbn [add_src1 set_src set_pok m_pos m_pok m_kwo]. rewrite cntn_app, cntn_map_kind. lia.
          + unfold cnt_out. cbn [add_src1 set_src set_pok m_pos m_pok m_kwo]. rewrite cntn_app, cntn_map_kind, cntn_cons, cntn_nil.
            cbn [set_kind concile pname]. rewrite N.eqb_refl. lia. }
      assert (K2 : same_k st st2).
      { unfold st2. destruct (N.eqb (pname a) (pname b)); unfold same_k; cbn; auto. }
      destruct (IH ir st2 st' Hil' Hir' HI2 HN2) as (stm & A1 & A2 & A3 & A4); [| | exact E |].
      * apply (P_same_k L il st st2 K2). eapply P_weaken; exact HPl.
      * apply (P_same_k R ir st st2 K2). eapply P_weaken; exact HPr.
      * exists stm. split; [exact A1|]. split; [exact A2|]. split; [eapply same_k_trans; eauto | exact A4].
Qed.

(* phase C: the left-over positional-or-keyword parameters of side s, names only.
   U0 is the unmatched list of the other side when the phase starts. *)
Definition convS (s : side) (U0 : list name) (x : name) : bool :=
  mem x U0 || (hvk (oside s) && negb (hva (oside s))).

Lemma unb_pok_all_K s ps : forall done st st' K0 U0,
  Forall (NS l r s) ps -> Inv l r [] st -> N2 l r [] st -> P s ps st ->
  NoDup (names_of (done ++ ps)) ->
  names_of (m_kwo st) = K0 ++ filter (convS s U0) (names_of done) ->
  names_of (unm st (oside s)) = filter (fun x => negb (mem x (names_of done))) U0 ->
  unb_pok_all l r s ps st = Ok st' ->
  Inv l r [] st' /\ N2 l r [] st' /\ P s [] st' /\
  names_of (m_kwo st') = K0 ++ filter (convS s U0) (names_of (done ++ ps)) /\
  names_of (unm st' (oside s)) = filter (fun x => negb (mem x (names_of (done ++ ps)))) U0 /\
  unm st' s = unm st s.
Proof.
  induction ps as [|e ps IH]; intros done st st' K0 U0 Hps HI HN HP Hnd HK HU; cbn [unb_pok_all].
  - intros E. apply Ok_inj in E. subst st'. rewrite app_nil_r.
    split; [exact HI|]. split; [exact HN|]. split; [exact HP|]. split; [exact HK|]. split; [exact HU | reflexivity].
  - inversion Hps as [|? ? He Hps']; subst. intros E.
    apply bind_ok in E. destruct E as [st1 [E1 E2]].
    pose proof (unb_pok1_Inv l r [] _ _ _ _ He HI E1) as HI1.
    destruct (unb_pok1_N l r _ _ _ _ _ He HI HN HP E1) as [HN1 HP1].
    destruct (P_head _ _ _ _ HP) as (F1 & F2 & F3).
    (* x is not among the names done *)
    assert (Hx : mem (pname e) (names_of done) = false).
    { apply mem_false_In. intros Hin. rewrite names_app in Hnd. cbn [names_of map] in Hnd.
      apply (nodup_app_disjoint _ _ (pname e) Hnd Hin). left. reflexivity. }
    assert (Hfound : memn (pname e) (unm st (oside s)) = mem (pname e) U0).
    { unfold memn. rewrite HU. rewrite mem_filter. rewrite Hx. cbn. apply andb_true_r. }
    (* the step, names only *)
    assert (Hstep : names_of (m_kwo st1) = names_of (m_kwo st) ++ (if convS s U0 (pname e) then [pname e] else []) /\
                    names_of (unm st1 (oside s)) = filter (fun y => negb (N.eqb (pname e) y)) (names_of (unm st (oside s))) /\
                    unm st1 s = unm st s).
    { clear E2 IH. unfold unb_pok1 in E1. change (match s with L => R | R => L end) with (oside s) in E1.
      unfold convS. rewrite <- Hfound.
      destruct (find_param (pname e) (unm st (oside s))) as [q|] eqn:Ef.
      - assert (Em : memn (pname e) (unm st (oside s)) = true).
        { destruct (find_param_In _ _ _ Ef) as [Hq Hqn]. rewrite <- Hqn. apply memn_intro. exact Hq. }
        rewrite Em. cbn [orb]. apply Ok_inj in E1. subst st1.
        destruct s; cbn [oside unm add_src2 set_src set_kwo set_unm m_kwo m_lunm m_runm] in *;
          (split; [rewrite names_od_set_fresh by exact F1; reflexivity | split; [apply names_remove | reflexivity]]).
      - apply find_param_none in Ef. rewrite Ef. cbn [orb].
        assert (Hsame : filter (fun y => negb (N.eqb (pname e) y)) (names_of (unm st (oside s))) = names_of (unm st (oside s))).
        { apply filter_all. intros y Hy. apply negb_true_iff. apply N.eqb_neq. intros <-.
          apply mem_In in Hy. fold (memn (pname e) (unm st (oside s))) in Hy. rewrite Ef in Hy. discriminate. }
        rewrite Hsame. unfold hva, hvk.
        assert (Emy : my l r (oside s) = other l r s) by (destruct s; reflexivity). rewrite Emy.
        destruct (isSome (varargs (other l r s))), (isSome (varkwargs (other l r s))); cbn [andb negb] in *.
        + apply Ok_inj in E1. subst st1. destruct s; cbn; rewrite app_nil_r; auto.
        + apply Ok_inj in E1. subst st1. destruct s; cbn; rewrite app_nil_r; auto.
        + apply Ok_inj in E1. subst st1.
          destruct s; cbn [oside unm add_src1 set_src set_kwo m_kwo m_lunm m_runm];
            (split; [rewrite names_od_set_fresh by exact F1; reflexivity | auto]).
        + destruct (negb (has_def e)); [discriminate|]. apply Ok_inj in E1. subst st1. rewrite app_nil_r. auto. }
    destruct Hstep as (S1 & S2 & S3).
    destruct (IH (done ++ [e]) st1 st' K0 U0 Hps' HI1 HN1 HP1) as (G1 & G2 & G3 & G4 & G5 & G6).
    + rewrite <- app_assoc. exact Hnd.
    + rewrite S1, HK, names_app, filter_app, <- app_assoc. cbn [names_of map filter]. destruct (convS s U0 (pname e)); reflexivity.
    + rewrite S2, HU, names_app.
      (* removing x after the names done = removing the names done ++ [x] *)
      clear. induction U0 as [|u U IHU]; [reflexivity|]. cbn [filter].
      rewrite mem_app. cbn [names_of map mem]. rewrite orb_false_r.
      destruct (mem u (names_of done)); cbn [negb orb]; [exact IHU|].
      cbn [filter]. rewrite N.eqb_sym. destruct (N.eqb u (pname e)); cbn [negb]; [exact IHU | rewrite IHU; reflexivity].
    + exact E2.
    + rewrite <- app_assoc in G4, G5. cbn [app] in G4, G5.
      split; [exact G1|]. split; [exact G2|]. split; [exact G3|]. split; [exact G4|]. split; [exact G5|]. congruence.
Qed.

(* phase D: the unmatched keyword-only parameters of side s *)
Lemma unmatched_kwo_K s st st' :
  (forall x, memn x (m_kwo st) = true -> memn x (unm st s) = false) -> NoDup (names_of (unm st s)) ->
  unmatched_kwo l r s st = Ok st' ->
  names_of (m_kwo st') = names_of (m_kwo st) ++ (if hvk (oside s) then names_of (unm st s) else []) /\
  m_lunm st' = m_lunm st /\ m_runm st' = m_runm st.
Proof.
  intros Hd Hn. unfold unmatched_kwo, hvk.
  assert (Emy : my l r (oside s) = other l r s) by (destruct s; reflexivity). rewrite Emy.
  destruct (unm st s) as [|p0 u0] eqn:Eu.
  - intros E. apply Ok_inj in E. subst st'. destruct (isSome (varkwargs (other l r s))); cbn [names_of map]; rewrite app_nil_r; auto.
  - destruct (isSome (varkwargs (other l r s))).
    + intros E. apply Ok_inj in E. subst st'.
      set (u := p0 :: u0) in *.
      pose proof (shp_fold_src l r s u (set_kwo st (od_update (m_kwo st) u))) as Hs.
      apply shp_inv in Hs. destruct Hs as (_ & _ & A3 & _ & _ & A6 & A7).
      assert (Ek : od_update (m_kwo st) u = m_kwo st ++ u).
      { apply od_update_fresh; [exact Hn|]. intros x Hx Hin. apply mem_In in Hx. apply mem_In in Hin.
        fold (memn x u) in Hx. fold (memn x (m_kwo st)) in Hin. rewrite (Hd x Hin) in Hx. discriminate. }
      destruct s; cbn [excl_vk m_kwo m_lunm m_runm]; rewrite A3, A6, A7; cbn [set_kwo m_kwo m_lunm m_runm];
        rewrite Ek, names_app; (split; [reflexivity | split; reflexivity]).
    + destruct (forallb has_def (p0 :: u0)); [|discriminate]. intros E. apply Ok_inj in E. subst st'.
      rewrite app_nil_r. auto.
Qed.

Lemma phaseCD s ps stm st4 st5 st6 :
  Forall (NS l r s) ps -> Inv l r [] stm -> N2 l r [] stm -> P s ps stm ->
  unb_pok_all l r s ps stm = Ok st4 -> unmatched_kwo l r L st4 = Ok st5 -> unmatched_kwo l r R st5 = Ok st6 ->
  names_of (m_kwo st6) =
    names_of (m_kwo stm) ++ filter (convS s (names_of (unm stm (oside s)))) (names_of ps)
    ++ (if hvk R then names_of (m_lunm st4) else []) ++ (if hvk L then names_of (m_runm st4) else []) /\
  unm st4 s = unm stm s /\
  names_of (unm st4 (oside s)) = filter (fun x => negb (mem x (names_of ps))) (names_of (unm stm (oside s))).
Proof.
  intros Hps HI HN HP E4 E5 E6.
  assert (Hnd : NoDup (names_of ([] ++ ps))) by (cbn [app]; apply HP).
  destruct (unb_pok_all_K s ps [] stm st4 (names_of (m_kwo stm)) (names_of (unm stm (oside s))) Hps HI HN HP Hnd)
    as (HI4 & HN4 & (Q1 & Q2 & Q3 & _ & _ & Q6) & G4 & G5 & G6).
  - cbn [names_of map filter]. rewrite app_nil_r. reflexivity.
  - cbn [names_of map mem negb]. symmetry. apply filter_all. intros x _. reflexivity.
  - exact E4.
  - cbn [app] in G4, G5.
    destruct (unmatched_kwo_K L st4 st5 (fun x Hx => proj1 (Q1 x Hx)) Q2 E5) as (A1 & A2 & A3).
    assert (D6 : forall x, memn x (m_kwo st5) = true -> memn x (unm st5 R) = false).
    { intros x Hx. cbn [unm]. rewrite A3. unfold memn in Hx. rewrite A1, mem_app in Hx. apply orb_true_iff in Hx.
      destruct Hx as [Hx|Hx]; [apply (Q1 x Hx)|]. cbn [oside] in Hx. destruct (hvk R); [|discriminate Hx].
      cbn [unm] in Hx. apply Q6. exact Hx. }
    assert (NV5 : NoDup (names_of (unm st5 R))) by (cbn [unm]; rewrite A3; exact Q3).
    destruct (unmatched_kwo_K R st5 st6 D6 NV5 E6) as (B1 & _ & _).
    cbn [oside unm] in A1, B1. rewrite A3 in B1.
    split; [|split; [exact G6 | exact G5]].
    rewrite B1, A1, G4, <- !app_assoc. reflexivity.
Qed.

Lemma filter_filter {A} (f g : A -> bool) ls : filter f (filter g ls) = filter (fun x => g x && f x) ls.
Proof.
  induction ls as [|x ls IH]; [reflexivity|]. cbn [filter]. destruct (g x); cbn [filter andb]; [destruct (f x)|]; rewrite IH; reflexivity.
Qed.

Lemma skipn_skipn' {A} (a b : nat) : forall ls : list A, skipn a (skipn b ls) = skipn (b + a) ls.
Proof.
  induction b as [|b IH]; intros ls; [reflexivity|]. destruct ls as [|x ls]; [rewrite !skipn_nil; reflexivity|].
  cbn [skipn Nat.add]. apply IH.
Qed.

(* the left-over positional-or-keyword parameters of each operand *)
Definition leftL : list param := skipn (length (Pseq l r R) - length (posargs l)) (pokargs l).
Definition leftR : list param := skipn (length (Pseq l r L) - length (posargs r)) (pokargs r).

Theorem merger_kwo_order s : merger l r = Ok s ->
  let KA := names_of (kwoargs l) in let KB := names_of (kwoargs r) in
  names_of (kwoargs s) =
    filter (fun x => mem x KB) KA
    ++ filter (fun x => mem x KB || (hvk R && negb (hva R))) (names_of leftL)
    ++ filter (fun x => mem x KA || (hvk L && negb (hva L))) (names_of leftR)
    ++ (if hvk R then filter (fun x => negb (mem x KB) && negb (mem x (names_of leftR))) KA else [])
    ++ (if hvk L then filter (fun x => negb (mem x KA) && negb (mem x (names_of leftL))) KB else []).
Proof.
  intros E KA KB. unfold merger in E.
  set (st0 := mkM [] [] [] [] false false false false [] []) in *.
  assert (N0 : N2 l r [] st0) by (intros x _; left; reflexivity).
  pose proof (kwo_match_Inv l r [] (kwoargs l) _ (fun p H => H) (Inv_init l r)) as H1. fold st0 in H1.
  pose proof (kwo_match_N l r (kwoargs l) st0 (fun p H => H) (Inv_init l r) N0) as N1.
  destruct (kwo_match_fields l r (kwoargs l) st0) as (F1 & F2 & F3 & F4 & F5).
  destruct (side_parts l r Nl Nr L) as (_ & SL2 & SL3). cbn [my] in SL2, SL3.
  destruct (side_parts l r Nl Nr R) as (_ & SR2 & SR3). cbn [my] in SR2, SR3.
  pose proof (kwo_match_lunm_nodup l r (kwoargs l) st0 SL2 (NoDup_nil _) (fun y _ => eq_refl)) as F6.
  destruct (kwo_match_names l r (kwoargs l) st0 SL2 (fun y _ => conj eq_refl eq_refl)) as [W1 W2].
  cbn [st0 m_kwo m_lunm names_of map app] in W1, W2. fold st0 in W1, W2.
  set (st1 := kwo_match l r (kwoargs l) st0) in *.
  set (st2 := set_unm st1 R (r_unmatched l r)).
  assert (H2 : Inv l r [] st2).
  { apply (Inv_frame l r [] st1 _ H1); try reflexivity.
    - cbn. auto.
    - cbn. auto.
    - cbn. apply (Inv_lunm _ _ _ _ H1).
    - cbn [set_unm m_runm]. unfold r_unmatched. intros p Hp. apply filter_In in Hp. apply Hp. }
  assert (N2' : N2 l r [] st2).
  { eapply N2_frame; [exact N1 | reflexivity |]. intros y. unfold cnt_out, st2. cbn [set_unm m_pos m_pok m_kwo]. lia. }
  assert (HK : forall y, memn y (m_kwo st2) = true -> memn y (kwoargs l) = true /\ memn y (kwoargs r) = true).
  { intros y Hy. cbn [st2 set_unm m_kwo] in Hy. destruct (F4 y Hy) as [H|H]; [discriminate H | exact H]. }
  assert (HU : forall p, In p (m_lunm st2) -> In p (kwoargs l) /\ memn (pname p) (kwoargs r) = false).
  { intros p Hp. cbn [st2 set_unm m_lunm] in Hp. destruct (F5 p Hp) as [[]|H]; exact H. }
  assert (HV : forall p, In p (m_runm st2) -> In p (kwoargs r) /\ memn (pname p) (kwoargs l) = false).
  { intros p Hp. cbn [st2 set_unm m_runm] in Hp. unfold r_unmatched in Hp. apply filter_In in Hp.
    destruct Hp as [Hp Hf]. split; [exact Hp|].
    destruct (find_param (pname p) (kwoargs l)) eqn:Ef; [discriminate Hf | apply find_param_none; exact Ef]. }
  assert (NU : NoDup (names_of (m_lunm st2))) by exact F6.
  assert (NV : NoDup (names_of (m_runm st2))).
  { cbn [st2 set_unm m_runm]. unfold r_unmatched. apply nodup_names_filter. exact SR2. }
  (* names of the three lists before the zips *)
  assert (WK : names_of (m_kwo st2) = filter (fun x => mem x KB) KA) by exact W1.
  assert (WU : names_of (m_lunm st2) = filter (fun x => negb (mem x KB)) KA) by exact W2.
  assert (WV : names_of (m_runm st2) = filter (fun x => negb (mem x KA)) KB).
  { cbn [st2 set_unm m_runm]. unfold r_unmatched. apply names_filter_by. intros p _. rewrite isSome_find. reflexivity. }
  apply bind_ok in E. destruct E as [[[st3 il] ir] [E3 E]].
  destruct (zip_pos_N l r _ _ _ _ _ _ _ _ (Forall_NS_pos l r L) (Forall_NS_pos l r R)
              (Forall_NS_pok l r L) (Forall_NS_pok l r R) H2 N2' E3)
    as (H3 & N3 & K3 & Sil & Sir & Hil & Hir).
  destruct (zip_pos_rests _ _ _ _ _ _ _ _ _ _ E3) as [Eil Eir].
  assert (PL : P L il st3) by (apply (P_same_k L il st2 st3 K3); apply (P_entry l r Nl Nr); assumption).
  assert (PR : P R ir st3) by (apply (P_same_k R ir st2 st3 K3); apply (P_entry l r Nl Nr); assumption).
  apply bind_ok in E. destruct E as [st4 [E4 E]].
  destruct (zip_pok_pairs il ir st3 st4 Hil Hir H3 N3 PL PR E4)
    as (stm & HIm & HNm & Km & PLm & PRm & HilM & HirM & Hcase).
  apply bind_ok in E. destruct E as [st5 [E5 E]].
  apply bind_ok in E. destruct E as [st6 [E6 E]].
  (* the dictionary is not touched after the unmatched steps *)
  assert (Hfin : names_of (kwoargs s) = names_of (m_kwo st6)).
  { pose proof (Contrib.add_star_shp l r (m_xva_l (normalise_pok st6)) (m_xva_r (normalise_pok st6)) (varargs l) (varargs r) (normalise_pok st6)) as S8.
    destruct (add_star l r (m_xva_l (normalise_pok st6)) (m_xva_r (normalise_pok st6)) (varargs l) (varargs r) (normalise_pok st6)) as [va st8].
    cbn [snd] in S8.
    pose proof (Contrib.add_star_shp l r (m_xvk_l st8) (m_xvk_r st8) (varkwargs l) (varkwargs r) st8) as S9.
    destruct (add_star l r (m_xvk_l st8) (m_xvk_r st8) (varkwargs l) (varkwargs r) st8) as [vk st9]. cbn [snd] in S9.
    apply Ok_inj in E. subst s. cbn [kwoargs]. apply shp_inv in S8. apply shp_inv in S9.
    destruct S8 as (_ & _ & A3 & _). destruct S9 as (_ & _ & B3 & _). rewrite B3, A3.
    unfold normalise_pok. destruct (split_po_prefix (m_pok st6)). reflexivity. }
  rewrite Hfin.
  destruct Km as (Km1 & Km2 & Km3). destruct K3 as (K31 & K32 & K33).
  (* the left-over lists *)
  assert (ElL : skipn (length ir) il = leftL).
  { unfold leftL, Pseq. cbn [my]. rewrite Eil, Eir, skipn_skipn', skipn_length, app_length. f_equal. lia. }
  assert (ElR : skipn (length il) ir = leftR).
  { unfold leftR, Pseq. cbn [my]. rewrite Eil, Eir, skipn_skipn', skipn_length, app_length. f_equal. lia. }
  rewrite ElL, ElR in *.
  assert (HpokL : forall x, In x (names_of leftL) -> mem x KA = false).
  { intros x Hx. unfold names_of in Hx. apply in_map_iff in Hx. destruct Hx as [p [<- Hp]].
    destruct (mem (pname p) KA) eqn:Em; [|reflexivity]. fold (memn (pname p) (kwoargs l)) in Em.
    apply SL3 in Em. assert (Hin : memn (pname p) (pokargs l) = true).
    { apply memn_intro. unfold leftL in Hp. eapply skipn_In. exact Hp. }
    rewrite Hin in Em. discriminate. }
  assert (HpokR : forall x, In x (names_of leftR) -> mem x KB = false).
  { intros x Hx. unfold names_of in Hx. apply in_map_iff in Hx. destruct Hx as [p [<- Hp]].
    destruct (mem (pname p) KB) eqn:Em; [|reflexivity]. fold (memn (pname p) (kwoargs r)) in Em.
    apply SR3 in Em. assert (Hin : memn (pname p) (pokargs r) = true).
    { apply memn_intro. unfold leftR in Hp. eapply skipn_In. exact Hp. }
    rewrite Hin in Em. discriminate. }
  destruct Hcase as [[Ec Enil] | [Ec Enil]].
  - (* the left operand has left-over parameters *)
    destruct (phaseCD L leftL stm st4 st5 st6 HilM HIm HNm PLm Ec E5 E6) as (G & GU & GO).
    cbn [oside unm] in G, GU, GO. rewrite G, Km1, K31, WK, GU, Km2, K32, WU, GO, Km3, K33, WV, Enil.
    cbn [names_of map filter app]. f_equal. f_equal.
    + apply filter_ext_in. intros x Hx. unfold convS. cbn [oside]. rewrite mem_filter, (HpokL x Hx). cbn. rewrite andb_true_r. reflexivity.
    + f_equal.
      * destruct (hvk R); [|reflexivity]. apply filter_ext. intros x. rewrite andb_true_r. reflexivity.
      * destruct (hvk L); [|reflexivity]. rewrite filter_filter. reflexivity.
  - (* the right operand has left-over parameters *)
    destruct (phaseCD R leftR stm st4 st5 st6 HirM HIm HNm PRm Ec E5 E6) as (G & GU & GO).
    cbn [oside unm] in G, GU, GO. rewrite G, Km1, K31, WK, GU, Km3, K33, WV, GO, Km2, K32, WU, Enil.
    cbn [names_of map filter app]. f_equal. f_equal.
    + apply filter_ext_in. intros x Hx. unfold convS. cbn [oside]. rewrite mem_filter, (HpokR x Hx). cbn. rewrite andb_true_r. reflexivity.
    + f_equal.
      * destruct (hvk R); [|reflexivity]. rewrite filter_filter. reflexivity.
      * destruct (hvk L); [|reflexivity]. apply filter_ext. intros x. rewrite andb_true_r. reflexivity.
Qed.
End KwOrder.

Lemma kwonly_flatten so : kinds_ok so -> kwonly (flatten so) = kwoargs so.
Proof.
  intros (K1 & K2 & K3 & K4 & K5). unfold flatten, kwonly. rewrite !filter_app.
  assert (F0 : forall ps k, k <> KO -> Forall (fun p => pkind p = k) ps -> filter (is_kind KO) ps = []).
  { intros ps k Hk. induction 1 as [|p ps Hp _ IH]; [reflexivity|]. cbn [filter]. unfold is_kind at 1. rewrite Hp.
    destruct k; try contradiction; cbn; exact IH. }
  assert (Fk : forall ps, Forall (fun p => pkind p = KO) ps -> filter (is_kind KO) ps = ps).
  { induction 1 as [|p ps Hp _ IH]; [reflexivity|]. cbn [filter]. unfold is_kind at 1. rewrite Hp. cbn. rewrite IH. reflexivity. }
  rewrite (F0 _ PO ltac:(discriminate) K1), (F0 _ PK ltac:(discriminate) K2), (Fk _ K4).
  rewrite (F0 _ VP ltac:(discriminate)) by (apply opt_forall; exact K3).
  rewrite (F0 _ VK ltac:(discriminate)) by (apply opt_forall; exact K5).
  cbn [app]. apply app_nil_r.
Qed.

Lemma has_kind_flatten so k : kinds_ok so -> (k = VP \/ k = VK) ->
  has_kind k (flatten so) = match k with VP => isSome (varargs so) | _ => isSome (varkwargs so) end.
Proof.
  intros (K1 & K2 & K3 & K4 & K5) Hk. unfold flatten, has_kind. rewrite !existsb_app.
  assert (F0 : forall ps k', k' <> k -> Forall (fun p => pkind p = k') ps -> existsb (is_kind k) ps = false).
  { intros ps k' Hne. induction 1 as [|p ps Hp _ IH]; [reflexivity|]. cbn [existsb]. unfold is_kind at 1. rewrite Hp, IH.
    destruct Hk as [-> | ->]; destruct k'; try contradiction; reflexivity. }
  rewrite (F0 (posargs so) PO), (F0 (pokargs so) PK), (F0 (kwoargs so) KO); try assumption; try (destruct Hk as [-> | ->]; discriminate).
  cbn [orb].
  destruct (varargs so) as [a|] eqn:Ea; destruct (varkwargs so) as [v|] eqn:Ev; cbn [opt_list existsb orb isSome];
    unfold is_kind; rewrite ?(K3 a eq_refl), ?(K5 v eq_refl); destruct Hk as [-> | ->]; reflexivity.
Qed.

(* C10_order for merge [a; b], keyword-only parameters, valid inputs: first the
   keyword-only parameters both declare (left operand's order); then the
   left-over positional-or-keyword parameters that become keyword-only (those
   the other operand declares keyword-only, or all of them when the other operand
   has star-kwargs but no star-args); then what only the left declares, then what only
   the right declares (each kept only if the other operand has star-kwargs) *)
Theorem merge2_order_kwo a b r :
  merge [a; b] = Ok r -> valid_sig (params a) = true -> valid_sig (params b) = true ->
  let LP := positional (params a) in let RP := positional (params b) in
  let lA := names_of (filter (is_kind PK) (skipn (length RP) LP)) in
  let lB := names_of (filter (is_kind PK) (skipn (length LP) RP)) in
  let KA := names_of (kwonly (params a)) in let KB := names_of (kwonly (params b)) in
  names_of (kwonly (params r)) =
    filter (fun x => mem x KB) KA
    ++ filter (fun x => mem x KB || (has_kind VK (params b) && negb (has_kind VP (params b)))) lA
    ++ filter (fun x => mem x KA || (has_kind VK (params a) && negb (has_kind VP (params a)))) lB
    ++ (if has_kind VK (params b) then filter (fun x => negb (mem x KB) && negb (mem x lB)) KA else [])
    ++ (if has_kind VK (params a) then filter (fun x => negb (mem x KA) && negb (mem x lA)) KB else []).
Proof.
  intros E Va Vb LP RP lA lB KA KB.
  destruct (FoldLaw.merge_pair_inv a b r E) as (acc & Em & Er & _).
  pose proof (sort_params_kinds a) as Ka. pose proof (sort_params_kinds b) as Kb.
  destruct (FoldLaw.merger_kinds _ _ _ Ka Kb Em) as [Kacc _].
  pose proof (merger_kwo_order (sort_params a) (sort_params b) (sort_params_nodup a Va) (sort_params_nodup b Vb) acc Em) as H.
  cbv zeta in H.
  assert (Er' : kwonly (params r) = kwoargs acc) by (rewrite Er; cbn [params]; apply kwonly_flatten; exact Kacc).
  rewrite Er', H. clear H.
  set (sa := sort_params a) in *. set (sb := sort_params b) in *.
  assert (EKA : names_of (kwoargs sa) = KA) by (unfold KA; rewrite (kwonly_sorted a Va); reflexivity).
  assert (EKB : names_of (kwoargs sb) = KB) by (unfold KB; rewrite (kwonly_sorted b Vb); reflexivity).
  assert (ELP : LP = posargs sa ++ pokargs sa) by (apply positional_sorted; exact Va).
  assert (ERP : RP = posargs sb ++ pokargs sb) by (apply positional_sorted; exact Vb).
  assert (Hleft : forall (so : sorted) k, kinds_ok so ->
            filter (is_kind PK) (skipn k (posargs so ++ pokargs so)) = skipn (k - length (posargs so)) (pokargs so)).
  { intros so k (K1 & K2 & _). rewrite skipn_app, filter_app.
    assert (F1 : filter (is_kind PK) (skipn k (posargs so)) = []).
    { apply filter_none. intros p Hp. apply skipn_In in Hp. rewrite Forall_forall in K1. unfold is_kind. rewrite (K1 p Hp). reflexivity. }
    assert (F2 : filter (is_kind PK) (skipn (k - length (posargs so)) (pokargs so)) = skipn (k - length (posargs so)) (pokargs so)).
    { apply filter_all. intros p Hp. apply skipn_In in Hp. rewrite Forall_forall in K2. unfold is_kind. rewrite (K2 p Hp). reflexivity. }
    rewrite F1, F2. reflexivity. }
  assert (ElA : names_of (leftL sa sb) = lA).
  { unfold lA, leftL, Pseq. cbn [my]. rewrite ELP, ERP, (Hleft sa _ Ka). reflexivity. }
  assert (ElB : names_of (leftR sa sb) = lB).
  { unfold lB, leftR, Pseq. cbn [my]. rewrite ELP, ERP, (Hleft sb _ Kb). reflexivity. }
  assert (Hflat : forall s0, valid_sig (params s0) = true -> forall k, (k = VP \/ k = VK) ->
            has_kind k (params s0) = match k with VP => isSome (varargs (sort_params s0)) | _ => isSome (varkwargs (sort_params s0)) end).
  { intros s0 V0 k Hk. rewrite <- (sort_flatten_roundtrip s0 V0) at 1. apply has_kind_flatten; [apply sort_params_kinds | exact Hk]. }
  unfold hvk, hva. cbn [my]. fold sa sb.
  rewrite (Hflat a Va VK), (Hflat a Va VP), (Hflat b Vb VK), (Hflat b Vb VP) by auto. fold sa sb.
  rewrite EKA, EKB, ElA, ElB. reflexivity.
Qed.

Example merge2_order_sat :
  exists r,
    merge [dsig 100 [bp 1 PO; bp 2 PK; bp 5 PK; mkParam 6 KO (Some 1) None UEmpty; bp 7 KO; bp 10 VK];
           dsig 101 [bp 3 PK; bp 4 PK; mkParam 5 KO (Some 1) None UEmpty; bp 7 KO; mkParam 8 KO (Some 1) None UEmpty; bp 10 VK]] = Ok r /\
    map pname (params r) = [1; 2; 7; 5; 6; 8; 10] /\
    map pkind (params r) = [PO; PO; KO; KO; KO; KO; VK].
Proof. eexists. split; [vm_compute; reflexivity|]. split; reflexivity. Qed.

Print Assumptions forwards_contrib.
Print Assumptions forwards_optional.
Print Assumptions embed_step_src_shape.
Print Assumptions embed_src_shape.
Print Assumptions embed_nodup.
Print Assumptions merge_fold_shape_refuted.
Print Assumptions embed_src_shape_sat.
Print Assumptions merger_pos_order.
Print Assumptions merge2_order_pos.
Print Assumptions merger_kwo_order.
Print Assumptions merge2_order_kwo.
Print Assumptions merge2_order_sat.
