(* ProvNoDup.v — C08, duplicate-freedom of the provenance lists of merge.

   FALSE in general (ProvKeys.merge_nodup_refuted: a callable that reaches a
   parameter through both operands is listed twice; DESIGN section 6 #10).
   TRUE variant proved here, for all valid signatures: the list of every
   parameter (named or star) of merge [a; b] is, as a LIST, one of
        a's list,  b's list,  a's ++ b's,  b's ++ a's
   for that name (`merge2_src_shape`), so it is duplicate-free as soon as a's
   and b's lists are and share no callable (`merge2_nodup_partial`).

   The walk: a key receives a second contribution only if a second parameter
   of that name enters the result, or if an entry of the keyword-only
   dictionary is overwritten; the first is excluded by the final validation
   (names of a result are distinct), the second by the distinctness of names in
   each input, carried as an invariant on the not-yet-consumed parameters. *)
From Coq Require Import List NArith Bool Arith Lia Btauto.
From Sigtools.Model Require Import Base Bind Roles Algebra.
From Sigtools.Proofs Require Import SmallModel Basics Prov MaskLaws MaskExact MergeNeutral Annot ProvKeys.
Import ListNotations.
Open Scope N_scope.

(* ---- counting lemmas ---- *)
Lemma cntn_od_set_ge y d p : (cntn y d <= cntn y (od_set d p))%nat.
Proof.
  induction d as [|q d IH]; cbn [od_set]; [rewrite cntn_nil; lia|].
  destruct (N.eqb_spec (pname p) (pname q)) as [E|E]; rewrite !cntn_cons; [rewrite E; lia | lia].
Qed.

Lemma cntn_od_set_fresh y d p : memn (pname p) d = false ->
  cntn y (od_set d p) = (cntn y d + (if N.eqb y (pname p) then 1 else 0))%nat.
Proof.
  intros H. rewrite od_set_fresh by (apply mem_false_In; exact H).
  rewrite cntn_app, cntn_cons, cntn_nil. lia.
Qed.

Lemma cntn_od_set_other y d p : y <> pname p -> cntn y (od_set d p) = cntn y d.
Proof.
  intros Hy. induction d as [|q d IH]; cbn [od_set].
  - rewrite cntn_cons, cntn_nil. destruct (N.eqb_spec y (pname p)); [contradiction | reflexivity].
  - destruct (N.eqb_spec (pname p) (pname q)) as [E|E]; rewrite !cntn_cons.
    + rewrite <- E. destruct (N.eqb_spec y (pname p)); [contradiction | reflexivity].
    + rewrite IH. reflexivity.
Qed.

Lemma memn_filter_true f ps y : memn y (filter f ps) = true -> memn y ps = true.
Proof.
  intros H. apply memn_In in H. destruct H as [p [Hp Hn]]. apply filter_In in Hp.
  apply memn_In. exists p. tauto.
Qed.

Lemma nodup_names_filter f ps : NoDup (names_of ps) -> NoDup (names_of (filter f ps)).
Proof.
  induction ps as [|p ps IH]; intros H; [constructor|]. cbn [names_of map] in H.
  inversion H as [|? ? Hp Hn]; subst. cbn [filter]. destruct (f p); [|apply IH; exact Hn].
  cbn [names_of map]. constructor; [|apply IH; exact Hn].
  intros Hin. apply Hp. apply mem_In. apply mem_In in Hin.
  exact (memn_filter_true f ps (pname p) Hin).
Qed.

Lemma nodup_names_remove x ps : NoDup (names_of ps) -> NoDup (names_of (remove_param x ps)).
Proof.
  induction ps as [|p ps IH]; intros H; [constructor|]. cbn [names_of map] in H.
  inversion H as [|? ? Hp Hn]; subst. cbn [remove_param]. destruct (N.eqb x (pname p)); [apply IH; exact Hn|].
  cbn [names_of map]. constructor; [|apply IH; exact Hn].
  intros Hin. apply Hp. apply mem_In. apply mem_In in Hin.
  pose proof (memn_remove (pname p) x ps) as E. unfold memn, names_of in E.
  unfold names_of in *. rewrite E in Hin. apply andb_true_iff in Hin. apply Hin.
Qed.

Lemma nodup_names_cntn_one ps p : NoDup (names_of ps) -> In p ps -> cntn (pname p) ps = 1%nat.
Proof.
  intros Hn Hp. pose proof (nodup_cntn ps (pname p) Hn). pose proof (memn_cntn _ _ (memn_intro _ _ Hp)). lia.
Qed.

Lemma addall_get_nodup g u : NoDup (names_of u) -> forall m y,
  src_get (addall g u m) y = if memn y u then src_get m y ++ g y else src_get m y.
Proof.
  unfold addall. induction u as [|p u IH]; intros Hn m y; cbn [fold_left]; [reflexivity|].
  cbn [names_of map] in Hn. inversion Hn as [|? ? Hp Hn']; subst.
  rewrite (IH Hn'), memn_cons, src_get_add.
  destruct (N.eqb_spec y (pname p)) as [->|Hy]; cbn [orb]; [|reflexivity].
  apply mem_false_In in Hp. unfold memn, names_of. rewrite Hp. reflexivity.
Qed.

Definition cnt (x : name) (ns : list name) : nat := length (filter (N.eqb x) ns).

Lemma cnt_zero_mem x ns : cnt x ns = 0%nat -> mem x ns = false.
Proof.
  unfold cnt. induction ns as [|n ns IH]; [reflexivity|]. cbn [filter mem].
  destruct (N.eqb x n); cbn [length orb]; [discriminate | exact IH].
Qed.

Lemma cnt_cons x n ns : cnt x (n :: ns) = ((if N.eqb x n then 1 else 0) + cnt x ns)%nat.
Proof. unfold cnt. cbn [filter]. destruct (N.eqb x n); reflexivity. Qed.

Lemma cnt_app x a b : cnt x (a ++ b) = (cnt x a + cnt x b)%nat.
Proof. unfold cnt. rewrite filter_app, app_length. reflexivity. Qed.

Lemma cnt_names x ps : cnt x (names_of ps) = cntn x ps.
Proof.
  induction ps as [|p ps IH]; [reflexivity|]. cbn [names_of map]. rewrite cnt_cons, cntn_cons.
  unfold names_of in IH. rewrite IH. reflexivity.
Qed.

(* the parts of a classified signature with distinct names *)
Lemma flatten_cnt so y : NoDup (names_of (flatten so)) ->
  (cntn y (posargs so) + cntn y (pokargs so) + cntn y (opt_list (varargs so)) + cntn y (kwoargs so)
   + cntn y (opt_list (varkwargs so)) <= 1)%nat.
Proof. intros H. pose proof (nodup_cntn _ y H) as Hc. unfold flatten in Hc. rewrite !cntn_app in Hc. lia. Qed.

Lemma cntn_le_nodup ps : (forall y, (cntn y ps <= 1)%nat) -> NoDup (names_of ps).
Proof.
  induction ps as [|p ps IH]; intros H; [constructor|]. cbn [names_of map]. constructor.
  - intros Hin. apply mem_In in Hin. fold (memn (pname p) ps) in Hin. apply memn_cntn in Hin.
    specialize (H (pname p)). rewrite cntn_cons, N.eqb_refl in H. lia.
  - apply IH. intros y. specialize (H y). rewrite cntn_cons in H. lia.
Qed.

Section Shape.
Variables l r : sorted.
Hypothesis Nl : NoDup (names_of (flatten l)).
Hypothesis Nr : NoDup (names_of (flatten r)).

Notation sL := (sside l r L).
Notation sR := (sside l r R).

(* the five possible values of a provenance list *)
Definition shape1 (x : name) (v : list N) : Prop :=
  v = sL x \/ v = sR x \/ v = sL x ++ sR x \/ v = sR x ++ sL x.
Definition shape (x : name) (v : list N) : Prop := v = [] \/ shape1 x v.

Definition cnt_out (st : mstate) (x : name) : nat :=
  (cntn x (m_pos st) + cntn x (m_pok st) + cntn x (m_kwo st))%nat.

(* as long as at most one parameter is called x, the list of x has a shape *)
Definition N2 (extra : list name) (st : mstate) : Prop :=
  forall x, (cnt_out st x + cnt x extra <= 1)%nat -> shape x (src_get (m_src st) x).

Lemma absent extra st x : Inv l r extra st -> (cnt_out st x + cnt x extra = 0)%nat ->
  src_get (m_src st) x = [].
Proof.
  intros (_ & I2 & _) H. apply src_get_nomem. rewrite I2. unfold outb, cnt_out in *.
  rewrite (cntn_memn_false x (m_pos st)), (cntn_memn_false x (m_pok st)), (cntn_memn_false x (m_kwo st)) by lia.
  rewrite (cnt_zero_mem x extra) by lia. reflexivity.
Qed.

Lemma shape1_side s x : shape1 x (sside l r s x).
Proof. destruct s; [left | right; left]; reflexivity. Qed.

Lemma shape1_two a b x : a <> b -> shape1 x (sside l r a x ++ sside l r b x).
Proof. destruct a, b; intros H; try congruence; [right; right; left | right; right; right]; reflexivity. Qed.

Lemma N2_add extra st st' x v :
  Inv l r extra st -> N2 extra st -> m_src st' = src_add (m_src st) x v ->
  (forall y, y <> x -> (cnt_out st y <= cnt_out st' y)%nat) ->
  cnt_out st' x = (cnt_out st x + 1)%nat ->
  shape1 x v -> N2 extra st'.
Proof.
  intros HI HN Hs Hmono Hx Hv y Hy. rewrite Hs, src_get_add.
  destruct (N.eqb_spec y x) as [->|Hne].
  - rewrite (absent extra st x HI) by lia. right. exact Hv.
  - apply HN. specialize (Hmono y Hne). lia.
Qed.

Lemma N2_add_extra extra st st' x v :
  Inv l r extra st -> N2 extra st -> m_src st' = src_add (m_src st) x v ->
  (forall y, cnt_out st' y = cnt_out st y) ->
  shape1 x v -> N2 (x :: extra) st'.
Proof.
  intros HI HN Hs Hc Hv y Hy. rewrite Hs, src_get_add. rewrite Hc, cnt_cons in Hy.
  destruct (N.eqb_spec y x) as [E|Hne].
  - subst y. rewrite (absent extra st x HI) by lia. right. exact Hv.
  - apply HN. lia.
Qed.

Lemma N2_set extra st st' x :
  N2 extra st -> m_src st' = src_set (m_src st) x (sL x ++ sR x) ->
  (forall y, y <> x -> (cnt_out st y <= cnt_out st' y)%nat) -> N2 extra st'.
Proof.
  intros HN Hs Hmono y Hy. rewrite Hs, src_get_set.
  destruct (N.eqb_spec y x) as [->|Hne].
  - right. right; right; left. reflexivity.
  - apply HN. specialize (Hmono y Hne). lia.
Qed.

Lemma N2_frame extra st st' :
  N2 extra st -> m_src st' = m_src st -> (forall y, (cnt_out st y <= cnt_out st' y)%nat) -> N2 extra st'.
Proof. intros HN Hs Hmono y Hy. rewrite Hs. apply HN. specialize (Hmono y). lia. Qed.

(* the keyword-only dictionary and the two unmatched lists are untouched *)
Definition same_k (st st' : mstate) : Prop :=
  m_kwo st' = m_kwo st /\ m_lunm st' = m_lunm st /\ m_runm st' = m_runm st.

Lemma same_k_refl st : same_k st st.
Proof. unfold same_k. auto. Qed.

Lemma same_k_trans a b c : same_k a b -> same_k b c -> same_k a c.
Proof. unfold same_k. intros (A1 & A2 & A3) (B1 & B2 & B3). rewrite B1, B2, B3. auto. Qed.

Ltac cnt_solve :=
  unfold cnt_out;
  cbn [m_pos m_pok m_kwo set_pos set_pok set_kwo set_src set_unm add_src1 add_src2 excl_va excl_vk];
  rewrite ?cntn_app, ?cntn_cons, ?cntn_nil, ?cntn_map_kind;
  cbn [concile set_kind pname];
  rewrite ?N.eqb_refl; lia.

Ltac cnt_other Hne :=
  unfold cnt_out;
  cbn [m_pos m_pok m_kwo set_pos set_pok set_kwo set_src set_unm add_src1 add_src2 excl_va excl_vk];
  rewrite ?cntn_app, ?cntn_cons, ?cntn_nil, ?cntn_map_kind;
  cbn [concile set_kind pname];
  lia.

(* ---- phase A: matched keyword-only parameters ---- *)
Lemma kwo_match_N lk : forall st,
  (forall p, In p lk -> In p (kwoargs l)) -> Inv l r [] st -> N2 [] st -> N2 [] (kwo_match l r lk st).
Proof.
  induction lk as [|p lk IH]; intros st Hlk HI HN; cbn [kwo_match]; [exact HN|].
  assert (Hlk' : forall q, In q lk -> In q (kwoargs l)) by (intros q Hq; apply Hlk; right; exact Hq).
  assert (Hp1 : forall q, In q [p] -> In q (kwoargs l)) by (intros q [<-|[]]; apply Hlk; left; reflexivity).
  pose proof (kwo_match_Inv l r [] [p] st Hp1 HI) as HI1.
  cbn [kwo_match] in HI1.
  apply IH; [exact Hlk' | exact HI1 |].
  destruct (find_param (pname p) (kwoargs r)) as [q|] eqn:E.
  - eapply (N2_set [] st _ (pname p)); [exact HN | reflexivity |].
    intros y Hy. unfold cnt_out. cbn [set_src set_kwo m_pos m_pok m_kwo].
    pose proof (cntn_od_set_ge y (m_kwo st) (concile p q)). lia.
  - eapply N2_frame; [exact HN | reflexivity |]. intros y. unfold cnt_out. cbn [set_unm m_pos m_pok m_kwo]. lia.
Qed.

(* what the first loop leaves in the dictionary and in the left unmatched list *)
Lemma kwo_match_fields lk : forall st,
  m_pos (kwo_match l r lk st) = m_pos st /\ m_pok (kwo_match l r lk st) = m_pok st /\
  m_runm (kwo_match l r lk st) = m_runm st /\
  (forall y, memn y (m_kwo (kwo_match l r lk st)) = true ->
     memn y (m_kwo st) = true \/ (memn y lk = true /\ memn y (kwoargs r) = true)) /\
  (forall p, In p (m_lunm (kwo_match l r lk st)) ->
     In p (m_lunm st) \/ (In p lk /\ memn (pname p) (kwoargs r) = false)).
Proof.
  induction lk as [|p lk IH]; intros st; cbn [kwo_match].
  - repeat split; auto.
  - destruct (find_param (pname p) (kwoargs r)) as [q|] eqn:E.
    + destruct (IH (set_src (set_kwo st (od_set (m_kwo st) (concile p q)))
                      (src_set (m_src (set_kwo st (od_set (m_kwo st) (concile p q)))) (pname p)
                         (src_get (ssrc l) (pname p) ++ src_get (ssrc r) (pname p))))) as (A1 & A2 & A3 & A4 & A5).
      cbn [set_src set_kwo m_pos m_pok m_kwo m_lunm m_runm] in *.
      split; [exact A1|]. split; [exact A2|]. split; [exact A3|]. split.
      * intros y Hy. destruct (A4 y Hy) as [H|[H1 H2]].
        -- rewrite memn_od_set in H. apply orb_true_iff in H. destruct H as [H|H]; [left; exact H|].
           right. apply N.eqb_eq in H. subst y. change (pname (concile p q)) with (pname p).
           rewrite memn_cons, N.eqb_refl. split; [reflexivity|].
           destruct (find_param_In _ _ _ E) as [Hq Hn]. rewrite <- Hn. apply memn_intro. exact Hq.
        -- right. rewrite memn_cons, H1, orb_true_r. auto.
      * intros x Hx. destruct (A5 x Hx) as [H|[H1 H2]]; [left; exact H | right; split; [right; exact H1 | exact H2]].
    + destruct (IH (set_unm st L (od_set (m_lunm st) p))) as (A1 & A2 & A3 & A4 & A5).
      cbn [set_unm m_pos m_pok m_kwo m_lunm m_runm] in *.
      split; [exact A1|]. split; [exact A2|]. split; [exact A3|]. split.
      * intros y Hy. destruct (A4 y Hy) as [H|[H1 H2]]; [left; exact H|].
        right. rewrite memn_cons, H1, orb_true_r. auto.
      * intros x Hx. destruct (A5 x Hx) as [H|[H1 H2]].
        -- apply od_set_In in H. destruct H as [H| ->]; [left; exact H|].
           right. split; [left; reflexivity | apply find_param_none; exact E].
        -- right. split; [right; exact H1 | exact H2].
Qed.

Lemma kwo_match_lunm_nodup lk : forall st,
  NoDup (names_of lk) -> NoDup (names_of (m_lunm st)) ->
  (forall y, memn y lk = true -> memn y (m_lunm st) = false) ->
  NoDup (names_of (m_lunm (kwo_match l r lk st))).
Proof.
  induction lk as [|p lk IH]; intros st Hn Hu Hd; cbn [kwo_match]; [exact Hu|].
  cbn [names_of map] in Hn. inversion Hn as [|? ? Hp Hn']; subst.
  apply mem_false_In in Hp. fold (names_of lk) in Hp. fold (memn (pname p) lk) in Hp.
  destruct (find_param (pname p) (kwoargs r)) as [q|] eqn:E.
  - apply IH; [exact Hn' | exact Hu |]. cbn [set_src set_kwo m_lunm]. intros y Hy. apply Hd.
    rewrite memn_cons, Hy. apply orb_true_r.
  - assert (Hfresh : memn (pname p) (m_lunm st) = false) by (apply Hd; rewrite memn_cons, N.eqb_refl; reflexivity).
    apply IH; [exact Hn' | |]; cbn [set_unm m_lunm].
    + rewrite od_set_fresh by (apply mem_false_In; exact Hfresh).
      apply cntn_le_nodup. intros y. rewrite cntn_app, cntn_cons, cntn_nil.
      pose proof (nodup_cntn _ y Hu). destruct (N.eqb_spec y (pname p)) as [->|]; [|lia].
      rewrite (memn_false_cntn _ _ Hfresh). lia.
    + intros y Hy. rewrite memn_od_set.
      rewrite (Hd y) by (rewrite memn_cons, Hy; apply orb_true_r). cbn [orb].
      destruct (N.eqb_spec y (pname p)) as [->|]; [rewrite Hy in Hp; discriminate | reflexivity].
Qed.

(* ---- phase B: positional zips; the dictionary is not touched ---- *)
Lemma unb_pos1_N s e conv st st' conv' :
  NS l r s e -> Inv l r [] st -> N2 [] st ->
  unb_pos1 l r s e conv st = Ok (st', conv') ->
  N2 [] st' /\ same_k st st' /\ (exists pre, conv = pre ++ conv').
Proof.
  intros He HI HN. unfold unb_pos1. destruct conv as [|o conv].
  - destruct (isSome (varargs (other l r s))).
    + intros E; inversion E; subst. split; [|split; [destruct s; unfold same_k; cbn; auto | exists []; reflexivity]].
      assert (G : N2 [] (add_src1 l r (set_pos st (m_pos st ++ [e])) (pname e) s)).
      { eapply (N2_add [] st _ (pname e)); [exact HI | exact HN | reflexivity | | | apply shape1_side].
        - intros y Hy. cnt_solve.
        - cnt_solve. }
      intros y Hy. destruct s; exact (G y Hy).
    + destruct (negb (has_def e)); [discriminate|]. intros E; inversion E; subst.
      split; [exact HN | split; [apply same_k_refl | exists []; reflexivity]].
  - intros E; inversion E; subst. split; [|split; [destruct (N.eqb (pname o) (pname e)); unfold same_k; cbn; auto | exists [o]; reflexivity]].
    destruct (N.eqb (pname o) (pname e)).
    + eapply (N2_add [] st _ (pname e)); [exact HI | exact HN | reflexivity | | |].
      * intros y Hy. cnt_solve.
      * cnt_solve.
      * apply shape1_two. destruct s; discriminate.
    + eapply (N2_add [] st _ (pname e)); [exact HI | exact HN | reflexivity | | | apply shape1_side].
      * intros y Hy. cnt_solve.
      * cnt_solve.
Qed.

Lemma unb_pos_all_N s ps : forall conv st st' conv',
  Forall (NS l r s) ps -> Forall (NS l r (oside s)) conv -> Inv l r [] st -> N2 [] st ->
  unb_pos_all l r s ps conv st = Ok (st', conv') ->
  Inv l r [] st' /\ N2 [] st' /\ same_k st st' /\ (exists pre, conv = pre ++ conv').
Proof.
  induction ps as [|p ps IH]; intros conv st st' conv' Hps Hconv HI HN; cbn [unb_pos_all].
  - intros E; inversion E; subst. split; [exact HI|]. split; [exact HN|]. split; [apply same_k_refl | exists []; reflexivity].
  - inversion Hps as [|p' ps' Hp Hps']; subst. intros E.
    apply bind_ok in E. destruct E as [[st1 conv1] [E1 E2]]. cbn [fst snd] in E2.
    destruct (unb_pos1_Inv l r [] _ _ _ _ _ _ Hp Hconv HI E1) as [HI1 Hc1].
    destruct (unb_pos1_N _ _ _ _ _ _ Hp HI HN E1) as (HN1 & K1 & [pre1 P1]).
    destruct (IH _ _ _ _ Hps' Hc1 HI1 HN1 E2) as (HI2 & HN2 & K2 & [pre2 P2]).
    split; [exact HI2|]. split; [exact HN2|]. split; [eapply same_k_trans; eauto|].
    exists (pre1 ++ pre2). rewrite P1, P2, app_assoc. reflexivity.
Qed.

Lemma zip_pos_N lp : forall rp il ir st st' il' ir',
  Forall (NS l r L) lp -> Forall (NS l r R) rp -> Forall (NS l r L) il -> Forall (NS l r R) ir ->
  Inv l r [] st -> N2 [] st ->
  zip_pos l r lp rp il ir st = Ok (st', il', ir') ->
  Inv l r [] st' /\ N2 [] st' /\ same_k st st' /\
  (exists pre, il = pre ++ il') /\ (exists pre, ir = pre ++ ir') /\
  Forall (NS l r L) il' /\ Forall (NS l r R) ir'.
Proof.
  induction lp as [|a lp IH]; intros rp il ir st st' il' ir' Hlp Hrp Hil Hir HI HN.
  - cbn [zip_pos]. intros E. apply bind_ok in E. destruct E as [[st1 c1] [E1 E2]].
    cbn [fst snd] in E2. injection E2 as X1 X2 X3. subst st' il' ir'.
    destruct (unb_pos_all_N R _ _ _ _ _ Hrp Hil HI HN E1) as (H1 & H2 & H3 & H4).
    destruct (unb_pos_all_Inv l r [] R _ _ _ _ _ Hrp Hil HI E1) as [_ H5].
    split; [exact H1|]. split; [exact H2|]. split; [exact H3|]. split; [exact H4|].
    split; [exists []; reflexivity|]. split; [exact H5 | exact Hir].
  - destruct rp as [|b rp].
    + cbn [zip_pos]. intros E. apply bind_ok in E. destruct E as [[st1 c1] [E1 E2]].
      cbn [fst snd] in E2. injection E2 as X1 X2 X3. subst st' il' ir'.
      destruct (unb_pos_all_N L _ _ _ _ _ Hlp Hir HI HN E1) as (H1 & H2 & H3 & H4).
      destruct (unb_pos_all_Inv l r [] L _ _ _ _ _ Hlp Hir HI E1) as [_ H5].
      split; [exact H1|]. split; [exact H2|]. split; [exact H3|]. split; [exists []; reflexivity|].
      split; [exact H4|]. split; [exact Hil | exact H5].
    + cbn [zip_pos]. inversion Hlp as [|a' lp' Ha Hlp']; subst. inversion Hrp as [|b' rp' Hb Hrp']; subst.
      intros E.
      set (st2 := if N.eqb (pname a) (pname b)
                  then add_src2 l r (set_pos st (m_pos st ++ [concile a b])) (pname a) L R
                  else add_src1 l r (set_pos st (m_pos st ++ [concile a b])) (pname a) L) in *.
      assert (HI2 : Inv l r [] st2).
      { unfold st2. destruct (N.eqb (pname a) (pname b)).
        - apply (Inv_src2 l r [] st _ L a); try assumption; try reflexivity; auto.
          intros y. unfold outb. cbn [add_src2 set_src set_pos m_pos m_pok m_kwo].
          rewrite memn_app, memn_one. cbn [concile pname]. btauto.
        - apply (Inv_src1 l r [] st); try assumption; try reflexivity.
          intros y. unfold outb. cbn [add_src1 set_src set_pos m_pos m_pok m_kwo].
          rewrite memn_app, memn_one. cbn [concile pname]. btauto. }
      assert (HN2 : N2 [] st2).
      { unfold st2. destruct (N.eqb (pname a) (pname b)).
        - eapply (N2_add [] st _ (pname a)); [exact HI | exact HN | reflexivity | | |].
          + intros y Hy. cnt_solve.
          + cnt_solve.
          + apply shape1_two. discriminate.
        - eapply (N2_add [] st _ (pname a)); [exact HI | exact HN | reflexivity | | | apply (shape1_side L)].
          + intros y Hy. cnt_solve.
          + cnt_solve. }
      assert (K2 : same_k st st2).
      { unfold st2. destruct (N.eqb (pname a) (pname b)); unfold same_k; cbn; auto. }
      destruct (IH _ _ _ _ _ _ _ Hlp' Hrp' Hil Hir HI2 HN2 E) as (H1 & H2 & H3 & H4).
      split; [exact H1|]. split; [exact H2|]. split; [eapply same_k_trans; eauto | exact H4].
Qed.

(* ---- phase C: left-over positional-or-keyword parameters of side s ---- *)
(* nothing in the keyword-only dictionary is named like a parameter still
   waiting in one of the unmatched lists or in the rest of the bucket *)
Definition P (s : side) (rest : list param) (st : mstate) : Prop :=
  (forall x, memn x (m_kwo st) = true ->
     memn x (m_lunm st) = false /\ memn x (m_runm st) = false /\ memn x rest = false) /\
  NoDup (names_of (m_lunm st)) /\ NoDup (names_of (m_runm st)) /\ NoDup (names_of rest) /\
  (forall x, memn x (unm st s) = true -> memn x rest = false) /\
  (forall x, memn x (m_lunm st) = true -> memn x (m_runm st) = false).

Lemma P_head s e rest st : P s (e :: rest) st ->
  memn (pname e) (m_kwo st) = false /\ memn (pname e) rest = false /\ memn (pname e) (unm st s) = false.
Proof.
  intros (P1 & _ & _ & P4 & P5 & _).
  assert (He : memn (pname e) (e :: rest) = true) by (rewrite memn_cons, N.eqb_refl; reflexivity).
  split; [|split].
  - destruct (memn (pname e) (m_kwo st)) eqn:E; [|reflexivity].
    destruct (P1 _ E) as (_ & _ & H). rewrite H in He. discriminate.
  - cbn [names_of map] in P4. inversion P4 as [|? ? Hn _]; subst. apply mem_false_In. exact Hn.
  - destruct (memn (pname e) (unm st s)) eqn:E; [|reflexivity].
    rewrite (P5 _ E) in He. discriminate.
Qed.

Lemma memn_tail y (e : param) rest : memn y (e :: rest) = false -> memn y rest = false.
Proof. rewrite memn_cons. intros H. apply orb_false_iff in H. apply H. Qed.

Lemma P_weaken s e rest st : P s (e :: rest) st -> P s rest st.
Proof.
  intros (P1 & P2 & P3 & P4 & P5 & P6). unfold P. repeat split; auto.
  - apply P1; assumption.
  - apply P1; assumption.
  - eapply memn_tail. apply P1; eassumption.
  - cbn [names_of map] in P4. inversion P4; assumption.
  - intros x Hx. eapply memn_tail. apply P5; exact Hx.
Qed.

(* the same with a frame: dictionary and unmatched lists unchanged *)
Lemma P_same_k s rest st st' : same_k st st' -> P s rest st -> P s rest st'.
Proof.
  intros (A1 & A2 & A3) HP. unfold P in *.
  assert (Eu : unm st' s = unm st s) by (destruct s; cbn [unm]; assumption).
  rewrite A1, A2, A3, Eu. exact HP.
Qed.

Lemma memn_remove_le y x ps : memn y (remove_param x ps) = true -> memn y ps = true.
Proof. rewrite memn_remove. intros H. apply andb_true_iff in H. apply H. Qed.

Lemma memn_remove_false y x ps : memn y ps = false -> memn y (remove_param x ps) = false.
Proof. rewrite memn_remove. intros ->. reflexivity. Qed.

Lemma memn_remove_self x ps : memn x (remove_param x ps) = false.
Proof. rewrite memn_remove, N.eqb_refl. apply andb_false_r. Qed.

Lemma unb_pok1_N s e rest st st' :
  NS l r s e -> Inv l r [] st -> N2 [] st -> P s (e :: rest) st ->
  unb_pok1 l r s e st = Ok st' -> N2 [] st' /\ P s rest st'.
Proof.
  intros He HI HN HP. destruct (P_head _ _ _ _ HP) as (F1 & F2 & F3).
  pose proof (P_weaken _ _ _ _ HP) as HPw.
  destruct HP as (P1 & P2 & P3 & P4 & P5 & P6).
  unfold unb_pok1. change (match s with L => R | R => L end) with (oside s).
  destruct (find_param (pname e) (unm st (oside s))) as [q|] eqn:E.
  - intros E1; inversion E1; subst. clear E1. split.
    + destruct s; cbn [oside] in *;
        (eapply (N2_add [] st _ (pname e)); [exact HI | exact HN | reflexivity | | |]).
      * intros y Hy. unfold cnt_out. cbn [add_src2 set_src set_kwo set_unm m_pos m_pok m_kwo].
        rewrite cntn_od_set_other by exact Hy. lia.
      * unfold cnt_out. cbn [add_src2 set_src set_kwo set_unm m_pos m_pok m_kwo].
        rewrite cntn_od_set_fresh by exact F1. cbn [set_kind concile pname]. rewrite N.eqb_refl. lia.
      * apply shape1_two. discriminate.
      * intros y Hy. unfold cnt_out. cbn [add_src2 set_src set_kwo set_unm m_pos m_pok m_kwo].
        rewrite cntn_od_set_other by exact Hy. lia.
      * unfold cnt_out. cbn [add_src2 set_src set_kwo set_unm m_pos m_pok m_kwo].
        rewrite cntn_od_set_fresh by exact F1. cbn [set_kind concile pname]. rewrite N.eqb_refl. lia.
      * apply shape1_two. discriminate.
    + destruct s; cbn [oside unm] in *; unfold P;
        cbn [add_src2 set_src set_kwo set_unm unm m_kwo m_lunm m_runm];
        (split; [|split; [|split; [|split; [|split]]]]).
      (* s = L : the right unmatched list shrinks *)
      * intros y Hy. rewrite memn_od_set in Hy. cbn [set_kind concile pname] in Hy.
        apply orb_true_iff in Hy. destruct Hy as [Hy|Hy].
        -- destruct (P1 y Hy) as (A & B & C). repeat split; [exact A | apply memn_remove_false; exact B | eapply memn_tail; exact C].
        -- apply N.eqb_eq in Hy. subst y. repeat split; [exact F3 | apply memn_remove_self | exact F2].
      * exact P2.
      * apply nodup_names_remove. exact P3.
      * cbn [names_of map] in P4. inversion P4; assumption.
      * intros y Hy. eapply memn_tail. apply P5. exact Hy.
      * intros y Hy. apply memn_remove_false. apply P6. exact Hy.
      (* s = R : the left unmatched list shrinks *)
      * intros y Hy. rewrite memn_od_set in Hy. cbn [set_kind concile pname] in Hy.
        apply orb_true_iff in Hy. destruct Hy as [Hy|Hy].
        -- destruct (P1 y Hy) as (A & B & C). repeat split; [apply memn_remove_false; exact A | exact B | eapply memn_tail; exact C].
        -- apply N.eqb_eq in Hy. subst y. repeat split; [apply memn_remove_self | exact F3 | exact F2].
      * apply nodup_names_remove. exact P2.
      * exact P3.
      * cbn [names_of map] in P4. inversion P4; assumption.
      * intros y Hy. eapply memn_tail. apply P5. exact Hy.
      * intros y Hy. apply P6. eapply memn_remove_le. exact Hy.
  - apply find_param_none in E.
    destruct (isSome (varargs (other l r s)) && isSome (varkwargs (other l r s))).
    { intros E1; inversion E1; subst. split.
      - eapply (N2_add [] st _ (pname e)); [exact HI | exact HN | reflexivity | | | apply shape1_side].
        + intros y Hy. cnt_solve.
        + cnt_solve.
      - apply (P_same_k s rest st); [unfold same_k; cbn; auto | exact HPw]. }
    destruct (isSome (varkwargs (other l r s))).
    { intros E1; inversion E1; subst. split.
      - eapply (N2_add [] st _ (pname e)); [exact HI | exact HN | reflexivity | | | apply shape1_side].
        + intros y Hy. unfold cnt_out. cbn [add_src1 set_src set_kwo m_pos m_pok m_kwo].
          rewrite cntn_od_set_other by exact Hy. lia.
        + unfold cnt_out. cbn [add_src1 set_src set_kwo m_pos m_pok m_kwo].
          rewrite cntn_od_set_fresh by exact F1. cbn [set_kind pname]. rewrite N.eqb_refl. lia.
      - unfold P. cbn [add_src1 set_src set_kwo m_kwo m_lunm m_runm].
        assert (Eu : unm (add_src1 l r (set_kwo st (od_set (m_kwo st) (set_kind KO e))) (pname e) s) s = unm st s)
          by (destruct s; reflexivity).
        rewrite Eu.
        split; [|split; [exact P2 | split; [exact P3 | split; [|split; [|exact P6]]]]].
        + intros y Hy. rewrite memn_od_set in Hy. cbn [set_kind pname] in Hy.
          apply orb_true_iff in Hy. destruct Hy as [Hy|Hy].
          * destruct (P1 y Hy) as (A & B & C). repeat split; [exact A | exact B | eapply memn_tail; exact C].
          * apply N.eqb_eq in Hy. subst y. destruct s; cbn [oside unm] in *; repeat split; assumption.
        + cbn [names_of map] in P4. inversion P4; assumption.
        + intros y Hy. eapply memn_tail. apply P5. exact Hy. }
    destruct (isSome (varargs (other l r s))).
    { intros E1; inversion E1; subst. split.
      - eapply (N2_add [] st _ (pname e)); [exact HI | exact HN | reflexivity | | | apply shape1_side].
        + intros y Hy. cnt_solve.
        + cnt_solve.
      - apply (P_same_k s rest st); [unfold same_k; cbn; auto | exact HPw]. }
    destruct (negb (has_def e)); [discriminate|]. intros E1; inversion E1; subst. split; [exact HN | exact HPw].
Qed.

Lemma unb_pok_all_N s ps : forall st st',
  Forall (NS l r s) ps -> Inv l r [] st -> N2 [] st -> P s ps st ->
  unb_pok_all l r s ps st = Ok st' -> Inv l r [] st' /\ N2 [] st' /\ P s [] st'.
Proof.
  induction ps as [|p ps IH]; intros st st' Hps HI HN HP; cbn [unb_pok_all].
  - intros E; inversion E; subst. auto.
  - inversion Hps as [|p' ps' Hp Hps']; subst. intros E.
    apply bind_ok in E. destruct E as [st1 [E1 E2]].
    pose proof (unb_pok1_Inv l r [] _ _ _ _ Hp HI E1) as HI1.
    destruct (unb_pok1_N _ _ _ _ _ Hp HI HN HP E1) as [HN1 HP1].
    eapply IH; eauto.
Qed.

Lemma P_nil_side s s' st : P s [] st -> P s' [] st.
Proof.
  intros (P1 & P2 & P3 & P4 & P5 & P6). unfold P. repeat split; auto; apply P1; assumption.
Qed.

Lemma zip_pok_N il : forall ir st st',
  Forall (NS l r L) il -> Forall (NS l r R) ir -> Inv l r [] st -> N2 [] st ->
  P L il st -> P R ir st ->
  zip_pok l r il ir st = Ok st' -> Inv l r [] st' /\ N2 [] st' /\ P L [] st'.
Proof.
  induction il as [|a il IH]; intros ir st st' Hil Hir HI HN HPl HPr.
  - cbn [zip_pok]. intros E.
    destruct (unb_pok_all_N R ir st st' Hir HI HN HPr) as (A & B & C).
    { destruct ir; exact E. }
    split; [exact A | split; [exact B | eapply P_nil_side; exact C]].
  - destruct ir as [|b ir].
    + exact (unb_pok_all_N L (a :: il) st st' Hil HI HN HPl).
    + cbn [zip_pok]. inversion Hil as [|a' il' Ha Hil']; subst. inversion Hir as [|b' ir' Hb Hir']; subst.
      intros E.
      set (st2 := if N.eqb (pname a) (pname b)
                  then add_src2 l r (set_pok st (m_pok st ++ [concile a b])) (pname a) L R
                  else add_src1 l r (set_pok st (map (set_kind PO) (m_pok st) ++ [set_kind PO (concile a b)]))
                                (pname a) L) in *.
      assert (HI2 : Inv l r [] st2).
      { unfold st2. destruct (N.eqb (pname a) (pname b)).
        - apply (Inv_src2 l r [] st _ L a); try assumption; try reflexivity; auto.
          intros y. unfold outb. cbn [add_src2 set_src set_pok m_pos m_pok m_kwo].
          rewrite memn_app, memn_one. cbn [concile pname]. btauto.
        - apply (Inv_src1 l r [] st); try assumption; try reflexivity.
          intros y. unfold outb. cbn [add_src1 set_src set_pok m_pos m_pok m_kwo].
          rewrite memn_app, memn_one, memn_map_kind. cbn [set_kind concile pname]. btauto. }
      assert (HN2 : N2 [] st2).
      { unfold st2. destruct (N.eqb (pname a) (pname b)).
        - eapply (N2_add [] st _ (pname a)); [exact HI | exact HN | reflexivity | | |].
          + intros y Hy. cnt_solve.
          + cnt_solve.
          + apply shape1_two. discriminate.
        - eapply (N2_add [] st _ (pname a)); [exact HI | exact HN | reflexivity | | | apply (shape1_side L)].
          + intros y Hy. cnt_solve.
          + cnt_solve. }
      assert (K2 : same_k st st2).
      { unfold st2. destruct (N.eqb (pname a) (pname b)); unfold same_k; cbn; auto. }
      apply (IH ir st2 st' Hil' Hir' HI2 HN2); [| | exact E].
      * apply (P_same_k L il st st2 K2). eapply P_weaken; exact HPl.
      * apply (P_same_k R ir st st2 K2). eapply P_weaken; exact HPr.
Qed.

(* ---- phase D: the unmatched keyword-only parameters join the dictionary ---- *)
Lemma unmatched_kwo_N s st st' :
  Inv l r [] st -> N2 [] st ->
  (forall x, memn x (m_kwo st) = true -> memn x (unm st s) = false) -> NoDup (names_of (unm st s)) ->
  unmatched_kwo l r s st = Ok st' ->
  N2 [] st' /\ m_lunm st' = m_lunm st /\ m_runm st' = m_runm st /\
  (forall x, memn x (m_kwo st') = true -> memn x (m_kwo st) = true \/ memn x (unm st s) = true).
Proof.
  intros HI HN Hd Hn. unfold unmatched_kwo.
  destruct (unm st s) as [|p0 u0] eqn:Eu.
  - intros E; inversion E; subst. auto.
  - destruct (isSome (varkwargs (other l r s))).
    2:{ destruct (forallb has_def (p0 :: u0)); [|discriminate]. intros E; inversion E; subst. auto. }
    intros E; inversion E; subst. clear E.
    set (u := p0 :: u0) in *.
    set (st1 := set_kwo st (od_update (m_kwo st) u)).
    set (st2 := fold_left (fun a p => add_src1 l r a (pname p) s) u st1).
    pose proof (shp_fold_src l r s u st1) as Hs. fold st2 in Hs.
    apply shp_inv in Hs. destruct Hs as (A1 & A2 & A3 & _ & _ & A6 & A7).
    pose proof (fold_add_src1_src l r s u st1) as Asrc. fold st2 in Asrc.
    change (m_src st1) with (m_src st) in Asrc.
    assert (Ek : m_kwo st2 = m_kwo st ++ u).
    { rewrite A3. unfold st1. cbn [set_kwo m_kwo]. apply od_update_fresh; [exact Hn|].
      intros x Hx Hin. apply mem_In in Hx. apply mem_In in Hin.
      fold (memn x u) in Hx. fold (memn x (m_kwo st)) in Hin. rewrite (Hd x Hin) in Hx. discriminate. }
    assert (G : N2 [] st2).
    { intros y Hy. rewrite Asrc, (addall_get_nodup _ _ Hn).
      unfold cnt_out in Hy. rewrite A1, A2, Ek, cntn_app in Hy. unfold st1 in Hy. cbn [set_kwo m_pos m_pok] in Hy.
      destruct (memn y u) eqn:Ey.
      - apply memn_cntn in Ey. rewrite (absent [] st y HI) by (unfold cnt_out; lia).
        right. apply shape1_side.
      - apply HN. unfold cnt_out. lia. }
    split; [intros y Hy; destruct s; exact (G y Hy)|].
    split; [destruct s; exact A6|]. split; [destruct s; exact A7|].
    intros x Hx.
    assert (Hx' : memn x (m_kwo st2) = true) by (destruct s; exact Hx).
    rewrite Ek, memn_app in Hx'. apply orb_true_iff in Hx'. exact Hx'.
Qed.

Lemma normalise_pok_N extra st : N2 extra st -> N2 extra (normalise_pok st).
Proof.
  intros HN. unfold normalise_pok.
  pose proof (split_po_prefix_app (m_pok st)) as Hs.
  destruct (split_po_prefix (m_pok st)) as [a b]. cbn [fst snd] in Hs.
  eapply N2_frame; [exact HN | reflexivity|].
  intros y. unfold cnt_out. cbn [set_pok set_pos m_pos m_pok m_kwo]. rewrite <- Hs, !cntn_app. lia.
Qed.

Lemma add_star_N extra xl xr osl osr st o st' :
  Inv l r extra st -> N2 extra st -> add_star l r xl xr osl osr st = (o, st') ->
  N2 (names_of (opt_list o) ++ extra) st'.
Proof.
  intros HI HN. unfold add_star.
  destruct osl as [a|]; [|intros E; inversion E; subst; exact HN].
  destruct osr as [b|]; [|intros E; inversion E; subst; exact HN].
  destruct (negb xl && negb xr).
  - intros E; inversion E; subst. cbn [opt_list names_of map app].
    change (pname (concile a b)) with (pname a).
    destruct (N.eqb (pname a) (pname b)).
    + eapply (N2_add_extra extra st _ (pname a)); [exact HI | exact HN | reflexivity | reflexivity |].
      apply shape1_two. discriminate.
    + eapply (N2_add_extra extra st _ (pname a)); [exact HI | exact HN | reflexivity | reflexivity |].
      apply (shape1_side L).
  - destruct (negb xl); intros E; inversion E; subst; cbn [opt_list names_of map app].
    + eapply (N2_add_extra extra st _ (pname a)); [exact HI | exact HN | reflexivity | reflexivity |].
      apply (shape1_side L).
    + eapply (N2_add_extra extra st _ (pname b)); [exact HI | exact HN | reflexivity | reflexivity |].
      apply (shape1_side R).
Qed.

(* ---- assembling ---- *)
Lemma side_parts s :
  NoDup (names_of (pokargs (my l r s))) /\ NoDup (names_of (kwoargs (my l r s))) /\
  (forall y, memn y (kwoargs (my l r s)) = true -> memn y (pokargs (my l r s)) = false).
Proof.
  assert (Hn : NoDup (names_of (flatten (my l r s)))) by (destruct s; assumption).
  split; [|split].
  - apply cntn_le_nodup. intros y. pose proof (flatten_cnt _ y Hn). lia.
  - apply cntn_le_nodup. intros y. pose proof (flatten_cnt _ y Hn). lia.
  - intros y Hy. apply memn_cntn in Hy. apply cntn_memn_false. pose proof (flatten_cnt _ y Hn). lia.
Qed.

Lemma nodup_names_suffix (pre rest : list param) : NoDup (names_of (pre ++ rest)) -> NoDup (names_of rest).
Proof. unfold names_of. rewrite map_app. apply nodup_app_r. Qed.

(* the invariant of phase C holds when the positional zips are over *)
Lemma P_entry s rest st :
  (forall y, memn y (m_kwo st) = true -> memn y (kwoargs l) = true /\ memn y (kwoargs r) = true) ->
  (forall p, In p (m_lunm st) -> In p (kwoargs l) /\ memn (pname p) (kwoargs r) = false) ->
  (forall p, In p (m_runm st) -> In p (kwoargs r) /\ memn (pname p) (kwoargs l) = false) ->
  NoDup (names_of (m_lunm st)) -> NoDup (names_of (m_runm st)) ->
  (exists pre, pokargs (my l r s) = pre ++ rest) ->
  P s rest st.
Proof.
  intros HK HU HV NU NV [pre Hpre].
  destruct (side_parts s) as (S1 & S2 & S3).
  assert (Hrest : forall y, memn y rest = true -> memn y (pokargs (my l r s)) = true).
  { intros y Hy. rewrite Hpre, memn_app, Hy. apply orb_true_r. }
  assert (HUn : forall y, memn y (m_lunm st) = true -> memn y (kwoargs l) = true /\ memn y (kwoargs r) = false).
  { intros y Hy. apply memn_In in Hy. destruct Hy as [p [Hp <-]]. destruct (HU p Hp) as [A B].
    split; [apply memn_intro; exact A | exact B]. }
  assert (HVn : forall y, memn y (m_runm st) = true -> memn y (kwoargs r) = true /\ memn y (kwoargs l) = false).
  { intros y Hy. apply memn_In in Hy. destruct Hy as [p [Hp <-]]. destruct (HV p Hp) as [A B].
    split; [apply memn_intro; exact A | exact B]. }
  unfold P. split; [|split; [exact NU | split; [exact NV | split; [|split]]]].
  - intros x Hx. destruct (HK x Hx) as [A B]. split; [|split].
    + destruct (memn x (m_lunm st)) eqn:E; [|reflexivity]. destruct (HUn x E) as [_ C]. rewrite C in B. discriminate.
    + destruct (memn x (m_runm st)) eqn:E; [|reflexivity]. destruct (HVn x E) as [_ C]. rewrite C in A. discriminate.
    + destruct (memn x rest) eqn:E; [|reflexivity]. apply Hrest in E.
      assert (Hk : memn x (kwoargs (my l r s)) = true) by (destruct s; assumption).
      rewrite (S3 x Hk) in E. discriminate.
  - rewrite Hpre in S1. eapply nodup_names_suffix. exact S1.
  - intros x Hx. destruct (memn x rest) eqn:E; [|reflexivity]. apply Hrest in E.
    assert (Hk : memn x (kwoargs (my l r s)) = true).
    { destruct s; cbn [unm my] in *; [apply (HUn x Hx) | apply (HVn x Hx)]. }
    rewrite (S3 x Hk) in E. discriminate.
  - intros x Hx. destruct (memn x (m_runm st)) eqn:E; [|reflexivity].
    destruct (HUn x Hx) as [_ A]. destruct (HVn x E) as [B _]. rewrite A in B. discriminate.
Qed.

Theorem merger_shape s : merger l r = Ok s ->
  forall x, (cntn x (flatten s) <= 1)%nat -> shape x (src_get (ssrc s) x).
Proof.
  unfold merger. intros E.
  set (st0 := mkM [] [] [] [] false false false false [] []) in *.
  assert (N0 : N2 [] st0) by (intros x _; left; reflexivity).
  pose proof (kwo_match_Inv l r [] (kwoargs l) _ (fun p H => H) (Inv_init l r)) as H1. fold st0 in H1.
  pose proof (kwo_match_N (kwoargs l) st0 (fun p H => H) (Inv_init l r) N0) as N1.
  destruct (kwo_match_fields (kwoargs l) st0) as (F1 & F2 & F3 & F4 & F5).
  destruct (side_parts L) as (_ & SL2 & _). cbn [my] in SL2.
  pose proof (kwo_match_lunm_nodup (kwoargs l) st0 SL2 (NoDup_nil _) (fun y _ => eq_refl)) as F6.
  set (st1 := kwo_match l r (kwoargs l) st0) in *.
  set (st2 := set_unm st1 R (r_unmatched l r)).
  assert (H2 : Inv l r [] st2).
  { apply (Inv_frame l r [] st1 _ H1); try reflexivity.
    - cbn. auto.
    - cbn. auto.
    - cbn. apply (Inv_lunm _ _ _ _ H1).
    - cbn [set_unm m_runm]. unfold r_unmatched. intros p Hp. apply filter_In in Hp. apply Hp. }
  assert (N2' : N2 [] st2).
  { eapply N2_frame; [exact N1 | reflexivity |]. intros y. unfold cnt_out, st2.
    cbn [set_unm m_pos m_pok m_kwo]. lia. }
  (* facts about the dictionary and the unmatched lists before the zips *)
  assert (HK : forall y, memn y (m_kwo st2) = true -> memn y (kwoargs l) = true /\ memn y (kwoargs r) = true).
  { intros y Hy. cbn [st2 set_unm m_kwo] in Hy. destruct (F4 y Hy) as [H|H]; [discriminate H | exact H]. }
  assert (HU : forall p, In p (m_lunm st2) -> In p (kwoargs l) /\ memn (pname p) (kwoargs r) = false).
  { intros p Hp. cbn [st2 set_unm m_lunm] in Hp. destruct (F5 p Hp) as [[]|H]; exact H. }
  assert (HV : forall p, In p (m_runm st2) -> In p (kwoargs r) /\ memn (pname p) (kwoargs l) = false).
  { intros p Hp. cbn [st2 set_unm m_runm] in Hp. unfold r_unmatched in Hp. apply filter_In in Hp.
    destruct Hp as [Hp Hf]. split; [exact Hp|].
    destruct (find_param (pname p) (kwoargs l)) eqn:Ef; [discriminate Hf | apply find_param_none; exact Ef]. }
  assert (NU : NoDup (names_of (m_lunm st2))) by exact F6.
  assert (NV : NoDup (names_of (m_runm st2))).
  { cbn [st2 set_unm m_runm]. unfold r_unmatched. apply nodup_names_filter.
    destruct (side_parts R) as (_ & SR2 & _). exact SR2. }
  apply bind_ok in E. destruct E as [[[st3 il] ir] [E3 E]].
  destruct (zip_pos_N _ _ _ _ _ _ _ _ (Forall_NS_pos l r L) (Forall_NS_pos l r R)
              (Forall_NS_pok l r L) (Forall_NS_pok l r R) H2 N2' E3)
    as (H3 & N3 & K3 & Sil & Sir & Hil & Hir).
  assert (PL : P L il st3).
  { apply (P_same_k L il st2 st3 K3). apply P_entry; assumption. }
  assert (PR : P R ir st3).
  { apply (P_same_k R ir st2 st3 K3). apply P_entry; assumption. }
  apply bind_ok in E. destruct E as [st4 [E4 E]].
  destruct (zip_pok_N _ _ _ _ Hil Hir H3 N3 PL PR E4) as (H4 & N4 & (Q1 & Q2 & Q3 & _ & _ & Q6)).
  apply bind_ok in E. destruct E as [st5 [E5 E]].
  pose proof (unmatched_kwo_Inv l r [] _ _ _ H4 E5) as H5.
  destruct (unmatched_kwo_N L st4 st5 H4 N4 (fun x Hx => proj1 (Q1 x Hx)) Q2 E5) as (N5 & U5 & V5 & K5).
  apply bind_ok in E. destruct E as [st6 [E6 E]].
  pose proof (unmatched_kwo_Inv l r [] _ _ _ H5 E6) as H6.
  assert (D6 : forall x, memn x (m_kwo st5) = true -> memn x (unm st5 R) = false).
  { intros x Hx. cbn [unm]. rewrite V5. destruct (K5 x Hx) as [H|H].
    - apply (Q1 x H).
    - cbn [unm] in H. apply Q6. exact H. }
  assert (NV5 : NoDup (names_of (unm st5 R))) by (cbn [unm]; rewrite V5; exact Q3).
  destruct (unmatched_kwo_N R st5 st6 H5 N5 D6 NV5 E6) as (N6 & _).
  pose proof (normalise_pok_Inv l r [] _ H6) as H7.
  pose proof (normalise_pok_N [] _ N6) as N7.
  set (st7 := normalise_pok st6) in *.
  destruct (add_star l r (m_xva_l st7) (m_xva_r st7) (varargs l) (varargs r) st7) as [va st8] eqn:E8.
  destruct (add_star_Inv l r [] _ _ _ _ _ _ _ H7 (opt_in_flatten_va l) (opt_in_flatten_va r)
              (proj1 (proj2 (proj2 (proj2 (proj2 H7))))) E8) as [H8 _].
  pose proof (add_star_N [] _ _ _ _ _ _ _ H7 N7 E8) as N8.
  destruct (add_star l r (m_xvk_l st8) (m_xvk_r st8) (varkwargs l) (varkwargs r) st8) as [vk st9] eqn:E9.
  pose proof (add_star_N _ _ _ _ _ _ _ _ H8 N8 E9) as N9.
  inversion E; subst. clear E. cbn [ssrc]. intros x Hx. apply N9.
  unfold flatten in Hx. cbn [posargs pokargs varargs kwoargs varkwargs] in Hx. rewrite !cntn_app in Hx.
  unfold cnt_out. rewrite !cnt_app, !cnt_names. cbn [cnt filter length]. lia.
Qed.
End Shape.

(* ---- merge [a; b] ---- *)
Lemma nodup_app_intro {A} (a b : list A) :
  NoDup a -> NoDup b -> (forall x, In x a -> ~ In x b) -> NoDup (a ++ b).
Proof.
  induction a as [|x a IH]; intros Ha Hb Hd; [exact Hb|]. cbn [app]. inversion Ha as [|? ? Hx Ha']; subst.
  constructor.
  - intros Hin. apply in_app_or in Hin. destruct Hin as [Hin|Hin]; [exact (Hx Hin) | exact (Hd x (or_introl eq_refl) Hin)].
  - apply IH; [exact Ha' | exact Hb | intros y Hy; apply Hd; right; exact Hy].
Qed.

(* C08: as a list, the provenance of every parameter of merge [a; b] is one of
   a's list, b's list, or their concatenation in one of the two orders *)
Theorem merge2_src_shape a b r x :
  merge [a; b] = Ok r -> valid_sig (params a) = true -> valid_sig (params b) = true ->
  src_get (srcs r) x = [] \/
  src_get (srcs r) x = src_get (srcs a) x \/
  src_get (srcs r) x = src_get (srcs b) x \/
  src_get (srcs r) x = src_get (srcs a) x ++ src_get (srcs b) x \/
  src_get (srcs r) x = src_get (srcs b) x ++ src_get (srcs a) x.
Proof.
  cbn [merge merge_steps]. intros E Va Vb.
  apply bind_ok in E. destruct E as [acc [E1 E2]].
  apply bind_ok in E1. destruct E1 as [acc1 [E0 E1]]. apply to_incompatible_ok in E0.
  inversion E1; subst. clear E1.
  pose proof (apply_params_valid _ _ _ E2) as Hval.
  destruct (apply_params_fields _ _ _ E2) as [Ep Es]. rewrite Ep in Hval. rewrite Es.
  pose proof (merger_shape (sort_params a) (sort_params b) (sort_params_nodup a Va) (sort_params_nodup b Vb)
                acc E0 x (nodup_cntn _ x (validate_nodup _ Hval))) as H.
  unfold shape, shape1, sside in H. cbn [my] in H. rewrite !sort_params_ssrc in H. exact H.
Qed.

(* C08_nodup_partial: duplicate-free as soon as the operands' lists for the
   name are duplicate-free and share no callable *)
Theorem merge2_nodup_partial a b r x :
  merge [a; b] = Ok r -> valid_sig (params a) = true -> valid_sig (params b) = true ->
  NoDup (src_get (srcs a) x) -> NoDup (src_get (srcs b) x) ->
  (forall f, In f (src_get (srcs a) x) -> ~ In f (src_get (srcs b) x)) ->
  NoDup (src_get (srcs r) x).
Proof.
  intros E Va Vb Na Nb Hd.
  destruct (merge2_src_shape a b r x E Va Vb) as [H|[H|[H|[H|H]]]]; rewrite H.
  - constructor.
  - exact Na.
  - exact Nb.
  - apply nodup_app_intro; assumption.
  - apply nodup_app_intro; [exact Nb | exact Na |]. intros f Hb Ha. exact (Hd f Ha Hb).
Qed.

Example merge2_nodup_partial_sat :
  exists r, merge [dsig 100 [bp 1 PO; bp 2 PK; bp 9 VP; bp 10 VK]; dsig 101 [bp 1 PK; bp 2 PK; bp 4 KO]] = Ok r /\
            srcs r = [(1, [100; 101]); (2, [100; 101]); (4, [101])].
Proof. eexists. split; vm_compute; reflexivity. Qed.

Print Assumptions merger_shape.
Print Assumptions merge2_src_shape.
Print Assumptions merge2_nodup_partial.
Print Assumptions merge2_nodup_partial_sat.
