(* ModifiersForms.v — C12: closed form of the start= / end= selection sets. *)
From Coq Require Import List NArith Bool Arith Lia Permutation.
From Sigtools.Model Require Import Base Bind Algebra Modifiers.
From Sigtools.Proofs Require Import Modifiers ModifiersFull.
Import ListNotations.

(* names of the positional-or-keyword parameters, in order *)
Definition pk_names (ps : list param) : list name := map pname (filter (is_kind PK) ps).

(* the suffix of l that starts at s / the prefix of l that ends with e *)
Fixpoint from_name (s : name) (l : list name) : list name :=
  match l with
  | [] => []
  | x :: l' => if N.eqb x s then x :: l' else from_name s l'
  end.
Fixpoint upto_name (e : name) (l : list name) : list name :=
  match l with
  | [] => []
  | x :: l' => x :: (if N.eqb x e then [] else upto_name e l')
  end.

(* set(names0) extended by the names l, in order *)
Definition extend (names0 l : list name) : list name :=
  let acc0 := set_union [] names0 in acc0 ++ filter (fun x => negb (mem x acc0)) l.

Definition start_sel (ps : list param) (s : name) (names0 : list name) : list name :=
  extend names0 (from_name s (pk_names ps)).
Definition end_sel (ps : list param) (e : name) (names0 : list name) : list name :=
  extend names0 (upto_name e (pk_names ps)).


(* ------------------------------------------------------------------ set_add folded over distinct names *)
Definition add_all (l acc : list name) : list name := fold_left (fun a x => set_add x a) l acc.

Lemma add_all_closed l : forall acc,
  NoDup l -> add_all l acc = acc ++ filter (fun x => negb (mem x acc)) l.
Proof.
  unfold add_all. induction l as [|x l IH]; intros acc Hnd; simpl.
  - rewrite app_nil_r. reflexivity.
  - inversion Hnd as [|y l' Hnotin Hnd']; subst. unfold set_add at 2.
    destruct (mem x acc) eqn:Em; simpl.
    + apply IH. exact Hnd'.
    + rewrite IH by exact Hnd'. rewrite <- app_assoc. simpl. f_equal. f_equal.
      apply filter_ext_in'. intros y Hy. rewrite mem_app. simpl. rewrite orb_false_r.
      destruct (N.eqb y x) eqn:E; [|rewrite orb_false_r; reflexivity].
      apply N.eqb_eq in E. subst y. contradiction.
Qed.

Lemma from_name_incl s l x : In x (from_name s l) -> In x l.
Proof.
  induction l as [|y l IH]; simpl; auto. destruct (N.eqb y s); simpl; auto.
Qed.
Lemma upto_name_incl e l x : In x (upto_name e l) -> In x l.
Proof.
  induction l as [|y l IH]; simpl; auto. intros [H|H]; auto.
  destruct (N.eqb y e); [destruct H | auto].
Qed.
Lemma from_name_nodup s l : NoDup l -> NoDup (from_name s l).
Proof.
  induction l as [|y l IH]; intros H; simpl; auto. inversion H; subst.
  destruct (N.eqb y s); auto.
Qed.
Lemma upto_name_nodup e l : NoDup l -> NoDup (upto_name e l).
Proof.
  induction l as [|y l IH]; intros H; simpl; auto. inversion H; subst. constructor.
  - intro Hin. destruct (N.eqb y e); [destruct Hin|]. apply H2. eapply upto_name_incl; eauto.
  - destruct (N.eqb y e); [constructor | auto].
Qed.
Lemma from_name_mem s l : mem s l = true -> In s (from_name s l).
Proof.
  induction l as [|y l IH]; simpl; [discriminate|].
  rewrite N.eqb_sym. destruct (N.eqb y s) eqn:E; simpl; auto.
  apply N.eqb_eq in E. left; exact E.
Qed.
Lemma upto_name_mem e l : mem e l = true -> In e (upto_name e l).
Proof.
  induction l as [|y l IH]; simpl; [discriminate|].
  rewrite N.eqb_sym. destruct (N.eqb y e) eqn:E; simpl; auto.
  apply N.eqb_eq in E. left; exact E.
Qed.

Lemma pk_names_nodup ps : NoDup (names_of ps) -> NoDup (pk_names ps).
Proof.
  unfold pk_names, names_of. induction ps as [|p ps IH]; intros H; simpl; [constructor|].
  inversion H; subst. destruct (is_kind PK p); simpl; auto. constructor; auto.
  intro Hin. apply H2. apply in_map_iff in Hin. destruct Hin as (q & E & Hq).
  apply filter_In in Hq. rewrite <- E. apply in_map. tauto.
Qed.

(* ------------------------------------------------------------------ the two loops *)
Lemma start_loop_break rest s : no_positional rest ->
  forall found acc, start_loop rest s found acc = (found, acc).
Proof.
  intros H found acc. destruct rest as [|r rest]; auto.
  specialize (H r (or_introl eq_refl)). unfold is_positional in H. simpl.
  destruct (pkind r); try discriminate; reflexivity.
Qed.
Lemma end_loop_break rest e : no_positional rest ->
  forall found acc, end_loop rest e found acc = (found, acc).
Proof.
  intros H found acc. destruct rest as [|r rest]; auto.
  specialize (H r (or_introl eq_refl)). unfold is_positional in H. simpl.
  destruct (pkind r); try discriminate; reflexivity.
Qed.

Lemma pk_names_app a b : pk_names (a ++ b) = pk_names a ++ pk_names b.
Proof. unfold pk_names. rewrite filter_app, map_app. reflexivity. Qed.
Lemma pk_names_nonpos rest : no_positional rest -> pk_names rest = [].
Proof.
  unfold pk_names. intros H. rewrite filter_none; auto.
  intros x Hx. apply nonpositional_notPK. apply H. exact Hx.
Qed.

Lemma start_loop_spec pos rest s : forallb is_positional pos = true -> no_positional rest ->
  forall found acc,
  start_loop (pos ++ rest) s found acc =
  (found || mem s (pk_names pos),
   add_all (if found then pk_names pos else from_name s (pk_names pos)) acc).
Proof.
  intros Hpos Hrest. induction pos as [|p pos IH]; intros found acc.
  - simpl. rewrite (start_loop_break rest s Hrest). rewrite orb_false_r.
    destruct found; reflexivity.
  - simpl in Hpos. apply andb_true_iff in Hpos. destruct Hpos as [Hp Hpos].
    specialize (IH Hpos). cbn [app start_loop].
    assert (Hpkn : pk_names (p :: pos) = if is_kind PK p then pname p :: pk_names pos else pk_names pos).
    { unfold pk_names. simpl. destruct (is_kind PK p); reflexivity. }
    rewrite Hpkn. unfold is_kind, kind_eqb. unfold is_positional in Hp.
    destruct (pkind p) eqn:Ek; try discriminate; cbn [kind_rank Nat.eqb].
    + apply IH.
    + cbn [mem from_name]. rewrite (N.eqb_sym s (pname p)).
      destruct found; cbn [orb].
      * rewrite IH. reflexivity.
      * destruct (N.eqb (pname p) s) eqn:E; cbn [orb]; rewrite IH; reflexivity.
Qed.

Lemma end_loop_spec pos rest e : forallb is_positional pos = true -> no_positional rest ->
  forall found acc,
  end_loop (pos ++ rest) e found acc =
  (found || mem e (pk_names pos),
   add_all (if found then [] else upto_name e (pk_names pos)) acc).
Proof.
  intros Hpos Hrest. induction pos as [|p pos IH]; intros found acc.
  - simpl. rewrite (end_loop_break rest e Hrest). rewrite orb_false_r.
    destruct found; reflexivity.
  - simpl in Hpos. apply andb_true_iff in Hpos. destruct Hpos as [Hp Hpos].
    specialize (IH Hpos). cbn [app end_loop].
    assert (Hpkn : pk_names (p :: pos) = if is_kind PK p then pname p :: pk_names pos else pk_names pos).
    { unfold pk_names. simpl. destruct (is_kind PK p); reflexivity. }
    rewrite Hpkn. unfold is_kind, kind_eqb. unfold is_positional in Hp.
    destruct (pkind p) eqn:Ek; try discriminate; cbn [kind_rank Nat.eqb].
    + apply IH.
    + cbn [mem upto_name]. rewrite (N.eqb_sym e (pname p)).
      destruct found; cbn [orb].
      * rewrite IH. reflexivity.
      * destruct (N.eqb (pname p) e) eqn:E; cbn [orb]; rewrite IH; reflexivity.
Qed.

(* ------------------------------------------------------------------ closed forms of the selections *)
Lemma valid_pos_rest ps : valid_sig ps = true ->
  exists pos rest, ps = pos ++ rest /\ forallb is_positional pos = true /\ no_positional rest /\
                   pk_names ps = pk_names pos /\ NoDup (pk_names ps).
Proof.
  intros Hv. apply valid_sig_parts in Hv. destruct Hv as [Hval _].
  destruct (validate_aux_nodup _ _ _ _ Hval) as [Hnd _].
  destruct (validate_aux_pos_prefix _ _ _ _ Hval) as (pos & rest & -> & Hpos & Hrest).
  exists pos, rest. repeat split; auto.
  - rewrite pk_names_app, (pk_names_nonpos rest Hrest), app_nil_r. reflexivity.
  - apply pk_names_nodup. exact Hnd.
Qed.

(* kwoargs(start=s, *names0): the regular parameters from s on, added to names0;
   ValueError iff s is not the name of a regular parameter *)
Theorem C12_start_names ps s names0 :
  valid_sig ps = true ->
  kwoargs_start ps s names0 =
  if mem s (pk_names ps) then Ok (start_sel ps s names0) else Err ValueErr.
Proof.
  intros Hv. destruct (valid_pos_rest ps Hv) as (pos & rest & Hps & Hpos & Hrest & Hpk & Hnd).
  unfold kwoargs_start, start_sel, extend. rewrite Hpk in *. rewrite Hps at 1.
  rewrite (start_loop_spec pos rest s Hpos Hrest). cbn [orb].
  destruct (mem s (pk_names pos)); [|reflexivity].
  rewrite add_all_closed by (apply from_name_nodup; exact Hnd). reflexivity.
Qed.

(* posoargs(end=e, *names0): the regular parameters up to and including e, added
   to names0; ValueError iff e is not the name of a regular parameter *)
Theorem C12_end_names ps e names0 :
  valid_sig ps = true ->
  posoargs_end ps e names0 =
  if mem e (pk_names ps) then Ok (end_sel ps e names0) else Err ValueErr.
Proof.
  intros Hv. destruct (valid_pos_rest ps Hv) as (pos & rest & Hps & Hpos & Hrest & Hpk & Hnd).
  unfold posoargs_end, end_sel, extend. rewrite Hpk in *. rewrite Hps at 1.
  rewrite (end_loop_spec pos rest e Hpos Hrest). cbn [orb].
  destruct (mem e (pk_names pos)); [|reflexivity].
  rewrite add_all_closed by (apply upto_name_nodup; exact Hnd). reflexivity.
Qed.

Theorem C12_select_start ps s names0 :
  valid_sig ps = true ->
  select ps (FStart s names0) =
  if mem s (pk_names ps) then Ok ([], start_sel ps s names0) else Err ValueErr.
Proof.
  intros Hv. cbn [select]. rewrite (C12_start_names ps s names0 Hv).
  destruct (mem s (pk_names ps)); reflexivity.
Qed.

Theorem C12_select_end ps e names0 :
  valid_sig ps = true ->
  select ps (FEnd e names0) =
  if mem e (pk_names ps) then Ok (end_sel ps e names0, []) else Err ValueErr.
Proof.
  intros Hv. cbn [select]. rewrite (C12_end_names ps e names0 Hv).
  destruct (mem e (pk_names ps)); reflexivity.
Qed.

(* membership in the selections *)
Lemma mem_filter_notin x acc l : mem x (acc ++ filter (fun y => negb (mem y acc)) l) = mem x acc || mem x l.
Proof.
  rewrite mem_app. destruct (mem x acc) eqn:Ea; simpl; auto.
  induction l as [|y l IH]; simpl; auto.
  destruct (mem y acc) eqn:Ey; simpl.
  - rewrite IH. destruct (N.eqb x y) eqn:E; auto. apply N.eqb_eq in E. subst. congruence.
  - rewrite IH. reflexivity.
Qed.

Lemma mem_set_add x y s : mem x (set_add y s) = N.eqb x y || mem x s.
Proof.
  unfold set_add. destruct (mem y s) eqn:E.
  - destruct (N.eqb x y) eqn:E2; auto. apply N.eqb_eq in E2. subst. simpl. exact E.
  - rewrite mem_app. simpl. rewrite orb_false_r, orb_comm. reflexivity.
Qed.

Lemma mem_set_union_nil x l : mem x (set_union [] l) = mem x l.
Proof.
  unfold set_union. assert (H : forall acc, mem x (fold_left (fun s y => set_add y s) l acc) = mem x acc || mem x l).
  { induction l as [|y l IH]; intros acc; simpl; [rewrite orb_false_r; reflexivity|].
    rewrite IH, mem_set_add. destruct (N.eqb x y), (mem x acc), (mem x l); reflexivity. }
  rewrite H. reflexivity.
Qed.

Theorem C12_start_sel_mem ps s names0 x :
  mem x (start_sel ps s names0) = mem x names0 || mem x (from_name s (pk_names ps)).
Proof. unfold start_sel, extend. rewrite mem_filter_notin, mem_set_union_nil. reflexivity. Qed.

Theorem C12_end_sel_mem ps e names0 x :
  mem x (end_sel ps e names0) = mem x names0 || mem x (upto_name e (pk_names ps)).
Proof. unfold end_sel, extend. rewrite mem_filter_notin, mem_set_union_nil. reflexivity. Qed.

(* ------------------------------------------------------------------ C12_sig for the start= / end= forms *)
Theorem C12_sig_start ps s names0 :
  valid_sig ps = true ->
  decorate ps (FStart s names0) =
  if mem s (pk_names ps)
  then if admissible [] (start_sel ps s names0) ps
       then Ok (adv_spec [] (start_sel ps s names0) ps,
                kwopos_from [] (start_sel ps s names0) 0 ps, [])
       else Err ValueErr
  else Err ValueErr.
Proof.
  intros Hv. rewrite (C12_sig_decorate ps (FStart s names0) Hv), (C12_select_start ps s names0 Hv).
  destruct (mem s (pk_names ps)) eqn:Es; [|reflexivity].
  assert (Hin : mem s (start_sel ps s names0) = true).
  { rewrite C12_start_sel_mem. apply orb_true_iff. right. apply mem_In. apply from_name_mem. exact Es. }
  destruct (start_sel ps s names0) as [|y l]; [discriminate|]. reflexivity.
Qed.

Theorem C12_sig_end ps e names0 :
  valid_sig ps = true ->
  decorate ps (FEnd e names0) =
  if mem e (pk_names ps)
  then if admissible (end_sel ps e names0) [] ps
       then Ok (adv_spec (end_sel ps e names0) [] ps,
                kwopos_from (end_sel ps e names0) [] 0 ps, end_sel ps e names0)
       else Err ValueErr
  else Err ValueErr.
Proof.
  intros Hv. rewrite (C12_sig_decorate ps (FEnd e names0) Hv), (C12_select_end ps e names0 Hv).
  destruct (mem e (pk_names ps)) eqn:Es; [|reflexivity].
  assert (Hin : mem e (end_sel ps e names0) = true).
  { rewrite C12_end_sel_mem. apply orb_true_iff. right. apply mem_In. apply upto_name_mem. exact Es. }
  destruct (end_sel ps e names0) as [|y l]; [discriminate|]. reflexivity.
Qed.

(* ---- without extra names the selection is always admissible *)
Lemma filter_true {A} (l : list A) : filter (fun _ => true) l = l.
Proof. induction l as [|x l IH]; simpl; [|rewrite IH]; reflexivity. Qed.

Lemma extend_nil l : extend [] l = l.
Proof. unfold extend. simpl. apply filter_true. Qed.

Lemma pk_names_in ps x : In x (pk_names ps) -> exists p, In p ps /\ pname p = x /\ is_kind PK p = true.
Proof.
  unfold pk_names. intros H. apply in_map_iff in H. destruct H as (p & E & Hp).
  apply filter_In in Hp. exists p. tauto.
Qed.

Lemma named_is_PK ps (S : list name) p :
  NoDup (names_of ps) -> (forall x, In x S -> In x (pk_names ps)) ->
  In p ps -> mem (pname p) S = true -> is_kind PK p = true.
Proof.
  intros Hnd HS Hp Hm. apply mem_In in Hm. apply HS in Hm. apply pk_names_in in Hm.
  destruct Hm as (q & Hq & E & Hk). assert (q = p) by (apply (NoDup_names_inj ps); auto).
  subst q. exact Hk.
Qed.

Lemma pk_names_known ps x : In x (pk_names ps) -> mem x (names_of ps) = true.
Proof.
  intros H. apply pk_names_in in H. destruct H as (p & Hp & <- & _). apply mem_In. apply in_map. exact Hp.
Qed.

Lemma admissible_kwo_subset ps K :
  valid_sig ps = true -> (forall x, In x K -> In x (pk_names ps)) -> admissible [] K ps = true.
Proof.
  intros Hv HK. apply valid_sig_parts in Hv. destruct Hv as [Hval _].
  destruct (validate_aux_nodup _ _ _ _ Hval) as [Hnd _].
  unfold admissible. cbn [set_inter filter is_nil app andb]. rewrite po_prefix_nil, andb_true_r.
  apply andb_true_iff. split.
  - apply forallb_forall. intros x Hx. apply pk_names_known. auto.
  - apply forallb_forall. intros p Hp. unfold kind_sel_ok, named. cbn [mem orb andb].
    rewrite andb_false_r, orb_false_r.
    destruct (mem (pname p) K) eqn:Em; cbn [negb]; [|rewrite orb_true_r; reflexivity].
    rewrite (named_is_PK ps K p Hnd HK Hp Em). reflexivity.
Qed.

Lemma po_prefix_ext P P' K ps : forall found,
  (forall q, In q ps -> mem (pname q) P = mem (pname q) P') ->
  po_prefix_ok P K ps found = po_prefix_ok P' K ps found.
Proof.
  induction ps as [|p ps IH]; intros found H; [reflexivity|].
  cbn [po_prefix_ok]. rewrite <- (H p (or_introl eq_refl)).
  assert (H' : forall q, In q ps -> mem (pname q) P = mem (pname q) P') by (intros; apply H; right; auto).
  destruct (is_kind PK p); [|apply IH; auto].
  destruct (mem (pname p) P); [rewrite IH; auto|].
  destruct (mem (pname p) K); apply IH; auto.
Qed.

Lemma po_prefix_upto ps e :
  NoDup (names_of ps) -> po_prefix_ok (upto_name e (pk_names ps)) [] ps false = true.
Proof.
  induction ps as [|p ps IH]; intros Hnd; [reflexivity|].
  inversion Hnd as [|y l Hnotin Hnd']; subst.
  assert (Hpkn : pk_names (p :: ps) = if is_kind PK p then pname p :: pk_names ps else pk_names ps).
  { unfold pk_names. simpl. destruct (is_kind PK p); reflexivity. }
  rewrite Hpkn. cbn [po_prefix_ok]. destruct (is_kind PK p) eqn:Epk; [|apply IH; auto].
  cbn [upto_name mem]. rewrite N.eqb_refl. cbn [orb negb andb].
  rewrite (po_prefix_ext _ (if N.eqb (pname p) e then [] else upto_name e (pk_names ps))).
  - destruct (N.eqb (pname p) e); [apply po_prefix_nil | apply IH; auto].
  - intros q Hq. cbn [mem].
    assert (Hne : N.eqb (pname q) (pname p) = false).
    { destruct (N.eqb (pname q) (pname p)) eqn:E; auto. apply N.eqb_eq in E.
      exfalso. apply Hnotin. rewrite <- E. apply in_map. exact Hq. }
    rewrite Hne. reflexivity.
Qed.

Lemma set_inter_nil_r (a : list name) : set_inter a [] = [].
Proof. unfold set_inter. apply filter_none. reflexivity. Qed.

Lemma admissible_upto ps e :
  valid_sig ps = true -> admissible (upto_name e (pk_names ps)) [] ps = true.
Proof.
  intros Hv. apply valid_sig_parts in Hv. destruct Hv as [Hval _].
  destruct (validate_aux_nodup _ _ _ _ Hval) as [Hnd _].
  assert (HS : forall x, In x (upto_name e (pk_names ps)) -> In x (pk_names ps))
    by (intros x; apply upto_name_incl).
  unfold admissible. rewrite set_inter_nil_r, app_nil_r, (po_prefix_upto ps e Hnd), andb_true_r.
  cbn [is_nil andb]. apply andb_true_iff. split.
  - apply forallb_forall. intros x Hx. apply pk_names_known. auto.
  - apply forallb_forall. intros p Hp. unfold kind_sel_ok, named. cbn [mem]. rewrite orb_false_r, andb_false_r, orb_false_r.
    destruct (mem (pname p) (upto_name e (pk_names ps))) eqn:Em; cbn [negb].
    + rewrite (named_is_PK ps _ p Hnd HS Hp Em). reflexivity.
    + rewrite orb_true_r. reflexivity.
Qed.

(* kwoargs(start=s): ValueError iff s is not a regular parameter; otherwise
   exactly the regular parameters from s on become keyword-only *)
Theorem C12_sig_start_plain ps s :
  valid_sig ps = true ->
  decorate ps (FStart s []) =
  if mem s (pk_names ps)
  then Ok (adv_spec [] (from_name s (pk_names ps)) ps,
           kwopos_from [] (from_name s (pk_names ps)) 0 ps, [])
  else Err ValueErr.
Proof.
  intros Hv. rewrite (C12_sig_start ps s [] Hv). unfold start_sel. rewrite extend_nil.
  rewrite (admissible_kwo_subset ps _ Hv (fun x => from_name_incl s _ x)). reflexivity.
Qed.

(* posoargs(end=e): ValueError iff e is not a regular parameter; otherwise
   exactly the regular parameters up to and including e become positional-only *)
Theorem C12_sig_end_plain ps e :
  valid_sig ps = true ->
  decorate ps (FEnd e []) =
  if mem e (pk_names ps)
  then Ok (adv_spec (upto_name e (pk_names ps)) [] ps,
           kwopos_from (upto_name e (pk_names ps)) [] 0 ps, upto_name e (pk_names ps))
  else Err ValueErr.
Proof.
  intros Hv. rewrite (C12_sig_end ps e [] Hv). unfold end_sel. rewrite extend_nil.
  rewrite (admissible_upto ps e Hv). reflexivity.
Qed.

(* ------------------------------------------------------------------ the hypotheses are satisfiable *)
Definition exf_ps : list param :=
  [mkParam 5 PO None None UEmpty; mkParam 1 PK None None UEmpty; mkParam 2 PK (Some 102) None UEmpty;
   mkParam 3 PK (Some 103) None UEmpty; mkParam 9 VP None None UEmpty;
   mkParam 4 KO None None UEmpty; mkParam 10 VK None None UEmpty].

Example C12_forms_example :
  valid_sig exf_ps = true /\ pk_names exf_ps = [1; 2; 3] /\
  select exf_ps (FStart 2 [1; 1]) = Ok ([], [1; 2; 3]) /\
  select exf_ps (FStart 2 []) = Ok ([], [2; 3]) /\
  select exf_ps (FStart 5 []) = Err ValueErr /\
  select exf_ps (FEnd 2 [5]) = Ok ([5; 1; 2], []) /\
  select exf_ps (FEnd 4 []) = Err ValueErr /\
  decorate exf_ps (FEnd 2 []) =
  Ok ([mkParam 5 PO None None UEmpty; mkParam 1 PO None None UEmpty;
       mkParam 2 PO (Some 102) None UEmpty; mkParam 3 PK (Some 103) None UEmpty;
       mkParam 9 VP None None UEmpty; mkParam 4 KO None None UEmpty;
       mkParam 10 VK None None UEmpty], [], [1; 2]).
Proof. repeat split; vm_compute; reflexivity. Qed.

Print Assumptions C12_start_names.
Print Assumptions C12_end_names.
Print Assumptions C12_select_start.
Print Assumptions C12_select_end.
Print Assumptions C12_start_sel_mem.
Print Assumptions C12_end_sel_mem.
Print Assumptions C12_sig_start.
Print Assumptions C12_sig_end.
Print Assumptions C12_sig_start_plain.
Print Assumptions C12_sig_end_plain.
