(* RcValidN.v -- C15_rc_valid for any number of inputs: for valid, pairwise
   role-consistent inputs the n-ary merge never fails in its final validating
   constructor; the only failure is IncompatibleSignatures.

   Role consistency is not preserved by a merge step (RcValidBounded.v), so the
   fold carries a weaker relation [compatA acc d] between the accumulator and every
   input d still to come: shared positional names sit at the same index, a
   positional-or-keyword-kinded parameter of acc is positional-or-keyword in d, a
   keyword-only parameter of acc may be positional-or-keyword in d only beyond acc's
   positional parameters and when acc has no star-args (it was converted by an earlier
   step), stars keep to themselves.  [compatA] follows from role consistency for
   inputs, suffices for the constructor to accept the result of a step, and is
   preserved by a step. *)
From Sigtools.Model Require Import Base Bind Roles Algebra.
From Sigtools.Proofs Require Import SmallModel Basics MaskLaws MaskExact MergeNeutral Annot ValidateSpec RcValid FoldLaw.
From Coq Require Import Lia.

(* ================================================================== *)
(* 1. list helpers                                                     *)

Lemma in_skipn_nth {A} n : forall (l : list A) x,
  In x (skipn n l) -> exists i, (n <= i)%nat /\ nth_error l i = Some x.
Proof.
  induction n as [|n IH]; intros l x H.
  - cbn in H. apply In_nth_error in H. destruct H as [i Hi]. exists i. split; [lia|exact Hi].
  - destruct l as [|y l]; [destruct H|]. cbn [skipn] in H. destruct (IH l x H) as [i [Hi Hn]].
    exists (S i). split; [lia|exact Hn].
Qed.

Lemma nth_in_skipn {A} n : forall (l : list A) i x,
  nth_error l i = Some x -> (n <= i)%nat -> In x (skipn n l).
Proof.
  induction n as [|n IH]; intros l i x H Hn.
  - cbn. eapply nth_error_In. exact H.
  - destruct l as [|y l]; [destruct i; discriminate|]. destruct i as [|i]; [lia|]. cbn [skipn nth_error] in *.
    apply (IH l i x H). lia.
Qed.

Lemma nth_suffix {A} (pre : list A) a ra : nth_error (pre ++ a :: ra) (length pre) = Some a.
Proof. rewrite nth_error_app2 by lia. rewrite Nat.sub_diag. reflexivity. Qed.

Lemma nodup_nth_inj ps i j p q :
  NoDup (names_of ps) -> nth_error ps i = Some p -> nth_error ps j = Some q -> pname p = pname q -> i = j.
Proof.
  intros Hn Hp Hq E. rewrite NoDup_nth_error in Hn. apply Hn.
  - unfold names_of. rewrite map_length. apply nth_error_Some. congruence.
  - unfold names_of. rewrite !nth_error_map, Hp, Hq. cbn. congruence.
Qed.

(* ================================================================== *)
(* 2. where the output comes from: an abstract invariant               *)

Section NAbstract.
(* PA / PB positional parameters of the two sides, POKL / POKR their positional-or-
   keyword buckets, KL / KR their keyword-only names, val / var their star-args *)
Variables (PA PB POKL POKR : list param) (KL KR : list name) (val var : option param).

(* a keyword-only output converted from an unbalanced positional-or-keyword parameter *)
Definition convName (PA' PB' POK : list param) (vo : option param) (x : name) : Prop :=
  vo = None /\ exists e, In e (skipn (length PB') PA') /\ In e POK /\ pname e = x.

Record NInv (on kn : list name) (ra rb : list param) : Prop := {
  n_faith : forall i x, nth_error on i = Some x ->
              (exists a, nth_error PA i = Some a /\ pname a = x) \/
              (exists b, nth_error PB i = Some b /\ pname b = x);
  n_sufl : exists pre, PA = pre ++ ra;
  n_sufr : exists pre, PB = pre ++ rb;
  n_lenl : ra = [] \/ (length on + length ra = length PA)%nat \/ (rb = [] /\ var = None);
  n_lenr : rb = [] \/ (length on + length rb = length PB)%nat \/ (ra = [] /\ val = None);
  n_lockl : ra = [] \/ (length PB + length ra <= length PA + length rb)%nat;
  n_lockr : rb = [] \/ (length PA + length rb <= length PB + length ra)%nat;
  n_bndr : var = None -> (length on + length rb <= length PB)%nat;
  n_bndl : val = None -> (length on + length ra <= length PA)%nat;
  n_kwo : forall x, In x kn ->
            In x KL \/ In x KR \/ convName PA PB POKL var x \/ convName PB PA POKR val x
}.
End NAbstract.

Lemma NInv_sym PA PB POKL POKR KL KR val var on kn ra rb :
  NInv PA PB POKL POKR KL KR val var on kn ra rb ->
  NInv PB PA POKR POKL KR KL var val on kn rb ra.
Proof.
  intros []. constructor; auto.
  - intros i x Hx. destruct (n_faith0 i x Hx); auto.
  - intros x Hx. destruct (n_kwo0 x Hx) as [H|[H|[H|H]]]; auto.
Qed.

Section NSteps.
Variables (PA PB POKL POKR : list param) (KL KR : list name) (val var : option param).
Notation NI := (NInv PA PB POKL POKR KL KR val var).

Lemma faith_snoc_l on a ra pre :
  (forall i x, nth_error on i = Some x ->
     (exists a, nth_error PA i = Some a /\ pname a = x) \/ (exists b, nth_error PB i = Some b /\ pname b = x)) ->
  PA = pre ++ a :: ra -> length on = length pre ->
  forall i x, nth_error (on ++ [pname a]) i = Some x ->
     (exists a, nth_error PA i = Some a /\ pname a = x) \/ (exists b, nth_error PB i = Some b /\ pname b = x).
Proof.
  intros H E L i x Hx. destruct (Nat.lt_ge_cases i (length on)) as [Hi|Hi].
  - rewrite nth_error_app1 in Hx by exact Hi. apply H. exact Hx.
  - rewrite nth_error_app2 in Hx by exact Hi. destruct (i - length on)%nat as [|k] eqn:Ek; cbn in Hx.
    + inversion Hx; subst x. left. exists a. split; [|reflexivity].
      assert (i = length pre) by lia. subst i. rewrite E. apply nth_suffix.
    + destruct k; discriminate.
Qed.

Lemma faith_snoc_r on b rb pre :
  (forall i x, nth_error on i = Some x ->
     (exists a, nth_error PA i = Some a /\ pname a = x) \/ (exists b, nth_error PB i = Some b /\ pname b = x)) ->
  PB = pre ++ b :: rb -> length on = length pre ->
  forall i x, nth_error (on ++ [pname b]) i = Some x ->
     (exists a, nth_error PA i = Some a /\ pname a = x) \/ (exists b, nth_error PB i = Some b /\ pname b = x).
Proof.
  intros H E L i x Hx. destruct (Nat.lt_ge_cases i (length on)) as [Hi|Hi].
  - rewrite nth_error_app1 in Hx by exact Hi. apply H. exact Hx.
  - rewrite nth_error_app2 in Hx by exact Hi. destruct (i - length on)%nat as [|k] eqn:Ek; cbn in Hx.
    + inversion Hx; subst x. right. exists b. split; [|reflexivity].
      assert (i = length pre) by lia. subst i. rewrite E. apply nth_suffix.
    + destruct k; discriminate.
Qed.

(* both heads consumed, one output named after the left (resp. right) head *)
Lemma nstep_pair on kn a ra b rb x on' :
  NI on kn (a :: ra) (b :: rb) -> (x = pname a \/ x = pname b) -> on' = on ++ [x] -> NI on' kn ra rb.
Proof.
  intros [] Hx ->. destruct n_sufl0 as [pa Ea]. destruct n_sufr0 as [pb Eb].
  assert (La : (length on + S (length ra) = length PA)%nat).
  { destruct n_lenl0 as [X|[X|[X _]]]; [discriminate|exact X|discriminate]. }
  assert (Lb : (length on + S (length rb) = length PB)%nat).
  { destruct n_lenr0 as [X|[X|[X _]]]; [discriminate|exact X|discriminate]. }
  assert (Lpa : length on = length pa) by (rewrite Ea, app_length in La; cbn in La; lia).
  assert (Lpb : length on = length pb) by (rewrite Eb, app_length in Lb; cbn in Lb; lia).
  cbn [length] in *.
  constructor; rewrite ?app_length; cbn [length]; auto.
  - destruct Hx as [-> | ->]; [eapply faith_snoc_l|eapply faith_snoc_r]; eauto.
  - exists (pa ++ [a]). rewrite <- app_assoc. exact Ea.
  - exists (pb ++ [b]). rewrite <- app_assoc. exact Eb.
  - right. left. lia.
  - right. left. lia.
  - destruct n_lockl0 as [X|X]; [discriminate|]. right. lia.
  - destruct n_lockr0 as [X|X]; [discriminate|]. right. lia.
  - intros Hv. specialize (n_bndr0 Hv). lia.
  - intros Hv. specialize (n_bndl0 Hv). lia.
Qed.

(* the left head is kept alone: the right side has star-args *)
Lemma nstep_keep on kn a ra on' :
  NI on kn (a :: ra) [] -> var <> None -> on' = on ++ [pname a] -> NI on' kn ra [].
Proof.
  intros [] Hv ->. destruct n_sufl0 as [pa Ea].
  assert (La : (length on + S (length ra) = length PA)%nat).
  { destruct n_lenl0 as [X|[X|[_ X]]]; [discriminate|exact X|contradiction]. }
  assert (Lpa : length on = length pa) by (rewrite Ea, app_length in La; cbn in La; lia).
  cbn [length] in *.
  constructor; rewrite ?app_length; cbn [length]; auto.
  - eapply faith_snoc_l; eauto.
  - exists (pa ++ [a]). rewrite <- app_assoc. exact Ea.
  - right. left. lia.
  - destruct n_lockl0 as [X|X]; [discriminate|]. right. lia.
  - intros Hv'. contradiction.
  - intros Hv'. specialize (n_bndl0 Hv'). lia.
Qed.

(* the left head is dropped, or becomes a keyword-only output: no star-args on the right *)
Lemma nstep_drop on kn kn' a ra :
  NI on kn (a :: ra) [] -> var = None ->
  (forall y, In y kn' -> In y kn \/ (y = pname a /\ In a POKL)) ->
  NI on kn' ra [].
Proof.
  intros [] Hv Hk. destruct n_sufl0 as [pa Ea]. cbn [length] in *.
  constructor; auto.
  - exists (pa ++ [a]). rewrite <- app_assoc. exact Ea.
  - destruct n_lockl0 as [X|X]; [discriminate|]. right. lia.
  - intros Hv'. specialize (n_bndl0 Hv'). lia.
  - intros y Hy. destruct (Hk y Hy) as [Hy'|[-> Hp]]; [apply n_kwo0; exact Hy'|].
    right. right. left. split; [exact Hv|]. exists a. split; [|split; [exact Hp|reflexivity]].
    destruct n_lockl0 as [X|X]; [discriminate|]. cbn [length] in X.
    apply (nth_in_skipn (length PB) PA (length pa)); [rewrite Ea; apply nth_suffix|].
    rewrite Ea, app_length in X. cbn [length] in X. lia.
Qed.
End NSteps.

(* ================================================================== *)
(* 3. the origin invariant on merger states                            *)

Lemma isSome_false {A} (o : option A) : isSome o = false -> o = None.
Proof. destruct o; [discriminate|reflexivity]. Qed.
Lemma isSome_true {A} (o : option A) : isSome o = true -> o <> None.
Proof. destruct o; [discriminate|discriminate]. Qed.

Lemma find_param_in x ps q : find_param x ps = Some q -> In q ps /\ pname q = x.
Proof.
  induction ps as [|p ps IH]; cbn [find_param]; [discriminate|].
  destruct (N.eqb_spec x (pname p)) as [E|_].
  - intros H. inversion H; subst q. split; [left; reflexivity|symmetry; exact E].
  - intros H. destruct (IH H). split; [right; assumption|assumption].
Qed.

Ltac prj1 :=
  unfold pn, pd, kn, outs, names_of;
  cbn [m_pos m_pok m_kwo set_pos set_pok set_kwo set_src add_src1 add_src2 excl_va excl_vk set_unm].
Ltac prj2 :=
  rewrite ?app_nil_r, ?map_app, ?pnames_set_kind, ?defs_set_kind; cbn [map];
  rewrite ?has_def_set_kind, ?has_def_concile; cbn [pname set_kind concile];
  rewrite <- ?app_assoc, ?app_nil_r; try reflexivity.
Ltac prj Hk := prj1; rewrite ?Hk; prj2.
Ltac prj0 := prj1; prj2.

Section NWalk.
Variables l r : sorted.
Let PA := posargs l ++ pokargs l.
Let PB := posargs r ++ pokargs r.

Definition NIc (st : mstate) (ra rb : list param) : Prop :=
  NInv PA PB (pokargs l) (pokargs r) (names_of (kwoargs l)) (names_of (kwoargs r))
       (varargs l) (varargs r) (pn st) (kn st) ra rb.
Definition NIs (s : side) (st : mstate) (mine oth : list param) : Prop :=
  match s with L => NIc st mine oth | R => NIc st oth mine end.

Lemma NIs_pair s st st' a x b y :
  NIs s st (a :: x) (b :: y) -> pn st' = pn st ++ [pname a] -> kn st' = kn st -> NIs s st' x y.
Proof.
  unfold NIs, NIc. intros H E1 E2. rewrite E2. destruct s.
  - eapply nstep_pair; [exact H|left; reflexivity|exact E1].
  - eapply nstep_pair; [exact H|right; reflexivity|exact E1].
Qed.

Lemma NIs_keep s st st' a x :
  NIs s st (a :: x) [] -> isSome (varargs (other l r s)) = true ->
  pn st' = pn st ++ [pname a] -> kn st' = kn st -> NIs s st' x [].
Proof.
  unfold NIs, NIc. intros H G E1 E2. rewrite E2. apply isSome_true in G. destruct s; cbn [other] in G.
  - eapply nstep_keep; [exact H|exact G|exact E1].
  - apply NInv_sym. eapply nstep_keep; [apply NInv_sym; exact H|exact G|exact E1].
Qed.

Lemma NIs_drop s st st' a x :
  NIs s st (a :: x) [] -> varargs (other l r s) = None -> pn st' = pn st ->
  (forall y, In y (kn st') -> In y (kn st) \/ (y = pname a /\ In a (pokargs (my l r s)))) ->
  NIs s st' x [].
Proof.
  unfold NIs, NIc. intros H G E1 E2. rewrite E1. destruct s; cbn [other my] in *.
  - eapply nstep_drop; [exact H|exact G|exact E2].
  - apply NInv_sym. eapply nstep_drop; [apply NInv_sym; exact H|exact G|exact E2].
Qed.

Lemma N_unb_pos1 s e x y st st' y' :
  m_pok st = [] -> NIs s st (e :: x) y ->
  unb_pos1 l r s e y st = Ok (st', y') -> NIs s st' x y'.
Proof.
  intros Hk H E. unfold unb_pos1 in E. destruct y as [|o conv'].
  - destruct (isSome (varargs (other l r s))) eqn:G.
    + inversion E; subst. eapply NIs_keep; [exact H|exact G| | ]; destruct s; prj Hk.
    + destruct (negb (has_def e)); [discriminate|]. inversion E; subst.
      eapply NIs_drop; [exact H|apply isSome_false; exact G|reflexivity|]. intros z Hz. left. exact Hz.
  - inversion E; subst.
    eapply NIs_pair; [exact H| | ]; destruct (N.eqb (pname o) (pname e)); destruct s; prj Hk.
Qed.

Lemma N_unb_pos_all s ps : forall x y st st' y',
  m_pok st = [] -> NIs s st (ps ++ x) y ->
  unb_pos_all l r s ps y st = Ok (st', y') -> NIs s st' x y'.
Proof.
  induction ps as [|p ps IH]; intros x y st st' y' Hk H E; cbn [unb_pos_all] in E.
  - inversion E; subst. exact H.
  - apply bind_ok in E. destruct E as [[st1 y1] [E1 E2]]. cbn [fst snd] in E2.
    pose proof (N_unb_pos1 s p (ps ++ x) y st st1 y1 Hk H E1) as H1.
    assert (Hk1 : m_pok st1 = []).
    { clear -Hk E1. unfold unb_pos1 in E1. destruct y as [|o c].
      - destruct (isSome (varargs (other l r s))); [inversion E1; subst; destruct s; exact Hk|].
        destruct (negb (has_def p)); [discriminate|]. inversion E1; subst. exact Hk.
      - inversion E1; subst. destruct (N.eqb (pname o) (pname p)); destruct s; exact Hk. }
    exact (IH x y1 st1 st' y' Hk1 H1 E2).
Qed.

Lemma N_zip_pos lp : forall rp il ir st st' il' ir',
  m_pok st = [] -> NIc st (lp ++ il) (rp ++ ir) ->
  zip_pos l r lp rp il ir st = Ok (st', il', ir') -> NIc st' il' ir'.
Proof.
  induction lp as [|a lp IH]; intros rp il ir st st' il' ir' Hk H E.
  - cbn [zip_pos] in E. apply bind_ok in E. destruct E as [[st1 y1] [E1 E2]]. cbn [fst snd] in E2.
    inversion E2; subst. exact (N_unb_pos_all R rp ir' il st st' il' Hk H E1).
  - destruct rp as [|b rp]; cbn [zip_pos] in E.
    + apply bind_ok in E. destruct E as [[st1 y1] [E1 E2]]. cbn [fst snd] in E2. inversion E2; subst.
      exact (N_unb_pos_all L (a :: lp) il' ir st st' ir' Hk H E1).
    + eapply IH; [| |exact E].
      * destruct (N.eqb (pname a) (pname b)); exact Hk.
      * eapply (NIs_pair L); [exact H| | ]; destruct (N.eqb (pname a) (pname b)); prj Hk.
Qed.

(* what the relation between the two operands must exclude / provide *)
Hypothesis c_pk' : forall p q, In p PA -> In q (kwoargs r) -> pname p <> pname q.
Hypothesis c_kp_va : forall p q, In p (kwoargs l) -> In q PB -> pname p = pname q -> varargs l = None.

Lemma N_unb_pok1 s e x st st' :
  KI l r st -> In e (pokargs (my l r s)) ->
  NIs s st (e :: x) [] -> unb_pok1 l r s e st = Ok st' -> NIs s st' x [].
Proof.
  intros HK He H E. unfold unb_pok1 in E.
  destruct (find_param (pname e) (unm st match s with L => R | R => L end)) as [q|] eqn:F.
  - apply find_param_in in F. destruct F as [Fq Nq]. destruct HK as [_ _ _ _ Klu Kru].
    destruct s; cbn [unm my other] in *.
    + exfalso. apply (c_pk' e q); [unfold PA; apply in_or_app; right; exact He|apply Kru; exact Fq|congruence].
    + assert (G : varargs l = None).
      { apply (c_kp_va q e); [apply Klu; exact Fq|unfold PB; apply in_or_app; right; exact He|exact Nq]. }
      inversion E; subst. eapply (NIs_drop R); [exact H|exact G|prj0|].
      intros z Hz. unfold kn in Hz. cbn [m_kwo add_src2 set_src set_kwo set_unm] in Hz.
      apply names_od_set in Hz. cbn [pname set_kind concile] in Hz. destruct Hz as [Hz| ->]; [left; exact Hz|right; auto].
  - destruct (isSome (varargs (other l r s))) eqn:Gva; destruct (isSome (varkwargs (other l r s))) eqn:Gvk; cbn [andb] in E.
    + inversion E; subst. eapply NIs_keep; [exact H|exact Gva| | ]; destruct s; prj0.
    + inversion E; subst. eapply NIs_keep; [exact H|exact Gva| | ]; destruct s; prj0.
    + inversion E; subst. eapply NIs_drop; [exact H|apply isSome_false; exact Gva|destruct s; prj0|].
      intros z Hz. assert (Hz' : In z (names_of (od_set (m_kwo st) (set_kind KO e)))) by (destruct s; exact Hz).
      apply names_od_set in Hz'. cbn [pname set_kind] in Hz'. destruct Hz' as [Hz'| ->]; [left; exact Hz'|right; auto].
    + destruct (negb (has_def e)); [discriminate|]. inversion E; subst.
      eapply NIs_drop; [exact H|apply isSome_false; exact Gva|reflexivity|]. intros z Hz. left. exact Hz.
Qed.

Lemma N_unb_pok_all s ps : forall st st',
  KI l r st -> Forall isPK ps -> incl ps (pokargs (my l r s)) ->
  NIs s st ps [] -> unb_pok_all l r s ps st = Ok st' -> NIs s st' [] [].
Proof.
  induction ps as [|p ps IH]; intros st st' HK HF Hi H E; cbn [unb_pok_all] in E.
  - inversion E; subst. exact H.
  - apply bind_ok in E. destruct E as [st1 [E1 E2]].
    assert (Hp : In p (pokargs (my l r s))) by (apply Hi; left; reflexivity).
    apply (IH st1 st'); [exact (K_unb_pok1 l r s p st st1 HK (Forall_inv HF) E1)|exact (Forall_inv_tail HF)| | |exact E2].
    + intros z Hz. apply Hi. right. exact Hz.
    + exact (N_unb_pok1 s p ps st st1 HK Hp H E1).
Qed.

Lemma N_zip_pok il : forall ir st st',
  KI l r st -> Forall isPK il -> Forall isPK ir -> incl il (pokargs l) -> incl ir (pokargs r) ->
  NIc st il ir -> zip_pok l r il ir st = Ok st' -> NIc st' [] [].
Proof.
  induction il as [|a il IH]; intros ir st st' HK Hl Hr Il Ir H E.
  - cbn [zip_pok] in E. exact (N_unb_pok_all R ir st st' HK Hr Ir H E).
  - destruct ir as [|b ir]; cbn [zip_pok] in E.
    + exact (N_unb_pok_all L (a :: il) st st' HK Hl Il H E).
    + eapply IH; [|exact (Forall_inv_tail Hl)|exact (Forall_inv_tail Hr)| | | |exact E].
      * destruct (N.eqb (pname a) (pname b)); unfold KI;
          cbn [m_pos m_pok m_kwo m_lunm m_runm set_pos set_pok set_kwo set_src add_src1 add_src2];
          [apply KIc_pok_snoc|apply KIc_pok_po]; try exact HK. exact (Forall_inv Hl).
      * intros z Hz. apply Il. right. exact Hz.
      * intros z Hz. apply Ir. right. exact Hz.
      * eapply (NIs_pair L); [exact H| | ]; destruct (N.eqb (pname a) (pname b)); prj0.
Qed.

(* the positional-or-keyword bucket only ever holds names of positional-or-keyword inputs *)
Definition MP (st : mstate) : Prop :=
  forall p, In p (m_pok st) -> In (pname p) (names_of (pokargs l ++ pokargs r)).

Lemma MP_snoc st c x (st' : mstate) :
  MP st -> In x (pokargs l ++ pokargs r) -> pname c = pname x ->
  (forall p, In p (m_pok st') -> (exists p0, In p0 (m_pok st) /\ pname p = pname p0) \/ pname p = pname c) -> MP st'.
Proof.
  intros H Hx Ec Hs p Hp. destruct (Hs p Hp) as [[p0 [H0 E0]]| ->].
  - rewrite E0. apply H. exact H0.
  - rewrite Ec. apply in_map. exact Hx.
Qed.

Lemma M_unb_pok1 s e st st' :
  MP st -> In e (pokargs (my l r s)) -> unb_pok1 l r s e st = Ok st' -> MP st'.
Proof.
  intros H He E. unfold unb_pok1 in E.
  assert (Hx : In e (pokargs l ++ pokargs r)) by (apply in_or_app; destruct s; [left|right]; exact He).
  destruct (find_param (pname e) (unm st match s with L => R | R => L end)) as [q|].
  - inversion E; subst. destruct s; exact H.
  - destruct (isSome (varargs (other l r s)) && isSome (varkwargs (other l r s))).
    { inversion E; subst. apply (MP_snoc st e e _ H Hx eq_refl). intros p Hp.
      assert (Hp' : In p (m_pok st ++ [e])) by (destruct s; exact Hp).
      apply in_app_or in Hp'. destruct Hp' as [Hp'|[<-|[]]]; [left; exists p; auto|right; reflexivity]. }
    destruct (isSome (varkwargs (other l r s))).
    { inversion E; subst. destruct s; exact H. }
    destruct (isSome (varargs (other l r s))).
    { inversion E; subst. intros p Hp. assert (Hp' : In p []) by (destruct s; exact Hp). destruct Hp'. }
    destruct (negb (has_def e)); [discriminate|]. inversion E; subst. exact H.
Qed.

Lemma M_unb_pok_all s ps : forall st st',
  MP st -> incl ps (pokargs (my l r s)) -> unb_pok_all l r s ps st = Ok st' -> MP st'.
Proof.
  induction ps as [|p ps IH]; intros st st' H Hi E; cbn [unb_pok_all] in E.
  - inversion E; subst. exact H.
  - apply bind_ok in E. destruct E as [st1 [E1 E2]].
    apply (IH st1 st'); [|intros z Hz; apply Hi; right; exact Hz|exact E2].
    apply (M_unb_pok1 s p st st1 H); [apply Hi; left; reflexivity|exact E1].
Qed.

Lemma M_zip_pok il : forall ir st st',
  MP st -> incl il (pokargs l) -> incl ir (pokargs r) -> zip_pok l r il ir st = Ok st' -> MP st'.
Proof.
  induction il as [|a il IH]; intros ir st st' H Il Ir E.
  - cbn [zip_pok] in E. exact (M_unb_pok_all R ir st st' H Ir E).
  - destruct ir as [|b ir]; cbn [zip_pok] in E.
    + exact (M_unb_pok_all L (a :: il) st st' H Il E).
    + eapply IH; [| | |exact E].
      * assert (Hx : In a (pokargs l ++ pokargs r)) by (apply in_or_app; left; apply Il; left; reflexivity).
        apply (MP_snoc st (concile a b) a _ H Hx eq_refl). intros p Hp.
        destruct (N.eqb (pname a) (pname b)); cbn [m_pok add_src1 add_src2 set_src set_pok] in Hp;
          apply in_app_or in Hp; destruct Hp as [Hp|[<-|[]]]; auto.
        -- left. exists p. auto.
        -- apply in_map_iff in Hp. destruct Hp as [p0 [<- Hp0]]. left. exists p0. auto.
      * intros z Hz. apply Il. right. exact Hz.
      * intros z Hz. apply Ir. right. exact Hz.
Qed.
End NWalk.

(* ================================================================== *)
(* 4. the relation carried by the fold                                 *)

Definition posl (s : sorted) : list param := posargs s ++ pokargs s.

Record compatA (l r : sorted) : Prop := {
  c_pos : pos_agree (posl l) (posl r);
  c_pk : forall p q, In p (pokargs l) -> In q (posl r) -> pname p = pname q -> pkind q = PK;
  c_kp : forall p q, In p (kwoargs l) -> In q (posl r) -> pname p = pname q ->
           pkind q = PK /\ In q (skipn (length (posl l)) (posl r)) /\ varargs l = None;
  c_pk' : forall p q, In p (posl l) -> In q (kwoargs r) -> pname p <> pname q;
  c_sl : forall v q, (varargs l = Some v \/ varkwargs l = Some v) -> In q (posl r ++ kwoargs r) ->
           pname v <> pname q;
  c_sr : forall v p, (varargs r = Some v \/ varkwargs r = Some v) -> In p (posl l ++ kwoargs l) ->
           pname v <> pname p;
  c_ak : forall v w, varargs l = Some v -> varkwargs r = Some w -> pname v <> pname w;
  c_ka : forall v w, varkwargs l = Some v -> varargs r = Some w -> pname v <> pname w
}.

(* inside one duplicate-free classified signature, different kinds have different names *)
Lemma flat_sep s p q :
  NoDup (names_of (flatten s)) -> In p (flatten s) -> In q (flatten s) -> pkind p <> pkind q ->
  pname p <> pname q.
Proof. intros Hn Hp Hq Hk E. apply Hk. rewrite (nodup_names_inj _ p q Hn Hp Hq E). reflexivity. Qed.

Lemma kwo_match_names l r lk : forall st y,
  In y (kn (kwo_match l r lk st)) ->
  In y (kn st) \/ (In y (names_of lk) /\ In y (names_of (kwoargs r))).
Proof.
  induction lk as [|p lk IH]; intros st y Hy; cbn [kwo_match] in Hy; [left; exact Hy|].
  apply IH in Hy. cbn [names_of map In]. fold (names_of lk). destruct Hy as [Hy|[Hy Hy']]; [|tauto].
  destruct (find_param (pname p) (kwoargs r)) as [q|] eqn:F.
  - unfold kn in Hy. cbn [m_kwo set_kwo set_src] in Hy. apply names_od_set in Hy. cbn [pname concile] in Hy.
    destruct Hy as [Hy| ->]; [left; exact Hy|]. right. split; [left; reflexivity|].
    apply find_param_in in F. destruct F as [F1 F2]. rewrite <- F2. apply in_map. exact F1.
  - left. exact Hy.
Qed.

Lemma add_star_none l r xl xr sl sr st : sl = None \/ sr = None -> fst (add_star l r xl xr sl sr st) = None.
Proof. unfold add_star. intros [-> | ->]; [reflexivity|destruct sl; reflexivity]. Qed.

Lemma NInv_kn PA PB POKL POKR KL KR val var on kn kn' ra rb :
  NInv PA PB POKL POKR KL KR val var on kn ra rb ->
  (forall x, In x kn' -> In x kn \/ In x KL \/ In x KR) ->
  NInv PA PB POKL POKR KL KR val var on kn' ra rb.
Proof.
  intros [] H. constructor; auto. intros x Hx. destruct (H x Hx) as [Hk|[Hk|Hk]]; auto.
Qed.

Lemma incl_skipn_le {A} (n m : nat) (ps : list A) : (n <= m)%nat -> incl (skipn m ps) (skipn n ps).
Proof.
  intros H x Hx. destruct (in_skipn_nth m ps x Hx) as [i [Hi Hn]]. apply (nth_in_skipn n ps i x Hn). lia.
Qed.

Lemma split_po_prefix_incl ps : incl (snd (split_po_prefix ps)) ps.
Proof.
  induction ps as [|p ps IH]; cbn [split_po_prefix]; [apply incl_refl|].
  destruct (is_kind PO p); [|apply incl_refl].
  destruct (split_po_prefix ps) as [a b]. cbn [snd] in *. apply incl_tl. exact IH.
Qed.

(* ================================================================== *)
(* 5. one step of the fold: what the merger returns                    *)

Section NStep.
Variables l r : sorted.
Let PA := posargs l ++ pokargs l.
Let PB := posargs r ++ pokargs r.
Let KN := names_of (PA ++ PB) ++ names_of (kwoargs l) ++ names_of (kwoargs r).
Hypothesis HKl : kinds_ok l.
Hypothesis HKr : kinds_ok r.
Hypothesis HNl : NoDup (names_of (flatten l)).
Hypothesis HNr : NoDup (names_of (flatten r)).
Hypothesis HDl : dsuf PA.
Hypothesis HDr : dsuf PB.
Hypothesis HC : compatA l r.

Lemma pos_kwo_sep_l p q : In p PA -> In q (kwoargs l) -> pname p <> pname q.
Proof.
  intros Hp Hq. destruct (in_PA l HKl p Hp) as [Fp Kp]. destruct (in_kwo_l l HKl q Hq) as [Fq Kq].
  apply (flat_sep l); auto. rewrite Kq. destruct Kp as [-> | ->]; discriminate.
Qed.
Lemma pos_kwo_sep_r p q : In p PB -> In q (kwoargs r) -> pname p <> pname q.
Proof.
  intros Hp Hq. destruct (in_PA r HKr p Hp) as [Fp Kp]. destruct (in_kwo_l r HKr q Hq) as [Fq Kq].
  apply (flat_sep r); auto. rewrite Kq. destruct Kp as [-> | ->]; discriminate.
Qed.

Lemma AI_st2N : AI l r (st2 l r) PA PB /\ m_pok (st2 l r) = [].
Proof.
  destruct (kwo_match_proj l r (kwoargs l) st0) as (E1 & E2 & _).
  assert (P1 : pn (st2 l r) = []) by (unfold pn, outs, st2; cbn [m_pos m_pok set_unm]; rewrite E1, E2; reflexivity).
  assert (P2 : pd (st2 l r) = []) by (unfold pd, outs, st2; cbn [m_pos m_pok set_unm]; rewrite E1, E2; reflexivity).
  assert (P3 : forall y, In y (kn (st2 l r)) -> In y (names_of (kwoargs l)) /\ In y (names_of (kwoargs r))).
  { intros y Hy. unfold kn, st2 in Hy. cbn [m_kwo set_unm] in Hy. apply (kwo_match_names l r) in Hy.
    destruct Hy as [[]|Hy]. exact Hy. }
  split; [|unfold st2; cbn [m_pok set_unm]; exact E2].
  unfold AI. fold PA PB. rewrite P1, P2. constructor; auto.
  - constructor.
  - intros x [[]|Hx]. destruct (P3 x Hx) as [X1 X2].
    apply in_map_iff in X1. destruct X1 as [p1 [N1 I1]]. apply in_map_iff in X2. destruct X2 as [p2 [N2 I2]].
    split; intros Hin; apply in_map_iff in Hin; destruct Hin as [q [Nq Iq]].
    + apply (pos_kwo_sep_l q p1 Iq I1). congruence.
    + apply (pos_kwo_sep_r q p2 Iq I2). congruence.
  - intros x [].
  - intros x Hx. apply in_or_app. right. apply in_or_app. left. apply P3. exact Hx.
  - apply HC.
  - apply nodup_PA. exact HNl.
  - apply nodup_PA. exact HNr.
  - apply incl_refl.
  - apply incl_refl.
  - exact I.
  - intros [].
Qed.

Lemma NI_st2 : NIc l r (st2 l r) PA PB /\ MP l r (st2 l r).
Proof.
  destruct (kwo_match_proj l r (kwoargs l) st0) as (E1 & E2 & E3).
  assert (P1 : pn (st2 l r) = []) by (unfold pn, outs, st2; cbn [m_pos m_pok set_unm]; rewrite E1, E2; reflexivity).
  split.
  - unfold NIc. fold PA PB. rewrite P1. constructor; cbn [length];
      try (exists (@nil param); reflexivity); try (right; left; lia); try (right; lia); try (intros _; lia).
    + intros i x Hx. destruct i; discriminate.
    + intros x Hx. left. unfold kn, st2 in Hx. cbn [m_kwo set_unm] in Hx. apply E3 in Hx. destruct Hx as [[]|Hx]. exact Hx.
  - intros p Hp. unfold st2 in Hp. cbn [m_pok set_unm] in Hp. rewrite E2 in Hp. destruct Hp.
Qed.

Lemma N_unmatched s st st' :
  NIc l r st [] [] -> KI l r st -> unmatched_kwo l r s st = Ok st' -> NIc l r st' [] [].
Proof.
  intros HN HK E. pose proof (unm_incl l r st s HK) as Hu.
  apply unmatched_kwo_cases in E. destruct E as [->|(A & B & C & _)]; [exact HN|].
  unfold NIc in *. assert (Pn : pn st' = pn st) by (unfold pn, outs; rewrite A, B; reflexivity). rewrite Pn.
  eapply NInv_kn; [exact HN|]. intros x Hx. unfold kn in Hx. rewrite C in Hx. apply names_od_update in Hx.
  destruct Hx as [Hx|Hx]; [left; exact Hx|right].
  apply in_map_iff in Hx. destruct Hx as [q [Eq Hq]]. apply Hu in Hq.
  destruct s; cbn [my] in Hq; [left|right]; rewrite <- Eq; apply in_map; exact Hq.
Qed.

Lemma FI_unmatchedN s st st' :
  FI l r st -> KI l r st -> NIc l r st [] [] -> unmatched_kwo l r s st = Ok st' -> FI l r st'.
Proof.
  intros HF HK HN E. pose proof (unm_incl l r st s HK) as Hu.
  apply unmatched_kwo_cases in E. destruct E as [->|(A & B & C & _)]; [exact HF|].
  assert (Pn : pn st' = pn st) by (unfold pn, outs; rewrite A, B; reflexivity).
  assert (Pd : pd st' = pd st) by (unfold pd, outs; rewrite A, B; reflexivity).
  assert (Kn : forall y, In y (kn st') <-> In y (kn st) \/ In y (names_of (unm st s))).
  { intros y. unfold kn. rewrite C. apply names_od_update. }
  destruct HF as [Fnd Fdis Fpn Fkn Fds]. destruct HN as [Nf _ _ _ _ _ _ Nbr Nbl _].
  constructor; rewrite ?Pn, ?Pd; auto.
  - intros x Hx Hk. apply Kn in Hk. destruct Hk as [Hk|Hk]; [exact (Fdis x Hx Hk)|].
    apply in_map_iff in Hk. destruct Hk as [q [Eq Hq]]. apply Hu in Hq.
    pose proof Hx as Hx'. apply In_nth_error in Hx'. destruct Hx' as [i Hi].
    assert (Li : (i < length (pn st))%nat) by (apply nth_error_Some; congruence).
    destruct (Nf i x Hi) as [[a [Ha Na]]|[b [Hb Nb]]]; destruct s; cbn [my] in Hq.
    + apply (pos_kwo_sep_l a q); [eapply nth_error_In; exact Ha|exact Hq|congruence].
    + apply (c_pk' l r HC a q); [eapply nth_error_In; exact Ha|exact Hq|congruence].
    + destruct (c_kp l r HC q b Hq (nth_error_In _ _ Hb)) as (_ & Hs & Hv); [congruence|].
      specialize (Nbl Hv). cbn [length] in Nbl.
      destruct (in_skipn_nth _ _ _ Hs) as [j [Hj Hn]].
      assert (i = j) by (apply (nodup_nth_inj (posl r) i j b b); [apply nodup_PA; exact HNr|exact Hb|exact Hn|reflexivity]).
      unfold posl in Hj. lia.
    + apply (pos_kwo_sep_r b q); [eapply nth_error_In; exact Hb|exact Hq|congruence].
  - intros x Hx. apply Kn in Hx. destruct Hx as [Hx|Hx]; [apply Fkn; exact Hx|].
    apply in_map_iff in Hx. destruct Hx as [q [Eq Hq]]. apply Hu in Hq. apply in_or_app. right.
    apply in_or_app. destruct s; cbn [my] in Hq; [left|right]; rewrite <- Eq; apply in_map; exact Hq.
Qed.

(* everything later steps need to know about the accumulator returned by the merger *)
Record MF (res : sorted) : Prop := {
  mf_kinds : kinds_ok res;
  mf_ndk : NoDup (names_of (kwoargs res));
  mf_faith : forall i p, nth_error (posl res) i = Some p ->
               (exists a, nth_error PA i = Some a /\ pname a = pname p) \/
               (exists b, nth_error PB i = Some b /\ pname b = pname p);
  mf_bndl : varargs l = None -> (length (posl res) <= length PA)%nat;
  mf_bndr : varargs r = None -> (length (posl res) <= length PB)%nat;
  mf_kwo : forall p, In p (kwoargs res) ->
             In (pname p) (names_of (kwoargs l)) \/ In (pname p) (names_of (kwoargs r)) \/
             convName PA PB (pokargs l) (varargs r) (pname p) \/
             convName PB PA (pokargs r) (varargs l) (pname p);
  mf_pok : forall p, In p (pokargs res) -> In (pname p) (names_of (pokargs l ++ pokargs r));
  mf_va : forall v, varargs res = Some v ->
            (exists a, varargs l = Some a /\ pname v = pname a) \/ varargs r = Some v;
  mf_va_none : varargs l = None \/ varargs r = None -> varargs res = None;
  mf_vk : forall v, varkwargs res = Some v ->
            (exists a, varkwargs l = Some a /\ pname v = pname a) \/ varkwargs r = Some v;
  mf_nd : NoDup (names_of (posl res));
  mf_dis : forall x, In x (names_of (posl res)) -> ~ In x (names_of (kwoargs res));
  mf_pn : incl (names_of (posl res)) (names_of (PA ++ PB));
  mf_kn : incl (names_of (kwoargs res)) KN;
  mf_ds : dsufb (map has_def (posl res))
}.

Theorem merger_facts res : merger l r = Ok res -> MF res.
Proof.
  intros E0. destruct (merger_kinds l r res HKl HKr E0) as [Kres Nres].
  revert E0. unfold merger. fold st0. fold (st2 l r). intros E.
  apply bind_ok in E. destruct E as [[[st3 il] ir] [E3 E]].
  apply bind_ok in E. destruct E as [st4 [E4 E]].
  apply bind_ok in E. destruct E as [st5 [E5 E]].
  apply bind_ok in E. destruct E as [st6 [E6 E]].
  destruct (add_star l r (m_xva_l (normalise_pok st6)) (m_xva_r (normalise_pok st6)) (varargs l) (varargs r)
                     (normalise_pok st6)) as [va st8] eqn:E8.
  destruct (add_star l r (m_xvk_l st8) (m_xvk_r st8) (varkwargs l) (varkwargs r) st8) as [vk st9] eqn:E9.
  inversion E; subst res; clear E.
  destruct AI_st2N as [A2 P2]. pose proof (KI_st2 l r HKl) as K2. destruct NI_st2 as [N2 M2].
  pose proof HKl as (L1 & L2 & _). pose proof HKr as (R1 & R2 & _).
  destruct (W_zip_pos l r (posargs l) (posargs r) (pokargs l) (pokargs r) _ st3 il ir P2 A2 E3) as [A3 P3].
  destruct (K_zip_pos l r (posargs l) (posargs r) (pokargs l) (pokargs r) _ st3 il ir K2 L1 R1 E3) as (K3 & Il & Ir).
  pose proof (N_zip_pos l r (posargs l) (posargs r) (pokargs l) (pokargs r) _ st3 il ir P2 N2 E3) as N3.
  assert (M3 : MP l r st3) by (intros p Hp; rewrite P3 in Hp; destruct Hp).
  assert (Hil : Forall isPK il) by (apply Forall_forall; intros q Hq; rewrite Forall_forall in L2; apply L2, Il, Hq).
  assert (Hir : Forall isPK ir) by (apply Forall_forall; intros q Hq; rewrite Forall_forall in R2; apply R2, Ir, Hq).
  pose proof (W_zip_pok l r il ir st3 st4 A3 E4) as A4. pose proof (K_zip_pok l r il ir st3 st4 K3 Hil Hir E4) as K4.
  assert (N4 : NIc l r st4 [] []).
  { apply (N_zip_pok l r (c_pk' l r HC)) with (il := il) (ir := ir) (st := st3); auto.
    intros p q Hp Hq Epq. apply (c_kp l r HC p q Hp Hq Epq). }
  pose proof (M_zip_pok l r il ir st3 st4 M3 Il Ir E4) as M4.
  pose proof (FI_of_AI l r st4 A4) as F4.
  pose proof (FI_unmatchedN L st4 st5 F4 K4 N4 E5) as F5. pose proof (K_unmatched l r HKl HKr L st4 st5 K4 E5) as K5.
  pose proof (N_unmatched L st4 st5 N4 K4 E5) as N5.
  pose proof (FI_unmatchedN R st5 st6 F5 K5 N5 E6) as F6. pose proof (K_unmatched l r HKl HKr R st5 st6 K5 E6) as K6.
  pose proof (N_unmatched R st5 st6 N5 K5 E6) as N6.
  assert (M6 : MP l r st6).
  { intros p Hp. apply M4.
    apply unmatched_kwo_cases in E5. apply unmatched_kwo_cases in E6.
    destruct E6 as [->|(_ & B6 & _)]; [|rewrite B6 in Hp]; (destruct E5 as [->|(_ & B5 & _)]; [|rewrite B5 in Hp]); exact Hp. }
  destruct (normalise_spec l r st6 K6) as (Q1 & Q2 & Q3 & Q4).
  destruct (add_star_spec _ _ _ _ _ _ _ _ _ E8) as (S1 & S2 & S3 & S4).
  destruct (add_star_spec _ _ _ _ _ _ _ _ _ E9) as (T1 & T2 & T3 & T4).
  assert (PR : posl (mkSorted (m_pos st9) (m_pok st9) va (m_kwo st9) vk (m_src st9)
                              (merge_depths (sdep l) (sdep r))) = outs st6).
  { unfold posl. cbn [posargs pokargs]. rewrite T1, T2, S1, S2. exact Q3. }
  destruct F6 as [Fnd Fdis Fpn Fkn Fds]. destruct N6 as [Nf _ _ _ _ _ _ Nbr Nbl Nk].
  assert (KW : kwoargs (mkSorted (m_pos st9) (m_pok st9) va (m_kwo st9) vk (m_src st9)
                                 (merge_depths (sdep l) (sdep r))) = m_kwo st6).
  { cbn [kwoargs]. rewrite T3, S3, Q4. reflexivity. }
  constructor.
  - exact Kres.
  - exact Nres.
  - rewrite PR. intros i p Hp. apply (Nf i (pname p)). unfold pn, names_of. rewrite nth_error_map, Hp. reflexivity.
  - rewrite PR. intros Hv. specialize (Nbl Hv). unfold pn, names_of in Nbl. rewrite map_length in Nbl. cbn [length] in Nbl. unfold PA. lia.
  - rewrite PR. intros Hv. specialize (Nbr Hv). unfold pn, names_of in Nbr. rewrite map_length in Nbr. cbn [length] in Nbr. unfold PB. lia.
  - rewrite KW. intros p Hp. apply Nk. unfold kn. apply in_map. exact Hp.
  - cbn [pokargs]. intros p Hp. rewrite T2, S2 in Hp. apply M6. unfold normalise_pok in Hp.
    pose proof (split_po_prefix_incl (m_pok st6)) as Hi. destruct (split_po_prefix (m_pok st6)) as [a b].
    cbn [m_pok set_pok set_pos snd] in *. apply Hi. exact Hp.
  - cbn [varargs]. intros v Hv. destruct (S4 v Hv) as [[a [Ea [Na _]]]|Er]; [left; exists a; auto|right; exact Er].
  - cbn [varargs]. intros Hn. pose proof (add_star_none l r (m_xva_l (normalise_pok st6)) (m_xva_r (normalise_pok st6))
                              (varargs l) (varargs r) (normalise_pok st6) Hn) as X. rewrite E8 in X. exact X.
  - cbn [varkwargs]. intros v Hv. destruct (T4 v Hv) as [[a [Ea [Na _]]]|Er]; [left; exists a; auto|right; exact Er].
  - rewrite PR. exact Fnd.
  - rewrite PR, KW. exact Fdis.
  - rewrite PR. exact Fpn.
  - rewrite KW. exact Fkn.
  - rewrite PR. exact Fds.
Qed.

(* ---- the constructor accepts the result of the step ---- *)
Theorem step_valid res : merger l r = Ok res -> validate (flatten res) = true.
Proof.
  intros E. destruct (merger_facts res E).
  pose proof mf_kinds0 as (G1 & G2 & G3 & G4 & G5).
  destruct (ksorted_blocks (posargs res) (pokargs res) (varargs res) (kwoargs res) (varkwargs res) G1 G2 G3 G4 G5)
    as [KS NP].
  apply validate_spec. split; [exact KS|]. split.
  - unfold flatten. rewrite app_assoc. apply dsuffix_app. destruct (dsuffix_nonpos _ NP) as [D1 D2].
    split; [|split; [exact D1|intros _; exact D2]]. apply dsufb_dsuffix. exact mf_ds0.
  - (* star names are foreign to the named output *)
    assert (Sva : forall v, varargs res = Some v ->
              forall p, In p (PA ++ PB ++ kwoargs l ++ kwoargs r) -> pname v <> pname p).
    { intros v Hv p Hp. destruct (mf_va0 v Hv) as [[a [Ea Na]]|Er].
      - rewrite Na. destruct (in_va_l l HKl a Ea) as [Fa Ka].
        rewrite !app_assoc in Hp. apply in_app_or in Hp. destruct Hp as [Hp|Hp]; [apply in_app_or in Hp; destruct Hp as [Hp|Hp]|].
        + apply in_app_or in Hp. destruct Hp as [Hp|Hp].
          * destruct (in_PA l HKl p Hp) as [Fp Kp]. apply (flat_sep l); auto. rewrite Ka. destruct Kp as [-> | ->]; discriminate.
          * apply (c_sl l r HC a p); [left; exact Ea|apply in_or_app; left; exact Hp].
        + destruct (in_kwo_l l HKl p Hp) as [Fp Kp]. apply (flat_sep l); auto. rewrite Ka, Kp. discriminate.
        + apply (c_sl l r HC a p); [left; exact Ea|apply in_or_app; right; exact Hp].
      - destruct (in_va_l r HKr v Er) as [Fv Kv].
        rewrite !app_assoc in Hp. apply in_app_or in Hp. destruct Hp as [Hp|Hp]; [apply in_app_or in Hp; destruct Hp as [Hp|Hp]|].
        + apply in_app_or in Hp. destruct Hp as [Hp|Hp].
          * apply (c_sr l r HC v p); [left; exact Er|apply in_or_app; left; exact Hp].
          * destruct (in_PA r HKr p Hp) as [Fp Kp]. apply (flat_sep r); auto. rewrite Kv. destruct Kp as [-> | ->]; discriminate.
        + apply (c_sr l r HC v p); [left; exact Er|apply in_or_app; right; exact Hp].
        + destruct (in_kwo_l r HKr p Hp) as [Fp Kp]. apply (flat_sep r); auto. rewrite Kv, Kp. discriminate. }
    assert (Svk : forall v, varkwargs res = Some v ->
              forall p, In p (PA ++ PB ++ kwoargs l ++ kwoargs r) -> pname v <> pname p).
    { intros v Hv p Hp. destruct (mf_vk0 v Hv) as [[a [Ea Na]]|Er].
      - rewrite Na. destruct (in_vk_l l HKl a Ea) as [Fa Ka].
        rewrite !app_assoc in Hp. apply in_app_or in Hp. destruct Hp as [Hp|Hp]; [apply in_app_or in Hp; destruct Hp as [Hp|Hp]|].
        + apply in_app_or in Hp. destruct Hp as [Hp|Hp].
          * destruct (in_PA l HKl p Hp) as [Fp Kp]. apply (flat_sep l); auto. rewrite Ka. destruct Kp as [-> | ->]; discriminate.
          * apply (c_sl l r HC a p); [right; exact Ea|apply in_or_app; left; exact Hp].
        + destruct (in_kwo_l l HKl p Hp) as [Fp Kp]. apply (flat_sep l); auto. rewrite Ka, Kp. discriminate.
        + apply (c_sl l r HC a p); [right; exact Ea|apply in_or_app; right; exact Hp].
      - destruct (in_vk_l r HKr v Er) as [Fv Kv].
        rewrite !app_assoc in Hp. apply in_app_or in Hp. destruct Hp as [Hp|Hp]; [apply in_app_or in Hp; destruct Hp as [Hp|Hp]|].
        + apply in_app_or in Hp. destruct Hp as [Hp|Hp].
          * apply (c_sr l r HC v p); [right; exact Er|apply in_or_app; left; exact Hp].
          * destruct (in_PA r HKr p Hp) as [Fp Kp]. apply (flat_sep r); auto. rewrite Kv. destruct Kp as [-> | ->]; discriminate.
        + apply (c_sr l r HC v p); [right; exact Er|apply in_or_app; right; exact Hp].
        + destruct (in_kwo_l r HKr p Hp) as [Fp Kp]. apply (flat_sep r); auto. rewrite Kv, Kp. discriminate. }
    assert (Sak : forall v w, varargs res = Some v -> varkwargs res = Some w -> pname v <> pname w).
    { intros v w Hv Hw. destruct (mf_va0 v Hv) as [[a [Ea Na]]|Er], (mf_vk0 w Hw) as [[b [Eb Nb]]|Fr]; rewrite ?Na, ?Nb.
      - destruct (in_va_l l HKl a Ea) as [Fa Ka]. destruct (in_vk_l l HKl b Eb) as [Fb Kb].
        apply (flat_sep l); auto. rewrite Ka, Kb. discriminate.
      - apply (c_ak l r HC a w Ea Fr).
      - intros X. apply (c_ka l r HC b v Eb Er). symmetry. exact X.
      - destruct (in_va_l r HKr v Er) as [Fa Ka]. destruct (in_vk_l r HKr w Fr) as [Fb Kb].
        apply (flat_sep r); auto. rewrite Ka, Kb. discriminate. }
    assert (InKN : forall x, In x KN -> exists p, In p (PA ++ PB ++ kwoargs l ++ kwoargs r) /\ pname p = x).
    { intros x Hx. unfold KN, names_of in Hx. rewrite <- !map_app in Hx. apply in_map_iff in Hx.
      destruct Hx as [p [Ep Hp]]. exists p. split; [|exact Ep]. rewrite <- app_assoc in Hp. exact Hp. }
    assert (InPN : forall x, In x (names_of (posl res)) -> exists p, In p (PA ++ PB ++ kwoargs l ++ kwoargs r) /\ pname p = x).
    { intros x Hx. apply InKN. unfold KN. apply in_or_app. left. apply mf_pn0. exact Hx. }
    assert (EF : names_of (flatten res) =
                 names_of (posl res) ++ names_of (opt_list (varargs res)) ++ names_of (kwoargs res) ++
                 names_of (opt_list (varkwargs res))).
    { unfold flatten, posl, names_of. rewrite !map_app, <- !app_assoc. reflexivity. }
    rewrite EF.
    apply NoDup_app_intro; [exact mf_nd0| |].
    + apply NoDup_app_intro.
      * destruct (varargs res); cbn; repeat constructor. intros [].
      * apply NoDup_app_intro; [exact mf_ndk0|destruct (varkwargs res); cbn; repeat constructor; intros []|].
        intros x Hx Hin. destruct (varkwargs res) as [w|] eqn:Ew; [|destruct Hin]. destruct Hin as [<-|[]].
        destruct (InKN _ (mf_kn0 _ Hx)) as [p [Ip Np]]. apply (Svk w eq_refl p Ip). symmetry. exact Np.
      * intros x Hx Hin. destruct (varargs res) as [v|] eqn:Ev; [|destruct Hx]. destruct Hx as [<-|[]].
        apply in_app_or in Hin. destruct Hin as [Hin|Hin].
        -- destruct (InKN _ (mf_kn0 _ Hin)) as [p [Ip Np]]. apply (Sva v eq_refl p Ip). symmetry. exact Np.
        -- destruct (varkwargs res) as [w|] eqn:Ew; [|destruct Hin]. destruct Hin as [Hin|[]].
           apply (Sak v w eq_refl eq_refl). symmetry. exact Hin.
    + intros x Hx Hin. apply in_app_or in Hin. destruct Hin as [Hin|Hin].
      * destruct (varargs res) as [v|] eqn:Ev; [|destruct Hin]. destruct Hin as [<-|[]].
        destruct (InPN _ Hx) as [p [Ip Np]]. apply (Sva v eq_refl p Ip). symmetry. exact Np.
      * apply in_app_or in Hin. destruct Hin as [Hin|Hin]; [exact (mf_dis0 x Hx Hin)|].
        destruct (varkwargs res) as [w|] eqn:Ew; [|destruct Hin]. destruct Hin as [<-|[]].
        destruct (InPN _ Hx) as [p [Ip Np]]. apply (Svk w eq_refl p Ip). symmetry. exact Np.
Qed.
End NStep.

(* ================================================================== *)
(* 6. the relation is preserved by a step                              *)

Section NCompat.
Variables l r d : sorted.
Hypothesis HKl : kinds_ok l.
Hypothesis HKr : kinds_ok r.
Hypothesis HKd : kinds_ok d.
Hypothesis HNl : NoDup (names_of (flatten l)).
Hypothesis HNr : NoDup (names_of (flatten r)).
Hypothesis HDl : dsuf (posl l).
Hypothesis HDr : dsuf (posl r).
Hypothesis HC : compatA l r.
Hypothesis HCd : compatA l d.
(* r and d are inputs whose shared names keep their role *)
Hypothesis RD1 : pos_agree (posl r) (posl d).
Hypothesis RD2 : forall p q, In p (flatten r) -> In q (flatten d) -> pname p = pname q -> pkind p = pkind q.

Lemma named_witness res (F : MF l r res) x :
  In x (names_of (posl res)) \/ In x (names_of (kwoargs res)) ->
  exists p, pname p = x /\
    ((In p (posl l ++ kwoargs l)) \/
     (In p (flatten r) /\ (pkind p = PO \/ pkind p = PK \/ pkind p = KO))).
Proof.
  intros H.
  assert (HK : In x (names_of (posl l ++ posl r) ++ names_of (kwoargs l) ++ names_of (kwoargs r))).
  { destruct H as [H|H]; [apply in_or_app; left; apply (mf_pn l r res F); exact H|apply (mf_kn l r res F); exact H]. }
  apply in_app_or in HK. destruct HK as [HK|HK].
  - apply in_map_iff in HK. destruct HK as [p [E Hp]]. exists p. split; [exact E|]. apply in_app_or in Hp.
    destruct Hp as [Hp|Hp]; [left; apply in_or_app; left; exact Hp|right].
    destruct (in_PA r HKr p Hp) as [Fp Kp]. split; [exact Fp|tauto].
  - apply in_app_or in HK. destruct HK as [HK|HK]; apply in_map_iff in HK; destruct HK as [p [E Hp]]; exists p; (split; [exact E|]).
    + left. apply in_or_app. right. exact Hp.
    + right. destruct (in_kwo_l r HKr p Hp) as [Fp Kp]. split; [exact Fp|tauto].
Qed.

Lemma named_d q : In q (posl d ++ kwoargs d) -> In q (flatten d) /\ (pkind q = PO \/ pkind q = PK \/ pkind q = KO).
Proof.
  intros H. apply in_app_or in H. destruct H as [H|H].
  - destruct (in_PA d HKd q H) as [F K]. split; [exact F|tauto].
  - destruct (in_kwo_l d HKd q H) as [F K]. split; [exact F|tauto].
Qed.

Theorem step_compat res : merger l r = Ok res -> compatA res d.
Proof.
  intros E. pose proof (merger_facts l r HKl HKr HNl HNr HDl HDr HC res E) as F. destruct F.
  pose proof (merger_facts l r HKl HKr HNl HNr HDl HDr HC res E) as F.
  constructor.
  - (* c_pos *)
    intros i j p q Hp Hq Epq. destruct (mf_faith0 i p Hp) as [[a [Ha Na]]|[b [Hb Nb]]].
    + apply (c_pos l d HCd i j a q Ha Hq). congruence.
    + apply (RD1 i j b q Hb Hq). congruence.
  - (* c_pk *)
    intros p q Hp Hq Epq. specialize (mf_pok0 p Hp). apply in_map_iff in mf_pok0. destruct mf_pok0 as [p0 [E0 H0]].
    apply in_app_or in H0. destruct H0 as [H0|H0].
    + apply (c_pk l d HCd p0 q H0 Hq). congruence.
    + assert (Hp0 : In p0 (posargs r ++ pokargs r)) by (apply in_or_app; right; exact H0).
      destruct (in_PA r HKr p0 Hp0) as [Fp _]. destruct (in_PA d HKd q Hq) as [Fq _].
      destruct HKr as (_ & R2 & _). rewrite Forall_forall in R2.
      rewrite <- (RD2 p0 q Fp Fq) by congruence. apply R2. exact H0.
  - (* c_kp *)
    intros p q Hp Hq Epq. destruct (in_PA d HKd q Hq) as [Fq Kq].
    destruct (mf_kwo0 p Hp) as [H|[H|[H|H]]].
    + apply in_map_iff in H. destruct H as [p0 [E0 H0]].
      destruct (c_kp l d HCd p0 q H0 Hq) as (X1 & X2 & X3); [congruence|].
      split; [exact X1|]. split; [|apply mf_va_none0; left; exact X3].
      apply (incl_skipn_le (length (posl res)) (length (posl l))); [apply mf_bndl0; exact X3|exact X2].
    + exfalso. apply in_map_iff in H. destruct H as [p0 [E0 H0]]. destruct (in_kwo_l r HKr p0 H0) as [Fp Kp].
      assert (X : pkind p0 = pkind q) by (apply RD2; congruence). rewrite Kp in X. destruct Kq; congruence.
    + destruct H as [Hv [e [Hs [He Ne]]]].
      assert (X1 : pkind q = PK) by (apply (c_pk l d HCd e q He Hq); congruence).
      split; [exact X1|]. split; [|apply mf_va_none0; right; exact Hv].
      destruct (in_skipn_nth _ _ _ Hs) as [i [Hi Hn]]. apply In_nth_error in Hq. destruct Hq as [j Hj].
      assert (i = j) by (apply (c_pos l d HCd i j e q Hn Hj); congruence). subst j.
      apply (nth_in_skipn _ _ i q Hj). specialize (mf_bndr0 Hv). lia.
    + destruct H as [Hv [e [Hs [He Ne]]]].
      assert (Hpe : In e (posargs r ++ pokargs r)) by (apply in_or_app; right; exact He).
      destruct (in_PA r HKr e Hpe) as [Fe _].
      assert (X1 : pkind q = PK).
      { destruct HKr as (_ & R2 & _). rewrite Forall_forall in R2. rewrite <- (RD2 e q Fe Fq) by congruence. apply R2. exact He. }
      split; [exact X1|]. split; [|apply mf_va_none0; left; exact Hv].
      destruct (in_skipn_nth _ _ _ Hs) as [i [Hi Hn]]. apply In_nth_error in Hq. destruct Hq as [j Hj].
      assert (i = j) by (apply (RD1 i j e q Hn Hj); congruence). subst j.
      apply (nth_in_skipn _ _ i q Hj). specialize (mf_bndl0 Hv). lia.
  - (* c_pk' *)
    intros p q Hp Hq Epq. destruct (in_kwo_l d HKd q Hq) as [Fq Kq].
    assert (Hx : In (pname p) (names_of (posl res))) by (apply in_map; exact Hp).
    apply mf_pn0 in Hx. apply in_map_iff in Hx. destruct Hx as [p0 [E0 H0]]. apply in_app_or in H0.
    destruct H0 as [H0|H0].
    + apply (c_pk' l d HCd p0 q H0 Hq). congruence.
    + destruct (in_PA r HKr p0 H0) as [Fp Kp].
      assert (X : pkind p0 = pkind q) by (apply RD2; congruence). rewrite Kq in X. destruct Kp; congruence.
  - (* c_sl *)
    intros v q Hv Hq Evq. destruct (named_d q Hq) as [Fq Kq]. destruct Hv as [Hv|Hv].
    + destruct (mf_va0 v Hv) as [[a [Ea Na]]|Er].
      * apply (c_sl l d HCd a q (or_introl Ea) Hq). congruence.
      * destruct (in_va_l r HKr v Er) as [Fv Kv].
        assert (X : pkind v = pkind q) by (apply RD2; assumption). rewrite Kv in X. destruct Kq as [Kq|[Kq|Kq]]; congruence.
    + destruct (mf_vk0 v Hv) as [[a [Ea Na]]|Er].
      * apply (c_sl l d HCd a q (or_intror Ea) Hq). congruence.
      * destruct (in_vk_l r HKr v Er) as [Fv Kv].
        assert (X : pkind v = pkind q) by (apply RD2; assumption). rewrite Kv in X. destruct Kq as [Kq|[Kq|Kq]]; congruence.
  - (* c_sr *)
    intros v p Hv Hp Evp.
    assert (Hx : In (pname p) (names_of (posl res)) \/ In (pname p) (names_of (kwoargs res))).
    { apply in_app_or in Hp. destruct Hp as [Hp|Hp]; [left|right]; apply in_map; exact Hp. }
    destruct (named_witness res F _ Hx) as [p0 [E0 [H0|[H0 K0]]]].
    + apply (c_sr l d HCd v p0 Hv H0). congruence.
    + assert (Fv : In v (flatten d) /\ (pkind v = VP \/ pkind v = VK)).
      { destruct Hv as [Hv|Hv]; [destruct (in_va_l d HKd v Hv)|destruct (in_vk_l d HKd v Hv)]; auto. }
      destruct Fv as [Fv Kv].
      assert (X : pkind p0 = pkind v) by (apply RD2; congruence).
      destruct Kv as [Kv|Kv]; rewrite Kv in X; destruct K0 as [K0|[K0|K0]]; congruence.
  - (* c_ak *)
    intros v w Hv Hw Evw. destruct (in_vk_l d HKd w Hw) as [Fw Kw].
    destruct (mf_va0 v Hv) as [[a [Ea Na]]|Er].
    + apply (c_ak l d HCd a w Ea Hw). congruence.
    + destruct (in_va_l r HKr v Er) as [Fv Kv].
      assert (X : pkind v = pkind w) by (apply RD2; assumption). congruence.
  - (* c_ka *)
    intros v w Hv Hw Evw. destruct (in_va_l d HKd w Hw) as [Fw Kw].
    destruct (mf_vk0 v Hv) as [[a [Ea Na]]|Er].
    + apply (c_ka l d HCd a w Ea Hw). congruence.
    + destruct (in_vk_l r HKr v Er) as [Fv Kv].
      assert (X : pkind v = pkind w) by (apply RD2; assumption). congruence.
Qed.
End NCompat.

(* ================================================================== *)
(* 7. inputs: role consistency gives the relation                      *)

Lemma dsufb_dsuf ps : dsufb (map has_def ps) -> dsuf ps.
Proof.
  induction ps as [|p ps IH]; cbn [map dsufb dsuf]; [auto|]. intros [H1 H2]. split; [|apply IH; exact H2].
  intros Hd. specialize (H1 Hd). apply Forall_forall. intros q Hq. rewrite Forall_forall in H1.
  unfold isopt. apply H1. apply in_map. exact Hq.
Qed.

Lemma dsuf_of_validate acc : kinds_ok acc -> validate (flatten acc) = true -> dsuf (posl acc).
Proof.
  intros HK Hval. apply validate_spec in Hval. destruct Hval as (_ & D & _).
  unfold flatten in D. rewrite app_assoc in D. apply dsuffix_app in D. destruct D as [D _].
  apply dsuffix_dsuf; [|exact D]. destruct HK as (H1 & H2 & _). rewrite Forall_forall in H1, H2.
  intros p Hp. unfold is_positional. apply in_app_or in Hp. destruct Hp as [Hp|Hp]; [rewrite (H1 p Hp)|rewrite (H2 p Hp)]; reflexivity.
Qed.

(* what two inputs whose shared names keep their role know about each other *)
Lemma orig_kinds a b :
  valid_sig (params a) = true -> valid_sig (params b) = true -> roles_agree (params a) (params b) = true ->
  forall p q, In p (flatten (sort_params a)) -> In q (flatten (sort_params b)) -> pname p = pname q -> pkind p = pkind q.
Proof.
  intros Va Vb Hr. rewrite (sort_flatten_roundtrip a Va), (sort_flatten_roundtrip b Vb).
  pose proof (validate_nodup _ (proj1 (valid_sig_parts _ Va))) as Na.
  pose proof (validate_nodup _ (proj1 (valid_sig_parts _ Vb))) as Nb.
  intros p q Hp Hq E.
  destruct (role_aux_in (params a) 0 p Na Hp) as [i Ei]. destruct (role_aux_in (params b) 0 q Nb Hq) as [j Ej].
  rewrite <- E in Ej.
  destruct (roles_agree_spec _ _ (pname p) _ _ Hr (in_map pname _ _ Hp) Ei Ej) as [X _]. exact X.
Qed.

Lemma orig_pos a b :
  valid_sig (params a) = true -> valid_sig (params b) = true -> roles_agree (params a) (params b) = true ->
  pos_agree (posl (sort_params a)) (posl (sort_params b)).
Proof.
  intros Va Vb Hr. unfold posl.
  rewrite <- (positional_flatten _ (sort_params_kinds a)), <- (positional_flatten _ (sort_params_kinds b)).
  rewrite (sort_flatten_roundtrip a Va), (sort_flatten_roundtrip b Vb).
  pose proof (validate_nodup _ (proj1 (valid_sig_parts _ Va))) as Na.
  pose proof (validate_nodup _ (proj1 (valid_sig_parts _ Vb))) as Nb.
  intros i j p q Hp Hq E.
  pose proof (role_aux_pos (params a) 0 i p Na Hp) as Ei. pose proof (role_aux_pos (params b) 0 j q Nb Hq) as Ej.
  rewrite <- E in Ej.
  assert (Hin : In (pname p) (names_of (params a))).
  { apply in_map. apply nth_error_In in Hp. unfold positional in Hp. apply filter_In in Hp. tauto. }
  destruct (roles_agree_spec _ _ (pname p) _ _ Hr Hin Ei Ej) as [_ X]. exact X.
Qed.

Lemma orig_compat a b :
  valid_sig (params a) = true -> valid_sig (params b) = true -> roles_agree (params a) (params b) = true ->
  compatA (sort_params a) (sort_params b).
Proof.
  intros Va Vb Hr. pose proof (orig_kinds a b Va Vb Hr) as HK. pose proof (orig_pos a b Va Vb Hr) as HP.
  pose proof (sort_params_kinds a) as Ka. pose proof (sort_params_kinds b) as Kb.
  set (l := sort_params a) in *. set (r := sort_params b) in *.
  constructor.
  - exact HP.
  - intros p q Hp Hq E. destruct (in_PA r Kb q Hq) as [Fq _].
    assert (Hp' : In p (posargs l ++ pokargs l)) by (apply in_or_app; right; exact Hp).
    destruct (in_PA l Ka p Hp') as [Fp _]. rewrite <- (HK p q Fp Fq E).
    destruct Ka as (_ & A2 & _). rewrite Forall_forall in A2. apply A2. exact Hp.
  - intros p q Hp Hq E. exfalso. destruct (in_PA r Kb q Hq) as [Fq Kq]. destruct (in_kwo_l l Ka p Hp) as [Fp Kp].
    pose proof (HK p q Fp Fq E) as X. rewrite Kp in X. destruct Kq; congruence.
  - intros p q Hp Hq E. destruct (in_PA l Ka p Hp) as [Fp Kp]. destruct (in_kwo_l r Kb q Hq) as [Fq Kq].
    pose proof (HK p q Fp Fq E) as X. rewrite Kq in X. destruct Kp; congruence.
  - intros v q Hv Hq E.
    assert (Fv : In v (flatten l) /\ (pkind v = VP \/ pkind v = VK)).
    { destruct Hv as [Hv|Hv]; [destruct (in_va_l l Ka v Hv)|destruct (in_vk_l l Ka v Hv)]; auto. }
    destruct Fv as [Fv Kv].
    assert (Fq : In q (flatten r) /\ (pkind q = PO \/ pkind q = PK \/ pkind q = KO)).
    { apply in_app_or in Hq. destruct Hq as [Hq|Hq]; [destruct (in_PA r Kb q Hq)|destruct (in_kwo_l r Kb q Hq)]; split; tauto. }
    destruct Fq as [Fq Kq]. pose proof (HK v q Fv Fq E) as X.
    destruct Kv as [Kv|Kv]; rewrite Kv in X; destruct Kq as [Kq|[Kq|Kq]]; congruence.
  - intros v p Hv Hp E.
    assert (Fv : In v (flatten r) /\ (pkind v = VP \/ pkind v = VK)).
    { destruct Hv as [Hv|Hv]; [destruct (in_va_l r Kb v Hv)|destruct (in_vk_l r Kb v Hv)]; auto. }
    destruct Fv as [Fv Kv].
    assert (Fp : In p (flatten l) /\ (pkind p = PO \/ pkind p = PK \/ pkind p = KO)).
    { apply in_app_or in Hp. destruct Hp as [Hp|Hp]; [destruct (in_PA l Ka p Hp)|destruct (in_kwo_l l Ka p Hp)]; split; tauto. }
    destruct Fp as [Fp Kp]. pose proof (HK p v Fp Fv (eq_sym E)) as X.
    destruct Kv as [Kv|Kv]; rewrite Kv in X; destruct Kp as [Kp|[Kp|Kp]]; congruence.
  - intros v w Hv Hw E. destruct (in_va_l l Ka v Hv) as [Fv Kv]. destruct (in_vk_l r Kb w Hw) as [Fw Kw].
    pose proof (HK v w Fv Fw E). congruence.
  - intros v w Hv Hw E. destruct (in_vk_l l Ka v Hv) as [Fv Kv]. destruct (in_va_l r Kb w Hw) as [Fw Kw].
    pose proof (HK v w Fv Fw E). congruence.
Qed.

(* ================================================================== *)
(* 8. the fold                                                         *)

Definition Wacc (acc : sorted) : Prop := kinds_ok acc /\ validate (flatten acc) = true.

Definition all_valid (ss : list sigT) : Prop := Forall (fun d => valid_sig (params d) = true) ss.

Lemma rc_cons s ss :
  role_consistent (s :: ss) = true ->
  Forall (fun t => roles_agree s t = true /\ roles_agree t s = true) ss /\ role_consistent ss = true.
Proof.
  cbn [role_consistent]. intros H. apply andb_true_iff in H. destruct H as [H1 H2]. split; [|exact H2].
  apply Forall_forall. intros t Ht. rewrite forallb_forall in H1. specialize (H1 t Ht).
  apply andb_true_iff in H1. exact H1.
Qed.

(* one step keeps the fold invariant *)
Lemma fold_step acc c rest acc' :
  Wacc acc -> valid_sig (params c) = true -> all_valid rest ->
  compatA acc (sort_params c) -> Forall (fun d => compatA acc (sort_params d)) rest ->
  role_consistent (params c :: map params rest) = true ->
  merger acc (sort_params c) = Ok acc' ->
  Wacc acc' /\ Forall (fun d => compatA acc' (sort_params d)) rest.
Proof.
  intros [Ka Va] Vc Vr Cc Cr Hrc E.
  pose proof (sort_params_kinds c) as Kc. pose proof (sort_flatten_roundtrip c Vc) as Fc.
  pose proof (validate_nodup _ Va) as Na.
  assert (Nc : NoDup (names_of (flatten (sort_params c)))).
  { rewrite Fc. apply validate_nodup. apply (valid_sig_parts _ Vc). }
  pose proof (dsuf_of_validate acc Ka Va) as Da. pose proof (dsuf_of_valid c Vc) as Dc.
  split.
  - split; [apply (merger_kinds _ _ _ Ka Kc E)|].
    exact (step_valid acc (sort_params c) Ka Kc Na Nc Da Dc Cc acc' E).
  - destruct (rc_cons _ _ Hrc) as [Hag _].
    apply Forall_forall. intros d Hd. unfold all_valid in Vr. rewrite Forall_forall in Cr, Vr.
    rewrite Forall_forall in Hag. destruct (Hag (params d) (in_map params _ _ Hd)) as [Hcd _].
    apply (step_compat acc (sort_params c) (sort_params d) Ka Kc (sort_params_kinds d) Na Nc Da Dc Cc (Cr d Hd)
             (orig_pos c d Vc (Vr d Hd) Hcd) (orig_kinds c d Vc (Vr d Hd) Hcd) acc' E).
Qed.

Theorem merge_steps_rc_valid rest : forall acc res,
  Wacc acc -> all_valid rest -> Forall (fun d => compatA acc (sort_params d)) rest ->
  role_consistent (map params rest) = true ->
  merge_steps acc rest = Ok res -> Wacc res.
Proof.
  induction rest as [|c rest IH]; intros acc res HW Vr Cr Hrc E; cbn [merge_steps] in E.
  - inversion E; subst. exact HW.
  - apply bind_ok in E. destruct E as [acc' [E1 E2]]. apply to_incompatible_ok in E1.
    inversion Vr as [|? ? Vc Vr']; subst. inversion Cr as [|? ? Cc Cr']; subst.
    cbn [map] in Hrc.
    destruct (fold_step acc c rest acc' HW Vc Vr' Cc Cr' Hrc E1) as [HW' Cr''].
    apply (IH acc' res HW' Vr' Cr''); [|exact E2]. apply (rc_cons _ _ Hrc).
Qed.

Lemma Wacc_input s : valid_sig (params s) = true -> Wacc (sort_params s).
Proof.
  intros V. split; [apply sort_params_kinds|]. rewrite (sort_flatten_roundtrip s V). apply (valid_sig_parts _ V).
Qed.

Lemma compat_inputs s ss :
  valid_sig (params s) = true -> all_valid ss -> role_consistent (params s :: map params ss) = true ->
  Forall (fun d => compatA (sort_params s) (sort_params d)) ss.
Proof.
  intros V Vs Hrc. destruct (rc_cons _ _ Hrc) as [Hag _]. unfold all_valid in Vs. rewrite Forall_forall in Hag, Vs.
  apply Forall_forall. intros d Hd. destruct (Hag (params d) (in_map params _ _ Hd)) as [H _].
  apply orig_compat; auto.
Qed.

(* ---- C15_rc_valid, any number of inputs ---- *)
Theorem merge_rc_valid_n ss :
  all_valid ss -> role_consistent (map params ss) = true -> merge ss <> Err ValueErr.
Proof.
  destruct ss as [|s0 rest]; [intros _ _; discriminate|]. intros V Hrc E.
  apply merge_value_error_only_from_validation in E. destruct E as [acc [E Hv]].
  inversion V as [|? ? V0 Vr]; subst. cbn [map] in Hrc.
  destruct (merge_steps_rc_valid rest (sort_params s0) acc (Wacc_input s0 V0) Vr
              (compat_inputs s0 rest V0 Vr Hrc) (proj2 (rc_cons _ _ Hrc)) E) as [_ X].
  rewrite X in Hv. discriminate.
Qed.

Theorem merge_rc_only_incompatible_n s0 ss e :
  all_valid (s0 :: ss) -> role_consistent (map params (s0 :: ss)) = true ->
  merge (s0 :: ss) = Err e -> e = Incompatible.
Proof.
  intros V Hrc E. pose proof (merge_only_value_errors s0 ss) as B. rewrite E in B.
  destruct e as [| |t]; [reflexivity| |destruct B]. exfalso. exact (merge_rc_valid_n _ V Hrc E).
Qed.

(* ================================================================== *)
(* 9. C09_fold for role-consistent inputs, any number of them          *)

Lemma nested_eq_gen rest : forall x,
  merge [x] = Ok x -> Wacc (sort_params x) -> all_valid rest ->
  Forall (fun d => compatA (sort_params x) (sort_params d)) rest ->
  role_consistent (map params rest) = true ->
  merge_nested_from x rest = merge (x :: rest).
Proof.
  induction rest as [|c rest IH]; intros x Hx HW Vr Cr Hrc; cbn [merge_nested_from].
  - symmetry. exact Hx.
  - inversion Vr as [|? ? Vc Vr']; subst. inversion Cr as [|? ? Cc Cr']; subst. cbn [map] in Hrc.
    destruct (merger (sort_params x) (sort_params c)) as [acc'|e] eqn:E.
    + destruct (fold_step (sort_params x) c rest acc' HW Vc Vr' Cc Cr' Hrc E) as [[K' V'] Cr''].
      assert (E1 : merge [x; c] = Ok (mkSig (flatten acc') (ret x) (uret x) (ssrc acc') (sdep acc'))).
      { cbn [merge merge_steps]. rewrite E. cbn [to_incompatible bind]. unfold apply_params. rewrite V'. reflexivity. }
      rewrite E1. cbn [bind]. rewrite (merge_fold_step x c rest _ E1).
      destruct (merge_pair_inv x c _ E1) as [acc2 [E2 [_ Es]]]. rewrite E in E2. injection E2 as E2'. rewrite <- E2' in Es.
      apply IH; [eapply merge_result_single; exact E1|rewrite Es; split; assumption|exact Vr'|rewrite Es; exact Cr''|].
      apply (rc_cons _ _ Hrc).
    + assert (E1 : merge [x; c] = Err Incompatible).
      { pose proof (merger_benign (sort_params x) (sort_params c)) as B. rewrite E in B.
        cbn [merge merge_steps]. rewrite E. destruct e as [| |t]; cbn in *; [reflexivity|reflexivity|destruct B]. }
      rewrite E1. cbn [bind]. symmetry. apply merge_fold_step_incompatible. exact E1.
Qed.

Theorem merge_nested_eq_rc ss :
  all_valid ss -> role_consistent (map params ss) = true -> merge_nested ss = merge ss.
Proof.
  destruct ss as [|s0 rest]; [reflexivity|]. intros V Hrc. cbn [merge_nested].
  inversion V as [|? ? V0 Vr]; subst. cbn [map] in Hrc.
  apply nested_eq_gen; [apply merge_single; exact V0|apply Wacc_input; exact V0|exact Vr| |apply (rc_cons _ _ Hrc)].
  apply compat_inputs; assumption.
Qed.

(* non-vacuity: three inputs, a kind-changing first step (names a=1 b=2 c=3 args=9 kwargs=10) *)
Example rc_valid_n_example :
  let a := mkSig [mkParam 1 PK None None UEmpty; mkParam 3 PK (Some 1) None UEmpty] None UEmpty [] [] in
  let b := mkSig [mkParam 2 PK None None UEmpty; mkParam 10 VK None None UEmpty] None UEmpty [] [] in
  let c := mkSig [mkParam 1 PK None None UEmpty; mkParam 3 PK (Some 1) None UEmpty; mkParam 9 VP None None UEmpty]
                 None UEmpty [] [] in
  all_valid [a; b; c] /\ role_consistent (map params [a; b; c]) = true /\
  (exists r1, merge [a; b] = Ok r1 /\ role_consistent [params r1; params c] = false) /\
  exists r, merge [a; b; c] = Ok r /\ merge_nested [a; b; c] = Ok r.
Proof.
  cbv zeta. split; [repeat constructor|]. split; [vm_compute; reflexivity|]. split.
  - eexists. split; vm_compute; reflexivity.
  - eexists. split; vm_compute; reflexivity.
Qed.

Print Assumptions step_valid.
Print Assumptions step_compat.
Print Assumptions orig_compat.
Print Assumptions merge_steps_rc_valid.
Print Assumptions merge_rc_valid_n.
Print Assumptions merge_rc_only_incompatible_n.
Print Assumptions merge_nested_eq_rc.
Print Assumptions rc_valid_n_example.
