(* MergeSoundBase.v -- helper material for MergeSound.v (C01 for ALL signatures):
   counting of required parameters, the default-monotonicity of validated
   positional lists, closed forms of [accepts] on a classified signature for
   pure-positional and pure-keyword calls, and small list lemmas about
   find_param / remove_param / od_set. *)
From Sigtools.Model Require Import Base Bind Roles Algebra.
From Sigtools.Proofs Require Import SmallModel Basics MaskLaws MaskExact MergeNeutral MergeIdem.
From Coq Require Import Lia.

(* ------------------------------------------------------------------ *)
(* generic list facts                                                   *)

Lemma filter_all {A} (f : A -> bool) l : (forall x, In x l -> f x = true) -> filter f l = l.
Proof.
  induction l as [|a l IH]; intros H; [reflexivity|]. cbn [filter].
  rewrite (H a (or_introl eq_refl)). f_equal. apply IH. intros x Hx. apply H. right. exact Hx.
Qed.

Lemma filter_none {A} (f : A -> bool) l : (forall x, In x l -> f x = false) -> filter f l = [].
Proof.
  induction l as [|a l IH]; intros H; [reflexivity|]. cbn [filter].
  rewrite (H a (or_introl eq_refl)). apply IH. intros x Hx. apply H. right. exact Hx.
Qed.

Lemma existsb_none {A} (f : A -> bool) l : (forall x, In x l -> f x = false) -> existsb f l = false.
Proof.
  induction l as [|a l IH]; intros H; [reflexivity|]. cbn [existsb].
  rewrite (H a (or_introl eq_refl)). apply IH. intros x Hx. apply H. right. exact Hx.
Qed.

Lemma forallb_skipn {A} (f : A -> bool) l : forall n, forallb f l = true -> forallb f (skipn n l) = true.
Proof.
  induction l as [|a l IH]; intros [|n] H; cbn [skipn]; auto.
  cbn [forallb] in H. apply andb_true_iff in H. apply IH. tauto.
Qed.

Lemma in_names ps (p : param) : In p ps -> In (pname p) (names_of ps).
Proof. intros H. unfold names_of. apply in_map. exact H. Qed.

Lemma names_in ps x : In x (names_of ps) -> exists p, In p ps /\ pname p = x.
Proof. unfold names_of. rewrite in_map_iff. intros [p [E H]]. exists p. auto. Qed.

Lemma names_app a b : names_of (a ++ b) = names_of a ++ names_of b.
Proof. unfold names_of. apply map_app. Qed.

(* ------------------------------------------------------------------ *)
(* find_param / remove_param / od_set                                   *)

Lemma find_param_In x ps p : find_param x ps = Some p -> In p ps /\ pname p = x.
Proof.
  induction ps as [|q ps IH]; cbn [find_param]; [discriminate|].
  destruct (N.eqb_spec x (pname q)) as [E|_].
  - intros H. inversion H; subst. split; [left; reflexivity|reflexivity].
  - intros H. destruct (IH H). split; [right; assumption|assumption].
Qed.

Lemma find_param_None x ps : find_param x ps = None <-> ~ In x (names_of ps).
Proof.
  induction ps as [|q ps IH]; cbn [find_param names_of map In]; [tauto|].
  destruct (N.eqb_spec x (pname q)) as [E|NE].
  - split; [discriminate|]. intros H. exfalso. apply H. left. symmetry. exact E.
  - rewrite IH. unfold names_of. split; intros H; [intros [E|Hx]; [apply NE; symmetry; exact E|auto]|tauto].
Qed.

Lemma find_param_some_names x ps : In x (names_of ps) -> exists p, find_param x ps = Some p.
Proof.
  intros H. destruct (find_param x ps) as [p|] eqn:E; [eauto|].
  apply find_param_None in E. contradiction.
Qed.

Lemma names_remove x y u : In y (names_of (remove_param x u)) -> y <> x /\ In y (names_of u).
Proof.
  induction u as [|q u IH]; cbn [remove_param names_of map In]; [tauto|].
  destruct (N.eqb_spec x (pname q)) as [E|NE].
  - intros H. destruct (IH H). split; [assumption|right; assumption].
  - cbn [names_of map In]. intros [E|H].
    + split; [congruence|left; exact E].
    + destruct (IH H). split; [assumption|right; assumption].
Qed.

Lemma In_remove x p u : In p (remove_param x u) -> In p u.
Proof.
  induction u as [|q u IH]; cbn [remove_param]; [tauto|].
  destruct (N.eqb x (pname q)); [intros H; right; auto|].
  intros [E|H]; [left; exact E|right; auto].
Qed.

Lemma NoDup_names_remove x u : NoDup (names_of u) -> NoDup (names_of (remove_param x u)).
Proof.
  induction u as [|q u IH]; cbn [remove_param names_of map]; intros H; [constructor|].
  inversion H as [|? ? Hq Hn]; subst.
  destruct (N.eqb x (pname q)); [apply IH; exact Hn|].
  cbn [names_of map]. constructor; [|apply IH; exact Hn].
  intros Hin. apply names_remove in Hin. apply Hq. tauto.
Qed.

Lemma find_param_remove_other x y u : x <> y -> find_param y (remove_param x u) = find_param y u.
Proof.
  intros NE. induction u as [|q u IH]; cbn [remove_param find_param]; [reflexivity|].
  destruct (N.eqb_spec x (pname q)) as [E|NE'].
  - destruct (N.eqb_spec y (pname q)) as [E'|_]; [congruence|exact IH].
  - cbn [find_param]. rewrite IH. reflexivity.
Qed.

Lemma NoDup_names_filter (f : param -> bool) u : NoDup (names_of u) -> NoDup (names_of (filter f u)).
Proof.
  induction u as [|q u IH]; cbn [filter names_of map]; intros H; [constructor|].
  inversion H as [|? ? Hq Hn]; subst.
  destruct (f q); [|apply IH; exact Hn].
  cbn [names_of map]. constructor; [|apply IH; exact Hn].
  intros Hin. apply Hq. eapply names_filter_incl. exact Hin.
Qed.

Lemma od_set_snoc d p : ~ In (pname p) (names_of d) -> od_set d p = d ++ [p].
Proof. apply od_set_fresh. Qed.

(* ------------------------------------------------------------------ *)
(* number of required parameters                                        *)

Definition nreq (ps : list param) : nat := length (filter (fun p => negb (has_def p)) ps).

Lemma nreq_app a b : nreq (a ++ b) = (nreq a + nreq b)%nat.
Proof. unfold nreq. rewrite filter_app, app_length. reflexivity. Qed.

Lemma nreq_cons p a : nreq (p :: a) = ((if has_def p then 0 else 1) + nreq a)%nat.
Proof. unfold nreq. cbn [filter]. destruct (has_def p); reflexivity. Qed.

Lemma nreq_nil : nreq [] = 0%nat.
Proof. reflexivity. Qed.

Lemma nreq_map_kind k ps : nreq (map (set_kind k) ps) = nreq ps.
Proof. induction ps as [|p ps IH]; [reflexivity|]. cbn [map]. rewrite !nreq_cons, IH. reflexivity. Qed.

Lemma nreq_all_def xs : forallb has_def xs = true -> nreq xs = 0%nat.
Proof.
  induction xs as [|a xs IH]; [reflexivity|]. cbn [forallb]. intros H. apply andb_true_iff in H.
  destruct H as [H1 H2]. rewrite nreq_cons, H1, IH by exact H2. reflexivity.
Qed.

Lemma skipn_all_def_nreq xs : forall n, forallb has_def (skipn n xs) = true -> (nreq xs <= n)%nat.
Proof.
  induction xs as [|a xs IH]; intros [|n] H; cbn [skipn] in H.
  - rewrite nreq_nil. lia.
  - rewrite nreq_nil. lia.
  - rewrite (nreq_all_def _ H). lia.
  - rewrite nreq_cons. specialize (IH n H). destruct (has_def a); lia.
Qed.

Lemma nreq_zero_all xs : nreq xs = 0%nat -> forall p, In p xs -> has_def p = true.
Proof.
  induction xs as [|a xs IH]; intros H p Hp; [destruct Hp|].
  rewrite nreq_cons in H. destruct (has_def a) eqn:Ea; [|lia].
  destruct Hp as [<-|Hp]; [exact Ea|]. apply IH; [lia|exact Hp].
Qed.

(* ------------------------------------------------------------------ *)
(* a validated list has no required positional after a defaulted one     *)

Fixpoint mono (sd : bool) (ps : list param) : bool :=
  match ps with
  | [] => true
  | p :: ps' => if negb (has_def p) && sd then false else mono (sd || has_def p) ps'
  end.

Lemma validate_aux_mono ps : forall top sd seen,
  validate_aux ps top sd seen = true -> mono sd (positional ps) = true.
Proof.
  induction ps as [|p ps IH]; intros top sd seen H; [reflexivity|].
  cbn [validate_aux] in H.
  destruct (Nat.ltb (kind_rank (pkind p)) top); [discriminate|].
  destruct (is_positional p && negb (has_def p) && sd) eqn:E1; [discriminate|].
  destruct (mem (pname p) seen); [discriminate|].
  apply IH in H. unfold positional in *. cbn [filter].
  destruct (is_positional p) eqn:Ep.
  - cbn [mono]. cbn [andb] in E1. rewrite E1. cbn [andb] in H. exact H.
  - cbn [andb] in H. rewrite orb_false_r in H. exact H.
Qed.

Lemma validate_mono ps : validate ps = true -> mono false (positional ps) = true.
Proof. apply validate_aux_mono. Qed.

Lemma mono_true_all ps : mono true ps = true -> forallb has_def ps = true.
Proof.
  induction ps as [|p ps IH]; [reflexivity|]. cbn [mono forallb orb].
  destruct (has_def p); cbn [negb andb]; [exact IH|discriminate].
Qed.

Lemma mono_skipn ps : forall n,
  mono false ps = true -> (nreq ps <= n)%nat -> forallb has_def (skipn n ps) = true.
Proof.
  induction ps as [|p ps IH]; intros n Hm Hn; [destruct n; reflexivity|].
  cbn [mono] in Hm. rewrite andb_false_r in Hm. cbn [orb] in Hm. rewrite nreq_cons in Hn.
  destruct (has_def p) eqn:Ep.
  - apply mono_true_all in Hm. apply forallb_skipn. cbn [forallb]. rewrite Ep, Hm. reflexivity.
  - destruct n as [|n]; [lia|]. cbn [skipn]. apply IH; [exact Hm|lia].
Qed.

(* ------------------------------------------------------------------ *)
(* closed forms of accepts                                              *)

Lemma req_pos_nil pos : forall n, req_pos pos n [] = forallb has_def (skipn n pos).
Proof.
  induction pos as [|p pos IH]; intros [|n]; cbn [req_pos skipn forallb mem]; auto.
  rewrite IH. cbn [skipn]. rewrite andb_false_r, orb_false_r. reflexivity.
Qed.

Lemma req_pos_zero pos ks :
  req_pos pos 0 ks = forallb (fun p => has_def p || (is_kind PK p && mem (pname p) ks)) pos.
Proof. induction pos as [|p pos IH]; cbn [req_pos forallb]; [reflexivity|]. rewrite IH. reflexivity. Qed.

(* weak kind discipline of a classified signature *)
Definition wk (S : sorted) : Prop :=
  (forall q, In q (posargs S ++ pokargs S) -> is_positional q = true) /\
  (forall q, In q (kwoargs S) -> pkind q = KO) /\
  (forall q, varargs S = Some q -> pkind q = VP) /\
  (forall q, varkwargs S = Some q -> pkind q = VK).

Lemma kinds_ok_wk S : kinds_ok S -> wk S.
Proof.
  intros (H1 & H2 & H3 & H4 & H5). rewrite Forall_forall in H1, H2, H4. repeat split; auto.
  intros q Hq. apply in_app_or in Hq. unfold is_positional.
  destruct Hq as [Hq|Hq]; [rewrite (H1 q Hq)|rewrite (H2 q Hq)]; reflexivity.
Qed.

Lemma flatten_regroup S :
  flatten S = (posargs S ++ pokargs S) ++ opt_list (varargs S) ++ kwoargs S ++ opt_list (varkwargs S).
Proof. unfold flatten. rewrite <- !app_assoc. reflexivity. Qed.

Lemma opt_list_in {A} (o : option A) x : In x (opt_list o) -> o = Some x.
Proof. destruct o; cbn; [intros [->|[]]; reflexivity|tauto]. Qed.

Lemma flat_positional S : wk S -> positional (flatten S) = posargs S ++ pokargs S.
Proof.
  intros (H1 & H2 & H3 & H4). rewrite flatten_regroup. unfold positional.
  remember (posargs S ++ pokargs S) as P. rewrite !filter_app.
  rewrite (filter_all _ _ H1).
  rewrite (filter_none _ (opt_list (varargs S))), (filter_none _ (kwoargs S)),
          (filter_none _ (opt_list (varkwargs S))).
  - rewrite !app_nil_r. reflexivity.
  - intros q Hq. apply opt_list_in in Hq. unfold is_positional. rewrite (H4 q Hq). reflexivity.
  - intros q Hq. unfold is_positional. rewrite (H2 q Hq). reflexivity.
  - intros q Hq. apply opt_list_in in Hq. unfold is_positional. rewrite (H3 q Hq). reflexivity.
Qed.

Lemma is_kind_positional k q : is_positional q = true -> (k = VP \/ k = KO \/ k = VK) -> is_kind k q = false.
Proof.
  unfold is_positional, is_kind, kind_eqb. destruct (pkind q); try discriminate; intros _ [->|[->| ->]]; reflexivity.
Qed.

Lemma flat_kwonly S : wk S -> kwonly (flatten S) = kwoargs S.
Proof.
  intros (H1 & H2 & H3 & H4). rewrite flatten_regroup. unfold kwonly.
  remember (posargs S ++ pokargs S) as P. rewrite !filter_app.
  rewrite (filter_none _ P), (filter_none _ (opt_list (varargs S))),
          (filter_all _ (kwoargs S)), (filter_none _ (opt_list (varkwargs S))).
  - rewrite app_nil_r. reflexivity.
  - intros q Hq. apply opt_list_in in Hq. unfold is_kind. rewrite (H4 q Hq). reflexivity.
  - intros q Hq. unfold is_kind. rewrite (H2 q Hq). reflexivity.
  - intros q Hq. apply opt_list_in in Hq. unfold is_kind. rewrite (H3 q Hq). reflexivity.
  - intros q Hq. apply is_kind_positional; auto.
Qed.

Lemma flat_vp S : wk S -> has_kind VP (flatten S) = isSome (varargs S).
Proof.
  intros (H1 & H2 & H3 & H4). rewrite flatten_regroup. unfold has_kind.
  remember (posargs S ++ pokargs S) as P. rewrite !existsb_app.
  rewrite (existsb_none _ P), (existsb_none _ (kwoargs S)),
          (existsb_none _ (opt_list (varkwargs S))).
  - rewrite !orb_false_r. destruct (varargs S) as [v|] eqn:E; [|reflexivity].
    cbn. unfold is_kind. rewrite (H3 v eq_refl). reflexivity.
  - intros q Hq. apply opt_list_in in Hq. unfold is_kind. rewrite (H4 q Hq). reflexivity.
  - intros q Hq. unfold is_kind. rewrite (H2 q Hq). reflexivity.
  - intros q Hq. apply is_kind_positional; auto.
Qed.

Lemma flat_vk S : wk S -> has_kind VK (flatten S) = isSome (varkwargs S).
Proof.
  intros (H1 & H2 & H3 & H4). rewrite flatten_regroup. unfold has_kind.
  remember (posargs S ++ pokargs S) as P. rewrite !existsb_app.
  rewrite (existsb_none _ P), (existsb_none _ (kwoargs S)),
          (existsb_none _ (opt_list (varargs S))).
  - cbn [orb]. destruct (varkwargs S) as [v|] eqn:E; [|reflexivity].
    cbn. unfold is_kind. rewrite (H4 v eq_refl). reflexivity.
  - intros q Hq. apply opt_list_in in Hq. unfold is_kind. rewrite (H3 q Hq). reflexivity.
  - intros q Hq. unfold is_kind. rewrite (H2 q Hq). reflexivity.
  - intros q Hq. apply is_kind_positional; auto.
Qed.

(* pure-positional calls *)
Lemma accepts_pos_closed S n : wk S ->
  accepts (flatten S) (mkCall n []) =
  (Nat.leb n (length (posargs S ++ pokargs S)) || isSome (varargs S))
  && forallb has_def (skipn n (posargs S ++ pokargs S))
  && forallb has_def (kwoargs S).
Proof.
  intros W. unfold accepts, req_kwo. cbn [npos kws forallb].
  rewrite (flat_positional S W), (flat_kwonly S W), (flat_vp S W), req_pos_nil, andb_true_r.
  f_equal. apply forallb_ext. intros p. cbn [mem]. apply orb_false_r.
Qed.

(* pure-keyword calls *)
Lemma accepts_kw_closed S ks : wk S ->
  accepts (flatten S) (mkCall 0 ks) =
  forallb (kw_ok (flatten S) 0) ks
  && forallb (fun p => has_def p || (is_kind PK p && mem (pname p) ks)) (posargs S ++ pokargs S)
  && forallb (fun p => has_def p || mem (pname p) ks) (kwoargs S).
Proof.
  intros W. unfold accepts, req_kwo. cbn [npos kws Nat.leb orb andb].
  rewrite (flat_positional S W), (flat_kwonly S W), req_pos_zero. reflexivity.
Qed.

(* a keyword accepted with no positional argument names a PK / KO parameter or
   goes to the star-kwargs *)
Lemma kw_class_pos_direct_inv pos k : forall n,
  kw_class_pos pos n k = Some KDirect -> exists q, In q pos /\ pkind q = PK /\ pname q = k.
Proof.
  induction pos as [|p pos IH]; intros n; cbn [kw_class_pos]; [discriminate|].
  destruct (N.eqb_spec k (pname p)) as [E|_].
  - destruct (pkind p) eqn:Ek; try discriminate. intros _. exists p. split; [left; reflexivity|auto].
  - intros H. destruct (IH _ H) as [q [Hq Hr]]. exists q. split; [right; exact Hq|exact Hr].
Qed.

Lemma kw_ok_zero_inv S k : wk S -> kw_ok (flatten S) 0 k = true ->
  isSome (varkwargs S) = true \/
  (exists q, In q (posargs S ++ pokargs S) /\ pkind q = PK /\ pname q = k) \/
  In k (names_of (kwoargs S)).
Proof.
  intros W. unfold kw_ok, kw_class. rewrite (flat_positional S W), (flat_kwonly S W), (flat_vk S W).
  destruct (kw_class_pos (posargs S ++ pokargs S) 0 k) as [c|] eqn:E.
  - destruct c; [|discriminate|auto]. intros _. right. left. eapply kw_class_pos_direct_inv. exact E.
  - destruct (mem k (names_of (kwoargs S))) eqn:Em; [|auto]. intros _. right. right. apply mem_In. exact Em.
Qed.

Lemma kw_class_pos_zero_direct pos p :
  NoDup (names_of pos) -> In p pos -> pkind p = PK -> kw_class_pos pos 0 (pname p) = Some KDirect.
Proof.
  induction pos as [|q pos IH]; intros Hn Hp Hk; [destruct Hp|].
  cbn [names_of map] in Hn. inversion Hn as [|? ? Hq Hn']; subst. cbn [kw_class_pos].
  destruct (N.eqb_spec (pname p) (pname q)) as [E|NE].
  - destruct Hp as [->|Hp]; [rewrite Hk; reflexivity|].
    exfalso. apply Hq. rewrite <- E. apply in_names. exact Hp.
  - destruct Hp as [->|Hp]; [congruence|]. cbn [Nat.pred]. apply IH; assumption.
Qed.

Lemma kw_class_pos_zero_nodup pos k : kw_class_pos pos 0 k <> Some KDup.
Proof.
  induction pos as [|p pos IH]; cbn [kw_class_pos]; [discriminate|].
  destruct (N.eqb k (pname p)); [destruct (pkind p); discriminate|exact IH].
Qed.

(* sufficient condition on the input side *)
Lemma kw_ok_zero_intro S k : wk S ->
  NoDup (names_of (posargs S ++ pokargs S ++ kwoargs S)) ->
  isSome (varkwargs S) = true \/
  (exists q, In q (posargs S ++ pokargs S) /\ pkind q = PK /\ pname q = k) \/
  In k (names_of (kwoargs S)) ->
  kw_ok (flatten S) 0 k = true.
Proof.
  intros W Hn H. unfold kw_ok, kw_class.
  rewrite (flat_positional S W), (flat_kwonly S W), (flat_vk S W).
  destruct H as [H|[H|H]].
  - rewrite H. pose proof (kw_class_pos_zero_nodup (posargs S ++ pokargs S) k) as Hd.
    destruct (kw_class_pos _ 0 k) as [[| |]|]; try reflexivity; [congruence|].
    destruct (mem k (names_of (kwoargs S))); reflexivity.
  - destruct H as [q [Hq [Hk <-]]].
    rewrite app_assoc, names_app in Hn. apply nodup_app_l in Hn.
    rewrite (kw_class_pos_zero_direct _ q Hn Hq Hk). reflexivity.
  - rewrite kw_class_pos_foreign.
    + apply mem_In in H. rewrite H. reflexivity.
    + intros Hin. rewrite app_assoc, names_app in Hn.
      exact (nodup_app_disjoint _ _ k Hn Hin H).
Qed.
