(* SupportAccepts.v -- C20: the value-level CPython binder [bindv] of
   Model/Support.v succeeds exactly on the call shapes that the shape-level
   binder [accepts] of Model/Bind.v accepts, for ALL valid signatures and calls
   (so far only evaluated case by case in the correspondence run). *)
From Coq Require Import List NArith Bool Arith Lia.
From Sigtools.Model Require Import Base Bind Algebra Support.
From Sigtools.Proofs Require Import SmallModel Support SupportFull.
Import ListNotations.
Open Scope N_scope.

Definition is_dup (L : list param) (n : nat) (k : name) : bool :=
  match kw_class_pos L n k with Some KDup => true | _ => false end.

Lemma is_some_opt_cons x o : is_some (opt_cons x o) = is_some o.
Proof. destruct o; reflexivity. Qed.

Definition keyed (kws : list (name * N)) (p : param) : bool :=
  has_def p || mem (pname p) (map fst kws).

(* the positional parameters *)
Lemma walk_pos kws ex L : forall args R,
  all_pos L -> NoDup (names_of L) ->
  is_some (bindv_go (L ++ R) args kws ex)
  = forallb (fun k => negb (is_dup L (length args) k)) (map fst kws)
    && req_pos L (length args) (map fst kws)
    && is_some (bindv_go R (skipn (length L) args) kws ex).
Proof.
  induction L as [|p L IH]; intros args R HL ND.
  - cbn [app length skipn req_pos]. unfold is_dup. cbn [kw_class_pos].
    assert (E : forallb (fun _ : name => negb false) (map fst kws) = true)
      by (apply forallb_forall; intros; reflexivity).
    rewrite E. reflexivity.
  - cbn [names_of map] in ND. inversion ND as [|? ? Hnot ND']; subst.
    assert (HL' : all_pos L) by (intros q Hq; apply HL; right; exact Hq).
    assert (Hfor : forall n, kw_class_pos L n (pname p) = None)
      by (intros n; apply kw_class_pos_foreign; exact Hnot).
    cbn [app]. rewrite bindv_go_cons.
    destruct args as [|v args].
    + (* no positional argument left *)
      cbn [length skipn].
      assert (Ed : forallb (fun k => negb (is_dup (p :: L) 0 k)) (map fst kws)
                   = forallb (fun k => negb (is_dup L 0 k)) (map fst kws)).
      { apply forallb_ext_in'. intros k _. unfold is_dup. cbn [kw_class_pos Nat.pred].
        destruct (N.eqb k (pname p)) eqn:Ek; [|reflexivity].
        apply N.eqb_eq in Ek. subst k. rewrite Hfor. destruct (pkind p); reflexivity. }
      rewrite Ed. specialize (IH [] R HL' ND'). cbn [length] in IH.
      assert (Es : skipn (length L) (@nil N) = []) by (destruct (length L); reflexivity).
      rewrite Es in IH.
      cbn [req_pos]. unfold headval, step_args.
      destruct (HL p (or_introl eq_refl)) as [Hk|Hk]; rewrite Hk.
      * unfold is_kind, kind_eqb. rewrite Hk. cbn [kind_rank Nat.eqb andb orb tl].
        unfold has_def. destruct (pdef p); cbn [option_map].
        -- rewrite is_some_opt_cons, IH. cbn [orb andb].
           destruct (forallb (fun k => negb (is_dup L 0 k)) (map fst kws)); reflexivity.
        -- cbn [orb andb is_some]. rewrite andb_false_r. reflexivity.
      * unfold is_kind, kind_eqb. rewrite Hk. cbn [kind_rank Nat.eqb andb orb tl].
        rewrite <- dhas_mem. unfold dhas, has_def.
        destruct (dget kws (pname p)); [|destruct (pdef p); cbn [option_map]].
        -- rewrite is_some_opt_cons, IH. rewrite orb_true_r. cbn [andb].
           destruct (forallb (fun k => negb (is_dup L 0 k)) (map fst kws)); reflexivity.
        -- rewrite is_some_opt_cons, IH. cbn [orb andb].
           destruct (forallb (fun k => negb (is_dup L 0 k)) (map fst kws)); reflexivity.
        -- cbn [orb andb is_some]. rewrite andb_false_r. reflexivity.
    + (* bound positionally *)
      cbn [length skipn req_pos].
      specialize (IH args R HL' ND').
      unfold headval, step_args.
      destruct (HL p (or_introl eq_refl)) as [Hk|Hk]; rewrite Hk; cbn [tl].
      * assert (Ed : forallb (fun k => negb (is_dup (p :: L) (S (length args)) k)) (map fst kws)
                     = forallb (fun k => negb (is_dup L (length args) k)) (map fst kws)).
        { apply forallb_ext_in'. intros k _. unfold is_dup. cbn [kw_class_pos Nat.pred].
          destruct (N.eqb k (pname p)) eqn:Ek; [|reflexivity].
          apply N.eqb_eq in Ek. subst k. rewrite Hfor, Hk. reflexivity. }
        rewrite Ed, is_some_opt_cons, IH. reflexivity.
      * rewrite (forallb_point (fun k => negb (is_dup (p :: L) (S (length args)) k))
                               (fun k => negb (is_dup L (length args) k)) (pname p)).
        -- assert (Ef : negb (is_dup (p :: L) (S (length args)) (pname p)) = false).
           { unfold is_dup. cbn [kw_class_pos]. rewrite N.eqb_refl, Hk. reflexivity. }
           rewrite Ef, orb_false_r. rewrite <- dhas_mem.
           destruct (dhas kws (pname p)); cbn [negb andb]; [reflexivity|].
           rewrite is_some_opt_cons, IH. reflexivity.
        -- intros k Hk'. unfold is_dup. cbn [kw_class_pos Nat.pred].
           assert (Ek : N.eqb k (pname p) = false) by (apply N.eqb_neq; exact Hk'). rewrite Ek. reflexivity.
        -- intros _. unfold is_dup. rewrite Hfor. reflexivity.
Qed.

Definition nilb {A} (l : list A) : bool := match l with [] => true | _ => false end.

(* keyword-only parameters and **kwargs *)
Lemma walk_kw kws ex K W : forall a, all_kind KO K -> all_kind VK W -> (length W <= 1)%nat ->
  is_some (bindv_go (K ++ W) a kws ex) = forallb (keyed kws) K && nilb a.
Proof.
  induction K as [|p K IH]; intros a HK HW HlW.
  - cbn [app forallb andb]. destruct W as [|w [|w2 W]]; cbn [length] in HlW; try lia.
    + cbn [bindv_go]. destruct a; reflexivity.
    + cbn [bindv_go]. rewrite (HW w (or_introl eq_refl)). rewrite is_some_opt_cons. destruct a; reflexivity.
  - cbn [app forallb]. rewrite bindv_go_cons. unfold headval, step_args.
    rewrite (HK p (or_introl eq_refl)). unfold keyed at 1. rewrite <- dhas_mem. unfold dhas, has_def.
    specialize (IH a (all_kind_tail _ _ _ HK) HW HlW).
    destruct (dget kws (pname p)); [|destruct (pdef p); cbn [option_map]].
    + rewrite is_some_opt_cons, IH. rewrite orb_true_r. reflexivity.
    + rewrite is_some_opt_cons, IH. reflexivity.
    + reflexivity.
Qed.

Lemma walk_rest kws ex V K W a :
  all_kind VP V -> all_kind KO K -> all_kind VK W -> (length V <= 1)%nat -> (length W <= 1)%nat ->
  is_some (bindv_go (V ++ K ++ W) a kws ex) = (nilb a || nonempty V) && forallb (keyed kws) K.
Proof.
  intros HV HK HW HlV HlW. destruct V as [|v [|v2 V]]; cbn [length] in HlV; try lia.
  - cbn [app nonempty]. rewrite (walk_kw kws ex K W a HK HW HlW). rewrite orb_false_r. apply andb_comm.
  - cbn [app nonempty]. rewrite bindv_go_cons. unfold headval, step_args.
    rewrite (HV v (or_introl eq_refl)). rewrite is_some_opt_cons.
    rewrite (walk_kw kws ex K W [] HK HW HlW). rewrite orb_true_r. cbn [nilb]. rewrite andb_true_r. reflexivity.
Qed.

(* ------------------------------------------------ the shape-level binder *)
Definition is_extra (ps : list param) (n : nat) (k : name) : bool :=
  match kw_class ps n k with KExtra => true | _ => false end.

Lemma find_param_app k A B :
  find_param k (A ++ B) = match find_param k A with Some p => Some p | None => find_param k B end.
Proof.
  induction A as [|p A IH]; [reflexivity|]. cbn [app find_param].
  destruct (N.eqb k (pname p)); [reflexivity|exact IH].
Qed.

Lemma find_param_some k l q : find_param k l = Some q -> In q l /\ pname q = k.
Proof.
  induction l as [|p l IH]; cbn [find_param]; [discriminate|].
  destruct (N.eqb k (pname p)) eqn:E.
  - intros H. inversion H; subst q. apply N.eqb_eq in E. split; [left; reflexivity|congruence].
  - intros H. destruct (IH H) as [H1 H2]. split; [right; exact H1|exact H2].
Qed.

Lemma kcp_find k L : all_pos L -> forall n,
  match find_param k L with
  | None => kw_class_pos L n k = None
  | Some p => (pkind p = PO /\ kw_class_pos L n k = Some KExtra)
              \/ (pkind p = PK /\ (kw_class_pos L n k = Some KDirect \/ kw_class_pos L n k = Some KDup))
  end.
Proof.
  induction L as [|p L IH]; intros HL n; [reflexivity|].
  cbn [find_param kw_class_pos]. destruct (N.eqb k (pname p)) eqn:E.
  - destruct (HL p (or_introl eq_refl)) as [Hk|Hk]; rewrite Hk.
    + left. split; reflexivity.
    + right. split; [reflexivity|]. destruct n; [left|right]; reflexivity.
  - apply IH. intros q Hq. apply HL. right. exact Hq.
Qed.

Lemma NoDup_app_r {A} (l1 l2 : list A) : NoDup (l1 ++ l2) -> NoDup l2.
Proof.
  induction l1 as [|x l1 IH]; cbn [app]; intros H; [exact H|].
  inversion H; subst. apply IH. assumption.
Qed.

Section Shape.
Variables (L V K W : list param).
Hypothesis HL : all_pos L.
Hypothesis HV : all_kind VP V.
Hypothesis HK : all_kind KO K.
Hypothesis HW : all_kind VK W.
Hypothesis ND : NoDup (names_of (L ++ V ++ K ++ W)).
Let ps := L ++ V ++ K ++ W.

Lemma pos_of_L : positional ps = L.
Proof.
  unfold ps, positional. rewrite !filter_app.
  rewrite (filter_all is_positional L) by (intros p Hp; unfold is_positional; destruct (HL p Hp) as [E|E]; rewrite E; reflexivity).
  rewrite (filter_kind_none VP V is_positional HV) by (intros p E; unfold is_positional; rewrite E; reflexivity).
  rewrite (filter_kind_none KO K is_positional HK) by (intros p E; unfold is_positional; rewrite E; reflexivity).
  rewrite (filter_kind_none VK W is_positional HW) by (intros p E; unfold is_positional; rewrite E; reflexivity).
  rewrite !app_nil_r. reflexivity.
Qed.

Lemma kwonly_K : kwonly ps = K.
Proof.
  unfold ps, kwonly. rewrite !filter_app.
  rewrite (filter_none (is_kind KO) L)
    by (intros p Hp; unfold is_kind, kind_eqb; destruct (HL p Hp) as [E|E]; rewrite E; reflexivity).
  rewrite (filter_kind_none VP V (is_kind KO) HV) by (intros p E; rewrite (is_kind_of VP KO p E); reflexivity).
  rewrite (filter_kind_all KO K (is_kind KO) HK) by (intros p E; rewrite (is_kind_of KO KO p E); reflexivity).
  rewrite (filter_kind_none VK W (is_kind KO) HW) by (intros p E; rewrite (is_kind_of VK KO p E); reflexivity).
  rewrite app_nil_r. reflexivity.
Qed.

Lemma existsb_kind_none k k' A : all_kind k' A -> kind_eqb k' k = false -> existsb (is_kind k) A = false.
Proof.
  intros HA Hk. induction A as [|p A IH]; [reflexivity|]. cbn [existsb].
  rewrite (is_kind_of k' k p (HA p (or_introl eq_refl))), Hk. cbn [orb].
  apply IH. exact (all_kind_tail _ _ _ HA).
Qed.

Lemma existsb_kind_all k A : all_kind k A -> existsb (is_kind k) A = nonempty A.
Proof.
  intros HA. destruct A as [|p A]; [reflexivity|]. cbn [existsb nonempty].
  rewrite (is_kind_of k k p (HA p (or_introl eq_refl))). unfold kind_eqb. rewrite Nat.eqb_refl. reflexivity.
Qed.

Lemma existsb_kind_pos k A : all_pos A -> (k = VP \/ k = VK) -> existsb (is_kind k) A = false.
Proof.
  intros HA Hk. induction A as [|p A IH]; [reflexivity|]. cbn [existsb].
  rewrite IH by (intros q Hq; apply HA; right; exact Hq). rewrite orb_false_r.
  unfold is_kind, kind_eqb. destruct (HA p (or_introl eq_refl)) as [E|E]; rewrite E;
    destruct Hk as [-> | ->]; reflexivity.
Qed.

Lemma has_vp : has_kind VP ps = nonempty V.
Proof.
  unfold ps, has_kind. rewrite !existsb_app.
  rewrite (existsb_kind_pos VP L HL (or_introl eq_refl)), (existsb_kind_all VP V HV),
          (existsb_kind_none VP KO K HK eq_refl), (existsb_kind_none VP VK W HW eq_refl).
  rewrite !orb_false_r. reflexivity.
Qed.

Lemma has_vk : has_kind VK ps = nonempty W.
Proof.
  unfold ps, has_kind. rewrite !existsb_app.
  rewrite (existsb_kind_pos VK L HL (or_intror eq_refl)), (existsb_kind_none VK VP V HV eq_refl),
          (existsb_kind_none VK KO K HK eq_refl), (existsb_kind_all VK W HW).
  reflexivity.
Qed.

(* a keyword goes to **kwargs exactly when it names no regular / keyword-only
   parameter, whatever the number of positional arguments *)
Lemma extra_iff n k : is_extra ps n k = negb (kwpassable_name ps k).
Proof.
  rewrite (kwpassable_cls ps k ND). unfold is_extra, kw_class. rewrite pos_of_L, kwonly_K.
  unfold cls, ps. rewrite find_param_app.
  pose proof (kcp_find k L HL n) as Hc.
  destruct (find_param k L) as [p|] eqn:F.
  - destruct Hc as [[Hk Hc]|[Hk [Hc|Hc]]]; rewrite Hc, Hk; reflexivity.
  - rewrite Hc.
    assert (NDR : NoDup (names_of (V ++ K ++ W))).
    { unfold ps in ND. rewrite names_of_app in ND. exact (NoDup_app_r _ _ ND). }
    destruct (mem k (names_of K)) eqn:M.
    + apply SupportFull.mem_In' in M. unfold names_of in M. apply in_map_iff in M. destruct M as [q [Eq Hq]].
      subst k. rewrite (find_param_in (V ++ K ++ W) q NDR)
        by (apply in_or_app; right; apply in_or_app; left; exact Hq).
      rewrite (HK q Hq). reflexivity.
    + destruct (find_param k (V ++ K ++ W)) as [q|] eqn:F2; [|reflexivity].
      apply find_param_some in F2. destruct F2 as [Hq Ek].
      apply in_app_or in Hq. destruct Hq as [Hq|Hq]; [rewrite (HV q Hq); reflexivity|].
      apply in_app_or in Hq. destruct Hq as [Hq|Hq]; [|rewrite (HW q Hq); reflexivity].
      exfalso. assert (Hin : In k (names_of K)) by (rewrite <- Ek; apply in_map; exact Hq).
      apply SupportFull.mem_In' in Hin. congruence.
Qed.

Lemma kw_ok_split n k :
  kw_ok ps n k = negb (is_dup L n k) && (kwpassable_name ps k || nonempty W).
Proof.
  pose proof (extra_iff n k) as He. unfold is_extra in He.
  unfold kw_ok. rewrite has_vk. unfold is_dup.
  unfold kw_class in *. rewrite pos_of_L in *. 
  destruct (kw_class_pos L n k) as [[]|]; cbn [negb andb];
    try (destruct (mem k (names_of (kwonly ps))));
    destruct (kwpassable_name ps k); cbn [negb orb] in *; try discriminate; try reflexivity.
Qed.

End Shape.

Lemma forallb_andb {A} (f g : A -> bool) l :
  forallb (fun x => f x && g x) l = forallb f l && forallb g l.
Proof.
  induction l as [|x l IH]; [reflexivity|]. cbn [forallb]. rewrite IH.
  destruct (f x), (g x), (forallb f l), (forallb g l); reflexivity.
Qed.

Lemma extras_forallb ps (h : bool) kws :
  forallb (fun k => kwpassable_name ps k || h) (map fst kws)
  = nilb (filter (kw_extra ps) kws) || h.
Proof.
  destruct h.
  - rewrite orb_true_r. apply forallb_forall. intros k _. apply orb_true_r.
  - rewrite orb_false_r. induction kws as [|kv kws IH]; [reflexivity|].
    cbn [map forallb filter]. unfold kw_extra at 1. rewrite orb_false_r.
    destruct (kwpassable_name ps (fst kv)); cbn [negb andb nilb]; [exact IH|reflexivity].
Qed.

Lemma nilb_skipn {A} (l : list A) n : nilb (skipn n l) = Nat.leb (length l) n.
Proof.
  revert l. induction n as [|n IH]; intros l; destruct l as [|x l]; cbn [skipn nilb length Nat.leb]; try reflexivity.
  apply IH.
Qed.

Lemma NoDup_app_l {A} (l1 l2 : list A) : NoDup (l1 ++ l2) -> NoDup l1.
Proof.
  induction l1 as [|x l1 IH]; cbn [app]; intros H; [constructor|].
  inversion H as [|? ? Hn Hd]; subst. constructor; [|apply IH; exact Hd].
  intros Hin. apply Hn. apply in_or_app. left. exact Hin.
Qed.

Lemma is_some_bindv ps args kws :
  is_some (bindv ps args kws)
  = (nilb (filter (kw_extra ps) kws) || has_kind VK ps)
    && is_some (bindv_go ps args kws (filter (kw_extra ps) kws)).
Proof.
  unfold bindv. destruct (filter (kw_extra ps) kws); cbn [nilb orb andb]; [reflexivity|].
  destruct (has_kind VK ps); reflexivity.
Qed.

(* C20: the two models of CPython's binding agree on acceptance, for every
   valid signature and every call *)
Theorem bindv_iff_accepts ps args kws :
  valid_sig ps = true ->
  is_some (bindv ps args kws) = accepts ps (mkCall (length args) (map fst kws)).
Proof.
  intros Hv.
  pose proof (valid_sig_nodup ps Hv) as ND.
  destruct (valid_sig_shape ps Hv) as (O & P & V & K & W & E & HO & HP & HV & HK & HW & HlV & HlW).
  set (L := O ++ P).
  assert (HL : all_pos L).
  { intros p Hp. apply in_app_or in Hp. destruct Hp as [Hp|Hp]; [left; exact (HO p Hp)|right; exact (HP p Hp)]. }
  assert (E' : ps = L ++ V ++ K ++ W) by (unfold L; rewrite <- app_assoc; exact E).
  assert (ND' : NoDup (names_of (L ++ V ++ K ++ W))) by (rewrite <- E'; exact ND).
  assert (NDL : NoDup (names_of L)).
  { rewrite names_of_app in ND'. exact (NoDup_app_l _ _ ND'). }
  rewrite is_some_bindv. rewrite E' at 3.
  rewrite (walk_pos kws _ L args (V ++ K ++ W) HL NDL).
  rewrite (walk_rest kws _ V K W _ HV HK HW HlV HlW).
  rewrite nilb_skipn.
  unfold accepts. cbn [npos Bind.kws].
  rewrite E'.
  rewrite (pos_of_L L V K W HL HV HK HW), (has_vp L V K W HL HV HK HW).
  rewrite (forallb_ext_in' _ _ _ (fun k _ => kw_ok_split L V K W HL HV HK HW ND' (length args) k)).
  rewrite forallb_andb, extras_forallb.
  unfold req_kwo. rewrite (kwonly_K L V K W HL HV HK HW).
  rewrite <- (has_vk L V K W HL HV HK HW).
  fold (keyed kws).
  set (b1 := nilb (filter (kw_extra (L ++ V ++ K ++ W)) kws) || has_kind VK (L ++ V ++ K ++ W)).
  set (b2 := forallb (fun k => negb (is_dup L (length args) k)) (map fst kws)).
  set (b3 := req_pos L (length args) (map fst kws)).
  set (b4 := Nat.leb (length args) (length L) || nonempty V).
  set (b5 := forallb (keyed kws) K).
  destruct b1, b2, b3, b4, b5; reflexivity.
Qed.

Example bindv_iff_accepts_example :
  valid_sig [pp 1 PO None None; pp 2 PK (Some 5) None; pp 9 VP None None; pp 3 KO None None; pp 10 VK None None] = true
  /\ is_some (bindv [pp 1 PO None None; pp 2 PK (Some 5) None; pp 9 VP None None; pp 3 KO None None; pp 10 VK None None]
                    [101; 102; 103] [(3, 201); (1, 202)]) = true.
Proof. split; vm_compute; reflexivity. Qed.

Print Assumptions bindv_iff_accepts.

(* hence bind_callsig decides acceptance like the shape-level CPython model *)
Theorem bind_callsig_iff_accepts ps args kws :
  valid_sig ps = true -> NoDup (map fst kws) -> po_kw_collision ps kws = false ->
  match bind_callsig ps args kws with
  | BOk _ => accepts ps (mkCall (length args) (map fst kws)) = true
  | BErr _ => accepts ps (mkCall (length args) (map fst kws)) = false
  end.
Proof.
  intros Hv NK Hc. pose proof (bind_callsig_bindv ps args kws Hv NK Hc) as H.
  rewrite <- (bindv_iff_accepts ps args kws Hv).
  destruct (bind_callsig ps args kws); destruct (bindv ps args kws); try contradiction; reflexivity.
Qed.

Print Assumptions bind_callsig_iff_accepts.
