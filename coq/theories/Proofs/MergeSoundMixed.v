(* MergeSoundMixed.v -- C01 for ALL signature pairs and ALL non-colliding calls
   (mixed positional + keyword) under role consistency: index-aware invariants
   carried through every stage of the binary merger. *)
From Sigtools.Model Require Import Base Bind Roles Algebra.
From Sigtools.Proofs Require Import SmallModel Basics MaskLaws MaskExact MergeNeutral MergeIdem
     MergeSoundBase MergeSoundInv MergeSound.
From Coq Require Import Lia.

(* ------------------------------------------------------------------ *)
(* the result positional at index i against the input positional at i   *)

Definition rel (c p : param) : Prop :=
  (has_def p = false -> has_def c = false) /\ (pkind c = PK -> pkind p = PK /\ pname p = pname c).

Lemma rel_cv c c' p : cv c c' -> rel c p -> rel c' p.
Proof.
  intros [-> | ->] [R1 R2]; [split; assumption|]. split; [exact R1|]. cbn. discriminate.
Qed.

Lemma rel_self p : rel p p.
Proof. split; auto. Qed.

(* the result positionals grow at the END (and may be re-kinded to PO) *)
Definition estep (xs ys newP : list param) : Prop := exists xs', convl xs xs' /\ ys = xs' ++ newP.

Lemma convl_nth xs ys : convl xs ys ->
  forall i v, nth_error ys i = Some v -> exists u, nth_error xs i = Some u /\ cv u v.
Proof.
  induction 1 as [|u0 v0 xs ys Huv _ IH]; intros [|i] v Hv; cbn [nth_error] in *; try discriminate.
  - inversion Hv; subst. eauto.
  - apply IH. exact Hv.
Qed.

Lemma estep_length xs ys n : estep xs ys n -> length ys = (length xs + length n)%nat.
Proof. intros (xs' & Hc & ->). rewrite app_length, (convl_length _ _ Hc). reflexivity. Qed.

Lemma estep_old xs ys n i v :
  estep xs ys n -> nth_error ys i = Some v -> (i < length xs)%nat ->
  exists u, nth_error xs i = Some u /\ cv u v.
Proof.
  intros (xs' & Hc & ->) Hv Hi. rewrite nth_error_app1 in Hv by (rewrite (convl_length _ _ Hc); exact Hi).
  eapply convl_nth; eassumption.
Qed.

Lemma estep_new xs ys c i v :
  estep xs ys [c] -> nth_error ys i = Some v -> (length xs <= i)%nat -> i = length xs /\ v = c.
Proof.
  intros (xs' & Hc & ->) Hv Hi. pose proof (convl_length _ _ Hc) as El.
  rewrite nth_error_app2 in Hv by lia. rewrite El in Hv.
  destruct (i - length xs)%nat as [|k] eqn:Ek; cbn [nth_error] in Hv.
  - inversion Hv. split; [lia|reflexivity].
  - destruct k; discriminate.
Qed.

Lemma estep_pos st st' newP :
  m_pok st = [] -> m_pos st' = m_pos st ++ newP -> m_pok st' = [] -> estep (RP st) (RP st') newP.
Proof.
  intros E0 E1 E2. exists (RP st). split; [apply convl_refl|]. unfold RP. rewrite E0, E1, E2, !app_nil_r. reflexivity.
Qed.

Lemma estep_pok st st' newP :
  m_pos st' = m_pos st -> m_pok st' = m_pok st ++ newP -> estep (RP st) (RP st') newP.
Proof.
  intros E1 E2. exists (RP st). split; [apply convl_refl|]. unfold RP. rewrite E1, E2, app_assoc. reflexivity.
Qed.

Lemma estep_conv_pok st st' newP :
  m_pos st' = m_pos st -> m_pok st' = map (set_kind PO) (m_pok st) ++ newP -> estep (RP st) (RP st') newP.
Proof.
  intros E1 E2. exists (m_pos st ++ map (set_kind PO) (m_pok st)). split.
  - apply convl_app; [apply convl_refl|apply convl_map].
  - unfold RP. rewrite E1, E2, app_assoc. reflexivity.
Qed.

Lemma estep_conv_pos st st' newP :
  m_pos st' = m_pos st ++ map (set_kind PO) (m_pok st) ++ newP -> m_pok st' = [] ->
  estep (RP st) (RP st') newP.
Proof.
  intros E1 E2. exists (m_pos st ++ map (set_kind PO) (m_pok st)). split.
  - apply convl_app; [apply convl_refl|apply convl_map].
  - unfold RP. rewrite E1, E2, app_nil_r, app_assoc. reflexivity.
Qed.

Lemma nth_error_snoc {A} (d : list A) e j p :
  nth_error (d ++ [e]) j = Some p ->
  ((j < length d)%nat /\ nth_error d j = Some p) \/ (j = length d /\ p = e).
Proof.
  intros H. destruct (Nat.lt_ge_cases j (length d)) as [Hl|Hg].
  - left. rewrite nth_error_app1 in H by exact Hl. auto.
  - right. rewrite nth_error_app2 in H by exact Hg.
    destruct (j - length d)%nat as [|k] eqn:Ek; cbn [nth_error] in H.
    + inversion H. split; [lia|reflexivity].
    + destruct k; discriminate.
Qed.

Lemma nth_error_names_inj (xs : list param) i j p q :
  NoDup (names_of xs) -> nth_error xs i = Some p -> nth_error xs j = Some q -> pname p = pname q -> i = j.
Proof.
  revert i j. induction xs as [|x xs IH]; intros i j Hn Hi Hj E; [destruct i; discriminate|].
  cbn [names_of map] in Hn. inversion Hn as [|? ? Hx Hn']; subst.
  destruct i as [|i], j as [|j]; cbn [nth_error] in *.
  - reflexivity.
  - inversion Hi; subst. exfalso. apply Hx. rewrite E. apply in_names. eapply nth_error_In. exact Hj.
  - inversion Hj; subst. exfalso. apply Hx. rewrite <- E. apply in_names. eapply nth_error_In. exact Hi.
  - f_equal. eapply IH; eassumption.
Qed.

Lemma nth_error_mid {A} (d : list A) e rest : nth_error (d ++ e :: rest) (length d) = Some e.
Proof. rewrite nth_error_app2 by lia. rewrite Nat.sub_diag. reflexivity. Qed.

(* ------------------------------------------------------------------ *)
(* closed forms of accepts for an arbitrary call                        *)

Lemma req_pos_general P : forall n ks,
  req_pos P n ks = forallb (fun p => has_def p || (is_kind PK p && mem (pname p) ks)) (skipn n P).
Proof.
  intros n ks. rewrite <- req_pos_zero. rewrite (req_pos_skip P n 0 ks), Nat.add_0_r. reflexivity.
Qed.

Lemma forallb_skipn_nth {A} (f : A -> bool) (xs : list A) : forall n,
  forallb f (skipn n xs) = true <-> (forall j p, nth_error xs j = Some p -> (n <= j)%nat -> f p = true).
Proof.
  induction xs as [|x xs IH]; intros n.
  - destruct n; cbn; split; auto; intros _ j p H; destruct j; discriminate.
  - destruct n as [|n].
    + cbn [skipn]. rewrite forallb_forall. split.
      * intros H j p Hp _. apply H. eapply nth_error_In. exact Hp.
      * intros H p Hp. destruct (In_nth_error _ _ Hp) as [j Hj]. apply (H j p Hj). lia.
    + cbn [skipn]. rewrite IH. split.
      * intros H [|j] p Hp Hj; [lia|]. cbn [nth_error] in Hp. apply (H j p Hp). lia.
      * intros H j p Hp Hj. apply (H (S j) p); [exact Hp|lia].
Qed.

Lemma kw_class_pos_nth P : forall n j p,
  NoDup (names_of P) -> nth_error P j = Some p ->
  kw_class_pos P n (pname p) =
  Some (match pkind p with PK => if Nat.ltb j n then KDup else KDirect | _ => KExtra end).
Proof.
  induction P as [|q P IH]; intros n j p Hn Hp; [destruct j; discriminate|].
  cbn [names_of map] in Hn. inversion Hn as [|? ? Hq Hn']; subst. cbn [kw_class_pos].
  destruct (N.eqb_spec (pname p) (pname q)) as [E|NE].
  - destruct j as [|j]; cbn [nth_error] in Hp.
    + inversion Hp; subst q. destruct (pkind p); try reflexivity. destruct n; reflexivity.
    + exfalso. apply Hq. rewrite <- E. apply in_names. eapply nth_error_In. exact Hp.
  - destruct j as [|j]; cbn [nth_error] in Hp; [inversion Hp; subst; congruence|].
    rewrite (IH (Nat.pred n) j p Hn' Hp). destruct (pkind p); try reflexivity.
    destruct n as [|n]; reflexivity.
Qed.

(* a keyword naming a positional-or-keyword parameter of index i is accepted
   only when i is not filled positionally *)
Lemma kw_ok_pk_idx A n i q :
  wk A -> NoDup (names_of (Pz A)) -> nth_error (Pz A) i = Some q -> pkind q = PK ->
  kw_ok (flatten A) n (pname q) = true -> (n <= i)%nat.
Proof.
  intros W Hn Hq Hk H. unfold kw_ok, kw_class in H. rewrite (flat_positional A W) in H. fold (Pz A) in H.
  rewrite (kw_class_pos_nth (Pz A) n i q Hn Hq), Hk in H.
  destruct (Nat.ltb_spec i n); [discriminate|assumption].
Qed.

Lemma kw_class_pos_direct_any P k : forall n,
  kw_class_pos P n k = Some KDirect -> exists q, In q P /\ pkind q = PK /\ pname q = k.
Proof. intros n. apply kw_class_pos_direct_inv. Qed.

Lemma kw_ok_inv A n k : wk A -> kw_ok (flatten A) n k = true ->
  isSome (varkwargs A) = true \/
  (exists q, In q (Pz A) /\ pkind q = PK /\ pname q = k) \/ In k (names_of (kwoargs A)).
Proof.
  intros W. unfold kw_ok, kw_class. rewrite (flat_positional A W), (flat_kwonly A W), (flat_vk A W).
  fold (Pz A). destruct (kw_class_pos (Pz A) n k) as [c|] eqn:E.
  - destruct c; [|discriminate|auto]. intros _. right. left. eapply kw_class_pos_direct_any. exact E.
  - destruct (mem k (names_of (kwoargs A))) eqn:Em; [|auto]. intros _. right. right. apply mem_In. exact Em.
Qed.

Lemma kw_ok_intro S n k :
  wk S -> NoDup (names_of (Pz S ++ kwoargs S)) ->
  (exists j p, nth_error (Pz S) j = Some p /\ pname p = k /\
               ((pkind p = PK /\ (n <= j)%nat) \/ (pkind p <> PK /\ isSome (varkwargs S) = true)))
  \/ (~ In k (names_of (Pz S)) /\ (In k (names_of (kwoargs S)) \/ isSome (varkwargs S) = true)) ->
  kw_ok (flatten S) n k = true.
Proof.
  intros W Hn H. unfold kw_ok, kw_class. rewrite (flat_positional S W), (flat_kwonly S W), (flat_vk S W).
  fold (Pz S). pose proof Hn as Hn2. rewrite names_app in Hn2. apply nodup_app_l in Hn2.
  destruct H as [(j & p & Hp & <- & Hc)|(Hnot & Hc)].
  - rewrite (kw_class_pos_nth (Pz S) n j p Hn2 Hp). destruct Hc as [[Hk Hj]|[Hk Hv]].
    + rewrite Hk. destruct (Nat.ltb_spec j n); [lia|reflexivity].
    + destruct (pkind p); try exact Hv. congruence.
  - rewrite (kw_class_pos_foreign _ n k Hnot). destruct Hc as [Hc|Hv].
    + apply mem_In in Hc. rewrite Hc. reflexivity.
    + destruct (mem k (names_of (kwoargs S))); [reflexivity|exact Hv].
Qed.

Lemma accepts_closed S n ks : wk S ->
  accepts (flatten S) (mkCall n ks) =
  (Nat.leb n (length (Pz S)) || isSome (varargs S))
  && forallb (kw_ok (flatten S) n) ks
  && forallb (fun p => has_def p || (is_kind PK p && mem (pname p) ks)) (skipn n (Pz S))
  && forallb (fun p => has_def p || mem (pname p) ks) (kwoargs S).
Proof.
  intros W. unfold accepts, req_kwo. cbn [npos kws].
  rewrite (flat_positional S W), (flat_kwonly S W), (flat_vp S W), req_pos_general. reflexivity.
Qed.

Lemma kwpassable_name_inv A k : wk A -> kwpassable_name (flatten A) k = true ->
  (exists q, In q (Pz A) /\ pkind q = PK /\ pname q = k) \/ (exists q, In q (kwoargs A) /\ pname q = k).
Proof.
  intros (W1 & W2 & W3 & W4) H. unfold kwpassable_name in H. apply existsb_exists in H.
  destruct H as [q [Hq H]]. apply andb_true_iff in H. destruct H as [Hkp Hn]. apply N.eqb_eq in Hn.
  rewrite flatten_regroup in Hq. apply in_app_or in Hq. destruct Hq as [Hq|Hq].
  - left. exists q. split; [exact Hq|]. split; [|auto].
    pose proof (W1 q Hq) as Hp. unfold is_kwpassable, is_positional in *. destruct (pkind q); try discriminate; reflexivity.
  - apply in_app_or in Hq. destruct Hq as [Hq|Hq].
    + apply opt_list_in in Hq. unfold is_kwpassable in Hkp. rewrite (W3 q Hq) in Hkp. discriminate.
    + apply in_app_or in Hq. destruct Hq as [Hq|Hq]; [right; exists q; auto|].
      apply opt_list_in in Hq. unfold is_kwpassable in Hkp. rewrite (W4 q Hq) in Hkp. discriminate.
Qed.

(* ------------------------------------------------------------------ *)
Section MX.
Variables l r : sorted.
Hypothesis Kl : kinds_ok l.
Hypothesis Kr : kinds_ok r.
Hypothesis NlF : NoDup (names_of (posargs l ++ pokargs l ++ kwoargs l)).
Hypothesis NrF : NoDup (names_of (posargs r ++ pokargs r ++ kwoargs r)).

Notation myS := (my l r).

(* what role consistency gives on the classified signatures *)
Hypothesis RCk : forall o p q, In p (pokargs (myS o)) -> In q (kwoargs (myS (flip o))) -> pname p <> pname q.
Hypothesis RCi : forall o i j p q,
  nth_error (Pz (myS o)) i = Some p -> nth_error (Pz (myS (flip o))) j = Some q -> pname p = pname q -> i = j.

Lemma Nl : NoDup (names_of (pokargs l ++ kwoargs l)).
Proof. rewrite names_app in NlF. apply nodup_app_r in NlF. exact NlF. Qed.
Lemma Nr : NoDup (names_of (pokargs r ++ kwoargs r)).
Proof. rewrite names_app in NrF. apply nodup_app_r in NrF. exact NrF. Qed.

Lemma NF_my o : NoDup (names_of (posargs (myS o) ++ pokargs (myS o) ++ kwoargs (myS o))).
Proof. destruct o; assumption. Qed.

Lemma NPz o : NoDup (names_of (Pz (myS o))).
Proof.
  pose proof (NF_my o) as H. rewrite app_assoc, names_app in H. apply nodup_app_l in H. exact H.
Qed.

Lemma Kmy o : kinds_ok (myS o).
Proof. destruct o; assumption. Qed.

Lemma Pz_kind o p : In p (Pz (myS o)) -> pkind p = PO \/ pkind p = PK.
Proof.
  destruct (Kmy o) as (K1 & K2 & _). rewrite Forall_forall in K1, K2. unfold Pz. intros H.
  apply in_app_or in H. destruct H as [H|H]; [left; auto|right; auto].
Qed.

Lemma Pz_pk o p : In p (Pz (myS o)) -> pkind p = PK -> In p (pokargs (myS o)).
Proof.
  destruct (Kmy o) as (K1 & _). rewrite Forall_forall in K1. unfold Pz. intros H Hk.
  apply in_app_or in H. destruct H as [H|H]; [rewrite (K1 p H) in Hk; discriminate|exact H].
Qed.

Lemma pkko o e p : In e (pokargs (myS o)) -> In p (kwoargs (myS o)) -> pname e <> pname p.
Proof. exact (pk_ko_disj l r Nl Nr o e p). Qed.

(* ---- the index-aware invariants ---- *)
Record MInv (o : side) (st : mstate) (d : list param) : Prop := mkMI {
  m_al : forall i c p, nth_error (RP st) i = Some c -> nth_error d i = Some p -> rel c p;
  m_lo : forall j p, nth_error d j = Some p -> (length (RP st) <= j)%nat -> has_def p = false ->
         pkind p = PK /\ exists q, In q (m_kwo st) /\ has_def q = false /\ pname q = pname p;
  m_ko : forall q j p, In q (m_kwo st) -> nth_error (Pz (myS o)) j = Some p -> pkind p = PK ->
         pname p = pname q ->
         (length (RP st) <= j)%nat /\ isSome (varargs (myS (flip o))) = false
}.

(* lengths: s is the side still being consumed, conv what is left of the other *)
Definition Ph (s : side) (st : mstate) (ds dt conv : list param) : Prop :=
  (length dt <= length (RP st))%nat /\ (length (RP st) <= length ds)%nat /\
  ((length (RP st) < length ds)%nat -> conv = [] /\ isSome (varargs (myS (flip s))) = false) /\
  ((length dt < length (RP st))%nat -> conv = []).

Definition EqL (st : mstate) (dl dr : list param) : Prop :=
  length (RP st) = length dl /\ length (RP st) = length dr.

Lemma EqL_Ph s st ds dt conv : length (RP st) = length ds -> length (RP st) = length dt -> Ph s st ds dt conv.
Proof. intros A B. unfold Ph. repeat split; intros; lia. Qed.

Lemma Ph_eq s st ds dt conv : conv <> [] -> Ph s st ds dt conv ->
  length (RP st) = length ds /\ length (RP st) = length dt.
Proof.
  intros Hc (A & B & C & D). split.
  - destruct (Nat.eq_dec (length (RP st)) (length ds)) as [E|NE]; [exact E|].
    destruct C as [C _]; [lia|contradiction].
  - destruct (Nat.eq_dec (length (RP st)) (length dt)) as [E|NE]; [exact E|].
    exfalso. apply Hc. apply D. lia.
Qed.

(* ---- generic preservation ---- *)
(* G1: the result and the done list of o both grow by one, in lockstep *)
Lemma minv_both o st st' d c p :
  estep (RP st) (RP st') [c] -> length (RP st) = length d -> m_kwo st' = m_kwo st -> rel c p ->
  (forall q p', In q (m_kwo st) -> nth_error (Pz (myS o)) (length d) = Some p' -> pkind p' = PK ->
                pname p' <> pname q) ->
  MInv o st d -> MInv o st' (d ++ [p]).
Proof.
  intros He El Hk Hr Hc [A1 A2 A3]. pose proof (estep_length _ _ _ He) as EL. cbn [length] in EL.
  constructor.
  - intros i c' p' Hc' Hp'. destruct (Nat.lt_ge_cases i (length (RP st))) as [Hi|Hi].
    + destruct (estep_old _ _ _ _ _ He Hc' Hi) as [u [Hu Hcv]].
      rewrite nth_error_app1 in Hp' by lia. exact (rel_cv _ _ _ Hcv (A1 i u p' Hu Hp')).
    + destruct (estep_new _ _ _ _ _ He Hc' Hi) as [-> ->].
      rewrite El, nth_error_app2, Nat.sub_diag in Hp' by lia. inversion Hp'; subst. exact Hr.
  - intros j p' Hp' Hj Hd. apply nth_error_snoc in Hp'. destruct Hp' as [[Hl _]|[-> _]]; lia.
  - intros q j p' Hq Hp' Hpk Hn. rewrite Hk in Hq. destruct (A3 q j p' Hq Hp' Hpk Hn) as [B1 B2].
    split; [|exact B2]. rewrite EL. destruct (Nat.eq_dec j (length (RP st))) as [E|NE]; [|lia].
    exfalso. subst j. rewrite El in Hp'. exact (Hc q p' Hq Hp' Hpk Hn).
Qed.

(* G2: only the result grows; o is exhausted *)
Lemma minv_rp_only o st st' d c :
  estep (RP st) (RP st') [c] -> (length d <= length (RP st))%nat -> m_kwo st' = m_kwo st ->
  (length (Pz (myS o)) <= length (RP st))%nat ->
  MInv o st d -> MInv o st' d.
Proof.
  intros He El Hk HP [A1 A2 A3]. pose proof (estep_length _ _ _ He) as EL. cbn [length] in EL.
  constructor.
  - intros i c' p' Hc' Hp'. assert (Hi : (i < length d)%nat) by (apply nth_error_Some; congruence).
    destruct (estep_old _ _ _ _ _ He Hc') as [u [Hu Hcv]]; [lia|].
    exact (rel_cv _ _ _ Hcv (A1 i u p' Hu Hp')).
  - intros j p' Hp' Hj Hd. assert (Hi : (j < length d)%nat) by (apply nth_error_Some; congruence). lia.
  - intros q j p' Hq Hp' Hpk Hn. rewrite Hk in Hq. destruct (A3 q j p' Hq Hp' Hpk Hn) as [B1 B2].
    assert (Hi : (j < length (Pz (myS o)))%nat) by (apply nth_error_Some; congruence). lia.
Qed.

(* G3: only the done list of o grows; the result positionals are unchanged *)
Lemma minv_d_only o st st' d e newK :
  RP st' = RP st -> (length (RP st) <= length d)%nat -> m_kwo st' = m_kwo st ++ newK ->
  (has_def e = false -> pkind e = PK /\ exists q, In q newK /\ has_def q = false /\ pname q = pname e) ->
  (forall q j p', In q newK -> nth_error (Pz (myS o)) j = Some p' -> pkind p' = PK -> pname p' = pname q ->
                  (length (RP st) <= j)%nat /\ isSome (varargs (myS (flip o))) = false) ->
  MInv o st d -> MInv o st' (d ++ [e]).
Proof.
  intros Er El Hk He Hc [A1 A2 A3]. constructor; rewrite ?Er.
  - intros i c' p' Hc' Hp'. assert (Hi : (i < length (RP st))%nat) by (apply nth_error_Some; congruence).
    rewrite nth_error_app1 in Hp' by lia. exact (A1 i c' p' Hc' Hp').
  - intros j p' Hp' Hj Hd. apply nth_error_snoc in Hp'. destruct Hp' as [[Hl Hp']|[-> ->]].
    + destruct (A2 j p' Hp' Hj Hd) as [B1 [q [Hq Hr]]]. split; [exact B1|]. exists q.
      split; [rewrite Hk; apply in_or_app; left; exact Hq|exact Hr].
    + destruct (He Hd) as [B1 [q [Hq Hr]]]. split; [exact B1|]. exists q.
      split; [rewrite Hk; apply in_or_app; right; exact Hq|exact Hr].
  - intros q j p' Hq Hp' Hpk Hn. rewrite Hk in Hq. apply in_app_or in Hq. destruct Hq as [Hq|Hq].
    + exact (A3 q j p' Hq Hp' Hpk Hn).
    + exact (Hc q j p' Hq Hp' Hpk Hn).
Qed.

(* G4: only the keyword-only parameters of the result grow *)
Lemma minv_kwo_only o st st' d newK :
  RP st' = RP st -> m_kwo st' = m_kwo st ++ newK ->
  (forall q j p', In q newK -> nth_error (Pz (myS o)) j = Some p' -> pkind p' = PK -> pname p' = pname q ->
                  (length (RP st) <= j)%nat /\ isSome (varargs (myS (flip o))) = false) ->
  MInv o st d -> MInv o st' d.
Proof.
  intros Er Hk Hc [A1 A2 A3]. constructor; rewrite ?Er.
  - exact A1.
  - intros j p' Hp' Hj Hd. destruct (A2 j p' Hp' Hj Hd) as [B1 [q [Hq Hr]]]. split; [exact B1|]. exists q.
    split; [rewrite Hk; apply in_or_app; left; exact Hq|exact Hr].
  - intros q j p' Hq Hp' Hpk Hn. rewrite Hk in Hq. apply in_app_or in Hq. destruct Hq as [Hq|Hq].
    + exact (A3 q j p' Hq Hp' Hpk Hn).
    + exact (Hc q j p' Hq Hp' Hpk Hn).
Qed.

Lemma minv_same o st st' d :
  RP st' = RP st -> m_kwo st' = m_kwo st -> MInv o st d -> MInv o st' d.
Proof.
  intros Er Hk HM. apply (minv_kwo_only o st st' d []); auto.
  - rewrite app_nil_r. exact Hk.
  - intros q j p' [].
Qed.

(* ---- shapes of the single steps ---- *)
Lemma unb_pos1_shape s e conv st st' conv' :
  unb_pos1 l r s e conv st = Ok (st', conv') ->
  (exists o c0, conv = o :: c0 /\ conv' = c0 /\ m_pos st' = m_pos st ++ [concile e o] /\
                m_pok st' = m_pok st /\ m_kwo st' = m_kwo st /\ (forall o', unm st' o' = unm st o'))
  \/ (conv = [] /\ conv' = [] /\ isSome (varargs (myS (flip s))) = true /\
      m_pos st' = m_pos st ++ [e] /\
      m_pok st' = m_pok st /\ m_kwo st' = m_kwo st /\ (forall o', unm st' o' = unm st o'))
  \/ (conv = [] /\ conv' = [] /\ isSome (varargs (myS (flip s))) = false /\ has_def e = true /\ st' = st).
Proof.
  unfold unb_pos1. destruct conv as [|o c0].
  - rewrite other_flip. destruct (isSome (varargs (myS (flip s)))) eqn:Eva.
    + intros E. inversion E; subst st' conv'. right. left. repeat (split; [reflexivity|]).
      destruct s; cbn; repeat split; intros o'; destruct o'; reflexivity.
    + destruct (negb (has_def e)) eqn:Ed; [discriminate|]. apply negb_false_iff in Ed.
      intros E. inversion E; subst st' conv'. right. right. auto.
  - intros E. inversion E; subst st' conv'. left. exists o, c0. split; [reflexivity|]. split; [reflexivity|].
    destruct (N.eqb (pname o) (pname e)); cbn; repeat split; intros o'; destruct o'; reflexivity.
Qed.

Lemma unb_pok1_shape2 s e st st' :
  unb_pok1 l r s e st = Ok st' ->
  (exists q, find_param (pname e) (unm st (flip s)) = Some q)
  \/ (find_param (pname e) (unm st (flip s)) = None /\ (forall o, unm st' o = unm st o) /\
      ((isSome (varargs (myS (flip s))) = true /\
        m_pos st' = m_pos st /\ m_pok st' = m_pok st ++ [e] /\ m_kwo st' = m_kwo st)
       \/ (isSome (varargs (myS (flip s))) = false /\
           m_pos st' = m_pos st /\ m_pok st' = m_pok st /\ m_kwo st' = od_set (m_kwo st) (set_kind KO e))
       \/ (isSome (varargs (myS (flip s))) = true /\
           m_pos st' = m_pos st ++ map (set_kind PO) (m_pok st) ++ [set_kind PO e] /\ m_pok st' = [] /\
           m_kwo st' = m_kwo st)
       \/ (isSome (varargs (myS (flip s))) = false /\ has_def e = true /\ st' = st))).
Proof.
  unfold unb_pok1. change (match s with L => R | R => L end) with (flip s). rewrite other_flip.
  destruct (find_param (pname e) (unm st (flip s))) as [q|] eqn:Ef.
  - intros _. left. eauto.
  - intros E. right. split; [reflexivity|].
    destruct (isSome (varargs (myS (flip s)))) eqn:Eva, (isSome (varkwargs (myS (flip s)))) eqn:Evk;
      cbn [andb] in E.
    + inversion E; subst st'. split; [intros o; destruct o; reflexivity|]. left. auto.
    + inversion E; subst st'. split; [intros o; destruct o; reflexivity|]. right. right. left. auto.
    + inversion E; subst st'. split; [intros o; destruct o; reflexivity|]. right. left. auto.
    + destruct (negb (has_def e)) eqn:Ed; [discriminate|]. apply negb_false_iff in Ed.
      inversion E; subst st'. split; [reflexivity|]. right. right. right. auto.
Qed.

(* the unmatched keyword-only lists stay inside the keyword-only buckets *)
Definition UK (st : mstate) : Prop := forall o p, In p (unm st o) -> In p (kwoargs (myS o)).

(* names of m_kwo while only matched pairs are in it *)
Definition HK (st : mstate) : Prop :=
  forall x, In x (names_of (m_kwo st)) -> In x (names_of (kwoargs l)) /\ In x (names_of (kwoargs r)).

Lemma HK_fresh o st e : HK st -> In e (pokargs (myS o)) -> ~ In (pname e) (names_of (m_kwo st)).
Proof.
  intros Hk He Hc. assert (Hko : In (pname e) (names_of (kwoargs (myS o)))) by (destruct (Hk _ Hc); destruct o; assumption).
  apply names_in in Hko. destruct Hko as [p [Hp Ep]]. apply (pkko o e p He Hp). symmetry. exact Ep.
Qed.

(* ------------------------------------------------------------------ *)
(* zip_pos                                                              *)

Lemma unb_pos1_mixed s e conv st st' conv' ds dt rest :
  In e (posargs (myS s)) -> incl conv (pokargs (myS (flip s))) -> m_pok st = [] ->
  Pz (myS s) = ds ++ e :: rest -> Pz (myS (flip s)) = dt ++ conv -> HK st ->
  unb_pos1 l r s e conv st = Ok (st', conv') ->
  Ph s st ds dt conv -> MInv s st ds -> MInv (flip s) st dt ->
  exists pc, conv = pc ++ conv' /\ Ph s st' (ds ++ [e]) (dt ++ pc) conv' /\
             MInv s st' (ds ++ [e]) /\ MInv (flip s) st' (dt ++ pc) /\
             m_pok st' = [] /\ m_kwo st' = m_kwo st.
Proof.
  intros He Hc Hm0 Hps Hpt Hk E HPh Ms Mt.
  destruct (Kmy s) as (K1 & _). rewrite Forall_forall in K1. pose proof (K1 e He) as Hek.
  assert (Hnth : nth_error (Pz (myS s)) (length ds) = Some e) by (rewrite Hps; apply nth_error_mid).
  assert (Hcs : forall q p', In q (m_kwo st) -> nth_error (Pz (myS s)) (length ds) = Some p' ->
                             pkind p' = PK -> pname p' <> pname q).
  { intros q p' _ Hp' Hpk. rewrite Hnth in Hp'. inversion Hp'; subst. congruence. }
  destruct (unb_pos1_shape s e conv st st' conv' E)
    as [(o & c0 & -> & -> & P1 & P2 & K & U)|[(-> & -> & Eva & P1 & P2 & K & U)|(-> & -> & Eva & Ed & ->)]].
  - (* paired with a positional-or-keyword parameter of the other side *)
    destruct (Ph_eq s st ds dt (o :: c0) ltac:(discriminate) HPh) as [E1 E2].
    assert (Ho : In o (pokargs (myS (flip s)))) by (apply Hc; left; reflexivity).
    assert (He' : estep (RP st) (RP st') [concile e o]) by (apply estep_pos; congruence).
    pose proof (estep_length _ _ _ He') as EL. cbn [length] in EL.
    exists [o]. split; [reflexivity|]. split; [|split; [|split; [|split]]].
    + apply EqL_Ph; rewrite app_length; cbn [length]; lia.
    + apply (minv_both s st st' ds (concile e o) e He' E1 K); auto.
      split; [apply concile_req_l|]. intros Hpk. change (pkind (concile e o)) with (pkind e) in Hpk. congruence.
    + apply (minv_both (flip s) st st' dt (concile e o) o He' E2 K); auto.
      * split; [apply concile_req_r|]. intros Hpk. change (pkind (concile e o)) with (pkind e) in Hpk. congruence.
      * intros q p' Hq Hp' _ En. rewrite Hpt, nth_error_mid in Hp'. inversion Hp'; subst p'.
        apply (HK_fresh (flip s) st o Hk Ho). rewrite En. apply in_names. exact Hq.
    + congruence.
    + exact K.
  - (* kept as positional-only: the other side has star-args *)
    destruct HPh as (A & B & C & D).
    assert (E1 : length (RP st) = length ds).
    { destruct (Nat.eq_dec (length (RP st)) (length ds)) as [X|X]; [exact X|].
      destruct C as [_ C]; [lia|congruence]. }
    assert (He' : estep (RP st) (RP st') [e]) by (apply estep_pos; congruence).
    pose proof (estep_length _ _ _ He') as EL. cbn [length] in EL.
    exists []. rewrite ?app_nil_r in *. cbn [app]. split; [reflexivity|]. split; [|split; [|split; [|split]]].
    + unfold Ph. rewrite app_length. cbn [length]. repeat split; intros; lia.
    + apply (minv_both s st st' ds e e He' E1 K); auto. apply rel_self.
    + apply (minv_rp_only (flip s) st st' dt e He' A K); auto. rewrite Hpt. exact A.
    + congruence.
    + exact K.
  - (* dropped: has a default *)
    destruct HPh as (A & B & C & D).
    exists []. rewrite ?app_nil_r in *. cbn [app]. split; [reflexivity|]. split; [|split; [|split; [|split]]]; auto.
    + unfold Ph. rewrite app_length. cbn [length]. repeat split; intros; try lia. exact Eva.
    + apply (minv_d_only s st st ds e []); auto.
      * rewrite app_nil_r. reflexivity.
      * intros Hd. congruence.
      * intros q j p' [].
Qed.

Lemma unb_pos_all_mixed s ps : forall conv st st' conv' ds dt rest,
  incl ps (posargs (myS s)) -> incl conv (pokargs (myS (flip s))) -> m_pok st = [] ->
  Pz (myS s) = ds ++ ps ++ rest -> Pz (myS (flip s)) = dt ++ conv -> HK st ->
  unb_pos_all l r s ps conv st = Ok (st', conv') ->
  Ph s st ds dt conv -> MInv s st ds -> MInv (flip s) st dt ->
  exists pc, conv = pc ++ conv' /\ Ph s st' (ds ++ ps) (dt ++ pc) conv' /\
             MInv s st' (ds ++ ps) /\ MInv (flip s) st' (dt ++ pc) /\
             m_pok st' = [] /\ m_kwo st' = m_kwo st.
Proof.
  induction ps as [|e ps IH]; intros conv st st' conv' ds dt rest Hps Hc Hm0 Hs Ht Hk E HPh Ms Mt.
  - cbn [unb_pos_all] in E. inversion E; subst st' conv'. exists []. rewrite !app_nil_r. auto 10.
  - cbn [unb_pos_all] in E. apply bind_ok in E. destruct E as [[st1 conv1] [E1 E2]]. cbn [fst snd] in E2.
    apply incl_cons_l in Hps. destruct Hps as [He Hps]. cbn [app] in Hs.
    destruct (unb_pos1_mixed s e conv st st1 conv1 ds dt (ps ++ rest) He Hc Hm0 Hs Ht Hk E1 HPh Ms Mt)
      as [pc1 (C1 & P1 & M1 & T1 & Z1 & K1)].
    assert (Hc1 : incl conv1 (pokargs (myS (flip s)))) by (rewrite C1 in Hc; eapply incl_app_r_inv; exact Hc).
    assert (Hs1 : Pz (myS s) = (ds ++ [e]) ++ ps ++ rest) by (rewrite <- app_assoc; exact Hs).
    assert (Ht1 : Pz (myS (flip s)) = (dt ++ pc1) ++ conv1) by (rewrite <- app_assoc, <- C1; exact Ht).
    assert (Hk1 : HK st1) by (unfold HK; rewrite K1; exact Hk).
    destruct (IH conv1 st1 st' conv' (ds ++ [e]) (dt ++ pc1) rest Hps Hc1 Z1 Hs1 Ht1 Hk1 E2 P1 M1 T1)
      as [pc2 (C2 & P2 & M2 & T2 & Z2 & K2)].
    exists (pc1 ++ pc2). rewrite <- app_assoc in P2, M2, T2. cbn [app] in P2, M2. rewrite <- app_assoc in P2.
    split; [rewrite C1, C2, app_assoc; reflexivity|]. split; [exact P2|]. split; [exact M2|].
    split; [exact T2|]. split; [exact Z2|]. rewrite K2. exact K1.
Qed.

(* what zip_pok starts from *)
Definition ZP (st : mstate) (dl dr il ir : list param) : Prop :=
  (il <> [] -> ir <> [] -> EqL st dl dr) /\
  (il <> [] -> ir = [] -> Ph L st dl dr []) /\
  (il = [] -> ir <> [] -> Ph R st dr dl []) /\
  (Ph L st dl dr [] \/ Ph R st dr dl []).

Lemma EqL_ZP st dl dr il ir : EqL st dl dr -> ZP st dl dr il ir.
Proof.
  intros [A B]. unfold ZP. split; [|split; [|split]].
  - intros. split; assumption.
  - intros. apply EqL_Ph; assumption.
  - intros. apply EqL_Ph; assumption.
  - left. apply EqL_Ph; assumption.
Qed.

Lemma zip_pos_mixed lp : forall rp il ir st st' il' ir' dl dr,
  incl lp (posargs l) -> incl rp (posargs r) -> incl il (pokargs l) -> incl ir (pokargs r) ->
  m_pok st = [] -> Pz l = dl ++ lp ++ il -> Pz r = dr ++ rp ++ ir -> HK st ->
  zip_pos l r lp rp il ir st = Ok (st', il', ir') ->
  EqL st dl dr -> MInv L st dl -> MInv R st dr ->
  exists pl pr, il = pl ++ il' /\ ir = pr ++ ir' /\
    MInv L st' (dl ++ lp ++ pl) /\ MInv R st' (dr ++ rp ++ pr) /\
    ZP st' (dl ++ lp ++ pl) (dr ++ rp ++ pr) il' ir' /\ m_pok st' = [] /\ m_kwo st' = m_kwo st.
Proof.
  induction lp as [|a lp IH]; intros rp il ir st st' il' ir' dl dr Hlp Hrp Hil Hir Hm0 Hl Hr Hk E [E1 E2] ML MR.
  - cbn [zip_pos] in E. apply bind_ok in E. destruct E as [[st1 conv1] [Ea Eb]]. cbn [fst snd] in Eb.
    inversion Eb; subst st' il' ir'; clear Eb. cbn [app] in Hl.
    destruct (unb_pos_all_mixed R rp il st st1 conv1 dr dl ir Hrp Hil Hm0 Hr Hl Hk Ea
                (EqL_Ph R st dr dl il E2 E1) MR ML) as [pc (C & P & M & T & Z & K)].
    exists pc, []. cbn [app]. rewrite app_nil_r. split; [exact C|]. split; [reflexivity|].
    split; [exact T|]. split; [exact M|]. split; [|auto].
    unfold ZP. split; [|split; [|split]].
    + intros H1 H2. destruct (Ph_eq R st1 _ _ conv1 H1 P). split; assumption.
    + intros H1 H2. destruct (Ph_eq R st1 _ _ conv1 H1 P). apply EqL_Ph; assumption.
    + intros -> _. exact P.
    + destruct conv1 as [|x xs]; [right; exact P|].
      destruct (Ph_eq R st1 _ _ (x :: xs) ltac:(discriminate) P). left. apply EqL_Ph; assumption.
  - destruct rp as [|b rp].
    + cbn [zip_pos] in E. apply bind_ok in E. destruct E as [[st1 conv1] [Ea Eb]]. cbn [fst snd] in Eb.
      inversion Eb; subst st' il' ir'; clear Eb. cbn [app] in Hr.
      destruct (unb_pos_all_mixed L (a :: lp) ir st st1 conv1 dl dr il Hlp Hir Hm0 Hl Hr Hk Ea
                  (EqL_Ph L st dl dr ir E1 E2) ML MR) as [pc (C & P & M & T & Z & K)].
      exists [], pc. cbn [app]. rewrite app_nil_r. split; [reflexivity|]. split; [exact C|].
      split; [exact M|]. split; [exact T|]. split; [|auto].
      unfold ZP. split; [|split; [|split]].
      * intros H1 H2. destruct (Ph_eq L st1 _ _ conv1 H2 P). split; assumption.
      * intros _ ->. exact P.
      * intros H1 H2. destruct (Ph_eq L st1 _ _ conv1 H2 P). apply EqL_Ph; assumption.
      * destruct conv1 as [|x xs]; [left; exact P|].
        destruct (Ph_eq L st1 _ _ (x :: xs) ltac:(discriminate) P). right. apply EqL_Ph; assumption.
    + cbn [zip_pos] in E.
      apply incl_cons_l in Hlp. destruct Hlp as [Ha Hlp]. apply incl_cons_l in Hrp. destruct Hrp as [Hb Hrp].
      destruct Kl as (Kl1 & _). destruct Kr as (Kr1 & _). rewrite Forall_forall in Kl1, Kr1.
      pose proof (Kl1 a Ha) as Hak. pose proof (Kr1 b Hb) as Hbk.
      match type of E with zip_pos l r lp rp il ir ?s = _ => remember s as st1 eqn:Est end.
      assert (F : m_pos st1 = m_pos st ++ [concile a b] /\ m_pok st1 = m_pok st /\ m_kwo st1 = m_kwo st).
      { rewrite Est. destruct (N.eqb (pname a) (pname b)); repeat split; reflexivity. }
      clear Est. destruct F as (P1 & P2 & K).
      assert (He' : estep (RP st) (RP st1) [concile a b]) by (apply estep_pos; congruence).
      pose proof (estep_length _ _ _ He') as EL. cbn [length] in EL.
      assert (Hna : nth_error (Pz l) (length dl) = Some a) by (rewrite Hl; apply nth_error_mid).
      assert (Hnb : nth_error (Pz r) (length dr) = Some b) by (rewrite Hr; apply nth_error_mid).
      assert (M1 : MInv L st1 (dl ++ [a])).
      { apply (minv_both L st st1 dl (concile a b) a He' E1 K).
        - split; [apply concile_req_l|]. intros Hpk. change (pkind (concile a b)) with (pkind a) in Hpk. congruence.
        - intros q p' _ Hp' Hpk. cbn [my] in Hp'. rewrite Hna in Hp'. inversion Hp'; subst. congruence.
        - exact ML. }
      assert (T1 : MInv R st1 (dr ++ [b])).
      { apply (minv_both R st st1 dr (concile a b) b He' E2 K).
        - split; [apply concile_req_r|]. intros Hpk. change (pkind (concile a b)) with (pkind a) in Hpk. congruence.
        - intros q p' _ Hp' Hpk. cbn [my] in Hp'. rewrite Hnb in Hp'. inversion Hp'; subst. congruence.
        - exact MR. }
      assert (Q1 : EqL st1 (dl ++ [a]) (dr ++ [b])) by (unfold EqL; rewrite !app_length; cbn [length]; lia).
      assert (Hl1 : Pz l = (dl ++ [a]) ++ lp ++ il) by (rewrite <- app_assoc; exact Hl).
      assert (Hr1 : Pz r = (dr ++ [b]) ++ rp ++ ir) by (rewrite <- app_assoc; exact Hr).
      assert (Hk1 : HK st1) by (unfold HK; rewrite K; exact Hk).
      assert (Hm1 : m_pok st1 = []) by congruence.
      destruct (IH rp il ir st1 st' il' ir' (dl ++ [a]) (dr ++ [b]) Hlp Hrp Hil Hir Hm1 Hl1 Hr1 Hk1 E Q1 M1 T1)
        as [pl [pr (C1 & C2 & M2 & T2 & Z2 & Z3 & K2)]].
      exists pl, pr. repeat rewrite <- app_assoc in M2. repeat rewrite <- app_assoc in T2.
      repeat rewrite <- app_assoc in Z2. cbn [app] in M2, T2, Z2.
      split; [exact C1|]. split; [exact C2|]. split; [exact M2|]. split; [exact T2|]. split; [exact Z2|].
      split; [exact Z3|]. rewrite K2. exact K.
Qed.


(* ------------------------------------------------------------------ *)
(* zip_pok                                                              *)

Lemma unb_pok1_mixed s e st st' ds dt rest :
  In e (pokargs (myS s)) -> Pz (myS s) = ds ++ e :: rest -> Pz (myS (flip s)) = dt ->
  ~ In (pname e) (names_of (m_kwo st)) -> UK st ->
  unb_pok1 l r s e st = Ok st' ->
  Ph s st ds dt [] -> MInv s st ds -> MInv (flip s) st dt ->
  Ph s st' (ds ++ [e]) dt [] /\ MInv s st' (ds ++ [e]) /\ MInv (flip s) st' dt /\ UK st' /\
  (forall x, In x (names_of (m_kwo st')) -> In x (names_of (m_kwo st)) \/ x = pname e).
Proof.
  intros He Hps Hpt Hfr Huk E HPh Ms Mt.
  destruct (Kmy s) as (_ & K2 & _). rewrite Forall_forall in K2. pose proof (K2 e He) as Hek.
  assert (Hnth : nth_error (Pz (myS s)) (length ds) = Some e) by (rewrite Hps; apply nth_error_mid).
  destruct HPh as (A & B & C & D).
  destruct (unb_pok1_shape2 s e st st' E) as [[q Ef]|(Ef & U & Hcases)].
  { (* excluded by role consistency: PK on one side, KO on the other *)
    exfalso. destruct (find_param_In _ _ _ Ef) as [Hq Hqn].
    apply (RCk s e q He (Huk _ _ Hq)). symmetry. exact Hqn. }
  assert (Huk' : UK st') by (intros o p Hp; rewrite U in Hp; exact (Huk o p Hp)).
  destruct Hcases as [(Eva & P1 & P2 & K)|[(Eva & P1 & P2 & K)|[(Eva & P1 & P2 & K)|(Eva & Ed & ->)]]].
  - (* kept, positional-or-keyword *)
    assert (E1 : length (RP st) = length ds).
    { destruct (Nat.eq_dec (length (RP st)) (length ds)) as [X|X]; [exact X|].
      destruct C as [_ C]; [lia|congruence]. }
    assert (He' : estep (RP st) (RP st') [e]) by (apply estep_pok; assumption).
    pose proof (estep_length _ _ _ He') as EL. cbn [length] in EL.
    split; [|split; [|split; [|split]]]; auto.
    + unfold Ph. rewrite app_length. cbn [length]. repeat split; intros; lia.
    + apply (minv_both s st st' ds e e He' E1 K); auto; [apply rel_self|].
      intros q p' Hq Hp' _ En. rewrite Hnth in Hp'. inversion Hp'; subst p'.
      apply Hfr. rewrite En. apply in_names. exact Hq.
    + apply (minv_rp_only (flip s) st st' dt e He' A K); auto. rewrite Hpt. exact A.
    + intros x Hx. left. rewrite K in Hx. exact Hx.
  - (* becomes keyword-only: the other side has star-kwargs but no star-args *)
    rewrite (od_set_snoc (m_kwo st) (set_kind KO e) Hfr) in K.
    assert (Er : RP st' = RP st) by (unfold RP; rewrite P1, P2; reflexivity).
    split; [|split; [|split; [|split]]]; auto.
    + unfold Ph. rewrite Er, app_length. cbn [length]. repeat split; intros; try lia. exact Eva.
    + apply (minv_d_only s st st' ds e [set_kind KO e] Er B K); auto.
      * intros Hd. split; [exact Hek|]. exists (set_kind KO e). split; [left; reflexivity|auto].
      * intros q j p' [<-|[]] Hp' Hpk En. change (pname (set_kind KO e)) with (pname e) in En.
        assert (j = length ds) by (eapply (nth_error_names_inj _ _ _ _ _ (NPz s)); eassumption).
        subst j. auto.
    + apply (minv_kwo_only (flip s) st st' dt [set_kind KO e] Er K); auto.
      intros q j p' [<-|[]] Hp' Hpk En. change (pname (set_kind KO e)) with (pname e) in En. exfalso.
      assert (X : length ds = j) by (apply (RCi s (length ds) j e p' Hnth Hp'); auto).
      assert (Hj : (j < length (Pz (myS (flip s))))%nat) by (apply nth_error_Some; congruence).
      rewrite Hpt in Hj. lia.
    + intros x Hx. rewrite K, names_app in Hx. apply in_app_or in Hx.
      destruct Hx as [Hx|[Hx|[]]]; [left; exact Hx|right; symmetry; exact Hx].
  - (* kept, everything so far positional-only *)
    assert (E1 : length (RP st) = length ds).
    { destruct (Nat.eq_dec (length (RP st)) (length ds)) as [X|X]; [exact X|].
      destruct C as [_ C]; [lia|congruence]. }
    assert (He' : estep (RP st) (RP st') [set_kind PO e]) by (apply estep_conv_pos; assumption).
    pose proof (estep_length _ _ _ He') as EL. cbn [length] in EL.
    split; [|split; [|split; [|split]]]; auto.
    + unfold Ph. rewrite app_length. cbn [length]. repeat split; intros; lia.
    + apply (minv_both s st st' ds (set_kind PO e) e He' E1 K); auto.
      * split; [auto|]. cbn. discriminate.
      * intros q p' Hq Hp' _ En. rewrite Hnth in Hp'. inversion Hp'; subst p'.
        apply Hfr. rewrite En. apply in_names. exact Hq.
    + apply (minv_rp_only (flip s) st st' dt (set_kind PO e) He' A K); auto. rewrite Hpt. exact A.
    + intros x Hx. left. rewrite K in Hx. exact Hx.
  - (* dropped *)
    split; [|split; [|split; [|split]]]; auto.
    + unfold Ph. rewrite app_length. cbn [length]. repeat split; intros; try lia. exact Eva.
    + apply (minv_d_only s st st ds e []); auto.
      * rewrite app_nil_r. reflexivity.
      * intros Hd. congruence.
      * intros q j p' [].
Qed.

Lemma unb_pok_all_mixed s ps : forall st st' ds dt,
  NoDup (names_of ps) -> incl ps (pokargs (myS s)) ->
  Pz (myS s) = ds ++ ps -> Pz (myS (flip s)) = dt ->
  (forall x, In x (names_of ps) -> ~ In x (names_of (m_kwo st))) -> UK st ->
  unb_pok_all l r s ps st = Ok st' ->
  Ph s st ds dt [] -> MInv s st ds -> MInv (flip s) st dt ->
  Ph s st' (ds ++ ps) dt [] /\ MInv s st' (ds ++ ps) /\ MInv (flip s) st' dt.
Proof.
  induction ps as [|e ps IH]; intros st st' ds dt Hn Hps Hs Ht Hfr Huk E HPh Ms Mt.
  - cbn [unb_pok_all] in E. inversion E; subst st'. rewrite app_nil_r. auto.
  - cbn [unb_pok_all] in E. apply bind_ok in E. destruct E as [st1 [E1 E2]].
    apply incl_cons_l in Hps. destruct Hps as [He Hps].
    cbn [names_of map] in Hn. inversion Hn as [|? ? Hne Hn']; subst.
    assert (Hfe : ~ In (pname e) (names_of (m_kwo st))) by (apply Hfr; left; reflexivity).
    destruct (unb_pok1_mixed s e st st1 ds (Pz (myS (flip s))) ps He Hs eq_refl Hfe Huk E1 HPh Ms Mt)
      as (P1 & M1 & T1 & U1 & Hk1).
    assert (Hfr1 : forall x, In x (names_of ps) -> ~ In x (names_of (m_kwo st1))).
    { intros x Hx Hc. destruct (Hk1 x Hc) as [Hc'| ->].
      - apply (Hfr x); [right; exact Hx|exact Hc'].
      - apply Hne. exact Hx. }
    assert (Hs1 : Pz (myS s) = (ds ++ [e]) ++ ps) by (rewrite <- app_assoc; exact Hs).
    destruct (IH st1 st' (ds ++ [e]) (Pz (myS (flip s))) Hn' Hps Hs1 eq_refl Hfr1 U1 E2 P1 M1 T1) as (P2 & M2 & T2).
    rewrite <- app_assoc in P2, M2. cbn [app] in P2, M2. auto.
Qed.

Lemma zip_pok_mixed il : forall ir st st' dl dr,
  NoDup (names_of il) -> NoDup (names_of ir) -> incl il (pokargs l) -> incl ir (pokargs r) ->
  Pz l = dl ++ il -> Pz r = dr ++ ir -> HK st -> UK st ->
  zip_pok l r il ir st = Ok st' ->
  ZP st dl dr il ir -> MInv L st dl -> MInv R st dr ->
  MInv L st' (dl ++ il) /\ MInv R st' (dr ++ ir) /\
  (Ph L st' (dl ++ il) (dr ++ ir) [] \/ Ph R st' (dr ++ ir) (dl ++ il) []).
Proof.
  assert (Hfresh : forall o ps st, incl ps (pokargs (myS o)) -> HK st ->
            forall x, In x (names_of ps) -> ~ In x (names_of (m_kwo st))).
  { intros o ps st Hps Hk x Hx. apply names_in in Hx. destruct Hx as [e [He <-]].
    apply (HK_fresh o st e Hk). apply Hps. exact He. }
  induction il as [|a il IH]; intros ir st st' dl dr Nil Nir Hil Hir Hl Hr Hk Huk E (Z1 & Z2 & Z3 & Z4) ML MR.
  - cbn [zip_pok] in E. rewrite app_nil_r in *. destruct ir as [|b ir].
    + cbn [unb_pok_all] in E. inversion E; subst st'. rewrite app_nil_r in *. auto.
    + assert (P : Ph R st dr dl []) by (apply Z3; [reflexivity|discriminate]).
      destruct (unb_pok_all_mixed R (b :: ir) st st' dr dl Nir Hir Hr Hl (Hfresh R _ st Hir Hk) Huk E P MR ML)
        as (P2 & M2 & T2). auto.
  - destruct ir as [|b ir].
    + cbn [zip_pok] in E. rewrite app_nil_r in *.
      assert (P : Ph L st dl dr []) by (apply Z2; [discriminate|reflexivity]).
      destruct (unb_pok_all_mixed L (a :: il) st st' dl dr Nil Hil Hl Hr (Hfresh L _ st Hil Hk) Huk E P ML MR)
        as (P2 & M2 & T2). auto.
    + cbn [zip_pok] in E.
      destruct (Z1 ltac:(discriminate) ltac:(discriminate)) as [E1 E2].
      pose proof (Hfresh L (a :: il) st Hil Hk (pname a) (or_introl eq_refl)) as Hfa.
      pose proof (Hfresh R (b :: ir) st Hir Hk (pname b) (or_introl eq_refl)) as Hfb.
      apply incl_cons_l in Hil. destruct Hil as [Ha Hil]. apply incl_cons_l in Hir. destruct Hir as [Hb Hir].
      destruct Kl as (_ & Kl2 & _). destruct Kr as (_ & Kr2 & _). rewrite Forall_forall in Kl2, Kr2.
      pose proof (Kl2 a Ha) as Hak. pose proof (Kr2 b Hb) as Hbk.
      apply nodup_names_cons in Nil. apply nodup_names_cons in Nir.
      assert (Hna : nth_error (Pz l) (length dl) = Some a) by (rewrite Hl; apply nth_error_mid).
      assert (Hnb : nth_error (Pz r) (length dr) = Some b) by (rewrite Hr; apply nth_error_mid).
      assert (Hca : forall q p', In q (m_kwo st) -> nth_error (Pz (myS L)) (length dl) = Some p' ->
                                 pkind p' = PK -> pname p' <> pname q).
      { intros q p' Hq Hp' _ En. cbn [my] in Hp'. rewrite Hna in Hp'. inversion Hp'; subst p'.
        apply Hfa. rewrite En. apply in_names. exact Hq. }
      assert (Hcb : forall q p', In q (m_kwo st) -> nth_error (Pz (myS R)) (length dr) = Some p' ->
                                 pkind p' = PK -> pname p' <> pname q).
      { intros q p' Hq Hp' _ En. cbn [my] in Hp'. rewrite Hnb in Hp'. inversion Hp'; subst p'.
        apply Hfb. rewrite En. apply in_names. exact Hq. }
      match type of E with zip_pok l r il ir ?s = _ => remember s as st1 eqn:Est end.
      assert (F : exists c, estep (RP st) (RP st1) [c] /\ rel c a /\ rel c b /\ m_kwo st1 = m_kwo st /\
                            (forall o, unm st1 o = unm st o)).
      { rewrite Est. destruct (N.eqb_spec (pname a) (pname b)) as [Eab|Nab].
        - exists (concile a b). split; [apply estep_pok; reflexivity|].
          split; [split; [apply concile_req_l|intros _; auto]|].
          split; [split; [apply concile_req_r|intros _; split; [exact Hbk|symmetry; exact Eab]]|].
          split; [reflexivity|intros o; destruct o; reflexivity].
        - exists (set_kind PO (concile a b)). split; [apply estep_conv_pok; reflexivity|].
          split; [split; [apply (concile_req_l a b)|cbn; discriminate]|].
          split; [split; [apply (concile_req_r a b)|cbn; discriminate]|].
          split; [reflexivity|intros o; destruct o; reflexivity]. }
      clear Est. destruct F as (c & He' & Ra & Rb & K & U).
      pose proof (estep_length _ _ _ He') as EL. cbn [length] in EL.
      assert (M1 : MInv L st1 (dl ++ [a])) by (apply (minv_both L st st1 dl c a He' E1 K Ra Hca ML)).
      assert (T1 : MInv R st1 (dr ++ [b])) by (apply (minv_both R st st1 dr c b He' E2 K Rb Hcb MR)).
      assert (Q1 : EqL st1 (dl ++ [a]) (dr ++ [b])) by (unfold EqL; rewrite !app_length; cbn [length]; lia).
      assert (Hl1 : Pz l = (dl ++ [a]) ++ il) by (rewrite <- app_assoc; exact Hl).
      assert (Hr1 : Pz r = (dr ++ [b]) ++ ir) by (rewrite <- app_assoc; exact Hr).
      assert (Hk1 : HK st1) by (unfold HK; rewrite K; exact Hk).
      assert (Huk1 : UK st1) by (intros o p Hp; rewrite U in Hp; exact (Huk o p Hp)).
      destruct (IH ir st1 st' (dl ++ [a]) (dr ++ [b]) Nil Nir Hil Hir Hl1 Hr1 Hk1 Huk1 E
                  (EqL_ZP _ _ _ _ _ Q1) M1 T1) as (M2 & T2 & P2).
      repeat rewrite <- app_assoc in M2. repeat rewrite <- app_assoc in T2.
      repeat rewrite <- app_assoc in P2. cbn [app] in M2, T2, P2. auto.
Qed.

(* leftover keyword-only parameters, normalise_pok, add_star *)
Lemma unmatched_mixed s st st' o d :
  unmatched_kwo l r s st = Ok st' -> GU l r s st ->
  MInv o st d -> MInv o st' d /\ RP st' = RP st.
Proof.
  intros E GUs M. destruct (unmatched_kwo_shape l r s st st' E) as (P1 & P2 & U & [K|K]).
  - assert (Er : RP st' = RP st) by (unfold RP; rewrite P1, P2; reflexivity).
    split; [|exact Er]. apply (minv_same o st st' d Er K M).
  - rewrite (od_update_fresh _ _ (g_fb _ _ _ _ GUs) (g_fa _ _ _ _ GUs)) in K.
    assert (Er : RP st' = RP st) by (unfold RP; rewrite P1, P2; reflexivity).
    split; [|exact Er]. apply (minv_kwo_only o st st' d (unm st s) Er K); [|exact M].
    intros q j p' Hq Hp' Hpk En. exfalso.
    pose proof (g_fc _ _ _ _ GUs q Hq) as Hko.
    assert (Hin : In p' (pokargs (myS o))) by (apply Pz_pk; [eapply nth_error_In; exact Hp'|exact Hpk]).
    destruct (side_cases o s) as [-> | ->].
    + exact (pkko s p' q Hin Hko En).
    + apply (RCk (flip s) p' q Hin); [rewrite flip_flip; exact Hko|exact En].
Qed.


(* ------------------------------------------------------------------ *)
(* the whole merger                                                     *)

Definition Cov (st : mstate) : Prop :=
  (length (RP st) <= length (Pz l))%nat \/ (length (RP st) <= length (Pz r))%nat.

Theorem merger_mixed_summary res :
  merger l r = Ok res ->
  exists st, Pz res = RP st /\ kwoargs res = m_kwo st /\
             MInv L st (Pz l) /\ MInv R st (Pz r) /\ Cov st.
Proof.
  intros Hm.
  destruct (merger_walk l r Kl Kr Nl Nr res Hm)
    as (st3 & il & ir & st4 & st5 & st6 & pl & pr & E3 & Cl & Cr & E4 & E5 & E6 & G2 & G3 & G4 & GR5 & EP & EK).
  destruct (init_inv l r Kl Kr Nl Nr) as (_ & _ & _ & Hk2).
  destruct (init_fields l r Nl Nr) as (F1 & F2 & F3 & F4 & F5).
  set (sti := st_init l r) in *.
  assert (FRP : RP sti = []) by (unfold RP; rewrite F1, F2; reflexivity).
  assert (Mi : forall o, MInv o sti []).
  { intros o. constructor.
    - intros i c p _ Hp. destruct i; discriminate.
    - intros j p Hp. destruct j; discriminate.
    - intros q j p Hq Hp Hpk En. exfalso.
      assert (Hin : In p (pokargs (myS o))) by (apply Pz_pk; [eapply nth_error_In; exact Hp|exact Hpk]).
      assert (Hko : In (pname q) (names_of (kwoargs (myS o)))).
      { destruct (Hk2 (pname q) (in_names _ _ Hq)). destruct o; assumption. }
      apply names_in in Hko. destruct Hko as [p2 [Hp2 E2]]. apply (pkko o p p2 Hin Hp2). congruence. }
  assert (Qi : EqL sti [] []) by (unfold EqL; rewrite FRP; auto).
  destruct (zip_pos_mixed (posargs l) (posargs r) (pokargs l) (pokargs r) sti st3 il ir [] []
              (incl_refl _) (incl_refl _) (incl_refl _) (incl_refl _) F2 eq_refl eq_refl Hk2 E3 Qi (Mi L) (Mi R))
    as [pl' [pr' (Cl' & Cr' & M3 & T3 & Z3 & Zm & K3)]].
  cbn [app] in M3, T3, Z3.
  assert (HP0 : Forall isPO (m_pos sti)) by (rewrite F1; constructor).
  destruct (zip_pos_frame l r Kl Kr (posargs l) (posargs r) (pokargs l) (pokargs r) sti st3 il ir
              (incl_refl _) (incl_refl _) E3 HP0) as (_ & _ & _ & U3).
  assert (Nil : NoDup (names_of il)).
  { pose proof (N_pk l r Nl Nr L) as H. cbn [my] in H. rewrite Cl', names_app in H. apply nodup_app_r in H. exact H. }
  assert (Nir : NoDup (names_of ir)).
  { pose proof (N_pk l r Nl Nr R) as H. cbn [my] in H. rewrite Cr', names_app in H. apply nodup_app_r in H. exact H. }
  assert (Hil : incl il (pokargs l)) by (rewrite Cl'; apply incl_appr; apply incl_refl).
  assert (Hir : incl ir (pokargs r)) by (rewrite Cr'; apply incl_appr; apply incl_refl).
  assert (Hk3 : HK st3) by (unfold HK; rewrite K3; exact Hk2).
  assert (Huk3 : UK st3).
  { intros o p Hp. destruct G3 as (_ & GL & GR & _). destruct o; [apply (g_fc _ _ _ _ GL)|apply (g_fc _ _ _ _ GR)]; exact Hp. }
  assert (Hl3 : Pz l = (posargs l ++ pl') ++ il) by (unfold Pz; rewrite <- app_assoc, <- Cl'; reflexivity).
  assert (Hr3 : Pz r = (posargs r ++ pr') ++ ir) by (unfold Pz; rewrite <- app_assoc, <- Cr'; reflexivity).
  destruct (zip_pok_mixed il ir st3 st4 _ _ Nil Nir Hil Hir Hl3 Hr3 Hk3 Huk3 E4 Z3 M3 T3) as (M4 & T4 & P4).
  rewrite <- Hl3 in M4, P4. rewrite <- Hr3 in T4, P4.
  destruct G4 as (_ & GL4 & _ & _).
  destruct (unmatched_mixed L st4 st5 L _ E5 GL4 M4) as [M5 R5].
  destruct (unmatched_mixed L st4 st5 R _ E5 GL4 T4) as [T5 _].
  destruct (unmatched_mixed R st5 st6 L _ E6 GR5 M5) as [M6 R6].
  destruct (unmatched_mixed R st5 st6 R _ E6 GR5 T5) as [T6 _].
  exists st6. split; [exact EP|]. split; [exact EK|]. split; [exact M6|]. split; [exact T6|].
  unfold Cov. rewrite R6, R5. destruct P4 as [(_ & B & _)|(_ & B & _)]; [left|right]; exact B.
Qed.


(* ------------------------------------------------------------------ *)
(* one merger step, all non-colliding calls                             *)

Theorem merger_sound_mixed res o n ks :
  merger l r = Ok res -> NoDup (names_of (flatten res)) ->
  (forall k, In k ks -> In k (names_of (Pz (myS o))) -> kwpassable_name (flatten res) k = true) ->
  accepts (flatten res) (mkCall n ks) = true -> accepts (flatten (myS o)) (mkCall n ks) = true.
Proof.
  intros Hm Nres Hnc H.
  pose proof Nl as Nl'. pose proof Nr as Nr'.
  destruct (merger_Sum l r res (conj Kl Nl') (conj Kr Nr') Hm) as (SumL & SumR & [Kres _]).
  assert (HSum : Sum res (myS o)) by (destruct o; assumption).
  destruct HSum as [Uva Uvk _ U3 _ Uc Uko].
  destruct (merger_mixed_summary res Hm) as (st & EP & EK & ML & MR & HCov).
  assert (HM : forall o', MInv o' st (Pz (myS o'))) by (intros o'; destruct o'; assumption).
  pose proof (kinds_ok_wk _ Kres) as Wr.
  assert (Ko : kinds_ok (myS o)) by (destruct o; assumption).
  pose proof (kinds_ok_wk _ Ko) as Wo.
  assert (No : NoDup (names_of (posargs (myS o) ++ pokargs (myS o) ++ kwoargs (myS o)))) by (destruct o; assumption).
  assert (NPo : NoDup (names_of (Pz (myS o) ++ kwoargs (myS o)))) by (unfold Pz; rewrite <- app_assoc; exact No).
  assert (NPzo : NoDup (names_of (Pz (myS o)))) by (rewrite names_app in NPo; eapply nodup_app_l; exact NPo).
  assert (NPr : NoDup (names_of (Pz res))).
  { rewrite flatten_regroup, names_app in Nres. apply nodup_app_l in Nres. exact Nres. }
  rewrite (accepts_closed res n ks Wr) in H. rewrite (accepts_closed (myS o) n ks Wo).
  apply andb_true_iff in H. destruct H as [H H4]. apply andb_true_iff in H. destruct H as [H H3].
  apply andb_true_iff in H. destruct H as [H1 H2].
  rewrite forallb_forall in H2, H4. rewrite forallb_skipn_nth in H3.
  destruct (HM o) as [Mal Mlo Mko].
  (* the star-args of the result *)
  assert (Hva : isSome (varargs res) = true -> isSome (varargs (myS o)) = true /\ isSome (varargs (myS (flip o))) = true).
  { intros Hv. destruct (merger_Sum l r res (conj Kl Nl') (conj Kr Nr') Hm) as ([a _ _ _ _ _ _] & [b _ _ _ _ _ _] & _).
    destruct o; cbn [my flip]; auto. }
  apply andb_true_iff. split; [apply andb_true_iff; split; [apply andb_true_iff; split|]|].
  - (* enough positional slots *)
    apply orb_true_iff in H1. apply orb_true_iff. destruct H1 as [H1|H1].
    + destruct U3 as [U3|U3]; [|right; exact U3]. left. apply Nat.leb_le. apply Nat.leb_le in H1. lia.
    + right. apply Hva. exact H1.
  - (* every keyword is bound *)
    apply forallb_forall. intros k Hk. pose proof (H2 k Hk) as Hok.
    apply (kw_ok_intro (myS o) n k Wo NPo).
    destruct (in_dec N.eq_dec k (names_of (Pz (myS o)))) as [Hin|Hnot].
    + left. apply names_in in Hin. destruct Hin as [p [Hp En]].
      destruct (In_nth_error _ _ Hp) as [j Hj]. exists j, p. split; [exact Hj|]. split; [exact En|].
      pose proof (Hnc k Hk (eq_ind _ (fun x => In x _) (in_names _ _ Hp) _ En)) as Hkp.
      destruct (kwpassable_name_inv res k Wr Hkp) as [[q [Hq [Hqk Hqn]]]|[q [Hq Hqn]]].
      * (* positional-or-keyword in the result *)
        destruct (In_nth_error _ _ Hq) as [i Hi].
        assert (Hni : (n <= i)%nat) by (apply (kw_ok_pk_idx res n i q Wr NPr Hi Hqk); rewrite Hqn; exact Hok).
        assert (Hc : In (pname q) (names_of (pokargs (myS o) ++ kwoargs (myS o))) \/ isSome (varkwargs (myS o)) = true)
          by (apply Uc; left; auto).
        destruct (Pz_kind o p Hp) as [Hpo|Hpk].
        -- right. split; [congruence|]. destruct Hc as [Hc|Hc]; [|exact Hc]. exfalso.
           (* a positional-only name cannot also be a PK / KO name *)
           assert (Hpos : In p (posargs (myS o))).
           { unfold Pz in Hp. apply in_app_or in Hp. destruct Hp as [Hp|Hp]; [exact Hp|].
             destruct Ko as (_ & K2 & _). rewrite Forall_forall in K2. rewrite (K2 p Hp) in Hpo. discriminate. }
           rewrite names_app in No. apply (nodup_app_disjoint _ _ k No).
           ++ rewrite <- En. apply in_names. exact Hpos.
           ++ rewrite <- Hqn. exact Hc.
        -- left. split; [exact Hpk|].
           destruct (Nat.le_gt_cases n j) as [Hle|Hgt]; [exact Hle|]. exfalso.
           rewrite EP in Hi.
           destruct (nth_error (Pz (myS o)) i) as [pi|] eqn:Epi.
           ++ destruct (Mal i q pi Hi Epi) as [_ R2]. destruct (R2 Hqk) as [Rk Rn].
              assert (i = j) by (apply (nth_error_names_inj (Pz (myS o)) i j pi p NPzo Epi Hj); congruence). lia.
           ++ apply nth_error_None in Epi.
              assert (Hi' : (i < length (RP st))%nat) by (apply nth_error_Some; congruence).
              assert (Hlen : (i < length (Pz (myS (flip o))))%nat).
              { destruct HCov as [C|C]; destruct o; cbn [my flip] in *; lia. }
              destruct (nth_error (Pz (myS (flip o))) i) as [pf|] eqn:Epf; [|apply nth_error_None in Epf; lia].
              destruct (HM (flip o)) as [Mal' _ _]. destruct (Mal' i q pf Hi Epf) as [_ R2]. destruct (R2 Hqk) as [Rk Rn].
              assert (j = i) by (apply (RCi o j i p pf Hj Epf); congruence). lia.
      * (* keyword-only in the result *)
        destruct (Pz_kind o p Hp) as [Hpo|Hpk].
        -- right. split; [congruence|].
           assert (Hc : In (pname q) (names_of (pokargs (myS o) ++ kwoargs (myS o))) \/ isSome (varkwargs (myS o)) = true)
             by (apply Uc; right; exact Hq).
           destruct Hc as [Hc|Hc]; [|exact Hc]. exfalso.
           assert (Hpos : In p (posargs (myS o))).
           { unfold Pz in Hp. apply in_app_or in Hp. destruct Hp as [Hp|Hp]; [exact Hp|].
             destruct Ko as (_ & K2 & _). rewrite Forall_forall in K2. rewrite (K2 p Hp) in Hpo. discriminate. }
           rewrite names_app in No. apply (nodup_app_disjoint _ _ k No).
           ++ rewrite <- En. apply in_names. exact Hpos.
           ++ rewrite <- Hqn. exact Hc.
        -- left. split; [exact Hpk|]. rewrite EK in Hq.
           destruct (Mko q j p Hq Hj Hpk ltac:(congruence)) as [Hlen Hnv].
           apply orb_true_iff in H1. destruct H1 as [H1|H1].
           ++ apply Nat.leb_le in H1. rewrite EP in H1. lia.
           ++ destruct (Hva H1) as [_ Hv2]. congruence.
    + right. split; [exact Hnot|].
      destruct (kw_ok_inv res n k Wr Hok) as [Hv|[[q [Hq [Hqk Hqn]]]|Hn]].
      * right. auto.
      * destruct (Uc q (or_introl (conj Hq Hqk))) as [Hc|Hc]; [|right; exact Hc].
        rewrite Hqn, names_app in Hc. apply in_app_or in Hc. destruct Hc as [Hc|Hc]; [|left; exact Hc].
        exfalso. apply Hnot. unfold Pz. rewrite names_app. apply in_or_app. right. exact Hc.
      * apply names_in in Hn. destruct Hn as [q [Hq Hqn]].
        destruct (Uc q (or_intror Hq)) as [Hc|Hc]; [|right; exact Hc].
        rewrite Hqn, names_app in Hc. apply in_app_or in Hc. destruct Hc as [Hc|Hc]; [|left; exact Hc].
        exfalso. apply Hnot. unfold Pz. rewrite names_app. apply in_or_app. right. exact Hc.
  - (* the positional parameters not filled positionally *)
    apply forallb_skipn_nth. intros j p Hj Hnj. destruct (has_def p) eqn:Hd; [reflexivity|]. cbn [orb].
    destruct (Nat.lt_ge_cases j (length (RP st))) as [Hlt|Hge].
    + destruct (nth_error (RP st) j) as [c|] eqn:Ec; [|apply nth_error_None in Ec; lia].
      destruct (Mal j c p Ec Hj) as [R1 R2].
      assert (Ec' : nth_error (Pz res) j = Some c) by (rewrite EP; exact Ec).
      pose proof (H3 j c Ec' Hnj) as X. rewrite (R1 Hd) in X. cbn [orb] in X.
      apply andb_true_iff in X. destruct X as [X1 X2].
      assert (Hck : pkind c = PK).
      { unfold is_kind, kind_eqb in X1. destruct (pkind c); try discriminate; reflexivity. }
      destruct (R2 Hck) as [Rk Rn]. unfold is_kind. rewrite Rk, Rn. exact X2.
    + destruct (Mlo j p Hj Hge Hd) as [Hpk [q [Hq [Hqd Hqn]]]].
      assert (Hq' : In q (kwoargs res)) by (rewrite EK; exact Hq).
      pose proof (H4 q Hq') as X. rewrite Hqd in X. cbn [orb] in X.
      unfold is_kind. rewrite Hpk, <- Hqn. exact X.
  - (* the keyword-only parameters *)
    apply forallb_forall. intros p Hp. destruct (has_def p) eqn:Hd; [reflexivity|]. cbn [orb].
    destruct (Uko p Hp Hd) as [q [Hq [Hqd Hqn]]].
    pose proof (H4 q Hq) as X. rewrite Hqd in X. cbn [orb] in X. rewrite <- Hqn. exact X.
Qed.

End MX.

(* ------------------------------------------------------------------ *)
(* role consistency of the inputs, on the classified signatures         *)

Lemma kind_eqb_eq a b : kind_eqb a b = true -> a = b.
Proof. destruct a, b; cbn; intros H; try reflexivity; discriminate. Qed.

Lemma role_aux_In ps : forall idx p,
  NoDup (names_of ps) -> In p ps ->
  exists i, role_aux ps idx (pname p) = Some (pkind p, i) /\
            (is_positional p = true -> (idx <= i)%nat /\ nth_error (positional ps) (i - idx) = Some p).
Proof.
  induction ps as [|q ps IH]; intros idx p Hn Hp; [destruct Hp|].
  cbn [names_of map] in Hn. inversion Hn as [|? ? Hq Hn']; subst. cbn [role_aux].
  destruct (N.eqb_spec (pname p) (pname q)) as [E|NE].
  - assert (p = q).
    { destruct Hp as [->|Hp]; [reflexivity|]. exfalso. apply Hq. rewrite <- E. apply in_names. exact Hp. }
    subst q. exists (if is_positional p then idx else 0%nat). split; [reflexivity|].
    intros Hpos. rewrite Hpos. split; [lia|]. rewrite Nat.sub_diag. unfold positional. cbn [filter].
    rewrite Hpos. reflexivity.
  - destruct Hp as [->|Hp]; [congruence|].
    destruct (IH (if is_positional q then S idx else idx) p Hn' Hp) as [i [Hr Hi]].
    exists i. split; [exact Hr|]. intros Hpos. destruct (Hi Hpos) as [Hle Hnth].
    unfold positional in *. cbn [filter]. destruct (is_positional q).
    + split; [lia|]. replace (i - idx)%nat with (S (i - S idx)) by lia. cbn [nth_error]. exact Hnth.
    + split; [lia|]. exact Hnth.
Qed.

Lemma roles_agree_spec a b p q :
  NoDup (names_of a) -> NoDup (names_of b) -> roles_agree a b = true ->
  In p a -> In q b -> pname p = pname q ->
  pkind p = pkind q /\
  (is_positional p = true ->
   exists i, nth_error (positional a) i = Some p /\ nth_error (positional b) i = Some q).
Proof.
  intros Na Nb H Hp Hq E. unfold roles_agree in H. rewrite forallb_forall in H. specialize (H p Hp). cbv beta in H.
  unfold role in H.
  destruct (role_aux_In a 0 p Na Hp) as [i [Ha Hia]].
  destruct (role_aux_In b 0 q Nb Hq) as [j [Hb Hjb]].
  rewrite Ha in H. rewrite E, Hb in H. unfold role_eqb in H. cbn [fst snd] in H.
  apply andb_true_iff in H. destruct H as [Hk Hi]. apply kind_eqb_eq in Hk. apply Nat.eqb_eq in Hi. subst j.
  split; [exact Hk|]. intros Hpos.
  assert (Hposq : is_positional q = true) by (unfold is_positional in *; rewrite <- Hk; exact Hpos).
  destruct (Hia Hpos) as [_ H1]. destruct (Hjb Hposq) as [_ H2]. rewrite Nat.sub_0_r in H1, H2. exists i. auto.
Qed.

Lemma merge2_inv a b r :
  merge [a; b] = Ok r ->
  exists res, merger (sort_params a) (sort_params b) = Ok res /\ params r = flatten res.
Proof.
  cbn [merge merge_steps]. intros H. apply bind_ok in H. destruct H as [acc [H1 H2]].
  apply bind_ok in H1. destruct H1 as [res [H1 H3]]. inversion H3; subst acc.
  exists res. split; [apply to_incompatible_ok; exact H1|].
  unfold apply_params in H2. destruct (validate (flatten res)); inversion H2; reflexivity.
Qed.

(* ------------------------------------------------------------------ *)
(* C01_mixed for pairs: all signatures, all non-colliding calls         *)

Theorem merge2_sound_mixed a b r c :
  valid_sig (params a) = true -> valid_sig (params b) = true ->
  role_consistent [params a; params b] = true ->
  merge [a; b] = Ok r ->
  noncolliding c (params r) [params a; params b] = true ->
  accepts (params r) c = true ->
  accepts (params a) c = true /\ accepts (params b) c = true.
Proof.
  intros Va Vb Hrc Hm Hnc Hc.
  destruct (merge2_inv a b r Hm) as [res [Hmer Hpr]].
  pose proof (validate_nodup _ (merge_wf _ _ Hm)) as Nres. rewrite Hpr in Nres, Hc, Hnc.
  set (l := sort_params a) in *. set (r' := sort_params b) in *.
  pose proof (sort_params_kinds a) as Kl. pose proof (sort_params_kinds b) as Kr. fold l in Kl. fold r' in Kr.
  pose proof (sorted_named_nodup a Va) as NlF. pose proof (sorted_named_nodup b Vb) as NrF. fold l in NlF. fold r' in NrF.
  pose proof (sort_flatten_roundtrip a Va) as Fa. pose proof (sort_flatten_roundtrip b Vb) as Fb. fold l in Fa. fold r' in Fb.
  pose proof (validate_nodup _ (valid_sig_validate _ Va)) as Na.
  pose proof (validate_nodup _ (valid_sig_validate _ Vb)) as Nb.
  (* role consistency: one direction of the pairwise test is enough *)
  assert (Hra : roles_agree (params a) (params b) = true).
  { cbn [role_consistent forallb] in Hrc. apply andb_true_iff in Hrc. destruct Hrc as [Hrc _].
    apply andb_true_iff in Hrc. destruct Hrc as [Hrc _]. apply andb_true_iff in Hrc. tauto. }
  assert (InPzA : forall p, In p (Pz l) -> In p (params a)).
  { intros p Hp. rewrite <- Fa, flatten_regroup. apply in_or_app. left. exact Hp. }
  assert (InPzB : forall p, In p (Pz r') -> In p (params b)).
  { intros p Hp. rewrite <- Fb, flatten_regroup. apply in_or_app. left. exact Hp. }
  assert (InKoA : forall p, In p (kwoargs l) -> In p (params a)).
  { intros p Hp. rewrite <- Fa, flatten_regroup. apply in_or_app. right. apply in_or_app. right.
    apply in_or_app. left. exact Hp. }
  assert (InKoB : forall p, In p (kwoargs r') -> In p (params b)).
  { intros p Hp. rewrite <- Fb, flatten_regroup. apply in_or_app. right. apply in_or_app. right.
    apply in_or_app. left. exact Hp. }
  assert (PosA : positional (params a) = Pz l).
  { rewrite <- Fa. apply (flat_positional _ (kinds_ok_wk _ Kl)). }
  assert (PosB : positional (params b) = Pz r').
  { rewrite <- Fb. apply (flat_positional _ (kinds_ok_wk _ Kr)). }
  assert (NPa : NoDup (names_of (Pz l))).
  { rewrite app_assoc, names_app in NlF. apply nodup_app_l in NlF. exact NlF. }
  assert (NPb : NoDup (names_of (Pz r'))).
  { rewrite app_assoc, names_app in NrF. apply nodup_app_l in NrF. exact NrF. }
  assert (KPa : forall p, In p (pokargs l) -> pkind p = PK).
  { destruct Kl as (_ & K2 & _). rewrite Forall_forall in K2. exact K2. }
  assert (KPb : forall p, In p (pokargs r') -> pkind p = PK).
  { destruct Kr as (_ & K2 & _). rewrite Forall_forall in K2. exact K2. }
  assert (KKa : forall p, In p (kwoargs l) -> pkind p = KO).
  { destruct Kl as (_ & _ & _ & K4 & _). rewrite Forall_forall in K4. exact K4. }
  assert (KKb : forall p, In p (kwoargs r') -> pkind p = KO).
  { destruct Kr as (_ & _ & _ & K4 & _). rewrite Forall_forall in K4. exact K4. }
  assert (RCk : forall o p q, In p (pokargs (my l r' o)) -> In q (kwoargs (my l r' (flip o))) -> pname p <> pname q).
  { intros o p q Hp Hq E. destruct o; cbn [my flip] in Hp, Hq.
    - assert (Hpa : In p (params a)) by (apply InPzA; unfold Pz; apply in_or_app; right; exact Hp).
      destruct (roles_agree_spec _ _ p q Na Nb Hra Hpa (InKoB q Hq) E) as [Hk _].
      rewrite (KPa p Hp), (KKb q Hq) in Hk. discriminate.
    - assert (Hpb : In p (params b)) by (apply InPzB; unfold Pz; apply in_or_app; right; exact Hp).
      destruct (roles_agree_spec _ _ q p Na Nb Hra (InKoA q Hq) Hpb (eq_sym E)) as [Hk _].
      rewrite (KPb p Hp), (KKa q Hq) in Hk. discriminate. }
  assert (RCiL : forall i j p q, nth_error (Pz l) i = Some p -> nth_error (Pz r') j = Some q ->
                                 pname p = pname q -> i = j).
  { intros i j p q Hp Hq E.
    assert (Hpa : In p (params a)) by (apply InPzA; eapply nth_error_In; exact Hp).
    assert (Hqb : In q (params b)) by (apply InPzB; eapply nth_error_In; exact Hq).
    destruct (roles_agree_spec _ _ p q Na Nb Hra Hpa Hqb E) as [_ Hidx].
    assert (Hpos : is_positional p = true).
    { apply (proj1 (kinds_ok_wk _ Kl)). eapply nth_error_In. exact Hp. }
    destruct (Hidx Hpos) as [i0 [H1 H2]]. rewrite PosA in H1. rewrite PosB in H2.
    assert (i = i0) by (eapply (nth_error_names_inj (Pz l)); eauto).
    assert (j = i0) by (eapply (nth_error_names_inj (Pz r')); eauto). congruence. }
  assert (RCi : forall o i j p q, nth_error (Pz (my l r' o)) i = Some p ->
                                  nth_error (Pz (my l r' (flip o))) j = Some q -> pname p = pname q -> i = j).
  { intros o i j p q Hp Hq E. destruct o; cbn [my flip] in Hp, Hq.
    - exact (RCiL i j p q Hp Hq E).
    - symmetry. exact (RCiL j i q p Hq Hp (eq_sym E)). }
  (* non-collision: a keyword naming an input positional is a PK / KO name of the result *)
  assert (Hncl : forall o k, In k (kws c) -> In k (names_of (Pz (my l r' o))) ->
                             kwpassable_name (flatten res) k = true).
  { intros o k Hk Hin. unfold noncolliding in Hnc. rewrite forallb_forall in Hnc. specialize (Hnc k Hk).
    apply orb_true_iff in Hnc. destruct Hnc as [Hnc|Hnc]; [exact Hnc|]. exfalso.
    apply negb_true_iff in Hnc. apply mem_false_In in Hnc. apply Hnc.
    unfold all_names. cbn [flat_map]. rewrite app_nil_r. apply names_in in Hin. destruct Hin as [p [Hp <-]].
    apply in_or_app. destruct o; cbn [my] in Hp; [left; apply in_names; apply InPzA|right; apply in_names; apply InPzB]; exact Hp. }
  destruct c as [n ks]. cbn [kws] in Hncl. rewrite <- Fa, <- Fb. split.
  - exact (merger_sound_mixed l r' Kl Kr NlF NrF RCk RCi res L n ks Hmer Nres (Hncl L) Hc).
  - exact (merger_sound_mixed l r' Kl Kr NlF NrF RCk RCi res R n ks Hmer Nres (Hncl R) Hc).
Qed.

(* in the shape of Props/C01.v (C01_sound_pairs_U2, both clauses) without the
   universe membership *)
Corollary C01_sound_pairs (a b : list param) r :
  valid_sig a = true -> valid_sig b = true ->
  merge [mkSig a None UEmpty [] []; mkSig b None UEmpty [] []] = Ok r ->
  (forall c, (npos c = 0%nat \/ kws c = []) -> accepts (params r) c = true ->
             accepts a c = true /\ accepts b c = true) /\
  (role_consistent [a; b] = true ->
   forall c, noncolliding c (params r) [a; b] = true -> accepts (params r) c = true ->
             accepts a c = true /\ accepts b c = true).
Proof.
  intros Va Vb Hm. split.
  - exact (C01_pos_kw_pairs a b r Va Vb Hm).
  - intros Hrc c Hnc Hc.
    exact (merge2_sound_mixed (mkSig a None UEmpty [] []) (mkSig b None UEmpty [] []) r c Va Vb Hrc Hm Hnc Hc).
Qed.

(* both side conditions of the mixed clause are needed *)
Example merge2_mixed_needs_role_consistency :
  let a := mkSig [mkParam 1 PK None None UEmpty; mkParam 2 PK None None UEmpty] None UEmpty [] [] in
  let b := mkSig [mkParam 2 PK None None UEmpty; mkParam 9 VP None None UEmpty;
                  mkParam 10 VK None None UEmpty] None UEmpty [] [] in
  let c := mkCall 1 [2] in
  valid_sig (params a) = true /\ valid_sig (params b) = true /\
  role_consistent [params a; params b] = false /\
  exists r, merge [a; b] = Ok r /\ noncolliding c (params r) [params a; params b] = true /\
            accepts (params r) c = true /\ accepts (params b) c = false.
Proof. vm_compute. repeat split. eexists. repeat split. Qed.

Example merge2_mixed_needs_noncolliding :
  let a := mkSig [mkParam 1 PK None None UEmpty; mkParam 10 VK None None UEmpty] None UEmpty [] [] in
  let b := mkSig [mkParam 2 PK None None UEmpty; mkParam 10 VK None None UEmpty] None UEmpty [] [] in
  let c := mkCall 1 [2] in
  valid_sig (params a) = true /\ valid_sig (params b) = true /\
  role_consistent [params a; params b] = true /\
  exists r, merge [a; b] = Ok r /\ noncolliding c (params r) [params a; params b] = false /\
            accepts (params r) c = true /\ accepts (params b) c = false.
Proof. vm_compute. repeat split. eexists. repeat split. Qed.

(* the hypotheses are satisfiable on a non-trivial input with a mixed call *)
Example merge2_mixed_nonvacuous :
  let a := mkSig [mkParam 1 PO None None UEmpty; mkParam 2 PK (Some 1) None UEmpty;
                  mkParam 3 KO (Some 1) None UEmpty] None UEmpty [] [] in
  let b := mkSig [mkParam 4 PK None None UEmpty; mkParam 2 PK (Some 2) None UEmpty;
                  mkParam 9 VP None None UEmpty; mkParam 10 VK None None UEmpty] None UEmpty [] [] in
  let c := mkCall 1 [2; 3] in
  valid_sig (params a) = true /\ valid_sig (params b) = true /\
  role_consistent [params a; params b] = true /\
  exists r, merge [a; b] = Ok r /\ noncolliding c (params r) [params a; params b] = true /\
            accepts (params r) c = true.
Proof. vm_compute. repeat split. eexists. repeat split. Qed.

Print Assumptions merger_sound_mixed.
Print Assumptions merge2_sound_mixed.
Print Assumptions C01_sound_pairs.
Print Assumptions merge2_mixed_needs_role_consistency.
Print Assumptions merge2_mixed_needs_noncolliding.
Print Assumptions merge2_mixed_nonvacuous.
