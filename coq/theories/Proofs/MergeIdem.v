(* MergeIdem.v — merge(s, s) has the parameters of s, for ALL valid signatures
   whose annotations are well formed (C09, idempotence). *)
From Sigtools.Model Require Import Base Bind Roles Algebra.
From Sigtools.Proofs Require Import SmallModel Basics MaskLaws MaskExact MergeNeutral.
From Coq Require Import Lia.

(* an unannotated parameter has no upgraded annotation *)
Definition ann_wf (p : param) : Prop := pann p = None -> puann p = UEmpty.

Lemma concile_self p : ann_wf p -> concile p p = p.
Proof.
  unfold ann_wf, concile. destruct p as [n k d a u]; cbn [pname pkind pdef pann puann]. intros H.
  destruct d as [d|], a as [a|]; rewrite ?N.eqb_refl; cbn [fst snd]; try reflexivity;
    rewrite (H eq_refl); reflexivity.
Qed.

Section Idem.
Variable l : sorted.
Hypothesis Hwf : forall p, In p (flatten l) -> ann_wf p.

(* matched keyword-only parameters *)
Lemma kwo_match_self lk : forall st,
  (forall p, In p lk -> find_param (pname p) (kwoargs l) = Some p /\ ann_wf p) ->
  shp (kwo_match l l lk st) =
  (m_pos st, m_pok st, od_update (m_kwo st) lk, m_xva_l st, m_xvk_l st, m_lunm st, m_runm st).
Proof.
  induction lk as [|p lk IH]; intros st H; [reflexivity|].
  cbn [kwo_match]. destruct (H p (or_introl eq_refl)) as [Hf Hw]. rewrite Hf.
  rewrite IH by (intros q Hq; apply H; right; exact Hq).
  rewrite (concile_self p Hw). reflexivity.
Qed.

Lemma zip_pos_self lp : forall il ir st,
  (forall p, In p lp -> ann_wf p) ->
  exists st', zip_pos l l lp lp il ir st = Ok (st', il, ir) /\
    shp st' = (m_pos st ++ lp, m_pok st, m_kwo st, m_xva_l st, m_xvk_l st, m_lunm st, m_runm st).
Proof.
  induction lp as [|p lp IH]; intros il ir st H.
  - exists st. split; [reflexivity|]. unfold shp. rewrite app_nil_r. reflexivity.
  - cbn [zip_pos]. rewrite N.eqb_refl, (concile_self p (H p (or_introl eq_refl))).
    match goal with |- context [zip_pos l l lp lp il ir ?s] =>
      destruct (IH il ir s) as [st' [E Hs]]; [intros q Hq; apply H; right; exact Hq|] end.
    exists st'. split; [exact E|]. rewrite Hs. unfold shp. cbn. rewrite <- app_assoc. reflexivity.
Qed.

Lemma zip_pok_self il : forall st,
  (forall p, In p il -> ann_wf p) ->
  exists st', zip_pok l l il il st = Ok st' /\
    shp st' = (m_pos st, m_pok st ++ il, m_kwo st, m_xva_l st, m_xvk_l st, m_lunm st, m_runm st).
Proof.
  induction il as [|p il IH]; intros st H.
  - exists st. split; [reflexivity|]. unfold shp. rewrite app_nil_r. reflexivity.
  - cbn [zip_pok]. rewrite N.eqb_refl, (concile_self p (H p (or_introl eq_refl))).
    match goal with |- context [zip_pok l l il il ?s] =>
      destruct (IH s) as [st' [E Hs]]; [intros q Hq; apply H; right; exact Hq|] end.
    exists st'. split; [exact E|]. rewrite Hs. unfold shp. cbn. rewrite <- app_assoc. reflexivity.
Qed.
End Idem.

Lemma find_param_self lk p :
  NoDup (names_of lk) -> In p lk -> find_param (pname p) lk = Some p.
Proof.
  induction lk as [|q lk IH]; intros Hn Hp; [destruct Hp|]. cbn in Hn. inversion Hn as [|? ? Hq Hn']; subst.
  cbn [find_param]. destruct Hp as [->|Hp]; [rewrite N.eqb_refl; reflexivity|].
  destruct (N.eqb_spec (pname p) (pname q)) as [E|_]; [|apply IH; assumption].
  exfalso. apply Hq. rewrite <- E. unfold names_of. apply in_map. exact Hp.
Qed.

Lemma r_unmatched_self l : NoDup (names_of (kwoargs l)) -> r_unmatched l l = [].
Proof.
  intros Hn. unfold r_unmatched.
  assert (G : forall sub, incl sub (kwoargs l) ->
              filter (fun p => negb (isSome (find_param (pname p) (kwoargs l)))) sub = []).
  { induction sub as [|p sub IH]; intros Hi; [reflexivity|]. cbn [filter].
    rewrite (find_param_self _ p Hn) by (apply Hi; left; reflexivity). cbn.
    apply IH. intros x Hx. apply Hi. right. exact Hx. }
  apply G. apply incl_refl.
Qed.

Theorem merger_idem l :
  (forall p, In p (flatten l) -> ann_wf p) ->
  Forall (fun p => pkind p = PK) (pokargs l) -> NoDup (names_of (kwoargs l)) ->
  exists res, merger l l = Ok res /\
    posargs res = posargs l /\ pokargs res = pokargs l /\ varargs res = varargs l /\
    kwoargs res = kwoargs l /\ varkwargs res = varkwargs l.
Proof.
  intros Hwf Hpk Hnd. unfold merger.
  set (st0 := mkM [] [] [] [] false false false false [] []).
  assert (Hk : forall p, In p (kwoargs l) -> find_param (pname p) (kwoargs l) = Some p /\ ann_wf p).
  { intros p Hp. split; [apply find_param_self; assumption|]. apply Hwf. unfold flatten.
    apply in_or_app. right. apply in_or_app. right. apply in_or_app. right. apply in_or_app. left. exact Hp. }
  pose proof (kwo_match_self l (kwoargs l) st0 Hk) as H1.
  set (st1 := kwo_match l l (kwoargs l) st0) in *.
  cbn [st0 m_pos m_pok m_kwo m_xva_l m_xvk_l m_lunm m_runm] in H1.
  assert (Hkw : od_update [] (kwoargs l) = kwoargs l).
  { rewrite od_update_fresh; [reflexivity|exact Hnd|intros x _ []]. }
  rewrite Hkw in H1. rewrite (r_unmatched_self l Hnd).
  set (st2 := set_unm st1 R []).
  assert (H2 : shp st2 = ([], [], kwoargs l, false, false, [], [])).
  { apply shp_inv in H1. destruct H1 as (A1 & A2 & A3 & A4 & A5 & A6 & A7).
    apply shp_intro; unfold st2; cbn; assumption || reflexivity. }
  assert (Wpos : forall p, In p (posargs l) -> ann_wf p).
  { intros p Hp. apply Hwf. unfold flatten. apply in_or_app. left. exact Hp. }
  assert (Wpok : forall p, In p (pokargs l) -> ann_wf p).
  { intros p Hp. apply Hwf. unfold flatten. apply in_or_app. right. apply in_or_app. left. exact Hp. }
  destruct (zip_pos_self l (posargs l) (pokargs l) (pokargs l) st2 Wpos) as [st3 [E3 H3]].
  rewrite E3. cbn [bind].
  destruct (zip_pok_self l (pokargs l) st3 Wpok) as [st4 [E4 H4]]. rewrite E4. cbn [bind].
  apply shp_inv in H2. destruct H2 as (A1 & A2 & A3 & A4 & A5 & A6 & A7).
  rewrite A1, A2, A3, A4, A5, A6, A7 in H3. cbn [app] in H3.
  apply shp_inv in H3. destruct H3 as (B1 & B2 & B3 & B4 & B5 & B6 & B7).
  rewrite B1, B2, B3, B4, B5, B6, B7 in H4. cbn [app] in H4.
  apply shp_inv in H4. destruct H4 as (C1 & C2 & C3 & C4 & C5 & C6 & C7).
  assert (E5 : unmatched_kwo l l L st4 = Ok st4) by (unfold unmatched_kwo; cbn [unm]; rewrite C6; reflexivity).
  rewrite E5. cbn [bind].
  assert (E6 : unmatched_kwo l l R st4 = Ok st4) by (unfold unmatched_kwo; cbn [unm]; rewrite C7; reflexivity).
  rewrite E6. cbn [bind].
  assert (H7 : shp (normalise_pok st4) = (posargs l, pokargs l, kwoargs l, false, false, [], [])).
  { unfold normalise_pok. rewrite C2, (split_po_prefix_pk _ Hpk).
    apply shp_intro; cbn [set_pok set_pos m_pos m_pok m_kwo m_xva_l m_xvk_l m_lunm m_runm];
      try assumption; try reflexivity. rewrite C1, app_nil_r. reflexivity. }
  set (st7 := normalise_pok st4) in *.
  assert (Hstar : forall (o : option param) xl xr st,
             (forall a, o = Some a -> ann_wf a) ->
             exists st', add_star l l xl xr o o st = (o, st') /\ shp st' = shp st).
  { intros o xl xr st Ho. unfold add_star. destruct o as [a|]; [|exists st; split; reflexivity].
    rewrite (concile_self a (Ho a eq_refl)), N.eqb_refl.
    destruct xl, xr; cbn [negb andb]; eexists; split; reflexivity. }
  assert (Wva : forall a, varargs l = Some a -> ann_wf a).
  { intros a Ha. apply Hwf. unfold flatten. rewrite Ha. apply in_or_app. right. apply in_or_app. right.
    apply in_or_app. left. left. reflexivity. }
  assert (Wvk : forall a, varkwargs l = Some a -> ann_wf a).
  { intros a Ha. apply Hwf. unfold flatten. rewrite Ha. repeat (apply in_or_app; right). left. reflexivity. }
  destruct (Hstar (varargs l) (m_xva_l st7) (m_xva_r st7) st7 Wva) as [st8 [E8 H8]]. rewrite E8.
  destruct (Hstar (varkwargs l) (m_xvk_l st8) (m_xvk_r st8) st8 Wvk) as [st9 [E9 H9]]. rewrite E9.
  eexists. split; [reflexivity|]. cbn [posargs pokargs varargs kwoargs varkwargs].
  rewrite H8, H7 in H9. apply shp_inv in H9. destruct H9 as (D1 & D2 & D3 & _).
  rewrite D1, D2, D3. repeat split; reflexivity.
Qed.

(* C09: merge(s, s) has the parameters of s *)
Theorem merge_idempotent s :
  valid_sig (params s) = true -> (forall p, In p (params s) -> ann_wf p) ->
  exists r, merge [s; s] = Ok r /\ params r = params s.
Proof.
  intros Hv Hw.
  pose proof (sort_flatten_roundtrip s Hv) as Hf.
  destruct (sort_params_kinds s) as (_ & Hpk & _).
  assert (Hval : validate (params s) = true).
  { unfold valid_sig in Hv. apply andb_true_iff in Hv. destruct Hv as [Hv _]. apply andb_true_iff in Hv. tauto. }
  assert (Hnd : NoDup (names_of (flatten (sort_params s)))) by (rewrite Hf; apply validate_nodup; exact Hval).
  assert (Hw' : forall p, In p (flatten (sort_params s)) -> ann_wf p) by (rewrite Hf; exact Hw).
  destruct (merger_idem (sort_params s) Hw' Hpk (nodup_kwo _ Hnd)) as [res [E (E1 & E2 & E3 & E4 & E5)]].
  cbn [merge merge_steps]. rewrite E. cbn [to_incompatible bind]. unfold apply_params.
  assert (Efl : flatten res = params s) by (unfold flatten; rewrite E1, E2, E3, E4, E5; exact Hf).
  rewrite Efl, Hval. eexists. split; reflexivity.
Qed.
