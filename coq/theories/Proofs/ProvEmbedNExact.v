(* ProvEmbedNExact.v — the WEAKEST star-name hypothesis for the provenance of the n-ary
   embed, as an equivalence (C08).

   ProvEmbedN.stars_apart_fold counts every named parameter of the signatures embedded so
   far; stars_apart_exact counts only those the fold really keeps (an optional parameter
   of a signature embedded into an accumulator without the matching star is dropped).
   With that refinement the hypothesis is not only sufficient but NECESSARY:

     embed_n_src_ok_exact      sufficient  (all inputs)
     embed_n_src_ok_necessary  necessary   (all inputs, no side condition at all)
     embed_n_src_ok_iff        src_ok r <-> stars_apart_exact ... = true

   Necessity: once a forwarded star of the accumulator is spelled like a parameter the
   accumulator keeps, the fold can never recover — the entry of that parameter is popped,
   and only a star of the same spelling can bring an entry back, which renews the
   collision (invariant Bad below); the final constructor then either rejects the
   duplicate name or the parameter has no entry. *)
From Coq Require Import List NArith Bool Arith Lia Btauto.
From Sigtools.Model Require Import Base Bind Roles Algebra.
From Sigtools.Proofs Require Import SmallModel Basics Prov MaskLaws MaskExact MergeNeutral Annot
     ProvKeys Contrib ProvNoDup ContribEmbed ProvNoDupOps ContribMore ProvEmbedN.
Import Base Bind Roles Algebra.
Import ListNotations.
Open Scope N_scope.

(* ================================================================== *)
(* Part 1 — exact stars of merger l (bare star operand)                *)

Lemma merger_star_exact l r s :
  merger l r = Ok s -> named r = [] ->
  option_map pname (varargs s) =
    match varargs l, varargs r with Some a, Some _ => Some (pname a) | _, _ => None end /\
  option_map pname (varkwargs s) =
    match varkwargs l, varkwargs r with Some a, Some _ => Some (pname a) | _, _ => None end.
Proof.
  unfold merger. intros E Hr.
  pose proof (kwo_match_Inv l r [] (kwoargs l) _ (fun p H => H) (Inv_init l r)) as H1.
  set (st1 := kwo_match l r (kwoargs l) (mkM [] [] [] [] false false false false [] [])) in *.
  assert (H2 : Inv l r [] (set_unm st1 R (r_unmatched l r))).
  { apply (Inv_frame l r [] st1 _ H1); try reflexivity.
    - cbn. auto.
    - cbn. auto.
    - cbn. apply (Inv_lunm _ _ _ _ H1).
    - cbn [set_unm m_runm]. unfold r_unmatched. intros p Hp. apply filter_In in Hp. apply Hp. }
  apply bind_ok in E. destruct E as [[[st3 il] ir] [E3 E]].
  destruct (zip_pos_Inv l r [] _ _ _ _ _ _ _ _ (Forall_NS_pos l r L) (Forall_NS_pos l r R)
              (Forall_NS_pok l r L) (Forall_NS_pok l r R) H2 E3) as [H3 [Hil Hir]].
  apply bind_ok in E. destruct E as [st4 [E4 E]].
  pose proof (zip_pok_Inv l r [] _ _ _ _ Hil Hir H3 E4) as H4.
  apply bind_ok in E. destruct E as [st5 [E5 E]].
  pose proof (unmatched_kwo_Inv l r [] _ _ _ H4 E5) as H5.
  apply bind_ok in E. destruct E as [st6 [E6 E]].
  pose proof (unmatched_kwo_Inv l r [] _ _ _ H5 E6) as H6.
  pose proof (normalise_pok_Inv l r [] _ H6) as H7.
  set (st7 := normalise_pok st6) in *.
  destruct (add_star l r (m_xva_l st7) (m_xva_r st7) (varargs l) (varargs r) st7) as [va st8] eqn:E8.
  destruct (add_star_Inv l r [] _ _ _ _ _ _ _ H7 (opt_in_flatten_va l) (opt_in_flatten_va r)
              (proj1 (proj2 (proj2 (proj2 (proj2 H7))))) E8) as [H8 _].
  destruct (add_star l r (m_xvk_l st8) (m_xvk_r st8) (varkwargs l) (varkwargs r) st8) as [vk st9] eqn:E9.
  assert (X7 : m_xva_l st7 = false).
  { destruct (m_xva_l st7) eqn:X; [|reflexivity]. exfalso.
    apply (proj1 (proj2 (proj2 (proj2 (proj2 H7)))) X). exact Hr. }
  assert (X8 : m_xvk_l st8 = false).
  { destruct (m_xvk_l st8) eqn:X; [|reflexivity]. exfalso.
    apply (proj1 (proj2 (proj2 (proj2 (proj2 (proj2 H8))))) X). exact Hr. }
  inversion E; subst. clear E. cbn [varargs varkwargs].
  rewrite X7 in E8. rewrite X8 in E9. unfold add_star in E8, E9. cbn [negb andb] in E8, E9.
  split.
  - destruct (varargs l) as [a|]; [|inversion E8; reflexivity].
    destruct (varargs r) as [b|]; [|inversion E8; reflexivity].
    destruct (negb (m_xva_r st7)); inversion E8; reflexivity.
  - destruct (varkwargs l) as [a|]; [|inversion E9; reflexivity].
    destruct (varkwargs r) as [b|]; [|inversion E9; reflexivity].
    destruct (negb (m_xvk_r st8)); inversion E9; reflexivity.
Qed.

(* ================================================================== *)
(* Part 2 — the exact hypothesis                                       *)

(* the accumulator forwards a star of this kind: the use flag is on and it has one *)
Definition hfl (use : bool) (o : option name) : bool := use && isSome o.

(* names of the named parameters after embedding a signature classified as so:
   positional-only parameters survive only next to a forwarded *args, keyword-only ones
   only next to a forwarded **kwargs, positional-or-keyword ones next to either *)
Definition next_named (uva uvk : bool) (nn : list name) (va vk : option name) (so : sorted) : list name :=
  nn ++ (if hfl uva va then names_of (posargs so) else [])
     ++ (if hfl uva va || hfl uvk vk then names_of (pokargs so) else [])
     ++ (if hfl uvk vk then names_of (kwoargs so) else []).

Fixpoint exact_steps (uva uvk : bool) (nn : list name) (va vk : option name) (ss : list sigT) : bool :=
  match ss with
  | [] => true
  | s :: ss' =>
      fwd_okb uva uvk nn va vk &&
      exact_steps uva uvk (next_named uva uvk nn va vk (sort_params s))
                  (next_star uva va (varargs (sort_params s)))
                  (next_star uvk vk (varkwargs (sort_params s))) ss'
  end.

Definition stars_apart_exact (uva uvk : bool) (ss : list sigT) : bool :=
  match ss with
  | [] => true
  | s0 :: ss' =>
      exact_steps uva uvk (names_of (named (sort_params s0)))
                  (option_map pname (varargs (sort_params s0)))
                  (option_map pname (varkwargs (sort_params s0))) ss'
  end.

(* the abstract state is exactly the accumulator's *)
Definition T (nn : list name) (va vk : option name) (acc : sorted) : Prop :=
  (forall y, memn y (named acc) = mem y nn) /\
  va = option_map pname (varargs acc) /\ vk = option_map pname (varkwargs acc).

Lemma T_tracks nn va vk acc : T nn va vk acc -> tracks nn va vk acc.
Proof.
  intros (T1 & -> & ->). split; [|split].
  - intros y Hy. apply mem_In. rewrite <- T1. exact Hy.
  - intros p ->. reflexivity.
  - intros p ->. reflexivity.
Qed.

Lemma T_init s0 :
  T (names_of (named (sort_params s0))) (option_map pname (varargs (sort_params s0)))
    (option_map pname (varkwargs (sort_params s0))) (sort_params s0).
Proof. split; [intros y; reflexivity | split; reflexivity]. Qed.

(* the parts of an embed step, exactly *)
Lemma embed_step_inv2 outer inner uva uvk depth s :
  embed_step outer inner uva uvk depth = Ok s ->
  exists m, merger inner (estars uva uvk outer) = Ok m /\
    (forall y, memn y (named s) = memn y (named outer) || memn y (named m)) /\
    (forall y, memn y (named outer) = true -> memn y (named m) = false) /\
    varargs s = (if uva then varargs m else varargs outer) /\
    varkwargs s = (if uvk then varkwargs m else varkwargs outer) /\
    ssrc s = overlay (pop_star uvk (varkwargs outer) (pop_star uva (varargs outer) (ssrc outer))) (ssrc m).
Proof.
  unfold embed_step. intros E.
  apply bind_ok in E. destruct E as [i [Ei E]]. exists i. split; [exact Ei|].
  apply bind_ok in E. destruct E as [n1 [C1 E]]. apply check_no_dupes_ok in C1. destruct C1 as [-> _].
  apply bind_ok in E. destruct E as [n2 [C2 E]]. apply check_no_dupes_ok in C2. destruct C2 as [-> D2].
  cbn [app] in *.
  apply bind_ok in E. destruct E as [[[e_pos e_pok] n3] [Ee E]].
  assert (He : (forall y, memn y (e_pos ++ e_pok ++ pokargs i) =
                          memn y (posargs outer) || memn y (pokargs outer)
                          || memn y (posargs i) || memn y (pokargs i)) /\
               n3 = names_of (posargs outer) ++ names_of (pokargs outer) ++ names_of (posargs i) /\
               (forall x, In x (names_of (posargs i)) ->
                          ~ In x (names_of (posargs outer) ++ names_of (pokargs outer)))).
  { destruct (posargs i) as [|ip0 ips] eqn:Epi.
    - split; [|split; [|intros x []]].
      + intros y. rewrite !memn_app, memn_nil. destruct (pokargs i) as [|ik0 iks] eqn:Epk.
        * inversion Ee; subst. btauto.
        * destruct (has_def ik0); inversion Ee; subst; rewrite ?memn_clear; btauto.
      + cbn [names_of map]. rewrite app_nil_r.
        destruct (pokargs i) as [|ik0 iks]; [|destruct (has_def ik0)]; inversion Ee; reflexivity.
    - apply bind_ok in Ee. destruct Ee as [n3' [C3 Ee]]. apply check_no_dupes_ok in C3. destruct C3 as [-> D3].
      inversion Ee; subst. split; [|split; [rewrite <- app_assoc; reflexivity | exact D3]].
      intros y. destruct (has_def ip0);
        repeat first [rewrite memn_clear | rewrite memn_app | rewrite memn_map_kind | rewrite memn_nil]; btauto. }
  destruct He as (He & -> & D3).
  apply bind_ok in E. destruct E as [n4 [C4 E]]. apply check_no_dupes_ok in C4. destruct C4 as [-> D4].
  apply bind_ok in E. destruct E as [n5 [C5 E]]. apply check_no_dupes_ok in C5. destruct C5 as [-> D5].
  apply bind_ok in E. destruct E as [n6 [C6 E]]. apply check_no_dupes_ok in C6. destruct C6 as [-> D6].
  inversion E; subst. clear E. cbn [varargs varkwargs ssrc].
  split; [|split; [|split; [reflexivity|split; [reflexivity|]]]].
  - intros y. unfold named at 1. cbn [posargs pokargs kwoargs].
    rewrite app_assoc, memn_app, He, !memn_od_update, memn_nil.
    unfold named. rewrite !memn_app. btauto.
  - intros y Hy. destruct (memn y (named i)) eqn:Hi; [exfalso|reflexivity].
    unfold named in Hy, Hi. rewrite !memn_app, !orb_true_iff in Hy, Hi. unfold memn in Hy, Hi.
    rewrite !mem_In in Hy, Hi.
    destruct Hi as [Hi|[Hi|Hi]].
    + destruct Hy as [Hy|[Hy|Hy]].
      * apply (D3 y Hi). apply in_or_app. left. exact Hy.
      * apply (D3 y Hi). apply in_or_app. right. exact Hy.
      * apply (D5 y Hy). rewrite !in_app_iff. tauto.
    + destruct Hy as [Hy|[Hy|Hy]].
      * apply (D4 y Hi). rewrite !in_app_iff. tauto.
      * apply (D4 y Hi). rewrite !in_app_iff. tauto.
      * apply (D5 y Hy). rewrite !in_app_iff. tauto.
    + apply (D6 y Hi). rewrite !in_app_iff. tauto.
  - unfold overlay, pop_star. destruct (varargs outer); destruct (varkwargs outer); reflexivity.
Qed.

Lemma embed_step_T outer s uva uvk depth acc' nn va vk :
  T nn va vk outer ->
  embed_step outer (sort_params s) uva uvk depth = Ok acc' ->
  T (next_named uva uvk nn va vk (sort_params s)) (next_star uva va (varargs (sort_params s)))
    (next_star uvk vk (varkwargs (sort_params s))) acc'.
Proof.
  intros (T1 & T2 & T3) E. set (inner := sort_params s) in *.
  destruct (embed_step_inv2 _ _ _ _ _ _ E) as (m & Em & Hn & _ & Hva & Hvk & _).
  destruct (sort_params_kinds s) as (_ & PKi & _). fold inner in PKi.
  destruct (merger_stars inner _ _ [] [] PKi m Em) as (P1 & P2 & P3 & _).
  destruct (merger_star_exact _ _ _ Em (named_estars uva uvk outer)) as [Sva Svk].
  cbn [estars varargs varkwargs] in Sva, Svk.
  assert (Fa : isSome (opt_if uva (varargs outer)) = hfl uva va).
  { rewrite T2. unfold hfl. destruct uva, (varargs outer); reflexivity. }
  assert (Fk : isSome (opt_if uvk (varkwargs outer)) = hfl uvk vk).
  { rewrite T3. unfold hfl. destruct uvk, (varkwargs outer); reflexivity. }
  rewrite Fa, Fk in P1, P2, P3.
  split; [|split].
  - intros y. rewrite Hn, T1. unfold next_named. rewrite !mem_app.
    unfold named at 1. rewrite !memn_app, P1, P2, P3.
    destruct (hfl uva va), (hfl uvk vk); cbn [andb orb negb];
      repeat first [rewrite memn_app | rewrite memn_od_update | rewrite memn_map_kind | rewrite memn_nil];
      unfold memn; cbn [mem names_of map]; btauto.
  - rewrite Hva. unfold next_star. destruct uva; [|exact T2].
    rewrite Sva, T2. cbn [opt_if]. destruct (varargs outer), (varargs inner); reflexivity.
  - rewrite Hvk. unfold next_star. destruct uvk; [|exact T3].
    rewrite Svk, T3. cbn [opt_if]. destruct (varkwargs outer), (varkwargs inner); reflexivity.
Qed.

(* ================================================================== *)
(* Part 3 — sufficient                                                 *)

Lemma embed_steps_sorted_ok_exact ss : forall acc uva uvk depth r nn va vk,
  sorted_ok acc -> T nn va vk acc -> Forall src_nonempty ss ->
  exact_steps uva uvk nn va vk ss = true ->
  embed_steps acc ss uva uvk depth = Ok r -> sorted_ok r.
Proof.
  induction ss as [|s ss IH]; intros acc uva uvk depth r nn va vk Hacc Ht Hss Hap; cbn [embed_steps].
  - intros E; inversion E; subst; exact Hacc.
  - inversion Hss as [|s' ss' Hs Hss']; subst. intros E.
    cbn [exact_steps] in Hap. apply andb_true_iff in Hap. destruct Hap as [Hf Hap].
    apply bind_ok in E. destruct E as [acc' [E1 E2]]. apply to_incompatible_ok in E1.
    eapply IH; [| |exact Hss'|exact Hap|exact E2].
    + eapply embed_step_sorted_ok; [exact Hacc | eapply tracks_fwd_apart; [apply T_tracks; exact Ht|exact Hf] | | exact E1].
      apply sort_params_nonempty. exact Hs.
    + eapply embed_step_T; [exact Ht | exact E1].
Qed.

Theorem embed_n_src_ok_exact s0 ss uva uvk r :
  embed (s0 :: ss) uva uvk = Ok r ->
  valid_sig (params s0) = true -> stars_apart_exact uva uvk (s0 :: ss) = true ->
  src_ok s0 -> Forall src_nonempty ss -> src_ok r.
Proof.
  cbn [embed stars_apart_exact]. intros E Hv Hap H0 Hss.
  apply bind_ok in E. destruct E as [acc [E1 E2]].
  eapply apply_params_src_ok; [|exact E2].
  eapply embed_steps_sorted_ok_exact; [| |exact Hss|exact Hap|exact E1].
  - apply sort_params_sorted_ok; assumption.
  - apply T_init.
Qed.

(* the fold-wise hypothesis of ProvEmbedN implies the exact one *)
Lemma exact_steps_of_apart uva uvk ss : forall nn nn' va vk,
  (forall y, In y nn' -> In y nn) ->
  apart_steps uva uvk nn va vk ss = true -> exact_steps uva uvk nn' va vk ss = true.
Proof.
  induction ss as [|s ss IH]; intros nn nn' va vk Hsub; cbn [apart_steps exact_steps]; [reflexivity|].
  intros H. apply andb_true_iff in H. destruct H as [Hf H]. apply andb_true_iff. split.
  - assert (Hm : forall a, mem a nn = false -> mem a nn' = false).
    { intros a Ha. apply mem_false_In. intros Hin. apply mem_false_In in Ha. apply Ha. apply Hsub. exact Hin. }
    unfold fwd_okb in *. apply andb_true_iff in Hf. destruct Hf as [F1 F2]. apply andb_true_iff. split.
    + destruct va as [a|]; [|reflexivity]. destruct uva; [|reflexivity]. cbn [negb orb] in *.
      apply andb_true_iff in F1. destruct F1 as [A B]. apply negb_true_iff in A. rewrite (Hm a A). exact B.
    + destruct vk as [k|]; [|reflexivity]. destruct uvk; [|reflexivity]. cbn [negb orb] in *.
      apply andb_true_iff in F2. destruct F2 as [A B]. apply negb_true_iff in A. rewrite (Hm k A). exact B.
  - eapply IH; [|exact H]. intros y. unfold next_named, named. unfold names_of. rewrite !map_app, !in_app_iff.
    intros [Hy|[Hy|[Hy|Hy]]]; [left; apply Hsub; exact Hy | | |].
    + destruct (hfl uva va); [tauto | destruct Hy].
    + destruct (hfl uva va || hfl uvk vk); [tauto | destruct Hy].
    + destruct (hfl uvk vk); [tauto | destruct Hy].
Qed.

Theorem stars_apart_fold_exact uva uvk ss :
  stars_apart_fold uva uvk ss = true -> stars_apart_exact uva uvk ss = true.
Proof.
  destruct ss as [|s0 ss]; [reflexivity|]. cbn [stars_apart_fold stars_apart_exact].
  apply exact_steps_of_apart. auto.
Qed.

(* ================================================================== *)
(* Part 4 — necessary                                                  *)

(* the stars the accumulator keeps for good / hands to the next signature *)
Definition kept (uva uvk : bool) (acc : sorted) : list param :=
  opt_list (if uva then None else varargs acc) ++ opt_list (if uvk then None else varkwargs acc).
Definition fwds (uva uvk : bool) (acc : sorted) : list param :=
  opt_list (opt_if uva (varargs acc)) ++ opt_list (opt_if uvk (varkwargs acc)).

(* a name x of a parameter the accumulator keeps for good (named or kept star) that has no
   entry, or is also the name of a forwarded star, or of a named AND a kept parameter *)
Definition Bad (uva uvk : bool) (acc : sorted) : Prop :=
  exists x,
    (memn x (named acc) = true \/ memn x (kept uva uvk acc) = true) /\
    (src_mem (ssrc acc) x = false \/ memn x (fwds uva uvk acc) = true \/
     (memn x (named acc) = true /\ memn x (kept uva uvk acc) = true)).

Lemma memn_fwds uva uvk acc x :
  memn x (fwds uva uvk acc) = popped uva (varargs acc) x || popped uvk (varkwargs acc) x.
Proof.
  unfold fwds. rewrite memn_app, !popped_opt. destruct uva, uvk; cbn [opt_if opt_list andb]; rewrite ?memn_nil; reflexivity.
Qed.

Lemma fwd_okb_false_bad uva uvk nn va vk acc :
  T nn va vk acc -> fwd_okb uva uvk nn va vk = false -> Bad uva uvk acc.
Proof.
  intros (T1 & -> & ->) H. unfold fwd_okb in H. apply andb_false_iff in H. destruct H as [H|H].
  - destruct (varargs acc) as [p|] eqn:Ep; [|discriminate H]. cbn [option_map] in H.
    destruct uva; [|discriminate H]. cbn [negb orb] in H. exists (pname p).
    assert (Hf : memn (pname p) (fwds true uvk acc) = true).
    { rewrite memn_fwds, Ep. cbn [popped andb]. rewrite N.eqb_refl. reflexivity. }
    apply andb_false_iff in H. destruct H as [H|H].
    + apply negb_false_iff in H. rewrite <- T1 in H. split; [left; exact H | right; left; exact Hf].
    + destruct uvk; [discriminate H|]. cbn [orb] in H.
      destruct (varkwargs acc) as [q|] eqn:Eq; [|discriminate H]. cbn [option_map] in H.
      apply negb_false_iff in H. split; [right | right; left; exact Hf].
      unfold kept. rewrite Eq. cbn [opt_list app]. rewrite memn_one. exact H.
  - destruct (varkwargs acc) as [q|] eqn:Eq; [|discriminate H]. cbn [option_map] in H.
    destruct uvk; [|discriminate H]. cbn [negb orb] in H. exists (pname q).
    assert (Hf : memn (pname q) (fwds uva true acc) = true).
    { rewrite memn_fwds, Eq. cbn [popped andb]. rewrite N.eqb_refl. apply orb_true_r. }
    apply andb_false_iff in H. destruct H as [H|H].
    + apply negb_false_iff in H. rewrite <- T1 in H. split; [left; exact H | right; left; exact Hf].
    + destruct uva; [discriminate H|]. cbn [orb] in H.
      destruct (varargs acc) as [p|] eqn:Ep; [|discriminate H]. cbn [option_map] in H.
      apply negb_false_iff in H. split; [right | right; left; exact Hf].
      unfold kept. rewrite Ep. cbn [opt_list app]. rewrite memn_one. exact H.
Qed.

Lemma Bad_step outer inner uva uvk depth s :
  embed_step outer inner uva uvk depth = Ok s -> Bad uva uvk outer -> Bad uva uvk s.
Proof.
  intros E (x & Hp & Hc).
  destruct (embed_step_inv2 _ _ _ _ _ _ E) as (m & Em & Hn & Hd & Hva & Hvk & Es).
  destruct (merger_Inv _ _ _ Em) as (_ & M2 & _ & _ & _ & _ & _ & Nva & Nvk).
  cbn [estars varargs varkwargs] in Nva, Nvk.
  assert (Hk : kept uva uvk s = kept uva uvk outer).
  { unfold kept. rewrite Hva, Hvk. destruct uva, uvk; reflexivity. }
  assert (Hp' : memn x (named s) = true \/ memn x (kept uva uvk s) = true).
  { rewrite Hk, Hn. destruct Hp as [-> | ->]; [left; reflexivity | right; reflexivity]. }
  destruct Hc as [Hc|[Hc|[Hc1 Hc2]]].
  3:{ exists x. split; [exact Hp'|]. right; right. rewrite Hk, Hn, Hc1. split; [reflexivity | exact Hc2]. }
  (* in both remaining cases the outer map, once the forwarded stars are popped, has no x *)
  all: assert (Ho : src_mem (pop_star uvk (varkwargs outer) (pop_star uva (varargs outer) (ssrc outer))) x = false)
    by (rewrite !pop_star_mem; try rewrite memn_fwds in Hc;
        destruct (src_mem (ssrc outer) x), (popped uva (varargs outer) x), (popped uvk (varkwargs outer) x);
        cbn in *; congruence).
  all: assert (Hs : src_mem (ssrc s) x = memn x (flatten m))
    by (rewrite Es, overlay_mem, Ho, orb_false_r; apply M2).
  all: rewrite memn_flatten in Hs.
  all: exists x; split; [exact Hp'|].
  all: destruct (memn x (named m)) eqn:En;
    [ destruct Hp as [Hp|Hp]; [rewrite (Hd x Hp) in En; discriminate En|];
      right; right; rewrite Hk, Hn, En, orb_true_r; split; [reflexivity | exact Hp] |].
  all: destruct (memn x (opt_list (varargs m))) eqn:Ea;
    [ right; left; rewrite memn_fwds, Hva, Hvk;
      destruct uva; [rewrite popped_opt, Ea; reflexivity|];
      rewrite Nva in Ea by (right; reflexivity); discriminate Ea |].
  all: destruct (memn x (opt_list (varkwargs m))) eqn:Ek;
    [ right; left; rewrite memn_fwds, Hva, Hvk;
      destruct uvk; [rewrite (popped_opt true), Ek; apply orb_true_r|];
      rewrite Nvk in Ek by (right; reflexivity); discriminate Ek |].
  all: left; rewrite Hs; reflexivity.
Qed.

Lemma Bad_steps ss : forall acc uva uvk depth r,
  embed_steps acc ss uva uvk depth = Ok r -> Bad uva uvk acc -> Bad uva uvk r.
Proof.
  induction ss as [|s ss IH]; intros acc uva uvk depth r; cbn [embed_steps].
  - intros E; inversion E; subst. auto.
  - intros E Hb. apply bind_ok in E. destruct E as [acc' [E1 E2]]. apply to_incompatible_ok in E1.
    eapply IH; [exact E2|]. eapply Bad_step; [exact E1 | exact Hb].
Qed.

Lemma exact_steps_false_bad ss : forall acc uva uvk depth r nn va vk,
  T nn va vk acc -> exact_steps uva uvk nn va vk ss = false ->
  embed_steps acc ss uva uvk depth = Ok r -> Bad uva uvk r.
Proof.
  induction ss as [|s ss IH]; intros acc uva uvk depth r nn va vk Ht; cbn [exact_steps embed_steps]; [discriminate|].
  intros H E. apply bind_ok in E. destruct E as [acc' [E1 E2]].
  pose proof (to_incompatible_ok _ _ E1) as E1'.
  apply andb_false_iff in H. destruct H as [H|H].
  - eapply Bad_steps; [exact E2|]. eapply Bad_step; [exact E1'|]. eapply fwd_okb_false_bad; [exact Ht | exact H].
  - eapply IH; [|exact H|exact E2]. eapply embed_step_T; [exact Ht | exact E1'].
Qed.

Lemma cntn_kept_fwds uva uvk acc x :
  (cntn x (kept uva uvk acc) + cntn x (fwds uva uvk acc) =
   cntn x (opt_list (varargs acc)) + cntn x (opt_list (varkwargs acc)))%nat.
Proof.
  unfold kept, fwds. rewrite !cntn_app. destruct uva, uvk; cbn [opt_if opt_list]; rewrite ?cntn_nil; lia.
Qed.

Lemma Bad_final uva uvk base acc r :
  Bad uva uvk acc -> apply_params base acc = Ok r -> ~ src_ok r.
Proof.
  intros (x & Hp & Hc) E (K1 & K2 & K3).
  pose proof (apply_params_valid _ _ _ E) as Hval. apply validate_nodup in Hval.
  destruct (apply_params_fields _ _ _ E) as [Ep Es]. rewrite Ep in Hval, K2. rewrite Es in K2.
  pose proof (flatten_cnt acc x Hval) as Hcnt.
  pose proof (cntn_kept_fwds uva uvk acc x) as Hkf.
  assert (Hnamed : cntn x (named acc) = (cntn x (posargs acc) + cntn x (pokargs acc) + cntn x (kwoargs acc))%nat)
    by (unfold named; rewrite !cntn_app; lia).
  assert (Hmem : memn x (flatten acc) = true).
  { rewrite memn_flatten. destruct Hp as [Hp|Hp]; [rewrite Hp; reflexivity|].
    apply memn_cntn in Hp.
    destruct (memn x (opt_list (varargs acc))) eqn:Ea; [apply orb_true_iff; left; apply orb_true_r|].
    destruct (memn x (opt_list (varkwargs acc))) eqn:Ek; [apply orb_true_r|].
    apply memn_false_cntn in Ea. apply memn_false_cntn in Ek. lia. }
  destruct Hc as [Hc|[Hc|[Hc1 Hc2]]].
  - specialize (K2 x). fold (memn x (flatten acc)) in K2. rewrite Hc, Hmem in K2. discriminate K2.
  - apply memn_cntn in Hc. destruct Hp as [Hp|Hp]; apply memn_cntn in Hp; lia.
  - apply memn_cntn in Hc1. apply memn_cntn in Hc2. lia.
Qed.

(* NECESSARY, for all inputs and with no side condition: if the exact hypothesis fails and
   the embed still succeeds, the provenance map of the result is not well formed *)
Theorem embed_n_src_ok_necessary s0 ss uva uvk r :
  embed (s0 :: ss) uva uvk = Ok r -> stars_apart_exact uva uvk (s0 :: ss) = false -> ~ src_ok r.
Proof.
  cbn [embed stars_apart_exact]. intros E Hap.
  apply bind_ok in E. destruct E as [acc [E1 E2]].
  eapply Bad_final; [|exact E2].
  eapply exact_steps_false_bad; [apply T_init | exact Hap | exact E1].
Qed.

(* the weakest hypothesis: for well-formed inputs the result of the n-ary embed has exactly
   one non-empty provenance entry per parameter and nothing else IF AND ONLY IF no forwarded
   star is spelled like a parameter kept so far, step by step *)
Theorem embed_n_src_ok_iff s0 ss uva uvk r :
  embed (s0 :: ss) uva uvk = Ok r ->
  valid_sig (params s0) = true -> src_ok s0 -> Forall src_nonempty ss ->
  (src_ok r <-> stars_apart_exact uva uvk (s0 :: ss) = true).
Proof.
  intros E Hv H0 Hss. split.
  - intros Hr. destruct (stars_apart_exact uva uvk (s0 :: ss)) eqn:Hx; [reflexivity|].
    exfalso. exact (embed_n_src_ok_necessary s0 ss uva uvk r E Hx Hr).
  - intros Hx. exact (embed_n_src_ok_exact s0 ss uva uvk r E Hv Hx H0 Hss).
Qed.

(* ================================================================== *)
(* Part 5 — examples                                                   *)

(* the input on which stars_apart_fold was too strong satisfies the exact hypothesis *)
Example embed_n_src_ok_exact_sat :
  exists r, embed [dsig 100 [bp 9 VP]; dsig 101 [bp 9 VP; mkParam 1 KO (Some 1) None UEmpty];
                   dsig 102 [bp 1 VP]; dsig 103 [bp 9 VP]] true true = Ok r /\
    valid_sig (params (dsig 100 [bp 9 VP])) = true /\
    stars_apart_exact true true [dsig 100 [bp 9 VP]; dsig 101 [bp 9 VP; mkParam 1 KO (Some 1) None UEmpty];
                                 dsig 102 [bp 1 VP]; dsig 103 [bp 9 VP]] = true /\
    stars_apart_fold true true [dsig 100 [bp 9 VP]; dsig 101 [bp 9 VP; mkParam 1 KO (Some 1) None UEmpty];
                                dsig 102 [bp 1 VP]; dsig 103 [bp 9 VP]] = false /\
    src_ok (dsig 100 [bp 9 VP]) /\
    Forall src_nonempty [dsig 101 [bp 9 VP; mkParam 1 KO (Some 1) None UEmpty]; dsig 102 [bp 1 VP]; dsig 103 [bp 9 VP]] /\
    srcs r = [(9, [103])] /\ names_of (params r) = [9].
Proof.
  eexists. split; [vm_compute; reflexivity|]. split; [vm_compute; reflexivity|].
  split; [vm_compute; reflexivity|]. split; [vm_compute; reflexivity|].
  split; [apply dsig_src_ok; vm_compute; reflexivity|].
  split; [repeat (constructor; [apply src_ok_nonempty; apply dsig_src_ok; vm_compute; reflexivity|]); constructor|].
  split; reflexivity.
Qed.

(* the refutation witness of ProvKeys.embed_src_ok_refuted, now as an instance of necessity *)
Example embed_n_src_ok_necessary_sat :
  exists r, embed [dsig 100 [bp 1 PK; bp 9 VP; bp 10 VK]; dsig 101 [bp 1 VP; bp 10 VK];
                   dsig 102 [bp 11 VP]] true true = Ok r /\
    stars_apart_exact true true [dsig 100 [bp 1 PK; bp 9 VP; bp 10 VK]; dsig 101 [bp 1 VP; bp 10 VK];
                                 dsig 102 [bp 11 VP]] = false /\ ~ src_ok r.
Proof.
  eexists. split; [vm_compute; reflexivity|]. split; [vm_compute; reflexivity|].
  apply (embed_n_src_ok_necessary (dsig 100 [bp 1 PK; bp 9 VP; bp 10 VK])
           [dsig 101 [bp 1 VP; bp 10 VK]; dsig 102 [bp 11 VP]] true true); vm_compute; reflexivity.
Qed.

Print Assumptions merger_star_exact.
Print Assumptions embed_n_src_ok_exact.
Print Assumptions stars_apart_fold_exact.
Print Assumptions embed_n_src_ok_necessary.
Print Assumptions embed_n_src_ok_iff.
Print Assumptions embed_n_src_ok_exact_sat.
Print Assumptions embed_n_src_ok_necessary_sat.
