(* C17 - machine I: retrievals that share NO mutable state.

   Two scenario families of harness/props/c17.py have, in the code as it is, no
   shared mutable object between the threads:

   * class access  K.meth  of a method decorated with wrappers.wrapper_decorator /
     wrappers.decorator (sigtools/wrappers.py _Wrapped.__get__ / _SimpleWrapped.__get__):
     every attribute access builds a FRESH wrapper object, so the entries that
     specifiers._AsForged.__get__ (:64-72) puts into the process-wide set
     currently_computing are distinct objects - the guard of one thread is never
     seen by another one;
   * sigtools.signature of functions that forward *args/**kwargs to themselves or to
     each other: the recursion stack of _autoforwards.autoforwards_function
     (_being_analysed, a threading.local whose list is created on first use IN EACH
     THREAD) is private to the thread.

   The model of such a scenario is therefore n independent sequential programs
   under the plan scheduler of Model/Sched.v: a thread's program is the line trace
   of its retrieval run alone (measured by the harness with a one-thread plan
   before any concurrent run, the way machine W's cfg / init are measured), its
   answer is the answer alone (1).  What the machine predicts for a plan - which
   plans are valid (a preemption point must lie before the thread's end), every
   thread's trace and answer - is compared with the real code for every plan.

   This file is not listed in _CoqProject (that file is fixed); the check loads its
   text as the preamble of its Coq evaluations, so the definitions AND the proofs
   below are checked by coqc on every run of ./check C17. *)
From Coq Require Import List NArith Bool Arith Lia.
Import ListNotations.
From Sigtools.Model Require Import Sched.
Open Scope nat_scope.

(* a thread: the codes it still has to emit, the codes emitted (newest first), finished? *)
Record ithread := mkI { i_todo : list N; i_trace : list N; i_done : bool }.
Record istate := mkIS { is_threads : list ithread }.

(* one scheduler step of thread t = run it to its next line event (emit one code), or,
   when no line event is left, to its end.  None: t is not a thread or has finished *)
Definition iexec (th : ithread) : option ithread :=
  if i_done th then None else
  match i_todo th with
  | c :: r => Some (mkI r (c :: i_trace th) false)
  | [] => Some (mkI [] (i_trace th) true)
  end.

Definition istep (st : istate) (t : nat) : option istate :=
  match nth_error (is_threads st) t with
  | None => None
  | Some th =>
      match iexec th with
      | None => None
      | Some th' => Some (mkIS (update (is_threads st) t th'))
      end
  end.

Fixpoint irun (st : istate) (sched : list nat) : istate :=
  match sched with
  | [] => st
  | t :: r => match istep st t with Some st' => irun st' r | None => irun st r end
  end.

Definition iinit (progs : list (list N)) : istate :=
  mkIS (map (fun p => mkI p [] false) progs).

Definition i_all_done (st : istate) : bool := forallb i_done (is_threads st).

Definition i_thread_done (st : istate) (t : nat) : bool :=
  match nth_error (is_threads st) t with
  | Some th => i_done th
  | None => true
  end.

Fixpoint irun_n (st : istate) (t n : nat) : option istate :=
  match n with
  | O => Some st
  | S m => match istep st t with Some st' => irun_n st' t m | None => None end
  end.

Fixpoint irun_done (fuel : nat) (st : istate) (t : nat) : istate :=
  match fuel with
  | O => st
  | S f => match istep st t with Some st' => irun_done f st' t | None => st end
  end.

Definition ifuel (st : istate) : nat :=
  S (fold_right (fun th a => length (i_todo th) + a) 0 (is_threads st)).

(* same reading of plans as run_plan / grun_plan: None = invalid plan *)
Fixpoint irun_plan (st : istate) (p : plan) : option istate :=
  match p with
  | [] => if i_all_done st then Some st else None
  | (t, None) :: r => if i_thread_done st t then None else irun_plan (irun_done (ifuel st) st t) r
  | (t, Some n) :: r =>
      match irun_n st t n with
      | Some st' => if i_thread_done st' t then None else irun_plan st' r
      | None => None
      end
  end.

(* answer 1 = the answer of the retrieval alone; a thread of this machine has no other *)
Definition ioutcome (st : istate) : list (N * list N) :=
  map (fun th => (1%N, rev (i_trace th))) (is_threads st).

Definition icase_agrees (progs : list (list N)) (p : plan) (impl : option (list (N * list N))) : bool :=
  match irun_plan (iinit progs) p, impl with
  | None, None => true
  | Some st, Some o => obs_eqb (ioutcome st) o
  | _, _ => false
  end.

(* ------------------------------------------------------------------ *)
(** * Every interleaving gives every thread its solo trace *)

(* what has been emitted followed by what is left is the program; a finished thread has nothing left *)
Definition iinv (p : list N) (th : ithread) : Prop :=
  rev (i_trace th) ++ i_todo th = p /\ (i_done th = true -> i_todo th = []).

Lemma iexec_inv : forall p th th', iinv p th -> iexec th = Some th' -> iinv p th'.
Proof.
  intros p th th' [H1 H2] E. unfold iexec in E.
  destruct (i_done th) eqn:D; [discriminate|].
  destruct (i_todo th) as [|c r] eqn:T; injection E as <-; split; simpl.
  - exact H1.
  - reflexivity.
  - rewrite <- app_assoc. simpl. exact H1.
  - discriminate.
Qed.

Lemma update_Forall2 : forall (A B : Type) (R : A -> B -> Prop) (l : list A) (m : list B) t x y,
  Forall2 R l m -> nth_error l t = Some x -> R x y -> Forall2 R l (update m t y).
Proof.
  intros A B R l m t x y F. revert t. induction F; intros t E Rxy.
  - destruct t; discriminate.
  - destruct t; simpl in *.
    + inversion E; subst. constructor; assumption.
    + constructor; [assumption | apply IHF; assumption].
Qed.

Lemma Forall2_nth : forall (A B : Type) (R : A -> B -> Prop) (l : list A) (m : list B) t y,
  Forall2 R l m -> nth_error m t = Some y -> exists x, nth_error l t = Some x /\ R x y.
Proof.
  intros A B R l m t y F. revert t. induction F; intros t E.
  - destruct t; discriminate.
  - destruct t; simpl in *.
    + inversion E; subst. eexists; split; [reflexivity | assumption].
    + apply IHF; assumption.
Qed.

Lemma istep_inv : forall progs st t st',
  Forall2 iinv progs (is_threads st) -> istep st t = Some st' -> Forall2 iinv progs (is_threads st').
Proof.
  intros progs st t st' F E. unfold istep in E.
  destruct (nth_error (is_threads st) t) as [th|] eqn:N; [|discriminate].
  destruct (iexec th) as [th'|] eqn:X; [|discriminate].
  inversion E; subst; simpl.
  destruct (Forall2_nth _ _ _ _ _ _ _ F N) as [p [Np Ip]].
  eapply update_Forall2; eauto using iexec_inv.
Qed.

Lemma iinit_inv : forall progs, Forall2 iinv progs (is_threads (iinit progs)).
Proof.
  induction progs; simpl; constructor; [|assumption].
  split; simpl; [reflexivity | discriminate].
Qed.

Lemma irun_inv : forall progs sched st,
  Forall2 iinv progs (is_threads st) -> Forall2 iinv progs (is_threads (irun st sched)).
Proof.
  intros progs sched. induction sched as [|t r IH]; intros st F; simpl; [assumption|].
  destruct (istep st t) eqn:E; [apply IH; eapply istep_inv; eauto | apply IH; assumption].
Qed.

(* ANY number of threads, ANY schedule: a thread that has finished emitted exactly its
   solo trace (and, the machine having a single answer, returned its solo answer) *)
Theorem indep_sequential : forall progs sched t th p,
  nth_error (is_threads (irun (iinit progs) sched)) t = Some th ->
  nth_error progs t = Some p ->
  i_done th = true -> rev (i_trace th) = p.
Proof.
  intros progs sched t th p N P D.
  pose proof (irun_inv progs sched _ (iinit_inv progs)) as F.
  destruct (Forall2_nth _ _ _ _ _ _ _ F N) as [p' [Np [H1 H2]]].
  rewrite P in Np. injection Np as Ep. rewrite <- Ep in H1.
  rewrite (H2 D), app_nil_r in H1. exact H1.
Qed.
