(* ModifiersFull.v — C12: the full statements.
   C12_sig : _prepare succeeds iff the selection is admissible, and then
             advertises exactly the rewrite adv_spec.
   C12_call: for every call (named positional-only arguments alongside **kwargs
             excluded) the translator's __call__ followed by CPython's binding
             of the ORIGINAL parameters gives the bindings CPython computes for
             the ADVERTISED signature, and fails exactly when that fails. *)
From Coq Require Import List NArith Bool Arith Lia Permutation Sorted.
From Sigtools.Model Require Import Base Bind Algebra Modifiers.
From Sigtools.Proofs Require Import Modifiers.
Import ListNotations.

(* ------------------------------------------------------------------ admissible selections *)
Section Adm.
Variables posos kwos : list name.

Definition named (p : param) : bool := mem (pname p) posos || mem (pname p) kwos.

(* a named parameter is regular, or already of the requested kind *)
Definition kind_sel_ok (p : param) : bool :=
  is_kind PK p || negb (named p)
  || (is_kind PO p && mem (pname p) posos) || (is_kind KO p && mem (pname p) kwos).

(* no regular parameter requested positional-only comes after a regular
   parameter that stays regular *)
Fixpoint po_prefix_ok (ps : list param) (found : bool) : bool :=
  match ps with
  | [] => true
  | p :: ps' =>
      if is_kind PK p then
        if mem (pname p) posos then negb found && po_prefix_ok ps' found
        else if mem (pname p) kwos then po_prefix_ok ps' found
        else po_prefix_ok ps' true
      else po_prefix_ok ps' found
  end.

Definition admissible (ps : list param) : bool :=
  is_nil (set_inter posos kwos)                                  (* not both kinds at once *)
  && forallb (fun x => mem x (names_of ps)) (posos ++ kwos)      (* every name is a parameter *)
  && forallb kind_sel_ok ps
  && po_prefix_ok ps false.

Definition isOk {A} (r : res A) : bool := match r with Ok _ => true | Err _ => false end.

Lemma is_kind_eq k p : is_kind k p = true <-> pkind p = k.
Proof. unfold is_kind, kind_eqb. destruct (pkind p), k; simpl; split; congruence. Qed.

Lemma prep_step_err i p st e : prep_step posos kwos i p st = Err e -> e = ValueErr.
Proof.
  unfold prep_step.
  destruct (pkind p); simpl;
    repeat match goal with
           | |- context [if ?c then _ else _] => destruct c; simpl
           end; intros H; inversion H; reflexivity.
Qed.

Lemma prep_loop_err ps : forall i st e, prep_loop posos kwos ps i st = Err e -> e = ValueErr.
Proof.
  induction ps as [|p ps IH]; intros i st e H; simpl in H; [discriminate|].
  destruct (prep_step posos kwos i p st) as [st1|e1] eqn:E1; simpl in H.
  - exact (IH _ _ _ H).
  - inversion H; subst. exact (prep_step_err _ _ _ _ E1).
Qed.

Definition tu_inv (ps : list param) (tu : list name) : Prop :=
  forall p, In p ps -> mem (pname p) tu = named p.

Lemma tu_inv_tail p ps tu : tu_inv (p :: ps) tu -> tu_inv ps tu.
Proof. intros H q Hq. apply H. right; exact Hq. Qed.

Lemma tu_inv_remove p ps tu :
  ~ In (pname p) (names_of ps) -> tu_inv ps tu -> tu_inv ps (set_remove (pname p) tu).
Proof.
  intros Hn H q Hq. rewrite mem_set_remove, (H q Hq).
  destruct (N.eqb (pname p) (pname q)) eqn:E; simpl; auto.
  apply N.eqb_eq in E. exfalso. apply Hn. rewrite E. apply in_map. exact Hq.
Qed.

(* the loop of _prepare raises exactly when a named parameter has the wrong
   kind or a positional-only request follows a parameter that stays regular *)
Lemma prep_loop_ok ps : forall i st,
  NoDup (names_of ps) -> tu_inv ps (st_to_use st) ->
  isOk (prep_loop posos kwos ps i st) = forallb kind_sel_ok ps && po_prefix_ok ps (st_found_pok st).
Proof.
  induction ps as [|p ps IH]; intros i st Hnd Hinv; [reflexivity|].
  inversion Hnd as [|x l Hnotin Hnd']; subst x l.
  pose proof (Hinv p (or_introl eq_refl)) as Hp.
  pose proof (tu_inv_tail _ _ _ Hinv) as Hinv'.
  pose proof (tu_inv_remove p ps _ Hnotin Hinv') as Hrm.
  cbn [prep_loop forallb po_prefix_ok].
  unfold prep_step.
  assert (Hks : kind_sel_ok p = (kind_eqb (pkind p) PK || negb (named p)
                                 || (kind_eqb (pkind p) PO && mem (pname p) posos)
                                 || (kind_eqb (pkind p) KO && mem (pname p) kwos))) by reflexivity.
  rewrite Hks. change (is_kind PK p) with (kind_eqb (pkind p) PK).
  unfold named in *.
  destruct (pkind p) eqn:Ek; cbn [kind_eqb kind_rank Nat.eqb orb andb negb].
  - (* PO *)
    rewrite Hp.
    destruct (mem (pname p) posos) eqn:E1; cbn [orb andb negb bind].
    + rewrite IH; auto.
    + destruct (mem (pname p) kwos) eqn:E2; cbn [orb andb negb bind].
      * reflexivity.
      * rewrite IH; auto.
  - (* PK *)
    destruct (mem (pname p) posos) eqn:E1.
    + destruct (st_found_pok st) eqn:Ef; cbn [bind isOk negb andb].
      * rewrite andb_false_r. reflexivity.
      * rewrite IH; auto.
    + destruct (mem (pname p) kwos) eqn:E2; cbn [bind].
      * rewrite IH; auto.
      * rewrite IH; auto.
  - (* VP *)
    rewrite Hp.
    destruct (mem (pname p) posos) eqn:E1; cbn [orb andb negb bind].
    + reflexivity.
    + destruct (mem (pname p) kwos) eqn:E2; cbn [orb andb negb bind].
      * reflexivity.
      * rewrite IH; auto.
  - (* KO *)
    rewrite Hp.
    destruct (mem (pname p) posos) eqn:E1; destruct (mem (pname p) kwos) eqn:E2;
      cbn [orb andb negb bind]; try reflexivity; rewrite IH; auto.
  - (* VK *)
    rewrite Hp.
    destruct (mem (pname p) posos) eqn:E1; cbn [orb andb negb bind].
    + reflexivity.
    + destruct (mem (pname p) kwos) eqn:E2; cbn [orb andb negb bind].
      * reflexivity.
      * rewrite IH; auto.
Qed.
End Adm.

(* ------------------------------------------------------------------ to_use at the end of the loop *)
Section ToUse.
Variables posos kwos : list name.

Definition tu_sub (tu : list name) : Prop :=
  forall x, mem x tu = true -> mem x posos || mem x kwos = true.

Lemma mem_unchanged x y tu : mem y tu = false -> mem x tu = negb (N.eqb x y) && mem x tu.
Proof.
  intros H. destruct (N.eqb x y) eqn:E; simpl; auto.
  apply N.eqb_eq in E. subst. exact H.
Qed.

Lemma mem_removed x y tu : mem x (set_remove y tu) = negb (N.eqb x y) && mem x tu.
Proof. rewrite mem_set_remove, N.eqb_sym. reflexivity. Qed.

Lemma prep_step_tu i p st st1 :
  tu_sub (st_to_use st) -> prep_step posos kwos i p st = Ok st1 ->
  forall x, mem x (st_to_use st1) = negb (N.eqb x (pname p)) && mem x (st_to_use st).
Proof.
  intros Hsub. unfold prep_step.
  assert (Hno : mem (pname p) posos = false -> mem (pname p) kwos = false ->
                mem (pname p) (st_to_use st) = false).
  { intros H1 H2. destruct (mem (pname p) (st_to_use st)) eqn:E; auto.
    apply Hsub in E. rewrite H1, H2 in E. discriminate. }
  destruct (pkind p); simpl.
  - destruct (mem (pname p) (st_to_use st)) eqn:Et; simpl.
    + destruct (mem (pname p) posos); simpl; [|discriminate].
      intros H x; inversion H; subst; simpl. apply mem_removed.
    + intros H x; inversion H; subst; simpl. apply mem_unchanged. exact Et.
  - destruct (mem (pname p) posos) eqn:E1.
    + destruct (st_found_pok st); [discriminate|].
      intros H x; inversion H; subst; simpl. apply mem_removed.
    + destruct (mem (pname p) kwos) eqn:E2.
      * intros H x; inversion H; subst; simpl. apply mem_removed.
      * intros H x; inversion H; subst; simpl. apply mem_unchanged. auto.
  - destruct (mem (pname p) (st_to_use st)) eqn:Et; simpl; [discriminate|].
    intros H x; inversion H; subst; simpl. apply mem_unchanged. exact Et.
  - destruct (mem (pname p) (st_to_use st)) eqn:Et; simpl.
    + destruct (mem (pname p) kwos); simpl; [|discriminate].
      intros H x; inversion H; subst; simpl. apply mem_removed.
    + intros H x; inversion H; subst; simpl. apply mem_unchanged. exact Et.
  - destruct (mem (pname p) (st_to_use st)) eqn:Et; simpl; [discriminate|].
    intros H x; inversion H; subst; simpl. apply mem_unchanged. exact Et.
Qed.

Lemma prep_loop_tu ps : forall i st st',
  tu_sub (st_to_use st) -> prep_loop posos kwos ps i st = Ok st' ->
  forall x, mem x (st_to_use st') = mem x (st_to_use st) && negb (mem x (names_of ps)).
Proof.
  induction ps as [|p ps IH]; intros i st st' Hsub H x.
  - simpl in H. inversion H; subst. simpl. rewrite andb_true_r. reflexivity.
  - simpl in H. destruct (prep_step posos kwos i p st) as [st1|e] eqn:E1; simpl in H; [|discriminate].
    pose proof (prep_step_tu _ _ _ _ Hsub E1) as H1.
    assert (Hsub1 : tu_sub (st_to_use st1)).
    { intros y Hy. rewrite H1 in Hy. apply andb_true_iff in Hy. apply Hsub. tauto. }
    rewrite (IH _ _ _ Hsub1 H x), H1. simpl.
    destruct (N.eqb x (pname p)), (mem x (st_to_use st)), (mem x (names_of ps)); reflexivity.
Qed.

Lemma is_nil_mem (l : list name) : is_nil l = true <-> forall x, mem x l = false.
Proof.
  destruct l as [|y l]; simpl; split; auto.
  - discriminate.
  - intros H. specialize (H y). rewrite N.eqb_refl in H. discriminate.
Qed.

Lemma is_nil_final tu' ns :
  (forall x, mem x tu' = mem x (posos ++ kwos) && negb (mem x ns)) ->
  is_nil tu' = forallb (fun x => mem x ns) (posos ++ kwos).
Proof.
  intros H. apply eq_true_iff_eq. rewrite is_nil_mem, forallb_forall. split.
  - intros Hn x Hx. specialize (Hn x). rewrite H in Hn.
    apply mem_In in Hx. rewrite Hx in Hn. simpl in Hn.
    destruct (mem x ns); auto.
  - intros Hf x. rewrite H. destruct (mem x (posos ++ kwos)) eqn:E; auto.
    apply mem_In in E. rewrite (Hf x E). reflexivity.
Qed.

Lemma tu_sub_init : tu_sub (posos ++ kwos).
Proof. intros x Hx. rewrite mem_app in Hx. exact Hx. Qed.

Lemma tu_inv_init ps : tu_inv posos kwos ps (posos ++ kwos).
Proof. intros p _. unfold named. apply mem_app. Qed.
End ToUse.

(* ------------------------------------------------------------------ the fields at the end of the loop *)
Lemma prep_loop_fields posos kwos ps tu st :
  validate ps = true -> (count_kind VK ps <= 1)%nat ->
  prep_loop posos kwos ps 0%nat (mkPS [] [] [] false false tu) = Ok st ->
  (if st_found_kws st then st_params st else st_params st ++ st_kwoparams st) = adv_spec posos kwos ps
  /\ st_kwopos st = kwopos_from posos kwos 0 ps.
Proof.
  intros Hval Hc H.
  destruct (validate_aux_vk_last _ _ _ _ Hval Hc) as (body & vkl & -> & Hb & Hvk).
  rewrite prep_loop_app in H.
  destruct (prep_loop posos kwos body 0 _) as [st1|e] eqn:E1; simpl in H; [|discriminate].
  destruct (prep_loop_noVK _ _ _ _ _ _ Hb E1) as (A1 & A2 & A3 & A4). simpl in A1, A2, A3, A4.
  assert (Hfb : filter (fun p => negb (sel_k posos kwos p) && negb (is_kind VK p)) body
                = filter (fun p => negb (sel_k posos kwos p)) body).
  { apply filter_ext_in'. intros x Hx. rewrite (has_kind_false _ _ Hb x Hx). apply andb_true_r. }
  assert (Hfv : filter (is_kind VK) body = []) by (apply has_kind_filter_nil; exact Hb).
  destruct Hvk as [->|(v & -> & Ev)].
  - simpl in H. inversion H; subst st1. rewrite A4.
    unfold adv_spec. rewrite !app_nil_r, Hfb, Hfv, app_nil_r, A1, A2, A3. auto.
  - simpl in H. destruct (prep_step posos kwos _ v st1) as [st2|e] eqn:E2; simpl in H; [|discriminate].
    inversion H; subst st2.
    destruct (prep_step_VK _ _ _ _ _ _ Ev E2) as (B1 & B2 & B3 & B4).
    rewrite B4. unfold adv_spec.
    rewrite !filter_app, !map_app, Hfb, Hfv, B1, B3, A1, A2, A3. simpl.
    rewrite (sel_k_VK _ _ v Ev). simpl.
    assert (Ev' : is_kind VK v = true) by (unfold is_kind, kind_eqb; rewrite Ev; reflexivity).
    rewrite Ev'. simpl. rewrite kwopos_from_app. simpl. rewrite (sel_k_VK _ _ v Ev). simpl.
    rewrite !app_nil_r. rewrite <- !app_assoc. auto.
Qed.

(* ------------------------------------------------------------------ inspect's validation, split in three *)
Definition rk (p : param) : nat := kind_rank (pkind p).

Fixpoint ranks_ok (top : nat) (ps : list param) : bool :=
  match ps with
  | [] => true
  | p :: ps' => Nat.leb top (rk p) && ranks_ok (rk p) ps'
  end.

Fixpoint defs_ok (sd : bool) (ps : list param) : bool :=
  match ps with
  | [] => true
  | p :: ps' => negb (is_positional p && negb (has_def p) && sd)
                && defs_ok (sd || (is_positional p && has_def p)) ps'
  end.

Fixpoint nodup_ok (seen : list name) (ps : list param) : bool :=
  match ps with
  | [] => true
  | p :: ps' => negb (mem (pname p) seen) && nodup_ok (pname p :: seen) ps'
  end.

Lemma validate_aux_split ps : forall top sd seen,
  validate_aux ps top sd seen = ranks_ok top ps && defs_ok sd ps && nodup_ok seen ps.
Proof.
  induction ps as [|p ps IH]; intros top sd seen; [reflexivity|].
  cbn [validate_aux ranks_ok defs_ok nodup_ok]. fold (rk p).
  destruct (Nat.ltb (rk p) top) eqn:E1.
  - apply Nat.ltb_lt in E1. assert (E : Nat.leb top (rk p) = false) by (apply Nat.leb_gt; lia).
    rewrite E. reflexivity.
  - apply Nat.ltb_ge in E1. assert (E : Nat.leb top (rk p) = true) by (apply Nat.leb_le; lia).
    rewrite E, Nat.max_l by lia.
    destruct (is_positional p && negb (has_def p) && sd); cbn [negb andb].
    + rewrite andb_false_r. reflexivity.
    + destruct (mem (pname p) seen); cbn [negb andb].
      * rewrite !andb_false_r. reflexivity.
      * rewrite IH.
        destruct (ranks_ok (rk p) ps), (defs_ok (sd || is_positional p && has_def p) ps),
          (nodup_ok (pname p :: seen) ps); reflexivity.
Qed.

Definition rle (p q : param) : Prop := (rk p <= rk q)%nat.

Lemma ranks_ok_iff ps : forall top,
  ranks_ok top ps = true <-> Forall (fun p => (top <= rk p)%nat) ps /\ StronglySorted rle ps.
Proof.
  induction ps as [|p ps IH]; intros top; cbn [ranks_ok].
  - split; auto. intros _. split; constructor.
  - rewrite andb_true_iff, Nat.leb_le, IH. split.
    + intros (H1 & H2 & H3). split.
      * constructor; auto. eapply Forall_impl; [|exact H2]. intros q Hq. simpl in Hq. lia.
      * constructor; auto.
    + intros (H1 & H2). inversion H1; subst. inversion H2; subst. auto.
Qed.

Lemma SS_app (a b : list param) :
  StronglySorted rle a -> StronglySorted rle b ->
  (forall x y, In x a -> In y b -> rle x y) -> StronglySorted rle (a ++ b).
Proof.
  induction a as [|x a IH]; intros Ha Hb Hab; simpl; auto.
  inversion Ha; subst. constructor.
  - apply IH; auto. intros; apply Hab; auto. right; auto.
  - apply Forall_app. split; auto.
    apply Forall_forall. intros y Hy. apply Hab; auto. left; auto.
Qed.

Lemma SS_const (n : nat) (l : list param) : (forall x, In x l -> rk x = n) -> StronglySorted rle l.
Proof.
  induction l as [|x l IH]; intros H; constructor.
  - apply IH. intros; apply H; right; auto.
  - apply Forall_forall. intros y Hy. unfold rle. rewrite (H x), (H y); auto; [right|left]; auto.
Qed.

Lemma SS_filter f (l : list param) : StronglySorted rle l -> StronglySorted rle (filter f l).
Proof.
  induction l as [|x l IH]; intros H; simpl; [constructor|].
  inversion H; subst. destruct (f x); auto.
  constructor; auto. apply Forall_forall. intros y Hy. apply filter_In in Hy.
  rewrite Forall_forall in H3. apply H3. tauto.
Qed.

Lemma nodup_ok_iff ps : forall seen,
  nodup_ok seen ps = true <-> NoDup (names_of ps) /\ forall x, In x (names_of ps) -> ~ In x seen.
Proof.
  induction ps as [|p ps IH]; intros seen; cbn [nodup_ok names_of map].
  - split; auto. intros _. split; [constructor | intros x []].
  - rewrite andb_true_iff, negb_true_iff, mem_false_In, IH. fold (names_of ps). split.
    + intros (H1 & H2 & H3). split.
      * constructor; auto. intro Hin. apply (H3 _ Hin). left; reflexivity.
      * intros x [<-|Hx]; auto. intro Hs. apply (H3 _ Hx). right; exact Hs.
    + intros (H1 & H2). inversion H1; subst. repeat split; auto.
      * apply H2. left; reflexivity.
      * intros x Hx [<-|Hs]; [contradiction|]. apply (H2 x); auto. right; exact Hx.
Qed.

Lemma defs_ok_mono l : forall a b, defs_ok (a || b) l = true -> defs_ok a l = true.
Proof.
  induction l as [|p l IH]; intros a b H; auto.
  cbn [defs_ok] in *. apply andb_true_iff in H. destruct H as [H1 H2].
  apply andb_true_iff. split.
  - destruct (is_positional p && negb (has_def p)), a, b; simpl in *; auto.
  - apply (IH _ b). rewrite <- H2. f_equal.
    destruct a, b, (is_positional p && has_def p); reflexivity.
Qed.

Lemma defs_ok_drop sd p l : defs_ok sd (p :: l) = true -> defs_ok sd l = true.
Proof.
  cbn [defs_ok]. intros H. apply andb_true_iff in H. destruct H as [_ H].
  exact (defs_ok_mono _ _ _ H).
Qed.

Lemma defs_ok_nonpos l : forall sd a,
  (forall p, In p l -> is_positional p = false) -> defs_ok sd (a ++ l) = defs_ok sd a.
Proof.
  intros sd a Hl. revert sd. induction a as [|q a IH]; intros sd; simpl.
  - induction l as [|p l IHl]; auto. cbn [defs_ok].
    rewrite (Hl p (or_introl eq_refl)). simpl. rewrite orb_false_r. apply IHl.
    intros; apply Hl; right; auto.
  - rewrite IH. reflexivity.
Qed.

(* ------------------------------------------------------------------ the rewrite of a valid signature is valid *)
Section Valid.
Variables posos kwos : list name.
Notation selk := (sel_k posos kwos).
Notation selp := (sel_p posos).
Notation cnv := (conv posos).

Definition Xp (ps : list param) : list param :=
  map cnv (filter (fun p => negb (selk p) && negb (is_kind VK p)) ps).
Definition Kk (ps : list param) : list param := map (set_kind KO) (filter selk ps).
Definition Vk (ps : list param) : list param := filter (is_kind VK) ps.

Lemma adv_spec_parts ps : adv_spec posos kwos ps = Xp ps ++ Kk ps ++ Vk ps.
Proof. reflexivity. Qed.

Lemma nonPK_sel p : is_kind PK p = false -> selk p = false /\ selp p = false.
Proof. unfold sel_k, sel_p. intros ->. auto. Qed.

Lemma selk_notVK p : selk p = true -> is_kind VK p = false.
Proof.
  intros H. apply selk_PK in H. unfold is_kind, kind_eqb. rewrite H. reflexivity.
Qed.

Lemma pname_cnv p : pname (cnv p) = pname p.
Proof. unfold conv. destruct (selp p); reflexivity. Qed.
Lemma pdef_cnv p : pdef (cnv p) = pdef p.
Proof. unfold conv. destruct (selp p); reflexivity. Qed.
Lemma has_def_cnv p : has_def (cnv p) = has_def p.
Proof. unfold has_def. rewrite pdef_cnv. reflexivity. Qed.
Lemma is_positional_cnv p : is_positional (cnv p) = is_positional p.
Proof.
  unfold conv. destruct (selp p) eqn:E; auto.
  unfold sel_p in E. apply andb_true_iff in E. destruct E as [E _]. apply is_kind_PK in E.
  unfold is_positional. rewrite E. reflexivity.
Qed.

Lemma names_cnv l : names_of (map cnv l) = names_of l.
Proof. unfold names_of. rewrite map_map. apply map_ext. intros; apply pname_cnv. Qed.
Lemma names_setkind k l : names_of (map (set_kind k) l) = names_of l.
Proof. unfold names_of. rewrite map_map. reflexivity. Qed.

Lemma names_perm ps :
  Permutation (names_of ps) (names_of (Xp ps) ++ names_of (Kk ps) ++ names_of (Vk ps)).
Proof.
  unfold Xp, Kk, Vk. rewrite names_cnv, names_setkind.
  induction ps as [|p ps IH]; [constructor|].
  cbn [filter]. destruct (is_kind VK p) eqn:Ev.
  - assert (Es : selk p = false).
    { destruct (selk p) eqn:E; auto. apply selk_notVK in E. congruence. }
    rewrite Es. cbn [negb andb names_of map]. fold (names_of ps).
    rewrite app_assoc. apply Permutation_cons_app. rewrite <- app_assoc. exact IH.
  - destruct (selk p) eqn:Es; cbn [negb andb names_of map].
    + apply Permutation_cons_app. exact IH.
    + apply perm_skip. exact IH.
Qed.

Lemma rk_PK p : is_kind PK p = true -> rk p = 1%nat.
Proof. intros H. apply is_kind_PK in H. unfold rk. rewrite H. reflexivity. Qed.

Lemma rk_cnv p : rk (cnv p) = if selp p then 0%nat else rk p.
Proof. unfold conv. destruct (selp p); reflexivity. Qed.

Lemma in_Xp q ps : In q (Xp ps) ->
  exists p, In p ps /\ q = cnv p /\ selk p = false /\ is_kind VK p = false.
Proof.
  unfold Xp. intros H. apply in_map_iff in H. destruct H as (p & <- & Hp).
  apply filter_In in Hp. destruct Hp as [Hp Hc]. apply andb_true_iff in Hc.
  destruct Hc as [H1 H2]. apply negb_true_iff in H1, H2. eauto.
Qed.

Lemma Xp_sorted ps : forall found,
  StronglySorted rle ps -> po_prefix_ok posos kwos ps found = true ->
  (found = true -> Forall (fun p => (1 <= rk p)%nat) ps) ->
  StronglySorted rle (Xp ps) /\ (found = true -> Forall (fun q => (1 <= rk q)%nat) (Xp ps)).
Proof.
  induction ps as [|p ps IH]; intros found Hss Hpo Hf.
  - split; [constructor | intros; constructor].
  - inversion Hss as [|x l Hss' Hle]; subst x l.
    cbn [po_prefix_ok] in Hpo. unfold Xp. cbn [filter]. fold (Xp ps).
    assert (Hf' : found = true -> Forall (fun q => (1 <= rk q)%nat) ps).
    { intros E. specialize (Hf E). inversion Hf; auto. }
    destruct (is_kind PK p) eqn:Epk.
    + assert (Ev : is_kind VK p = false).
      { apply is_kind_PK in Epk. unfold is_kind, kind_eqb. rewrite Epk. reflexivity. }
      destruct (mem (pname p) posos) eqn:E1.
      * (* becomes positional-only *)
        apply andb_true_iff in Hpo. destruct Hpo as [Hnf Hpo]. apply negb_true_iff in Hnf.
        assert (Es : selk p = false) by (unfold sel_k; rewrite Epk, E1; reflexivity).
        assert (Ep : selp p = true) by (unfold sel_p; rewrite Epk, E1; reflexivity).
        rewrite Es, Ev. cbn [negb andb map].
        destruct (IH found Hss' Hpo Hf') as [I1 I2]. split.
        -- constructor; auto. apply Forall_forall. intros q _. unfold rle.
           rewrite rk_cnv, Ep. lia.
        -- intros E. congruence.
      * destruct (mem (pname p) kwos) eqn:E2.
        -- (* moved *)
           assert (Es : selk p = true) by (unfold sel_k; rewrite Epk, E1, E2; reflexivity).
           rewrite Es. cbn [negb andb]. apply IH; auto.
        -- (* stays regular *)
           assert (Es : selk p = false) by (unfold sel_k; rewrite Epk, E1, E2; reflexivity).
           assert (Ep : selp p = false) by (unfold sel_p; rewrite Epk, E1; reflexivity).
           rewrite Es, Ev. cbn [negb andb map].
           assert (Hall : Forall (fun q => (1 <= rk q)%nat) ps).
           { eapply Forall_impl; [|exact Hle]. intros q Hq. unfold rle in Hq.
             rewrite (rk_PK _ Epk) in Hq. exact Hq. }
           destruct (IH true Hss' Hpo (fun _ => Hall)) as [I1 I2].
           assert (Hc : cnv p = p) by (unfold conv; rewrite Ep; reflexivity).
           rewrite Hc. specialize (I2 eq_refl). split.
           ++ constructor; auto. eapply Forall_impl; [|exact I2].
              intros q Hq. unfold rle. rewrite (rk_PK _ Epk). exact Hq.
           ++ intros _. constructor; auto. rewrite (rk_PK _ Epk). lia.
    + destruct (nonPK_sel _ Epk) as [Es Ep]. rewrite Es.
      destruct (is_kind VK p) eqn:Ev; cbn [negb andb map].
      * apply IH; auto.
      * destruct (IH found Hss' Hpo Hf') as [I1 I2].
        assert (Hc : cnv p = p) by (unfold conv; rewrite Ep; reflexivity).
        rewrite Hc. split.
        -- constructor; auto. apply Forall_forall. intros q' Hq'.
           apply in_Xp in Hq'. destruct Hq' as (q & Hq & -> & _ & _).
           rewrite Forall_forall in Hle. specialize (Hle q Hq). unfold rle in *.
           rewrite rk_cnv. destruct (selp q) eqn:Eq; auto.
           unfold sel_p in Eq. apply andb_true_iff in Eq. destruct Eq as [Eq _].
           rewrite (rk_PK _ Eq) in Hle.
           assert (rk p <> 1%nat).
           { unfold rk. unfold is_kind, kind_eqb in Epk. simpl in Epk.
             apply Nat.eqb_neq in Epk. exact Epk. }
           lia.
        -- intros E. constructor; auto. specialize (Hf E). inversion Hf; auto.
Qed.

Lemma defs_Xp ps : forall sd, defs_ok sd ps = true -> defs_ok sd (Xp ps) = true.
Proof.
  induction ps as [|p ps IH]; intros sd H; auto.
  unfold Xp. cbn [filter]. fold (Xp ps).
  destruct (negb (selk p) && negb (is_kind VK p)).
  - cbn [map defs_ok] in *. rewrite is_positional_cnv, has_def_cnv.
    apply andb_true_iff in H. destruct H as [H1 H2]. rewrite H1. simpl. apply IH. exact H2.
  - apply IH. exact (defs_ok_drop _ _ _ H).
Qed.

Lemma adv_valid ps :
  validate ps = true -> po_prefix_ok posos kwos ps false = true ->
  validate (adv_spec posos kwos ps) = true.
Proof.
  unfold validate. rewrite !validate_aux_split, !andb_true_iff.
  intros [[Hr Hd] Hn] Hpo. rewrite adv_spec_parts.
  apply ranks_ok_iff in Hr. destruct Hr as [_ Hss].
  assert (HK : forall x, In x (Kk ps) -> rk x = 3%nat).
  { unfold Kk. intros x Hx. apply in_map_iff in Hx. destruct Hx as (p & <- & _). reflexivity. }
  assert (HV : forall x, In x (Vk ps) -> rk x = 4%nat).
  { unfold Vk. intros x Hx. apply filter_In in Hx. destruct Hx as [_ Hx].
    apply is_kind_eq in Hx. unfold rk. rewrite Hx. reflexivity. }
  assert (HX : forall x, In x (Xp ps) -> (rk x <= 3)%nat).
  { intros x Hx. apply in_Xp in Hx. destruct Hx as (p & _ & -> & _ & Hv).
    rewrite rk_cnv. destruct (selp p); [lia|].
    unfold rk. unfold is_kind, kind_eqb in Hv. destruct (pkind p); simpl in *; try lia; try discriminate. }
  repeat split.
  - apply ranks_ok_iff. split.
    + apply Forall_forall. intros; lia.
    + destruct (Xp_sorted ps false Hss Hpo) as [Hsx _]; [discriminate|].
      apply SS_app; auto.
      * apply SS_app; [exact (SS_const 3 _ HK) | exact (SS_const 4 _ HV) |].
        intros x y Hx Hy. unfold rle. rewrite (HK x Hx), (HV y Hy). lia.
      * intros x y Hx Hy. unfold rle. specialize (HX x Hx).
        apply in_app_or in Hy. destruct Hy as [Hy|Hy]; [rewrite (HK y Hy) | rewrite (HV y Hy)]; lia.
  - rewrite defs_ok_nonpos.
    + apply defs_Xp. exact Hd.
    + intros p Hp. apply in_app_or in Hp. destruct Hp as [Hp|Hp].
      * unfold Kk in Hp. apply in_map_iff in Hp. destruct Hp as (q & <- & _). reflexivity.
      * unfold Vk in Hp. apply filter_In in Hp. destruct Hp as [_ Hp]. apply is_kind_eq in Hp.
        unfold is_positional. rewrite Hp. reflexivity.
  - apply nodup_ok_iff. apply nodup_ok_iff in Hn. destruct Hn as [Hn _]. split; [|intros x _ []].
    unfold names_of. rewrite !map_app. fold (names_of (Xp ps)) (names_of (Kk ps)) (names_of (Vk ps)).
    eapply Permutation_NoDup; [apply names_perm | exact Hn].
Qed.
End Valid.

(* ------------------------------------------------------------------ C12_sig *)
Theorem C12_sig ps posos kwos :
  valid_sig ps = true ->
  prepare ps posos kwos =
  if admissible posos kwos ps
  then Ok (adv_spec posos kwos ps, kwopos_from posos kwos 0 ps)
  else Err ValueErr.
Proof.
  intros Hv. apply valid_sig_parts in Hv. destruct Hv as [Hval Hc].
  destruct (validate_aux_nodup _ _ _ _ Hval) as [Hnd _].
  unfold prepare, admissible.
  destruct (is_nil (set_inter posos kwos)); cbn [negb andb]; [|reflexivity].
  pose proof (prep_loop_ok posos kwos ps 0%nat (mkPS [] [] [] false false (posos ++ kwos)) Hnd
                (tu_inv_init posos kwos ps)) as Hok.
  cbn [st_found_pok] in Hok.
  destruct (prep_loop posos kwos ps 0 _) as [st|e] eqn:El; cbn [isOk bind] in *.
  - symmetry in Hok. apply andb_true_iff in Hok. destruct Hok as [Hk Hpo].
    rewrite Hk, Hpo, !andb_true_r.
    pose proof (prep_loop_tu posos kwos ps 0%nat (mkPS [] [] [] false false (posos ++ kwos)) st
                  (tu_sub_init posos kwos) El) as Htu.
    cbn [st_to_use] in Htu.
    replace (is_nil (st_to_use st)) with (forallb (fun x => mem x (names_of ps)) (posos ++ kwos))
      by (symmetry; exact (is_nil_final posos kwos _ _ Htu)).
    destruct (prep_loop_fields _ _ _ _ _ Hval Hc El) as [Hp Hkp].
    destruct (forallb (fun x => mem x (names_of ps)) (posos ++ kwos)); cbn [negb]; [|reflexivity].
    rewrite Hp, Hkp, (adv_valid posos kwos ps Hval Hpo). reflexivity.
  - rewrite (prep_loop_err _ _ _ _ _ _ El).
    destruct (forallb (fun x => mem x (names_of ps)) (posos ++ kwos)),
      (forallb (kind_sel_ok posos kwos) ps), (po_prefix_ok posos kwos ps false);
      simpl in *; try reflexivity; discriminate.
Qed.

(* ------------------------------------------------------------------ shape of a valid signature *)
Lemma validate_aux_app_tail a : forall b top sd seen,
  validate_aux (a ++ b) top sd seen = true ->
  exists top' sd' seen', validate_aux b top' sd' seen' = true.
Proof.
  induction a as [|p a IH]; intros b top sd seen H; simpl in H; [eauto|].
  change (validate_aux ((p :: a) ++ b) top sd seen = true) in H. simpl app in H.
  apply validate_aux_tail in H. destruct H as (_ & _ & sd' & H). eauto.
Qed.

Lemma count_kind_app k a b : count_kind k (a ++ b) = (count_kind k a + count_kind k b)%nat.
Proof. unfold count_kind. rewrite filter_app, app_length. reflexivity. Qed.

Lemma valid_structure ps : valid_sig ps = true ->
  exists pos mid vkl,
    ps = pos ++ mid ++ vkl /\ forallb is_positional pos = true /\
    (forall p, In p mid -> is_positional p = false /\ is_kind VK p = false) /\
    (vkl = [] \/ exists v, vkl = [v] /\ pkind v = VK) /\ NoDup (names_of ps).
Proof.
  intros Hv. apply valid_sig_parts in Hv. destruct Hv as [Hval Hc].
  destruct (validate_aux_nodup _ _ _ _ Hval) as [Hnd _].
  destruct (validate_aux_pos_prefix _ _ _ _ Hval) as (pos & rest & -> & Hpos & Hrest).
  destruct (validate_aux_app_tail _ _ _ _ _ Hval) as (top' & sd' & seen' & Hr).
  rewrite count_kind_app in Hc.
  assert (Hc' : (count_kind VK rest <= 1)%nat) by lia.
  destruct (validate_aux_vk_last _ _ _ _ Hr Hc') as (body & vkl & -> & Hb & Hvk).
  exists pos, body, vkl. repeat split; auto.
  - apply Hrest. apply in_or_app. left; exact H.
  - exact (has_kind_false _ _ Hb p H).
Qed.

(* ------------------------------------------------------------------ facts about the binder *)
Lemma bind_app all a : forall b args kws,
  bind_params all (a ++ b) args kws =
  match bind_params all a args kws with
  | Some (e1, r) => match bind_params all b r kws with
                    | Some (e2, r2) => Some (e1 ++ e2, r2)
                    | None => None
                    end
  | None => None
  end.
Proof.
  induction a as [|p a IH]; intros b args kws.
  - simpl. destruct (bind_params all b args kws) as [[e2 r2]|]; reflexivity.
  - assert (Hoc : forall x args', opt_cons x (bind_params all (a ++ b) args' kws) =
             match opt_cons x (bind_params all a args' kws) with
             | Some (e1, r) => match bind_params all b r kws with
                               | Some (e2, r2) => Some (e1 ++ e2, r2)
                               | None => None
                               end
             | None => None
             end).
    { intros x args'. rewrite IH. destruct (bind_params all a args' kws) as [[e1 r]|]; simpl; auto.
      destruct (bind_params all b r kws) as [[e2 r2]|]; reflexivity. }
    simpl. destruct (pkind p).
    + destruct args as [|x args]; [destruct (pdef p)|]; auto.
    + destruct args as [|x args].
      * destruct (klookup (pname p) kws); [|destruct (pdef p)]; auto.
      * destruct (kmem (pname p) kws); auto.
    + auto.
    + destruct (klookup (pname p) kws); [|destruct (pdef p)]; auto.
    + auto.
Qed.

Lemma bind_ext a1 a2 l : forall r k1 k2,
  (forall p, In p l -> klookup (pname p) k1 = klookup (pname p) k2) ->
  kw_extra a1 k1 = kw_extra a2 k2 ->
  bind_params a1 l r k1 = bind_params a2 l r k2.
Proof.
  induction l as [|p l IH]; intros r k1 k2 Hl He; [reflexivity|].
  assert (Hp := Hl p (or_introl eq_refl)).
  assert (Hl' : forall q, In q l -> klookup (pname q) k1 = klookup (pname q) k2)
    by (intros q Hq; apply Hl; right; exact Hq).
  simpl. unfold kmem. rewrite Hp, He.
  destruct (pkind p).
  - destruct r; [destruct (pdef p)|]; auto; rewrite (IH _ k1 k2); auto.
  - destruct r.
    + destruct (klookup (pname p) k2); [|destruct (pdef p)]; auto; rewrite (IH _ k1 k2); auto.
    + destruct (isSome (klookup (pname p) k2)); auto. rewrite (IH _ k1 k2); auto.
  - rewrite (IH _ k1 k2); auto.
  - destruct (klookup (pname p) k2); [|destruct (pdef p)]; auto; rewrite (IH _ k1 k2); auto.
  - rewrite (IH _ k1 k2); auto.
Qed.

(* keyword-only parameters and **kwargs leave the positional arguments alone *)
Lemma bind_transparent all l : forall r kws,
  (forall p, In p l -> pkind p = KO \/ pkind p = VK) ->
  bind_params all l r kws =
  match bind_params all l [] kws with Some (e, _) => Some (e, r) | None => None end.
Proof.
  induction l as [|p l IH]; intros r kws Hl; [reflexivity|].
  assert (Hl' : forall q, In q l -> pkind q = KO \/ pkind q = VK)
    by (intros q Hq; apply Hl; right; exact Hq).
  assert (Hoc : forall x, opt_cons x (bind_params all l r kws) =
                match opt_cons x (bind_params all l [] kws) with
                | Some (e, _) => Some (e, r) | None => None end).
  { intros x. rewrite (IH r kws Hl'). destruct (bind_params all l [] kws) as [[e r0]|]; reflexivity. }
  simpl. destruct (Hl p (or_introl eq_refl)) as [E|E]; rewrite E.
  - destruct (klookup (pname p) kws); [|destruct (pdef p)]; auto.
  - auto.
Qed.

Lemma kw_extra_kremove all x kws :
  kwpassable_name all x = true -> kw_extra all (kremove x kws) = kw_extra all kws.
Proof.
  intros Hx. unfold kw_extra. induction kws as [|[k v] kws IH]; simpl; auto.
  destruct (N.eqb x k) eqn:E.
  - apply N.eqb_eq in E. subst k. rewrite Hx. simpl. exact IH.
  - simpl. rewrite IH. reflexivity.
Qed.

Lemma klookup_none_kremove x y kws : klookup x kws = None -> klookup x (kremove y kws) = None.
Proof.
  induction kws as [|[k v] kws IH]; simpl; auto.
  destruct (N.eqb x k) eqn:E1; [discriminate|]. intros H.
  destruct (N.eqb y k); simpl; auto. rewrite E1. auto.
Qed.

(* ------------------------------------------------------------------ pieces of the call theorem *)
Section CallFull.
Variables posos kwos : list name.
Notation selk := (sel_k posos kwos).
Notation selp := (sel_p posos).
Notation cnv := (conv posos).

(* a moved parameter without default that the call does not name *)
Definition missingb (pos : list param) (kws : kwargs) : bool :=
  existsb (fun p => selk p && negb (has_def p) && negb (kmem (pname p) kws)) pos.

Lemma missingb_false pos kws : missingb pos kws = false -> no_missing posos kwos pos kws.
Proof.
  unfold missingb. intros H p Hp Hs Hd Hk.
  assert (Hex : existsb (fun p => selk p && negb (has_def p) && negb (kmem (pname p) kws)) pos = true).
  { apply existsb_exists. exists p. split; auto.
    unfold has_def, kmem. rewrite Hs, Hd, Hk. reflexivity. }
  congruence.
Qed.

Lemma missingb_kremove x pos kws :
  ~ In x (names_of pos) -> missingb pos (kremove x kws) = missingb pos kws.
Proof.
  unfold missingb. induction pos as [|p pos IH]; intros Hx; simpl; auto.
  rewrite IH by (intro H; apply Hx; right; exact H).
  unfold kmem. rewrite klookup_kremove_other; auto.
  intro E. apply Hx. left. exact E.
Qed.

Lemma call_loop_m_mono kp : forall args kws m,
  m <> [] -> snd (call_loop kp args kws m) <> [].
Proof.
  induction kp as [|[i p] kp IH]; intros args kws m Hm; simpl; auto.
  destruct (klookup (pname p) kws).
  - destruct (Nat.ltb i (length args)); apply IH; auto.
  - destruct (pdef p).
    + destruct (Nat.ltb i (length args)); apply IH; auto.
    + apply IH. destruct m; simpl; discriminate.
Qed.

Lemma call_loop_missing pos : forall i args kws m,
  NoDup (names_of pos) -> missingb pos kws = true ->
  snd (call_loop (kwopos_from posos kwos i pos) args kws m) <> [].
Proof.
  induction pos as [|p pos IH]; intros i args kws m Hnd Hm; [discriminate|].
  inversion Hnd as [|x l Hnotin Hnd']; subst x l.
  unfold missingb in Hm. cbn [existsb] in Hm. fold (missingb pos kws) in Hm.
  cbn [kwopos_from]. destruct (selk p) eqn:Es; cbn [app].
  - cbn [call_loop]. unfold kmem, has_def in Hm.
    destruct (klookup (pname p) kws) eqn:Ek.
    + simpl in Hm. rewrite andb_false_r in Hm. simpl in Hm.
      destruct (Nat.ltb i (length args)).
      * apply IH; auto. rewrite missingb_kremove; auto.
      * apply IH; auto.
    + destruct (pdef p) eqn:Ed.
      * simpl in Hm. destruct (Nat.ltb i (length args)); apply IH; auto.
      * apply call_loop_m_mono. destruct m; simpl; discriminate.
  - simpl in Hm. apply IH; auto.
Qed.

Lemma Kp_none pos : forall l kws a,
  missingb pos kws = true -> bind_params a (Kp posos kwos pos) l kws = None.
Proof.
  induction pos as [|p pos IH]; intros l kws a Hm; [discriminate|].
  unfold missingb in Hm. cbn [existsb] in Hm. fold (missingb pos kws) in Hm.
  unfold Kp. cbn [filter]. destruct (selk p) eqn:Es; cbn [map]; fold (Kp posos kwos pos).
  - cbn [bind_params set_kind pkind pname pdef]. unfold kmem, has_def in Hm.
    destruct (klookup (pname p) kws) eqn:Ek.
    + simpl in Hm. rewrite andb_false_r in Hm. simpl in Hm. rewrite IH; auto.
    + destruct (pdef p) eqn:Ed; auto. simpl in Hm. rewrite IH; auto.
  - simpl in Hm. apply IH; auto.
Qed.

Lemma kw_extra_shufT all pos : forall args kws,
  (forall p, In p pos -> selk p = true -> kwpassable_name all (pname p) = true) ->
  kw_extra all (snd (shufT posos kwos pos args kws)) = kw_extra all kws.
Proof.
  induction pos as [|p pos IH]; intros args kws H; [reflexivity|].
  assert (H' : forall q, In q pos -> selk q = true -> kwpassable_name all (pname q) = true)
    by (intros q Hq; apply H; right; exact Hq).
  cbn [shufT]. destruct (selk p) eqn:Es.
  - destruct args as [|a args]; [apply IH; auto|].
    destruct (klookup (pname p) kws).
    + cbn [snd]. rewrite IH by auto. apply kw_extra_kremove. apply H; auto. left; reflexivity.
    + destruct (pdef p); cbn [snd]; apply IH; auto.
  - destruct args as [|a args]; cbn [snd]; apply IH; auto.
Qed.

(* existsb over the rewritten parameter list *)
Lemma existsb_adv (f : param -> bool) ps :
  (forall p, selk p = false -> f (cnv p) = f p) ->
  (forall p, selk p = true -> f (set_kind KO p) = f p) ->
  existsb f (adv_spec posos kwos ps) = existsb f ps.
Proof.
  intros H1 H2. rewrite adv_spec_parts, !existsb_app. unfold Xp, Kk, Vk.
  induction ps as [|p ps IH]; [reflexivity|].
  cbn [filter existsb]. rewrite <- IH.
  destruct (is_kind VK p) eqn:Ev.
  - assert (Es : selk p = false).
    { destruct (selk p) eqn:E; auto. apply selk_notVK in E. congruence. }
    rewrite Es. cbn [negb andb existsb map].
    destruct (f p), (existsb f (map cnv (filter (fun p0 => negb (selk p0) && negb (is_kind VK p0)) ps))),
      (existsb f (map (set_kind KO) (filter selk ps))), (existsb f (filter (is_kind VK) ps)); reflexivity.
  - destruct (selk p) eqn:Es; cbn [negb andb existsb map].
    + rewrite (H2 p Es).
      destruct (f p), (existsb f (map cnv (filter (fun p0 => negb (selk p0) && negb (is_kind VK p0)) ps))),
        (existsb f (map (set_kind KO) (filter selk ps))), (existsb f (filter (is_kind VK) ps)); reflexivity.
    + rewrite (H1 p Es).
      destruct (f p), (existsb f (map cnv (filter (fun p0 => negb (selk p0) && negb (is_kind VK p0)) ps))),
        (existsb f (map (set_kind KO) (filter selk ps))), (existsb f (filter (is_kind VK) ps)); reflexivity.
Qed.

Lemma has_kind_VK_adv ps : has_kind VK (adv_spec posos kwos ps) = has_kind VK ps.
Proof.
  unfold has_kind. apply existsb_adv.
  - intros p _. unfold conv. destruct (selp p) eqn:E; auto.
    unfold sel_p in E. apply andb_true_iff in E. destruct E as [E _]. apply is_kind_PK in E.
    unfold is_kind, kind_eqb. rewrite E. reflexivity.
  - intros p Es. apply selk_PK in Es. unfold is_kind, kind_eqb. rewrite Es. reflexivity.
Qed.

(* a name outside posoargs is keyword-passable after the rewrite iff it was before *)
Lemma passable_adv ps k : mem k posos = false ->
  kwpassable_name (adv_spec posos kwos ps) k = kwpassable_name ps k.
Proof.
  intros Hk. unfold kwpassable_name. apply existsb_adv.
  - intros p _. unfold conv. destruct (selp p) eqn:E; auto.
    unfold sel_p in E. apply andb_true_iff in E. destruct E as [_ E].
    assert (Hne : N.eqb k (pname p) = false).
    { destruct (N.eqb k (pname p)) eqn:E2; auto. apply N.eqb_eq in E2. subst k. congruence. }
    cbn [pname set_kind]. rewrite Hne, !andb_false_r. reflexivity.
  - intros p Es. apply selk_PK in Es. unfold is_kwpassable. cbn [pkind pname set_kind].
    rewrite Es. reflexivity.
Qed.

(* a posoargs name is never keyword-passable after the rewrite *)
Lemma passable_posos ps x :
  (forall y, mem y posos = true -> mem y kwos = false) ->
  forallb (kind_sel_ok posos kwos) ps = true -> mem x posos = true ->
  kwpassable_name (adv_spec posos kwos ps) x = false.
Proof.
  intros Hdis Hk Hx. destruct (kwpassable_name (adv_spec posos kwos ps) x) eqn:E; auto. exfalso.
  unfold kwpassable_name in E. apply existsb_exists in E. destruct E as (q & Hq & Hpq).
  apply andb_true_iff in Hpq. destruct Hpq as [Hpass Hname]. apply N.eqb_eq in Hname.
  rewrite adv_spec_parts in Hq. apply in_app_or in Hq. destruct Hq as [Hq|Hq].
  - apply in_Xp in Hq. destruct Hq as (p & Hp & -> & Es & Ev).
    rewrite pname_cnv in Hname. subst x.
    destruct (is_kind PK p) eqn:Epk.
    + assert (Ep : selp p = true) by (unfold sel_p; rewrite Epk, Hx; reflexivity).
      unfold conv in Hpass. rewrite Ep in Hpass. discriminate.
    + destruct (nonPK_sel posos kwos _ Epk) as [_ Ep].
      unfold conv in Hpass. rewrite Ep in Hpass.
      rewrite forallb_forall in Hk. specialize (Hk p Hp).
      unfold kind_sel_ok, named in Hk. rewrite Epk, Hx, (Hdis _ Hx) in Hk.
      simpl in Hk. rewrite andb_false_r, orb_false_r in Hk.
      apply andb_true_iff in Hk. destruct Hk as [Hpo _]. apply is_kind_eq in Hpo.
      unfold is_kwpassable in Hpass. rewrite Hpo in Hpass. discriminate.
  - apply in_app_or in Hq. destruct Hq as [Hq|Hq].
    + unfold Kk in Hq. apply in_map_iff in Hq. destruct Hq as (p & <- & Hp).
      apply filter_In in Hp. destruct Hp as [_ Es]. cbn [pname set_kind] in Hname. subst x.
      unfold sel_k in Es. rewrite Hx in Es. simpl in Es. rewrite andb_false_r in Es. discriminate.
    + unfold Vk in Hq. apply filter_In in Hq. destruct Hq as [_ Ev]. apply is_kind_eq in Ev.
      unfold is_kwpassable in Hpass. rewrite Ev in Hpass. discriminate.
Qed.
End CallFull.

(* ------------------------------------------------------------------ the rewrite on pos ++ mid ++ vkl *)
Lemma filter_all {A} (f : A -> bool) l : (forall x, In x l -> f x = true) -> filter f l = l.
Proof.
  induction l as [|x l IH]; intros H; simpl; auto.
  rewrite (H x (or_introl eq_refl)), IH; auto. intros; apply H; right; auto.
Qed.
Lemma filter_none {A} (f : A -> bool) l : (forall x, In x l -> f x = false) -> filter f l = [].
Proof.
  induction l as [|x l IH]; intros H; simpl; auto.
  rewrite (H x (or_introl eq_refl)), IH; auto. intros; apply H; right; auto.
Qed.
Lemma map_id_in {A} (g : A -> A) l : (forall x, In x l -> g x = x) -> map g l = l.
Proof.
  induction l as [|x l IH]; intros H; simpl; auto.
  rewrite (H x (or_introl eq_refl)), IH; auto. intros; apply H; right; auto.
Qed.

Lemma positional_kinds p : is_positional p = true -> is_kind VK p = false.
Proof. unfold is_positional, is_kind, kind_eqb. destruct (pkind p); simpl; congruence. Qed.
Lemma nonpositional_notPK p : is_positional p = false -> is_kind PK p = false.
Proof. unfold is_positional, is_kind, kind_eqb. destruct (pkind p); simpl; congruence. Qed.

Lemma kwopos_from_nonPK posos kwos l : forall i,
  (forall p, In p l -> is_kind PK p = false) -> kwopos_from posos kwos i l = [].
Proof.
  induction l as [|p l IH]; intros i H; simpl; auto.
  destruct (nonPK_sel posos kwos p (H p (or_introl eq_refl))) as [Es _]. rewrite Es. simpl.
  apply IH. intros; apply H; right; auto.
Qed.

Section Struct.
Variables posos kwos : list name.
Variables pos mid vkl : list param.
Hypothesis Hpos : forallb is_positional pos = true.
Hypothesis Hmid : forall p, In p mid -> is_positional p = false /\ is_kind VK p = false.
Hypothesis Hvkl : vkl = [] \/ exists v, vkl = [v] /\ pkind v = VK.

Lemma vkl_kind v : In v vkl -> pkind v = VK.
Proof.
  destruct Hvkl as [->|(w & -> & Hw)]; [intros []|]. intros [<-|[]]. exact Hw.
Qed.

Lemma tail_notPK p : In p (mid ++ vkl) -> is_kind PK p = false.
Proof.
  intros H. apply in_app_or in H. destruct H as [H|H].
  - apply nonpositional_notPK. apply Hmid. exact H.
  - apply vkl_kind in H. unfold is_kind, kind_eqb. rewrite H. reflexivity.
Qed.

Lemma adv_spec_struct :
  adv_spec posos kwos (pos ++ mid ++ vkl)
  = A1 posos kwos pos ++ mid ++ Kp posos kwos pos ++ vkl.
Proof.
  rewrite forallb_forall in Hpos.
  unfold adv_spec, A1, Kp. rewrite !filter_app, !map_app.
  assert (E1 : filter (fun p => negb (sel_k posos kwos p) && negb (is_kind VK p)) pos
               = filter (fun p => negb (sel_k posos kwos p)) pos).
  { apply filter_ext_in'. intros x Hx. rewrite (positional_kinds _ (Hpos x Hx)). apply andb_true_r. }
  assert (Hm1 : forall p, In p mid -> sel_k posos kwos p = false /\ sel_p posos p = false).
  { intros p Hp. apply nonPK_sel. apply tail_notPK. apply in_or_app. left; exact Hp. }
  assert (Hv1 : forall p, In p vkl -> sel_k posos kwos p = false /\ is_kind VK p = true).
  { intros p Hp. split.
    - apply nonPK_sel. apply tail_notPK. apply in_or_app. right; exact Hp.
    - apply is_kind_eq. apply vkl_kind. exact Hp. }
  assert (E2 : filter (fun p => negb (sel_k posos kwos p) && negb (is_kind VK p)) mid = mid).
  { apply filter_all. intros x Hx. destruct (Hm1 x Hx) as [-> _]. destruct (Hmid x Hx) as [_ ->]. reflexivity. }
  assert (E3 : filter (fun p => negb (sel_k posos kwos p) && negb (is_kind VK p)) vkl = []).
  { apply filter_none. intros x Hx. destruct (Hv1 x Hx) as [_ ->]. apply andb_false_r. }
  assert (E4 : map (conv posos) mid = mid).
  { apply map_id_in. intros x Hx. unfold conv. destruct (Hm1 x Hx) as [_ ->]. reflexivity. }
  assert (E5 : filter (sel_k posos kwos) mid = []).
  { apply filter_none. intros x Hx. apply Hm1. exact Hx. }
  assert (E6 : filter (sel_k posos kwos) vkl = []).
  { apply filter_none. intros x Hx. apply Hv1. exact Hx. }
  assert (E7 : filter (is_kind VK) pos = []).
  { apply filter_none. intros x Hx. apply positional_kinds. apply Hpos. exact Hx. }
  assert (E8 : filter (is_kind VK) mid = []).
  { apply filter_none. intros x Hx. apply Hmid. exact Hx. }
  assert (E9 : filter (is_kind VK) vkl = vkl).
  { apply filter_all. intros x Hx. apply Hv1. exact Hx. }
  rewrite E1, E2, E3, E4, E5, E6, E7, E8, E9. simpl. rewrite !app_nil_r, <- !app_assoc. reflexivity.
Qed.

Lemma kwopos_struct :
  kwopos_from posos kwos 0 (pos ++ mid ++ vkl) = kwopos_from posos kwos 0 pos.
Proof.
  rewrite kwopos_from_app, (kwopos_from_nonPK posos kwos (mid ++ vkl)).
  - apply app_nil_r.
  - intros p Hp. apply tail_notPK. exact Hp.
Qed.
End Struct.

Lemma NoDup_app_disjoint {A} (a b : list A) : NoDup (a ++ b) -> forall x, In x a -> In x b -> False.
Proof.
  induction a as [|y a IH]; intros H x Ha Hb; [destruct Ha|].
  simpl in H. inversion H; subst. destruct Ha as [<-|Ha].
  - apply H2. apply in_or_app. right; exact Hb.
  - exact (IH H3 x Ha Hb).
Qed.

Lemma NoDup_app_left {A} (a b : list A) : NoDup (a ++ b) -> NoDup a.
Proof.
  induction a as [|y a IH]; intros H; [constructor|].
  simpl in H. inversion H; subst. constructor; auto.
  intro Hin. apply H2. apply in_or_app. left; exact Hin.
Qed.

Lemma klookup_In k kws v : klookup k kws = Some v -> In k (map fst kws).
Proof.
  induction kws as [|[k' v'] kws IH]; simpl; [discriminate|].
  destruct (N.eqb k k') eqn:E; auto. apply N.eqb_eq in E. auto.
Qed.

(* ------------------------------------------------------------------ C12_call *)
Definition same_binding (o a : option env) : Prop :=
  match o, a with
  | Some eo, Some ea => Permutation eo ea
  | None, None => True
  | _, _ => False
  end.

(* the only calls left out: a keyword naming a posoargs parameter while the
   advertised signature has **kwargs *)
Definition named_posonly (adv : list param) (posos : list name) (kws : kwargs) : bool :=
  has_kind VK adv && negb (is_nil (set_inter posos (map fst kws))).

Theorem C12_call ps posos kwos adv kp args kws :
  valid_sig ps = true -> prepare ps posos kwos = Ok (adv, kp) ->
  named_posonly adv posos kws = false ->
  same_binding (decorated_call ps kp posos args kws) (bindv adv args kws).
Proof.
  intros Hv Hprep Hex.
  rewrite (C12_sig ps posos kwos Hv) in Hprep.
  destruct (admissible posos kwos ps) eqn:Hadm; [|discriminate].
  inversion Hprep; subst adv kp; clear Hprep.
  unfold admissible in Hadm. apply andb_true_iff in Hadm. destruct Hadm as [Hadm Hpo].
  apply andb_true_iff in Hadm. destruct Hadm as [Hadm Hkinds].
  apply andb_true_iff in Hadm. destruct Hadm as [Hdisj Hnames].
  assert (Hdis : forall y, mem y posos = true -> mem y kwos = false).
  { intros y Hy. destruct (mem y kwos) eqn:E; auto.
    rewrite is_nil_mem in Hdisj. specialize (Hdisj y). rewrite mem_set_inter, Hy, E in Hdisj.
    discriminate. }
  destruct (valid_structure ps Hv) as (pos & mid & vkl & Hps & Hpos & Hmid & Hvkl & Hnd).
  assert (Hadv : adv_spec posos kwos ps
                 = A1 posos kwos pos ++ mid ++ Kp posos kwos pos ++ vkl).
  { rewrite Hps. apply adv_spec_struct; auto. }
  assert (Hkp : kwopos_from posos kwos 0 ps = kwopos_from posos kwos 0 pos).
  { rewrite Hps. apply kwopos_struct; auto. }
  assert (Hnames_app : names_of ps = names_of pos ++ names_of (mid ++ vkl)).
  { rewrite Hps. unfold names_of. rewrite map_app. reflexivity. }
  assert (HndPos : NoDup (names_of pos)).
  { rewrite Hnames_app in Hnd. apply NoDup_app_left in Hnd. exact Hnd. }
  assert (Htail_notin : forall q, In q (mid ++ vkl) -> ~ In (pname q) (names_of pos)).
  { intros q Hq Hin. rewrite Hnames_app in Hnd.
    apply (NoDup_app_disjoint _ _ Hnd (pname q) Hin). apply in_map. exact Hq. }
  set (adv := adv_spec posos kwos ps) in *.
  unfold decorated_call, pok_call. rewrite Hkp.
  destruct (is_nil (set_inter posos (map fst kws))) eqn:Ei; cbn [negb].
  - (* no keyword names a posoargs parameter *)
    assert (Hb : forall k, In k (map fst kws) -> mem k posos = false).
    { intros k Hk. rewrite is_nil_mem in Ei. specialize (Ei k). rewrite mem_set_inter in Ei.
      apply mem_In in Hk. rewrite Hk, andb_true_r in Ei. exact Ei. }
    assert (Hbl : forall p, In p pos -> sel_p posos p = true -> klookup (pname p) kws = None).
    { intros p _ Hsp. destruct (klookup (pname p) kws) eqn:E; auto.
      apply klookup_In in E. apply Hb in E.
      unfold sel_p in Hsp. apply andb_true_iff in Hsp. destruct Hsp as [_ Hsp]. congruence. }
    destruct (missingb posos kwos pos kws) eqn:Em.
    + (* a required moved parameter is not given *)
      pose proof (call_loop_missing posos kwos pos 0%nat args kws [] HndPos Em) as Hmiss.
      destruct (call_loop (kwopos_from posos kwos 0 pos) args kws []) as [[a' k'] m'].
      cbn [snd] in Hmiss. destruct m' as [|m0 m']; [contradiction|].
      assert (Hnone : bind_params adv (A1 posos kwos pos ++ mid ++ Kp posos kwos pos ++ vkl) args kws = None).
      { rewrite bind_app.
        destruct (bind_params adv (A1 posos kwos pos) args kws) as [[e1 r1]|]; auto.
        rewrite bind_app. destruct (bind_params adv mid r1 kws) as [[e2 r2]|]; auto.
        rewrite bind_app, Kp_none; auto. }
      rewrite <- Hadv in Hnone.
      unfold bindv. rewrite Hnone.
      destruct (has_kind VK adv || is_nil (kw_extra adv kws)); exact I.
    + (* every moved parameter has a value *)
      pose proof (missingb_false _ _ _ _ Em) as Hnm.
      pose proof (call_loop_shufT posos kwos pos [] args kws [] HndPos Hnm) as Hcl.
      cbn [length app] in Hcl. rewrite Hcl. clear Hcl.
      set (args' := fst (shufT posos kwos pos args kws)).
      set (kws' := snd (shufT posos kwos pos args kws)).
      assert (He1 : kw_extra ps kws' = kw_extra ps kws).
      { apply kw_extra_shufT. intros p Hp Hs. apply selk_PK in Hs.
        unfold kwpassable_name. apply existsb_exists. exists p. split.
        - rewrite Hps. apply in_or_app. left; exact Hp.
        - unfold is_kwpassable. rewrite Hs, N.eqb_refl. reflexivity. }
      assert (He2 : kw_extra ps kws = kw_extra adv kws).
      { unfold kw_extra. apply filter_ext_in'. intros kv Hkv. f_equal. symmetry.
        apply passable_adv. apply Hb. apply in_map. exact Hkv. }
      assert (Hvk : has_kind VK adv = has_kind VK ps) by apply has_kind_VK_adv.
      unfold bindv. rewrite Hvk, He1, He2.
      destruct (has_kind VK ps || is_nil (kw_extra adv kws)); [|exact I].
      replace (bind_params ps ps args' kws')
        with (bind_params ps (pos ++ mid ++ vkl) args' kws') by (rewrite <- Hps; reflexivity).
      replace (bind_params adv adv args kws)
        with (bind_params adv (A1 posos kwos pos ++ mid ++ Kp posos kwos pos ++ vkl) args kws)
        by (rewrite <- Hadv; reflexivity).
      rewrite (bind_app ps pos), (bind_app adv (A1 posos kwos pos)).
      pose proof (heart posos kwos pos args kws kws kws' ps adv adv Hpos HndPos
                    (fun p _ => eq_refl) Hbl Hnm Hnm eq_refl) as HR.
      fold args' in HR.
      destruct (bind_params ps pos args' kws') as [[eo ro]|],
               (bind_params adv (A1 posos kwos pos) args kws) as [[ea ra]|],
               (bind_params adv (Kp posos kwos pos) [] kws) as [[ek rk]|] eqn:EK;
        cbn [R3] in HR; try contradiction; [|exact I].
      destruct HR as [Hperm ->].
      assert (Htail : bind_params ps (mid ++ vkl) ra kws' = bind_params adv (mid ++ vkl) ra kws).
      { apply bind_ext.
        - intros q Hq. unfold kws'. apply shufT_lookup. apply Htail_notin. exact Hq.
        - rewrite He1, He2. reflexivity. }
      rewrite Htail, (bind_app adv mid), (bind_app adv mid).
      destruct (bind_params adv mid ra kws) as [[em rm]|]; [|exact I].
      rewrite (bind_app adv (Kp posos kwos pos)).
      rewrite (bind_transparent adv (Kp posos kwos pos) rm kws), EK.
      * destruct (bind_params adv vkl rm kws) as [[ev rv]|]; [|exact I].
        destruct rv; [|exact I]. cbn [same_binding].
        apply Permutation_trans with ((ea ++ ek) ++ em ++ ev).
        -- apply Permutation_app_tail. exact Hperm.
        -- rewrite <- app_assoc. apply Permutation_app_head. apply Permutation_app_swap_app.
      * intros p Hp. unfold Kp in Hp. apply in_map_iff in Hp. destruct Hp as (q & <- & _).
        left. reflexivity.
  - (* a keyword names a posoargs parameter: TypeError; the advertised signature
       has no **kwargs, so it rejects the keyword as well *)
    unfold named_posonly in Hex. rewrite Ei in Hex. cbn [negb] in Hex.
    rewrite andb_true_r in Hex.
    destruct (set_inter posos (map fst kws)) as [|x l] eqn:Eint; [discriminate|].
    assert (Hx : In x (set_inter posos (map fst kws))) by (rewrite Eint; left; reflexivity).
    unfold set_inter in Hx. apply filter_In in Hx. destruct Hx as [Hxp Hxk].
    apply mem_In in Hxk. apply in_map_iff in Hxk. destruct Hxk as (kv & Hfst & Hkv).
    assert (Hnp : kwpassable_name adv x = false).
    { apply passable_posos; auto. apply mem_In. exact Hxp. }
    assert (Hin : In kv (kw_extra adv kws)).
    { unfold kw_extra. apply filter_In. split; auto. rewrite Hfst, Hnp. reflexivity. }
    unfold bindv. rewrite Hex.
    destruct (kw_extra adv kws) as [|y l']; [destruct Hin|]. exact I.
Qed.

(* ------------------------------------------------------------------ the property's own exclusion *)
Lemma posos_name_is_PO ps posos kwos x :
  admissible posos kwos ps = true -> mem x posos = true ->
  existsb (fun p => is_kind PO p && N.eqb x (pname p)) (adv_spec posos kwos ps) = true.
Proof.
  intros Hadm Hx. unfold admissible in Hadm.
  apply andb_true_iff in Hadm. destruct Hadm as [Hadm _].
  apply andb_true_iff in Hadm. destruct Hadm as [Hadm Hkinds].
  apply andb_true_iff in Hadm. destruct Hadm as [Hdisj Hnames].
  assert (Hxk : mem x kwos = false).
  { destruct (mem x kwos) eqn:E; auto. rewrite is_nil_mem in Hdisj. specialize (Hdisj x).
    rewrite mem_set_inter, Hx, E in Hdisj. discriminate. }
  rewrite forallb_forall in Hnames.
  assert (Hin : In x (posos ++ kwos)) by (apply in_or_app; left; apply mem_In; exact Hx).
  specialize (Hnames x Hin). apply mem_In in Hnames. unfold names_of in Hnames.
  apply in_map_iff in Hnames. destruct Hnames as (p & Hpn & Hp). subst x.
  rewrite forallb_forall in Hkinds. specialize (Hkinds p Hp).
  unfold kind_sel_ok, named in Hkinds. rewrite Hx, Hxk in Hkinds. simpl in Hkinds.
  rewrite andb_false_r, orb_false_r, andb_true_r in Hkinds.
  assert (Es : sel_k posos kwos p = false).
  { unfold sel_k. rewrite Hx. simpl. rewrite andb_false_r. reflexivity. }
  rewrite ?orb_false_r in Hkinds.
  assert (Ev : is_kind VK p = false).
  { apply orb_true_iff in Hkinds. destruct Hkinds as [H|H]; apply is_kind_eq in H;
      unfold is_kind, kind_eqb; rewrite H; reflexivity. }
  apply existsb_exists. exists (conv posos p). split.
  - rewrite adv_spec_parts. apply in_or_app. left. unfold Xp. apply in_map.
    apply filter_In. split; auto. rewrite Es, Ev. reflexivity.
  - rewrite pname_cnv, N.eqb_refl, andb_true_r. unfold conv, sel_p. rewrite Hx, andb_true_r.
    destruct (is_kind PK p) eqn:Epk; [reflexivity|]. simpl in Hkinds. exact Hkinds.
Qed.

Lemma excluded_covers ps posos kwos kws :
  admissible posos kwos ps = true ->
  excluded (adv_spec posos kwos ps) kws = false ->
  named_posonly (adv_spec posos kwos ps) posos kws = false.
Proof.
  intros Hadm Hex. unfold named_posonly, excluded in *.
  destruct (has_kind VK (adv_spec posos kwos ps)); [|reflexivity]. cbn [andb] in *.
  destruct (set_inter posos (map fst kws)) as [|x l] eqn:Eint; [reflexivity|]. exfalso.
  assert (Hx : In x (set_inter posos (map fst kws))) by (rewrite Eint; left; reflexivity).
  unfold set_inter in Hx. apply filter_In in Hx. destruct Hx as [Hxp Hxk].
  apply mem_In in Hxk. apply in_map_iff in Hxk. destruct Hxk as (kv & Hfst & Hkv).
  assert (Ht : existsb (fun kv0 => existsb (fun p => is_kind PO p && N.eqb (fst kv0) (pname p))
                                           (adv_spec posos kwos ps)) kws = true).
  { apply existsb_exists. exists kv. split; auto. subst x.
    apply posos_name_is_PO; auto. apply mem_In. exact Hxp. }
  congruence.
Qed.

Theorem C12_call_excluded ps posos kwos adv kp args kws :
  valid_sig ps = true -> prepare ps posos kwos = Ok (adv, kp) ->
  excluded adv kws = false ->
  same_binding (decorated_call ps kp posos args kws) (bindv adv args kws).
Proof.
  intros Hv Hprep Hex. apply (C12_call ps posos kwos adv kp args kws Hv Hprep).
  rewrite (C12_sig ps posos kwos Hv) in Hprep.
  destruct (admissible posos kwos ps) eqn:Hadm; [|discriminate].
  inversion Hprep; subst adv kp. apply excluded_covers; auto.
Qed.

(* ------------------------------------------------------------------ the decorators (every form) *)
Lemma same_binding_refl o : same_binding o o.
Proof. destruct o; simpl; auto. Qed.

Theorem C12_sig_decorate ps f :
  valid_sig ps = true ->
  decorate ps f =
  match select ps f with
  | Err e => Err e
  | Ok (posos, kwos) =>
      match posos, kwos with
      | [], [] => Ok (ps, [], [])                 (* the function itself is returned *)
      | _, _ => if admissible posos kwos ps
                then Ok (adv_spec posos kwos ps, kwopos_from posos kwos 0 ps, posos)
                else Err ValueErr
      end
  end.
Proof.
  intros Hv. unfold decorate. destruct (select ps f) as [[posos kwos]|e]; cbn [bind]; auto.
  destruct posos as [|x posos]; [destruct kwos as [|y kwos]; [reflexivity|]|];
    rewrite (C12_sig _ _ _ Hv);
    match goal with |- context [admissible ?a ?b ?c] => destruct (admissible a b c) end; reflexivity.
Qed.

Theorem C12_call_decorate ps f adv kp posos args kws :
  valid_sig ps = true -> decorate ps f = Ok (adv, kp, posos) ->
  named_posonly adv posos kws = false ->
  same_binding (decorated_call ps kp posos args kws) (bindv adv args kws).
Proof.
  intros Hv Hd Hex. unfold decorate in Hd.
  destruct (select ps f) as [[P K]|e]; cbn [bind] in Hd; [|discriminate].
  assert (Hcase : (P = [] /\ K = [] /\ adv = ps /\ kp = [] /\ posos = []) \/
                  prepare ps posos K = Ok (adv, kp)).
  { destruct P as [|x P]; [destruct K as [|y K]|].
    - left. inversion Hd; auto.
    - right. destruct (prepare ps [] (y :: K)) as [[a k]|] eqn:Ep; cbn [bind fst snd] in Hd; inversion Hd; subst; exact Ep.
    - right. destruct (prepare ps (x :: P) K) as [[a k]|] eqn:Ep; cbn [bind fst snd] in Hd; inversion Hd; subst; exact Ep. }
  destruct Hcase as [(-> & -> & -> & -> & ->)|Hp].
  - unfold decorated_call, pok_call. cbn. apply same_binding_refl.
  - exact (C12_call ps posos K adv kp args kws Hv Hp Hex).
Qed.

(* ------------------------------------------------------------------ the bound copy (instance access) *)
Lemma valid_sig_tail p ps : valid_sig (p :: ps) = true -> valid_sig ps = true.
Proof.
  unfold valid_sig. rewrite !andb_true_iff, !Nat.leb_le. intros [[Hval Hvp] Hvk].
  unfold validate in *. apply validate_aux_tail in Hval. destruct Hval as (_ & _ & sd' & Hval).
  rewrite validate_aux_split in Hval. rewrite !andb_true_iff in Hval. destruct Hval as [[Hr Hd] Hn].
  repeat split.
  - rewrite validate_aux_split, !andb_true_iff. repeat split.
    + apply ranks_ok_iff in Hr. destruct Hr as [_ Hss]. apply ranks_ok_iff. split; auto.
      apply Forall_forall. intros; lia.
    + apply (defs_ok_mono _ false sd'). exact Hd.
    + apply nodup_ok_iff in Hn. destruct Hn as [Hn _]. apply nodup_ok_iff. split; auto.
  - unfold count_kind in *. simpl in Hvp. destruct (is_kind VP p); simpl in Hvp; lia.
  - unfold count_kind in *. simpl in Hvk. destruct (is_kind VK p); simpl in Hvk; lia.
Qed.

Lemma valid_sig_drop_first ps : valid_sig ps = true -> valid_sig (drop_first ps) = true.
Proof.
  destruct ps as [|p ps]; simpl; auto. destruct (is_positional p); auto. apply valid_sig_tail.
Qed.

Lemma decorate_bound_inv ps f adv kp posos :
  decorate_bound ps f = Ok (adv, kp, posos) ->
  (adv = drop_first ps /\ kp = [] /\ posos = []) \/
  exists kwos, prepare (drop_first ps) posos kwos = Ok (adv, kp).
Proof.
  unfold decorate_bound. destruct (decorate ps f); cbn [bind]; [|discriminate].
  destruct (select ps f) as [[P K]|]; cbn [bind]; [|discriminate].
  assert (Hgen : (do pk' <- match f with
                            | FStart _ _ | FEnd _ _ => select (drop_first ps) f
                            | _ => Ok (P, K)
                            end ;;
                  do r <- prepare (drop_first ps) (fst pk') (snd pk') ;; Ok (fst r, snd r, fst pk'))
                 = Ok (adv, kp, posos) ->
                 exists kwos, prepare (drop_first ps) posos kwos = Ok (adv, kp)).
  { intros H.
    destruct (match f with
              | FStart _ _ | FEnd _ _ => select (drop_first ps) f
              | _ => Ok (P, K)
              end) as [[P' K']|]; cbn [bind fst snd] in H; [|discriminate].
    destruct (prepare (drop_first ps) P' K') as [[adv1 kp1]|] eqn:Ep; cbn [bind fst snd] in H; [|discriminate].
    inversion H; subst. exists K'. exact Ep. }
  destruct P as [|x P]; [destruct K as [|y K]|].
  - intros H. left. inversion H; auto.
  - intros H. right. apply Hgen. exact H.
  - intros H. right. apply Hgen. exact H.
Qed.

Lemma klookup_of_In kv (kws : kwargs) : In kv kws -> klookup (fst kv) kws <> None.
Proof.
  induction kws as [|[k v] kws IH]; intros H; [destruct H|].
  simpl. destruct (N.eqb (fst kv) k) eqn:E; [discriminate|].
  destruct H as [<-|H]; [simpl in E; rewrite N.eqb_refl in E; discriminate | auto].
Qed.

(* calling the function with the instance as first positional argument *)
Lemma bindv_self p0 ps' s a k :
  is_positional p0 = true -> kmem (pname p0) k = false ->
  bindv (p0 :: ps') (s :: a) k = option_map (cons (pname p0, BV s)) (bindv ps' a k).
Proof.
  intros Hp Hk. unfold bindv.
  assert (Hvk : has_kind VK (p0 :: ps') = has_kind VK ps').
  { unfold has_kind. simpl. rewrite (positional_kinds _ Hp). reflexivity. }
  assert (Hex : kw_extra (p0 :: ps') k = kw_extra ps' k).
  { unfold kw_extra. apply filter_ext_in'. intros kv Hkv. f_equal.
    unfold kwpassable_name. simpl.
    assert (Hne : N.eqb (fst kv) (pname p0) = false).
    { destruct (N.eqb (fst kv) (pname p0)) eqn:E; auto. apply N.eqb_eq in E.
      exfalso. apply (klookup_of_In kv k Hkv). rewrite E. unfold kmem in Hk.
      destruct (klookup (pname p0) k); [discriminate | reflexivity]. }
    rewrite Hne, andb_false_r. reflexivity. }
  rewrite Hvk, Hex.
  destruct (has_kind VK ps' || is_nil (kw_extra ps' k)); [|reflexivity].
  assert (Hb : bind_params (p0 :: ps') (p0 :: ps') (s :: a) k
               = opt_cons (pname p0, BV s) (bind_params ps' ps' a k)).
  { simpl. rewrite Hk. rewrite (bind_ext (p0 :: ps') ps' ps' a k k (fun _ _ => eq_refl) Hex).
    unfold is_positional in Hp. destruct (pkind p0); try discriminate; reflexivity. }
  rewrite Hb. destruct (bind_params ps' ps' a k) as [[e r]|]; simpl; auto. destruct r; reflexivity.
Qed.

Lemma call_loop_klookup_none kp : forall args kws m x,
  klookup x kws = None -> klookup x (snd (fst (call_loop kp args kws m))) = None.
Proof.
  induction kp as [|[i p] kp IH]; intros args kws m x Hx; simpl; auto.
  destruct (klookup (pname p) kws).
  - destruct (Nat.ltb i (length args)); apply IH; auto. apply klookup_none_kremove. exact Hx.
  - destruct (pdef p); [destruct (Nat.ltb i (length args))|]; apply IH; auto.
Qed.

Lemma same_binding_cons b o a :
  same_binding o a -> same_binding (option_map (cons b) o) (option_map (cons b) a).
Proof. destruct o, a; simpl; auto. Qed.

Theorem C12_sig_bound ps f adv kp posos :
  valid_sig ps = true -> decorate_bound ps f = Ok (adv, kp, posos) ->
  (adv = drop_first ps /\ kp = [] /\ posos = []) \/
  exists kwos, admissible posos kwos (drop_first ps) = true /\
               adv = adv_spec posos kwos (drop_first ps) /\
               kp = kwopos_from posos kwos 0 (drop_first ps).
Proof.
  intros Hv Hd. apply decorate_bound_inv in Hd. destruct Hd as [H|[kwos H]]; [left; exact H|].
  right. exists kwos. rewrite (C12_sig _ _ _ (valid_sig_drop_first _ Hv)) in H.
  destruct (admissible posos kwos (drop_first ps)); inversion H; auto.
Qed.

(* instance access: the bound copy, called with args / kws, calls the function
   with the instance s first; the result is what the advertised signature of
   the bound copy binds, plus self *)
Theorem C12_call_bound ps f p0 ps' adv kp posos s args kws :
  valid_sig ps = true -> ps = p0 :: ps' -> is_positional p0 = true ->
  decorate_bound ps f = Ok (adv, kp, posos) ->
  kmem (pname p0) kws = false ->
  named_posonly adv posos kws = false ->
  same_binding
    (match pok_call kp posos args kws with
     | Ok (args', kws') => bindv ps (s :: args') kws'
     | Err _ => None
     end)
    (option_map (cons (pname p0, BV s)) (bindv adv args kws)).
Proof.
  intros Hv Hps Hp0 Hd Hself Hex.
  assert (Hdf : drop_first ps = ps') by (rewrite Hps; simpl; rewrite Hp0; reflexivity).
  pose proof (valid_sig_drop_first _ Hv) as Hv'. rewrite Hdf in Hv'.
  apply decorate_bound_inv in Hd. rewrite Hdf in Hd. destruct Hd as [(-> & -> & ->)|[kwos Hprep]].
  - unfold pok_call. cbn. rewrite Hps, (bindv_self p0 ps' s args kws Hp0 Hself).
    apply same_binding_refl.
  - pose proof (C12_call ps' posos kwos adv kp args kws Hv' Hprep Hex) as HC.
    unfold decorated_call in HC.
    assert (Hk' : forall a' k', pok_call kp posos args kws = Ok (a', k') -> kmem (pname p0) k' = false).
    { unfold pok_call. intros a' k'.
      destruct (negb (is_nil (set_inter posos (map fst kws)))); [discriminate|].
      pose proof (call_loop_klookup_none kp args kws [] (pname p0)) as Hn.
      destruct (call_loop kp args kws []) as [[a1 k1] m1]. cbn [fst snd] in Hn.
      destruct m1; [|discriminate]. intros H; inversion H; subst. unfold kmem in *.
      rewrite Hn; auto. destruct (klookup (pname p0) kws); [discriminate | reflexivity]. }
    destruct (pok_call kp posos args kws) as [[a' k']|e].
    + rewrite Hps, (bindv_self p0 ps' s a' k' Hp0 (Hk' a' k' eq_refl)).
      apply same_binding_cons. exact HC.
    + destruct (bindv adv args kws); simpl in *; auto.
Qed.

(* ------------------------------------------------------------------ autokwoargs(exceptions=...) *)
Definition pkdef (p : param) : bool := is_kind PK p && has_def p.

(* the names autokwoargs hands to kwoargs: regular parameters with a default
   that are not excepted *)
Definition auto_sel (ps : list param) (ex : list name) : list name :=
  map pname (filter (fun p => pkdef p && negb (mem (pname p) ex)) ps).

Lemma is_nil_minus (l' l ns : list name) :
  (forall x, mem x l' = mem x l && negb (mem x ns)) ->
  is_nil l' = forallb (fun x => mem x ns) l.
Proof.
  intros H. apply eq_true_iff_eq. rewrite is_nil_mem, forallb_forall. split.
  - intros Hn x Hx. specialize (Hn x). rewrite H in Hn.
    apply mem_In in Hx. rewrite Hx in Hn. simpl in Hn. destruct (mem x ns); auto.
  - intros Hf x. rewrite H. destruct (mem x l) eqn:E; auto.
    apply mem_In in E. rewrite (Hf x E). reflexivity.
Qed.

Lemma auto_loop_spec ps : forall exc args,
  NoDup (names_of ps) ->
  snd (auto_loop ps exc args) = args ++ auto_sel ps exc /\
  forall x, mem x (fst (auto_loop ps exc args))
            = mem x exc && negb (mem x (map pname (filter pkdef ps))).
Proof.
  induction ps as [|p ps IH]; intros exc args Hnd.
  - simpl. rewrite app_nil_r. split; auto. intros x. rewrite andb_true_r. reflexivity.
  - inversion Hnd as [|y l Hnotin Hnd']; subst y l.
    cbn [auto_loop]. unfold auto_sel. cbn [filter]. fold (pkdef p).
    change (kind_eqb (pkind p) PK && has_def p) with (pkdef p).
    destruct (pkdef p) eqn:Epk; cbn [andb].
    + destruct (mem (pname p) exc) eqn:Em; cbn [negb map].
      * destruct (IH (set_remove (pname p) exc) args Hnd') as [I1 I2]. split.
        -- rewrite I1. f_equal. unfold auto_sel. f_equal. apply filter_ext_in'.
           intros q Hq. rewrite mem_set_remove.
           assert (Hne : N.eqb (pname p) (pname q) = false).
           { destruct (N.eqb (pname p) (pname q)) eqn:E; auto. apply N.eqb_eq in E.
             exfalso. apply Hnotin. rewrite E. apply in_map. exact Hq. }
           rewrite Hne. reflexivity.
        -- intros x. rewrite I2, mem_set_remove. cbn [mem]. rewrite (N.eqb_sym x (pname p)).
           destruct (N.eqb (pname p) x), (mem x exc), (mem x (map pname (filter pkdef ps))); reflexivity.
      * destruct (IH exc (args ++ [pname p]) Hnd') as [I1 I2]. split.
        -- rewrite I1, <- app_assoc. reflexivity.
        -- intros x. rewrite I2. cbn [mem].
           destruct (N.eqb x (pname p)) eqn:E; cbn [orb negb]; auto.
           apply N.eqb_eq in E. subst x. rewrite Em. reflexivity.
    + cbn [map]. apply IH. exact Hnd'.
Qed.

Theorem C12_auto_names ps ex :
  valid_sig ps = true ->
  autokwoargs_names ps ex =
  if forallb (fun x => mem x (map pname (filter pkdef ps))) ex
  then Ok (auto_sel ps ex) else Err ValueErr.
Proof.
  intros Hv. apply valid_sig_parts in Hv. destruct Hv as [Hval _].
  destruct (validate_aux_nodup _ _ _ _ Hval) as [Hnd _].
  unfold autokwoargs_names. destruct (auto_loop_spec ps ex [] Hnd) as [H1 H2].
  rewrite <- (is_nil_minus _ _ _ H2).
  destruct (auto_loop ps ex []) as [exc' args']. cbn [fst snd] in *. subst args'.
  destruct exc'; reflexivity.
Qed.

Lemma NoDup_names_inj l (p q : param) :
  NoDup (names_of l) -> In p l -> In q l -> pname p = pname q -> p = q.
Proof.
  induction l as [|r l IH]; intros Hnd Hp Hq E; [destruct Hp|].
  simpl in Hnd. inversion Hnd as [|y l' Hnotin Hnd']; subst.
  destruct Hp as [<-|Hp], Hq as [<-|Hq]; auto.
  - exfalso. apply Hnotin. rewrite E. apply in_map. exact Hq.
  - exfalso. apply Hnotin. rewrite <- E. apply in_map. exact Hp.
Qed.

Lemma po_prefix_nil kwos ps : forall found, po_prefix_ok [] kwos ps found = true.
Proof.
  induction ps as [|p ps IH]; intros found; simpl; auto.
  destruct (is_kind PK p); auto. destruct (mem (pname p) kwos); auto.
Qed.

(* which parameters autokwoargs moves *)
Lemma sel_k_auto ps ex p :
  NoDup (names_of ps) -> In p ps ->
  sel_k [] (auto_sel ps ex) p = pkdef p && negb (mem (pname p) ex).
Proof.
  intros Hnd Hp. unfold sel_k. cbn [mem negb]. rewrite andb_true_r.
  destruct (mem (pname p) (auto_sel ps ex)) eqn:Em.
  - apply mem_In in Em. unfold auto_sel in Em. apply in_map_iff in Em.
    destruct Em as (q & Hn & Hq). apply filter_In in Hq. destruct Hq as [Hq Hc].
    assert (q = p) by (apply (NoDup_names_inj ps); auto). subst q.
    rewrite Hc. apply andb_true_iff in Hc. destruct Hc as [Hc _]. unfold pkdef in Hc.
    apply andb_true_iff in Hc. destruct Hc as [-> _]. reflexivity.
  - rewrite andb_false_r. symmetry.
    destruct (pkdef p && negb (mem (pname p) ex)) eqn:Ec; auto. exfalso.
    apply mem_false_In in Em. apply Em. unfold auto_sel. apply in_map. apply filter_In. auto.
Qed.

Theorem C12_auto_admissible ps ex :
  valid_sig ps = true -> admissible [] (auto_sel ps ex) ps = true.
Proof.
  intros Hv. apply valid_sig_parts in Hv. destruct Hv as [Hval _].
  destruct (validate_aux_nodup _ _ _ _ Hval) as [Hnd _].
  unfold admissible. cbn [set_inter filter is_nil app andb]. rewrite po_prefix_nil, andb_true_r.
  apply andb_true_iff. split.
  - apply forallb_forall. intros x Hx. apply mem_In. unfold auto_sel in Hx.
    apply in_map_iff in Hx. destruct Hx as (q & <- & Hq). apply filter_In in Hq.
    apply in_map. tauto.
  - apply forallb_forall. intros p Hp. unfold kind_sel_ok, named. cbn [mem orb andb].
    rewrite andb_false_r, orb_false_r.
    destruct (mem (pname p) (auto_sel ps ex)) eqn:Em; cbn [negb]; [|rewrite orb_true_r; reflexivity].
    apply mem_In in Em. unfold auto_sel in Em. apply in_map_iff in Em.
    destruct Em as (q & Hn & Hq). apply filter_In in Hq. destruct Hq as [Hq Hc].
    assert (q = p) by (apply (NoDup_names_inj ps); auto). subst q.
    apply andb_true_iff in Hc. destruct Hc as [Hc _]. unfold pkdef in Hc.
    apply andb_true_iff in Hc. destruct Hc as [-> _]. reflexivity.
Qed.

(* autokwoargs(exceptions=ex): ValueError iff an excepted name is not a regular
   parameter with a default; otherwise exactly the other regular parameters
   with a default become keyword-only (nothing to do: the function itself) *)
Theorem C12_sig_auto ps ex :
  valid_sig ps = true ->
  decorate ps (FAuto ex) =
  if forallb (fun x => mem x (map pname (filter pkdef ps))) ex
  then match auto_sel ps ex with
       | [] => Ok (ps, [], [])
       | _ :: _ => Ok (adv_spec [] (auto_sel ps ex) ps, kwopos_from [] (auto_sel ps ex) 0 ps, [])
       end
  else Err ValueErr.
Proof.
  intros Hv. rewrite (C12_sig_decorate ps (FAuto ex) Hv). cbn [select].
  rewrite (C12_auto_names ps ex Hv).
  destruct (forallb (fun x => mem x (map pname (filter pkdef ps))) ex); cbn [bind]; [|reflexivity].
  pose proof (C12_auto_admissible ps ex Hv) as Ha.
  destruct (auto_sel ps ex) as [|y l]; [reflexivity|]. rewrite Ha. reflexivity.
Qed.

(* ------------------------------------------------------------------ the hypotheses are satisfiable *)
Definition ex_ps : list param :=
  [mkParam 1 PK None None UEmpty; mkParam 2 PK (Some 102) None UEmpty;
   mkParam 3 PK (Some 103) None UEmpty; mkParam 9 VP None None UEmpty;
   mkParam 4 KO None None UEmpty; mkParam 10 VK None None UEmpty].

Example C12_sig_example :
  valid_sig ex_ps = true /\ admissible [1] [2] ex_ps = true /\
  admissible [2] [] ex_ps = false /\ admissible [1] [4; 7] ex_ps = false /\
  prepare ex_ps [1] [2] =
  Ok ([mkParam 1 PO None None UEmpty; mkParam 3 PK (Some 103) None UEmpty;
       mkParam 9 VP None None UEmpty; mkParam 4 KO None None UEmpty;
       mkParam 2 KO (Some 102) None UEmpty; mkParam 10 VK None None UEmpty],
      [(1%nat, mkParam 2 PK (Some 102) None UEmpty)]).
Proof. repeat split; vm_compute; reflexivity. Qed.

Definition ex_adv : list param :=
  [mkParam 1 PO None None UEmpty; mkParam 3 PK (Some 103) None UEmpty;
   mkParam 9 VP None None UEmpty; mkParam 4 KO None None UEmpty;
   mkParam 2 KO (Some 102) None UEmpty; mkParam 10 VK None None UEmpty].
Definition ex_kp : list (nat * param) := [(1%nat, mkParam 2 PK (Some 102) None UEmpty)].

Example C12_call_example :
  prepare ex_ps [1] [2] = Ok (ex_adv, ex_kp) /\
  named_posonly ex_adv [1] [(4, 304); (2, 302); (7, 307)] = false /\
  decorated_call ex_ps ex_kp [1] [200; 201; 202] [(4, 304); (2, 302); (7, 307)]
  = Some [(1, BV 200); (2, BV 302); (3, BV 201); (9, BTup [202]); (4, BV 304);
          (10, BDict [(7, 307)])] /\
  bindv ex_adv [200; 201; 202] [(4, 304); (2, 302); (7, 307)]
  = Some [(1, BV 200); (3, BV 201); (9, BTup [202]); (4, BV 304); (2, BV 302);
          (10, BDict [(7, 307)])].
Proof. repeat split; vm_compute; reflexivity. Qed.

Example C12_call_bound_example :
  let ps := [mkParam 13 PK None None UEmpty; mkParam 1 PK None None UEmpty;
             mkParam 2 PK (Some 102) None UEmpty] in
  valid_sig ps = true /\
  decorate_bound ps (FEnd 1 []) =
  Ok ([mkParam 1 PO None None UEmpty; mkParam 2 PK (Some 102) None UEmpty], [], [1]) /\
  kmem 13 [(2, 302)] = false /\
  named_posonly [mkParam 1 PO None None UEmpty; mkParam 2 PK (Some 102) None UEmpty] [1] [(2, 302)] = false.
Proof. repeat split; vm_compute; reflexivity. Qed.

Example C12_sig_auto_example :
  decorate ex_ps (FAuto [2]) =
  Ok ([mkParam 1 PK None None UEmpty; mkParam 2 PK (Some 102) None UEmpty;
       mkParam 9 VP None None UEmpty; mkParam 4 KO None None UEmpty;
       mkParam 3 KO (Some 103) None UEmpty; mkParam 10 VK None None UEmpty],
      [(2%nat, mkParam 3 PK (Some 103) None UEmpty)], []) /\
  decorate ex_ps (FAuto [1]) = Err ValueErr.
Proof. split; vm_compute; reflexivity. Qed.

Print Assumptions C12_sig.
Print Assumptions C12_call.
Print Assumptions C12_call_excluded.
Print Assumptions C12_sig_decorate.
Print Assumptions C12_call_decorate.
Print Assumptions C12_sig_bound.
Print Assumptions C12_call_bound.
Print Assumptions C12_auto_names.
Print Assumptions C12_auto_admissible.
Print Assumptions C12_sig_auto.
