(* ModifiersFull.v — C12: the full statements.
   C12_sig : _prepare succeeds iff the selection is admissible, and then
             advertises exactly the rewrite adv_spec.
   C12_call: for every call (named positional-only arguments alongside **kwargs
             excluded) the translator's __call__ followed by CPython's binding
             of the ORIGINAL parameters gives the bindings CPython computes for
             the ADVERTISED signature, and fails exactly when that fails. *)
From Coq Require Import List NArith Bool Arith Lia Permutation.
From Sigtools.Model Require Import Base Bind Algebra Modifiers.
From Sigtools.Proofs Require Import Modifiers.
Import ListNotations.

(* ------------------------------------------------------------------ admissible selections *)
Section Adm.
Variables posos kwos : list name.

Definition named (p : param) : bool := mem (pname p) posos || mem (pname p) kwos.

(* a named parameter is regular, or already of the requested kind *)
Definition kind_sel_ok (p : param) : bool :=
  is_kind PK p || negb (named p)
  || (is_kind PO p && mem (pname p) posos) || (is_kind KO p && mem (pname p) kwos).

(* no regular parameter requested positional-only comes after a regular
   parameter that stays regular *)
Fixpoint po_prefix_ok (ps : list param) (found : bool) : bool :=
  match ps with
  | [] => true
  | p :: ps' =>
      if is_kind PK p then
        if mem (pname p) posos then negb found && po_prefix_ok ps' found
        else if mem (pname p) kwos then po_prefix_ok ps' found
        else po_prefix_ok ps' true
      else po_prefix_ok ps' found
  end.

Definition admissible (ps : list param) : bool :=
  is_nil (set_inter posos kwos)                                  (* not both kinds at once *)
  && forallb (fun x => mem x (names_of ps)) (posos ++ kwos)      (* every name is a parameter *)
  && forallb kind_sel_ok ps
  && po_prefix_ok ps false.

Definition isOk {A} (r : res A) : bool := match r with Ok _ => true | Err _ => false end.

Lemma is_kind_eq k p : is_kind k p = true <-> pkind p = k.
Proof. unfold is_kind, kind_eqb. destruct (pkind p), k; simpl; split; congruence. Qed.

Lemma prep_step_err i p st e : prep_step posos kwos i p st = Err e -> e = ValueErr.
Proof.
  unfold prep_step.
  destruct (pkind p); simpl;
    repeat match goal with
           | |- context [if ?c then _ else _] => destruct c; simpl
           end; intros H; inversion H; reflexivity.
Qed.

Lemma prep_loop_err ps : forall i st e, prep_loop posos kwos ps i st = Err e -> e = ValueErr.
Proof.
  induction ps as [|p ps IH]; intros i st e H; simpl in H; [discriminate|].
  destruct (prep_step posos kwos i p st) as [st1|e1] eqn:E1; simpl in H.
  - exact (IH _ _ _ H).
  - inversion H; subst. exact (prep_step_err _ _ _ _ E1).
Qed.

Definition tu_inv (ps : list param) (tu : list name) : Prop :=
  forall p, In p ps -> mem (pname p) tu = named p.

Lemma tu_inv_tail p ps tu : tu_inv (p :: ps) tu -> tu_inv ps tu.
Proof. intros H q Hq. apply H. right; exact Hq. Qed.

Lemma tu_inv_remove p ps tu :
  ~ In (pname p) (names_of ps) -> tu_inv ps tu -> tu_inv ps (set_remove (pname p) tu).
Proof.
  intros Hn H q Hq. rewrite mem_set_remove, (H q Hq).
  destruct (N.eqb (pname p) (pname q)) eqn:E; simpl; auto.
  apply N.eqb_eq in E. exfalso. apply Hn. rewrite E. apply in_map. exact Hq.
Qed.

(* the loop of _prepare raises exactly when a named parameter has the wrong
   kind or a positional-only request follows a parameter that stays regular *)
Lemma prep_loop_ok ps : forall i st,
  NoDup (names_of ps) -> tu_inv ps (st_to_use st) ->
  isOk (prep_loop posos kwos ps i st) = forallb kind_sel_ok ps && po_prefix_ok ps (st_found_pok st).
Proof.
  induction ps as [|p ps IH]; intros i st Hnd Hinv; [reflexivity|].
  inversion Hnd as [|x l Hnotin Hnd']; subst x l.
  pose proof (Hinv p (or_introl eq_refl)) as Hp.
  pose proof (tu_inv_tail _ _ _ Hinv) as Hinv'.
  pose proof (tu_inv_remove p ps _ Hnotin Hinv') as Hrm.
  cbn [prep_loop forallb po_prefix_ok].
  unfold prep_step.
  assert (Hks : kind_sel_ok p = (kind_eqb (pkind p) PK || negb (named p)
                                 || (kind_eqb (pkind p) PO && mem (pname p) posos)
                                 || (kind_eqb (pkind p) KO && mem (pname p) kwos))) by reflexivity.
  rewrite Hks. change (is_kind PK p) with (kind_eqb (pkind p) PK).
  unfold named in *.
  destruct (pkind p) eqn:Ek; cbn [kind_eqb kind_rank Nat.eqb orb andb negb].
  - (* PO *)
    rewrite Hp.
    destruct (mem (pname p) posos) eqn:E1; cbn [orb andb negb bind].
    + rewrite IH; auto.
    + destruct (mem (pname p) kwos) eqn:E2; cbn [orb andb negb bind].
      * reflexivity.
      * rewrite IH; auto.
  - (* PK *)
    destruct (mem (pname p) posos) eqn:E1.
    + destruct (st_found_pok st) eqn:Ef; cbn [bind isOk negb andb].
      * rewrite andb_false_r. reflexivity.
      * rewrite IH; auto.
    + destruct (mem (pname p) kwos) eqn:E2; cbn [bind].
      * rewrite IH; auto.
      * rewrite IH; auto.
  - (* VP *)
    rewrite Hp.
    destruct (mem (pname p) posos) eqn:E1; cbn [orb andb negb bind].
    + reflexivity.
    + destruct (mem (pname p) kwos) eqn:E2; cbn [orb andb negb bind].
      * reflexivity.
      * rewrite IH; auto.
  - (* KO *)
    rewrite Hp.
    destruct (mem (pname p) posos) eqn:E1; destruct (mem (pname p) kwos) eqn:E2;
      cbn [orb andb negb bind]; try reflexivity; rewrite IH; auto.
  - (* VK *)
    rewrite Hp.
    destruct (mem (pname p) posos) eqn:E1; cbn [orb andb negb bind].
    + reflexivity.
    + destruct (mem (pname p) kwos) eqn:E2; cbn [orb andb negb bind].
      * reflexivity.
      * rewrite IH; auto.
Qed.
End Adm.
