(* MergeSoundN.v -- C01_mixed through the n-ary fold: for valid, pairwise
   role-consistent inputs, every non-colliding call (mixed positional + keyword)
   accepted by merge ss is accepted by every input.

   Role consistency is not preserved by a merge step, so (as in RcValidN.v) the fold
   carries the weaker relation [compatA acc d] towards the inputs still to come.
   Towards the inputs already merged it carries the index-aware relation [SI acc s]
   (the binary invariants MInv of MergeSoundMixed.v read on whole signatures, plus
   the summary relation Sum of MergeSound.v): it holds between an input and itself, is
   preserved by a step, and forces soundness for non-colliding calls.
   Part 1 re-walks the positional-or-keyword zip and the two last loops of the merger
   under [compatA] (a positional-or-keyword parameter of the new input may now meet a
   keyword-only parameter of the accumulator that an earlier step converted); the
   positional-only zip of MergeSoundMixed.v is reused as it is. *)
From Sigtools.Model Require Import Base Bind Roles Algebra.
From Sigtools.Proofs Require Import SmallModel Basics MaskLaws MaskExact MergeNeutral MergeIdem
     MergeSoundBase MergeSoundInv MergeSound MergeSoundMixed ValidateSpec RcValid FoldLaw RcValidN.
From Coq Require Import Lia.

(* ================================================================== *)
(* 1. one merger step under the fold relation                          *)

Section MC.
Variables l r : sorted.
Hypothesis Kl : kinds_ok l.
Hypothesis Kr : kinds_ok r.
Hypothesis NlF : NoDup (names_of (posargs l ++ pokargs l ++ kwoargs l)).
Hypothesis NrF : NoDup (names_of (posargs r ++ pokargs r ++ kwoargs r)).
Notation myS := (my l r).

(* what [compatA l r] gives *)
Hypothesis RCkL : forall p q, In p (pokargs l) -> In q (kwoargs r) -> pname p <> pname q.
Hypothesis CKP : forall p q, In p (pokargs r) -> In q (kwoargs l) -> pname p = pname q ->
  varargs l = None /\ forall j, nth_error (Pz r) j = Some p -> (length (Pz l) <= j)%nat.
Hypothesis RCi : forall o i j p q,
  nth_error (Pz (myS o)) i = Some p -> nth_error (Pz (myS (flip o))) j = Some q -> pname p = pname q -> i = j.

Lemma Nl' : NoDup (names_of (pokargs l ++ kwoargs l)).
Proof. rewrite names_app in NlF. apply nodup_app_r in NlF. exact NlF. Qed.
Lemma Nr' : NoDup (names_of (pokargs r ++ kwoargs r)).
Proof. rewrite names_app in NrF. apply nodup_app_r in NrF. exact NrF. Qed.

Lemma unb_pok1_some s e st st' q :
  unb_pok1 l r s e st = Ok st' -> find_param (pname e) (unm st (flip s)) = Some q ->
  m_pos st' = m_pos st /\ m_pok st' = m_pok st /\
  m_kwo st' = od_set (m_kwo st) (set_kind KO (concile e q)) /\
  unm st' s = unm st s /\ unm st' (flip s) = remove_param (pname e) (unm st (flip s)).
Proof.
  unfold unb_pok1. change (match s with L => R | R => L end) with (flip s). intros E F. rewrite F in E.
  inversion E; subst st'. destruct s; cbn; auto.
Qed.

Lemma unb_pok1_mixedC s e st st' ds dt rest :
  In e (pokargs (myS s)) -> Pz (myS s) = ds ++ e :: rest -> Pz (myS (flip s)) = dt ->
  ~ In (pname e) (names_of (m_kwo st)) -> UK l r st ->
  unb_pok1 l r s e st = Ok st' ->
  Ph l r s st ds dt [] -> MInv l r s st ds -> MInv l r (flip s) st dt ->
  Ph l r s st' (ds ++ [e]) dt [] /\ MInv l r s st' (ds ++ [e]) /\ MInv l r (flip s) st' dt /\ UK l r st' /\
  (forall x, In x (names_of (m_kwo st')) -> In x (names_of (m_kwo st)) \/ x = pname e).
Proof.
  intros He Hps Hpt Hfr Huk E HPh Ms Mt.
  assert (Hek : pkind e = PK).
  { destruct s; cbn [my] in He; [destruct Kl as (_ & K2 & _)|destruct Kr as (_ & K2 & _)];
      rewrite Forall_forall in K2; exact (K2 e He). }
  assert (Hnth : nth_error (Pz (myS s)) (length ds) = Some e) by (rewrite Hps; apply nth_error_mid).
  destruct HPh as (A & B & C & D).
  destruct (unb_pok1_shape2 l r s e st st' E) as [[q Ef]|(Ef & U & Hcases)].
  { (* the parameter meets an unmatched keyword-only parameter of the other side *)
    destruct (find_param_In _ _ _ Ef) as [Hq Hqn]. pose proof (Huk _ _ Hq) as Hqk.
    destruct s; cbn [flip my] in *.
    - exfalso. exact (RCkL e q He Hqk (eq_sym Hqn)).
    - (* e of the new input, q a converted keyword-only parameter of the accumulator *)
      destruct (CKP e q He Hqk (eq_sym Hqn)) as [Hva Hidx].
      destruct (unb_pok1_some R e st st' q E Ef) as (P1 & P2 & K & U1 & U2). cbn [flip unm] in U1, U2.
      rewrite (od_set_snoc (m_kwo st) (set_kind KO (concile e q)) Hfr) in K.
      assert (Er : RP st' = RP st) by (unfold RP; rewrite P1, P2; reflexivity).
      assert (Eva : isSome (varargs l) = false) by (rewrite Hva; reflexivity).
      split; [|split; [|split; [|split]]].
      + unfold Ph. rewrite Er, app_length. cbn [length flip my]. repeat split; intros; try lia. exact Eva.
      + apply (minv_d_only l r R st st' ds e [set_kind KO (concile e q)] Er B K).
        * intros Hd. split; [exact Hek|]. exists (set_kind KO (concile e q)). split; [left; reflexivity|].
          split; [apply (concile_req_l e q Hd)|reflexivity].
        * intros q' j p' [<-|[]] Hp' Hpk En. change (pname (set_kind KO (concile e q))) with (pname e) in En.
          assert (j = length ds) by (eapply (nth_error_names_inj _ _ _ _ _ (NPz l r NlF NrF R)); eassumption).
          subst j. cbn [flip my]. auto.
        * exact Ms.
      + apply (minv_kwo_only l r L st st' dt [set_kind KO (concile e q)] Er K); [|exact Mt].
        intros q' j p' [<-|[]] Hp' Hpk En. change (pname (set_kind KO (concile e q))) with (pname e) in En. exfalso.
        assert (X : length ds = j) by (apply (RCi R (length ds) j e p' Hnth Hp'); auto).
        assert (Hj : (j < length (Pz l))%nat) by (apply nth_error_Some; cbn [my] in Hp'; congruence).
        pose proof (Hidx (length ds) Hnth). lia.
      + intros o p Hp. destruct o; cbn [unm] in *; [rewrite U2 in Hp; apply (Huk L); apply (incl_remove_param _ _ _ Hp)|
                                                    rewrite U1 in Hp; exact (Huk R p Hp)].
      + intros x Hx. rewrite K, names_app in Hx. apply in_app_or in Hx.
        destruct Hx as [Hx|[Hx|[]]]; [left; exact Hx|right; symmetry; exact Hx]. }
  assert (Huk' : UK l r st') by (intros o p Hp; rewrite U in Hp; exact (Huk o p Hp)).
  destruct Hcases as [(Eva & P1 & P2 & K)|[(Eva & P1 & P2 & K)|[(Eva & P1 & P2 & K)|(Eva & Ed & ->)]]].
  - assert (E1 : length (RP st) = length ds).
    { destruct (Nat.eq_dec (length (RP st)) (length ds)) as [X|X]; [exact X|].
      destruct C as [_ C]; [lia|congruence]. }
    assert (He' : estep (RP st) (RP st') [e]) by (apply estep_pok; assumption).
    pose proof (estep_length _ _ _ He') as EL. cbn [length] in EL.
    split; [|split; [|split; [|split]]]; auto.
    + unfold Ph. rewrite app_length. cbn [length]. repeat split; intros; lia.
    + apply (minv_both l r s st st' ds e e He' E1 K); auto; [apply rel_self|].
      intros q p' Hq Hp' _ En. rewrite Hnth in Hp'. inversion Hp'; subst p'.
      apply Hfr. rewrite En. apply in_names. exact Hq.
    + apply (minv_rp_only l r (flip s) st st' dt e He' A K); auto. rewrite Hpt. exact A.
    + intros x Hx. left. rewrite K in Hx. exact Hx.
  - rewrite (od_set_snoc (m_kwo st) (set_kind KO e) Hfr) in K.
    assert (Er : RP st' = RP st) by (unfold RP; rewrite P1, P2; reflexivity).
    split; [|split; [|split; [|split]]]; auto.
    + unfold Ph. rewrite Er, app_length. cbn [length]. repeat split; intros; try lia. exact Eva.
    + apply (minv_d_only l r s st st' ds e [set_kind KO e] Er B K); auto.
      * intros Hd. split; [exact Hek|]. exists (set_kind KO e). split; [left; reflexivity|auto].
      * intros q j p' [<-|[]] Hp' Hpk En. change (pname (set_kind KO e)) with (pname e) in En.
        assert (j = length ds) by (eapply (nth_error_names_inj _ _ _ _ _ (NPz l r NlF NrF s)); eassumption).
        subst j. auto.
    + apply (minv_kwo_only l r (flip s) st st' dt [set_kind KO e] Er K); auto.
      intros q j p' [<-|[]] Hp' Hpk En. change (pname (set_kind KO e)) with (pname e) in En. exfalso.
      assert (X : length ds = j) by (apply (RCi s (length ds) j e p' Hnth Hp'); auto).
      assert (Hj : (j < length (Pz (myS (flip s))))%nat) by (apply nth_error_Some; congruence).
      rewrite Hpt in Hj. lia.
    + intros x Hx. rewrite K, names_app in Hx. apply in_app_or in Hx.
      destruct Hx as [Hx|[Hx|[]]]; [left; exact Hx|right; symmetry; exact Hx].
  - assert (E1 : length (RP st) = length ds).
    { destruct (Nat.eq_dec (length (RP st)) (length ds)) as [X|X]; [exact X|].
      destruct C as [_ C]; [lia|congruence]. }
    assert (He' : estep (RP st) (RP st') [set_kind PO e]) by (apply estep_conv_pos; assumption).
    pose proof (estep_length _ _ _ He') as EL. cbn [length] in EL.
    split; [|split; [|split; [|split]]]; auto.
    + unfold Ph. rewrite app_length. cbn [length]. repeat split; intros; lia.
    + apply (minv_both l r s st st' ds (set_kind PO e) e He' E1 K); auto.
      * split; [auto|]. cbn. discriminate.
      * intros q p' Hq Hp' _ En. rewrite Hnth in Hp'. inversion Hp'; subst p'.
        apply Hfr. rewrite En. apply in_names. exact Hq.
    + apply (minv_rp_only l r (flip s) st st' dt (set_kind PO e) He' A K); auto. rewrite Hpt. exact A.
    + intros x Hx. left. rewrite K in Hx. exact Hx.
  - split; [|split; [|split; [|split]]]; auto.
    + unfold Ph. rewrite app_length. cbn [length]. repeat split; intros; try lia. exact Eva.
    + apply (minv_d_only l r s st st ds e []); auto.
      * rewrite app_nil_r. reflexivity.
      * intros Hd. congruence.
      * intros q j p' [].
Qed.

Lemma unb_pok_all_mixedC s ps : forall st st' ds dt,
  NoDup (names_of ps) -> incl ps (pokargs (myS s)) ->
  Pz (myS s) = ds ++ ps -> Pz (myS (flip s)) = dt ->
  (forall x, In x (names_of ps) -> ~ In x (names_of (m_kwo st))) -> UK l r st ->
  unb_pok_all l r s ps st = Ok st' ->
  Ph l r s st ds dt [] -> MInv l r s st ds -> MInv l r (flip s) st dt ->
  Ph l r s st' (ds ++ ps) dt [] /\ MInv l r s st' (ds ++ ps) /\ MInv l r (flip s) st' dt.
Proof.
  induction ps as [|e ps IH]; intros st st' ds dt Hn Hps Hs Ht Hfr Huk E HPh Ms Mt.
  - cbn [unb_pok_all] in E. inversion E; subst st'. rewrite app_nil_r. auto.
  - cbn [unb_pok_all] in E. apply bind_ok in E. destruct E as [st1 [E1 E2]].
    apply incl_cons_l in Hps. destruct Hps as [He Hps].
    cbn [names_of map] in Hn. inversion Hn as [|? ? Hne Hn']; subst.
    assert (Hfe : ~ In (pname e) (names_of (m_kwo st))) by (apply Hfr; left; reflexivity).
    destruct (unb_pok1_mixedC s e st st1 ds (Pz (myS (flip s))) ps He Hs eq_refl Hfe Huk E1 HPh Ms Mt)
      as (P1 & M1 & T1 & U1 & Hk1).
    assert (Hfr1 : forall x, In x (names_of ps) -> ~ In x (names_of (m_kwo st1))).
    { intros x Hx Hc. destruct (Hk1 x Hc) as [Hc'| ->].
      - apply (Hfr x); [right; exact Hx|exact Hc'].
      - apply Hne. exact Hx. }
    assert (Hs1 : Pz (myS s) = (ds ++ [e]) ++ ps) by (rewrite <- app_assoc; exact Hs).
    destruct (IH st1 st' (ds ++ [e]) (Pz (myS (flip s))) Hn' Hps Hs1 eq_refl Hfr1 U1 E2 P1 M1 T1) as (P2 & M2 & T2).
    rewrite <- app_assoc in P2, M2. cbn [app] in P2, M2. auto.
Qed.

Lemma zip_pok_mixedC il : forall ir st st' dl dr,
  NoDup (names_of il) -> NoDup (names_of ir) -> incl il (pokargs l) -> incl ir (pokargs r) ->
  Pz l = dl ++ il -> Pz r = dr ++ ir -> HK l r st -> UK l r st ->
  zip_pok l r il ir st = Ok st' ->
  ZP l r st dl dr il ir -> MInv l r L st dl -> MInv l r R st dr ->
  MInv l r L st' (dl ++ il) /\ MInv l r R st' (dr ++ ir) /\
  (Ph l r L st' (dl ++ il) (dr ++ ir) [] \/ Ph l r R st' (dr ++ ir) (dl ++ il) []).
Proof.
  assert (Hfresh : forall o ps st, incl ps (pokargs (myS o)) -> HK l r st ->
            forall x, In x (names_of ps) -> ~ In x (names_of (m_kwo st))).
  { intros o ps st Hps Hk x Hx. apply names_in in Hx. destruct Hx as [e [He <-]].
    apply (HK_fresh l r NlF NrF o st e Hk). apply Hps. exact He. }
  induction il as [|a il IH]; intros ir st st' dl dr Nil Nir Hil Hir Hl Hr Hk Huk E (Z1 & Z2 & Z3 & Z4) ML MR.
  - cbn [zip_pok] in E. rewrite app_nil_r in *. destruct ir as [|b ir].
    + cbn [unb_pok_all] in E. inversion E; subst st'. rewrite app_nil_r in *. auto.
    + assert (P : Ph l r R st dr dl []) by (apply Z3; [reflexivity|discriminate]).
      destruct (unb_pok_all_mixedC R (b :: ir) st st' dr dl Nir Hir Hr Hl (Hfresh R _ st Hir Hk) Huk E P MR ML)
        as (P2 & M2 & T2). auto.
  - destruct ir as [|b ir].
    + cbn [zip_pok] in E. rewrite app_nil_r in *.
      assert (P : Ph l r L st dl dr []) by (apply Z2; [discriminate|reflexivity]).
      destruct (unb_pok_all_mixedC L (a :: il) st st' dl dr Nil Hil Hl Hr (Hfresh L _ st Hil Hk) Huk E P ML MR)
        as (P2 & M2 & T2). auto.
    + cbn [zip_pok] in E.
      destruct (Z1 ltac:(discriminate) ltac:(discriminate)) as [E1 E2].
      pose proof (Hfresh L (a :: il) st Hil Hk (pname a) (or_introl eq_refl)) as Hfa.
      pose proof (Hfresh R (b :: ir) st Hir Hk (pname b) (or_introl eq_refl)) as Hfb.
      apply incl_cons_l in Hil. destruct Hil as [Ha Hil]. apply incl_cons_l in Hir. destruct Hir as [Hb Hir].
      pose proof Kl as (_ & Kl2 & _). pose proof Kr as (_ & Kr2 & _). rewrite Forall_forall in Kl2, Kr2.
      pose proof (Kl2 a Ha) as Hak. pose proof (Kr2 b Hb) as Hbk.
      apply nodup_names_cons in Nil. apply nodup_names_cons in Nir.
      assert (Hna : nth_error (Pz l) (length dl) = Some a) by (rewrite Hl; apply nth_error_mid).
      assert (Hnb : nth_error (Pz r) (length dr) = Some b) by (rewrite Hr; apply nth_error_mid).
      assert (Hca : forall q p', In q (m_kwo st) -> nth_error (Pz (myS L)) (length dl) = Some p' ->
                                 pkind p' = PK -> pname p' <> pname q).
      { intros q p' Hq Hp' _ En. cbn [my] in Hp'. rewrite Hna in Hp'. inversion Hp'; subst p'.
        apply Hfa. rewrite En. apply in_names. exact Hq. }
      assert (Hcb : forall q p', In q (m_kwo st) -> nth_error (Pz (myS R)) (length dr) = Some p' ->
                                 pkind p' = PK -> pname p' <> pname q).
      { intros q p' Hq Hp' _ En. cbn [my] in Hp'. rewrite Hnb in Hp'. inversion Hp'; subst p'.
        apply Hfb. rewrite En. apply in_names. exact Hq. }
      match type of E with zip_pok l r il ir ?s = _ => remember s as st1 eqn:Est end.
      assert (F : exists c, estep (RP st) (RP st1) [c] /\ rel c a /\ rel c b /\ m_kwo st1 = m_kwo st /\
                            (forall o, unm st1 o = unm st o)).
      { rewrite Est. destruct (N.eqb_spec (pname a) (pname b)) as [Eab|Nab].
        - exists (concile a b). split; [apply estep_pok; reflexivity|].
          split; [split; [apply concile_req_l|intros _; auto]|].
          split; [split; [apply concile_req_r|intros _; split; [exact Hbk|symmetry; exact Eab]]|].
          split; [reflexivity|intros o; destruct o; reflexivity].
        - exists (set_kind PO (concile a b)). split; [apply estep_conv_pok; reflexivity|].
          split; [split; [apply (concile_req_l a b)|cbn; discriminate]|].
          split; [split; [apply (concile_req_r a b)|cbn; discriminate]|].
          split; [reflexivity|intros o; destruct o; reflexivity]. }
      clear Est. destruct F as (c & He' & Ra & Rb & K & U).
      pose proof (estep_length _ _ _ He') as EL. cbn [length] in EL.
      assert (M1 : MInv l r L st1 (dl ++ [a])) by (apply (minv_both l r L st st1 dl c a He' E1 K Ra Hca ML)).
      assert (T1 : MInv l r R st1 (dr ++ [b])) by (apply (minv_both l r R st st1 dr c b He' E2 K Rb Hcb MR)).
      assert (Q1 : EqL st1 (dl ++ [a]) (dr ++ [b])) by (unfold EqL; rewrite !app_length; cbn [length]; lia).
      assert (Hl1 : Pz l = (dl ++ [a]) ++ il) by (rewrite <- app_assoc; exact Hl).
      assert (Hr1 : Pz r = (dr ++ [b]) ++ ir) by (rewrite <- app_assoc; exact Hr).
      assert (Hk1 : HK l r st1) by (unfold HK; rewrite K; exact Hk).
      assert (Huk1 : UK l r st1) by (intros o p Hp; rewrite U in Hp; exact (Huk o p Hp)).
      destruct (IH ir st1 st' (dl ++ [a]) (dr ++ [b]) Nil Nir Hil Hir Hl1 Hr1 Hk1 Huk1 E
                  (EqL_ZP l r _ _ _ _ _ Q1) M1 T1) as (M2 & T2 & P2).
      repeat rewrite <- app_assoc in M2. repeat rewrite <- app_assoc in T2.
      repeat rewrite <- app_assoc in P2. cbn [app] in M2, T2, P2. auto.
Qed.

(* leftover keyword-only parameters; a leftover keyword-only parameter of the accumulator
   may carry the name of a positional-or-keyword parameter of the new input *)
Lemma unmatched_mixedC s st st' o d :
  unmatched_kwo l r s st = Ok st' -> GU l r s st ->
  (varargs l = None -> (length (RP st) <= length (Pz l))%nat) ->
  MInv l r o st d -> MInv l r o st' d /\ RP st' = RP st.
Proof.
  intros E GUs HB M. destruct (unmatched_kwo_shape l r s st st' E) as (P1 & P2 & U & [K|K]).
  - assert (Er : RP st' = RP st) by (unfold RP; rewrite P1, P2; reflexivity).
    split; [|exact Er]. apply (minv_same l r o st st' d Er K M).
  - rewrite (od_update_fresh _ _ (g_fb _ _ _ _ GUs) (g_fa _ _ _ _ GUs)) in K.
    assert (Er : RP st' = RP st) by (unfold RP; rewrite P1, P2; reflexivity).
    split; [|exact Er]. apply (minv_kwo_only l r o st st' d (unm st s) Er K); [|exact M].
    intros q j p' Hq Hp' Hpk En.
    pose proof (g_fc _ _ _ _ GUs q Hq) as Hko.
    assert (Hin : In p' (pokargs (myS o))) by (apply (Pz_pk l r Kl Kr); [eapply nth_error_In; exact Hp'|exact Hpk]).
    destruct o, s; cbn [my flip] in *.
    + exfalso. exact (pkko l r NlF NrF L p' q Hin Hko En).
    + exfalso. exact (RCkL p' q Hin Hko En).
    + destruct (CKP p' q Hin Hko En) as [Hva Hidx]. split; [|rewrite Hva; reflexivity].
      specialize (HB Hva). specialize (Hidx j Hp'). lia.
    + exfalso. exact (pkko l r NlF NrF R p' q Hin Hko En).
Qed.

Lemma Ph_same s st st' ds dt conv : RP st' = RP st -> Ph l r s st ds dt conv -> Ph l r s st' ds dt conv.
Proof. unfold Ph. intros ->. auto. Qed.

(* ---- the whole merger ---- *)
Theorem merger_mixed_summaryC res :
  (varargs l = None -> (length (Pz res) <= length (Pz l))%nat) ->
  merger l r = Ok res ->
  exists st, Pz res = RP st /\ kwoargs res = m_kwo st /\
             MInv l r L st (Pz l) /\ MInv l r R st (Pz r) /\
             (Ph l r L st (Pz l) (Pz r) [] \/ Ph l r R st (Pz r) (Pz l) []).
Proof.
  intros HB Hm.
  destruct (merger_walk l r Kl Kr Nl' Nr' res Hm)
    as (st3 & il & ir & st4 & st5 & st6 & pl & pr & E3 & Cl & Cr & E4 & E5 & E6 & G2 & G3 & G4 & GR5 & EP & EK).
  destruct (init_inv l r Kl Kr Nl' Nr') as (_ & _ & _ & Hk2).
  destruct (init_fields l r Nl' Nr') as (F1 & F2 & F3 & F4 & F5).
  set (sti := st_init l r) in *.
  assert (FRP : RP sti = []) by (unfold RP; rewrite F1, F2; reflexivity).
  assert (Mi : forall o, MInv l r o sti []).
  { intros o. constructor.
    - intros i c p _ Hp. destruct i; discriminate.
    - intros j p Hp. destruct j; discriminate.
    - intros q j p Hq Hp Hpk En. exfalso.
      assert (Hin : In p (pokargs (myS o))) by (apply (Pz_pk l r Kl Kr); [eapply nth_error_In; exact Hp|exact Hpk]).
      assert (Hko : In (pname q) (names_of (kwoargs (myS o)))).
      { destruct (Hk2 (pname q) (in_names _ _ Hq)). destruct o; assumption. }
      apply names_in in Hko. destruct Hko as [p2 [Hp2 E2]]. apply (pkko l r NlF NrF o p p2 Hin Hp2). congruence. }
  assert (Qi : EqL sti [] []) by (unfold EqL; rewrite FRP; auto).
  destruct (zip_pos_mixed l r Kl Kr NlF NrF (posargs l) (posargs r) (pokargs l) (pokargs r) sti st3 il ir [] []
              (incl_refl _) (incl_refl _) (incl_refl _) (incl_refl _) F2 eq_refl eq_refl Hk2 E3 Qi (Mi L) (Mi R))
    as [pl' [pr' (Cl' & Cr' & M3 & T3 & Z3 & Zm & K3)]].
  cbn [app] in M3, T3, Z3.
  assert (HP0 : Forall isPO (m_pos sti)) by (rewrite F1; constructor).
  destruct (zip_pos_frame l r Kl Kr (posargs l) (posargs r) (pokargs l) (pokargs r) sti st3 il ir
              (incl_refl _) (incl_refl _) E3 HP0) as (_ & _ & _ & U3).
  assert (Nil : NoDup (names_of il)).
  { pose proof (N_pk l r Nl' Nr' L) as H. cbn [my] in H. rewrite Cl', names_app in H. apply nodup_app_r in H. exact H. }
  assert (Nir : NoDup (names_of ir)).
  { pose proof (N_pk l r Nl' Nr' R) as H. cbn [my] in H. rewrite Cr', names_app in H. apply nodup_app_r in H. exact H. }
  assert (Hil : incl il (pokargs l)) by (rewrite Cl'; apply incl_appr; apply incl_refl).
  assert (Hir : incl ir (pokargs r)) by (rewrite Cr'; apply incl_appr; apply incl_refl).
  assert (Hk3 : HK l r st3) by (unfold HK; rewrite K3; exact Hk2).
  assert (Huk3 : UK l r st3).
  { intros o p Hp. destruct G3 as (_ & GL & GR & _). destruct o; [apply (g_fc _ _ _ _ GL)|apply (g_fc _ _ _ _ GR)]; exact Hp. }
  assert (Hl3 : Pz l = (posargs l ++ pl') ++ il) by (unfold Pz; rewrite <- app_assoc, <- Cl'; reflexivity).
  assert (Hr3 : Pz r = (posargs r ++ pr') ++ ir) by (unfold Pz; rewrite <- app_assoc, <- Cr'; reflexivity).
  destruct (zip_pok_mixedC il ir st3 st4 _ _ Nil Nir Hil Hir Hl3 Hr3 Hk3 Huk3 E4 Z3 M3 T3) as (M4 & T4 & P4).
  rewrite <- Hl3 in M4, P4. rewrite <- Hr3 in T4, P4.
  destruct G4 as (_ & GL4 & _ & _).
  destruct (unmatched_kwo_shape l r L st4 st5 E5) as (A5 & B5 & _ & _).
  destruct (unmatched_kwo_shape l r R st5 st6 E6) as (A6 & B6 & _ & _).
  assert (R5 : RP st5 = RP st4) by (unfold RP; rewrite A5, B5; reflexivity).
  assert (R6 : RP st6 = RP st5) by (unfold RP; rewrite A6, B6; reflexivity).
  assert (HB4 : varargs l = None -> (length (RP st4) <= length (Pz l))%nat).
  { intros Hv. specialize (HB Hv). unfold Pz in HB at 1. rewrite EP, R6, R5 in HB. exact HB. }
  assert (HB5 : varargs l = None -> (length (RP st5) <= length (Pz l))%nat) by (rewrite R5; exact HB4).
  destruct (unmatched_mixedC L st4 st5 L _ E5 GL4 HB4 M4) as [M5 _].
  destruct (unmatched_mixedC L st4 st5 R _ E5 GL4 HB4 T4) as [T5 _].
  destruct (unmatched_mixedC R st5 st6 L _ E6 GR5 HB5 M5) as [M6 _].
  destruct (unmatched_mixedC R st5 st6 R _ E6 GR5 HB5 T5) as [T6 _].
  exists st6. split; [exact EP|]. split; [exact EK|]. split; [exact M6|]. split; [exact T6|].
  assert (R64 : RP st6 = RP st4) by congruence.
  destruct P4 as [P4|P4]; [left|right]; exact (Ph_same _ _ _ _ _ _ R64 P4).
Qed.
End MC.

(* ================================================================== *)
(* 2. the relation towards the inputs already merged                   *)

Record SI (A S : sorted) : Prop := mkSI {
  si_sum : Sum A S;
  (* index by index: the result is at least as demanding, and names its parameter alike
     when it can still be passed by name *)
  si_al : forall i c p, nth_error (Pz A) i = Some c -> nth_error (Pz S) i = Some p -> rel c p;
  (* a shared positional name sits at the same index *)
  si_fi : forall i c j p, nth_error (Pz A) i = Some c -> nth_error (Pz S) j = Some p -> pname c = pname p -> i = j;
  (* a required positional parameter of S beyond the result's positional parameters was
     converted to a required keyword-only parameter *)
  si_lo : forall j p, nth_error (Pz S) j = Some p -> (length (Pz A) <= j)%nat -> has_def p = false ->
          pkind p = PK /\ exists q, In q (kwoargs A) /\ has_def q = false /\ pname q = pname p;
  (* a keyword-only parameter of the result named like a positional parameter of S *)
  si_ko : forall q j p, In q (kwoargs A) -> nth_error (Pz S) j = Some p -> pname p = pname q ->
          (length (Pz A) <= j)%nat /\ varargs A = None /\ pkind p = PK;
  si_ln : (length (Pz A) < length (Pz S))%nat -> varargs A = None
}.

Lemma named_nodup S : NoDup (names_of (flatten S)) -> NoDup (names_of (posargs S ++ pokargs S ++ kwoargs S)).
Proof.
  intros Hn. unfold flatten in Hn. rewrite !names_app in Hn. rewrite !names_app.
  rewrite !app_assoc in Hn. apply nodup_app_l in Hn. rewrite <- !app_assoc in Hn.
  rewrite (app_assoc (names_of (posargs S))) in Hn. apply nodup_drop_mid in Hn.
  rewrite <- app_assoc in Hn. exact Hn.
Qed.

Lemma nodup_Pz S : NoDup (names_of (flatten S)) -> NoDup (names_of (Pz S)).
Proof. intros H. apply named_nodup in H. rewrite app_assoc, names_app in H. apply nodup_app_l in H. exact H. Qed.

Lemma Pz_kwo_sep S p q : kinds_ok S -> NoDup (names_of (flatten S)) -> In p (Pz S) -> In q (kwoargs S) -> pname p <> pname q.
Proof.
  intros HK Hn Hp Hq. destruct (in_PA S HK p Hp) as [Fp Kp]. destruct (in_kwo_l S HK q Hq) as [Fq Kq].
  apply (flat_sep S p q Hn Fp Fq). rewrite Kq. destruct Kp as [-> | ->]; discriminate.
Qed.

Lemma SI_refl S : kinds_ok S -> NoDup (names_of (flatten S)) -> SI S S.
Proof.
  intros HK Hn. constructor.
  - apply Sum_refl. exact HK.
  - intros i c p Hc Hp. rewrite Hc in Hp. inversion Hp; subst. apply rel_self.
  - intros i c j p Hc Hp E. exact (nth_error_names_inj (Pz S) i j c p (nodup_Pz S Hn) Hc Hp E).
  - intros j p Hp Hj. assert (j < length (Pz S))%nat by (apply nth_error_Some; congruence). lia.
  - intros q j p Hq Hp E. exfalso. exact (Pz_kwo_sep S p q HK Hn (nth_error_In _ _ Hp) Hq E).
  - lia.
Qed.

Lemma rel_trans c a p : rel c a -> rel a p -> rel c p.
Proof.
  intros [A1 A2] [B1 B2]. split; [auto|]. intros Hc. destruct (A2 Hc) as [Ka Na]. destruct (B2 Ka) as [Kp Np].
  split; [exact Kp|congruence].
Qed.

Lemma skipn_index ps (p : param) n j :
  NoDup (names_of ps) -> In p (skipn n ps) -> nth_error ps j = Some p -> (n <= j)%nat.
Proof.
  intros Hn Hs Hj. destruct (in_skipn_nth n ps p Hs) as [j' [Hj' Hn']].
  assert (j' = j) by (apply (nth_error_names_inj ps j' j p p Hn Hn' Hj); reflexivity). lia.
Qed.

Section Step.
Variables l r s : sorted.
Hypothesis HKl : kinds_ok l.
Hypothesis HKr : kinds_ok r.
Hypothesis HKs : kinds_ok s.
Hypothesis HNl : NoDup (names_of (flatten l)).
Hypothesis HNr : NoDup (names_of (flatten r)).
Hypothesis HDl : dsuf (posl l).
Hypothesis HDr : dsuf (posl r).
Hypothesis HC : compatA l r.

(* what one step gives, read on the result *)
Record StepFacts (res : sorted) : Prop := {
  sf_mf : MF l r res;
  sf_suml : Sum res l;
  sf_sumr : Sum res r;
  sf_all : forall i c p, nth_error (Pz res) i = Some c -> nth_error (Pz l) i = Some p -> rel c p;
  sf_alr : forall i c p, nth_error (Pz res) i = Some c -> nth_error (Pz r) i = Some p -> rel c p;
  sf_lol : forall j p, nth_error (Pz l) j = Some p -> (length (Pz res) <= j)%nat -> has_def p = false ->
           pkind p = PK /\ exists q, In q (kwoargs res) /\ has_def q = false /\ pname q = pname p;
  sf_lor : forall j p, nth_error (Pz r) j = Some p -> (length (Pz res) <= j)%nat -> has_def p = false ->
           pkind p = PK /\ exists q, In q (kwoargs res) /\ has_def q = false /\ pname q = pname p;
  sf_lbl : isSome (varargs r) = true -> (length (Pz l) <= length (Pz res))%nat;
  sf_lbr : isSome (varargs l) = true -> (length (Pz r) <= length (Pz res))%nat
}.

Lemma pos_agree_both : forall o i j p q,
  nth_error (Pz (my l r o)) i = Some p -> nth_error (Pz (my l r (flip o))) j = Some q -> pname p = pname q -> i = j.
Proof.
  intros o i j p q Hp Hq E. destruct o; cbn [my flip] in *.
  - exact (c_pos l r HC i j p q Hp Hq E).
  - symmetry. exact (c_pos l r HC j i q p Hq Hp (eq_sym E)).
Qed.

Theorem step_facts res : merger l r = Ok res -> StepFacts res.
Proof.
  intros E. pose proof (merger_facts l r HKl HKr HNl HNr HDl HDr HC res E) as F.
  pose proof (named_nodup l HNl) as NlF. pose proof (named_nodup r HNr) as NrF.
  assert (Ql : Qacc l) by (split; [exact HKl|rewrite names_app in NlF; apply nodup_app_r in NlF; exact NlF]).
  assert (Qr : Qacc r) by (split; [exact HKr|rewrite names_app in NrF; apply nodup_app_r in NrF; exact NrF]).
  destruct (merger_Sum l r res Ql Qr E) as (Sl & Sr & _).
  assert (RCkL : forall p q, In p (pokargs l) -> In q (kwoargs r) -> pname p <> pname q).
  { intros p q Hp Hq. apply (c_pk' l r HC); [unfold posl; apply in_or_app; right; exact Hp|exact Hq]. }
  assert (CKP : forall p q, In p (pokargs r) -> In q (kwoargs l) -> pname p = pname q ->
            varargs l = None /\ forall j, nth_error (Pz r) j = Some p -> (length (Pz l) <= j)%nat).
  { intros p q Hp Hq En.
    assert (Hp' : In p (posl r)) by (unfold posl; apply in_or_app; right; exact Hp).
    destruct (c_kp l r HC q p Hq Hp' (eq_sym En)) as (_ & Hs & Hv). split; [exact Hv|].
    intros j Hj. exact (skipn_index (posl r) p _ j (nodup_Pz r HNr) Hs Hj). }
  destruct (merger_mixed_summaryC l r HKl HKr NlF NrF RCkL CKP pos_agree_both res
              (mf_bndl l r res F) E) as (st & EP & EK & [Mal Mlo _] & [Tal Tlo _] & PH).
  constructor; auto.
  - intros i c p Hc Hp. rewrite EP in Hc. exact (Mal i c p Hc Hp).
  - intros i c p Hc Hp. rewrite EP in Hc. exact (Tal i c p Hc Hp).
  - intros j p Hp Hj Hd. rewrite EP in Hj. rewrite EK. exact (Mlo j p Hp Hj Hd).
  - intros j p Hp Hj Hd. rewrite EP in Hj. rewrite EK. exact (Tlo j p Hp Hj Hd).
  - intros Hv. rewrite EP. destruct PH as [(A & B & C & D)|(A & B & C & D)]; cbn [my flip] in *.
    + destruct (Nat.lt_ge_cases (length (RP st)) (length (Pz l))) as [X|X]; [|exact X].
      destruct (C X) as [_ Y]. congruence.
    + exact A.
  - intros Hv. rewrite EP. destruct PH as [(A & B & C & D)|(A & B & C & D)]; cbn [my flip] in *.
    + exact A.
    + destruct (Nat.lt_ge_cases (length (RP st)) (length (Pz r))) as [X|X]; [|exact X].
      destruct (C X) as [_ Y]. congruence.
Qed.

Lemma res_va_some res : MF l r res -> varargs res <> None -> varargs l <> None /\ varargs r <> None.
Proof.
  intros F H. split; intros X; apply H; apply (mf_va_none l r res F); auto.
Qed.

Lemma isSome_ne {A} (o : option A) : o <> None -> isSome o = true.
Proof. destruct o; [reflexivity|congruence]. Qed.

(* the new input *)
Theorem step_SI_new res : merger l r = Ok res -> SI res r.
Proof.
  intros E. destruct (step_facts res E) as [F Sl Sr Al Ar Lol Lor Lbl Lbr].
  pose proof (nodup_Pz r HNr) as NPr. pose proof (nodup_Pz l HNl) as NPl.
  constructor.
  - exact Sr.
  - exact Ar.
  - intros i c j p Hc Hp En. destruct (mf_faith l r res F i c Hc) as [[a [Ha Na]]|[b [Hb Nb]]].
    + apply (c_pos l r HC i j a p Ha Hp). congruence.
    + apply (nth_error_names_inj (Pz r) i j b p NPr Hb Hp). congruence.
  - exact Lor.
  - intros q j p Hq Hp En. pose proof (nth_error_In _ _ Hp) as Hpin.
    destruct (mf_kwo l r res F q Hq) as [H|[H|[H|H]]].
    + apply in_map_iff in H. destruct H as [q0 [E0 H0]].
      destruct (c_kp l r HC q0 p H0 Hpin) as (X1 & X2 & X3); [congruence|].
      pose proof (skipn_index (posl r) p _ j NPr X2 Hp) as Hj.
      split; [pose proof (mf_bndl l r res F X3); unfold posl, Pz in *; lia|].
      split; [apply (mf_va_none l r res F); left; exact X3|exact X1].
    + exfalso. apply in_map_iff in H. destruct H as [q0 [E0 H0]].
      apply (Pz_kwo_sep r p q0 HKr HNr Hpin H0). congruence.
    + exfalso. destruct H as [Hv [e [Hs [He Ne]]]].
      destruct (in_skipn_nth _ _ _ Hs) as [i [Hi Hn]].
      assert (i = j) by (apply (c_pos l r HC i j e p Hn Hp); congruence). subst i.
      assert (j < length (Pz r))%nat by (apply nth_error_Some; congruence). unfold Pz in *. lia.
    + destruct H as [Hv [e [Hs [He Ne]]]].
      destruct (in_skipn_nth _ _ _ Hs) as [i [Hi Hn]].
      assert (i = j) by (apply (nth_error_names_inj (Pz r) i j e p NPr Hn Hp); congruence). subst i.
      assert (e = p) by (unfold Pz in Hp; congruence). subst e.
      split; [pose proof (mf_bndl l r res F Hv); unfold posl, Pz in *; lia|].
      split; [apply (mf_va_none l r res F); left; exact Hv|].
      destruct HKr as (_ & K2 & _). rewrite Forall_forall in K2. exact (K2 p He).
  - intros Hlt. destruct (varargs res) eqn:Ev; [|reflexivity]. exfalso.
    destruct (res_va_some res F) as [X _]; [congruence|]. pose proof (Lbr (isSome_ne _ X)). lia.
Qed.

(* an input merged earlier *)
Hypothesis HS : SI l s.
Hypothesis RD1 : pos_agree (posl s) (posl r).
Hypothesis RD2 : forall p q, In p (flatten s) -> In q (flatten r) -> pname p = pname q -> pkind p = pkind q.

Theorem step_SI_old res : merger l r = Ok res -> SI res s.
Proof.
  intros E. destruct (step_facts res E) as [F Sl Sr Al Ar Lol Lor Lbl Lbr].
  destruct HS as [S0 Sal Sfi Slo Sko Sln].
  constructor.
  - exact (Sum_trans _ _ _ HKl Sl S0).
  - intros i c p Hc Hp. destruct (nth_error (Pz l) i) as [a|] eqn:Ea.
    + exact (rel_trans c a p (Al i c a Hc Ea) (Sal i a p Ea Hp)).
    + exfalso. apply nth_error_None in Ea.
      assert (Hi : (i < length (Pz s))%nat) by (apply nth_error_Some; congruence).
      assert (Hv : varargs l = None) by (apply Sln; lia).
      pose proof (mf_bndl l r res F Hv) as Hb.
      assert (Hi' : (i < length (Pz res))%nat) by (apply nth_error_Some; congruence).
      unfold posl, Pz in *. lia.
  - intros i c j p Hc Hp En. destruct (mf_faith l r res F i c Hc) as [[a [Ha Na]]|[b [Hb Nb]]].
    + apply (Sfi i a j p Ha Hp). congruence.
    + symmetry. apply (RD1 j i p b Hp Hb). congruence.
  - intros j p Hp Hj Hd. destruct (nth_error (Pz l) j) as [a|] eqn:Ea.
    + destruct (Sal j a p Ea Hp) as [R1 R2].
      destruct (Lol j a Ea Hj (R1 Hd)) as [Ka [q [Hq [Dq Nq]]]]. destruct (R2 Ka) as [Kp Np].
      split; [exact Kp|]. exists q. split; [exact Hq|]. split; [exact Dq|congruence].
    + apply nth_error_None in Ea. destruct (Slo j p Hp Ea Hd) as [Kp [q0 [Hq0 [Dq0 Nq0]]]].
      split; [exact Kp|]. destruct (u_ko _ _ Sl q0 Hq0 Dq0) as [q [Hq [Dq Nq]]].
      exists q. split; [exact Hq|]. split; [exact Dq|congruence].
  - intros q j p Hq Hp En. pose proof (nth_error_In _ _ Hp) as Hpin.
    destruct (in_PA s HKs p Hpin) as [Fp Kp].
    destruct (mf_kwo l r res F q Hq) as [H|[H|[H|H]]].
    + apply in_map_iff in H. destruct H as [q0 [E0 H0]].
      destruct (Sko q0 j p H0 Hp) as (X1 & X2 & X3); [congruence|].
      split; [pose proof (mf_bndl l r res F X2); unfold posl, Pz in *; lia|].
      split; [apply (mf_va_none l r res F); left; exact X2|exact X3].
    + exfalso. apply in_map_iff in H. destruct H as [q0 [E0 H0]].
      destruct (in_kwo_l r HKr q0 H0) as [Fq Kq].
      assert (X : pkind p = pkind q0) by (apply RD2; congruence). rewrite Kq in X. destruct Kp; congruence.
    + destruct H as [Hv [e [Hs [He Ne]]]].
      destruct (in_skipn_nth _ _ _ Hs) as [i [Hi Hn]].
      assert (i = j) by (apply (Sfi i e j p Hn Hp); congruence). subst i.
      destruct (Sal j e p Hn Hp) as [_ R2].
      assert (Ke : pkind e = PK) by (destruct HKl as (_ & K2 & _); rewrite Forall_forall in K2; exact (K2 e He)).
      split; [pose proof (mf_bndr l r res F Hv); unfold posl, Pz in *; lia|].
      split; [apply (mf_va_none l r res F); right; exact Hv|apply (R2 Ke)].
    + destruct H as [Hv [e [Hs [He Ne]]]].
      destruct (in_skipn_nth _ _ _ Hs) as [i [Hi Hn]].
      assert (j = i) by (apply (RD1 j i p e Hp Hn); congruence). subst i.
      assert (Ke : pkind e = PK) by (destruct HKr as (_ & K2 & _); rewrite Forall_forall in K2; exact (K2 e He)).
      assert (Fe : In e (flatten r)) by (apply (in_PA r HKr e (nth_error_In _ _ Hn))).
      split; [pose proof (mf_bndl l r res F Hv); unfold posl, Pz in *; lia|].
      split; [apply (mf_va_none l r res F); left; exact Hv|].
      rewrite (RD2 p e Fp Fe) by congruence. exact Ke.
  - intros Hlt. destruct (varargs res) eqn:Ev; [|reflexivity]. exfalso.
    destruct (res_va_some res F) as [X Y]; [congruence|]. pose proof (Lbl (isSome_ne _ Y)).
    destruct (Nat.lt_ge_cases (length (Pz l)) (length (Pz s))) as [Z|Z]; [apply X; apply Sln; exact Z|lia].
Qed.
End Step.

(* ================================================================== *)
(* 3. the relation forces soundness for non-colliding calls            *)

Theorem si_sound A S n ks :
  kinds_ok A -> kinds_ok S -> NoDup (names_of (flatten A)) -> NoDup (names_of (flatten S)) ->
  SI A S ->
  (forall k, In k ks -> In k (names_of (Pz S)) -> kwpassable_name (flatten A) k = true) ->
  accepts (flatten A) (mkCall n ks) = true -> accepts (flatten S) (mkCall n ks) = true.
Proof.
  intros KA KS NA NS [HSum Sal Sfi Slo Sko Sln] Hnc H.
  destruct HSum as [Uva Uvk _ U3 _ Uc Uko].
  pose proof (kinds_ok_wk _ KA) as Wr. pose proof (kinds_ok_wk _ KS) as Wo.
  pose proof (named_nodup S NS) as No.
  assert (NPo : NoDup (names_of (Pz S ++ kwoargs S))) by (unfold Pz; rewrite <- app_assoc; exact No).
  pose proof (nodup_Pz S NS) as NPzo. pose proof (nodup_Pz A NA) as NPr.
  rewrite (accepts_closed A n ks Wr) in H. rewrite (accepts_closed S n ks Wo).
  apply andb_true_iff in H. destruct H as [H H4]. apply andb_true_iff in H. destruct H as [H H3].
  apply andb_true_iff in H. destruct H as [H1 H2].
  rewrite forallb_forall in H2, H4. rewrite forallb_skipn_nth in H3.
  apply andb_true_iff. split; [apply andb_true_iff; split; [apply andb_true_iff; split|]|].
  - (* enough positional slots *)
    apply orb_true_iff in H1. apply orb_true_iff. destruct H1 as [H1|H1].
    + destruct U3 as [U3|U3]; [|right; exact U3]. left. apply Nat.leb_le. apply Nat.leb_le in H1. lia.
    + right. apply Uva. exact H1.
  - (* every keyword is bound *)
    apply forallb_forall. intros k Hk. pose proof (H2 k Hk) as Hok.
    apply (kw_ok_intro S n k Wo NPo).
    destruct (in_dec N.eq_dec k (names_of (Pz S))) as [Hin|Hnot].
    + left. pose proof (Hnc k Hk Hin) as Hkp. apply names_in in Hin. destruct Hin as [p [Hp En]].
      destruct (In_nth_error _ _ Hp) as [j Hj]. exists j, p. split; [exact Hj|]. split; [exact En|]. left.
      destruct (kwpassable_name_inv A k Wr Hkp) as [[q [Hq [Hqk Hqn]]]|[q [Hq Hqn]]].
      * (* positional-or-keyword in the result: same index, hence same parameter *)
        destruct (In_nth_error _ _ Hq) as [i Hi].
        assert (Hni : (n <= i)%nat) by (apply (kw_ok_pk_idx A n i q Wr NPr Hi Hqk); rewrite Hqn; exact Hok).
        assert (i = j) by (apply (Sfi i q j p Hi Hj); congruence). subst i.
        destruct (Sal j q p Hi Hj) as [_ R2]. destruct (R2 Hqk) as [Kp _]. split; [exact Kp|exact Hni].
      * (* keyword-only in the result: it was converted, the call passes at most that many positionals *)
        destruct (Sko q j p Hq Hj) as (Hlen & Hv & Kp); [congruence|]. split; [exact Kp|].
        apply orb_true_iff in H1. destruct H1 as [H1|H1]; [apply Nat.leb_le in H1; lia|rewrite Hv in H1; discriminate].
    + right. split; [exact Hnot|].
      destruct (kw_ok_inv A n k Wr Hok) as [Hv|[[q [Hq [Hqk Hqn]]]|Hn]].
      * right. auto.
      * destruct (Uc q (or_introl (conj Hq Hqk))) as [Hc|Hc]; [|right; exact Hc].
        rewrite Hqn, names_app in Hc. apply in_app_or in Hc. destruct Hc as [Hc|Hc]; [|left; exact Hc].
        exfalso. apply Hnot. unfold Pz. rewrite names_app. apply in_or_app. right. exact Hc.
      * apply names_in in Hn. destruct Hn as [q [Hq Hqn]].
        destruct (Uc q (or_intror Hq)) as [Hc|Hc]; [|right; exact Hc].
        rewrite Hqn, names_app in Hc. apply in_app_or in Hc. destruct Hc as [Hc|Hc]; [|left; exact Hc].
        exfalso. apply Hnot. unfold Pz. rewrite names_app. apply in_or_app. right. exact Hc.
  - (* the positional parameters not filled positionally *)
    apply forallb_skipn_nth. intros j p Hj Hnj. destruct (has_def p) eqn:Hd; [reflexivity|]. cbn [orb].
    destruct (nth_error (Pz A) j) as [c|] eqn:Ec.
    + destruct (Sal j c p Ec Hj) as [R1 R2].
      pose proof (H3 j c Ec Hnj) as X. rewrite (R1 Hd) in X. cbn [orb] in X.
      apply andb_true_iff in X. destruct X as [X1 X2].
      assert (Hck : pkind c = PK).
      { unfold is_kind, kind_eqb in X1. destruct (pkind c); try discriminate; reflexivity. }
      destruct (R2 Hck) as [Rk Rn]. unfold is_kind. rewrite Rk, Rn. exact X2.
    + apply nth_error_None in Ec. destruct (Slo j p Hj Ec Hd) as [Hpk [q [Hq [Hqd Hqn]]]].
      pose proof (H4 q Hq) as X. rewrite Hqd in X. cbn [orb] in X.
      unfold is_kind. rewrite Hpk, <- Hqn. exact X.
  - (* the keyword-only parameters *)
    apply forallb_forall. intros p Hp. destruct (has_def p) eqn:Hd; [reflexivity|]. cbn [orb].
    destruct (Uko p Hp Hd) as [q [Hq [Hqd Hqn]]].
    pose proof (H4 q Hq) as X. rewrite Hqd in X. cbn [orb] in X. rewrite <- Hqn. exact X.
Qed.

(* ================================================================== *)
(* 4. the fold                                                         *)

Lemma Wacc_nodup acc : Wacc acc -> NoDup (names_of (flatten acc)).
Proof. intros [_ V]. apply validate_nodup. exact V. Qed.

Lemma fold_SI rest : forall acc done accN,
  Wacc acc -> all_valid done -> all_valid rest ->
  Forall (fun d => compatA acc (sort_params d)) rest ->
  Forall (fun s => SI acc (sort_params s)) done ->
  role_consistent (map params rest) = true ->
  (forall s d, In s done -> In d rest -> roles_agree (params s) (params d) = true) ->
  merge_steps acc rest = Ok accN ->
  Forall (fun s => SI accN (sort_params s)) (done ++ rest) /\ Wacc accN.
Proof.
  induction rest as [|c rest IH]; intros acc done accN HW Vd Vr Cr Sd Hrc Hag E; cbn [merge_steps] in E.
  - inversion E; subst accN. rewrite app_nil_r. auto.
  - apply bind_ok in E. destruct E as [acc1 [E1 E2]]. apply to_incompatible_ok in E1.
    inversion Vr as [|? ? Vc Vr']; subst. inversion Cr as [|? ? Cc Cr']; subst. cbn [map] in Hrc.
    destruct (fold_step acc c rest acc1 HW Vc Vr' Cc Cr' Hrc E1) as [HW1 Cr1].
    pose proof HW as [Ka Va]. pose proof (Wacc_nodup acc HW) as Na. pose proof (dsuf_of_validate acc Ka Va) as Da.
    pose proof (sort_params_kinds c) as Kc. pose proof (sort_flatten_roundtrip c Vc) as Fc.
    assert (Nc : NoDup (names_of (flatten (sort_params c)))).
    { rewrite Fc. apply validate_nodup. apply (valid_sig_parts _ Vc). }
    pose proof (dsuf_of_valid c Vc) as Dc.
    assert (Sd1 : Forall (fun s => SI acc1 (sort_params s)) (done ++ [c])).
    { apply Forall_app. split.
      - apply Forall_forall. intros s Hs. rewrite Forall_forall in Sd. unfold all_valid in Vd. rewrite Forall_forall in Vd.
        pose proof (Hag s c Hs (or_introl eq_refl)) as Hsc.
        exact (step_SI_old acc (sort_params c) (sort_params s) Ka Kc (sort_params_kinds s) Na Nc Da Dc Cc (Sd s Hs)
                 (orig_pos s c (Vd s Hs) Vc Hsc) (orig_kinds s c (Vd s Hs) Vc Hsc) acc1 E1).
      - constructor; [|constructor].
        exact (step_SI_new acc (sort_params c) Ka Kc Na Nc Da Dc Cc acc1 E1). }
    destruct (rc_cons _ _ Hrc) as [Hcr Hrc'].
    destruct (IH acc1 (done ++ [c]) accN HW1) as [X Y]; auto.
    + apply Forall_app. split; [exact Vd|constructor; [exact Vc|constructor]].
    + intros s d Hs Hd. apply in_app_or in Hs. destruct Hs as [Hs|[<-|[]]]; [apply Hag; [exact Hs|right; exact Hd]|].
      rewrite Forall_forall in Hcr. apply (Hcr (params d)). apply in_map. exact Hd.
    + rewrite <- app_assoc in X. cbn [app] in X. auto.
Qed.

(* ---- C01_mixed: every non-colliding call, any number of inputs ---- *)
Theorem merge_sound_mixed_n ss r c :
  all_valid ss -> role_consistent (map params ss) = true ->
  merge ss = Ok r ->
  noncolliding c (params r) (map params ss) = true ->
  accepts (params r) c = true ->
  Forall (fun s => accepts (params s) c = true) ss.
Proof.
  intros V Hrc Hm Hnc Hc. destruct ss as [|s0 rest]; [constructor|].
  cbn [merge] in Hm. apply bind_ok in Hm. destruct Hm as [accN [E1 E2]].
  inversion V as [|? ? V0 Vr]; subst. cbn [map] in Hrc. destruct (rc_cons _ _ Hrc) as [H0r Hrc'].
  assert (Hr : params r = flatten accN).
  { unfold apply_params in E2. destruct (validate (flatten accN)); inversion E2; reflexivity. }
  pose proof (Wacc_input s0 V0) as HW0.
  assert (S0 : SI (sort_params s0) (sort_params s0)).
  { apply SI_refl; [apply sort_params_kinds|]. rewrite (sort_flatten_roundtrip s0 V0). apply validate_nodup.
    apply (valid_sig_parts _ V0). }
  destruct (fold_SI rest (sort_params s0) [s0] accN HW0 (Forall_cons _ V0 (Forall_nil _)) Vr
              (compat_inputs s0 rest V0 Vr Hrc) (Forall_cons _ S0 (Forall_nil _)) Hrc') as [HS HWN]; [| exact E1 |].
  { intros s d [<-|[]] Hd. rewrite Forall_forall in H0r. apply (H0r (params d)). apply in_map. exact Hd. }
  cbn [app] in HS. rewrite Hr in Hc, Hnc. destruct c as [n ks].
  apply Forall_forall. intros s Hs. rewrite Forall_forall in HS. pose proof (HS s Hs) as HSs.
  assert (Vs : valid_sig (params s) = true) by (unfold all_valid in V; rewrite Forall_forall in V; exact (V s Hs)).
  pose proof (sort_flatten_roundtrip s Vs) as Fs.
  rewrite <- Fs. apply (si_sound accN (sort_params s) n ks (proj1 HWN) (sort_params_kinds s) (Wacc_nodup _ HWN)); auto.
  - rewrite Fs. apply validate_nodup. apply (valid_sig_parts _ Vs).
  - intros k Hk Hin. unfold noncolliding in Hnc. cbn [kws] in Hnc. rewrite forallb_forall in Hnc. specialize (Hnc k Hk).
    apply orb_true_iff in Hnc. destruct Hnc as [X|X]; [exact X|]. exfalso.
    apply negb_true_iff in X. apply mem_false_In in X. apply X. unfold all_names. apply in_flat_map.
    exists (params s). split; [apply in_map; exact Hs|]. rewrite <- Fs.
    apply names_in in Hin. destruct Hin as [p [Hp <-]]. apply in_names.
    apply (in_PA (sort_params s) (sort_params_kinds s) p Hp).
Qed.

(* the same through the nested form merge(merge(a, b), c)... (equal to the fold for
   role-consistent inputs, RcValidN.v) *)
Corollary merge_nested_sound_mixed_n ss r c :
  all_valid ss -> role_consistent (map params ss) = true ->
  merge_nested ss = Ok r ->
  noncolliding c (params r) (map params ss) = true ->
  accepts (params r) c = true ->
  Forall (fun s => accepts (params s) c = true) ss.
Proof.
  intros V Hrc Hm. rewrite (merge_nested_eq_rc ss V Hrc) in Hm. exact (merge_sound_mixed_n ss r c V Hrc Hm).
Qed.

(* non-vacuity: three inputs whose first step converts a positional-or-keyword parameter to
   keyword-only, so that the accumulator is not role-consistent with the third input
   (names x=1 y=2 kw=10) *)
Example merge_sound_mixed_n_example :
  let a := mkSig [mkParam 1 PK None None UEmpty; mkParam 2 PK None None UEmpty] None UEmpty [] [] in
  let b := mkSig [mkParam 1 PK None None UEmpty; mkParam 10 VK None None UEmpty] None UEmpty [] [] in
  let c := mkSig [mkParam 1 PK None None UEmpty; mkParam 2 PK None None UEmpty] None UEmpty [] [] in
  let call := mkCall 1 [2] in
  all_valid [a; b; c] /\ role_consistent (map params [a; b; c]) = true /\
  (exists r1, merge [a; b] = Ok r1 /\ role_consistent [params r1; params c] = false) /\
  exists r, merge [a; b; c] = Ok r /\ noncolliding call (params r) (map params [a; b; c]) = true /\
            accepts (params r) call = true /\
            accepts (params a) call = true /\ accepts (params b) call = true /\ accepts (params c) call = true.
Proof.
  cbv zeta. split; [repeat constructor|]. split; [vm_compute; reflexivity|]. split.
  - eexists. split; vm_compute; reflexivity.
  - eexists. split; [vm_compute; reflexivity|]. repeat split; vm_compute; reflexivity.
Qed.

Print Assumptions merger_mixed_summaryC.
Print Assumptions step_SI_new.
Print Assumptions step_SI_old.
Print Assumptions si_sound.
Print Assumptions merge_sound_mixed_n.
Print Assumptions merge_nested_sound_mixed_n.
Print Assumptions merge_sound_mixed_n_example.
