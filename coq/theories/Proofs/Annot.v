(* Proofs/Annot.v — C11: annotations are carried, never re-wrapped.

   Part 1 (Section Closed): a generic invariant walk through the whole algebra.
   For any predicate P on parameters that is closed under set_kind, set_def,
   concile and holds for the fresh keyword-only parameter a partial creates,
   every parameter of every Ok result of merge / embed / mask_gen / forwards /
   sig_partial satisfies P as soon as every input parameter does.  (mask_gen and
   sig_partial do not need closure under concile.)
   Part 2: instances — the (raw, upgraded) annotation pair of a result parameter
   occurs on an input parameter or is (None, UEmpty); defining context
   preserved; annotate; evaluated.
   Part 3: the twin (PEP 563) theorem and its refutation witnesses. *)
From Coq Require Import List NArith Bool Arith Lia.
From Sigtools.Model Require Import Base Bind Algebra Annot.
From Sigtools.Proofs Require Import Basics.
Import ListNotations.
Open Scope N_scope.

(* ------------------------------------------------------------------ *)
(* small list facts *)
Lemma Forall_filter' {A} (P : A -> Prop) f (l : list A) : Forall P l -> Forall P (filter f l).
Proof.
  induction 1 as [|x l Hx Hl IH]; simpl; [constructor|].
  destruct (f x); [constructor|]; assumption.
Qed.

Lemma Forall_skipn' {A} (P : A -> Prop) n : forall (l : list A), Forall P l -> Forall P (skipn n l).
Proof.
  induction n as [|n IH]; intros l H; simpl; [exact H|].
  destruct l as [|x l]; [constructor|]. inversion H; subst. apply IH; assumption.
Qed.

Lemma Forall_app_intro {A} (P : A -> Prop) (a b : list A) : Forall P a -> Forall P b -> Forall P (a ++ b).
Proof. intros Ha Hb. apply Forall_app. split; assumption. Qed.

Lemma Forall_one {A} (P : A -> Prop) (x : A) : P x -> Forall P [x].
Proof. intros H. constructor; [exact H | constructor]. Qed.

Section Closed.
Variable P : param -> Prop.
Hypothesis P_kind : forall k p, P p -> P (set_kind k p).
Hypothesis P_def : forall d p, P p -> P (set_def d p).
Hypothesis P_conc : forall a b, P a -> P b -> P (concile a b).
Hypothesis P_fresh : forall x d, P (mkParam x KO d None UEmpty).

Definition optP (o : option param) : Prop := match o with Some p => P p | None => True end.

Definition sortedP (s : sorted) : Prop :=
  Forall P (posargs s) /\ Forall P (pokargs s) /\ optP (varargs s) /\
  Forall P (kwoargs s) /\ optP (varkwargs s).

Lemma od_set_P d p : Forall P d -> P p -> Forall P (od_set d p).
Proof.
  intros Hd Hp. induction Hd as [|q d Hq Hd IH]; simpl.
  - apply Forall_one; exact Hp.
  - destruct (N.eqb (pname p) (pname q)); constructor; assumption.
Qed.

Lemma od_update_P ps : forall d, Forall P d -> Forall P ps -> Forall P (od_update d ps).
Proof.
  unfold od_update. induction ps as [|p ps IH]; intros d Hd Hps; simpl; [exact Hd|].
  inversion Hps; subst. apply IH; [apply od_set_P|]; assumption.
Qed.

Lemma find_param_P x ps q : Forall P ps -> find_param x ps = Some q -> P q.
Proof.
  induction 1 as [|p ps Hp Hps IH]; simpl; [discriminate|].
  destruct (N.eqb x (pname p)); intros E; [inversion E; subst; exact Hp | exact (IH E)].
Qed.

Lemma remove_param_P x ps : Forall P ps -> Forall P (remove_param x ps).
Proof.
  induction 1 as [|p ps Hp Hps IH]; simpl; [constructor|].
  destruct (N.eqb x (pname p)); [|constructor]; assumption.
Qed.

Lemma split_at_name_P x ps : forall a q b, Forall P ps -> split_at_name x ps = Some (a, q, b) ->
  Forall P a /\ P q /\ Forall P b.
Proof.
  induction ps as [|p ps IH]; intros a q b H; simpl; [discriminate|].
  inversion H as [|p' ps' Hp Hps]; subst.
  destruct (N.eqb x (pname p)).
  - intros E; inversion E; subst. repeat split; [constructor | assumption | assumption].
  - destruct (split_at_name x ps) as [[[a' q'] b']|] eqn:E'; [|discriminate].
    intros E; inversion E; subst. destruct (IH _ _ _ Hps eq_refl) as [Ha [Hq Hb]].
    repeat split; [constructor|idtac|idtac]; assumption.
Qed.

Lemma map_kind_P k ps : Forall P ps -> Forall P (map (set_kind k) ps).
Proof. induction 1; simpl; constructor; auto. Qed.

Lemma map_def_P d ps : Forall P ps -> Forall P (map (set_def d) ps).
Proof. induction 1; simpl; constructor; auto. Qed.

Lemma optP_opt_list o : optP o -> Forall P (opt_list o).
Proof. destruct o; simpl; intros H; [apply Forall_one; exact H | constructor]. Qed.

Lemma sort_aux_P ps : forall acc, Forall P ps -> sortedP acc -> sortedP (sort_aux ps acc).
Proof.
  induction ps as [|p ps IH]; intros acc Hps Hacc; simpl; [exact Hacc|].
  inversion Hps as [|p' ps' Hp Hps']; subst. apply IH; [exact Hps'|].
  destruct Hacc as [H1 [H2 [H3 [H4 H5]]]].
  destruct (pkind p); unfold sortedP; simpl; repeat split; try assumption.
  - apply Forall_app_intro; [assumption | apply Forall_one; assumption].
  - apply Forall_app_intro; [assumption | apply Forall_one; assumption].
  - apply od_set_P; assumption.
Qed.

Lemma sort_params_P s : Forall P (params s) -> sortedP (sort_params s).
Proof.
  intros H. unfold sort_params. apply sort_aux_P; [exact H|].
  unfold sortedP; simpl. repeat split; constructor.
Qed.

Lemma flatten_P s : sortedP s -> Forall P (flatten s).
Proof.
  intros [H1 [H2 [H3 [H4 H5]]]]. unfold flatten.
  repeat apply Forall_app_intro; try assumption; apply optP_opt_list; assumption.
Qed.

Lemma apply_params_P base s r : sortedP s -> apply_params base s = Ok r -> Forall P (params r).
Proof.
  intros Hs. unfold apply_params. destruct (validate (flatten s)); intros E; inversion E; subst.
  simpl. apply flatten_P; exact Hs.
Qed.

(* ---- the merger state ---- *)
Definition stP (st : mstate) : Prop :=
  Forall P (m_pos st) /\ Forall P (m_pok st) /\ Forall P (m_kwo st) /\
  Forall P (m_lunm st) /\ Forall P (m_runm st).

Lemma stP_set_src st v : stP st -> stP (set_src st v).
Proof. exact (fun H => H). Qed.
Lemma stP_add_src1 l r st x s : stP st -> stP (add_src1 l r st x s).
Proof. exact (fun H => H). Qed.
Lemma stP_add_src2 l r st x a b : stP st -> stP (add_src2 l r st x a b).
Proof. exact (fun H => H). Qed.
Lemma stP_excl_va st s : stP st -> stP (excl_va st s).
Proof. destruct s; exact (fun H => H). Qed.
Lemma stP_excl_vk st s : stP st -> stP (excl_vk st s).
Proof. destruct s; exact (fun H => H). Qed.
Lemma stP_set_pos st v : stP st -> Forall P v -> stP (set_pos st v).
Proof. intros [H1 [H2 [H3 [H4 H5]]]] Hv. unfold stP; simpl. repeat split; assumption. Qed.
Lemma stP_set_pok st v : stP st -> Forall P v -> stP (set_pok st v).
Proof. intros [H1 [H2 [H3 [H4 H5]]]] Hv. unfold stP; simpl. repeat split; assumption. Qed.
Lemma stP_set_kwo st v : stP st -> Forall P v -> stP (set_kwo st v).
Proof. intros [H1 [H2 [H3 [H4 H5]]]] Hv. unfold stP; simpl. repeat split; assumption. Qed.
Lemma stP_set_unm st s v : stP st -> Forall P v -> stP (set_unm st s v).
Proof. intros [H1 [H2 [H3 [H4 H5]]]] Hv. destruct s; unfold stP; simpl; repeat split; assumption. Qed.
Lemma stP_unm st s : stP st -> Forall P (unm st s).
Proof. intros [H1 [H2 [H3 [H4 H5]]]]. destruct s; simpl; assumption. Qed.
Lemma stP_pos st : stP st -> Forall P (m_pos st). Proof. intros H; apply H. Qed.
Lemma stP_pok st : stP st -> Forall P (m_pok st). Proof. intros H; apply H. Qed.
Lemma stP_kwo st : stP st -> Forall P (m_kwo st). Proof. intros H; apply H. Qed.

Lemma sortedP_my l r s : sortedP l -> sortedP r -> sortedP (my l r s).
Proof. destruct s; auto. Qed.
Lemma sortedP_other l r s : sortedP l -> sortedP r -> sortedP (other l r s).
Proof. destruct s; auto. Qed.

Lemma kwo_match_P l r lk : forall st, sortedP r -> Forall P lk -> stP st -> stP (kwo_match l r lk st).
Proof.
  induction lk as [|p lk IH]; intros st Hr Hlk Hst; simpl; [exact Hst|].
  inversion Hlk as [|p' lk' Hp Hlk']; subst. apply IH; [exact Hr | exact Hlk' |].
  destruct (find_param (pname p) (kwoargs r)) as [q|] eqn:E.
  - apply stP_set_src. apply stP_set_kwo; [exact Hst|].
    apply od_set_P; [apply stP_kwo; exact Hst|]. apply P_conc; [exact Hp|].
    eapply find_param_P; [|exact E]. apply Hr.
  - apply (stP_set_unm st L _ Hst). apply od_set_P; [|exact Hp]. apply (stP_unm st L); exact Hst.
Qed.

Lemma r_unmatched_P l r : sortedP r -> Forall P (r_unmatched l r).
Proof. intros Hr. unfold r_unmatched. apply Forall_filter'. apply Hr. Qed.

Lemma unb_pos1_P l r s e conv st st' conv' :
  P e -> Forall P conv -> stP st -> unb_pos1 l r s e conv st = Ok (st', conv') ->
  stP st' /\ Forall P conv'.
Proof.
  intros He Hconv Hst. unfold unb_pos1. destruct conv as [|o conv].
  - destruct (isSome (varargs (other l r s))).
    + intros E; inversion E; subst. split; [|constructor].
      apply stP_excl_va. apply stP_add_src1. apply stP_set_pos; [exact Hst|].
      apply Forall_app_intro; [apply stP_pos; exact Hst | apply Forall_one; exact He].
    + destruct (negb (has_def e)); [discriminate|]. intros E; inversion E; subst.
      split; [exact Hst | constructor].
  - inversion Hconv as [|o' conv'' Ho Hc]; subst.
    intros E; inversion E; subst. split; [|exact Hc].
    assert (H1 : stP (set_pos st (m_pos st ++ [concile e o]))).
    { apply stP_set_pos; [exact Hst|]. apply Forall_app_intro; [apply stP_pos; exact Hst|].
      apply Forall_one. apply P_conc; assumption. }
    destruct (N.eqb (pname o) (pname e)); [apply stP_add_src2 | apply stP_add_src1]; exact H1.
Qed.

Lemma unb_pos_all_P l r s ps : forall conv st st' conv',
  Forall P ps -> Forall P conv -> stP st -> unb_pos_all l r s ps conv st = Ok (st', conv') ->
  stP st' /\ Forall P conv'.
Proof.
  induction ps as [|p ps IH]; intros conv st st' conv' Hps Hconv Hst; simpl.
  - intros E; inversion E; subst. split; assumption.
  - inversion Hps as [|p' ps' Hp Hps']; subst. intros E.
    apply bind_ok in E. destruct E as [[st1 conv1] [E1 E2]].
    destruct (unb_pos1_P _ _ _ _ _ _ _ _ Hp Hconv Hst E1) as [Hst1 Hc1].
    simpl in E2. eapply IH; eauto.
Qed.

Lemma zip_pos_P l r lp : forall rp il ir st st' il' ir',
  Forall P lp -> Forall P rp -> Forall P il -> Forall P ir -> stP st ->
  zip_pos l r lp rp il ir st = Ok (st', il', ir') ->
  stP st' /\ Forall P il' /\ Forall P ir'.
Proof.
  induction lp as [|a lp IH]; intros rp il ir st st' il' ir' Hlp Hrp Hil Hir Hst.
  - simpl. intros E. apply bind_ok in E. destruct E as [[st1 c1] [E1 E2]].
    simpl in E2. inversion E2; subst.
    destruct (unb_pos_all_P _ _ _ _ _ _ _ _ Hrp Hil Hst E1) as [H1 H2].
    split; [assumption | split; assumption].
  - destruct rp as [|b rp].
    + simpl. intros E. apply bind_ok in E. destruct E as [[st1 c1] [E1 E2]].
      simpl in E2. inversion E2; subst.
      destruct (unb_pos_all_P _ _ _ _ _ _ _ _ Hlp Hir Hst E1) as [H1 H2].
      split; [assumption | split; assumption].
    + simpl. inversion Hlp as [|a' lp' Ha Hlp']; subst. inversion Hrp as [|b' rp' Hb Hrp']; subst.
      apply IH; try assumption.
      assert (H1 : stP (set_pos st (m_pos st ++ [concile a b]))).
      { apply stP_set_pos; [exact Hst|]. apply Forall_app_intro; [apply stP_pos; exact Hst|].
        apply Forall_one. apply P_conc; assumption. }
      destruct (N.eqb (pname a) (pname b)); [apply stP_add_src2 | apply stP_add_src1]; exact H1.
Qed.

Lemma unb_pok1_P l r s e st st' :
  P e -> stP st -> unb_pok1 l r s e st = Ok st' -> stP st'.
Proof.
  intros He Hst. unfold unb_pok1.
  destruct (find_param (pname e) (unm st (match s with L => R | R => L end))) as [q|] eqn:E.
  - intros E1; inversion E1; subst. apply stP_add_src2.
    assert (Hq : P q). { eapply find_param_P; [|exact E]. apply stP_unm; exact Hst. }
    assert (H1 : stP (set_unm st (match s with L => R | R => L end)
                        (remove_param (pname e) (unm st (match s with L => R | R => L end))))).
    { apply stP_set_unm; [exact Hst|]. apply remove_param_P. apply stP_unm; exact Hst. }
    apply stP_set_kwo; [exact H1|]. apply od_set_P; [apply stP_kwo; exact H1|].
    apply P_kind. apply P_conc; assumption.
  - destruct (isSome (varargs (other l r s)) && isSome (varkwargs (other l r s))).
    { intros E1; inversion E1; subst. apply stP_add_src1. apply stP_set_pok; [exact Hst|].
      apply Forall_app_intro; [apply stP_pok; exact Hst | apply Forall_one; exact He]. }
    destruct (isSome (varkwargs (other l r s))).
    { intros E1; inversion E1; subst. apply stP_add_src1. apply stP_set_kwo; [exact Hst|].
      apply od_set_P; [apply stP_kwo; exact Hst | apply P_kind; exact He]. }
    destruct (isSome (varargs (other l r s))).
    { intros E1; inversion E1; subst. apply stP_add_src1. apply stP_set_pok; [|constructor].
      apply stP_set_pos; [exact Hst|].
      apply Forall_app_intro; [apply stP_pos; exact Hst|].
      apply Forall_app_intro; [apply map_kind_P; apply stP_pok; exact Hst|].
      apply Forall_one. apply P_kind; exact He. }
    destruct (negb (has_def e)); [discriminate|]. intros E1; inversion E1; subst. exact Hst.
Qed.

Lemma unb_pok_all_P l r s ps : forall st st',
  Forall P ps -> stP st -> unb_pok_all l r s ps st = Ok st' -> stP st'.
Proof.
  induction ps as [|p ps IH]; intros st st' Hps Hst; simpl.
  - intros E; inversion E; subst; exact Hst.
  - inversion Hps as [|p' ps' Hp Hps']; subst. intros E.
    apply bind_ok in E. destruct E as [st1 [E1 E2]].
    eapply IH; [exact Hps' | | exact E2]. eapply unb_pok1_P; eauto.
Qed.

Lemma zip_pok_P l r il : forall ir st st',
  Forall P il -> Forall P ir -> stP st -> zip_pok l r il ir st = Ok st' -> stP st'.
Proof.
  induction il as [|a il IH]; intros ir st st' Hil Hir Hst.
  - exact (unb_pok_all_P l r R ir st st' Hir Hst).
  - destruct ir as [|b ir].
    + exact (unb_pok_all_P l r L (a :: il) st st' Hil Hst).
    + simpl. inversion Hil as [|a' il' Ha Hil']; subst. inversion Hir as [|b' ir' Hb Hir']; subst.
      apply IH; try assumption.
      destruct (N.eqb (pname a) (pname b)).
      * apply stP_add_src2. apply stP_set_pok; [exact Hst|].
        apply Forall_app_intro; [apply stP_pok; exact Hst|]. apply Forall_one. apply P_conc; assumption.
      * apply stP_add_src1. apply stP_set_pok; [exact Hst|].
        apply Forall_app_intro; [apply map_kind_P; apply stP_pok; exact Hst|].
        apply Forall_one. apply P_kind. apply P_conc; assumption.
Qed.

Lemma fold_add_src1_P l r s u : forall st, stP st ->
  stP (fold_left (fun a p => add_src1 l r a (pname p) s) u st).
Proof. induction u as [|p u IH]; intros st Hst; simpl; [exact Hst|]. apply IH. apply stP_add_src1; exact Hst. Qed.

Lemma unmatched_kwo_P l r s st st' : stP st -> unmatched_kwo l r s st = Ok st' -> stP st'.
Proof.
  intros Hst. unfold unmatched_kwo. pose proof (stP_unm st s Hst) as Hu.
  destruct (unm st s) as [|p u] eqn:Eu.
  - intros E; inversion E; subst; exact Hst.
  - destruct (isSome (varkwargs (other l r s))).
    + assert (Hg : stP (excl_vk (fold_left (fun a q => add_src1 l r a (pname q) s) (p :: u)
                                    (set_kwo st (od_update (m_kwo st) (p :: u))))
                                 (match s with L => R | R => L end))).
      { apply stP_excl_vk. apply fold_add_src1_P.
        apply stP_set_kwo; [exact Hst|]. apply od_update_P; [apply stP_kwo; exact Hst | exact Hu]. }
      intros E; inversion E; subst. exact Hg.
    + destruct (forallb has_def (p :: u)); [|discriminate]. intros E; inversion E; subst; exact Hst.
Qed.

Lemma split_po_prefix_P ps : Forall P ps ->
  Forall P (fst (split_po_prefix ps)) /\ Forall P (snd (split_po_prefix ps)).
Proof.
  induction 1 as [|p ps Hp Hps IH]; simpl; [split; constructor|].
  destruct (is_kind PO p).
  - destruct (split_po_prefix ps) as [a b]; simpl in *. destruct IH as [Ha Hb].
    split; [constructor|]; assumption.
  - simpl. split; [constructor | constructor; assumption].
Qed.

Lemma normalise_pok_P st : stP st -> stP (normalise_pok st).
Proof.
  intros Hst. unfold normalise_pok.
  pose proof (split_po_prefix_P (m_pok st) (stP_pok st Hst)) as [Ha Hb].
  destruct (split_po_prefix (m_pok st)) as [a b]; simpl in *.
  apply stP_set_pok; [|exact Hb]. apply stP_set_pos; [exact Hst|].
  apply Forall_app_intro; [apply stP_pos; exact Hst | exact Ha].
Qed.

Lemma add_star_P l r xl xr sl sr st : optP sl -> optP sr -> stP st ->
  optP (fst (add_star l r xl xr sl sr st)) /\ stP (snd (add_star l r xl xr sl sr st)).
Proof.
  intros Hl Hr Hst. unfold add_star. destruct sl as [a|]; [|simpl; auto]. destruct sr as [b|]; [|simpl; auto].
  simpl in Hl, Hr.
  destruct (negb xl && negb xr).
  - simpl. split; [apply P_conc; assumption|].
    destruct (N.eqb (pname a) (pname b)); [apply stP_add_src2 | apply stP_add_src1]; exact Hst.
  - destruct (negb xl); simpl; (split; [assumption | apply stP_add_src1; exact Hst]).
Qed.

Lemma merger_P l r s : sortedP l -> sortedP r -> merger l r = Ok s -> sortedP s.
Proof.
  intros Hl Hr. unfold merger. intros E.
  assert (H0 : stP (mkM [] [] [] [] false false false false [] [])).
  { unfold stP; simpl; repeat split; constructor. }
  pose proof (kwo_match_P l r (kwoargs l) _ Hr (proj1 (proj2 (proj2 (proj2 Hl)))) H0) as H1.
  pose proof (stP_set_unm _ R _ H1 (r_unmatched_P l r Hr)) as H2.
  apply bind_ok in E. destruct E as [[[st3 il] ir] [E3 E]].
  destruct (zip_pos_P _ _ _ _ _ _ _ _ _ _ (proj1 Hl) (proj1 Hr) (proj1 (proj2 Hl)) (proj1 (proj2 Hr)) H2 E3)
    as [H3 [Hil Hir]].
  apply bind_ok in E. destruct E as [st4 [E4 E]].
  pose proof (zip_pok_P _ _ _ _ _ _ Hil Hir H3 E4) as H4.
  apply bind_ok in E. destruct E as [st5 [E5 E]].
  pose proof (unmatched_kwo_P _ _ _ _ _ H4 E5) as H5.
  apply bind_ok in E. destruct E as [st6 [E6 E]].
  pose proof (unmatched_kwo_P _ _ _ _ _ H5 E6) as H6.
  pose proof (normalise_pok_P _ H6) as H7.
  pose proof (add_star_P l r (m_xva_l (normalise_pok st6)) (m_xva_r (normalise_pok st6))
                (varargs l) (varargs r) _ (proj1 (proj2 (proj2 Hl))) (proj1 (proj2 (proj2 Hr))) H7) as H8.
  destruct (add_star l r (m_xva_l (normalise_pok st6)) (m_xva_r (normalise_pok st6))
                (varargs l) (varargs r) (normalise_pok st6)) as [va st8]. simpl in H8. destruct H8 as [Hva H8].
  pose proof (add_star_P l r (m_xvk_l st8) (m_xvk_r st8)
                (varkwargs l) (varkwargs r) _ (proj2 (proj2 (proj2 (proj2 Hl)))) (proj2 (proj2 (proj2 (proj2 Hr)))) H8) as H9.
  destruct (add_star l r (m_xvk_l st8) (m_xvk_r st8) (varkwargs l) (varkwargs r) st8) as [vk st9].
  simpl in H9. destruct H9 as [Hvk H9].
  inversion E; subst. unfold sortedP; simpl.
  repeat split; try assumption; apply H9.
Qed.

Lemma to_incompatible_ok {A} (x : res A) a : to_incompatible x = Ok a -> x = Ok a.
Proof. destruct x as [b|e]; simpl; [auto|]. destruct e; discriminate. Qed.

Lemma merge_steps_P ss : forall acc r, sortedP acc -> Forall (fun s => Forall P (params s)) ss ->
  merge_steps acc ss = Ok r -> sortedP r.
Proof.
  induction ss as [|s ss IH]; intros acc r Hacc Hss; simpl.
  - intros E; inversion E; subst; exact Hacc.
  - inversion Hss as [|s' ss' Hs Hss']; subst. intros E.
    apply bind_ok in E. destruct E as [acc' [E1 E2]]. apply to_incompatible_ok in E1.
    eapply IH; [|exact Hss'|exact E2]. eapply merger_P; [exact Hacc | apply sort_params_P; exact Hs | exact E1].
Qed.

Theorem merge_P ss r : Forall (fun s => Forall P (params s)) ss -> merge ss = Ok r -> Forall P (params r).
Proof.
  destruct ss as [|s0 ss]; simpl; [discriminate|]. intros Hss E.
  inversion Hss as [|s' ss' Hs Hss']; subst.
  apply bind_ok in E. destruct E as [acc [E1 E2]].
  eapply apply_params_P; [|exact E2]. eapply merge_steps_P; [apply sort_params_P; exact Hs | exact Hss' | exact E1].
Qed.

(* ---- embed ---- *)
Lemma optP_opt_if b o : optP o -> optP (opt_if b o).
Proof. destruct b; simpl; auto. Qed.

Lemma clear_defaults_P ps : Forall P ps -> Forall P (clear_defaults ps).
Proof. apply map_def_P. Qed.

Lemma embed_step_P outer inner uva uvk depth s :
  sortedP outer -> sortedP inner -> embed_step outer inner uva uvk depth = Ok s -> sortedP s.
Proof.
  intros Ho Hi. unfold embed_step. intros E.
  apply bind_ok in E. destruct E as [i [Ei E]].
  assert (Hstars : sortedP (mkSorted [] [] (opt_if uva (varargs outer)) []
                                     (opt_if uvk (varkwargs outer)) [] [])).
  { unfold sortedP; simpl. repeat split; try constructor; apply optP_opt_if; apply Ho. }
  pose proof (merger_P _ _ _ Hi Hstars Ei) as [Hi1 [Hi2 [Hi3 [Hi4 Hi5]]]].
  destruct Ho as [Ho1 [Ho2 [Ho3 [Ho4 Ho5]]]].
  apply bind_ok in E. destruct E as [n1 [_ E]].
  apply bind_ok in E. destruct E as [n2 [_ E]].
  apply bind_ok in E. destruct E as [[[e_pos e_pok] n3] [Ee E]].
  assert (He : Forall P e_pos /\ Forall P e_pok).
  { destruct (posargs i) as [|ip0 ips] eqn:Epi.
    - destruct (pokargs i) as [|ik0 iks] eqn:Epk.
      + inversion Ee; subst. split; assumption.
      + destruct (has_def ik0); inversion Ee; subst; split; try assumption; apply clear_defaults_P; assumption.
    - apply bind_ok in Ee. destruct Ee as [n3' [_ Ee]]. inversion Ee; subst. split; [|constructor].
      apply Forall_app_intro; [|exact Hi1].
      assert (Hep : Forall P (posargs outer ++ map (set_kind PO) (pokargs outer))).
      { apply Forall_app_intro; [assumption | apply map_kind_P; assumption]. }
      destruct (has_def ip0); [exact Hep | apply clear_defaults_P; exact Hep]. }
  destruct He as [He1 He2].
  apply bind_ok in E. destruct E as [n4 [_ E]].
  apply bind_ok in E. destruct E as [n5 [_ E]].
  apply bind_ok in E. destruct E as [n6 [_ E]].
  inversion E; subst. unfold sortedP; simpl. repeat split.
  - exact He1.
  - apply Forall_app_intro; assumption.
  - destruct uva; assumption.
  - apply od_update_P; [apply od_update_P; [constructor | assumption] | assumption].
  - destruct uvk; assumption.
Qed.

Lemma embed_steps_P ss : forall acc uva uvk depth r, sortedP acc ->
  Forall (fun s => Forall P (params s)) ss -> embed_steps acc ss uva uvk depth = Ok r -> sortedP r.
Proof.
  induction ss as [|s ss IH]; intros acc uva uvk depth r Hacc Hss; simpl.
  - intros E; inversion E; subst; exact Hacc.
  - inversion Hss as [|s' ss' Hs Hss']; subst. intros E.
    apply bind_ok in E. destruct E as [acc' [E1 E2]]. apply to_incompatible_ok in E1.
    eapply IH; [|exact Hss'|exact E2].
    eapply embed_step_P; [exact Hacc | apply sort_params_P; exact Hs | exact E1].
Qed.

Theorem embed_P ss uva uvk r : Forall (fun s => Forall P (params s)) ss ->
  embed ss uva uvk = Ok r -> Forall P (params r).
Proof.
  destruct ss as [|s0 ss]; simpl; [discriminate|]. intros Hss E.
  inversion Hss as [|s' ss' Hs Hss']; subst.
  apply bind_ok in E. destruct E as [acc [E1 E2]].
  eapply apply_params_P; [|exact E2].
  eapply embed_steps_P; [apply sort_params_P; exact Hs | exact Hss' | exact E1].
Qed.

(* ---- mask ---- *)
Definition kP (st : kstate) : Prop := Forall P (k_pok st) /\ optP (k_va st) /\ Forall P (k_kwo st).

Lemma mask_name_P pm hv st kv st' : kP st -> mask_name pm hv st kv = Ok st' -> kP st'.
Proof.
  intros [H1 [H2 H3]]. unfold mask_name.
  destruct (mem (fst kv) (k_consumed st)); [discriminate|].
  destruct (split_at_name (fst kv) (k_pok st)) as [[[before p] after]|] eqn:Es.
  - destruct (split_at_name_P _ _ _ _ _ H1 Es) as [Hb [Hp Ha]].
    intros E; inversion E; subst. unfold kP; simpl. repeat split; [exact Hb|].
    assert (Hk1 : Forall P (od_update (k_kwo st) (map (set_kind KO) after))).
    { apply od_update_P; [exact H3 | apply map_kind_P; exact Ha]. }
    destruct pm; [|exact Hk1]. apply od_set_P; [exact Hk1|]. apply P_def. apply P_kind. exact Hp.
  - destruct (find_param (fst kv) (k_kwo st)) as [p|] eqn:Ef.
    + assert (Hp : P p) by (eapply find_param_P; eauto).
      destruct pm; intros E; inversion E; subst; unfold kP; simpl; repeat split; try assumption.
      * apply od_set_P; [exact H3|]. apply P_def. apply P_kind. exact Hp.
      * apply remove_param_P; exact H3.
    + destruct (negb hv); [discriminate|].
      destruct pm; intros E; inversion E; subst; unfold kP; simpl; repeat split; try assumption.
      apply od_set_P; [exact H3 | apply P_fresh].
Qed.

Lemma mask_names_P pm hv kvs : forall st st', kP st -> mask_names pm hv st kvs = Ok st' -> kP st'.
Proof.
  induction kvs as [|kv kvs IH]; intros st st' Hst; simpl.
  - intros E; inversion E; subst; exact Hst.
  - intros E. apply bind_ok in E. destruct E as [st1 [E1 E2]].
    eapply IH; [|exact E2]. eapply mask_name_P; eauto.
Qed.

Theorem mask_gen_P s n h named pm r : Forall P (params s) -> mask_gen s n h named pm = Ok r ->
  Forall P (params r).
Proof.
  intros Hs. unfold mask_gen. intros E.
  pose proof (sort_params_P s Hs) as [Hs1 [Hs2 [Hs3 [Hs4 Hs5]]]].
  apply bind_ok in E. destruct E as [[[pos1 pok1] consumed] [Ec E]].
  assert (Hc : Forall P pos1 /\ Forall P pok1).
  { destruct (h_args h); [inversion Ec; subst; split; constructor|].
    destruct (Nat.eqb n 0); [inversion Ec; subst; split; assumption|].
    destruct (_ && _); [discriminate|]. inversion Ec; subst. split; apply Forall_skipn'; assumption. }
  destruct Hc as [Hc1 Hc2].
  destruct (if h_args h || h_varargs h then _ else _) as [va1 src2] eqn:Eva.
  assert (Hva : optP va1).
  { destruct (h_args h || h_varargs h); inversion Eva; subst; simpl; auto. }
  destruct (if h_kwargs h then _ else _) as [[[pok2 kwo2] src3] named2] eqn:Ek.
  assert (Hk : Forall P pok2 /\ Forall P kwo2).
  { destruct (h_kwargs h); inversion Ek; subst; split; try constructor; assumption. }
  destruct Hk as [Hk1 Hk2].
  apply bind_ok in E. destruct E as [st [Est E]].
  assert (Hst : kP st).
  { eapply mask_names_P; [|exact Est]. unfold kP; simpl. repeat split; assumption. }
  destruct Hst as [Hst1 [Hst2 Hst3]].
  destruct (if h_kwargs h || h_varkwargs h then _ else _) as [vk3 src4] eqn:Evk.
  assert (Hvk : optP vk3).
  { destruct (h_kwargs h || h_varkwargs h); inversion Evk; subst; simpl; auto. }
  destruct pm; (eapply apply_params_P; [|exact E]); unfold sortedP; simpl; repeat split; assumption.
Qed.

Theorem forwards_P o i n names0 ha hk uva uvk p r :
  Forall P (params o) -> Forall P (params i) ->
  forwards o i n names0 ha hk uva uvk p = Ok r -> Forall P (params r).
Proof.
  intros Ho Hi. unfold forwards. intros E. apply bind_ok in E. destruct E as [m [Em E]].
  eapply embed_P; [|exact E]. constructor; [exact Ho|]. constructor; [|constructor].
  unfold mask in Em. eapply mask_gen_P; [|exact Em].
  destruct p; [|exact Hi]. simpl.
  clear Em. induction Hi as [|q qs Hq Hqs IH]; simpl; constructor; [|exact IH].
  destruct (pkind q); try exact Hq; apply P_def; exact Hq.
Qed.

End Closed.

(* ================================================================== *)
(* Part 2 — instances                                                  *)

(* the (raw, upgraded) annotation pair of a parameter *)
Definition apair (p : param) : option N * uann := (pann p, puann p).

(* p's pair is empty or is literally the pair of one of the parameters I *)
Definition carried (I : list param) (p : param) : Prop :=
  apair p = (None, UEmpty) \/ exists q, In q I /\ apair q = apair p.

(* ... of the same name *)
Definition carried_named (I : list param) (p : param) : Prop :=
  apair p = (None, UEmpty) \/ exists q, In q I /\ pname q = pname p /\ apair q = apair p.

Lemma carried_in I p : In p I -> carried I p.
Proof. intros H. right. exists p. split; [exact H | reflexivity]. Qed.
Lemma carried_kind I k p : carried I p -> carried I (set_kind k p).
Proof. exact (fun H => H). Qed.
Lemma carried_def I d p : carried I p -> carried I (set_def d p).
Proof. exact (fun H => H). Qed.
Lemma carried_fresh I x d : carried I (mkParam x KO d None UEmpty).
Proof. left. reflexivity. Qed.
Lemma carried_conc I a b : carried I a -> carried I b -> carried I (concile a b).
Proof.
  intros Ha Hb. unfold carried, apair in *.
  destruct (concile_annotation_carried a b) as [E | [E | E]]; rewrite E; auto.
Qed.
Lemma carried_mono I J p : (forall q, In q I -> In q J) -> carried I p -> carried J p.
Proof. intros HI [H | [q [Hq E]]]; [left; exact H | right; exists q; auto]. Qed.

Lemma carried_named_in I p : In p I -> carried_named I p.
Proof. intros H. right. exists p. repeat split; auto. Qed.
Lemma carried_named_kind I k p : carried_named I p -> carried_named I (set_kind k p).
Proof. exact (fun H => H). Qed.
Lemma carried_named_def I d p : carried_named I p -> carried_named I (set_def d p).
Proof. exact (fun H => H). Qed.
Lemma carried_named_fresh I x d : carried_named I (mkParam x KO d None UEmpty).
Proof. left. reflexivity. Qed.
Lemma carried_named_carried I p : carried_named I p -> carried I p.
Proof. intros [H | [q [Hq [_ E]]]]; [left; exact H | right; exists q; auto]. Qed.

Lemma inputs_carried ss :
  Forall (fun s => Forall (carried (flat_map params ss)) (params s)) ss.
Proof.
  apply Forall_forall. intros s Hs. apply Forall_forall. intros p Hp.
  apply carried_in. apply in_flat_map. exists s. split; assumption.
Qed.

(* ---- return annotation: always the first input's ---- *)
Lemma apply_params_ret base s r : apply_params base s = Ok r -> ret r = ret base /\ uret r = uret base.
Proof.
  unfold apply_params. destruct (validate (flatten s)); intros E; inversion E; subst. simpl. auto.
Qed.

Lemma merge_ret s0 ss r : merge (s0 :: ss) = Ok r -> ret r = ret s0 /\ uret r = uret s0.
Proof.
  simpl. intros E. apply bind_ok in E. destruct E as [acc [_ E]]. eapply apply_params_ret; eauto.
Qed.

Lemma embed_ret s0 ss uva uvk r : embed (s0 :: ss) uva uvk = Ok r -> ret r = ret s0 /\ uret r = uret s0.
Proof.
  simpl. intros E. apply bind_ok in E. destruct E as [acc [_ E]]. eapply apply_params_ret; eauto.
Qed.

Lemma mask_gen_ret s n h named pm r : mask_gen s n h named pm = Ok r -> ret r = ret s /\ uret r = uret s.
Proof.
  unfold mask_gen. intros H.
  apply bind_ok in H. destruct H as [[[pos1 pok1] consumed] [_ H]].
  destruct (if h_args h || h_varargs h then _ else _) as [va1 src2].
  destruct (if h_kwargs h then _ else _) as [[[pok2 kwo2] src3] named2].
  apply bind_ok in H. destruct H as [st [_ H]].
  destruct (if h_kwargs h || h_varkwargs h then _ else _) as [vk3 src4].
  destruct pm; eapply apply_params_ret; eauto.
Qed.

Lemma forwards_ret o i n names0 ha hk uva uvk p r :
  forwards o i n names0 ha hk uva uvk p = Ok r -> ret r = ret o /\ uret r = uret o.
Proof.
  unfold forwards. intros E. apply bind_ok in E. destruct E as [m [_ E]].
  eapply embed_ret; eauto.
Qed.

(* ---- C11_carried ---- *)
Theorem carried_merge s0 ss r : merge (s0 :: ss) = Ok r ->
  Forall (carried (flat_map params (s0 :: ss))) (params r) /\ ret r = ret s0 /\ uret r = uret s0.
Proof.
  intros E. split; [|eapply merge_ret; eauto].
  eapply (merge_P (carried (flat_map params (s0 :: ss)))); [| | |exact E].
  - apply carried_kind. - apply carried_conc. - apply inputs_carried.
Qed.

Theorem carried_embed s0 ss uva uvk r : embed (s0 :: ss) uva uvk = Ok r ->
  Forall (carried (flat_map params (s0 :: ss))) (params r) /\ ret r = ret s0 /\ uret r = uret s0.
Proof.
  intros E. split; [|eapply embed_ret; eauto].
  eapply (embed_P (carried (flat_map params (s0 :: ss)))); [| | | |exact E].
  - apply carried_kind. - apply carried_def. - apply carried_conc. - apply inputs_carried.
Qed.

(* mask / partial: literally the parameter of that name *)
Theorem carried_mask_gen s n h named pm r : mask_gen s n h named pm = Ok r ->
  Forall (carried_named (params s)) (params r) /\ ret r = ret s /\ uret r = uret s.
Proof.
  intros E. split; [|eapply mask_gen_ret; eauto].
  eapply (mask_gen_P (carried_named (params s))); [| | | |exact E].
  - apply carried_named_kind. - apply carried_named_def. - apply carried_named_fresh.
  - apply Forall_forall. intros p Hp. apply carried_named_in; exact Hp.
Qed.

Theorem carried_sig_partial s n kw pobj r : sig_partial s n kw pobj = Ok r ->
  Forall (carried_named (params s)) (params r) /\ ret r = ret s /\ uret r = uret s.
Proof. apply carried_mask_gen. Qed.

Theorem carried_forwards o i n names0 ha hk uva uvk p r :
  forwards o i n names0 ha hk uva uvk p = Ok r ->
  Forall (carried (params o ++ params i)) (params r) /\ ret r = ret o /\ uret r = uret o.
Proof.
  intros E. split; [|eapply forwards_ret; eauto].
  eapply (forwards_P (carried (params o ++ params i))); [| | | | | |exact E].
  - apply carried_kind. - apply carried_def. - apply carried_conc. - apply carried_fresh.
  - apply Forall_forall. intros q Hq. apply carried_in. apply in_or_app; auto.
  - apply Forall_forall. intros q Hq. apply carried_in. apply in_or_app; auto.
Qed.

Example carried_merge_hyp_sat :
  exists r, merge [mkSig [mkParam 1 PK None (Some 500) (UPost 500 100)] None UEmpty [] [];
                   mkSig [mkParam 1 PK None (Some 500) (UPost 500 101)] None UEmpty [] []] = Ok r.
Proof. eexists. vm_compute. reflexivity. Qed.

(* "of the same name" does not hold for merge: positional parameters are
   conciled by position, so an annotation can land on the other name *)
Theorem carried_named_merge_refuted :
  exists ss r, merge ss = Ok r /\ ~ Forall (carried_named (flat_map params ss)) (params r).
Proof.
  exists [mkSig [mkParam 1 PO None None UEmpty] None UEmpty [] [];
          mkSig [mkParam 2 PO None (Some 500) (UPost 500 101)] None UEmpty [] []].
  eexists. split; [vm_compute; reflexivity|].
  intros H. inversion H as [|p ps Hp Hps]; subst. destruct Hp as [Hp | [q [Hq [Hn Hp]]]].
  - discriminate Hp.
  - simpl in Hq. destruct Hq as [Hq | [Hq | []]]; subst q; [discriminate Hp | discriminate Hn].
Qed.

(* ---- defining context preserved ---- *)
(* any property of annotation pairs that holds on the inputs (and on the empty
   pair) holds on every result parameter *)
Lemma carried_Q (Q : option N -> uann -> Prop) I p :
  Q None UEmpty -> (forall q, In q I -> Q (pann q) (puann q)) -> carried I p -> Q (pann p) (puann p).
Proof.
  intros Q0 QI [E | [q [Hq E]]]; unfold apair in E; injection E as E1 E2.
  - rewrite E1, E2. exact Q0.
  - rewrite <- E1, <- E2. apply QI; exact Hq.
Qed.

Definition fdesc := (option bool * N * list rawparam * option N)%type.
Definition up (d : fdesc) : sigT :=
  let '(fl, f, rps, rr) := d in upgrade_sig fl f rps rr.

(* what a surviving annotation evaluates to: the raw annotation [a] written on
   a parameter of function [f], wrapped for [f] *)
Definition in_context (ds : list fdesc) (g : genv) (p : param) : Prop :=
  (pann p = None /\ puann p = UEmpty) \/
  exists fl f rps rr x k d a,
    In (fl, f, rps, rr) ds /\ In (x, k, d, Some a) rps /\ pann p = Some a /\
    puann p = upgrade fl (Some f) (Some a) /\
    source_value g (puann p) = source_value g (upgrade fl (Some f) (Some a)).

Lemma carried_in_context ds g p :
  carried (flat_map params (map up ds)) p -> in_context ds g p.
Proof.
  intros [E | [q [Hq E]]]; unfold apair in E.
  - left. inversion E; auto.
  - apply in_flat_map in Hq. destruct Hq as [s [Hs Hq]].
    apply in_map_iff in Hs. destruct Hs as [[[[fl f] rps] rr] [Hs Hd]]. subst s.
    simpl in Hq. apply in_map_iff in Hq. destruct Hq as [[[[x k] d] a] [Hq Hrp]]. subst q.
    simpl in E. injection E as E1 E2. destruct a as [a|].
    + right. exists fl, f, rps, rr, x, k, d, a. rewrite <- E2, <- E1. repeat split; auto.
    + left. simpl in E2. auto.
Qed.

Lemma source_value_postponed g f a : source_value g (upgrade (Some true) (Some f) (Some a)) = g f a.
Proof. reflexivity. Qed.
Lemma source_value_eager g f a : source_value g (upgrade (Some false) (Some f) (Some a)) = Some a.
Proof. reflexivity. Qed.

Theorem context_merge d0 ds g r : merge (map up (d0 :: ds)) = Ok r ->
  Forall (in_context (d0 :: ds) g) (params r) /\
  source_value g (uret r) = source_value g (uret (up d0)).
Proof.
  simpl map. intros E. apply carried_merge in E. destruct E as [E [_ Eu]]. split; [|rewrite Eu; reflexivity].
  eapply Forall_impl; [|exact E]. intros p Hp. apply carried_in_context. exact Hp.
Qed.

Theorem context_embed d0 ds uva uvk g r : embed (map up (d0 :: ds)) uva uvk = Ok r ->
  Forall (in_context (d0 :: ds) g) (params r) /\
  source_value g (uret r) = source_value g (uret (up d0)).
Proof.
  simpl map. intros E. apply carried_embed in E. destruct E as [E [_ Eu]]. split; [|rewrite Eu; reflexivity].
  eapply Forall_impl; [|exact E]. intros p Hp. apply carried_in_context. exact Hp.
Qed.

Theorem context_forwards d0 d1 n names0 ha hk uva uvk pt g r :
  forwards (up d0) (up d1) n names0 ha hk uva uvk pt = Ok r ->
  Forall (in_context [d0; d1] g) (params r) /\
  source_value g (uret r) = source_value g (uret (up d0)).
Proof.
  intros E. apply carried_forwards in E. destruct E as [E [_ Eu]]. split; [|rewrite Eu; reflexivity].
  eapply Forall_impl; [|exact E]. intros p Hp. apply carried_in_context.
  eapply carried_mono; [|exact Hp]. simpl. intros q Hq. rewrite app_nil_r. exact Hq.
Qed.

Theorem context_mask_gen d0 n h named pm g r : mask_gen (up d0) n h named pm = Ok r ->
  Forall (in_context [d0] g) (params r) /\
  source_value g (uret r) = source_value g (uret (up d0)).
Proof.
  intros E. apply carried_mask_gen in E. destruct E as [E [_ Eu]]. split; [|rewrite Eu; reflexivity].
  eapply Forall_impl; [|exact E]. intros p Hp. apply carried_in_context.
  eapply carried_mono; [|apply carried_named_carried; exact Hp]. simpl. intros q Hq. rewrite app_nil_r. exact Hq.
Qed.

Example context_merge_hyp_sat :
  exists r, merge (map up [(Some true, 100, [(1, PK, None, Some 500)], None);
                           (Some true, 101, [(1, PK, None, Some 500)], Some 501)]) = Ok r.
Proof. eexists. vm_compute. reflexivity. Qed.

(* ---- annotate ---- *)
Theorem annotate_verbatim retv anns s r g : annotate retv anns s = Ok r ->
  map pname (params r) = map pname (params s) /\
  map pkind (params r) = map pkind (params s) /\
  map pdef (params r) = map pdef (params s) /\
  (forall p, In p (params r) ->
     match assoc_ann (pname p) anns with
     | Some v => pann p = v /\ puann p = preevaluated v /\ source_value g (puann p) = v
     | None => In p (params s)
     end) /\
  match retv with
  | Some v => ret r = v /\ uret r = preevaluated v /\ source_value g (uret r) = v
  | None => ret r = ret s /\ uret r = uret s
  end.
Proof.
  unfold annotate. destruct (forallb (fun xv => mem (fst xv) (names_of (params s))) anns); [|discriminate].
  assert (Hn : forall (B : Type) (f : param -> B), (forall p, f (annotate_param anns p) = f p) ->
               map f (map (annotate_param anns) (params s)) = map f (params s)).
  { intros B f Hf. rewrite map_map. apply map_ext. exact Hf. }
  assert (Hp : forall p, In p (map (annotate_param anns) (params s)) ->
     match assoc_ann (pname p) anns with
     | Some v => pann p = v /\ puann p = preevaluated v /\ source_value g (puann p) = v
     | None => In p (params s)
     end).
  { intros p Hp. apply in_map_iff in Hp. destruct Hp as [q [Hq Hin]]. subst p.
    unfold annotate_param. destruct (assoc_ann (pname q) anns) as [v|] eqn:Ea.
    - simpl. rewrite Ea. repeat split. destruct v; reflexivity.
    - rewrite Ea. exact Hin. }
  assert (H1 : forall p, pname (annotate_param anns p) = pname p)
    by (intros p; unfold annotate_param; destruct (assoc_ann _ _); reflexivity).
  assert (H2 : forall p, pkind (annotate_param anns p) = pkind p)
    by (intros p; unfold annotate_param; destruct (assoc_ann _ _); reflexivity).
  assert (H3 : forall p, pdef (annotate_param anns p) = pdef p)
    by (intros p; unfold annotate_param; destruct (assoc_ann _ _); reflexivity).
  destruct retv as [v|]; intros E; inversion E; subst; simpl;
    (split; [apply (Hn _ pname H1)|]); (split; [apply (Hn _ pkind H2)|]); (split; [apply (Hn _ pdef H3)|]);
    (split; [exact Hp|]); repeat split. destruct v; reflexivity.
Qed.

Example annotate_hyp_sat :
  exists r, annotate (Some (Some 3)) [(1, Some 2)]
                     (up (Some true, 100, [(1, PK, None, Some 500); (2, PK, None, Some 501)], None)) = Ok r.
Proof. eexists. vm_compute. reflexivity. Qed.

(* ---- evaluated ---- *)
Theorem evaluated_spec g s :
  map pname (params (evaluated g s)) = map pname (params s) /\
  map pkind (params (evaluated g s)) = map pkind (params s) /\
  map pdef (params (evaluated g s)) = map pdef (params s) /\
  map puann (params (evaluated g s)) = map puann (params s) /\
  map pann (params (evaluated g s)) = map (fun p => source_value g (puann p)) (params s) /\
  ret (evaluated g s) = source_value g (uret s) /\ uret (evaluated g s) = uret s /\
  srcs (evaluated g s) = srcs s /\ deps (evaluated g s) = deps s /\
  observe g (evaluated g s) = observe g s.
Proof.
  unfold evaluated, observe; simpl. rewrite !map_map. simpl.
  repeat split; reflexivity.
Qed.

Theorem evaluated_idempotent g s : evaluated g (evaluated g s) = evaluated g s.
Proof. unfold evaluated; simpl. rewrite map_map. reflexivity. Qed.

(* ================================================================== *)
(* Part 3 — twins: eager vs postponed compilation of the same functions *)

(* the eager twin of a function description: every spelled annotation is
   replaced by the object it denotes in that function's globals *)
Definition deref (g : genv) (f : N) (a : option N) : option N :=
  match a with Some r => g f r | None => None end.
Definition eager_twin (g : genv) (d : fdesc) : fdesc :=
  let '(fl, f, rps, rr) := d in
  (Some false, f, map (fun rp : rawparam => let '(x, k, dd, a) := rp in (x, k, dd, deref g f a)) rps,
   deref g f rr).

Definition res_map {A B} (h : A -> B) (x : res A) : res B :=
  match x with Ok a => Ok (h a) | Err e => Err e end.

(* FULL STATEMENT (false, see the two pep563_refuted theorems below):
     forall g ds, (every function of ds is compiled with the future flag) ->
       res_map (observe g) (merge (map up ds)) =
       res_map (observe g) (merge (map up (map (eager_twin g) ds))).      *)

(* same spelling, different objects in the two functions' globals: the
   postponed twins keep the left annotation, the eager twins drop it *)
Definition g_w1 : genv := fun f raw =>
  if N.eqb raw 500 then (if N.eqb f 100 then Some 1 else Some 2) else None.
Definition ds_w1 : list fdesc :=
  [(Some true, 100, [(1, PK, None, Some 500)], None); (Some true, 101, [(1, PK, None, Some 500)], None)].

Theorem pep563_refuted_same_spelling :
  res_map (observe g_w1) (merge (map up ds_w1)) = Ok ([(1, PK, None, Some 1)], None) /\
  res_map (observe g_w1) (merge (map up (map (eager_twin g_w1) ds_w1))) = Ok ([(1, PK, None, None)], None).
Proof. split; vm_compute; reflexivity. Qed.

(* two spellings of one object: the postponed twins drop, the eager twins keep *)
Definition g_w2 : genv := fun f raw =>
  if N.eqb raw 500 then Some 1 else if N.eqb raw 502 then Some 1 else None.
Definition ds_w2 : list fdesc :=
  [(Some true, 100, [(1, PK, None, Some 500)], None); (Some true, 101, [(1, PK, None, Some 502)], None)].

Theorem pep563_refuted_two_spellings :
  res_map (observe g_w2) (merge (map up ds_w2)) = Ok ([(1, PK, None, None)], None) /\
  res_map (observe g_w2) (merge (map up (map (eager_twin g_w2) ds_w2))) = Ok ([(1, PK, None, Some 1)], None).
Proof. split; vm_compute; reflexivity. Qed.

Theorem pep563_refuted :
  exists g ds, Forall (fun d : fdesc => fst (fst (fst d)) = Some true) ds /\
    res_map (observe g) (merge (map up ds)) <>
    res_map (observe g) (merge (map up (map (eager_twin g) ds))).
Proof.
  exists g_w1, ds_w1. split.
  - repeat constructor.
  - destruct pep563_refuted_same_spelling as [E1 E2]. rewrite E1, E2. discriminate.
Qed.

(* ---- the delimiting hypothesis: raw equality coincides with value equality ---- *)
(* rho gives the object every spelling denotes, in every function's globals
   (same spelling => same object) and is injective (same object => same
   spelling); then conciliation commutes with taking the eager twin *)
Definition injective (rho : N -> N) : Prop := forall a b, rho a = rho b -> a = b.

Lemma eagerize_concile rho a b : injective rho ->
  eagerize_param rho (concile a b) = concile (eagerize_param rho a) (eagerize_param rho b).
Proof.
  intros Hinj. unfold concile, eagerize_param; simpl.
  destruct (pann a) as [x|], (pann b) as [y|]; simpl; try reflexivity.
  destruct (N.eqb x y) eqn:E.
  - apply N.eqb_eq in E. subst y. rewrite N.eqb_refl. reflexivity.
  - destruct (N.eqb (rho x) (rho y)) eqn:E'; [|reflexivity].
    apply N.eqb_eq in E'. apply Hinj in E'. subst y. rewrite N.eqb_refl in E. discriminate.
Qed.

(* ---- the whole merge commutes with taking the eager twin ---------------- *)
(* E = eagerize_param rho only reads the raw annotation; for injective rho every
   function of the merger commutes with it, because the only place annotations
   influence control flow is the N.eqb of concile *)
Section Twin.
Variable rho : N -> N.
Hypothesis rho_inj : injective rho.
Notation E := (eagerize_param rho).

Definition Eo (o : option param) : option param := option_map E o.
Definition ES (s : sorted) : sorted :=
  mkSorted (map E (posargs s)) (map E (pokargs s)) (Eo (varargs s)) (map E (kwoargs s))
           (Eo (varkwargs s)) (ssrc s) (sdep s).
Definition Est (st : mstate) : mstate :=
  mkM (map E (m_pos st)) (map E (m_pok st)) (map E (m_kwo st)) (m_src st)
      (m_xva_l st) (m_xva_r st) (m_xvk_l st) (m_xvk_r st) (map E (m_lunm st)) (map E (m_runm st)).

Lemma find_param_E x ps : find_param x (map E ps) = option_map E (find_param x ps).
Proof.
  induction ps as [|p ps IH]; simpl; [reflexivity|].
  destruct (N.eqb x (pname p)); [reflexivity | exact IH].
Qed.

Lemma od_set_E d p : od_set (map E d) (E p) = map E (od_set d p).
Proof.
  induction d as [|q d IH]; simpl; [reflexivity|].
  destruct (N.eqb (pname p) (pname q)); simpl; [reflexivity | rewrite IH; reflexivity].
Qed.

Lemma od_update_E ps : forall d, od_update (map E d) (map E ps) = map E (od_update d ps).
Proof.
  unfold od_update. induction ps as [|p ps IH]; intros d; simpl; [reflexivity|].
  rewrite od_set_E. apply IH.
Qed.

Lemma remove_param_E x ps : remove_param x (map E ps) = map E (remove_param x ps).
Proof.
  induction ps as [|p ps IH]; simpl; [reflexivity|].
  destruct (N.eqb x (pname p)); simpl; [exact IH | rewrite IH; reflexivity].
Qed.

Lemma isSome_map {A B} (f : A -> B) o : isSome (option_map f o) = isSome o.
Proof. destruct o; reflexivity. Qed.

Lemma r_unmatched_E l r : r_unmatched (ES l) (ES r) = map E (r_unmatched l r).
Proof.
  unfold r_unmatched. simpl. induction (kwoargs r) as [|p ps IH]; simpl; [reflexivity|].
  rewrite find_param_E, isSome_map. destruct (negb _); simpl; rewrite IH; reflexivity.
Qed.

Lemma forallb_has_def_E u : forallb has_def (map E u) = forallb has_def u.
Proof. induction u as [|p u IH]; simpl; [reflexivity|]. rewrite IH. reflexivity. Qed.

Lemma split_po_prefix_E ps :
  split_po_prefix (map E ps) = (map E (fst (split_po_prefix ps)), map E (snd (split_po_prefix ps))).
Proof.
  induction ps as [|p ps IH]; simpl; [reflexivity|].
  change (is_kind PO (E p)) with (is_kind PO p). destruct (is_kind PO p).
  - rewrite IH. destruct (split_po_prefix ps); reflexivity.
  - reflexivity.
Qed.

Lemma add_src1_E l r st x s : add_src1 (ES l) (ES r) (Est st) x s = Est (add_src1 l r st x s).
Proof. destruct s; reflexivity. Qed.
Lemma add_src2_E l r st x a b : add_src2 (ES l) (ES r) (Est st) x a b = Est (add_src2 l r st x a b).
Proof. destruct a, b; reflexivity. Qed.
Lemma excl_va_E st s : excl_va (Est st) s = Est (excl_va st s).
Proof. destruct s; reflexivity. Qed.
Lemma excl_vk_E st s : excl_vk (Est st) s = Est (excl_vk st s).
Proof. destruct s; reflexivity. Qed.
Lemma unm_E st s : unm (Est st) s = map E (unm st s).
Proof. destruct s; reflexivity. Qed.
Lemma set_unm_E st s v : set_unm (Est st) s (map E v) = Est (set_unm st s v).
Proof. destruct s; reflexivity. Qed.
Lemma set_pos_E st v : set_pos (Est st) (map E v) = Est (set_pos st v).
Proof. reflexivity. Qed.
Lemma set_pok_E st v : set_pok (Est st) (map E v) = Est (set_pok st v).
Proof. reflexivity. Qed.
Lemma set_kwo_E st v : set_kwo (Est st) (map E v) = Est (set_kwo st v).
Proof. reflexivity. Qed.
Lemma set_src_E st v : set_src (Est st) v = Est (set_src st v).
Proof. reflexivity. Qed.

Lemma kwo_match_E l r lk : forall st,
  kwo_match (ES l) (ES r) (map E lk) (Est st) = Est (kwo_match l r lk st).
Proof.
  induction lk as [|p lk IH]; intros st; simpl; [reflexivity|].
  rewrite find_param_E. destruct (find_param (pname p) (kwoargs r)) as [q|]; simpl.
  - rewrite <- IH. f_equal. rewrite <- (eagerize_concile rho p q rho_inj).
    rewrite od_set_E. reflexivity.
  - rewrite <- IH. f_equal. rewrite od_set_E. reflexivity.
Qed.

Definition Epair (x : mstate * list param) := (Est (fst x), map E (snd x)).
Definition Etriple (x : mstate * list param * list param) :=
  (Est (fst (fst x)), map E (snd (fst x)), map E (snd x)).

Lemma varargs_other_E l r s : isSome (varargs (other (ES l) (ES r) s)) = isSome (varargs (other l r s)).
Proof. destruct s; simpl; apply isSome_map. Qed.
Lemma varkwargs_other_E l r s : isSome (varkwargs (other (ES l) (ES r) s)) = isSome (varkwargs (other l r s)).
Proof. destruct s; simpl; apply isSome_map. Qed.

Lemma unb_pos1_E l r s e conv st :
  unb_pos1 (ES l) (ES r) s (E e) (map E conv) (Est st) = res_map Epair (unb_pos1 l r s e conv st).
Proof.
  unfold unb_pos1. destruct conv as [|o conv]; simpl map.
  - rewrite varargs_other_E. destruct (isSome (varargs (other l r s))).
    + simpl. unfold Epair; simpl. f_equal. f_equal.
      rewrite <- excl_va_E, <- add_src1_E. f_equal. f_equal. unfold Est; simpl. rewrite map_app. reflexivity.
    + change (has_def (E e)) with (has_def e). destruct (negb (has_def e)); reflexivity.
  - simpl. unfold Epair; simpl. f_equal. f_equal.
    change (pname (E o)) with (pname o). change (pname (E e)) with (pname e).
    assert (H : set_pos (Est st) (map E (m_pos st) ++ [concile (E e) (E o)]) =
                Est (set_pos st (m_pos st ++ [concile e o]))).
    { rewrite <- (eagerize_concile rho e o rho_inj). unfold Est; simpl. rewrite map_app. reflexivity. }
    rewrite H. destruct (N.eqb (pname o) (pname e)); [apply add_src2_E | apply add_src1_E].
Qed.

Lemma unb_pos_all_E l r s ps : forall conv st,
  unb_pos_all (ES l) (ES r) s (map E ps) (map E conv) (Est st) =
  res_map Epair (unb_pos_all l r s ps conv st).
Proof.
  induction ps as [|p ps IH]; intros conv st; simpl; [reflexivity|].
  rewrite unb_pos1_E. destruct (unb_pos1 l r s p conv st) as [[st1 c1]|e]; simpl; [apply IH | reflexivity].
Qed.

Lemma zip_pos_E l r lp : forall rp il ir st,
  zip_pos (ES l) (ES r) (map E lp) (map E rp) (map E il) (map E ir) (Est st) =
  res_map Etriple (zip_pos l r lp rp il ir st).
Proof.
  induction lp as [|a lp IH]; intros rp il ir st.
  - simpl. rewrite (unb_pos_all_E l r R rp il st).
    destruct (unb_pos_all l r R rp il st) as [[st1 c1]|e]; reflexivity.
  - destruct rp as [|b rp].
    + change (zip_pos (ES l) (ES r) (map E (a :: lp)) (map E []) (map E il) (map E ir) (Est st))
        with (do sc <- unb_pos_all (ES l) (ES r) L (map E (a :: lp)) (map E ir) (Est st) ;;
              Ok (fst sc, map E il, snd sc)).
      rewrite (unb_pos_all_E l r L (a :: lp) ir st).
      change (zip_pos l r (a :: lp) [] il ir st)
        with (do sc <- unb_pos_all l r L (a :: lp) ir st ;; Ok (fst sc, il, snd sc)).
      destruct (unb_pos_all l r L (a :: lp) ir st) as [[st1 c1]|e]; reflexivity.
    + simpl.
      assert (H : set_pos (Est st) (map E (m_pos st) ++ [concile (E a) (E b)]) =
                  Est (set_pos st (m_pos st ++ [concile a b]))).
      { rewrite <- (eagerize_concile rho a b rho_inj). unfold Est; simpl. rewrite map_app. reflexivity. }
      rewrite H.
      destruct (N.eqb (pname a) (pname b)); [rewrite add_src2_E | rewrite add_src1_E]; apply IH.
Qed.

Lemma map_set_kind_E k ps : map (set_kind k) (map E ps) = map E (map (set_kind k) ps).
Proof. rewrite !map_map. reflexivity. Qed.

Lemma set_kwo_od_set_E x p :
  set_kwo (Est x) (od_set (m_kwo (Est x)) (E p)) = Est (set_kwo x (od_set (m_kwo x) p)).
Proof. change (m_kwo (Est x)) with (map E (m_kwo x)). rewrite od_set_E. reflexivity. Qed.

Lemma unb_pok1_E l r s e st :
  unb_pok1 (ES l) (ES r) s (E e) (Est st) = res_map Est (unb_pok1 l r s e st).
Proof.
  unfold unb_pok1. change (pname (E e)) with (pname e).
  rewrite unm_E, find_param_E.
  destruct (find_param (pname e) (unm st (match s with L => R | R => L end))) as [q|]; simpl.
  - f_equal. rewrite remove_param_E, set_unm_E.
    rewrite <- add_src2_E. f_equal.
    rewrite <- (eagerize_concile rho e q rho_inj).
    change (set_kind KO (E (concile e q))) with (E (set_kind KO (concile e q))).
    apply set_kwo_od_set_E.
  - rewrite varargs_other_E, varkwargs_other_E.
    destruct (isSome (varargs (other l r s)) && isSome (varkwargs (other l r s))).
    { simpl. f_equal. rewrite <- add_src1_E. f_equal. unfold Est; simpl. rewrite map_app. reflexivity. }
    destruct (isSome (varkwargs (other l r s))).
    { simpl. f_equal. rewrite <- add_src1_E. f_equal.
      change (set_kind KO (E e)) with (E (set_kind KO e)).
      change (m_kwo (Est st)) with (map E (m_kwo st)). rewrite od_set_E. reflexivity. }
    destruct (isSome (varargs (other l r s))).
    { simpl. f_equal. rewrite <- add_src1_E. f_equal. unfold Est; simpl.
      rewrite !map_app, map_set_kind_E. reflexivity. }
    change (has_def (E e)) with (has_def e). destruct (negb (has_def e)); reflexivity.
Qed.

Lemma unb_pok_all_E l r s ps : forall st,
  unb_pok_all (ES l) (ES r) s (map E ps) (Est st) = res_map Est (unb_pok_all l r s ps st).
Proof.
  induction ps as [|p ps IH]; intros st; simpl; [reflexivity|].
  rewrite unb_pok1_E. destruct (unb_pok1 l r s p st) as [st1|e]; simpl; [apply IH | reflexivity].
Qed.

Lemma zip_pok_E l r il : forall ir st,
  zip_pok (ES l) (ES r) (map E il) (map E ir) (Est st) = res_map Est (zip_pok l r il ir st).
Proof.
  induction il as [|a il IH]; intros ir st.
  - exact (unb_pok_all_E l r R ir st).
  - destruct ir as [|b ir].
    + exact (unb_pok_all_E l r L (a :: il) st).
    + simpl. change (pname (E a)) with (pname a). change (pname (E b)) with (pname b).
      rewrite <- (eagerize_concile rho a b rho_inj).
      destruct (N.eqb (pname a) (pname b)).
      * rewrite <- IH. f_equal. rewrite <- add_src2_E. f_equal. unfold Est; simpl. rewrite map_app. reflexivity.
      * rewrite <- IH. f_equal. rewrite <- add_src1_E. f_equal. unfold Est; simpl.
        rewrite map_app, map_set_kind_E. reflexivity.
Qed.

Lemma fold_add_src1_E l r s u : forall st,
  fold_left (fun a p => add_src1 (ES l) (ES r) a (pname p) s) (map E u) (Est st) =
  Est (fold_left (fun a p => add_src1 l r a (pname p) s) u st).
Proof.
  induction u as [|p u IH]; intros st; simpl; [reflexivity|].
  change (pname (E p)) with (pname p). rewrite add_src1_E. apply IH.
Qed.

Lemma unmatched_kwo_E l r s st :
  unmatched_kwo (ES l) (ES r) s (Est st) = res_map Est (unmatched_kwo l r s st).
Proof.
  unfold unmatched_kwo. rewrite unm_E. generalize (unm st s). intros u.
  destruct u as [|p u]; [reflexivity|].
  cbn [map]. change (E p :: map E u) with (map E (p :: u)).
  rewrite varkwargs_other_E. destruct (isSome (varkwargs (other l r s))).
  - unfold res_map. f_equal. rewrite <- excl_vk_E. f_equal.
    change (m_kwo (Est st)) with (map E (m_kwo st)). rewrite od_update_E, set_kwo_E.
    apply fold_add_src1_E.
  - rewrite forallb_has_def_E. destruct (forallb has_def (p :: u)); reflexivity.
Qed.

Lemma normalise_pok_E st : normalise_pok (Est st) = Est (normalise_pok st).
Proof.
  unfold normalise_pok. change (m_pok (Est st)) with (map E (m_pok st)).
  rewrite split_po_prefix_E. destruct (split_po_prefix (m_pok st)) as [a b]; simpl.
  unfold Est; simpl. rewrite map_app. reflexivity.
Qed.

Definition Eos (x : option param * mstate) := (Eo (fst x), Est (snd x)).

Lemma add_star_E l r xl xr sl sr st :
  add_star (ES l) (ES r) xl xr (Eo sl) (Eo sr) (Est st) = Eos (add_star l r xl xr sl sr st).
Proof.
  unfold add_star. destruct sl as [a|]; [|reflexivity]. destruct sr as [b|]; [|reflexivity].
  simpl. destruct (negb xl && negb xr).
  - unfold Eos; simpl. rewrite <- (eagerize_concile rho a b rho_inj). f_equal.
    change (pname (E a)) with (pname a). change (pname (E b)) with (pname b).
    destruct (N.eqb (pname a) (pname b)); [apply add_src2_E | apply add_src1_E].
  - destruct (negb xl); unfold Eos; simpl; f_equal; apply add_src1_E.
Qed.

Lemma merger_E l r : merger (ES l) (ES r) = res_map ES (merger l r).
Proof.
  unfold merger.
  change (mkM [] [] [] [] false false false false [] []) with (Est (mkM [] [] [] [] false false false false [] [])) at 1.
  change (kwoargs (ES l)) with (map E (kwoargs l)). rewrite kwo_match_E.
  rewrite r_unmatched_E, set_unm_E.
  change (posargs (ES l)) with (map E (posargs l)). change (posargs (ES r)) with (map E (posargs r)).
  change (pokargs (ES l)) with (map E (pokargs l)). change (pokargs (ES r)) with (map E (pokargs r)).
  rewrite zip_pos_E.
  destruct (zip_pos l r (posargs l) (posargs r) (pokargs l) (pokargs r) _) as [[[st3 il] ir]|e]; [|reflexivity].
  simpl. rewrite zip_pok_E. destruct (zip_pok l r il ir st3) as [st4|e]; [|reflexivity].
  simpl. rewrite unmatched_kwo_E. destruct (unmatched_kwo l r L st4) as [st5|e]; [|reflexivity].
  simpl. rewrite unmatched_kwo_E. destruct (unmatched_kwo l r R st5) as [st6|e]; [|reflexivity].
  simpl. rewrite normalise_pok_E.
  change (varargs (ES l)) with (Eo (varargs l)). change (varargs (ES r)) with (Eo (varargs r)).
  change (m_xva_l (Est (normalise_pok st6))) with (m_xva_l (normalise_pok st6)).
  change (m_xva_r (Est (normalise_pok st6))) with (m_xva_r (normalise_pok st6)).
  rewrite add_star_E.
  destruct (add_star l r (m_xva_l (normalise_pok st6)) (m_xva_r (normalise_pok st6)) (varargs l) (varargs r) (normalise_pok st6)) as [va st8].
  unfold Eos at 1; simpl fst; simpl snd.
  change (varkwargs (ES l)) with (Eo (varkwargs l)). change (varkwargs (ES r)) with (Eo (varkwargs r)).
  change (m_xvk_l (Est st8)) with (m_xvk_l st8). change (m_xvk_r (Est st8)) with (m_xvk_r st8).
  rewrite add_star_E.
  destruct (add_star l r (m_xvk_l st8) (m_xvk_r st8) (varkwargs l) (varkwargs r) st8) as [vk st9].
  reflexivity.
Qed.

Lemma sort_aux_E ps : forall acc, sort_aux (map E ps) (ES acc) = ES (sort_aux ps acc).
Proof.
  induction ps as [|p ps IH]; intros acc; simpl; [reflexivity|].
  destruct (pkind p); rewrite <- IH; f_equal; unfold ES; simpl; rewrite ?map_app, ?od_set_E; reflexivity.
Qed.

Lemma sort_params_E s : sort_params (eagerize rho s) = ES (sort_params s).
Proof. unfold sort_params. simpl. rewrite <- sort_aux_E. reflexivity. Qed.

Lemma validate_aux_E ps : forall top sd seen,
  validate_aux (map E ps) top sd seen = validate_aux ps top sd seen.
Proof.
  induction ps as [|p ps IH]; intros top sd seen; simpl; [reflexivity|].
  rewrite IH. reflexivity.
Qed.

Lemma flatten_E s : flatten (ES s) = map E (flatten s).
Proof.
  unfold flatten, ES; simpl. rewrite !map_app.
  destruct (varargs s), (varkwargs s); reflexivity.
Qed.

Lemma apply_params_E base s :
  apply_params (eagerize rho base) (ES s) = res_map (eagerize rho) (apply_params base s).
Proof.
  unfold apply_params. rewrite flatten_E. unfold validate. rewrite validate_aux_E.
  destruct (validate_aux (flatten s) 0 false []); reflexivity.
Qed.

Lemma merge_steps_E ss : forall acc,
  merge_steps (ES acc) (map (eagerize rho) ss) = res_map ES (merge_steps acc ss).
Proof.
  induction ss as [|s ss IH]; intros acc; simpl; [reflexivity|].
  rewrite sort_params_E, merger_E.
  destruct (merger acc (sort_params s)) as [a|e]; simpl; [apply IH|]. destruct e; reflexivity.
Qed.

Theorem merge_E ss : merge (map (eagerize rho) ss) = res_map (eagerize rho) (merge ss).
Proof.
  destruct ss as [|s0 ss]; simpl; [reflexivity|].
  rewrite sort_params_E, merge_steps_E.
  destruct (merge_steps (sort_params s0) ss) as [acc|e]; simpl; [apply apply_params_E | reflexivity].
Qed.

(* a parameter whose wrapper evaluates to the object rho gives its raw annotation *)
Definition coherent (g : genv) (p : param) : Prop :=
  source_value g (puann p) = option_map rho (pann p).
Definition coherent_sig (g : genv) (s : sigT) : Prop :=
  Forall (coherent g) (params s) /\ source_value g (uret s) = option_map rho (ret s).

Lemma coherent_conc g a b : coherent g a -> coherent g b -> coherent g (concile a b).
Proof.
  unfold coherent, concile; simpl. intros Ha Hb.
  destruct (pann a) as [x|], (pann b) as [y|]; simpl in *; auto.
  destruct (N.eqb x y); simpl; auto.
Qed.

Lemma observe_eagerize g s : coherent_sig g s -> observe g (eagerize rho s) = observe g s.
Proof.
  intros [Hp Hr]. unfold observe, eagerize; simpl. f_equal.
  - rewrite map_map. apply map_ext_in. intros p Hin.
    rewrite Forall_forall in Hp. specialize (Hp p Hin). unfold coherent in Hp.
    unfold observe_param; simpl. rewrite Hp. destruct (pann p); reflexivity.
  - rewrite Hr. destruct (ret s); reflexivity.
Qed.

Theorem pep563_merge g ss : Forall (coherent_sig g) ss ->
  res_map (observe g) (merge (map (eagerize rho) ss)) = res_map (observe g) (merge ss).
Proof.
  intros Hss. rewrite merge_E. destruct (merge ss) as [r|e] eqn:Em; simpl; [|reflexivity].
  f_equal. apply observe_eagerize.
  destruct ss as [|s0 ss]; [discriminate Em|].
  destruct (merge_ret _ _ _ Em) as [Er Eu]. split.
  - eapply (merge_P (coherent g)); [| | |exact Em].
    + intros k p H; exact H.
    + intros a b; apply coherent_conc.
    + eapply Forall_impl; [|exact Hss]. intros s Hs; apply Hs.
  - rewrite Er, Eu. inversion Hss as [|s' ss' Hs0 Hss']; subst. apply Hs0.
Qed.

(* every spelling written on d denotes rho(spelling) in d's globals, and d is
   compiled with the future flag *)
Definition twin_ok (g : genv) (d : fdesc) : Prop :=
  let '(fl, f, rps, rr) := d in
  fl = Some true /\
  (forall x k dd a, In (x, k, dd, Some a) rps -> g f a = Some (rho a)) /\
  (forall a, rr = Some a -> g f a = Some (rho a)).

Lemma up_eager_twin g d : twin_ok g d -> up (eager_twin g d) = eagerize rho (up d).
Proof.
  destruct d as [[[fl f] rps] rr]. intros [Hfl [Hp Hr]]. subst fl.
  unfold up, eager_twin, upgrade_sig, eagerize; simpl. f_equal.
  - rewrite !map_map. apply map_ext_in. intros [[[x k] dd] a] Hin. simpl.
    destruct a as [a|]; simpl; [|reflexivity]. rewrite (Hp _ _ _ _ Hin). reflexivity.
  - destruct rr as [a|]; simpl; [|reflexivity]. rewrite (Hr a eq_refl). reflexivity.
  - destruct rr as [a|]; simpl; [|reflexivity]. rewrite (Hr a eq_refl). reflexivity.
  - rewrite map_map. apply map_ext. intros [[[x k] dd] a]. reflexivity.
Qed.

Lemma up_coherent g d : twin_ok g d -> coherent_sig g (up d).
Proof.
  destruct d as [[[fl f] rps] rr]. intros [Hfl [Hp Hr]]. subst fl. split.
  - simpl. apply Forall_forall. intros p Hin. apply in_map_iff in Hin.
    destruct Hin as [[[[x k] dd] a] [Hq Hin]]. subst p. unfold coherent; simpl.
    destruct a as [a|]; simpl; [|reflexivity]. exact (Hp _ _ _ _ Hin).
  - simpl. destruct rr as [a|]; simpl; [|reflexivity]. exact (Hr a eq_refl).
Qed.

Theorem pep563_partial g ds : Forall (twin_ok g) ds ->
  res_map (observe g) (merge (map up (map (eager_twin g) ds))) =
  res_map (observe g) (merge (map up ds)).
Proof.
  intros H. rewrite <- (pep563_merge g (map up ds)).
  - f_equal. f_equal. rewrite !map_map. apply map_ext_in. intros d Hd.
    apply up_eager_twin. rewrite Forall_forall in H. apply H; exact Hd.
  - apply Forall_forall. intros s Hs. apply in_map_iff in Hs. destruct Hs as [d [Hd Hin]]. subst s.
    apply up_coherent. rewrite Forall_forall in H. apply H; exact Hin.
Qed.
End Twin.

Example pep563_partial_hyp_sat :
  injective (fun x : N => x + 1) /\
  Forall (twin_ok (fun x => x + 1) (fun f raw => Some (raw + 1)))
         [(Some true, 100, [(1, PK, None, Some 500)], Some 501);
          (Some true, 101, [(1, PK, None, Some 501)], None)].
Proof.
  split.
  - intros a b H. lia.
  - repeat constructor; simpl; intros; try reflexivity.
Qed.
