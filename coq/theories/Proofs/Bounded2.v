(* Bounded2.v — reflective theorems for mask (C03), functools.partial (C19) and
   embed (C02) over the finite universes, lifted from the sweeps with the
   decider-completeness theorems of Proofs/Deciders.v to statements about ALL
   calls.  The bound on the signatures is part of every statement. *)
From Sigtools.Model Require Import Universe.
From Sigtools.Proofs Require Import SmallModel Deciders SweepDefs SweepDefs2.
From Sigtools.Proofs.Sweep Require MK.
From Sigtools.Proofs.Sweep Require ME0 ME1 ME2 ME3 ME4 ME5 ME6 ME7 ME8 ME9 ME10 ME11 ME12 ME13 ME14 ME15.

Lemma forallb3_in' {A B C} (f : A -> B -> C -> bool) la lb lc :
  forallb (fun a => forallb (fun b => forallb (fun c => f a b c) lc) lb) la = true ->
  forall a b c, In a la -> In b lb -> In c lc -> f a b c = true.
Proof.
  intros H a b c Ha Hb Hc. rewrite forallb_forall in H. specialize (H a Ha). cbv beta in H.
  rewrite forallb_forall in H. specialize (H b Hb). cbv beta in H.
  rewrite forallb_forall in H. exact (H c Hc).
Qed.

Lemma mask_sweep_in l : mask_sweep l = true ->
  forall s n ns, In s l -> In n counts -> In ns name_tuples -> mask_check s n ns = true.
Proof. unfold mask_sweep. intros H. exact (forallb3_in' mask_check l counts name_tuples H). Qed.

Lemma partial_sweep_in l : partial_sweep l = true ->
  forall s n ns, In s l -> In n counts -> In ns name_tuples -> partial_check s n ns = true.
Proof. unfold partial_sweep. intros H. exact (forallb3_in' partial_check l counts name_tuples H). Qed.

Lemma embed_sweep_in l : embed_sweep l = true ->
  forall o i f, In o l -> In i U1cd -> In f flagsets -> embed_check o i (fst f) (snd f) = true.
Proof.
  unfold embed_sweep. intros H.
  exact (forallb3_in' (fun o i f => embed_check o i (fst f) (snd f)) l U1cd flagsets H).
Qed.

Lemma embed_sweep_chunks (l : list (list param)) n :
  (forall k, In k (seq 0 n) -> embed_sweep (chunk ECH k l) = true) ->
  embed_sweep (flat_map (fun k => chunk ECH k l) (seq 0 n)) = true.
Proof.
  intros HH. unfold embed_sweep. rewrite forallb_flat_map.
  apply forallb_forall. intros k Hk. apply (HH k Hk).
Qed.

Lemma U2_echunks_sweep k : In k (seq 0 16) -> embed_sweep (chunk ECH k U2ab) = true.
Proof.
  intros Hk. cbv [seq In] in Hk.
  destruct Hk as [<-|Hk]; [exact ME0.me|].
  destruct Hk as [<-|Hk]; [exact ME1.me|].
  destruct Hk as [<-|Hk]; [exact ME2.me|].
  destruct Hk as [<-|Hk]; [exact ME3.me|].
  destruct Hk as [<-|Hk]; [exact ME4.me|].
  destruct Hk as [<-|Hk]; [exact ME5.me|].
  destruct Hk as [<-|Hk]; [exact ME6.me|].
  destruct Hk as [<-|Hk]; [exact ME7.me|].
  destruct Hk as [<-|Hk]; [exact ME8.me|].
  destruct Hk as [<-|Hk]; [exact ME9.me|].
  destruct Hk as [<-|Hk]; [exact ME10.me|].
  destruct Hk as [<-|Hk]; [exact ME11.me|].
  destruct Hk as [<-|Hk]; [exact ME12.me|].
  destruct Hk as [<-|Hk]; [exact ME13.me|].
  destruct Hk as [<-|Hk]; [exact ME14.me|].
  destruct Hk as [<-|Hk]; [exact ME15.me|].
  destruct Hk.
Qed.

Lemma U2_embed_sweep : embed_sweep U2ab = true.
Proof.
  exact (eq_ind _ (fun l => embed_sweep l = true)
                (embed_sweep_chunks U2ab 16 U2_echunks_sweep) _ U2ab_echunks).
Qed.

(* names drawn from the signature's own names never contain the fresh keyword *)
Lemma own_names_not_fresh (r s : list param) names0 :
  forallb (fun k => mem k (names_of s)) names0 = true ->
  ~ In (fresh_for (dedup (all_names [r; s]))) names0.
Proof.
  intros H Hin. rewrite forallb_forall in H. specialize (H _ Hin). apply mem_In in H.
  apply (fresh_for_not_in (dedup (all_names [r; s]))). apply dedup_In.
  unfold all_names. simpl. apply in_or_app. right. apply in_or_app. left. exact H.
Qed.

Lemma own_names_not_fresh1 (s : list param) names0 :
  forallb (fun k => mem k (names_of s)) names0 = true ->
  ~ In (fresh_for (dedup (all_names [s]))) names0.
Proof.
  intros H Hin. rewrite forallb_forall in H. specialize (H _ Hin). apply mem_In in H.
  apply (fresh_for_not_in (dedup (all_names [s]))). apply dedup_In.
  unfold all_names. simpl. apply in_or_app. left. exact H.
Qed.

(* C03, bounded: every signature of U(2,{a,b}), n <= 4, every duplicate-free
   tuple of its own non-positional-only names, ALL calls *)
Theorem mask_exact_U2 s n names0 :
  In s U2ab -> In n counts -> In names0 name_tuples -> names_avoid_po s names0 = true ->
  match mask (mk s) n names0 nohide with
  | Ok r => forall c, disjointb (kws c) names0 = true -> noncolliding c (params r) [s] = true ->
                      accepts (params r) c = accepts s (shift_call n names0 c)
  | Err e => e = ValueErr /\
             forall c, disjointb (kws c) names0 = true -> accepts s (shift_call n names0 c) = false
  end.
Proof.
  intros Hs Hn Hns Hav.
  pose proof (mask_sweep_in U2ab MK.mk s n names0 Hs Hn Hns) as H.
  unfold mask_check in H. rewrite Hav in H. cbn [negb orb] in H.
  unfold names_avoid_po in Hav. apply andb_true_iff in Hav. destruct Hav as [_ Hown].
  destruct (mask (mk s) n names0 nohide) as [r|e].
  - intros c Hd Hnc.
    exact (mask_exact_cex_complete (params r) s n names0 (own_names_not_fresh _ _ _ Hown)
                                   (isNone_true _ H) c Hd Hnc).
  - destruct e; try discriminate. split; [reflexivity|]. intros c Hd.
    exact (mask_none_cex_complete s n names0 (own_names_not_fresh1 _ _ Hown) (isNone_true _ H) c Hd).
Qed.

(* C19, bounded: functools.partial over the same universe, ALL calls *)
Theorem partial_exact_U2 s n names0 :
  In s U2ab -> In n counts -> In names0 name_tuples -> names_avoid_po s names0 = true ->
  match sig_partial (mk s) n (map (fun k => (k, 5)) names0) 200 with
  | Ok r => forall c, noncolliding c (params r) [s] = true ->
                      accepts (params r) c = accepts s (partial_call n names0 c)
  | Err e => e = ValueErr /\ forall c, accepts s (partial_call n names0 c) = false
  end.
Proof.
  intros Hs Hn Hns Hav.
  pose proof (partial_sweep_in U2ab MK.pk s n names0 Hs Hn Hns) as H.
  unfold partial_check in H. rewrite Hav in H. cbn [negb orb] in H.
  destruct (sig_partial (mk s) n (map (fun k => (k, 5)) names0) 200) as [r|e].
  - intros c Hnc. exact (partial_exact_cex_complete (params r) s n names0 (isNone_true _ H) c Hnc).
  - destruct e; try discriminate. split; [reflexivity|]. intros c.
    exact (partial_none_cex_complete s n names0 (isNone_true _ H) c).
Qed.

(* C02, bounded: outer in U(2,{a,b}), inner in U(1,{c,d}), the four flag
   combinations, ALL calls: soundness always, exactness unless outer has a
   defaulted positional parameter, and the raise condition *)
Theorem embed_chain_U2 o i uva uvk :
  In o U2ab -> In i U1cd ->
  match embed [mk o; mk i] uva uvk with
  | Ok r =>
      (forall c, noncolliding c (params r) [o; i] = true -> accepts (params r) c = true ->
                 chain o i uva uvk 0 [] c = true) /\
      (has_default_pos o = false ->
       forall c, noncolliding c (params r) [o; i] = true ->
                 accepts (params r) c = chain o i uva uvk 0 [] c)
  | Err Incompatible =>
      existsb (fun p => is_named p && mem (pname p) (names_of (filter is_named i))) o = true
      \/ forall c, chain o i uva uvk 0 [] c = false
  | Err _ => True
  end.
Proof.
  intros Ho Hi.
  assert (Hf : In (uva, uvk) flagsets) by (destruct uva, uvk; simpl; auto).
  pose proof (embed_sweep_in U2ab U2_embed_sweep o i (uva, uvk) Ho Hi Hf) as H.
  cbn [fst snd] in H. unfold embed_check in H.
  destruct (embed [mk o; mk i] uva uvk) as [r|e].
  - apply andb_true_iff in H. destruct H as [H1 H2]. split.
    + intros c Hn Ha.
      exact (chain_sound_cex_complete (params r) o i uva uvk 0 [] [] (isNone_true _ H1) c Hn Ha).
    + intros Hd c Hn. rewrite Hd in H2. cbn [orb] in H2.
      exact (chain_exact_cex_complete (params r) o i uva uvk 0 [] [] (isNone_true _ H2) c Hn).
  - destruct e; try exact I.
    apply orb_true_iff in H. destruct H as [H|H]; [left; exact H|right].
    exact (chain_none_cex_complete o i uva uvk 0 [] (isNone_true _ H)).
Qed.
