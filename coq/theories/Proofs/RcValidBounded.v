(* RcValidBounded.v -- C15_rc_valid beyond two inputs: a bounded cross-check and the
   reason why the pair theorem of RcValid.v does not simply iterate.

   The n-ary merge is (FoldLaw.v) merge (merge [a; b] :: rest), but role consistency is
   NOT preserved by a merge step ([rc_not_preserved_by_merge]: merge((a), (b)) = (a, /),
   which no longer agrees with a third input (a) on the kind of a).  RcValidN.v therefore
   carries a weaker relation through the fold and proves the statement for ALL valid
   role-consistent inputs ([merge_rc_valid_n]); the sweep below is an independent
   check on every role-consistent triple of U(1,{a,b}) (bound in the statement).
   The same sweep over U(2,{a,b}) (220^3 triples) was run with vm_compute outside the
   build (no violation; about 90 s as an Eval; several minutes as a lemma) and is not part of the files. *)
From Sigtools.Model Require Import Base Bind Roles Algebra Universe.
From Sigtools.Proofs Require Import SmallModel Basics.

Definition isVE (x : res sigT) : bool := match x with Err ValueErr => true | _ => false end.

Definition rc3_check (a b c : list param) : bool :=
  negb (role_consistent [a; b; c]) || negb (isVE (merge [mk a; mk b; mk c])).

(* triples, skipping early the pairs that are not role-consistent *)
Definition sweep3g {A} (g : A -> A -> bool) (f : A -> A -> A -> bool) (la lb lc : list A) : bool :=
  forallb (fun a => forallb (fun b => negb (g a b) || forallb (fun c => f a b c) lc) lb) la.

Lemma sweep3g_in {A} (g : A -> A -> bool) (f : A -> A -> A -> bool) la lb lc :
  sweep3g g f la lb lc = true ->
  forall a b c, In a la -> In b lb -> In c lc -> g a b = true -> f a b c = true.
Proof.
  unfold sweep3g. intros H a b c Ha Hb Hc Hg. rewrite forallb_forall in H. specialize (H a Ha). cbv beta in H.
  rewrite forallb_forall in H. specialize (H b Hb). cbv beta in H. rewrite Hg in H. cbn [negb orb] in H.
  rewrite forallb_forall in H. exact (H c Hc).
Qed.

Definition rc2 (a b : list param) : bool := role_consistent [a; b].

Lemma rc3_rc2 a b c : role_consistent [a; b; c] = true -> rc2 a b = true.
Proof.
  unfold rc2. cbn [role_consistent forallb]. intros H.
  apply andb_true_iff in H. destruct H as [H _]. apply andb_true_iff in H. destruct H as [H _].
  rewrite H. reflexivity.
Qed.

Lemma rc3_sweep_in l :
  sweep3g rc2 rc3_check l l l = true ->
  forall a b c, In a l -> In b l -> In c l -> role_consistent [a; b; c] = true ->
                merge [mk a; mk b; mk c] <> Err ValueErr.
Proof.
  intros H a b c Ha Hb Hc Hr E.
  pose proof (sweep3g_in rc2 rc3_check l l l H a b c Ha Hb Hc (rc3_rc2 a b c Hr)) as X.
  unfold rc3_check in X. rewrite Hr, E in X. discriminate.
Qed.

Lemma rc3_U1_sweep : sweep3g rc2 rc3_check U1ab U1ab U1ab = true.
Proof. vm_compute. reflexivity. Qed.

(* Bounded (bound in the statement): every role-consistent triple of U(1,{a,b}) *)
Theorem merge_rc_valid_triples_U1 a b c :
  In a U1ab -> In b U1ab -> In c U1ab -> role_consistent [a; b; c] = true ->
  merge [mk a; mk b; mk c] <> Err ValueErr.
Proof. exact (rc3_sweep_in U1ab rc3_U1_sweep a b c). Qed.

(* why the pair theorem does not iterate: a merge step changes kinds
   (names a=1, b=2: merge((a), (b)) = (a, /)) *)
Theorem rc_not_preserved_by_merge :
  exists a b c r1,
    valid_sig a = true /\ valid_sig b = true /\ valid_sig c = true /\
    role_consistent [a; b; c] = true /\ merge [mk a; mk b] = Ok r1 /\
    role_consistent [params r1; c] = false.
Proof.
  exists [mkParam 1 PK None None UEmpty], [mkParam 2 PK None None UEmpty], [mkParam 1 PK None None UEmpty].
  eexists. repeat split; try (vm_compute; reflexivity).
Qed.

Print Assumptions merge_rc_valid_triples_U1.
Print Assumptions rc_not_preserved_by_merge.
