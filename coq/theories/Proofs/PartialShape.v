(* PartialShape.v — C19_shape for ALL valid signatures: the signature of
   functools.partial(f, <n positionals>, **kw) in closed form.
   - the n bound positionals disappear;
   - the positional-or-keyword parameters before the first one bound by keyword
     stay; that one and all following ones become keyword-only, a bound one with
     the bound value as default; the star-args parameter disappears as soon as a
     positional-or-keyword parameter is bound by keyword;
   - a bound keyword-only parameter keeps its place and gets the bound value as
     default;
   - a keyword absorbed by the double-star parameter shows up as a keyword-only
     parameter with the bound value as default, sourced to the partial object;
   - the partial object has depth 0, every depth of the function grows by one. *)
From Sigtools.Model Require Import Base Bind Roles Algebra.
From Sigtools.Proofs Require Import SmallModel Basics MaskLaws MaskExact MergeNeutral Prov
     MaskNamesLib MaskNamesStep MaskNames MaskAlgebra.
From Coq Require Import Lia Permutation.

(* ------------------------------------------------------------------ *)
(* the closed form                                                      *)

Fixpoint lookup (x : name) (kvs : list (name * N)) : option N :=
  match kvs with
  | [] => None
  | (k, v) :: kvs' => if N.eqb x k then Some v else lookup x kvs'
  end.

(* a parameter named by a bound keyword is keyword-only with the bound value as default *)
Definition bindv (kvs : list (name * N)) (p : param) : param :=
  match lookup (pname p) kvs with
  | Some v => set_def (Some v) (set_kind KO p)
  | None => p
  end.

Definition newp (kv : name * N) : param := mkParam (fst kv) KO (Some (snd kv)) None UEmpty.

(* the bound keywords that name no keyword-passable parameter *)
Definition absorbed (kvs : list (name * N)) (pok kwo : list param) : list (name * N) :=
  filter (fun kv => negb (mem (fst kv) (names_of pok ++ names_of kwo))) kvs.

Definition kwo_formP (kvs : list (name * N)) (pok kwo : list param) : list param :=
  map (bindv kvs) (kwo ++ map (set_kind KO) (dropw (nh (map fst kvs)) pok))
  ++ map newp (absorbed kvs pok kwo).

Lemma lookup_notin x kvs : ~ In x (map fst kvs) -> lookup x kvs = None.
Proof.
  induction kvs as [|[k v] kvs IH]; intros H; cbn [lookup]; [reflexivity|].
  destruct (N.eqb_spec x k) as [E|_]; [exfalso; apply H; left; symmetry; exact E|].
  apply IH. intros X. apply H. right. exact X.
Qed.

Lemma bindv_cons_ne x v kvs q : pname q <> x -> bindv ((x, v) :: kvs) q = bindv kvs q.
Proof. intros H. unfold bindv. cbn [lookup]. destruct (N.eqb_spec (pname q) x); [contradiction|reflexivity]. Qed.

Lemma bindv_cons_eq x v kvs q : pname q = x -> bindv ((x, v) :: kvs) q = set_def (Some v) (set_kind KO q).
Proof. intros H. unfold bindv. cbn [lookup]. rewrite H, N.eqb_refl. reflexivity. Qed.

Lemma bindv_notin kvs q : ~ In (pname q) (map fst kvs) -> bindv kvs q = q.
Proof. intros H. unfold bindv. rewrite (lookup_notin _ _ H). reflexivity. Qed.

Lemma map_bindv_ne x v kvs l :
  ~ In x (names_of l) -> map (bindv ((x, v) :: kvs)) l = map (bindv kvs) l.
Proof.
  intros H. apply map_ext_in. intros q Hq. apply bindv_cons_ne. intros E. apply H. rewrite <- E.
  apply in_names. exact Hq.
Qed.

Lemma mem_same (l1 l2 : list name) y : (forall z, In z l1 <-> In z l2) -> mem y l1 = mem y l2.
Proof. intros H. apply eq_true_iff_eq. rewrite !mem_In. apply H. Qed.

(* ---- how the positional-or-keyword bucket evolves ---- *)
Lemma pok_step_hit x ns before p after va :
  pname p = x -> ~ In x (names_of before) ->
  takew (nh ns) before = takew (nh (x :: ns)) (before ++ p :: after) /\
  va_form ns before None = va_form (x :: ns) (before ++ p :: after) va /\
  dropw (nh (x :: ns)) (before ++ p :: after) = dropw (nh ns) before ++ p :: after.
Proof.
  intros Hp Hxb.
  assert (Hb : forall q, In q before -> nh (x :: ns) q = nh ns q).
  { intros q Hq. apply nh_cons_ne. intros E. apply Hxb. rewrite <- E. apply in_names. exact Hq. }
  assert (Hgp : nh (x :: ns) p = false) by (apply nh_cons_eq; exact Hp).
  assert (Efb : forallb (nh (x :: ns)) before = forallb (nh ns) before) by (apply forallb_ext_in; exact Hb).
  split; [|split].
  - rewrite takew_app, Efb. cbn [takew]. rewrite Hgp, app_nil_r.
    rewrite (takew_ext_in _ _ before Hb).
    destruct (forallb (nh ns) before) eqn:Ef; [apply takew_all; exact Ef|reflexivity].
  - unfold va_form. rewrite forallb_app. cbn [forallb]. rewrite Hgp, andb_false_r.
    destruct (forallb (nh ns) before); reflexivity.
  - rewrite dropw_app, Efb. cbn [dropw]. rewrite Hgp. rewrite (dropw_ext_in _ _ before Hb).
    destruct (forallb (nh ns) before) eqn:Ef; [rewrite (dropw_all _ _ Ef); reflexivity|reflexivity].
Qed.

Lemma pok_step_miss x ns pok va :
  ~ In x (names_of pok) ->
  takew (nh ns) pok = takew (nh (x :: ns)) pok /\
  va_form ns pok va = va_form (x :: ns) pok va /\
  dropw (nh (x :: ns)) pok = dropw (nh ns) pok.
Proof.
  intros Hxp.
  assert (Hb : forall q, In q pok -> nh (x :: ns) q = nh ns q).
  { intros q Hq. apply nh_cons_ne. intros E. apply Hxp. rewrite <- E. apply in_names. exact Hq. }
  split; [|split].
  - symmetry. apply takew_ext_in. exact Hb.
  - unfold va_form. rewrite (forallb_ext_in _ _ _ Hb). reflexivity.
  - apply dropw_ext_in. exact Hb.
Qed.

Lemma dropw_names_incl (f : param -> bool) l x : In x (names_of (dropw f l)) -> In x (names_of l).
Proof.
  unfold names_of. rewrite !in_map_iff. intros [q [E Hq]]. exists q. split; [exact E|].
  exact (dropw_incl _ _ _ Hq).
Qed.

(* ---- one step of the loop in partial mode ---- *)
Lemma mask_name_some_cases pobj hv pos1 vk st x v :
  KInv pos1 vk st ->
  match mask_name (Some pobj) hv st (x, v) with
  | Ok st' =>
      ~ In x (k_consumed st) /\ k_consumed st' = x :: k_consumed st /\
      ((exists before p after,
          k_pok st = before ++ p :: after /\ pname p = x /\ ~ In x (names_of before) /\
          ~ In x (names_of after) /\ ~ In x (names_of (k_kwo st)) /\
          k_pok st' = before /\ k_va st' = None /\
          k_kwo st' = (k_kwo st ++ map (set_kind KO) after) ++ [set_def (Some v) (set_kind KO p)] /\
          (forall y, (forall w, k_va st = Some w -> pname w <> y) ->
                     src_get (k_src st') y = src_get (k_src st) y))
       \/ (exists l1 p l2,
             ~ In x (names_of (k_pok st)) /\ k_kwo st = l1 ++ p :: l2 /\ pname p = x /\
             ~ In x (names_of l1) /\
             k_pok st' = k_pok st /\ k_va st' = k_va st /\
             k_kwo st' = l1 ++ set_def (Some v) (set_kind KO p) :: l2 /\ k_src st' = k_src st)
       \/ (~ In x (names_of (k_pok st)) /\ ~ In x (names_of (k_kwo st)) /\ hv = true /\
           k_pok st' = k_pok st /\ k_va st' = k_va st /\
           k_kwo st' = k_kwo st ++ [newp (x, v)] /\ k_src st' = src_set (k_src st) x [pobj]))
  | Err e => e = ValueErr
  end.
Proof.
  intros Hinv. unfold mask_name. cbn [fst snd].
  destruct (mem x (k_consumed st)) eqn:E; [reflexivity|]. apply mem_false_In in E.
  pose proof (split_at_name_spec x (k_pok st)) as Sp.
  destruct (split_at_name x (k_pok st)) as [[[a p] b]|].
  - destruct Sp as (E1 & E2 & E3). split; [exact E|]. split; [reflexivity|]. left.
    destruct (od_update_after pos1 vk st a p b Hinv E1) as (Eu & _ & Hxa & Hxk). rewrite E2 in Hxa, Hxk.
    exists a, p, b. cbn [k_pok k_va k_kwo k_src]. rewrite Eu.
    split; [exact E1|]. split; [exact E2|]. split; [exact E3|]. split; [exact Hxa|]. split; [exact Hxk|].
    split; [reflexivity|]. split; [reflexivity|]. split.
    + apply od_set_fresh. cbn [set_def set_kind pname]. rewrite E2, names_of_app, names_of_set_kind.
      intros X. apply in_app_or in X. tauto.
    + intros y Hy. destruct (k_va st) as [w|]; [|reflexivity].
      destruct (isSome _); [reflexivity|]. rewrite src_get_pop.
      destruct (N.eqb_spec y (pname w)) as [Ey|_]; [|reflexivity].
      exfalso. apply (Hy w eq_refl). symmetry. exact Ey.
  - pose proof (find_param_split x (k_kwo st)) as F.
    destruct (find_param x (k_kwo st)) as [p|].
    + destruct F as (l1 & l2 & E1 & E2 & E3). split; [exact E|]. split; [reflexivity|]. right. left.
      exists l1, p, l2. cbn [k_pok k_va k_kwo k_src]. repeat split; auto.
      rewrite E1. apply od_set_mid; [reflexivity|rewrite E2; exact E3].
    + destruct hv; cbn [negb]; [|reflexivity].
      split; [exact E|]. split; [reflexivity|]. right. right. cbn [k_pok k_va k_kwo k_src].
      repeat split; auto. apply (od_set_fresh (k_kwo st) (mkParam x KO (Some v) None UEmpty) F).
Qed.

Lemma map_bindv_nil l : map (bindv []) l = l.
Proof. rewrite <- (map_id l) at 2. apply map_ext. intros q. reflexivity. Qed.

Lemma absorbed_ext kvs pok kwo pok' kwo' :
  (forall kv, In kv kvs ->
     (In (fst kv) (names_of pok ++ names_of kwo) <-> In (fst kv) (names_of pok' ++ names_of kwo'))) ->
  absorbed kvs pok kwo = absorbed kvs pok' kwo'.
Proof.
  intros H. unfold absorbed. apply filter_ext_in. intros kv Hkv. f_equal.
  apply eq_true_iff_eq. rewrite !mem_In. apply H. exact Hkv.
Qed.

Lemma in_fst_absorbed kvs pok kwo y :
  In y (map fst (absorbed kvs pok kwo)) ->
  In y (map fst kvs) /\ ~ In y (names_of pok ++ names_of kwo).
Proof.
  unfold absorbed. rewrite !in_map_iff. intros [kv [E Hkv]]. apply filter_In in Hkv. destruct Hkv as [H1 H2].
  split; [exists kv; auto|]. apply negb_true_iff in H2. apply mem_false_In in H2. rewrite <- E. exact H2.
Qed.

Lemma partial_names_closed pobj hv pos1 vk : forall kvs st,
  KInv pos1 vk st -> hv = isSome vk -> NoDup (map fst kvs) ->
  (forall x, In x (map fst kvs) ->
     ~ In x (names_of pos1 ++ names_of (opt_list (k_va st)) ++ names_of (opt_list vk))) ->
  forall stf, mask_names (Some pobj) hv st kvs = Ok stf ->
    k_pok stf = takew (nh (map fst kvs)) (k_pok st) /\
    k_va stf = va_form (map fst kvs) (k_pok st) (k_va st) /\
    Permutation (k_kwo stf) (kwo_formP kvs (k_pok st) (k_kwo st)) /\
    KInv pos1 vk stf /\
    (forall kv, In kv (absorbed kvs (k_pok st) (k_kwo st)) -> src_get (k_src stf) (fst kv) = [pobj]) /\
    (forall y, (forall w, k_va st = Some w -> pname w <> y) ->
               ~ In y (map fst (absorbed kvs (k_pok st) (k_kwo st))) ->
               src_get (k_src stf) y = src_get (k_src st) y).
Proof.
  induction kvs as [|[x v] kvs IH]; intros st Hinv Hhv Hnd Hnm stf H.
  - cbn [mask_names] in H. inversion H; subst stf. cbn [map]. unfold va_form, kwo_formP, absorbed.
    cbn [map filter]. rewrite (takew_all _ _ (nh_nil_forallb _)), nh_nil_forallb, (dropw_all _ _ (nh_nil_forallb _)).
    cbn [map]. rewrite !app_nil_r, map_bindv_nil.
    split; [reflexivity|]. split; [reflexivity|]. split; [apply Permutation_refl|]. split; [exact Hinv|].
    split; [intros kv []|intros; reflexivity].
  - cbn [mask_names map fst] in *. apply NoDup_cons_iff in Hnd. destruct Hnd as [Hxk Hnd'].
    pose proof (mask_name_some_cases pobj hv pos1 vk st x v Hinv) as Hc.
    destruct (mask_name (Some pobj) hv st (x, v)) as [st'|e] eqn:Est; cbn [bind] in H; [|discriminate].
    destruct Hc as (Hxc & Hcons & Hcases).
    pose proof (mask_name_step (Some pobj) hv pos1 vk st x v Hinv Hhv Hxc
                               (fun _ => Hnm x (or_introl eq_refl))) as Hs.
    rewrite Est in Hs. destruct Hs as (Hinv' & _ & _ & Hva' & _).
    assert (Hnm' : forall y, In y (map fst kvs) ->
              ~ In y (names_of pos1 ++ names_of (opt_list (k_va st')) ++ names_of (opt_list vk))).
    { intros y Hy X. apply (Hnm y (or_intror Hy)).
      apply in_app_or in X. destruct X as [X|X]; [apply in_or_app; left; exact X|].
      apply in_app_or in X. destruct X as [X|X].
      - apply in_or_app. right. apply in_or_app. left. apply Hva'. exact X.
      - apply in_or_app. right. apply in_or_app. right. exact X. }
    destruct (IH st' Hinv' Hhv Hnd' Hnm' stf H) as (I1 & I2 & I3 & I4 & I5 & I6). clear IH.
    set (ns := map fst kvs) in *.
    destruct Hcases as [A|[B|C]].
    + destruct A as (before & p & after & Ep & Hp & Hxb & Hxa & Hxkw & E1 & E2 & E3 & Esrc).
      destruct (pok_step_hit x ns before p after (k_va st) Hp Hxb) as (P1 & P2 & P3).
      rewrite E1, E2 in *. rewrite E3 in I3, I5, I6. rewrite Ep.
      set (kwo := k_kwo st) in *. set (p' := set_def (Some v) (set_kind KO p)) in *.
      assert (Eabs : absorbed ((x, v) :: kvs) (before ++ p :: after) kwo
                     = absorbed kvs before ((kwo ++ map (set_kind KO) after) ++ [p'])).
      { unfold absorbed at 1. cbn [filter fst].
        assert (Em : mem x (names_of (before ++ p :: after) ++ names_of kwo) = true).
        { apply mem_In. apply in_or_app. left. rewrite names_of_app. apply in_or_app. right. left. exact Hp. }
        rewrite Em. cbn [negb]. apply absorbed_ext. intros kv _.
        rewrite !names_of_app, names_of_set_kind, !names_of_cons, names_of_nil. cbn [p' set_def set_kind pname].
        rewrite !in_app_iff. cbn [In]. rewrite Hp. tauto. }
      split; [rewrite I1; exact P1|]. split; [rewrite I2; exact P2|]. split; [|split; [exact I4|split]].
      * eapply perm_trans; [exact I3|]. unfold kwo_formP. cbn [map fst]. fold ns. rewrite P3, Eabs.
        apply Permutation_app_tail. set (dw := dropw (nh ns) before).
        assert (Hxdw : ~ In x (names_of (map (set_kind KO) dw))).
        { rewrite names_of_set_kind. intros X. apply Hxb. exact (dropw_names_incl _ _ _ X). }
        rewrite !map_app. cbn [map].
        rewrite (map_bindv_ne x v kvs kwo Hxkw), (map_bindv_ne x v kvs _ Hxdw).
        rewrite (map_bindv_ne x v kvs (map (set_kind KO) after)) by (rewrite names_of_set_kind; exact Hxa).
        rewrite (bindv_cons_eq x v kvs (set_kind KO p) Hp).
        change (set_def (Some v) (set_kind KO (set_kind KO p))) with p'.
        rewrite (bindv_notin kvs p') by (cbn [p' set_def set_kind pname]; rewrite Hp; exact Hxk).
        rewrite <- !app_assoc. apply Permutation_app_head.
        eapply perm_trans; [apply Permutation_app_comm|]. cbn [app].
        apply Permutation_middle.
      * intros kv Hkv. rewrite Eabs in Hkv. exact (I5 kv Hkv).
      * intros y Hy Hny. rewrite Eabs in Hny. rewrite (I6 y ltac:(discriminate) Hny). exact (Esrc y Hy).
    + destruct B as (l1 & p & l2 & Hxp & Ek & Hp & Hx1 & E1 & E2 & E3 & E4).
      destruct (pok_step_miss x ns (k_pok st) (k_va st) Hxp) as (P1 & P2 & P3).
      set (p' := set_def (Some v) (set_kind KO p)) in *.
      assert (Hx2 : ~ In x (names_of l2)).
      { destruct Hinv as (_ & Hn & _). unfold kps, blk in Hn. rewrite Ek in Hn. rewrite <- Hp. intros X.
        apply (count_occ_In N.eq_dec) in X.
        pose proof (proj1 (NoDup_count_occ N.eq_dec _) Hn (pname p)) as Hc1. count_names.
        revert Hc1. destruct (N.eq_dec (pname p) (pname p)) as [_|Hne]; [intros; lia|contradiction]. }
      assert (Eabs : absorbed ((x, v) :: kvs) (k_pok st) (k_kwo st) = absorbed kvs (k_pok st') (k_kwo st')).
      { unfold absorbed at 1. cbn [filter fst].
        assert (Em : mem x (names_of (k_pok st) ++ names_of (k_kwo st)) = true).
        { apply mem_In. apply in_or_app. right. rewrite Ek, names_of_app. apply in_or_app. right. left. exact Hp. }
        rewrite Em. cbn [negb]. rewrite E1, E3, Ek. apply absorbed_ext. intros kv _.
        rewrite !names_of_app, !names_of_cons. reflexivity. }
      rewrite E1, E2, E4 in *.
      split; [rewrite I1; exact P1|]. split; [rewrite I2; exact P2|]. split; [|split; [exact I4|split]].
      * eapply perm_trans; [exact I3|]. unfold kwo_formP. cbn [map fst]. fold ns. rewrite P3, Eabs.
        apply Permutation_app_tail. set (dw := dropw (nh ns) (k_pok st)).
        assert (Hxdw : ~ In x (names_of (map (set_kind KO) dw))).
        { rewrite names_of_set_kind. intros X. apply Hxp. exact (dropw_names_incl _ _ _ X). }
        rewrite E3, Ek. rewrite !map_app. cbn [map]. rewrite ?map_app.
        rewrite (map_bindv_ne x v kvs l1 Hx1), (map_bindv_ne x v kvs l2 Hx2), (map_bindv_ne x v kvs _ Hxdw).
        rewrite (bindv_cons_eq x v kvs p Hp). fold p'.
        rewrite (bindv_notin kvs p') by (cbn [p' set_def set_kind pname]; rewrite Hp; exact Hxk).
        apply Permutation_refl.
      * intros kv Hkv. rewrite Eabs in Hkv. exact (I5 kv Hkv).
      * intros y Hy Hny. rewrite Eabs in Hny. exact (I6 y Hy Hny).
    + destruct C as (Hxp & Hxkw & Hhvt & E1 & E2 & E3 & E4).
      destruct (pok_step_miss x ns (k_pok st) (k_va st) Hxp) as (P1 & P2 & P3).
      assert (Eabs : absorbed ((x, v) :: kvs) (k_pok st) (k_kwo st)
                     = (x, v) :: absorbed kvs (k_pok st') (k_kwo st')).
      { unfold absorbed at 1. cbn [filter fst].
        assert (Em : mem x (names_of (k_pok st) ++ names_of (k_kwo st)) = false).
        { apply mem_false_In. intros X. apply in_app_or in X. tauto. }
        rewrite Em. cbn [negb]. f_equal. rewrite E1, E3. apply absorbed_ext. intros kv Hkv.
        assert (Hne : fst kv <> x).
        { intros E. apply Hxk. rewrite <- E. unfold ns. apply in_map. exact Hkv. }
        rewrite !names_of_app, names_of_cons, names_of_nil. cbn [newp fst pname].
        rewrite !in_app_iff. cbn [In]. split; [tauto|]. intros [X|[X|[X|[]]]]; try tauto.
        exfalso. apply Hne. symmetry. exact X. }
      assert (Hxva : forall w, k_va st = Some w -> pname w <> x).
      { intros w Ew E. apply (Hnm x (or_introl eq_refl)). apply in_or_app. right. apply in_or_app. left.
        rewrite Ew. left. exact E. }
      rewrite E1, E2 in *.
      split; [rewrite I1; exact P1|]. split; [rewrite I2; exact P2|]. split; [|split; [exact I4|split]].
      * eapply perm_trans; [exact I3|]. unfold kwo_formP. cbn [map fst]. fold ns. rewrite P3, Eabs.
        set (dw := dropw (nh ns) (k_pok st)).
        assert (Hxdw : ~ In x (names_of (map (set_kind KO) dw))).
        { rewrite names_of_set_kind. intros X. apply Hxp. exact (dropw_names_incl _ _ _ X). }
        rewrite E3. cbn [map]. rewrite !map_app. cbn [map].
        rewrite (map_bindv_ne x v kvs _ Hxkw), (map_bindv_ne x v kvs _ Hxdw).
        rewrite (bindv_notin kvs (newp (x, v))) by exact Hxk.
        rewrite <- !app_assoc. apply Permutation_app_head. cbn [app].
        apply Permutation_middle.
      * intros kv Hkv. rewrite Eabs in Hkv. destruct Hkv as [<-|Hkv]; [|exact (I5 kv Hkv)]. cbn [fst].
        rewrite (I6 x Hxva).
        -- rewrite E4, src_get_set, N.eqb_refl. reflexivity.
        -- intros X. apply in_fst_absorbed in X. destruct X as [X _]. exact (Hxk X).
      * intros y Hy Hny. rewrite Eabs in Hny. cbn [map fst] in Hny.
        assert (Hyx : y <> x) by (intros E; apply Hny; left; symmetry; exact E).
        rewrite (I6 y Hy) by (intros X; apply Hny; right; exact X).
        rewrite E4, src_get_set. destruct (N.eqb_spec y x); [contradiction|reflexivity].
Qed.

(* ------------------------------------------------------------------ *)
(* C19_shape                                                            *)

Lemma passable_n_names s n names0 :
  valid_sig (params s) = true -> names_passable_n (params s) n names0 = true ->
  forall x, In x names0 ->
    ~ In x (names_of (skipn n (posargs (sort_params s))) ++ names_of (opt_list (varargs (sort_params s)))
            ++ names_of (opt_list (varkwargs (sort_params s)))).
Proof.
  intros Hv Hpass x Hx X. unfold names_passable_n in Hpass.
  apply andb_true_iff in Hpass. destruct Hpass as [Hp1 Hp2].
  pose proof (params_AB s Hv) as Hf.
  destruct (sort_params_kinds s) as (K1 & K2 & K3 & K4 & K5).
  set (so := sort_params s) in *.
  apply in_app_or in X. destruct X as [X|X]; [|apply in_app_or in X; destruct X as [X|X]].
  - unfold names_of in X. apply in_map_iff in X. destruct X as [q [E Hq]].
    apply (avoid_remaining_po_spec _ _ _ x q Hp1 Hx); [|exact E|].
    + rewrite <- Hf. rewrite <- app_assoc, skipn_app. apply in_or_app. left. exact Hq.
    + rewrite Forall_forall in K1. apply K1.
      rewrite <- (firstn_skipn n (posargs so)). apply in_or_app. right. exact Hq.
  - destruct (varargs so) as [w|] eqn:Ew; [|destruct X]. destruct X as [E|[]].
    assert (Hw : In w (params s)).
    { rewrite <- Hf. unfold rest_of. rewrite Ew. apply in_or_app. right. left. reflexivity. }
    destruct (names_avoid_stars_spec _ _ x w Hp2 Hx Hw E) as [H _]. apply H. apply K3. reflexivity.
  - destruct (varkwargs so) as [w|] eqn:Ew; [|destruct X]. destruct X as [E|[]].
    assert (Hw : In w (params s)).
    { rewrite <- Hf. unfold rest_of. rewrite Ew. apply in_or_app. right.
      apply in_or_app. right. apply in_or_app. right. left. reflexivity. }
    destruct (names_avoid_stars_spec _ _ x w Hp2 Hx Hw E) as [_ H]. apply H. apply K5. reflexivity.
Qed.

Theorem partial_shape s n kw pobj r :
  valid_sig (params s) = true -> NoDup (map fst kw) ->
  names_passable_n (params s) n (map fst kw) = true ->
  sig_partial s n kw pobj = Ok r ->
  let so := sort_params s in
  let ns := map fst kw in
  let pok1 := skipn (n - length (posargs so)) (pokargs so) in
  (* parameters *)
  (exists kwo_f,
     params r = blk (skipn n (posargs so)) (takew (nh ns) pok1) (va_form ns pok1 (varargs so))
                    kwo_f (varkwargs so) /\
     Forall (fun p => pkind p = KO) kwo_f /\
     Permutation kwo_f (kwo_formP kw pok1 (kwoargs so))) /\
  (* provenance *)
  (forall kv, In kv (absorbed kw pok1 (kwoargs so)) -> src_get (srcs r) (fst kv) = [pobj]) /\
  (forall y, (forall w, varargs so = Some w -> pname w <> y) ->
             ~ In y (map fst (absorbed kw pok1 (kwoargs so))) ->
             src_get (srcs r) y
             = src_get (src_pop_all (srcs s) (names_of (firstn n (posargs so ++ pokargs so)))) y) /\
  (* depths *)
  deps r = dep_set (dep_incr 1 (deps s)) pobj 0 /\
  dep_get (deps r) pobj = Some 0 /\
  (forall f, f <> pobj -> dep_get (deps r) f = option_map (fun d => d + 1) (dep_get (deps s) f)).
Proof.
  intros Hv Hnd Hpass H. cbv zeta. unfold sig_partial in H.
  change (mkHide false false false false) with nohide0 in H. rewrite mask_gen_unfold in H. cbv zeta in H.
  destruct (Nat.ltb _ n && _) in H; [discriminate|].
  destruct (mask_names (Some pobj) _ (st0_of (sort_params s) n) kw) as [stf|e] eqn:Hok; cbn [bind] in H; [|discriminate].
  destruct (partial_names_closed pobj _ _ _ kw (st0_of (sort_params s) n) (st0_inv s n Hv) eq_refl Hnd
                                 (passable_n_names s n _ Hv Hpass) stf Hok) as (C1 & C2 & C3 & C4 & C5 & C6).
  unfold st0_of in C1, C2, C3, C5, C6. cbn [k_pok k_va k_kwo k_src] in C1, C2, C3, C5, C6.
  unfold apply_params in H. destruct (validate _) in H; [|discriminate]. inversion H; subst r. clear H.
  cbn [params srcs deps ssrc sdep dep_of].
  destruct (sort_aux_src (params s) (mkSorted [] [] None [] None (srcs s) (deps s))) as [Es Ed].
  fold (sort_params s) in Es, Ed. cbn [ssrc sdep] in Es, Ed.
  split; [|split; [|split; [|split; [|split]]]].
  - exists (k_kwo stf). split; [|split; [destruct C4 as ((_ & _ & _ & K4 & _) & _); exact K4|exact C3]].
    unfold flatten, blk. cbn [posargs pokargs varargs kwoargs varkwargs]. rewrite C1, C2. reflexivity.
  - exact C5.
  - intros y Hy Hny. rewrite (C6 y Hy Hny), Es. reflexivity.
  - rewrite Ed. reflexivity.
  - rewrite dep_get_set, N.eqb_refl. reflexivity.
  - intros f Hf. rewrite dep_get_set. destruct (N.eqb_spec f pobj) as [E|_]; [contradiction|].
    rewrite dep_incr_get, Ed. reflexivity.
Qed.

(* the clauses of C19 read off the closed form *)
Corollary partial_shape_clauses s n kw pobj r :
  valid_sig (params s) = true -> NoDup (map fst kw) ->
  names_passable_n (params s) n (map fst kw) = true ->
  sig_partial s n kw pobj = Ok r ->
  let so := sort_params s in
  let ns := map fst kw in
  let pok1 := skipn (n - length (posargs so)) (pokargs so) in
  (* the positional parameters: the bound positionals are gone, and so is
     everything from the first positional-or-keyword parameter bound by keyword *)
  positional (params r) = skipn n (posargs so) ++ takew (nh ns) pok1 /\
  (* the star-args parameter stays iff no positional-or-keyword parameter is bound by keyword *)
  has_kind VP (params r) = isSome (varargs so) && forallb (nh ns) pok1 /\
  has_kind VK (params r) = isSome (varkwargs so) /\
  (* the keyword-only parameters *)
  (forall q, In q (kwonly (params r)) <->
     (exists q0, In q0 (kwoargs so ++ map (set_kind KO) (dropw (nh ns) pok1)) /\ q = bindv kw q0)
     \/ (exists kv, In kv (absorbed kw pok1 (kwoargs so)) /\ q = newp kv)) /\
  (forall kv, In kv (absorbed kw pok1 (kwoargs so)) -> src_get (srcs r) (fst kv) = [pobj]) /\
  dep_get (deps r) pobj = Some 0 /\
  (forall f, f <> pobj -> dep_get (deps r) f = option_map (fun d => d + 1) (dep_get (deps s) f)).
Proof.
  intros Hv Hnd Hpass H. cbv zeta.
  destruct (partial_shape s n kw pobj r Hv Hnd Hpass H) as ((kwo_f & Ep & Hko & Hperm) & S1 & _ & _ & D1 & D2).
  destruct (sort_params_kinds s) as (K1 & K2 & K3 & K4 & K5).
  set (so := sort_params s) in *. set (ns := map fst kw) in *.
  set (pok1 := skipn (n - length (posargs so)) (pokargs so)) in *.
  assert (Hpk : Forall (fun p => pkind p = PK) (takew (nh ns) pok1)).
  { assert (G : forall l, Forall (fun p => pkind p = PK) l -> Forall (fun p => pkind p = PK) (takew (nh ns) l)).
    { induction 1 as [|q l Hq Hl IH]; cbn [takew]; [constructor|]. destruct (nh ns q); constructor; assumption. }
    apply G. apply Forall_skipn. exact K2. }
  assert (HK : kinds5 (skipn n (posargs so)) (takew (nh ns) pok1) (va_form ns pok1 (varargs so)) kwo_f (varkwargs so)).
  { repeat split; auto using Forall_skipn. intros w Hw. unfold va_form in Hw.
    destruct (forallb (nh ns) pok1); [exact (K3 w Hw)|discriminate]. }
  rewrite Ep. split; [apply (blk_positional _ _ _ _ _ HK)|]. split.
  { rewrite (blk_has_vp _ _ _ _ _ HK). unfold va_form.
    destruct (forallb (nh ns) pok1); [rewrite andb_true_r; reflexivity|rewrite andb_false_r; reflexivity]. }
  split; [apply (blk_has_vk _ _ _ _ _ HK)|]. split; [|split; [exact S1|split; [exact D1|exact D2]]].
  intros q. rewrite (blk_kwonly _ _ _ _ _ HK). split.
  - intros Hq. apply (Permutation_in _ Hperm) in Hq. unfold kwo_formP in Hq. apply in_app_or in Hq.
    destruct Hq as [Hq|Hq]; apply in_map_iff in Hq; destruct Hq as [a [E Ha]]; [left|right]; exists a; auto.
  - intros Hq. apply (Permutation_in _ (Permutation_sym Hperm)). unfold kwo_formP. apply in_or_app.
    destruct Hq as [[a [Ha E]]|[a [Ha E]]]; [left|right]; subst q; apply in_map; exact Ha.
Qed.

(* the statements are not vacuous: ex_sig is (1, /, 2, 3=1, *9, 4, **10); one
   positional bound, keywords 2 (positional-or-keyword), 1 (the consumed
   positional-only name: absorbed) and 4 (keyword-only) bound *)
Example partial_shape_nonvacuous :
  valid_sig (params ex_sig) = true /\ NoDup (map fst [(2, 5); (1, 6); (4, 7)]) /\
  names_passable_n (params ex_sig) 1 (map fst [(2, 5); (1, 6); (4, 7)]) = true /\
  (exists r, sig_partial ex_sig 1 [(2, 5); (1, 6); (4, 7)] 200 = Ok r) /\
  map (fun p => (pname p, pkind p, pdef p))
      (kwo_formP [(2, 5); (1, 6); (4, 7)] (skipn (1 - 1) (pokargs (sort_params ex_sig)))
                 (kwoargs (sort_params ex_sig)))
  = [(4, KO, Some 7); (2, KO, Some 5); (3, KO, Some 1); (1, KO, Some 6)] /\
  absorbed [(2, 5); (1, 6); (4, 7)] (skipn (1 - 1) (pokargs (sort_params ex_sig))) (kwoargs (sort_params ex_sig))
  = [(1, 6)].
Proof.
  split; [vm_compute; reflexivity|]. split; [apply nodup3; discriminate|].
  split; [vm_compute; reflexivity|]. split; [eexists; vm_compute; reflexivity|].
  split; vm_compute; reflexivity.
Qed.

Print Assumptions partial_names_closed.
Print Assumptions partial_shape.
Print Assumptions partial_shape_clauses.
Print Assumptions partial_shape_nonvacuous.
