(* SmallModel.v — whether a signature accepts a call depends only on
   min(npos, #positional + 1), on which of the signature's own names occur among
   the keywords and on whether any foreign keyword occurs.  Hence a property
   quantified over all calls is decided by the finite family [shapes]. *)
From Sigtools.Model Require Import Base Bind.
From Coq Require Import Lia.

Lemma mem_In x l : mem x l = true <-> In x l.
Proof.
  induction l as [|y l IH]; simpl.
  - split; [discriminate | tauto].
  - rewrite orb_true_iff, IH, N.eqb_eq. split; intros [H|H]; auto.
Qed.

Lemma mem_false_In x l : mem x l = false <-> ~ In x l.
Proof. rewrite <- mem_In. destruct (mem x l); split; congruence. Qed.

Lemma forallb_ext_in {A} (f g : A -> bool) l :
  (forall x, In x l -> f x = g x) -> forallb f l = forallb g l.
Proof.
  induction l as [|a l IH]; simpl; intros H; [reflexivity|].
  rewrite H by (left; reflexivity). rewrite IH; [reflexivity|]. intros x Hx. apply H. right. exact Hx.
Qed.

Lemma forallb_ext {A} (f g : A -> bool) l : (forall x, f x = g x) -> forallb f l = forallb g l.
Proof. intros H. apply forallb_ext_in. intros x _. apply H. Qed.

Lemma forallb_map {A B} (f : A -> B) (P : B -> bool) l :
  forallb P (map f l) = forallb (fun x => P (f x)) l.
Proof. induction l; simpl; [reflexivity|]. rewrite IHl. reflexivity. Qed.

Definition same_set (l l' : list name) : Prop := forall x, mem x l = mem x l'.

Lemma forallb_same_set (P : name -> bool) l l' :
  same_set l l' -> forallb P l = forallb P l'.
Proof.
  intros H. apply eq_true_iff_eq. rewrite !forallb_forall.
  split; intros Hl x Hx; apply Hl; apply mem_In; [rewrite H | rewrite <- H]; apply mem_In; exact Hx.
Qed.

Lemma req_pos_same_set pos n ks ks' :
  same_set ks ks' -> req_pos pos n ks = req_pos pos n ks'.
Proof.
  intros H. revert n. induction pos as [|p pos IH]; intros n; simpl; [reflexivity|].
  destruct n as [|n]; [rewrite H, IH; reflexivity | apply IH].
Qed.

Lemma req_kwo_same_set ps ks ks' :
  same_set ks ks' -> req_kwo ps ks = req_kwo ps ks'.
Proof.
  intros H. unfold req_kwo. apply forallb_ext. intros p. rewrite H. reflexivity.
Qed.

Lemma accepts_same_set ps n ks ks' :
  same_set ks ks' -> accepts ps (mkCall n ks) = accepts ps (mkCall n ks').
Proof.
  intros H. unfold accepts; simpl.
  rewrite (forallb_same_set _ _ _ H), (req_pos_same_set _ _ _ _ H), (req_kwo_same_set _ _ _ H).
  reflexivity.
Qed.

(* ---- foreign keywords ---- *)
Definition norm_kws (ns : list name) (fresh : name) (ks : list name) : list name :=
  map (fun k => if mem k ns then k else fresh) ks.

Lemma mem_norm_kws ns fresh ks x :
  In x ns -> ~ In fresh ns -> mem x (norm_kws ns fresh ks) = mem x ks.
Proof.
  intros Hx Hf. induction ks as [|k ks IH]; simpl; [reflexivity|].
  rewrite IH. f_equal.
  destruct (mem k ns) eqn:Hk; [reflexivity|].
  apply mem_false_In in Hk.
  destruct (N.eqb_spec x fresh) as [->|]; [contradiction|].
  destruct (N.eqb_spec x k) as [->|]; [contradiction|reflexivity].
Qed.

Lemma kw_class_pos_foreign pos n k :
  ~ In k (names_of pos) -> kw_class_pos pos n k = None.
Proof.
  revert n. induction pos as [|p pos IH]; intros n H; simpl in *; [reflexivity|].
  destruct (N.eqb_spec k (pname p)) as [->|]; [tauto|]. apply IH. tauto.
Qed.

Lemma names_filter_incl f ps x : In x (names_of (filter f ps)) -> In x (names_of ps).
Proof.
  unfold names_of. rewrite !in_map_iff. intros [p [<- Hp]]. apply filter_In in Hp.
  exists p; tauto.
Qed.

Lemma kw_class_foreign ps n k : ~ In k (names_of ps) -> kw_class ps n k = KExtra.
Proof.
  intros H. unfold kw_class.
  rewrite kw_class_pos_foreign by (intros HH; apply H; eapply names_filter_incl; exact HH).
  destruct (mem k (names_of (kwonly ps))) eqn:Hm; [|reflexivity].
  apply mem_In in Hm. exfalso. apply H. eapply names_filter_incl; exact Hm.
Qed.

Lemma kw_ok_norm ps n ns fresh ks :
  incl (names_of ps) ns -> ~ In fresh ns ->
  forallb (kw_ok ps n) (norm_kws ns fresh ks) = forallb (kw_ok ps n) ks.
Proof.
  intros Hi Hf. unfold norm_kws. rewrite forallb_map. apply forallb_ext. intros k.
  destruct (mem k ns) eqn:Hk; [reflexivity|].
  apply mem_false_In in Hk. unfold kw_ok.
  rewrite !kw_class_foreign; auto.
Qed.

Lemma req_pos_norm pos n ns fresh ks :
  incl (names_of pos) ns -> ~ In fresh ns ->
  req_pos pos n (norm_kws ns fresh ks) = req_pos pos n ks.
Proof.
  intros Hi Hf. revert n. induction pos as [|p pos IH]; intros n; simpl; [reflexivity|].
  assert (Hp : In (pname p) ns) by (apply Hi; left; reflexivity).
  assert (Hi' : incl (names_of pos) ns) by (intros x Hx; apply Hi; right; exact Hx).
  destruct n as [|n]; [|apply IH; exact Hi'].
  rewrite mem_norm_kws by assumption. rewrite IH by exact Hi'. reflexivity.
Qed.

Lemma req_kwo_norm ps ns fresh ks :
  incl (names_of ps) ns -> ~ In fresh ns ->
  req_kwo ps (norm_kws ns fresh ks) = req_kwo ps ks.
Proof.
  intros Hi Hf. unfold req_kwo. apply forallb_ext_in. intros p Hp.
  rewrite mem_norm_kws; auto. apply Hi. apply filter_In in Hp.
  unfold names_of. apply in_map. tauto.
Qed.

Lemma accepts_norm_kws ps n ns fresh ks :
  incl (names_of ps) ns -> ~ In fresh ns ->
  accepts ps (mkCall n (norm_kws ns fresh ks)) = accepts ps (mkCall n ks).
Proof.
  intros Hi Hf. unfold accepts; simpl.
  rewrite kw_ok_norm, req_kwo_norm by assumption.
  rewrite req_pos_norm; auto.
  intros x Hx. apply Hi. eapply names_filter_incl; exact Hx.
Qed.

(* ---- clamping the number of positionals ---- *)
Lemma kw_class_pos_clamp pos n n' k :
  (length pos <= n)%nat -> (length pos <= n')%nat ->
  kw_class_pos pos n k = kw_class_pos pos n' k.
Proof.
  revert n n'. induction pos as [|p pos IH]; intros n n' H H'; simpl in *; [reflexivity|].
  destruct n as [|n]; [lia|]. destruct n' as [|n']; [lia|].
  destruct (N.eqb k (pname p)); [reflexivity|]. simpl. apply IH; lia.
Qed.

Lemma req_pos_full pos n ks : (length pos <= n)%nat -> req_pos pos n ks = true.
Proof.
  revert n. induction pos as [|p pos IH]; intros n H; simpl in *; [reflexivity|].
  destruct n as [|n]; [lia|]. apply IH. lia.
Qed.

Lemma accepts_clamp ps M n ks :
  (length (positional ps) <= M)%nat -> (M < n)%nat ->
  accepts ps (mkCall n ks) = accepts ps (mkCall (S M) ks).
Proof.
  intros HM Hn. unfold accepts; cbn [npos kws].
  rewrite !req_pos_full by lia.
  assert (E1 : Nat.leb n (length (positional ps)) = false) by (apply Nat.leb_gt; lia).
  assert (E2 : Nat.leb (S M) (length (positional ps)) = false) by (apply Nat.leb_gt; lia).
  rewrite E1, E2.
  assert (E3 : forallb (kw_ok ps n) ks = forallb (kw_ok ps (S M)) ks).
  { apply forallb_ext. intros k.
    unfold kw_ok, kw_class. rewrite (kw_class_pos_clamp _ n (S M)) by lia. reflexivity. }
  rewrite E3. reflexivity.
Qed.

(* ---- canonical representative inside [shapes] ---- *)
Definition canon (M : nat) (ns : list name) (fresh : name) (c : call) : call :=
  mkCall (Nat.min (npos c) (S M))
         (filter (fun x => mem x (norm_kws ns fresh (kws c))) (ns ++ [fresh])).

Lemma filter_in_sublists f (l : list name) : In (filter f l) (sublists l).
Proof.
  induction l as [|x l IH]; simpl; [auto|].
  apply in_or_app. destruct (f x); [left; apply in_map; exact IH | right; exact IH].
Qed.

Lemma canon_in_shapes M ns fresh c : In (canon M ns fresh c) (shapes M ns fresh).
Proof.
  unfold shapes, canon. apply in_flat_map.
  exists (Nat.min (npos c) (S M)). split.
  - apply in_seq. lia.
  - apply in_map. apply filter_in_sublists.
Qed.

Lemma mem_filter f (l : list name) x : mem x (filter f l) = mem x l && f x.
Proof.
  induction l as [|y l IH]; simpl; [reflexivity|].
  destruct (f y) eqn:Hy; simpl; rewrite IH.
  - destruct (N.eqb_spec x y) as [->|]; simpl; [rewrite Hy; reflexivity|reflexivity].
  - destruct (N.eqb_spec x y) as [->|]; simpl; [rewrite Hy, andb_false_r; reflexivity|reflexivity].
Qed.

Lemma mem_app x l l' : mem x (l ++ l') = mem x l || mem x l'.
Proof. induction l; simpl; [reflexivity|]. rewrite IHl, orb_assoc. reflexivity. Qed.

Lemma norm_kws_incl ns fresh ks x :
  In x (norm_kws ns fresh ks) -> In x (ns ++ [fresh]).
Proof.
  unfold norm_kws. rewrite in_map_iff. intros [k [<- _]].
  destruct (mem k ns) eqn:Hk; apply in_or_app; [left; apply mem_In; exact Hk | right; left; reflexivity].
Qed.

Lemma canon_same_set ns fresh ks :
  same_set (filter (fun x => mem x (norm_kws ns fresh ks)) (ns ++ [fresh])) (norm_kws ns fresh ks).
Proof.
  intros x. rewrite mem_filter.
  destruct (mem x (norm_kws ns fresh ks)) eqn:H; [|apply andb_false_r].
  rewrite andb_true_r. apply mem_In. apply mem_In in H. eapply norm_kws_incl; exact H.
Qed.

Theorem accepts_canon ps M ns fresh c :
  (length (positional ps) <= M)%nat -> incl (names_of ps) ns -> ~ In fresh ns ->
  accepts ps (canon M ns fresh c) = accepts ps c.
Proof.
  intros HM Hi Hf. destruct c as [n ks]. unfold canon; simpl.
  rewrite (accepts_same_set _ _ _ _ (canon_same_set ns fresh ks)).
  rewrite accepts_norm_kws by assumption.
  destruct (Nat.le_gt_cases n (S M)) as [Hle|Hgt].
  - rewrite Nat.min_l by exact Hle. reflexivity.
  - rewrite Nat.min_r by lia. symmetry. apply accepts_clamp; lia.
Qed.

(* keywords of the canonical call: own names are kept, everything else is [fresh] *)
Lemma canon_kws_spec M ns fresh c k :
  ~ In fresh ns ->
  In k (kws (canon M ns fresh c)) ->
  (In k ns /\ In k (kws c)) \/ k = fresh.
Proof.
  intros Hf H. unfold canon in H; simpl in H. apply filter_In in H. destruct H as [HU Hm].
  apply mem_In in Hm. unfold norm_kws in Hm. apply in_map_iff in Hm.
  destruct Hm as [k0 [Hk0 Hin]]. destruct (mem k0 ns) eqn:Hk; subst.
  - left. split; [apply mem_In; exact Hk | exact Hin].
  - right. reflexivity.
Qed.

Lemma canon_kws_nil M ns fresh c : kws c = [] -> kws (canon M ns fresh c) = [].
Proof.
  intros H. unfold canon; simpl. rewrite H. simpl.
  induction (ns ++ [fresh]); simpl; auto.
Qed.

Lemma canon_npos_0 M ns fresh c : npos c = 0%nat -> npos (canon M ns fresh c) = 0%nat.
Proof. intros H. unfold canon; simpl. rewrite H. reflexivity. Qed.

(* ---- bookkeeping for [shapes_for] ---- *)
Lemma fold_max_ge (l : list nat) (a : nat) : (a <= fold_left Nat.max l a)%nat.
Proof. revert a. induction l as [|x l IH]; intros a; simpl; [lia|]. specialize (IH (Nat.max a x)). lia. Qed.

Lemma fold_max_in (l : list nat) (a x : nat) : In x l -> (x <= fold_left Nat.max l a)%nat.
Proof.
  revert a. induction l as [|y l IH]; intros a H; simpl in *; [tauto|].
  destruct H as [->|H]; [|apply IH; exact H].
  pose proof (fold_max_ge l (Nat.max a x)). lia.
Qed.

Lemma max_pos_ge sigs s : In s sigs -> (length (positional s) <= max_pos sigs)%nat.
Proof.
  intros H. unfold max_pos. apply fold_max_in. apply in_map_iff. exists s; auto.
Qed.

Lemma foldN_max_ge (l : list N) (a : N) : (a <= fold_left N.max l a)%N.
Proof. revert a. induction l as [|x l IH]; intros a; simpl; [lia|]. specialize (IH (N.max a x)). lia. Qed.

Lemma foldN_max_in (l : list N) (a x : N) : In x l -> (x <= fold_left N.max l a)%N.
Proof.
  revert a. induction l as [|y l IH]; intros a H; simpl in *; [tauto|].
  destruct H as [->|H]; [|apply IH; exact H].
  pose proof (foldN_max_ge l (N.max a x)). lia.
Qed.

Lemma fresh_for_not_in ns : ~ In (fresh_for ns) ns.
Proof.
  intros H. unfold fresh_for in H. apply (foldN_max_in ns 0) in H. lia.
Qed.

Lemma dedup_In x l : In x (dedup l) <-> In x l.
Proof.
  induction l as [|y l IH]; simpl; [tauto|].
  destruct (mem y l) eqn:Hy.
  - rewrite IH. split; [auto|]. intros [->|H]; [apply mem_In; exact Hy | exact H].
  - simpl. rewrite IH. tauto.
Qed.

Lemma all_names_incl sigs s : In s sigs -> incl (names_of s) (dedup (all_names sigs)).
Proof.
  intros H x Hx. apply dedup_In. unfold all_names. apply in_flat_map. exists s; auto.
Qed.

Lemma find_cex_none P cs : find_cex P cs = None -> forall c, In c cs -> P c = true.
Proof.
  induction cs as [|c0 cs IH]; simpl; intros H c Hc; [tauto|].
  destruct (P c0) eqn:HP; [|discriminate].
  destruct Hc as [<-|Hc]; [exact HP | apply IH; assumption].
Qed.

Lemma find_cex_some P cs c : find_cex P cs = Some c -> In c cs /\ P c = false.
Proof.
  induction cs as [|c0 cs IH]; simpl; intros H; [discriminate|].
  destruct (P c0) eqn:HP.
  - destruct (IH H) as [? ?]. auto.
  - inversion H; subst. auto.
Qed.

(* The representative of c for a family of signatures *)
Definition rep_for (sigs : list (list param)) (c : call) : call :=
  let ns := dedup (all_names sigs) in canon (max_pos sigs) ns (fresh_for ns) c.

Lemma rep_in_shapes sigs c : In (rep_for sigs c) (shapes_for sigs).
Proof. apply canon_in_shapes. Qed.

Theorem accepts_rep sigs s c : In s sigs -> accepts s (rep_for sigs c) = accepts s c.
Proof.
  intros H. apply accepts_canon.
  - apply max_pos_ge; exact H.
  - apply all_names_incl; exact H.
  - apply fresh_for_not_in.
Qed.

Lemma forallb_accepts_rep sigs inputs c :
  incl inputs sigs ->
  forallb (fun s => accepts s (rep_for sigs c)) inputs = forallb (fun s => accepts s c) inputs.
Proof.
  intros Hi. apply forallb_ext_in. intros s Hs. apply accepts_rep. apply Hi. exact Hs.
Qed.

Lemma kwpassable_name_In r k : kwpassable_name r k = true -> In k (names_of r).
Proof.
  unfold kwpassable_name. rewrite existsb_exists. intros [p [Hp H]].
  apply andb_true_iff in H. destruct H as [_ H]. apply N.eqb_eq in H. subst.
  apply in_map. exact Hp.
Qed.

Lemma noncolliding_rep sigs r inputs c :
  In r sigs -> incl inputs sigs ->
  noncolliding c r inputs = true -> noncolliding (rep_for sigs c) r inputs = true.
Proof.
  intros Hr Hi H. unfold noncolliding in *. rewrite forallb_forall in *. intros k Hk.
  unfold rep_for in Hk.
  destruct (canon_kws_spec _ _ _ _ _ (fresh_for_not_in _) Hk) as [[_ Hin]| ->].
  - apply H. exact Hin.
  - apply orb_true_iff. right. apply negb_true_iff. apply mem_false_In.
    intros HH. apply (fresh_for_not_in (dedup (all_names sigs))).
    apply dedup_In. unfold all_names in *. apply in_flat_map in HH.
    destruct HH as [s [Hs Hx]]. apply in_flat_map. exists s. split; [apply Hi; exact Hs | exact Hx].
Qed.

(* ---- correctness of the deciders used on implementation outputs ---- *)

Theorem sound_cex_complete r inputs :
  sound_cex r inputs = None ->
  forall c, noncolliding c r inputs = true -> accepts r c = true ->
            forallb (fun s => accepts s c) inputs = true.
Proof.
  intros H c Hn Ha. unfold sound_cex in H.
  set (sigs := r :: inputs) in *.
  pose proof (find_cex_none _ _ H (rep_for sigs c) (rep_in_shapes sigs c)) as HP.
  simpl in HP.
  assert (Hr : In r sigs) by (left; reflexivity).
  assert (Hi : incl inputs sigs) by (intros x Hx; right; exact Hx).
  rewrite (noncolliding_rep sigs r inputs c Hr Hi Hn) in HP.
  rewrite (accepts_rep sigs r c Hr), Ha in HP. simpl in HP.
  rewrite (forallb_accepts_rep sigs inputs c Hi) in HP. exact HP.
Qed.

Theorem sound_cex_witness r inputs c :
  sound_cex r inputs = Some c ->
  noncolliding c r inputs = true /\ accepts r c = true /\
  forallb (fun s => accepts s c) inputs = false.
Proof.
  intros H. unfold sound_cex in H. apply find_cex_some in H. destruct H as [_ H].
  apply orb_false_iff in H. destruct H as [H1 H2].
  apply negb_false_iff in H1. apply andb_true_iff in H1. tauto.
Qed.

Theorem sound_pure_cex_complete r inputs :
  sound_pure_cex r inputs = None ->
  forall c, (npos c = 0%nat \/ kws c = []) -> accepts r c = true ->
            forallb (fun s => accepts s c) inputs = true.
Proof.
  intros H c Hp Ha. unfold sound_pure_cex in H.
  set (sigs := r :: inputs) in *.
  pose proof (find_cex_none _ _ H (rep_for sigs c) (rep_in_shapes sigs c)) as HP.
  cbv beta in HP.
  assert (Hr : In r sigs) by (left; reflexivity).
  assert (Hi : incl inputs sigs) by (intros x Hx; right; exact Hx).
  rewrite (accepts_rep sigs r c Hr), Ha in HP.
  rewrite (forallb_accepts_rep sigs inputs c Hi) in HP.
  assert (Hpure : (Nat.eqb (npos (rep_for sigs c)) 0
                   || match kws (rep_for sigs c) with [] => true | _ :: _ => false end) = true).
  { destruct Hp as [Hp|Hp].
    - unfold rep_for. rewrite canon_npos_0 by exact Hp. reflexivity.
    - unfold rep_for. rewrite canon_kws_nil by exact Hp. apply orb_true_r. }
  rewrite Hpure in HP. cbn [andb negb orb] in HP. exact HP.
Qed.

Theorem exact_cex_complete r inputs :
  exact_cex r inputs = None ->
  forall c, noncolliding c r inputs = true ->
            accepts r c = forallb (fun s => accepts s c) inputs.
Proof.
  intros H c Hn. unfold exact_cex in H.
  set (sigs := r :: inputs) in *.
  pose proof (find_cex_none _ _ H (rep_for sigs c) (rep_in_shapes sigs c)) as HP.
  simpl in HP.
  assert (Hr : In r sigs) by (left; reflexivity).
  assert (Hi : incl inputs sigs) by (intros x Hx; right; exact Hx).
  rewrite (noncolliding_rep sigs r inputs c Hr Hi Hn) in HP. simpl in HP.
  rewrite (accepts_rep sigs r c Hr) in HP.
  rewrite (forallb_accepts_rep sigs inputs c Hi) in HP.
  apply eqb_prop in HP. exact HP.
Qed.

Theorem none_cex_complete inputs :
  none_cex inputs = None ->
  forall c, forallb (fun s => accepts s c) inputs = false.
Proof.
  intros H c. unfold none_cex in H.
  pose proof (find_cex_none _ _ H (rep_for inputs c) (rep_in_shapes inputs c)) as HP.
  simpl in HP. apply negb_true_iff in HP.
  rewrite (forallb_accepts_rep inputs inputs c (incl_refl _)) in HP. exact HP.
Qed.

Theorem incl_cex_complete a b :
  incl_cex a b = None ->
  forall c, noncolliding c a [b] = true -> accepts a c = true -> accepts b c = true.
Proof.
  intros H c Hn Ha. unfold incl_cex in H.
  set (sigs := [a; b]) in *.
  pose proof (find_cex_none _ _ H (rep_for sigs c) (rep_in_shapes sigs c)) as HP.
  simpl in HP.
  assert (Hr : In a sigs) by (left; reflexivity).
  assert (Hb : In b sigs) by (right; left; reflexivity).
  assert (Hi : incl [b] sigs) by (intros x [<-|[]]; exact Hb).
  rewrite (noncolliding_rep sigs a [b] c Hr Hi Hn) in HP.
  rewrite (accepts_rep sigs a c Hr), Ha in HP. simpl in HP.
  rewrite (accepts_rep sigs b c Hb) in HP. exact HP.
Qed.
