(* Proofs/CacheForms.v -- C18: the start= / end= / autokwoargs forms of the
   modifiers of Model/Cache.v.

   Part 1: closed forms.  What kwoargs(start=), posoargs(end=) and autokwoargs
           select when they are applied ON TOP OF a translator, expressed through
           the innermost function's own parameters and the two name sets.
   Part 2: order independence of stacking for every decorator form. *)
From Coq Require Import Lia Permutation.
From Sigtools.Model Require Import Base Cache.
From Sigtools.Proofs Require Import Cache.

(* ================================================================== *)
(* Part 1a: the advertised signature of a well-ordered function         *)
(* ================================================================== *)

Definition isPK (p : param) : bool := kind_eqb (pkind p) PK.
Definition isPOPK (p : param) : bool := kind_eqb (pkind p) PO || kind_eqb (pkind p) PK.

(* kind order of a Python signature, as far as the modifiers care: no
   positional-or-keyword parameter after a parameter of another kind than
   positional-only *)
Fixpoint korder (ps : list param) : bool :=
  match ps with
  | [] => true
  | p :: r => if isPOPK p then korder r else forallb (fun q => negb (isPK q)) (p :: r)
  end.

Lemma korder_split : forall ps, korder ps = true ->
  exists A B, ps = A ++ B /\ forallb isPOPK A = true /\ forallb (fun q => negb (isPK q)) B = true.
Proof.
  induction ps as [|p r IH]; intros H.
  - exists [], []. auto.
  - cbn [korder] in H. destruct (isPOPK p) eqn:E.
    + destruct (IH H) as [A [B [E1 [E2 E3]]]]. exists (p :: A), B. subst r. cbn. rewrite E, E2. auto.
    + exists [], (p :: r). auto.
Qed.

Definition freeb (P K : nset) (p : param) : bool :=
  isPK p && negb (mem (pname p) P) && negb (mem (pname p) K).

Section Fold.
  Variables P K : nset.
  Notation step := (prep_step (fun x => mem x P) (fun x => mem x K)).

  Lemma fold_none : forall l, fold_left step l None = None.
  Proof. induction l as [|ip l IH]; cbn; auto. Qed.

  (* phase A: positional-only / positional-or-keyword parameters *)
  Lemma fold_A : forall ips a a',
    forallb isPOPK (map snd ips) = true ->
    fold_left step ips (Some a) = Some a' ->
    exists X, pa_params a' = pa_params a ++ X /\ forallb isPOPK X = true
              /\ filter isPK X = filter (freeb P K) (map snd ips)
              /\ pa_found_kws a' = pa_found_kws a
              /\ (forallb (fun q => negb (isPK q)) (pa_kwoparams a) = true ->
                  forallb (fun q => negb (isPK q)) (pa_kwoparams a') = true).
  Proof.
    induction ips as [|[i p] ips IH]; intros a a' HA HF.
    - cbn in HF. inversion HF; subst a'. exists []. rewrite app_nil_r. cbn. auto.
    - cbn [map snd forallb] in HA. apply andb_true_iff in HA. destruct HA as [Hp HA].
      cbn [fold_left] in HF.
      destruct (step (Some a) (i, p)) as [a1|] eqn:E1; [|rewrite fold_none in HF; discriminate].
      destruct (IH a1 a' HA HF) as [X [I1 [I2 [I3 [I4 I5]]]]].
      unfold prep_step in E1. cbn [fst snd] in E1. unfold isPOPK, kind_eqb in Hp.
      cbn [map snd filter]. unfold freeb at 1. unfold isPK at 2. unfold kind_eqb.
      destruct (pkind p) eqn:Ek; cbn [kind_rank Nat.eqb orb andb] in *; try discriminate.
      + (* PO *)
        destruct (negb _) eqn:Eok in E1; [discriminate|]. inversion E1; subst a1. clear E1.
        cbn [pa_params pa_kwoparams pa_found_kws] in *.
        exists (p :: X). rewrite I1, <- app_assoc. cbn [app].
        split; [reflexivity|]. split.
        { cbn [forallb]. unfold isPOPK at 1. rewrite Ek. cbn. exact I2. }
        split.
        { cbn [filter]. unfold isPK at 1. rewrite Ek. cbn. exact I3. }
        split; [exact I4|exact I5].
      + (* PK *)
        destruct (mem (pname p) P) eqn:EP; cbn [negb andb].
        * destruct (pa_found_pok a); [discriminate|]. inversion E1; subst a1. clear E1.
          cbn [pa_params pa_kwoparams pa_found_kws] in *.
          exists (set_kind PO p :: X). rewrite I1, <- app_assoc. cbn [app].
          split; [reflexivity|]. split; [cbn; exact I2|]. split; [cbn; exact I3|].
          split; [exact I4|exact I5].
        * destruct (mem (pname p) K) eqn:EK; cbn [negb andb].
          -- inversion E1; subst a1. clear E1. cbn [pa_params pa_kwoparams pa_found_kws] in *.
             exists X. split; [exact I1|]. split; [exact I2|]. split; [exact I3|].
             split; [exact I4|]. intros Hk. apply I5. rewrite forallb_app, Hk. reflexivity.
          -- inversion E1; subst a1. clear E1. cbn [pa_params pa_kwoparams pa_found_kws] in *.
             exists (p :: X). rewrite I1, <- app_assoc. cbn [app].
             split; [reflexivity|]. split.
             { cbn [forallb]. unfold isPOPK at 1. rewrite Ek. cbn. exact I2. }
             split.
             { cbn [filter]. unfold isPK at 1. rewrite Ek. cbn. f_equal. exact I3. }
             split; [exact I4|exact I5].
  Qed.

  (* phase B: everything after the last positional-or-keyword parameter *)
  Lemma fold_B : forall ips a a',
    forallb (fun q => negb (isPK q)) (map snd ips) = true ->
    forallb (fun q => negb (isPK q)) (pa_kwoparams a) = true ->
    fold_left step ips (Some a) = Some a' ->
    exists Y, pa_params a' = pa_params a ++ Y /\ forallb (fun q => negb (isPK q)) Y = true
              /\ pa_kwoparams a' = pa_kwoparams a.
  Proof.
    induction ips as [|[i p] ips IH]; intros a a' HB HK HF.
    - cbn in HF. inversion HF; subst a'. exists []. rewrite app_nil_r. auto.
    - cbn [map snd forallb] in HB. apply andb_true_iff in HB. destruct HB as [Hp HB].
      cbn [fold_left] in HF.
      destruct (step (Some a) (i, p)) as [a1|] eqn:E1; [|rewrite fold_none in HF; discriminate].
      unfold prep_step in E1. cbn [fst snd] in E1. unfold isPK, kind_eqb in Hp.
      assert (G : exists Y1, pa_params a1 = pa_params a ++ Y1
                             /\ forallb (fun q => negb (isPK q)) Y1 = true
                             /\ pa_kwoparams a1 = pa_kwoparams a).
      { destruct (pkind p) eqn:Ek; cbn [kind_rank Nat.eqb negb] in Hp; try discriminate;
          cbn [kind_eqb kind_rank Nat.eqb] in E1;
          destruct (negb _) eqn:Eok in E1; try discriminate; inversion E1; subst a1;
          cbn [pa_params pa_kwoparams].
        - exists [p]. split; [reflexivity|]. split; [|reflexivity]. cbn. unfold isPK, kind_eqb. rewrite Ek. reflexivity.
        - exists [p]. split; [reflexivity|]. split; [|reflexivity]. cbn. unfold isPK, kind_eqb. rewrite Ek. reflexivity.
        - exists [p]. split; [reflexivity|]. split; [|reflexivity]. cbn. unfold isPK, kind_eqb. rewrite Ek. reflexivity.
        - exists (pa_kwoparams a ++ [p]). split; [reflexivity|]. split; [|reflexivity].
          rewrite forallb_app, HK. cbn. unfold isPK, kind_eqb. rewrite Ek. reflexivity. }
      destruct G as [Y1 [G1 [G2 G3]]].
      assert (HK1 : forallb (fun q => negb (isPK q)) (pa_kwoparams a1) = true) by (rewrite G3; exact HK).
      destruct (IH a1 a' HB HK1 HF) as [Y [I1 [I2 I3]]].
      exists (Y1 ++ Y). rewrite I1, G1, <- app_assoc. split; [reflexivity|].
      split; [rewrite forallb_app, G2, I2; reflexivity | rewrite I3, G3; reflexivity].
  Qed.

  (* the prefix condition of _prepare, as a function of the parameters *)
  Fixpoint pfx (found : bool) (ps : list param) : bool :=
    match ps with
    | [] => true
    | p :: r =>
      if isPK p then
        if mem (pname p) P then negb found && pfx found r
        else if mem (pname p) K then pfx found r
        else pfx true r
      else pfx found r
    end.

  Lemma fold_pfx : forall ips a a',
    fold_left step ips (Some a) = Some a' -> pfx (pa_found_pok a) (map snd ips) = true.
  Proof.
    induction ips as [|[i p] ips IH]; intros a a' HF; [reflexivity|].
    cbn [fold_left] in HF.
    destruct (step (Some a) (i, p)) as [a1|] eqn:E1; [|rewrite fold_none in HF; discriminate].
    pose proof (IH a1 a' HF) as I.
    unfold prep_step in E1. cbn [fst snd] in E1. cbn [map snd pfx]. unfold isPK, kind_eqb.
    destruct (pkind p) eqn:Ek; cbn [kind_rank Nat.eqb];
      try (destruct (negb _) eqn:Eok in E1; [discriminate|];
           destruct (kind_eqb _ VK) in E1; inversion E1; subst a1; exact I).
    destruct (mem (pname p) P).
    - destruct (pa_found_pok a) eqn:Ef; [discriminate|]. inversion E1; subst a1. cbn in *. exact I.
    - destruct (mem (pname p) K); inversion E1; subst a1; exact I.
  Qed.
End Fold.

Lemma map_snd_indexed_gen : forall (l : list param) n, map snd (combine (seq n (length l)) l) = l.
Proof. induction l as [|p l IH]; intros n; cbn; [reflexivity|]. rewrite IH. reflexivity. Qed.

Lemma map_snd_indexed : forall ps, map snd (indexed ps) = ps.
Proof. intros. apply map_snd_indexed_gen. Qed.

Lemma filter_app_nil : forall (A : Type) (f : A -> bool) l,
  forallb (fun q => negb (f q)) l = true -> filter f l = [].
Proof.
  intros A f l. induction l as [|a l IH]; intros H; cbn; [reflexivity|].
  cbn in H. apply andb_true_iff in H. destruct H as [H1 H2]. apply negb_true_iff in H1.
  rewrite H1. apply IH. exact H2.
Qed.

(* the shape of what a translator advertises *)
Theorem advertised_shape : forall P K ps adv kp,
  korder ps = true -> prepare P K ps = Some (adv, kp) ->
  disjoint P K = true /\ pfx P K false ps = true /\
  exists A' B', adv = A' ++ B' /\ forallb isPOPK A' = true
                /\ forallb (fun q => negb (isPK q)) B' = true
                /\ filter isPK A' = filter (freeb P K) ps.
Proof.
  intros P K ps adv kp HO HP. unfold prepare in HP.
  destruct (disjoint P K) eqn:ED; cbn [negb] in HP; [|discriminate].
  destruct (fold_left _ (indexed ps) (Some pa_init)) as [a|] eqn:EF; [|discriminate].
  split; [reflexivity|]. split.
  { pose proof (fold_pfx P K _ _ _ EF) as Hp. rewrite map_snd_indexed in Hp. exact Hp. }
  destruct (forallb (fun x : N => mem x (pa_used a)) (union P K)); [|discriminate]. inversion HP; subst adv kp. clear HP.
  destruct (korder_split ps HO) as [A [B [Eps [HA HB]]]].
  assert (Emap : map snd (indexed ps) = A ++ B) by (rewrite map_snd_indexed; exact Eps).
  apply map_eq_app in Emap. destruct Emap as [ia [ib [Ei [Ea Eb]]]].
  rewrite Ei, fold_left_app in EF.
  destruct (fold_left (prep_step (fun x : name => mem x P) (fun x : name => mem x K)) ia (Some pa_init)) as [a1|] eqn:E1; [|rewrite fold_none in EF; discriminate].
  rewrite <- Ea in HA. rewrite <- Eb in HB.
  destruct (fold_A P K ia pa_init a1 HA E1) as [X [I1 [I2 [I3 [I4 I5]]]]].
  assert (HK1 : forallb (fun q => negb (isPK q)) (pa_kwoparams a1) = true) by (apply I5; reflexivity).
  destruct (fold_B P K ib a1 a HB HK1 EF) as [Y [J1 [J2 J3]]].
  cbn [pa_init pa_params app] in I1.
  assert (EX : filter isPK X = filter (freeb P K) ps).
  { rewrite I3, Ea, Eps, filter_app.
    assert (filter (freeb P K) B = []).
    { apply filter_app_nil. rewrite Eb in HB. rewrite forallb_forall in *. intros q Hq.
      specialize (HB q Hq). unfold freeb. apply negb_true_iff in HB. rewrite HB. reflexivity. }
    rewrite H, app_nil_r. reflexivity. }
  destruct (pa_found_kws a).
  - exists X, Y. rewrite J1, I1. auto.
  - exists X, (Y ++ pa_kwoparams a). rewrite J1, I1, <- app_assoc.
    split; [reflexivity|]. split; [exact I2|]. split; [|exact EX].
    rewrite forallb_app, J2, J3, HK1. reflexivity.
Qed.

(* ================================================================== *)
(* Part 1b: closed forms of the three selecting forms                  *)
(* ================================================================== *)

(* names of the positional-or-keyword parameters of the innermost function, in
   order, and of those among them that have a default *)
Definition pk_names (ps : list param) : list name := names_of (filter isPK ps).
Definition pkd_names (ps : list param) : list name := names_of (filter is_pk_default ps).
Definition freeN (P K : nset) (x : name) : bool := negb (mem x P) && negb (mem x K).

Fixpoint from (s : name) (ns : list name) : list name :=
  match ns with [] => [] | n :: r => if N.eqb n s then n :: r else from s r end.
Fixpoint upto (e : name) (ns : list name) : list name :=
  match ns with [] => [] | n :: r => if N.eqb n e then [n] else n :: upto e r end.

Lemma start_noPK : forall s B fd,
  forallb (fun q => negb (isPK q)) B = true -> start_names s fd B = ([], fd).
Proof.
  induction B as [|p B IH]; intros fd H; [reflexivity|].
  cbn in H. apply andb_true_iff in H. destruct H as [H1 H2]. cbn [start_names].
  unfold isPK, kind_eqb in H1. destruct (pkind p); cbn in H1; try discriminate; auto.
Qed.

Lemma end_noPK : forall e B fd,
  forallb (fun q => negb (isPK q)) B = true -> end_names e fd B = ([], fd).
Proof.
  induction B as [|p B IH]; intros fd H; [reflexivity|].
  cbn in H. apply andb_true_iff in H. destruct H as [H1 H2]. cbn [end_names].
  unfold isPK, kind_eqb in H1. destruct (pkind p); cbn in H1; try discriminate; auto.
Qed.

Lemma start_skip : forall s A B fd,
  forallb isPOPK A = true -> forallb (fun q => negb (isPK q)) B = true ->
  start_names s fd (A ++ B) = start_names s fd (filter isPK A).
Proof.
  induction A as [|p A IH]; intros B fd HA HB.
  - cbn. apply start_noPK. exact HB.
  - cbn in HA. apply andb_true_iff in HA. destruct HA as [H1 H2].
    cbn [app start_names filter]. unfold isPOPK, isPK, kind_eqb in *.
    destruct (pkind p) eqn:Ek; cbn in H1; try discriminate; cbn [kind_rank Nat.eqb].
    + apply IH; assumption.
    + cbn [start_names]. rewrite Ek. rewrite (IH B _ H2 HB). reflexivity.
Qed.

Lemma end_skip : forall e A B fd,
  forallb isPOPK A = true -> forallb (fun q => negb (isPK q)) B = true ->
  end_names e fd (A ++ B) = end_names e fd (filter isPK A).
Proof.
  induction A as [|p A IH]; intros B fd HA HB.
  - cbn. apply end_noPK. exact HB.
  - cbn in HA. apply andb_true_iff in HA. destruct HA as [H1 H2].
    cbn [app end_names filter]. unfold isPOPK, isPK, kind_eqb in *.
    destruct (pkind p) eqn:Ek; cbn in H1; try discriminate; cbn [kind_rank Nat.eqb].
    + apply IH; assumption.
    + cbn [end_names]. rewrite Ek. rewrite (IH B _ H2 HB). reflexivity.
Qed.

Lemma start_allPK_true : forall s F, forallb isPK F = true -> start_names s true F = (names_of F, true).
Proof.
  induction F as [|p F IH]; intros H; [reflexivity|].
  cbn in H. apply andb_true_iff in H. destruct H as [H1 H2]. cbn [start_names names_of map].
  unfold isPK, kind_eqb in H1. destruct (pkind p); cbn in H1; try discriminate.
  cbn [orb]. rewrite (IH H2). reflexivity.
Qed.

Lemma start_allPK : forall s F, forallb isPK F = true ->
  start_names s false F = (from s (names_of F), mem s (names_of F)).
Proof.
  induction F as [|p F IH]; intros H; [reflexivity|].
  cbn in H. apply andb_true_iff in H. destruct H as [H1 H2]. cbn [start_names names_of map from mem].
  unfold isPK, kind_eqb in H1. destruct (pkind p); cbn in H1; try discriminate.
  cbn [orb]. rewrite (N.eqb_sym s (pname p)).
  destruct (N.eqb (pname p) s) eqn:E.
  - rewrite (start_allPK_true s F H2). reflexivity.
  - rewrite (IH H2). reflexivity.
Qed.

Lemma end_allPK_true : forall e F, forallb isPK F = true -> end_names e true F = ([], true).
Proof.
  induction F as [|p F IH]; intros H; [reflexivity|].
  cbn in H. apply andb_true_iff in H. destruct H as [H1 H2]. cbn [end_names].
  unfold isPK, kind_eqb in H1. destruct (pkind p); cbn in H1; try discriminate.
  cbn [orb]. rewrite (IH H2). reflexivity.
Qed.

Lemma end_allPK : forall e F, forallb isPK F = true ->
  end_names e false F = (upto e (names_of F), mem e (names_of F)).
Proof.
  induction F as [|p F IH]; intros H; [reflexivity|].
  cbn in H. apply andb_true_iff in H. destruct H as [H1 H2]. cbn [end_names names_of map upto mem].
  unfold isPK, kind_eqb in H1. destruct (pkind p); cbn in H1; try discriminate.
  cbn [orb]. rewrite (N.eqb_sym e (pname p)).
  destruct (N.eqb (pname p) e) eqn:E.
  - rewrite (end_allPK_true e F H2). reflexivity.
  - rewrite (IH H2). reflexivity.
Qed.

Lemma filter_all_true : forall (A : Type) (f : A -> bool) l, forallb f (filter f l) = true.
Proof.
  intros A f l. induction l as [|a l IH]; cbn; [reflexivity|].
  destruct (f a) eqn:E; cbn; [rewrite E, IH; reflexivity | exact IH].
Qed.

Lemma names_free : forall P K ps,
  names_of (filter (freeb P K) ps) = filter (freeN P K) (pk_names ps).
Proof.
  intros P K ps. unfold pk_names. induction ps as [|p ps IH]; [reflexivity|].
  cbn [filter]. unfold freeb at 1. destruct (isPK p) eqn:E; cbn [andb].
  - cbn [names_of map filter]. fold (names_of (filter isPK ps)). unfold freeN at 1.
    destruct (negb (mem (pname p) P) && negb (mem (pname p) K)); cbn [names_of map]; rewrite <- IH; reflexivity.
  - exact IH.
Qed.

Lemma freeb_isPK : forall P K ps, forallb isPK (filter (freeb P K) ps) = true.
Proof.
  intros P K ps. induction ps as [|p ps IH]; cbn; [reflexivity|].
  destruct (freeb P K p) eqn:E; [|exact IH]. cbn. rewrite IH.
  unfold freeb in E. destruct (isPK p); [reflexivity | discriminate].
Qed.

(* the names a decorated object d still offers as positional-or-keyword *)
Definition free_names (d : dobj) : list name :=
  filter (freeN (d_pos d) (d_kwo d)) (pk_names (d_params d)).
Definition free_def_names (d : dobj) : list name :=
  filter (freeN (d_pos d) (d_kwo d)) (pkd_names (d_params d)).

Definition good (d : dobj) : Prop := advertised d <> None.

Lemma adv_shape_d : forall d, korder (d_params d) = true -> good d ->
  disjoint (d_pos d) (d_kwo d) = true /\ pfx (d_pos d) (d_kwo d) false (d_params d) = true /\
  exists A' B', adv_params d = A' ++ B' /\ forallb isPOPK A' = true
                /\ forallb (fun q => negb (isPK q)) B' = true
                /\ filter isPK A' = filter (freeb (d_pos d) (d_kwo d)) (d_params d).
Proof.
  intros d HO HG. unfold good, advertised in HG. unfold adv_params, advertised.
  destruct (prepare (d_pos d) (d_kwo d) (d_params d)) as [[adv kp]|] eqn:E; [|congruence].
  cbn [fst]. eapply advertised_shape; eauto.
Qed.

(* kwoargs(start=s) on top of d selects the free names from s on *)
Theorem start_closed : forall d s,
  korder (d_params d) = true -> good d ->
  start_names s false (adv_params d) = (from s (free_names d), mem s (free_names d)).
Proof.
  intros d s HO HG. destruct (adv_shape_d d HO HG) as [_ [_ [A' [B' [E [HA [HB HF]]]]]]].
  rewrite E, (start_skip s A' B' false HA HB), HF.
  rewrite (start_allPK s _ (freeb_isPK _ _ _)), names_free. reflexivity.
Qed.

(* posoargs(end=e) on top of d selects the free names up to e *)
Theorem end_closed : forall d e,
  korder (d_params d) = true -> good d ->
  end_names e false (adv_params d) = (upto e (free_names d), mem e (free_names d)).
Proof.
  intros d e HO HG. destruct (adv_shape_d d HO HG) as [_ [_ [A' [B' [E [HA [HB HF]]]]]]].
  rewrite E, (end_skip e A' B' false HA HB), HF.
  rewrite (end_allPK e _ (freeb_isPK _ _ _)), names_free. reflexivity.
Qed.

Lemma existsb_name_mem : forall (f : param -> bool) ps e,
  existsb (fun p => f p && N.eqb (pname p) e) ps = mem e (names_of (filter f ps)).
Proof.
  intros f ps e. induction ps as [|p ps IH]; [reflexivity|].
  cbn [existsb filter]. destruct (f p); cbn [andb orb names_of map mem].
  - rewrite IH, (N.eqb_sym e (pname p)). reflexivity.
  - exact IH.
Qed.

Lemma names_filter_and : forall (f : param -> bool) (g : name -> bool) ps,
  map pname (filter (fun p => f p && g (pname p)) ps) = filter g (names_of (filter f ps)).
Proof.
  intros f g ps. induction ps as [|p ps IH]; [reflexivity|].
  cbn [filter]. destruct (f p); cbn [andb names_of map filter].
  - destruct (g (pname p)); cbn [map]; rewrite IH; reflexivity.
  - exact IH.
Qed.

Lemma auto_names_spec : forall E ps,
  auto_names E ps =
  if forallb (fun e => mem e (pkd_names ps)) E
  then Some (filter (fun x => negb (mem x E)) (pkd_names ps)) else None.
Proof.
  intros E ps. unfold auto_names, pkd_names.
  rewrite (forallb_ext_fun _ (fun e => existsb (fun p => is_pk_default p && N.eqb (pname p) e) ps)
             (fun e => mem e (names_of (filter is_pk_default ps))) E)
    by (intro e; apply existsb_name_mem).
  rewrite (names_filter_and is_pk_default (fun x => negb (mem x E)) ps). reflexivity.
Qed.

Lemma pkd_split : forall A B,
  forallb (fun q => negb (isPK q)) B = true ->
  filter is_pk_default (A ++ B) = filter has_def (filter isPK A).
Proof.
  intros A B HB. rewrite filter_app.
  assert (filter is_pk_default B = []).
  { apply filter_app_nil. rewrite forallb_forall in *. intros q Hq. specialize (HB q Hq).
    unfold is_pk_default. unfold isPK in HB. apply negb_true_iff in HB. rewrite HB. reflexivity. }
  rewrite H, app_nil_r. induction A as [|p A IH]; [reflexivity|].
  cbn [filter]. unfold is_pk_default at 1. unfold isPK at 1.
  destruct (kind_eqb (pkind p) PK); cbn [andb filter]; [|exact IH].
  destruct (has_def p); rewrite IH; reflexivity.
Qed.

Lemma pkd_free : forall P K ps,
  names_of (filter has_def (filter (freeb P K) ps)) = filter (freeN P K) (pkd_names ps).
Proof.
  intros P K ps. unfold pkd_names. induction ps as [|p ps IH]; [reflexivity|].
  cbn [filter]. unfold freeb at 1. unfold is_pk_default at 1. unfold isPK.
  destruct (kind_eqb (pkind p) PK); cbn [andb]; [|exact IH].
  destruct (has_def p) eqn:Ed.
  - cbn [names_of map filter]. unfold freeN at 1.
    destruct (negb (mem (pname p) P) && negb (mem (pname p) K)); cbn [filter];
      [rewrite Ed; cbn [names_of map]; f_equal; exact IH | exact IH].
  - destruct (negb (mem (pname p) P) && negb (mem (pname p) K)); cbn [filter];
      [rewrite Ed; exact IH | exact IH].
Qed.

(* autokwoargs(exceptions=E) on top of d: E must name free parameters with a
   default, the other free parameters with a default are selected *)
Theorem auto_closed : forall d E,
  korder (d_params d) = true -> good d ->
  auto_names E (adv_params d) =
  if forallb (fun e => mem e (free_def_names d)) E
  then Some (filter (fun x => negb (mem x E)) (free_def_names d)) else None.
Proof.
  intros d E HO HG. destruct (adv_shape_d d HO HG) as [_ [_ [A' [B' [Ea [HA [HB HF]]]]]]].
  rewrite auto_names_spec. unfold pkd_names. rewrite Ea, (pkd_split A' B' HB), HF, pkd_free.
  reflexivity.
Qed.

(* ================================================================== *)
(* Part 2a: name-level lemmas                                          *)
(* ================================================================== *)

Lemma from_incl : forall s ns x, In x (from s ns) -> In x ns.
Proof.
  induction ns as [|n r IH]; intros x H; [destruct H|]. cbn [from] in H.
  destruct (N.eqb n s); [exact H | right; apply IH; exact H].
Qed.

Lemma mem_from_self : forall s ns, mem s ns = true -> In s (from s ns).
Proof.
  induction ns as [|n r IH]; intros H; [discriminate|]. cbn [from mem] in *.
  destruct (N.eqb n s) eqn:E.
  - left. apply N.eqb_eq. exact E.
  - rewrite N.eqb_sym, E in H. apply IH. exact H.
Qed.

Lemma from_filter : forall (g : name -> bool) s ns,
  g s = true -> from s (filter g ns) = filter g (from s ns).
Proof.
  intros g s ns Hg. induction ns as [|n r IH]; [reflexivity|]. cbn [filter from].
  destruct (N.eqb n s) eqn:E.
  - apply N.eqb_eq in E. subst n. rewrite Hg. cbn [from]. rewrite N.eqb_refl. cbn [filter]. rewrite Hg. reflexivity.
  - destruct (g n); [cbn [from]; rewrite E|]; exact IH.
Qed.

Lemma upto_filter : forall (g : name -> bool) e ns,
  g e = true -> upto e (filter g ns) = filter g (upto e ns).
Proof.
  intros g e ns Hg. induction ns as [|n r IH]; [reflexivity|]. cbn [filter upto].
  destruct (N.eqb n e) eqn:E.
  - apply N.eqb_eq in E. subst n. rewrite Hg. cbn [upto]. rewrite N.eqb_refl. cbn [filter]. rewrite Hg. reflexivity.
  - destruct (g n) eqn:Eg; cbn [upto filter]; rewrite ?E, ?Eg, IH; reflexivity.
Qed.

Lemma upto_incl : forall e ns x, In x (upto e ns) -> In x ns.
Proof.
  induction ns as [|n r IH]; intros x H; [destruct H|]. cbn [upto] in H.
  destruct (N.eqb n e).
  - destruct H as [H|[]]. left. exact H.
  - destruct H as [H|H]; [left; exact H | right; apply IH; exact H].
Qed.

Lemma mem_upto_self : forall e ns, mem e ns = true -> In e (upto e ns).
Proof.
  induction ns as [|n r IH]; intros H; [discriminate|]. cbn [upto mem] in *.
  destruct (N.eqb n e) eqn:E.
  - left. apply N.eqb_eq. exact E.
  - rewrite N.eqb_sym, E in H. right. apply IH. exact H.
Qed.

(* x at or before e, e present: e is at or after x *)
Lemma upto_from : forall e ns x, In x (upto e ns) -> In e ns -> In e (from x ns).
Proof.
  induction ns as [|n r IH]; intros x Hx He; [destruct He|]. cbn [upto from] in *.
  destruct (N.eqb n e) eqn:E.
  - apply N.eqb_eq in E. subst n. destruct Hx as [Hx|[]]. subst x. rewrite N.eqb_refl. left. reflexivity.
  - assert (Her : In e r). { destruct He as [He|He]; [subst n; rewrite N.eqb_refl in E; discriminate | exact He]. }
    destruct (N.eqb n x) eqn:Ex.
    + right. exact Her.
    + destruct Hx as [Hx|Hx]; [subst n; rewrite N.eqb_refl in Ex; discriminate|].
      apply IH; assumption.
Qed.

Lemma from_from : forall s ns x y,
  NoDup ns -> In x (from s ns) -> In y (from x ns) -> In y (from s ns).
Proof.
  induction ns as [|n r IH]; intros x y Hnd Hx Hy; [destruct Hx|].
  inversion Hnd as [|n' r' Hnin Hnd']; subst. cbn [from] in *.
  destruct (N.eqb n s) eqn:Es.
  - destruct (N.eqb n x); [exact Hy | right; eapply from_incl; exact Hy].
  - destruct (N.eqb n x) eqn:Ex.
    + apply N.eqb_eq in Ex. subst n. exfalso. apply Hnin. eapply from_incl. exact Hx.
    + eapply IH; eauto.
Qed.

Lemma mem_filter : forall (g : name -> bool) x ns, mem x (filter g ns) = mem x ns && g x.
Proof.
  intros g x ns. induction ns as [|n r IH]; [reflexivity|]. cbn [filter mem].
  destruct (g n) eqn:Eg; cbn [mem]; rewrite IH.
  - destruct (N.eqb x n) eqn:E; cbn [orb]; [|reflexivity].
    apply N.eqb_eq in E. subst n. rewrite Eg. reflexivity.
  - destruct (N.eqb x n) eqn:E; cbn [orb]; [|reflexivity].
    apply N.eqb_eq in E. subst n. rewrite Eg, andb_false_r. reflexivity.
Qed.

(* the prefix condition in terms of names *)
Lemma pfx_true_names : forall P K ps y,
  pfx P K true ps = true -> In y (pk_names ps) -> mem y P = true -> False.
Proof.
  intros P K ps y. unfold pk_names. induction ps as [|p r IH]; intros H Hy HP; [destruct Hy|].
  cbn [pfx filter] in *. destruct (isPK p) eqn:Ek.
  - cbn [names_of map] in Hy. destruct (mem (pname p) P) eqn:Ep; [cbn in H; discriminate|].
    assert (Hr : pfx P K true r = true) by (destruct (mem (pname p) K); exact H).
    destruct Hy as [Hy|Hy]; [subst y; congruence | exact (IH Hr Hy HP)].
  - exact (IH H Hy HP).
Qed.

Lemma pfx_names : forall P K ps fd x y,
  pfx P K fd ps = true -> mem x P = false -> mem x K = false ->
  In y (from x (pk_names ps)) -> y <> x -> mem y P = true -> False.
Proof.
  intros P K ps. unfold pk_names. induction ps as [|p r IH]; intros fd x y H HxP HxK Hy Hne HyP; [destruct Hy|].
  cbn [pfx filter] in *. destruct (isPK p) eqn:Ek.
  - cbn [names_of map from] in Hy. fold (names_of (filter isPK r)) in Hy.
    destruct (N.eqb (pname p) x) eqn:Ex.
    + apply N.eqb_eq in Ex. rewrite Ex, HxP, HxK in H.
      destruct Hy as [Hy|Hy]; [congruence|].
      eapply pfx_true_names; eauto.
    + destruct (mem (pname p) P).
      * apply andb_true_iff in H. destruct H as [_ H]. eapply IH; eauto.
      * destruct (mem (pname p) K); eapply IH; eauto.
  - eapply IH; eauto.
Qed.

(* ================================================================== *)
(* Part 2b: one decorator application, in closed form                  *)
(* ================================================================== *)

(* well-formedness of the innermost function, as far as the modifiers care:
   kind order, distinct names, defaults form a suffix of the
   positional-or-keyword parameters *)
Record wfd (d : dobj) : Prop := mkWfd {
  wf_order : korder (d_params d) = true;
  wf_nodup : NoDup (pk_names (d_params d));
  wf_defs : forall x y, In x (pkd_names (d_params d)) -> In y (from x (pk_names (d_params d))) ->
                        In y (pkd_names (d_params d))
}.

Definition inv (d : dobj) : Prop := wfd d /\ good d.

Definition Pm (d : dobj) (x : name) : bool := mem x (d_pos d).
Definition Km (d : dobj) (x : name) : bool := mem x (d_kwo d).
Definition NN (d : dobj) : list name := pk_names (d_params d).
Definition DD (d : dobj) : list name := pkd_names (d_params d).

Lemma free_names_mem : forall d x,
  mem x (free_names d) = mem x (NN d) && (negb (Pm d x) && negb (Km d x)).
Proof. intros. unfold free_names. rewrite mem_filter. reflexivity. Qed.

Lemma free_def_names_mem : forall d x,
  mem x (free_def_names d) = mem x (DD d) && (negb (Pm d x) && negb (Km d x)).
Proof. intros. unfold free_def_names. rewrite mem_filter. reflexivity. Qed.

(* what one application selects, and when it is admissible at all *)
Definition selP (d : dobj) (m : modifier) : list name :=
  match m with
  | MPos ns => ns
  | MPosEnd e ns => ns ++ upto e (free_names d)
  | _ => []
  end.
Definition selK (d : dobj) (m : modifier) : list name :=
  match m with
  | MKwo ns => ns
  | MKwoStart s ns => ns ++ from s (free_names d)
  | MAuto E => filter (fun x => negb (mem x E)) (free_def_names d)
  | _ => []
  end.
Definition admits (d : dobj) (m : modifier) : Prop :=
  match m with
  | MKwoStart s _ => mem s (free_names d) = true
  | MPosEnd e _ => mem e (free_names d) = true
  | MAuto E => forall e, In e E -> mem e (free_def_names d) = true
  | _ => True
  end.

Lemma mk_translator_good : forall d p k d', good d -> mk_translator d p k = Some d' -> good d'.
Proof.
  intros d p k d' HG H. unfold mk_translator in H.
  destruct p as [|p0 p]; [destruct k as [|k0 k]; [inversion H; subst; exact HG|]|];
    destruct (prepare _ _ (d_params d)) as [r|] eqn:E; try discriminate; inversion H; subst d';
    unfold good, advertised; intro Hc; cbn [d_pos d_kwo d_params] in Hc;
    unfold union in *; cbn [app] in *; rewrite E in Hc; discriminate.
Qed.

Lemma isPK_ann : forall A p, isPK (ann_param A p) = isPK p.
Proof. intros. unfold isPK. rewrite ann_param_kind. reflexivity. Qed.

Lemma has_def_ann : forall A p, has_def (ann_param A p) = has_def p.
Proof. intros A p. unfold ann_param. destruct (ann_lookup A (pname p)); reflexivity. Qed.

Lemma pkd_ann : forall A p, is_pk_default (ann_param A p) = is_pk_default p.
Proof. intros. unfold is_pk_default. rewrite ann_param_kind, has_def_ann. reflexivity. Qed.

Lemma pk_names_ann : forall A ps, pk_names (map (ann_param A) ps) = pk_names ps.
Proof.
  intros A ps. unfold pk_names. induction ps as [|p r IH]; [reflexivity|].
  cbn [map filter]. rewrite isPK_ann.
  destruct (isPK p); cbn [names_of map]; [rewrite pname_ann_param; f_equal|]; exact IH.
Qed.

Lemma pkd_names_ann : forall A ps, pkd_names (map (ann_param A) ps) = pkd_names ps.
Proof.
  intros A ps. unfold pkd_names. induction ps as [|p r IH]; [reflexivity|].
  cbn [map filter]. rewrite pkd_ann.
  destruct (is_pk_default p); cbn [names_of map]; [rewrite pname_ann_param; f_equal|]; exact IH.
Qed.

Lemma noPK_ann : forall A r,
  forallb (fun q => negb (isPK q)) (map (ann_param A) r) = forallb (fun q => negb (isPK q)) r.
Proof.
  intros A r. induction r as [|q r IH]; [reflexivity|]. cbn [map forallb]. rewrite isPK_ann, IH. reflexivity.
Qed.

Lemma korder_ann : forall A ps, korder (map (ann_param A) ps) = korder ps.
Proof.
  intros A ps. induction ps as [|p r IH]; [reflexivity|]. cbn [map korder].
  assert (E1 : isPOPK (ann_param A p) = isPOPK p) by (unfold isPOPK; rewrite ann_param_kind; reflexivity).
  rewrite E1, IH. change (ann_param A p :: map (ann_param A) r) with (map (ann_param A) (p :: r)).
  rewrite noPK_ann. reflexivity.
Qed.

Theorem step_sel : forall d m d',
  inv d -> apply_mod d m = Some d' ->
  admits d m /\ inv d' /\ NN d' = NN d /\ DD d' = DD d /\
  (forall x, Pm d' x = mem x (selP d m) || Pm d x) /\
  (forall x, Km d' x = mem x (selK d m) || Km d x).
Proof.
  intros d m d' [HW HG] H.
  assert (TR : forall p k, mk_translator d p k = Some d' ->
               inv d' /\ NN d' = NN d /\ DD d' = DD d /\
               (forall x, Pm d' x = mem x p || Pm d x) /\ (forall x, Km d' x = mem x k || Km d x)).
  { intros p k Hm. destruct (mk_translator_sets d p k d' Hm) as [E1 [E2 [E3 E4]]].
    pose proof (mk_translator_good d p k d' HG Hm) as HG'.
    unfold NN, DD, Pm, Km. rewrite E1. repeat split; auto.
    - rewrite E1. apply (wf_order d HW).
    - rewrite E1. apply (wf_nodup d HW).
    - rewrite E1. apply (wf_defs d HW). }
  destruct m as [ns|ns|s ns|e ns|E|ret A]; unfold apply_mod in H.
  - split; [exact I|]. apply (TR [] ns H).
  - split; [exact I|]. destruct (TR ns [] H) as [T1 [T2 [T3 [T4 T5]]]]. split; [exact T1|]. split; [exact T2|]. split; [exact T3|]. split; [exact T4|exact T5].
  - rewrite (start_closed d s (wf_order d HW) HG) in H. cbn [fst snd] in H.
    destruct (mem s (free_names d)) eqn:Es; [|discriminate].
    split; [exact Es|]. apply (TR [] _ H).
  - rewrite (end_closed d e (wf_order d HW) HG) in H. cbn [fst snd] in H.
    destruct (mem e (free_names d)) eqn:Ee; [|discriminate].
    split; [exact Ee|]. destruct (TR _ [] H) as [T1 [T2 [T3 [T4 T5]]]]. split; [exact T1|]. split; [exact T2|]. split; [exact T3|]. split; [exact T4|exact T5].
  - rewrite (auto_closed d E (wf_order d HW) HG) in H.
    destruct (forallb (fun e => mem e (free_def_names d)) E) eqn:Ef; [|discriminate].
    split; [intros e He; rewrite forallb_forall in Ef; apply Ef; exact He|].
    apply (TR [] _ H).
  - split; [exact I|].
    destruct (annotate_updates d ret A d' H) as [Ha [_ [Hp Hk]]].
    destruct (forallb (fun a : N * N => mem (fst a) (names_of (d_params d))) A); [|discriminate].
    inversion H; subst d'. unfold inv, NN, DD, Pm, Km. cbn [d_params d_pos d_kwo] in *.
    rewrite pk_names_ann, pkd_names_ann. repeat split; auto.
    + cbn [d_params]. rewrite korder_ann. apply (wf_order d HW).
    + cbn [d_params]. rewrite pk_names_ann. apply (wf_nodup d HW).
    + cbn [d_params]. rewrite pk_names_ann, pkd_names_ann. apply (wf_defs d HW).
    + unfold good. rewrite Ha. unfold good in HG. destruct (advertised d); [discriminate|congruence].
Qed.

(* ================================================================== *)
(* Part 2c: facts about runs                                           *)
(* ================================================================== *)

Definition sub (a b : dobj) : Prop :=
  NN b = NN a /\ DD b = DD a /\
  (forall x, Pm a x = true -> Pm b x = true) /\ (forall x, Km a x = true -> Km b x = true).

Lemma sub_refl : forall a, sub a a.
Proof. intros a. repeat split; auto. Qed.

Lemma sub_trans : forall a b c, sub a b -> sub b c -> sub a c.
Proof.
  intros a b c [A1 [A2 [A3 A4]]] [B1 [B2 [B3 B4]]]. repeat split; try congruence; auto.
Qed.

Lemma step_sub : forall d m d', inv d -> apply_mod d m = Some d' -> sub d d'.
Proof.
  intros d m d' HI H. destruct (step_sel d m d' HI H) as [_ [_ [E1 [E2 [E3 E4]]]]].
  repeat split; auto; intros x Hx; [rewrite E3 | rewrite E4]; rewrite Hx; apply orb_true_r.
Qed.

Lemma run_app : forall l1 l2 d,
  run_mods d (l1 ++ l2) = match run_mods d l1 with Some d1 => run_mods d1 l2 | None => None end.
Proof.
  induction l1 as [|m l1 IH]; intros l2 d; [reflexivity|]. cbn [app run_mods].
  destruct (apply_mod d m); [apply IH | reflexivity].
Qed.

Lemma run_inv : forall l d d', inv d -> run_mods d l = Some d' -> inv d' /\ sub d d'.
Proof.
  induction l as [|m l IH]; intros d d' HI H.
  - inversion H; subst. split; [exact HI | apply sub_refl].
  - cbn [run_mods] in H. destruct (apply_mod d m) as [d1|] eqn:E; [|discriminate].
    destruct (step_sel d m d1 HI E) as [_ [HI1 _]].
    destruct (IH d1 d' HI1 H) as [HI' HS]. split; [exact HI'|].
    eapply sub_trans; [eapply step_sub; eauto | exact HS].
Qed.

(* the application of a member of the list, with the states around it *)
Lemma run_at : forall l d d' m,
  inv d -> run_mods d l = Some d' -> In m l ->
  exists l1 l2 d1 d2, l = l1 ++ m :: l2 /\ run_mods d l1 = Some d1 /\ apply_mod d1 m = Some d2
                      /\ run_mods d2 l2 = Some d' /\ inv d1 /\ inv d2 /\ sub d d1 /\ sub d2 d'.
Proof.
  intros l d d' m HI H Hin. apply in_split in Hin. destruct Hin as [l1 [l2 E]]. subst l.
  rewrite run_app in H. destruct (run_mods d l1) as [d1|] eqn:E1; [|discriminate].
  cbn [run_mods] in H. destruct (apply_mod d1 m) as [d2|] eqn:E2; [|discriminate].
  destruct (run_inv l1 d d1 HI E1) as [HI1 S1].
  destruct (step_sel d1 m d2 HI1 E2) as [_ [HI2 _]].
  destruct (run_inv l2 d2 d' HI2 H) as [_ S2].
  exists l1, l2, d1, d2.
  split; [reflexivity|]. split; [exact E1|]. split; [exact E2|]. split; [exact H|].
  split; [exact HI1|]. split; [exact HI2|]. split; [exact S1|exact S2].
Qed.

(* the first application after which x belongs to a set *)
Lemma first_entry : forall (f : dobj -> name -> bool) l d d' x,
  run_mods d l = Some d' -> f d x = false -> f d' x = true ->
  exists l1 m l2 d1 d2, l = l1 ++ m :: l2 /\ run_mods d l1 = Some d1 /\ apply_mod d1 m = Some d2
                        /\ run_mods d2 l2 = Some d' /\ f d1 x = false /\ f d2 x = true.
Proof.
  intros f. induction l as [|m l IH]; intros d d' x H H0 H1.
  - inversion H; subst. congruence.
  - cbn [run_mods] in H. destruct (apply_mod d m) as [d1|] eqn:E; [|discriminate].
    destruct (f d1 x) eqn:E1.
    + exists [], m, l, d, d1. repeat split; auto.
    + destruct (IH d1 d' x H E1 H1) as [l1 [m' [l2 [c1 [c2 [A1 [A2 [A3 [A4 [A5 A6]]]]]]]]]].
      exists (m :: l1), m', l2, c1, c2. subst l. repeat split; auto.
      cbn [run_mods]. rewrite E. exact A2.
Qed.

Lemma inv_disjoint : forall d x, inv d -> Pm d x = true -> Km d x = true -> False.
Proof.
  intros d x [HW HG] HP HK. destruct (adv_shape_d d (wf_order d HW) HG) as [HD _].
  unfold disjoint in HD. rewrite forallb_forall in HD.
  unfold Pm in HP. apply mem_In in HP. specialize (HD x HP). unfold Km in HK. rewrite HK in HD. discriminate.
Qed.

Lemma inv_prefix : forall d x y, inv d ->
  Pm d x = false -> Km d x = false -> In y (from x (NN d)) -> y <> x -> Pm d y = true -> False.
Proof.
  intros d x y [HW HG] HxP HxK Hy Hne HyP.
  destruct (adv_shape_d d (wf_order d HW) HG) as [_ [Hp _]].
  eapply pfx_names; eauto.
Qed.

Lemma free_from : forall d s x,
  mem s (free_names d) = true -> In x (from s (free_names d)) ->
  In x (from s (NN d)) /\ Pm d x = false /\ Km d x = false.
Proof.
  intros d s x Hs Hx. rewrite free_names_mem in Hs. apply andb_true_iff in Hs. destruct Hs as [_ Hs].
  unfold free_names in Hx. rewrite (from_filter _ s _ Hs) in Hx. apply filter_In in Hx.
  destruct Hx as [Hx Hf]. split; [exact Hx|]. apply andb_true_iff in Hf. destruct Hf as [A B].
  apply negb_true_iff in A. apply negb_true_iff in B. auto.
Qed.

Lemma free_upto : forall d e x,
  mem e (free_names d) = true -> In x (upto e (free_names d)) ->
  In x (upto e (NN d)) /\ Pm d x = false /\ Km d x = false.
Proof.
  intros d e x He Hx. rewrite free_names_mem in He. apply andb_true_iff in He. destruct He as [_ He].
  unfold free_names in Hx. rewrite (upto_filter _ e _ He) in Hx. apply filter_In in Hx.
  destruct Hx as [Hx Hf]. split; [exact Hx|]. apply andb_true_iff in Hf. destruct Hf as [A B].
  apply negb_true_iff in A. apply negb_true_iff in B. auto.
Qed.

Lemma admits_free : forall d s, mem s (free_names d) = true ->
  In s (NN d) /\ Pm d s = false /\ Km d s = false.
Proof.
  intros d s H. rewrite free_names_mem in H. apply andb_true_iff in H. destruct H as [A B].
  apply andb_true_iff in B. destruct B as [B C]. apply negb_true_iff in B. apply negb_true_iff in C.
  split; [apply mem_In; exact A | auto].
Qed.

(* kwoargs(start=s): afterwards every parameter from s on is keyword-only *)
Lemma start_covers : forall d s ns d' x,
  inv d -> apply_mod d (MKwoStart s ns) = Some d' -> In x (from s (NN d)) -> Km d' x = true.
Proof.
  intros d s ns d' x HI H Hx. destruct (step_sel d _ d' HI H) as [Ha [_ [_ [_ [_ EK]]]]].
  cbn [admits] in Ha. destruct (admits_free d s Ha) as [HsN [HsP HsK]].
  rewrite EK. cbn [selK]. destruct (Km d x) eqn:Ekx; [apply orb_true_r|]. rewrite orb_false_r.
  destruct (Pm d x) eqn:Epx.
  - exfalso. assert (x <> s) by (intro; subst x; congruence). eapply inv_prefix; eauto.
  - rewrite mem_app. apply orb_true_iff. right. apply mem_In. unfold free_names.
    rewrite from_filter.
    + apply filter_In. split; [exact Hx|]. unfold freeN. fold (Pm d x) (Km d x). rewrite Epx, Ekx. reflexivity.
    + unfold freeN. fold (Pm d s) (Km d s). rewrite HsP, HsK. reflexivity.
Qed.

(* posoargs(end=e): afterwards e is positional-only, and so is every parameter
   up to e that is not keyword-only *)
Lemma end_covers : forall d e ns d' x,
  inv d -> apply_mod d (MPosEnd e ns) = Some d' ->
  In x (upto e (NN d)) -> Km d x = false -> Pm d' x = true.
Proof.
  intros d e ns d' x HI H Hx HxK. destruct (step_sel d _ d' HI H) as [Ha [_ [_ [_ [EP _]]]]].
  cbn [admits] in Ha. destruct (admits_free d e Ha) as [HeN [HeP HeK]].
  rewrite EP. cbn [selP]. destruct (Pm d x) eqn:Epx; [apply orb_true_r|]. rewrite orb_false_r.
  rewrite mem_app. apply orb_true_iff. right. apply mem_In. unfold free_names.
  rewrite upto_filter.
  - apply filter_In. split; [exact Hx|]. unfold freeN. fold (Pm d x) (Km d x). rewrite Epx, HxK. reflexivity.
  - unfold freeN. fold (Pm d e) (Km d e). rewrite HeP, HeK. reflexivity.
Qed.

Lemma end_covers_self : forall d e ns d',
  inv d -> apply_mod d (MPosEnd e ns) = Some d' -> Pm d' e = true /\ In e (NN d).
Proof.
  intros d e ns d' HI H. destruct (step_sel d _ d' HI H) as [Ha _]. cbn [admits] in Ha.
  destruct (admits_free d e Ha) as [HeN [HeP HeK]]. split; [|exact HeN].
  eapply end_covers; eauto. apply mem_upto_self. apply mem_In. exact HeN.
Qed.

(* autokwoargs(exceptions=E): afterwards every parameter with a default that is
   neither excepted nor positional-only is keyword-only *)
Lemma auto_covers : forall d E d' x,
  inv d -> apply_mod d (MAuto E) = Some d' ->
  In x (DD d) -> mem x E = false -> Pm d x = false -> Km d' x = true.
Proof.
  intros d E d' x HI H Hx HxE HxP. destruct (step_sel d _ d' HI H) as [_ [_ [_ [_ [_ EK]]]]].
  rewrite EK. cbn [selK]. destruct (Km d x) eqn:Ekx; [apply orb_true_r|]. rewrite orb_false_r.
  rewrite mem_filter, HxE, free_def_names_mem, HxP, Ekx. cbn [negb andb].
  rewrite !andb_true_r. apply mem_In. exact Hx.
Qed.

Definition expP (m : modifier) : list name :=
  match m with MPos ns | MPosEnd _ ns => ns | _ => [] end.
Definition expK (m : modifier) : list name :=
  match m with MKwo ns | MKwoStart _ ns => ns | _ => [] end.

Lemma exp_cover : forall l d d' m x,
  inv d -> run_mods d l = Some d' -> In m l ->
  (In x (expP m) -> Pm d' x = true) /\ (In x (expK m) -> Km d' x = true).
Proof.
  intros l d d' m x HI H Hin.
  destruct (run_at l d d' m HI H Hin) as [l1 [l2 [d1 [d2 [_ [_ [E2 [_ [I1 [_ [_ S2]]]]]]]]]]].
  destruct (step_sel d1 m d2 I1 E2) as [_ [_ [_ [_ [EP EK]]]]].
  destruct S2 as [_ [_ [SP SK]]].
  split; intros Hx; [apply SP; rewrite EP | apply SK; rewrite EK]; apply orb_true_iff; left;
    apply mem_In; destruct m; cbn [expP expK selP selK] in *; try (destruct Hx; fail); try exact Hx;
    apply in_or_app; left; exact Hx.
Qed.

Lemma start_cover_run : forall l d d' s ns x,
  inv d -> run_mods d l = Some d' -> In (MKwoStart s ns) l -> In x (from s (NN d)) -> Km d' x = true.
Proof.
  intros l d d' s ns x HI H Hin Hx.
  destruct (run_at l d d' _ HI H Hin) as [l1 [l2 [d1 [d2 [_ [_ [E2 [_ [I1 [_ [S1 S2]]]]]]]]]]].
  destruct S1 as [N1 _]. destruct S2 as [_ [_ [_ SK]]]. apply SK.
  eapply start_covers; eauto. rewrite N1. exact Hx.
Qed.

Lemma end_cover_run : forall l d d' e ns,
  inv d -> run_mods d l = Some d' -> In (MPosEnd e ns) l -> Pm d' e = true /\ In e (NN d).
Proof.
  intros l d d' e ns HI H Hin.
  destruct (run_at l d d' _ HI H Hin) as [l1 [l2 [d1 [d2 [_ [_ [E2 [_ [I1 [_ [S1 S2]]]]]]]]]]].
  destruct (end_covers_self d1 e ns d2 I1 E2) as [A B].
  destruct S1 as [N1 _]. destruct S2 as [_ [_ [SP _]]]. split; [apply SP; exact A | rewrite <- N1; exact B].
Qed.

Lemma auto_cover_run : forall l d d' E x,
  inv d -> run_mods d l = Some d' -> In (MAuto E) l ->
  In x (DD d) -> mem x E = false -> Pm d' x = false -> Km d' x = true.
Proof.
  intros l d d' E x HI H Hin Hx HxE HxP.
  destruct (run_at l d d' _ HI H Hin) as [l1 [l2 [d1 [d2 [_ [_ [E2 [_ [I1 [I2 [S1 S2]]]]]]]]]]].
  destruct S1 as [_ [D1 _]]. destruct (step_sub d1 _ d2 I1 E2) as [_ [_ [SP12 _]]].
  destruct S2 as [_ [_ [SP SK]]]. apply SK.
  apply (auto_covers d1 E d2 x I1 E2); [rewrite D1; exact Hx | exact HxE |].
  destruct (Pm d1 x) eqn:Ep; [|reflexivity]. rewrite (SP x (SP12 x Ep)) in HxP. discriminate.
Qed.

(* admissibility, seen from the start of the run *)
Lemma adm_run : forall l d d' m,
  inv d -> run_mods d l = Some d' -> In m l ->
  match m with
  | MPosEnd e _ => Pm d e = false /\ Km d e = false
  | MKwoStart s _ => Pm d s = false /\ Km d s = false
  | MAuto E => forall e, In e E -> Pm d e = false /\ Km d e = false
  | _ => True
  end.
Proof.
  intros l d d' m HI H Hin.
  destruct (run_at l d d' m HI H Hin) as [l1 [l2 [d1 [d2 [_ [_ [E2 [_ [I1 [_ [S1 _]]]]]]]]]]].
  destruct (step_sel d1 m d2 I1 E2) as [Ha _]. destruct S1 as [_ [_ [SP SK]]].
  assert (G : forall z, Pm d1 z = false -> Km d1 z = false -> Pm d z = false /\ Km d z = false).
  { intros z A B. split.
    - destruct (Pm d z) eqn:E; [rewrite (SP z E) in A; discriminate | reflexivity].
    - destruct (Km d z) eqn:E; [rewrite (SK z E) in B; discriminate | reflexivity]. }
  destruct m as [ns|ns|s ns|e ns|E|ret A]; cbn [admits] in Ha; auto.
  - destruct (admits_free d1 s Ha) as [_ [A B]]. apply G; assumption.
  - destruct (admits_free d1 e Ha) as [_ [A B]]. apply G; assumption.
  - intros e He. specialize (Ha e He). rewrite free_def_names_mem in Ha.
    apply andb_true_iff in Ha. destruct Ha as [_ Ha]. apply andb_true_iff in Ha. destruct Ha as [A B].
    apply negb_true_iff in A. apply negb_true_iff in B. apply G; assumption.
Qed.

Lemma in_mid : forall (m' m : modifier) t1 t2,
  In m' (t1 ++ m :: t2) -> In m' t1 \/ m' = m \/ In m' t2.
Proof.
  intros m' m t1 t2 H. apply in_app_or in H. destruct H as [H|[H|H]]; auto.
Qed.

(* ================================================================== *)
(* Part 2d: one step of a second admissible order stays inside the     *)
(*          final sets of the first                                    *)
(* ================================================================== *)

Lemma mod_cases : forall m : modifier,
  (exists ns, m = MKwo ns) \/ (exists ns, m = MPos ns) \/ (exists s ns, m = MKwoStart s ns) \/
  (exists e ns, m = MPosEnd e ns) \/ (exists E, m = MAuto E) \/ (exists r A, m = MAnn r A).
Proof. intros m. destruct m; eauto 12. Qed.

Section Tau.
  Variables d0 ds dt dt' dT : dobj.
  Variables sg t1 t2 : list modifier.
  Variable m : modifier.
  Hypothesis HI0 : inv d0.
  Hypothesis Hs : run_mods d0 sg = Some ds.
  Hypothesis Ht1 : run_mods d0 t1 = Some dt.
  Hypothesis Hm : apply_mod dt m = Some dt'.
  Hypothesis Ht2 : run_mods dt' t2 = Some dT.
  Hypothesis HPm : Permutation sg (t1 ++ m :: t2).
  Hypothesis HsP : forall x, Pm dt x = true -> Pm ds x = true.
  Hypothesis HsK : forall x, Km dt x = true -> Km ds x = true.

  Lemma tau_It : inv dt /\ sub d0 dt.
  Proof. apply (run_inv t1 d0 dt HI0 Ht1). Qed.
  Lemma tau_It' : inv dt' /\ sub dt dt'.
  Proof.
    destruct tau_It as [I _]. destruct (step_sel dt m dt' I Hm) as [_ [I' _]].
    split; [exact I' | eapply step_sub; eauto].
  Qed.
  Lemma tau_IT : inv dT /\ sub dt' dT.
  Proof. destruct tau_It' as [I _]. apply (run_inv t2 dt' dT I Ht2). Qed.
  Lemma tau_Is : inv ds /\ sub d0 ds.
  Proof. apply (run_inv sg d0 ds HI0 Hs). Qed.

  Lemma tau_in : forall m', In m' sg -> In m' t1 \/ m' = m \/ In m' t2.
  Proof. intros m' H. apply in_mid. eapply Permutation_in; eauto. Qed.
  Lemma tau_m_in : In m sg.
  Proof.
    eapply Permutation_in; [apply Permutation_sym; exact HPm|]. apply in_or_app. right. left. reflexivity.
  Qed.

  Lemma not_true_false : forall b, (b = true -> False) -> b = false.
  Proof. intros b H. destruct b; [exfalso; apply H; reflexivity | reflexivity]. Qed.

  (* names given explicitly *)
  Lemma tau_explicit : forall x,
    (In x (expP m) -> Pm ds x = true) /\ (In x (expK m) -> Km ds x = true).
  Proof. intros x. apply (exp_cover sg d0 ds m x HI0 Hs tau_m_in). Qed.

  (* --- posoargs(end=e) ------------------------------------------- *)
  Lemma tau_end : forall e ns x,
    m = MPosEnd e ns -> Pm dt x = false -> Pm dt' x = true -> Pm ds x = true.
  Proof.
    intros e ns x Em HxP HxP'.
    destruct tau_It as [It [ENt [EDt [S0tP S0tK]]]].
    destruct tau_It' as [It' [_ [_ [StP StK]]]].
    destruct tau_IT as [IT [_ [_ [STP STK]]]].
    destruct tau_Is as [Is [ENs [EDs [S0sP S0sK]]]].
    assert (Hm' : apply_mod dt (MPosEnd e ns) = Some dt') by (rewrite <- Em; exact Hm).
    assert (Hin : In (MPosEnd e ns) sg) by (rewrite <- Em; exact tau_m_in).
    destruct (step_sel dt _ dt' It Hm') as [Ha [_ [_ [_ [EP _]]]]]. cbn [admits selP] in Ha, EP.
    rewrite EP, HxP, orb_false_r, mem_app in HxP'. apply orb_true_iff in HxP'.
    destruct HxP' as [Hx|Hx]; apply mem_In in Hx.
    { destruct (tau_explicit x) as [A _]. apply A. rewrite Em. exact Hx. }
    destruct (free_upto dt e x Ha Hx) as [HxU [_ HxKt]]. rewrite ENt in HxU.
    destruct (admits_free dt e Ha) as [HeN [HePt HeKt]]. rewrite ENt in HeN.
    destruct (end_cover_run sg d0 ds e ns HI0 Hs Hin) as [HPse _].
    destruct (run_at sg d0 ds _ HI0 Hs Hin) as [l1 [l2 [c1 [c2 [Esg [R1 [R2 [R3 [Ic1 [Ic2 [Sc1 Sc2]]]]]]]]]]].
    destruct Sc1 as [ENc1 _]. destruct Sc2 as [_ [_ [Sc2P Sc2K]]].
    destruct (Km c1 x) eqn:Ekc1.
    2:{ apply Sc2P. apply (end_covers c1 e ns c2 x Ic1 R2); [rewrite ENc1; exact HxU | exact Ekc1]. }
    exfalso.
    destruct (step_sub c1 _ c2 Ic1 R2) as [_ [_ [_ Sc12K]]].
    assert (HKs : Km ds x = true) by (apply Sc2K; apply Sc12K; exact Ekc1).
    assert (HK0 : Km d0 x = false).
    { apply not_true_false. intro A. rewrite (S0tK x A) in HxKt. discriminate. }
    assert (Hxe : x <> e) by (intro; subst x; eapply (inv_disjoint ds e); eauto).
    assert (Hefx : In e (from x (NN d0))) by (apply (upto_from e); assumption).
    destruct (first_entry Km sg d0 ds x Hs HK0 HKs)
      as [k1 [m' [k2 [v1 [v2 [Ek [Q1 [Q2 [Q3 [Q4 Q5]]]]]]]]]].
    destruct (run_inv k1 d0 v1 HI0 Q1) as [Iv1 [ENv1 [EDv1 [S0v1P S0v1K]]]].
    destruct (step_sel v1 m' v2 Iv1 Q2) as [Ha' [Iv2 [_ [_ [_ EK']]]]].
    destruct (run_inv k2 v2 ds Iv2 Q3) as [_ [_ [_ [Sv2P Sv2K]]]].
    rewrite EK', Q4, orb_false_r in Q5.
    assert (Hin' : In m' sg) by (rewrite Ek; apply in_or_app; right; left; reflexivity).
    (* the two ways an explicitly named x would have shown up in the second order *)
    assert (EXPK : In x (expK m') -> False).
    { intros Hxe'. destruct (tau_in m' Hin') as [B|[B|B]].
      - destruct (exp_cover t1 d0 dt m' x HI0 Ht1 B) as [_ A]. rewrite (A Hxe') in HxKt. discriminate.
      - rewrite B, Em in Hxe'. destruct Hxe'.
      - destruct (exp_cover t2 dt' dT m' x It' Ht2 B) as [_ A].
        apply (inv_disjoint dT x IT); [apply STP; rewrite EP, mem_app; apply orb_true_iff; left;
                                       apply orb_true_iff; right; apply mem_In; exact Hx | apply A; exact Hxe']. }
    destruct m' as [ns'|ns'|s' ns'|e' ns'|E'|ret' A']; cbn [selK] in Q5; try discriminate.
    - apply EXPK. apply mem_In. exact Q5.
    - rewrite mem_app in Q5. apply orb_true_iff in Q5. destruct Q5 as [Q5|Q5]; apply mem_In in Q5.
      + apply EXPK. exact Q5.
      + cbn [admits] in Ha'. destruct (free_from v1 s' x Ha' Q5) as [HxF _]. rewrite ENv1 in HxF.
        assert (HeF : In e (from s' (NN d0))).
        { eapply from_from; eauto. apply (wf_nodup d0 (proj1 HI0)). }
        apply (inv_disjoint ds e Is HPse). exact (start_cover_run sg d0 ds s' ns' e HI0 Hs Hin' HeF).
    - (* autokwoargs: x has a default, is not excepted *)
      rewrite mem_filter, free_def_names_mem in Q5. apply andb_true_iff in Q5. destruct Q5 as [Q5 HxE'].
      apply andb_true_iff in Q5. destruct Q5 as [HxD _]. apply negb_true_iff in HxE'.
      apply mem_In in HxD. rewrite EDv1 in HxD.
      assert (HeD : In e (DD d0)) by (apply (wf_defs d0 (proj1 HI0) x e); assumption).
      destruct (mem e E') eqn:EeE.
      + (* e is excepted: look at where this autokwoargs sits in the second order *)
        apply mem_In in EeE.
        destruct (tau_in _ Hin') as [B|[B|B]].
        * assert (A : Km dt x = true).
          { exact (auto_cover_run t1 d0 dt E' x HI0 Ht1 B HxD HxE' HxP). }
          rewrite A in HxKt. discriminate.
        * rewrite Em in B. discriminate.
        * pose proof (adm_run t2 dt' dT _ It' Ht2 B e EeE) as [A _].
          assert (Pm dt' e = true) by (apply (end_covers_self dt e ns dt' It Hm')).
          congruence.
      + (* e is not excepted: contradiction inside the first order *)
        assert (HKv2e : Km v2 e = false).
        { apply not_true_false. intro A. apply (inv_disjoint ds e Is HPse). apply Sv2K. exact A. }
        assert (HPv1e : Pm v1 e = true).
        { destruct (Pm v1 e) eqn:Epe; [reflexivity|].
          rewrite (auto_covers v1 E' v2 e Iv1 Q2) in HKv2e; [discriminate| rewrite EDv1; exact HeD | exact EeE | exact Epe]. }
        assert (HP0e : Pm d0 e = false).
        { apply not_true_false. intro A. rewrite (S0tP e A) in HePt. discriminate. }
        destruct (first_entry Pm k1 d0 v1 e Q1 HP0e HPv1e)
          as [j1 [m'' [j2 [w1 [w2 [Ej [W1 [W2 [W3 [W4 W5]]]]]]]]]].
        destruct (run_inv j1 d0 w1 HI0 W1) as [Iw1 _].
        destruct (step_sel w1 m'' w2 Iw1 W2) as [_ [Iw2 [ENw2 _]]].
        destruct (run_inv j2 w2 v1 Iw2 W3) as [_ [ENw2v [_ [Sw2P Sw2K]]]].
        assert (HKw2x : Km w2 x = false).
        { apply not_true_false. intro A. rewrite (Sw2K x A) in Q4. discriminate. }
        assert (HPw2x : Pm w2 x = false).
        { apply not_true_false. intro A. apply (inv_disjoint ds x Is); [|exact HKs].
          apply Sv2P. destruct (step_sub v1 _ v2 Iv1 Q2) as [_ [_ [S _]]]. apply S. apply Sw2P. exact A. }
        apply (inv_prefix w2 x e Iw2 HPw2x HKw2x); auto.
        rewrite <- ENv1 in Hefx. rewrite ENw2v in Hefx. exact Hefx.
  Qed.

  (* --- autokwoargs(exceptions=E) ---------------------------------- *)
  Lemma tau_auto : forall E x,
    m = MAuto E -> Km dt x = false -> Km dt' x = true -> Km ds x = true.
  Proof.
    intros E x Em HxK HxK'.
    destruct tau_It as [It [ENt [EDt [S0tP S0tK]]]].
    destruct tau_It' as [It' [_ [_ [StP StK]]]].
    destruct tau_IT as [IT [_ [_ [STP STK]]]].
    destruct tau_Is as [Is [ENs [EDs [S0sP S0sK]]]].
    assert (Hm' : apply_mod dt (MAuto E) = Some dt') by (rewrite <- Em; exact Hm).
    assert (Hin : In (MAuto E) sg) by (rewrite <- Em; exact tau_m_in).
    destruct (step_sel dt _ dt' It Hm') as [_ [_ [_ [_ [_ EK]]]]]. cbn [selK] in EK.
    rewrite EK, HxK, orb_false_r, mem_filter, free_def_names_mem in HxK'.
    apply andb_true_iff in HxK'. destruct HxK' as [A HxE]. apply negb_true_iff in HxE.
    apply andb_true_iff in A. destruct A as [HxD A]. apply andb_true_iff in A. destruct A as [HxPt _].
    apply negb_true_iff in HxPt. apply mem_In in HxD. rewrite EDt in HxD.
    destruct (Pm ds x) eqn:EPs.
    2:{ exact (auto_cover_run sg d0 ds E x HI0 Hs Hin HxD HxE EPs). }
    exfalso.
    assert (HP0 : Pm d0 x = false).
    { apply not_true_false. intro A. rewrite (S0tP x A) in HxPt. discriminate. }
    destruct (first_entry Pm sg d0 ds x Hs HP0 EPs)
      as [k1 [m'' [k2 [v1 [v2 [Ek [Q1 [Q2 [Q3 [Q4 Q5]]]]]]]]]].
    destruct (run_inv k1 d0 v1 HI0 Q1) as [Iv1 [ENv1 [EDv1 [S0v1P S0v1K]]]].
    destruct (step_sel v1 m'' v2 Iv1 Q2) as [Ha'' [Iv2 [_ [_ [EP'' _]]]]].
    destruct (step_sub v1 m'' v2 Iv1 Q2) as [_ [_ [Sv12P Sv12K]]].
    destruct (run_inv k2 v2 ds Iv2 Q3) as [_ [_ [_ [Sv2P Sv2K]]]].
    rewrite EP'', Q4, orb_false_r in Q5.
    assert (Hin'' : In m'' sg) by (rewrite Ek; apply in_or_app; right; left; reflexivity).
    assert (HKdT : Km dT x = true).
    { apply STK. rewrite EK, mem_filter, free_def_names_mem, HxE, HxPt, HxK. cbn [negb andb].
      rewrite !andb_true_r. apply orb_true_iff. left. apply mem_In. rewrite EDt. exact HxD. }
    assert (EXPP : In x (expP m'') -> False).
    { intros Hxe'. destruct (tau_in m'' Hin'') as [B|[B|B]].
      - destruct (exp_cover t1 d0 dt m'' x HI0 Ht1 B) as [A _]. rewrite (A Hxe') in HxPt. discriminate.
      - rewrite B, Em in Hxe'. destruct Hxe'.
      - destruct (exp_cover t2 dt' dT m'' x It' Ht2 B) as [A _].
        apply (inv_disjoint dT x IT); [apply A; exact Hxe' | exact HKdT]. }
    destruct m'' as [ns'|ns'|s' ns'|e ns'|E'|ret' A']; cbn [selP] in Q5; try discriminate.
    - apply EXPP. apply mem_In. exact Q5.
    - rewrite mem_app in Q5. apply orb_true_iff in Q5. destruct Q5 as [Q5|Q5]; apply mem_In in Q5.
      { apply EXPP. exact Q5. }
      cbn [admits] in Ha''. destruct (free_upto v1 e x Ha'' Q5) as [HxU _]. rewrite ENv1 in HxU.
      destruct (admits_free v1 e Ha'') as [HeN _]. rewrite ENv1 in HeN.
      assert (Hefx : In e (from x (NN d0))) by (apply (upto_from e); assumption).
      destruct (end_covers_self v1 e ns' v2 Iv1 Q2) as [HPv2e _].
      assert (Hin3 : In (MAuto E) (k1 ++ MPosEnd e ns' :: k2)) by (rewrite <- Ek; exact Hin).
      destruct (in_mid _ _ _ _ Hin3) as [B|[B|B]].
      + (* the autokwoargs ran before this posoargs(end=e) in the first order *)
        assert (A : Km v1 x = true) by exact (auto_cover_run k1 d0 v1 E x HI0 Q1 B HxD HxE Q4).
        apply (inv_disjoint ds x Is EPs). apply Sv2K. apply Sv12K. exact A.
      + discriminate.
      + (* ... after it: then e is not excepted *)
        assert (HeE : mem e E = false).
        { apply not_true_false. intro A. apply mem_In in A.
          destruct (adm_run k2 v2 ds _ Iv2 Q3 B e A) as [A1 _]. congruence. }
        assert (HeD : In e (DD d0)).
        { destruct (N.eq_dec x e) as [->|Hne]; [exact HxD|].
          apply (wf_defs d0 (proj1 HI0) x e); assumption. }
        destruct (Pm dt e) eqn:EPte.
        * assert (Hne : e <> x) by (intro; subst e; congruence).
          apply (inv_prefix dt x e It HxPt HxK); auto. rewrite ENt. exact Hefx.
        * destruct (tau_in _ Hin'') as [C|[C|C]].
          -- destruct (end_cover_run t1 d0 dt e ns' HI0 Ht1 C) as [A _]. congruence.
          -- rewrite Em in C. discriminate.
          -- pose proof (adm_run t2 dt' dT _ It' Ht2 C) as [_ A]. cbn in A.
             assert (A2 : Km dt' e = true).
             { apply (auto_covers dt E dt' e It Hm'); [rewrite EDt; exact HeD | exact HeE | exact EPte]. }
             congruence.
  Qed.

  (* --- kwoargs(start=s) ------------------------------------------- *)
  Lemma tau_start : forall s ns x,
    m = MKwoStart s ns -> Km dt x = false -> Km dt' x = true -> Km ds x = true.
  Proof.
    intros s ns x Em HxK HxK'.
    destruct tau_It as [It [ENt _]].
    assert (Hm' : apply_mod dt (MKwoStart s ns) = Some dt') by (rewrite <- Em; exact Hm).
    assert (Hin : In (MKwoStart s ns) sg) by (rewrite <- Em; exact tau_m_in).
    destruct (step_sel dt _ dt' It Hm') as [Ha [_ [_ [_ [_ EK]]]]]. cbn [selK admits] in EK, Ha.
    rewrite EK, HxK, orb_false_r, mem_app in HxK'. apply orb_true_iff in HxK'.
    destruct HxK' as [Hx|Hx]; apply mem_In in Hx.
    - destruct (tau_explicit x) as [_ A]. apply A. rewrite Em. exact Hx.
    - destruct (free_from dt s x Ha Hx) as [HxF _]. rewrite ENt in HxF.
      exact (start_cover_run sg d0 ds s ns x HI0 Hs Hin HxF).
  Qed.

  Theorem tau_step :
    (forall x, Pm dt' x = true -> Pm ds x = true) /\ (forall x, Km dt' x = true -> Km ds x = true).
  Proof.
    destruct tau_It as [It _].
    destruct (step_sel dt m dt' It Hm) as [_ [_ [_ [_ [EP EK]]]]].
    split; intros x Hx.
    - destruct (Pm dt x) eqn:E0; [apply HsP; exact E0|].
      rewrite EP, E0, orb_false_r in Hx.
      destruct (mod_cases m) as [[ns Em]|[[ns Em]|[[s [ns Em]]|[[e [ns Em]]|[[E Em]|[r [A Em]]]]]]];
        rewrite Em in Hx; cbn [selP] in Hx; try discriminate.
      + destruct (tau_explicit x) as [A _]. apply A. rewrite Em. apply mem_In. exact Hx.
      + apply (tau_end e ns x Em E0). rewrite EP, Em. cbn [selP]. rewrite Hx. reflexivity.
    - destruct (Km dt x) eqn:E0; [apply HsK; exact E0|].
      rewrite EK, E0, orb_false_r in Hx.
      destruct (mod_cases m) as [[ns Em]|[[ns Em]|[[s [ns Em]]|[[e [ns Em]]|[[E Em]|[r [A Em]]]]]]];
        rewrite Em in Hx; cbn [selK] in Hx; try discriminate.
      + destruct (tau_explicit x) as [_ A]. apply A. rewrite Em. apply mem_In. exact Hx.
      + apply (tau_start s ns x Em E0). rewrite EK, Em. cbn [selK]. rewrite Hx. reflexivity.
      + apply (tau_auto E x Em E0). rewrite EK, Em. cbn [selK]. rewrite Hx. reflexivity.
  Qed.
End Tau.

(* ================================================================== *)
(* Part 2e: order independence for every decorator form               *)
(* ================================================================== *)

Lemma sub_final : forall sg d0 ds t2 t1 dt dT,
  inv d0 -> run_mods d0 sg = Some ds ->
  run_mods d0 t1 = Some dt -> run_mods dt t2 = Some dT ->
  Permutation sg (t1 ++ t2) ->
  (forall x, Pm dt x = true -> Pm ds x = true) -> (forall x, Km dt x = true -> Km ds x = true) ->
  (forall x, Pm dT x = true -> Pm ds x = true) /\ (forall x, Km dT x = true -> Km ds x = true).
Proof.
  intros sg d0 ds. induction t2 as [|m t2 IH]; intros t1 dt dT HI Hs H1 H2 HP SP SK.
  - inversion H2; subst. auto.
  - cbn [run_mods] in H2. destruct (apply_mod dt m) as [dt'|] eqn:Em; [|discriminate].
    destruct (tau_step d0 ds dt dt' dT sg t1 t2 m HI Hs H1 Em H2 HP SP SK) as [SP' SK'].
    apply (IH (t1 ++ [m]) dt' dT HI Hs); auto.
    + rewrite run_app, H1. cbn [run_mods]. rewrite Em. reflexivity.
    + rewrite <- app_assoc. exact HP.
Qed.

(* the two name sets do not depend on the order *)
Theorem forms_sets : forall d l1 l2 d1 d2,
  inv d -> Permutation l1 l2 -> run_mods d l1 = Some d1 -> run_mods d l2 = Some d2 ->
  forall x, Pm d1 x = Pm d2 x /\ Km d1 x = Km d2 x.
Proof.
  intros d l1 l2 d1 d2 HI HP R1 R2.
  destruct (run_inv l1 d d1 HI R1) as [_ [_ [_ [A1 A2]]]].
  destruct (run_inv l2 d d2 HI R2) as [_ [_ [_ [B1 B2]]]].
  destruct (sub_final l1 d d1 l2 [] d d2 HI R1 eq_refl R2 HP A1 A2) as [C1 C2].
  destruct (sub_final l2 d d2 l1 [] d d1 HI R2 eq_refl R1 (Permutation_sym HP) B1 B2) as [D1 D2].
  intros x. split.
  - destruct (Pm d1 x) eqn:E1; destruct (Pm d2 x) eqn:E2; auto.
    + rewrite (D1 x E1) in E2. discriminate.
    + rewrite (C1 x E2) in E1. discriminate.
  - destruct (Km d1 x) eqn:E1; destruct (Km d2 x) eqn:E2; auto.
    + rewrite (D2 x E1) in E2. discriminate.
    + rewrite (C2 x E2) in E1. discriminate.
Qed.

(* what a run does to the innermost signature: only annotate touches it *)
Lemma run_params : forall l d d',
  run_mods d l = Some d' ->
  d_params d' = map (final_param l) (d_params d) /\ d_ret d' = final_ret l (d_ret d).
Proof.
  induction l as [|m l IH]; intros d d' H.
  - inversion H; subst. cbn. rewrite map_id. auto.
  - cbn [run_mods] in H. destruct (apply_mod d m) as [d1|] eqn:E; [|discriminate].
    destruct (IH d1 d' H) as [I1 I2].
    assert (G : d_params d1 = map (ann_param (mod_anns m)) (d_params d)
                /\ d_ret d1 = match mod_ret m with x :: _ => Some x | [] => d_ret d end).
    { assert (TR : forall p k, mk_translator d p k = Some d1 ->
                   d_params d1 = map (ann_param []) (d_params d) /\ d_ret d1 = d_ret d).
      { intros p k Hm. destruct (mk_translator_sets d p k d1 Hm) as [E1 [E2 _]].
        rewrite E1, E2. split; [|reflexivity]. symmetry. rewrite <- (map_id (d_params d)) at 2.
        apply map_ext. intro q. apply ann_param_nil. }
      destruct m as [ns|ns|s ns|e ns|E0|ret A]; unfold apply_mod in E; cbn [mod_anns mod_ret].
      - apply (TR _ _ E).
      - apply (TR _ _ E).
      - destruct (snd (start_names s false (adv_params d))); [apply (TR _ _ E) | discriminate].
      - destruct (snd (end_names e false (adv_params d))); [apply (TR _ _ E) | discriminate].
      - destruct (auto_names E0 (adv_params d)); [apply (TR _ _ E) | discriminate].
      - destruct (forallb (fun a : N * N => mem (fst a) (names_of (d_params d))) A); [|discriminate].
        inversion E; subst d1. cbn [d_params d_ret]. destruct ret; auto. }
    destruct G as [G1 G2]. split.
    + rewrite I1, G1, map_map. reflexivity.
    + rewrite I2, G2. unfold final_ret. cbn [fold_left]. reflexivity.
Qed.

(* C18_order for every decorator form: kwoargs / posoargs with explicit names,
   kwoargs(start=), posoargs(end=), autokwoargs(exceptions=) and annotate, in any
   two admissible orders, on a well-formed function *)
Theorem order_forms : forall d l1 l2 d1 d2,
  wfd d -> good d -> Permutation l1 l2 ->
  ann_functional (all_anns l1) -> rets_agree (all_rets l1) ->
  run_mods d l1 = Some d1 -> run_mods d l2 = Some d2 ->
  dequiv d1 d2 /\ advertised d1 = advertised d2 /\
  (forall a k, pok_call d1 a k = pok_call d2 a k).
Proof.
  intros d l1 l2 d1 d2 HW HG HP HF HR R1 R2.
  assert (PA : Permutation (all_anns l1) (all_anns l2)) by (apply Permutation_flat_map; exact HP).
  assert (PR : Permutation (all_rets l1) (all_rets l2)) by (apply Permutation_flat_map; exact HP).
  assert (HF2 : ann_functional (all_anns l2)).
  { intros n v v' H1 H2. apply (HF n v v'); eapply Permutation_in;
      try (apply Permutation_sym; exact PA); assumption. }
  assert (HR2 : rets_agree (all_rets l2)).
  { intros a b H1 H2. apply HR; eapply Permutation_in;
      try (apply Permutation_sym; exact PR); assumption. }
  destruct (run_params l1 d d1 R1) as [A1 A2]. destruct (run_params l2 d d2 R2) as [B1 B2].
  pose proof (forms_sets d l1 l2 d1 d2 (conj HW HG) HP R1 R2) as HS.
  assert (DE : dequiv d1 d2).
  { repeat split.
    - rewrite A1, B1. apply map_ext. intro p.
      rewrite (final_param_spec l1 p HF), (final_param_spec l2 p HF2).
      unfold ann_param. rewrite (ann_lookup_perm _ _ (pname p) HF PA). reflexivity.
    - rewrite A2, B2, (final_ret_spec l1 _ HR), (final_ret_spec l2 _ HR2).
      apply rets_head_perm; assumption.
    - intro x. apply (HS x).
    - intro x. apply (HS x). }
  split; [exact DE|]. split; [apply dequiv_advertised; exact DE|].
  intros a k. apply dequiv_call. exact DE.
Qed.

(* ================================================================== *)
(* Part 2f: the hypotheses as boolean predicates; witnesses            *)
(* ================================================================== *)

Fixpoint nodupb (l : list name) : bool :=
  match l with [] => true | x :: r => negb (mem x r) && nodupb r end.

Lemma nodupb_NoDup : forall l, nodupb l = true -> NoDup l.
Proof.
  induction l as [|x r IH]; intros H; [constructor|]. cbn in H. apply andb_true_iff in H.
  destruct H as [A B]. apply negb_true_iff in A. constructor; [apply mem_false_In; exact A | apply IH; exact B].
Qed.

(* defaults form a suffix of the positional-or-keyword parameters *)
Fixpoint dsfx (seen : bool) (ps : list param) : bool :=
  match ps with
  | [] => true
  | p :: r => if isPK p then (if has_def p then dsfx true r else negb seen && dsfx seen r)
              else dsfx seen r
  end.

Definition wf_sig (ps : list param) : bool :=
  korder ps && nodupb (pk_names ps) && dsfx false ps.

Lemma pkd_in_pk : forall ps x, In x (pkd_names ps) -> In x (pk_names ps).
Proof.
  intros ps x. unfold pkd_names, pk_names. induction ps as [|p r IH]; intros H; [destruct H|].
  cbn [filter] in *. unfold is_pk_default in H. fold (isPK p) in H.
  destruct (isPK p); cbn [andb] in H; [|apply IH; exact H].
  destruct (has_def p); cbn [names_of map] in *.
  - destruct H as [H|H]; [left; exact H | right; apply IH; exact H].
  - right. apply IH. exact H.
Qed.

Lemma dsfx_true_all : forall ps y, dsfx true ps = true -> In y (pk_names ps) -> In y (pkd_names ps).
Proof.
  intros ps y. unfold pk_names, pkd_names. induction ps as [|p r IH]; intros H Hy; [destruct Hy|].
  cbn [dsfx filter] in *. unfold is_pk_default. fold (isPK p).
  destruct (isPK p); cbn [andb]; [|apply IH; assumption].
  destruct (has_def p); [|cbn in H; discriminate].
  cbn [names_of map] in *. destruct Hy as [Hy|Hy]; [left; exact Hy | right; apply IH; assumption].
Qed.

Lemma dsfx_closed : forall ps seen x y,
  dsfx seen ps = true -> NoDup (pk_names ps) ->
  In x (pkd_names ps) -> In y (from x (pk_names ps)) -> In y (pkd_names ps).
Proof.
  induction ps as [|p r IH]; intros seen x y H Hnd Hx Hy; [destruct Hx|].
  unfold pk_names, pkd_names in *. cbn [dsfx filter] in *. unfold is_pk_default in *. fold (isPK p) in *.
  destruct (isPK p) eqn:Ek; cbn [andb] in *; [|eapply IH; eauto].
  cbn [names_of map] in Hnd, Hy. fold (names_of (filter isPK r)) in Hnd, Hy.
  inversion Hnd as [|n r' Hnin Hnd']; subst.
  destruct (has_def p) eqn:Ed; cbn [names_of map from] in *.
  - fold (names_of (filter isPK r)) in Hy.
    destruct (N.eqb (pname p) x) eqn:Ex.
    + destruct Hy as [Hy|Hy]; [left; exact Hy|]. right. apply (dsfx_true_all r y H Hy).
    + destruct Hx as [Hx|Hx]; [rewrite Hx, N.eqb_refl in Ex; discriminate|].
      right. eapply IH; eauto.
  - apply andb_true_iff in H. destruct H as [_ H].
    destruct (N.eqb (pname p) x) eqn:Ex.
    + apply N.eqb_eq in Ex. exfalso. apply Hnin. rewrite Ex. apply (pkd_in_pk r x Hx).
    + eapply IH; eauto.
Qed.

Theorem wf_sig_wfd : forall d, wf_sig (d_params d) = true -> wfd d.
Proof.
  intros d H. unfold wf_sig in H. apply andb_true_iff in H. destruct H as [H H3].
  apply andb_true_iff in H. destruct H as [H1 H2]. apply nodupb_NoDup in H2.
  constructor; [exact H1 | exact H2 |]. intros x y Hx Hy. eapply dsfx_closed; eauto.
Qed.

(* an undecorated function is always a good starting point *)
Lemma fold_bare : forall ips a,
  exists a', fold_left (prep_step (fun x : name => mem x []) (fun x : name => mem x [])) ips (Some a) = Some a'.
Proof.
  induction ips as [|[i p] ips IH]; intros a; [exists a; reflexivity|]. cbn [fold_left].
  unfold prep_step at 2. cbn [fst snd mem orb negb].
  destruct (pkind p); cbn [kind_eqb kind_rank Nat.eqb]; apply IH.
Qed.

Theorem good_bare : forall ps r, good (mkD ps r [] []).
Proof.
  intros ps r. unfold good, advertised, prepare. cbn [d_pos d_kwo d_params].
  change (disjoint [] []) with true. cbn [negb].
  destruct (fold_bare (indexed ps) pa_init) as [a' E].
  match goal with |- match ?t with Some _ => _ | None => _ end <> None =>
    replace t with (Some a') by (symmetry; exact E) end.
  cbn. discriminate.
Qed.

(* the hypotheses are satisfiable, with every form present and two admissible orders *)
Definition ex4 : dobj :=
  mkD [mkParam 1 PK None None UEmpty; mkParam 2 PK None None UEmpty;
       mkParam 3 PK (Some 5) None UEmpty; mkParam 4 PK (Some 6) None UEmpty;
       mkParam 8 VP None None UEmpty; mkParam 9 VK None None UEmpty] None [] [].

Example order_forms_sat :
  wf_sig (d_params ex4) = true /\
  exists d1 d2,
    run_mods ex4 [MPosEnd 1 []; MKwoStart 4 []; MAuto [3]; MAnn (Some 7) [(2, 8)]; MPos [2]] = Some d1 /\
    run_mods ex4 [MAnn (Some 7) [(2, 8)]; MKwoStart 4 []; MPosEnd 1 []; MPos [2]; MAuto [3]] = Some d2.
Proof. split; [reflexivity|]. eexists. eexists. split; vm_compute; reflexivity. Qed.

(* The default-suffix hypothesis cannot be dropped: on a parameter list in which
   a parameter without default follows one with a default (not constructible in
   CPython: inspect.Signature rejects it) posoargs(end=) and autokwoargs are both
   admissible in both orders and give different name sets. *)
Definition bad_defaults : dobj :=
  mkD [mkParam 1 PK (Some 5) None UEmpty; mkParam 2 PK None None UEmpty] None [] [].

Theorem order_forms_defaults_refuted :
  korder (d_params bad_defaults) = true /\ nodupb (pk_names (d_params bad_defaults)) = true /\
  exists d1 d2,
    run_mods bad_defaults [MPosEnd 2 []; MAuto []] = Some d1 /\
    run_mods bad_defaults [MAuto []; MPosEnd 2 []] = Some d2 /\
    Pm d1 1 = true /\ Pm d2 1 = false /\ Km d2 1 = true.
Proof. split; [reflexivity|]. split; [reflexivity|]. eexists. eexists. repeat split; vm_compute; reflexivity. Qed.

(* What is NOT order independent is admissibility itself: *)
Definition two_defaults : dobj :=
  mkD [mkParam 1 PK (Some 5) None UEmpty; mkParam 2 PK (Some 6) None UEmpty] None [] [].

Theorem admissibility_order_refuted :
  wf_sig (d_params two_defaults) = true /\
  (* posoargs(end='a') then autokwoargs: (a=5, /, *, b=6); the other way round: ValueError *)
  run_mods two_defaults [MPosEnd 1 []; MAuto []] <> None /\ run_mods two_defaults [MAuto []; MPosEnd 1 []] = None /\
  (* autokwoargs(exceptions=['b']) then posoargs(end='b'): (b=6, /, *, a=5); reversed: ValueError *)
  run_mods two_defaults [MAuto [2]; MPosEnd 2 []] <> None /\ run_mods two_defaults [MPosEnd 2 []; MAuto [2]] = None /\
  (* kwoargs(start='b') and posoargs(end='b') exclude each other in both orders *)
  run_mods two_defaults [MKwoStart 2 []; MPosEnd 2 []] = None /\ run_mods two_defaults [MPosEnd 2 []; MKwoStart 2 []] = None /\
  (* explicit names: posoargs('a') then posoargs('b') works, posoargs('b') first does not *)
  run_mods two_defaults [MPos [1]; MPos [2]] <> None /\ run_mods two_defaults [MPos [2]; MPos [1]] = None.
Proof. repeat split; vm_compute; try reflexivity; discriminate. Qed.

Print Assumptions advertised_shape.
Print Assumptions start_closed.
Print Assumptions end_closed.
Print Assumptions auto_closed.
Print Assumptions step_sel.
Print Assumptions forms_sets.
Print Assumptions order_forms.
Print Assumptions wf_sig_wfd.
Print Assumptions good_bare.
Print Assumptions order_forms_defaults_refuted.
Print Assumptions admissibility_order_refuted.
