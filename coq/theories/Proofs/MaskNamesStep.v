(* MaskNamesStep.v — binding ONE keyword in _mask (both modes): the state after
   the step describes a signature that accepts (m, K) exactly when the signature
   before the step accepts (m, x :: K).  Helpers for Proofs/MaskNames.v. *)
From Sigtools.Model Require Import Base Bind Roles Algebra.
From Sigtools.Proofs Require Import SmallModel Basics MaskLaws MaskExact MergeNeutral MaskNamesLib.
From Coq Require Import Lia Btauto.

Lemma forallb_filter_skip {A} (f f' g : A -> bool) l :
  (forall k, In k l -> g k = true -> f k = f' k) ->
  (forall k, In k l -> g k = false -> f k = true) ->
  forallb f l = forallb f' (filter g l).
Proof.
  induction l as [|a l IH]; intros H1 H2; cbn [forallb filter]; [reflexivity|].
  assert (IH' : forallb f l = forallb f' (filter g l)).
  { apply IH; intros k Hk; [apply H1|apply H2]; right; exact Hk. }
  destruct (g a) eqn:G.
  - cbn [forallb]. rewrite (H1 a (or_introl eq_refl) G), IH'. reflexivity.
  - rewrite (H2 a (or_introl eq_refl) G), IH'. reflexivity.
Qed.

Lemma mem_filter_neq x y K :
  y <> x -> mem y (filter (fun k => negb (N.eqb k x)) K) = mem y K.
Proof.
  intros Hne. rewrite mem_filter. destruct (N.eqb_spec y x) as [E|_]; [contradiction|].
  cbn [negb]. apply andb_true_r.
Qed.

Lemma nodup_mid {A} (l1 l2 : list A) x : NoDup (l1 ++ x :: l2) -> ~ In x l1 /\ ~ In x l2.
Proof.
  intros H. apply NoDup_remove_2 in H. split; intros Hin; apply H; apply in_or_app; auto.
Qed.

(* ---- case A: the keyword names a positional-or-keyword parameter ---- *)
Lemma stepA pos before p after va kwo vk m K :
  kinds5 pos (before ++ p :: after) va kwo vk ->
  NoDup (names_of (blk pos (before ++ p :: after) va kwo vk)) ->
  ~ In (pname p) K ->
  accepts (blk pos before None (kwo ++ map (set_kind KO) after) vk) (mkCall m K)
  = accepts (blk pos (before ++ p :: after) va kwo vk) (mkCall m (pname p :: K)).
Proof.
  intros HK Hn HxK. set (x := pname p) in *.
  destruct HK as (H1 & H2 & H3 & H4 & H5).
  apply Forall_app in H2. destruct H2 as [H2a H2b]. inversion H2b as [|? ? Hp H2c]; subst.
  assert (HK : kinds5 pos (before ++ p :: after) va kwo vk).
  { repeat split; auto. apply Forall_app. split; assumption. }
  assert (HK' : kinds5 pos before None (kwo ++ map (set_kind KO) after) vk).
  { repeat split; auto; [discriminate|]. apply Forall_app. split; [exact H4|].
    apply Forall_forall. intros q Hq. apply in_map_iff in Hq. destruct Hq as [q0 [<- _]]. reflexivity. }
  rewrite (accepts_blk _ _ _ _ _ HK'), (accepts_blk _ _ _ _ _ HK).
  (* name facts *)
  unfold blk in Hn. rewrite !names_of_app in Hn. cbn [names_of map] in Hn. fold (names_of after) in Hn.
  fold x in Hn.
  assert (Hn' : NoDup ((names_of pos ++ names_of before) ++ x ::
                       (names_of after ++ names_of (opt_list va) ++ names_of kwo ++ names_of (opt_list vk)))).
  { rewrite <- !app_assoc in *. cbn [app] in *. exact Hn. }
  destruct (nodup_mid _ _ _ Hn') as [Hx1 Hx2].
  assert (HxP : ~ In x (names_of (pos ++ before))) by (rewrite names_of_app; exact Hx1).
  assert (Hxa : ~ In x (names_of after)) by (intros X; apply Hx2; apply in_or_app; left; exact X).
  assert (Hxk : ~ In x (names_of kwo)).
  { intros X. apply Hx2. apply in_or_app. right. apply in_or_app. right. apply in_or_app. left. exact X. }
  set (P := pos ++ before) in *.
  assert (EP : pos ++ before ++ p :: after = P ++ p :: after) by (unfold P; rewrite app_assoc; reflexivity).
  rewrite EP. clear EP. cbn [isSome orb]. rewrite orb_false_r.
  destruct (Nat.leb_spec m (length P)) as [Hle|Hgt].
  - (* the m positionals stop before p *)
    assert (E0 : (m - length P = 0)%nat) by lia.
    assert (Ea : Nat.leb m (length (P ++ p :: after)) = true).
    { apply Nat.leb_le. rewrite app_length. lia. }
    rewrite Ea. cbn [orb forallb].
    assert (Ex : kwok5 (P ++ p :: after) kwo (isSome vk) m x = true).
    { unfold kwok5. rewrite kw_class_pos_app, (kw_class_pos_foreign P m x HxP), E0.
      cbn [kw_class_pos]. unfold x. rewrite N.eqb_refl, Hp. reflexivity. }
    rewrite Ex. cbn [andb].
    assert (EK : forallb (kwok5 P (kwo ++ map (set_kind KO) after) (isSome vk) m) K
                 = forallb (kwok5 (P ++ p :: after) kwo (isSome vk) m) K).
    { apply forallb_ext_in. intros k Hk. unfold kwok5. rewrite kw_class_pos_app.
      destruct (kw_class_pos P m k) as [c|]; [reflexivity|]. rewrite E0.
      cbn [kw_class_pos].
      destruct (N.eqb_spec k (pname p)) as [E|_]; [exfalso; apply HxK; rewrite E in Hk; exact Hk|].
      cbn [Nat.pred]. rewrite (kw_class_pos_pk_zero after k H2c).
      rewrite names_of_app, names_of_set_kind, mem_app.
      destruct (mem k (names_of after)); [rewrite orb_true_r; reflexivity|rewrite orb_false_r; reflexivity]. }
    rewrite EK. clear EK.
    rewrite (req_pos_app P (p :: after)), E0, req_pos_zero. cbn [forallb].
    rewrite (req_pos_cons_foreign P x m K HxP).
    assert (Ep : has_def p || is_kind PK p && mem (pname p) (x :: K) = true).
    { unfold is_kind. rewrite Hp. cbn [mem]. unfold x. rewrite N.eqb_refl. cbn. apply orb_true_r. }
    rewrite Ep. cbn [andb].
    rewrite forallb_app, (reqk_cons_foreign x K kwo Hxk).
    assert (Eaf : forallb (reqk K) (map (set_kind KO) after)
                  = forallb (fun q => has_def q || is_kind PK q && mem (pname q) (x :: K)) after).
    { rewrite forallb_map. apply forallb_ext_in. intros q Hq. unfold reqk. cbn [set_kind has_def pdef pname mem].
      rewrite Forall_forall in H2c. unfold is_kind. rewrite (H2c q Hq). cbn [kind_eqb kind_rank Nat.eqb andb].
      destruct (N.eqb_spec (pname q) x) as [E|_]; [|reflexivity].
      exfalso. apply Hxa. rewrite <- E. unfold names_of. apply in_map. exact Hq. }
    rewrite Eaf. btauto.
  - (* more positionals than parameters before p: p is bound twice *)
    cbn [andb forallb].
    assert (Ex : kwok5 (P ++ p :: after) kwo (isSome vk) m x = false).
    { unfold kwok5. rewrite kw_class_pos_app, (kw_class_pos_foreign P m x HxP).
      destruct (m - length P)%nat as [|j] eqn:Ej; [lia|].
      cbn [kw_class_pos]. unfold x. rewrite N.eqb_refl, Hp. reflexivity. }
    rewrite Ex. cbn [andb]. rewrite !andb_false_r. reflexivity.
Qed.

(* ---- case B: a keyword-only parameter that is optional, or named by the call,
   can be left out together with the keyword ---- *)
Lemma stepB pos pok va kwo1 p kwo2 vk m K :
  kinds5 pos pok va (kwo1 ++ p :: kwo2) vk ->
  NoDup (names_of (blk pos pok va (kwo1 ++ p :: kwo2) vk)) ->
  has_def p = true \/ In (pname p) K ->
  accepts (blk pos pok va (kwo1 ++ p :: kwo2) vk) (mkCall m K)
  = accepts (blk pos pok va (kwo1 ++ kwo2) vk)
            (mkCall m (filter (fun k => negb (N.eqb k (pname p))) K)).
Proof.
  intros HK Hn Hp. set (x := pname p) in *.
  destruct HK as (H1 & H2 & H3 & H4 & H5).
  apply Forall_app in H4. destruct H4 as [H4a H4b]. inversion H4b as [|? ? Hpk H4c]; subst.
  assert (HK : kinds5 pos pok va (kwo1 ++ p :: kwo2) vk).
  { repeat split; auto. apply Forall_app. split; assumption. }
  assert (HK' : kinds5 pos pok va (kwo1 ++ kwo2) vk).
  { repeat split; auto. apply Forall_app. split; assumption. }
  rewrite (accepts_blk _ _ _ _ _ HK'), (accepts_blk _ _ _ _ _ HK).
  unfold blk in Hn. rewrite !names_of_app in Hn. cbn [names_of map] in Hn. fold (names_of kwo2) in Hn.
  fold x in Hn.
  assert (Hn' : NoDup ((names_of pos ++ names_of pok ++ names_of (opt_list va) ++ names_of kwo1) ++ x ::
                       (names_of kwo2 ++ names_of (opt_list vk)))).
  { rewrite <- !app_assoc in *. cbn [app] in *. exact Hn. }
  destruct (nodup_mid _ _ _ Hn') as [Hx1 Hx2].
  assert (HxP : ~ In x (names_of (pos ++ pok))).
  { rewrite names_of_app. intros X. apply Hx1. rewrite app_assoc. apply in_or_app. left. exact X. }
  assert (Hxk1 : ~ In x (names_of kwo1)).
  { intros X. apply Hx1. apply in_or_app. right. apply in_or_app. right. apply in_or_app. right. exact X. }
  assert (Hxk2 : ~ In x (names_of kwo2)) by (intros X; apply Hx2; apply in_or_app; left; exact X).
  set (g := fun k => negb (N.eqb k x)).
  set (P := pos ++ pok) in *.
  assert (Hmem : forall y, y <> x -> mem y (filter g K) = mem y K) by (intros y Hy; apply mem_filter_neq; exact Hy).
  (* keywords *)
  assert (EK : forallb (kwok5 P (kwo1 ++ p :: kwo2) (isSome vk) m) K
               = forallb (kwok5 P (kwo1 ++ kwo2) (isSome vk) m) (filter g K)).
  { apply forallb_filter_skip.
    - intros k _ Hg. unfold g in Hg. apply negb_true_iff in Hg. apply N.eqb_neq in Hg.
      unfold kwok5. rewrite !names_of_app. cbn [names_of map]. rewrite !mem_app. cbn [mem].
      destruct (N.eqb_spec k (pname p)) as [E|_]; [contradiction|]. reflexivity.
    - intros k _ Hg. unfold g in Hg. apply negb_false_iff in Hg. apply N.eqb_eq in Hg. subst k.
      unfold kwok5. rewrite (kw_class_pos_foreign P m x HxP).
      rewrite names_of_app. cbn [names_of map]. rewrite mem_app. cbn [mem]. unfold x. rewrite N.eqb_refl.
      rewrite orb_true_r. reflexivity. }
  rewrite EK. clear EK.
  (* positional requirements *)
  assert (ER : req_pos P m K = req_pos P m (filter g K)).
  { clear - HxP Hmem. revert m. induction P as [|q P IH]; intros m; cbn [req_pos]; [reflexivity|].
    assert (HxP' : ~ In x (names_of P)) by (intros X; apply HxP; right; exact X).
    destruct m as [|m]; [|apply IH; exact HxP'].
    rewrite (IH HxP'), Hmem; [reflexivity|]. intros E. apply HxP. left. exact E. }
  rewrite ER. clear ER.
  (* keyword-only requirements *)
  rewrite !forallb_app. cbn [forallb].
  assert (Ep : reqk K p = true).
  { unfold reqk. destruct Hp as [Hp|Hp]; [rewrite Hp; reflexivity|].
    apply mem_In in Hp. fold x. rewrite Hp. apply orb_true_r. }
  rewrite Ep. cbn [andb].
  assert (E1 : forallb (reqk K) kwo1 = forallb (reqk (filter g K)) kwo1).
  { apply forallb_ext_in. intros q Hq. unfold reqk. rewrite Hmem; [reflexivity|].
    intros E. apply Hxk1. rewrite <- E. unfold names_of. apply in_map. exact Hq. }
  assert (E2 : forallb (reqk K) kwo2 = forallb (reqk (filter g K)) kwo2).
  { apply forallb_ext_in. intros q Hq. unfold reqk. rewrite Hmem; [reflexivity|].
    intros E. apply Hxk2. rewrite <- E. unfold names_of. apply in_map. exact Hq. }
  rewrite E1, E2. reflexivity.
Qed.

(* ---- case C: the keyword names no keyword-passable parameter ---- *)
Lemma stepC pos pok va kwo vk m K x :
  kinds5 pos pok va kwo vk ->
  ~ In x (names_of pok) -> ~ In x (names_of kwo) ->
  accepts (blk pos pok va kwo vk) (mkCall m (x :: K))
  = isSome vk && accepts (blk pos pok va kwo vk) (mkCall m K).
Proof.
  intros HK Hxp Hxk. rewrite !(accepts_blk _ _ _ _ _ HK). cbn [forallb].
  destruct HK as (H1 & H2 & H3 & H4 & H5).
  assert (Ex : kwok5 (pos ++ pok) kwo (isSome vk) m x = isSome vk).
  { unfold kwok5. rewrite kw_class_pos_app.
    assert (Em : mem x (names_of kwo) = false) by (apply mem_false_In; exact Hxk). rewrite Em.
    destruct (kw_class_pos_po pos m x H1) as [E|E]; rewrite E; [|reflexivity].
    rewrite (kw_class_pos_foreign pok _ x Hxp). reflexivity. }
  rewrite Ex.
  assert (ER : req_pos (pos ++ pok) m (x :: K) = req_pos (pos ++ pok) m K).
  { apply req_pos_cons_nonpk. intros q Hq E. apply in_app_or in Hq. destruct Hq as [Hq|Hq].
    - rewrite Forall_forall in H1. unfold is_kind. rewrite (H1 q Hq). reflexivity.
    - exfalso. apply Hxp. rewrite <- E. unfold names_of. apply in_map. exact Hq. }
  rewrite ER, (reqk_cons_foreign x K kwo Hxk). btauto.
Qed.

(* ------------------------------------------------------------------ *)
(* the lookups of _mask                                                 *)

Lemma split_at_name_spec x l :
  match split_at_name x l with
  | Some (a, p, b) => l = a ++ p :: b /\ pname p = x /\ ~ In x (names_of a)
  | None => ~ In x (names_of l)
  end.
Proof.
  induction l as [|q l IH]; cbn [split_at_name]; [intros []|].
  destruct (N.eqb_spec x (pname q)) as [E|Hne].
  - repeat split; auto.
  - destruct (split_at_name x l) as [[[a p] b]|].
    + destruct IH as (-> & Hp & Hx). repeat split; auto.
      intros [X|X]; [apply Hne; symmetry; exact X|exact (Hx X)].
    + intros [X|X]; [apply Hne; symmetry; exact X|exact (IH X)].
Qed.

Lemma find_param_split x l :
  match find_param x l with
  | Some p => exists l1 l2, l = l1 ++ p :: l2 /\ pname p = x /\ ~ In x (names_of l1)
  | None => ~ In x (names_of l)
  end.
Proof.
  induction l as [|q l IH]; cbn [find_param]; [intros []|].
  destruct (N.eqb_spec x (pname q)) as [E|Hne].
  - exists [], l. repeat split; auto.
  - destruct (find_param x l) as [p|].
    + destruct IH as (l1 & l2 & -> & Hp & Hx). exists (q :: l1), l2. repeat split; auto.
      intros [X|X]; [apply Hne; symmetry; exact X|exact (Hx X)].
    + intros [X|X]; [apply Hne; symmetry; exact X|exact (IH X)].
Qed.

Lemma remove_param_notin x l : ~ In x (names_of l) -> remove_param x l = l.
Proof.
  induction l as [|q l IH]; intros H; cbn [remove_param]; [reflexivity|].
  destruct (N.eqb_spec x (pname q)) as [E|_]; [exfalso; apply H; left; symmetry; exact E|].
  rewrite IH; [reflexivity|]. intros X. apply H. right. exact X.
Qed.

Lemma remove_param_mid x l1 p l2 :
  pname p = x -> ~ In x (names_of l1) -> ~ In x (names_of l2) ->
  remove_param x (l1 ++ p :: l2) = l1 ++ l2.
Proof.
  intros Hp H1 H2. induction l1 as [|q l1 IH]; cbn [app remove_param].
  - rewrite <- Hp, N.eqb_refl. apply remove_param_notin. rewrite Hp. exact H2.
  - destruct (N.eqb_spec x (pname q)) as [E|_]; [exfalso; apply H1; left; symmetry; exact E|].
    rewrite IH; [reflexivity|]. intros X. apply H1. right. exact X.
Qed.

Lemma od_set_mid l1 p l2 p' :
  pname p' = pname p -> ~ In (pname p) (names_of l1) -> od_set (l1 ++ p :: l2) p' = l1 ++ p' :: l2.
Proof.
  intros Hp H1. induction l1 as [|q l1 IH]; cbn [app od_set].
  - rewrite Hp, N.eqb_refl. reflexivity.
  - destruct (N.eqb_spec (pname p') (pname q)) as [E|_].
    + exfalso. apply H1. left. rewrite <- E. exact Hp.
    + rewrite IH; [reflexivity|]. intros X. apply H1. right. exact X.
Qed.

Lemma filter_neq_notin x K : ~ In x K -> filter (fun k => negb (N.eqb k x)) K = K.
Proof.
  induction K as [|k K IH]; intros H; cbn [filter]; [reflexivity|].
  destruct (N.eqb_spec k x) as [E|_]; [exfalso; apply H; left; exact E|]. cbn [negb].
  rewrite IH; [reflexivity|]. intros X. apply H. right. exact X.
Qed.

Lemma filter_neq_not_in x K : ~ In x (filter (fun k => negb (N.eqb k x)) K).
Proof. intros H. apply filter_In in H. destruct H as [_ H]. rewrite N.eqb_refl in H. discriminate. Qed.

Lemma same_set_cons_filter x K : same_set (x :: filter (fun k => negb (N.eqb k x)) K) (x :: K).
Proof.
  intros y. cbn [mem]. destruct (N.eqb_spec y x) as [E|Hne]; [reflexivity|]. cbn [orb].
  apply mem_filter_neq. exact Hne.
Qed.

Lemma nodup_count (l l' : list name) :
  NoDup l -> (forall y, count_occ N.eq_dec l' y <= count_occ N.eq_dec l y)%nat -> NoDup l'.
Proof.
  intros H Hc. apply (NoDup_count_occ N.eq_dec). intros y. specialize (Hc y).
  pose proof (proj1 (NoDup_count_occ N.eq_dec l) H y). lia.
Qed.

(* ------------------------------------------------------------------ *)
(* the state of the loop over the named arguments, read as a signature *)

Definition kps (pos1 : list param) (vk : option param) (st : kstate) : list param :=
  blk pos1 (k_pok st) (k_va st) (k_kwo st) vk.

Definition KInv (pos1 : list param) (vk : option param) (st : kstate) : Prop :=
  kinds5 pos1 (k_pok st) (k_va st) (k_kwo st) vk /\
  NoDup (names_of (kps pos1 vk st)) /\
  defs_ok false (pos1 ++ k_pok st).

Lemma KInv_validate pos1 vk st : KInv pos1 vk st -> validate (kps pos1 vk st) = true.
Proof. intros (HK & Hn & Hd). apply blk_validate; assumption. Qed.

Lemma names_of_cons p (l : list param) : names_of (p :: l) = pname p :: names_of l.
Proof. reflexivity. Qed.
Lemma names_of_nil : names_of [] = [].
Proof. reflexivity. Qed.

Ltac count_names :=
  unfold kps, blk in *; cbn [k_pok k_va k_kwo opt_list] in *;
  repeat (rewrite ?names_of_app, ?names_of_set_kind, ?names_of_cons, ?names_of_nil in * );
  cbn [app] in *;
  repeat (rewrite ?count_occ_app in * ); cbn [count_occ] in *; unfold name in *.

Lemma count_incl (l l' : list name) :
  (forall y, count_occ N.eq_dec l' y <= count_occ N.eq_dec l y)%nat -> forall y, In y l' -> In y l.
Proof.
  intros H y Hy. apply (count_occ_In N.eq_dec). apply (count_occ_In N.eq_dec) in Hy.
  specialize (H y). lia.
Qed.

Lemma accepts_cons_filter ps m x K :
  accepts ps (mkCall m (x :: K)) = accepts ps (mkCall m (x :: filter (fun k => negb (N.eqb k x)) K)).
Proof. symmetry. apply accepts_same_set. apply same_set_cons_filter. Qed.

(* ---- one keyword, either mode ---- *)
Lemma mask_name_step pm hv pos1 vk st x v :
  KInv pos1 vk st -> hv = isSome vk -> ~ In x (k_consumed st) ->
  (pm <> None -> ~ In x (names_of pos1 ++ names_of (opt_list (k_va st)) ++ names_of (opt_list vk))) ->
  match mask_name pm hv st (x, v) with
  | Ok st' =>
      KInv pos1 vk st' /\ k_consumed st' = x :: k_consumed st /\
      (forall y, In y (names_of (kps pos1 vk st')) ->
                 In y (names_of (kps pos1 vk st)) \/ (pm <> None /\ y = x)) /\
      (forall y, In y (names_of (opt_list (k_va st'))) -> In y (names_of (opt_list (k_va st)))) /\
      forall m K, (pm = None -> ~ In x K) ->
        accepts (kps pos1 vk st') (mkCall m K) = accepts (kps pos1 vk st) (mkCall m (x :: K))
  | Err e => e = ValueErr /\ forall m K, accepts (kps pos1 vk st) (mkCall m (x :: K)) = false
  end.
Proof.
  intros (HK & Hn & Hd) Hhv Hc Hpm. destruct st as [pok va kwo src cons].
  unfold mask_name. cbn [fst snd k_pok k_va k_kwo k_src k_consumed] in *.
  assert (Emem : mem x cons = false) by (apply mem_false_In; exact Hc). rewrite Emem.
  destruct HK as (H1 & H2 & H3 & H4 & H5).
  pose proof (split_at_name_spec x pok) as Sp.
  destruct (split_at_name x pok) as [[[before p] after]|].
  - (* A: a positional-or-keyword parameter *)
    destruct Sp as (-> & Hp & Hxb). subst x.
    apply Forall_app in H2. destruct H2 as [H2a H2b]. inversion H2b as [|? ? Hpk H2c]; subst.
    assert (HK : kinds5 pos1 (before ++ p :: after) va kwo vk).
    { repeat split; auto. apply Forall_app. split; assumption. }
    assert (Hko : Forall (fun q => pkind q = KO) (map (set_kind KO) after)).
    { apply Forall_forall. intros q Hq. apply in_map_iff in Hq. destruct Hq as [q0 [<- _]]. reflexivity. }
    assert (Hak : NoDup (names_of after ++ names_of kwo)).
    { eapply nodup_count; [exact Hn|]. intros y. count_names. destruct (N.eq_dec (pname p) y); lia. }
    assert (Eupd : od_update kwo (map (set_kind KO) after) = kwo ++ map (set_kind KO) after).
    { apply od_update_fresh.
      - rewrite names_of_set_kind. apply nodup_app_l in Hak. exact Hak.
      - rewrite names_of_set_kind. intros y Hy Hy'. exact (nodup_app_disjoint _ _ y Hak Hy Hy'). }
    rewrite Eupd.
    assert (Hd' : defs_ok false (pos1 ++ before)).
    { rewrite app_assoc in Hd. apply defs_ok_app_l in Hd. exact Hd. }
    destruct pm as [pobj|].
    + (* partial: p becomes keyword-only with the bound value as default *)
      set (p' := set_def (Some v) (set_kind KO p)).
      assert (Efr : od_set (kwo ++ map (set_kind KO) after) p' = (kwo ++ map (set_kind KO) after) ++ [p']).
      { apply od_set_fresh. cbn [p' set_def set_kind pname].
        rewrite names_of_app, names_of_set_kind. intros X.
        assert (Hc0 : (count_occ N.eq_dec (names_of (kwo ++ after)) (pname p) = 0)%nat).
        { pose proof (proj1 (NoDup_count_occ N.eq_dec _) Hn (pname p)) as Hc1. count_names.
          revert Hc1. destruct (N.eq_dec (pname p) (pname p)) as [_|Hne]; [intros; lia|contradiction]. }
        apply (count_occ_not_In N.eq_dec) in Hc0. apply Hc0. rewrite names_of_app. exact X. }
      rewrite Efr.
      assert (HK' : kinds5 pos1 before None ((kwo ++ map (set_kind KO) after) ++ [p']) vk).
      { repeat split; auto; [discriminate|]. apply Forall_app. split; [apply Forall_app; split; assumption|].
        constructor; [reflexivity|constructor]. }
      assert (Hcnt : forall y, (count_occ N.eq_dec (names_of (blk pos1 before None ((kwo ++ map (set_kind KO) after) ++ [p']) vk)) y
                               <= count_occ N.eq_dec (names_of (blk pos1 (before ++ p :: after) va kwo vk)) y)%nat).
      { intros y. count_names. cbn [p' set_def set_kind pname]. destruct (N.eq_dec (pname p) y); lia. }
      assert (Hn' : NoDup (names_of (blk pos1 before None ((kwo ++ map (set_kind KO) after) ++ [p']) vk))).
      { eapply nodup_count; [exact Hn|exact Hcnt]. }
      split; [|split; [|split; [|split]]].
      * split; [exact HK'|split; [exact Hn'|exact Hd']].
      * reflexivity.
      * intros y Hy. left. exact (count_incl _ _ Hcnt y Hy).
      * cbn. intros y [].
      * intros m K _. unfold kps. cbn [k_pok k_va k_kwo].
        rewrite (stepB pos1 before None (kwo ++ map (set_kind KO) after) p' [] vk m K HK' Hn' (or_introl eq_refl)).
        rewrite app_nil_r. cbn [p' set_def set_kind pname].
        rewrite (stepA pos1 before p after va kwo vk m _ HK Hn (filter_neq_not_in (pname p) K)).
        symmetry. apply accepts_cons_filter.
    + (* mask: p is bound and disappears *)
      assert (HK' : kinds5 pos1 before None (kwo ++ map (set_kind KO) after) vk).
      { repeat split; auto; [discriminate|]. apply Forall_app; split; assumption. }
      assert (Hcnt : forall y, (count_occ N.eq_dec (names_of (blk pos1 before None (kwo ++ map (set_kind KO) after) vk)) y
                               <= count_occ N.eq_dec (names_of (blk pos1 (before ++ p :: after) va kwo vk)) y)%nat).
      { intros y. count_names. destruct (N.eq_dec (pname p) y); lia. }
      split; [|split; [|split; [|split]]].
      * split; [exact HK'|split; [|exact Hd']]. eapply nodup_count; [exact Hn|exact Hcnt].
      * reflexivity.
      * intros y Hy. left. exact (count_incl _ _ Hcnt y Hy).
      * cbn. intros y [].
      * intros m K HxK. unfold kps. cbn [k_pok k_va k_kwo].
        apply (stepA pos1 before p after va kwo vk m K HK Hn). apply HxK. reflexivity.
  - pose proof (find_param_split x kwo) as F.
    destruct (find_param x kwo) as [p|].
    + (* B: a keyword-only parameter *)
      destruct F as (l1 & l2 & -> & Hp & Hx1). subst x.
      assert (Hx2 : ~ In (pname p) (names_of l2)).
      { intros X. apply (count_occ_In N.eq_dec) in X.
        pose proof (proj1 (NoDup_count_occ N.eq_dec _) Hn (pname p)) as Hc1. count_names.
        revert Hc1. destruct (N.eq_dec (pname p) (pname p)) as [_|Hne]; [intros; lia|contradiction]. }
      assert (HK : kinds5 pos1 pok va (l1 ++ p :: l2) vk) by (repeat split; auto).
      apply Forall_app in H4. destruct H4 as [H4a H4b]. inversion H4b as [|? ? Hpk H4c]; subst.
      destruct pm as [pobj|].
      * set (p' := set_def (Some v) (set_kind KO p)).
        rewrite (od_set_mid l1 p l2 p' eq_refl Hx1).
        assert (HK' : kinds5 pos1 pok va (l1 ++ p' :: l2) vk).
        { repeat split; auto. apply Forall_app. split; [exact H4a|]. constructor; [reflexivity|exact H4c]. }
        assert (En : names_of (blk pos1 pok va (l1 ++ p' :: l2) vk) = names_of (blk pos1 pok va (l1 ++ p :: l2) vk)).
        { unfold blk. rewrite !names_of_app. reflexivity. }
        assert (Hn' : NoDup (names_of (blk pos1 pok va (l1 ++ p' :: l2) vk))) by (rewrite En; exact Hn).
        split; [|split; [|split; [|split]]].
        -- split; [exact HK'|split; [exact Hn'|exact Hd]].
        -- reflexivity.
        -- intros y Hy. left. unfold kps in *. cbn [k_pok k_va k_kwo] in *. rewrite <- En. exact Hy.
        -- cbn [k_va]. auto.
        -- intros m K _. unfold kps. cbn [k_pok k_va k_kwo].
           rewrite (stepB pos1 pok va l1 p' l2 vk m K HK' Hn' (or_introl eq_refl)).
           rewrite (stepB pos1 pok va l1 p l2 vk m (pname p :: K) HK Hn (or_intror (or_introl eq_refl))).
           cbn [p' set_def set_kind pname filter]. rewrite N.eqb_refl. cbn [negb]. reflexivity.
      * rewrite (remove_param_mid (pname p) l1 p l2 eq_refl Hx1 Hx2).
        assert (HK' : kinds5 pos1 pok va (l1 ++ l2) vk).
        { repeat split; auto. apply Forall_app. split; assumption. }
        assert (Hcnt : forall y, (count_occ N.eq_dec (names_of (blk pos1 pok va (l1 ++ l2) vk)) y
                                 <= count_occ N.eq_dec (names_of (blk pos1 pok va (l1 ++ p :: l2) vk)) y)%nat).
        { intros y. count_names. destruct (N.eq_dec (pname p) y); lia. }
        split; [|split; [|split; [|split]]].
        -- split; [exact HK'|split; [|exact Hd]]. eapply nodup_count; [exact Hn|exact Hcnt].
        -- reflexivity.
        -- intros y Hy. left. exact (count_incl _ _ Hcnt y Hy).
        -- cbn [k_va]. auto.
        -- intros m K HxK. unfold kps. cbn [k_pok k_va k_kwo].
           rewrite (stepB pos1 pok va l1 p l2 vk m (pname p :: K) HK Hn (or_intror (or_introl eq_refl))).
           cbn [filter]. rewrite N.eqb_refl. cbn [negb].
           rewrite (filter_neq_notin (pname p) K (HxK eq_refl)). reflexivity.
    + (* C: no such keyword-passable parameter: absorbed by the double-star parameter, if any *)
      assert (HK : kinds5 pos1 pok va kwo vk) by (repeat split; auto).
      destruct vk as [vkp|]; subst hv; cbn [isSome negb].
      2:{ split; [reflexivity|]. intros m K. unfold kps. cbn [k_pok k_va k_kwo].
          rewrite (stepC pos1 pok va kwo None m K x HK Sp F). reflexivity. }
      destruct pm as [pobj|].
      * set (p' := mkParam x KO (Some v) None UEmpty).
        rewrite (od_set_fresh kwo p' F).
        assert (HK' : kinds5 pos1 pok va (kwo ++ [p']) (Some vkp)).
        { repeat split; auto. apply Forall_app. split; [exact H4|]. constructor; [reflexivity|constructor]. }
        assert (Hxl : ~ In x (names_of (blk pos1 pok va kwo (Some vkp)))).
        { specialize (Hpm ltac:(discriminate)). unfold blk. rewrite !names_of_app.
          intros X. apply Hpm. repeat (apply in_app_or in X; destruct X as [X|X]).
          - apply in_or_app. left. exact X.
          - contradiction.
          - apply in_or_app. right. apply in_or_app. left. exact X.
          - contradiction.
          - apply in_or_app. right. apply in_or_app. right. exact X. }
        assert (Hn' : NoDup (names_of (blk pos1 pok va (kwo ++ [p']) (Some vkp)))).
        { apply (NoDup_count_occ N.eq_dec). intros y.
          pose proof (proj1 (NoDup_count_occ N.eq_dec _) Hn y) as Hc1.
          apply (count_occ_not_In N.eq_dec) in Hxl. count_names.
          change (pname p') with x. revert Hxl Hc1.
          destruct (N.eq_dec x y) as [E|E]; [subst y|]; destruct (N.eq_dec (pname vkp) _); intros; lia. }
        split; [|split; [|split; [|split]]].
        -- split; [exact HK'|split; [exact Hn'|exact Hd]].
        -- reflexivity.
        -- intros y Hy. unfold kps, blk in *. cbn [k_pok k_va k_kwo] in *.
           rewrite !names_of_app in *. cbn [names_of map p' pname] in Hy.
           rewrite !in_app_iff in *. cbn [In] in Hy.
           assert (Hne : (Some pobj : pmode) <> None) by discriminate.
           assert (Hsym : x = y -> y = x) by congruence. tauto.
        -- cbn [k_va]. auto.
        -- intros m K _. unfold kps. cbn [k_pok k_va k_kwo].
           rewrite (stepB pos1 pok va kwo p' [] (Some vkp) m K HK' Hn' (or_introl eq_refl)).
           rewrite app_nil_r. cbn [p' pname].
           rewrite (accepts_cons_filter _ m x K).
           rewrite (stepC pos1 pok va kwo (Some vkp) m _ x HK Sp F). reflexivity.
      * split; [|split; [|split; [|split]]].
        -- split; [exact HK|split; [exact Hn|exact Hd]].
        -- reflexivity.
        -- intros y Hy. left. exact Hy.
        -- cbn [k_va]. auto.
        -- intros m K _. unfold kps. cbn [k_pok k_va k_kwo].
           rewrite (stepC pos1 pok va kwo (Some vkp) m K x HK Sp F). reflexivity.
Qed.
