(* MergeNeutral.v — a bare star-args / star-kwargs signature is neutral on the
   right of merge, and embedding into it returns the inner parameters
   unchanged: for ALL valid signatures (C09, C02). *)
From Sigtools.Model Require Import Base Bind Roles Algebra.
From Sigtools.Proofs Require Import SmallModel Basics MaskLaws MaskExact.
From Coq Require Import Lia.

(* the right operand: the classified bare signature with just the two stars va, vk *)
Definition starsS (va vk : param) (sr : srcmap) (dr : depths) : sorted :=
  mkSorted [] [] (Some va) [] (Some vk) sr dr.

(* the part of the merger state the parameters depend on *)
Definition shp (st : mstate) :=
  (m_pos st, m_pok st, m_kwo st, m_xva_l st, m_xvk_l st, m_lunm st, m_runm st).

Section Right.
Variables (l : sorted) (va vk : param) (sr : srcmap) (dr : depths).
Let r := starsS va vk sr dr.

Lemma kwo_match_right lk : forall st,
  shp (kwo_match l r lk st) =
  (m_pos st, m_pok st, m_kwo st, m_xva_l st, m_xvk_l st, od_update (m_lunm st) lk, m_runm st).
Proof.
  induction lk as [|p lk IH]; intros st; [reflexivity|].
  cbn [kwo_match]. unfold r at 1. cbn [starsS kwoargs find_param].
  rewrite IH. reflexivity.
Qed.

Lemma unb_pos_all_right lp : forall st,
  exists st', unb_pos_all l r L lp [] st = Ok (st', []) /\
    shp st' = (m_pos st ++ lp, m_pok st, m_kwo st, m_xva_l st, m_xvk_l st, m_lunm st, m_runm st).
Proof.
  induction lp as [|p lp IH]; intros st.
  - exists st. split; [reflexivity|]. unfold shp. rewrite app_nil_r. reflexivity.
  - cbn [unb_pos_all unb_pos1 bind other]. unfold r at 1. cbn [starsS varargs isSome]. cbn [bind fst snd].
    match goal with |- context [unb_pos_all l r L lp [] ?s] => destruct (IH s) as [st' [E Hs]] end.
    exists st'. split; [exact E|]. rewrite Hs. unfold shp. cbn. rewrite <- app_assoc. reflexivity.
Qed.

Lemma unb_pok_all_right il : forall st, m_runm st = [] ->
  exists st', unb_pok_all l r L il st = Ok st' /\
    shp st' = (m_pos st, m_pok st ++ il, m_kwo st, m_xva_l st, m_xvk_l st, m_lunm st, m_runm st).
Proof.
  induction il as [|p il IH]; intros st Hr.
  - exists st. split; [reflexivity|]. unfold shp. rewrite app_nil_r. reflexivity.
  - cbn [unb_pok_all]. unfold unb_pok1. cbn [other unm]. rewrite Hr. cbn [find_param].
    unfold r at 1 2. cbn [starsS varargs varkwargs isSome andb]. cbn [bind]. fold r.
    match goal with |- context [unb_pok_all l r L il ?s] =>
      destruct (IH s) as [st' [E Hs]]; [exact Hr|] end.
    exists st'. split; [exact E|]. rewrite Hs. unfold shp. cbn. rewrite <- app_assoc, Hr. reflexivity.
Qed.
End Right.

(* ---- assembling the merger against the bare stars ---- *)
Lemma split_po_prefix_pk lst : Forall (fun p => pkind p = PK) lst -> split_po_prefix lst = ([], lst).
Proof.
  destruct 1 as [|p lst Hp _]; [reflexivity|]. cbn [split_po_prefix].
  unfold is_kind, kind_eqb. rewrite Hp. reflexivity.
Qed.

Lemma od_update_fresh d lst :
  NoDup (names_of lst) -> (forall x, In x (names_of lst) -> ~ In x (names_of d)) ->
  od_update d lst = d ++ lst.
Proof.
  unfold od_update. revert d. induction lst as [|p lst IH]; intros d Hn Hd; cbn [fold_left].
  - rewrite app_nil_r. reflexivity.
  - cbn in Hn. inversion Hn as [|? ? Hp Hn']; subst.
    rewrite od_set_fresh by (apply Hd; left; reflexivity).
    rewrite IH; [rewrite <- app_assoc; reflexivity|exact Hn'|].
    intros x Hx Hin. unfold names_of in Hin. rewrite map_app in Hin. apply in_app_or in Hin.
    destruct Hin as [Hin|[<-|[]]]; [apply (Hd x (or_intror Hx) Hin)|contradiction].
Qed.

Lemma shp_fold_src l r (s : side) u : forall st,
  shp (fold_left (fun a p => add_src1 l r a (pname p) s) u st) = shp st.
Proof. induction u as [|p u IH]; intros st; [reflexivity|]. cbn [fold_left]. rewrite IH. reflexivity. Qed.

Definition star_plain (o : option param) : Prop :=
  forall a, o = Some a -> pdef a = None /\ (pann a = None -> puann a = UEmpty).

Lemma concile_bare a b :
  pdef a = None -> (pann a = None -> puann a = UEmpty) -> pann b = None -> concile a b = a.
Proof.
  intros Hd Ha Hb. unfold concile. rewrite Hd, Hb. destruct a as [n k d an ua]; cbn in *. subst d.
  destruct an; cbn; [reflexivity|]. rewrite Ha by reflexivity. reflexivity.
Qed.

Lemma unmatched_kwo_L_right l va vk sr dr st :
  exists st', unmatched_kwo l (starsS va vk sr dr) L st = Ok st' /\
    shp st' = (m_pos st, m_pok st,
               match m_lunm st with [] => m_kwo st | _ => od_update (m_kwo st) (m_lunm st) end,
               m_xva_l st, m_xvk_l st, m_lunm st, m_runm st).
Proof.
  unfold unmatched_kwo. cbn [unm]. destruct (m_lunm st) as [|q u] eqn:Eu.
  - exists st. split; [reflexivity|]. unfold shp. rewrite Eu. reflexivity.
  - cbn [other starsS varkwargs isSome]. eexists. split; [reflexivity|].
    change (shp (excl_vk ?x R)) with (shp x).
    rewrite shp_fold_src. unfold shp. cbn. rewrite Eu. reflexivity.
Qed.

Lemma shp_inv st a b c d e f g :
  shp st = (a, b, c, d, e, f, g) ->
  m_pos st = a /\ m_pok st = b /\ m_kwo st = c /\ m_xva_l st = d /\ m_xvk_l st = e /\
  m_lunm st = f /\ m_runm st = g.
Proof. unfold shp. intros H. injection H. intros. repeat split; assumption. Qed.

Lemma shp_intro st a b c d e f g :
  m_pos st = a -> m_pok st = b -> m_kwo st = c -> m_xva_l st = d -> m_xvk_l st = e ->
  m_lunm st = f -> m_runm st = g -> shp st = (a, b, c, d, e, f, g).
Proof. unfold shp. intros -> -> -> -> -> -> ->. reflexivity. Qed.

Theorem merger_right_neutral l nva nvk sr dr :
  let va := mkParam nva VP None None UEmpty in
  let vk := mkParam nvk VK None None UEmpty in
  Forall (fun p => pkind p = PK) (pokargs l) -> NoDup (names_of (kwoargs l)) ->
  star_plain (varargs l) -> star_plain (varkwargs l) ->
  exists res, merger l (starsS va vk sr dr) = Ok res /\
    posargs res = posargs l /\ pokargs res = pokargs l /\ varargs res = varargs l /\
    kwoargs res = kwoargs l /\ varkwargs res = varkwargs l.
Proof.
  intros va vk Hpk Hnd Hsa Hsk. unfold merger.
  set (st0 := mkM [] [] [] [] false false false false [] []).
  pose proof (kwo_match_right l va vk sr dr (kwoargs l) st0) as H1.
  set (st1 := kwo_match l (starsS va vk sr dr) (kwoargs l) st0) in *.
  cbn [st0 m_pos m_pok m_kwo m_xva_l m_xvk_l m_lunm m_runm] in H1.
  assert (Hkw : od_update [] (kwoargs l) = kwoargs l).
  { rewrite od_update_fresh; [reflexivity|exact Hnd|intros x _ []]. }
  rewrite Hkw in H1.
  assert (Hru : r_unmatched l (starsS va vk sr dr) = []) by reflexivity. rewrite Hru.
  set (st2 := set_unm st1 R []).
  assert (H2 : shp st2 = ([], [], [], false, false, kwoargs l, [])).
  { apply shp_inv in H1. destruct H1 as (A1 & A2 & A3 & A4 & A5 & A6 & A7).
    apply shp_intro; unfold st2; cbn; assumption || reflexivity. }
  cbn [starsS posargs pokargs].
  (* positional zip *)
  assert (H3 : exists st3, zip_pos l (starsS va vk sr dr) (posargs l) [] (pokargs l) [] st2
                           = Ok (st3, pokargs l, []) /\
                           shp st3 = (posargs l, [], [], false, false, kwoargs l, [])).
  { destruct (posargs l) as [|p lp] eqn:Ep.
    - cbn. exists st2. split; [reflexivity|exact H2].
    - cbn [zip_pos]. destruct (unb_pos_all_right l va vk sr dr (p :: lp) st2) as [st3 [E Hs]].
      rewrite E. cbn [bind fst snd]. exists st3. split; [reflexivity|].
      rewrite Hs. apply shp_inv in H2. destruct H2 as (A1 & A2 & A3 & A4 & A5 & A6 & A7).
      rewrite A1, A2, A3, A4, A5, A6, A7. reflexivity. }
  destruct H3 as [st3 [E3 H3]]. rewrite E3. cbn [bind].
  (* positional-or-keyword zip *)
  assert (Hr3 : m_runm st3 = []) by (apply shp_inv in H3; tauto).
  assert (H4 : exists st4, zip_pok l (starsS va vk sr dr) (pokargs l) [] st3 = Ok st4 /\
                           shp st4 = (posargs l, pokargs l, [], false, false, kwoargs l, [])).
  { destruct (pokargs l) as [|p il] eqn:Ek.
    - cbn. exists st3. split; [reflexivity|exact H3].
    - cbn [zip_pok]. destruct (unb_pok_all_right l va vk sr dr (p :: il) st3 Hr3) as [st4 [E Hs]].
      exists st4. split; [exact E|]. rewrite Hs.
      apply shp_inv in H3. destruct H3 as (A1 & A2 & A3 & A4 & A5 & A6 & A7).
      rewrite A1, A2, A3, A4, A5, A6, A7. reflexivity. }
  destruct H4 as [st4 [E4 H4]]. rewrite E4. cbn [bind].
  (* unmatched keyword-only parameters of the left side are absorbed by the right star-kwargs *)
  assert (H5 : exists st5, unmatched_kwo l (starsS va vk sr dr) L st4 = Ok st5 /\
                           shp st5 = (posargs l, pokargs l, kwoargs l, false, false, kwoargs l, [])).
  { destruct (unmatched_kwo_L_right l va vk sr dr st4) as [st5 [E Hs]]. exists st5. split; [exact E|].
    rewrite Hs. apply shp_inv in H4. destruct H4 as (A1 & A2 & A3 & A4 & A5 & A6 & A7).
    rewrite A1, A2, A3, A4, A5, A6, A7. destruct (kwoargs l) eqn:Eu; [reflexivity|].
    rewrite Hkw. reflexivity. }
  destruct H5 as [st5 [E5 H5]]. rewrite E5. cbn [bind].
  pose proof (shp_inv _ _ _ _ _ _ _ _ H5) as (A1 & A2 & A3 & A4 & A5 & A6 & A7).
  assert (E6 : unmatched_kwo l (starsS va vk sr dr) R st5 = Ok st5).
  { unfold unmatched_kwo. cbn [unm]. rewrite A7. reflexivity. }
  rewrite E6. cbn [bind].
  (* classification of positional-only-kinded parameters: nothing to move *)
  assert (H7 : shp (normalise_pok st5) = (posargs l, pokargs l, kwoargs l, false, false, kwoargs l, [])).
  { unfold normalise_pok. rewrite A2, (split_po_prefix_pk _ Hpk).
    apply shp_intro; cbn [set_pok set_pos m_pos m_pok m_kwo m_xva_l m_xvk_l m_lunm m_runm];
      try assumption; try reflexivity. rewrite A1, app_nil_r. reflexivity. }
  set (st7 := normalise_pok st5) in *.
  pose proof (shp_inv _ _ _ _ _ _ _ _ H7) as (B1 & B2 & B3 & B4 & B5 & B6 & B7).
  (* star parameters *)
  cbn [starsS varargs varkwargs].
  assert (Hva : exists st8, add_star l (starsS va vk sr dr) (m_xva_l st7) (m_xva_r st7) (varargs l) (Some va) st7
                            = (varargs l, st8) /\ shp st8 = shp st7).
  { unfold add_star. rewrite B4. destruct (varargs l) as [a|] eqn:Ea; [|exists st7; split; reflexivity].
    destruct (Hsa a eq_refl) as [Hd Hu]. cbn [negb andb].
    destruct (m_xva_r st7); cbn [negb andb].
    - eexists. split; [reflexivity|reflexivity].
    - rewrite (concile_bare a va Hd Hu eq_refl). destruct (N.eqb (pname a) (pname va)); eexists; split; reflexivity. }
  destruct Hva as [st8 [E8 H8]]. rewrite E8.
  assert (X8 : m_xvk_l st8 = false).
  { rewrite H7 in H8. apply shp_inv in H8. tauto. }
  assert (Hvk : exists st9, add_star l (starsS va vk sr dr) (m_xvk_l st8) (m_xvk_r st8) (varkwargs l) (Some vk) st8
                            = (varkwargs l, st9) /\ shp st9 = shp st8).
  { unfold add_star. rewrite X8.
    destruct (varkwargs l) as [a|] eqn:Ea; [|exists st8; split; reflexivity].
    destruct (Hsk a eq_refl) as [Hd Hu]. cbn [negb andb].
    destruct (m_xvk_r st8); cbn [negb andb].
    - eexists. split; [reflexivity|reflexivity].
    - rewrite (concile_bare a vk Hd Hu eq_refl). destruct (N.eqb (pname a) (pname vk)); eexists; split; reflexivity. }
  destruct Hvk as [st9 [E9 H9]]. rewrite E9.
  eexists. split; [reflexivity|].
  cbn [posargs pokargs varargs kwoargs varkwargs].
  rewrite H8, H7 in H9. apply shp_inv in H9. destruct H9 as (C1 & C2 & C3 & _).
  rewrite C1, C2, C3. repeat split; reflexivity.
Qed.

(* ---- C09: a bare star-args / star-kwargs signature is neutral on the right ---- *)
Definition stars_plain (ps : list param) : Prop :=
  forall p, In p ps -> (pkind p = VP \/ pkind p = VK) ->
            pdef p = None /\ (pann p = None -> puann p = UEmpty).

Lemma nodup_app_l {A} (l l' : list A) : NoDup (l ++ l') -> NoDup l.
Proof. induction l as [|x l IH]; intros H; [constructor|]. cbn in H. inversion H; subst.
  constructor; [intros Hx; apply H2; apply in_or_app; left; exact Hx|apply IH; assumption]. Qed.
Lemma nodup_app_r {A} (l l' : list A) : NoDup (l ++ l') -> NoDup l'.
Proof. induction l as [|x l IH]; intros H; [exact H|]. cbn in H. inversion H; subst. apply IH; assumption. Qed.

Lemma sorted_facts s :
  valid_sig (params s) = true -> stars_plain (params s) ->
  let so := sort_params s in
  Forall (fun p => pkind p = PK) (pokargs so) /\ NoDup (names_of (flatten so)) /\
  star_plain (varargs so) /\ star_plain (varkwargs so) /\ flatten so = params s.
Proof.
  intros Hv Hsp so. pose proof (sort_flatten_roundtrip s Hv) as Hf. fold so in Hf.
  destruct (sort_params_kinds s) as (_ & H2 & H3 & _ & H5). fold so in H2, H3, H5.
  assert (Hval : validate (params s) = true).
  { unfold valid_sig in Hv. apply andb_true_iff in Hv. destruct Hv as [Hv _]. apply andb_true_iff in Hv. tauto. }
  repeat split; auto.
  - rewrite Hf. apply validate_nodup. exact Hval.
  - destruct (Hsp a) as [X Y]; auto.
    + rewrite <- Hf. unfold flatten. rewrite H. apply in_or_app. right. apply in_or_app. right.
      apply in_or_app. left. left. reflexivity.
  - destruct (Hsp a) as [X Y]; auto.
    + rewrite <- Hf. unfold flatten. rewrite H. apply in_or_app. right. apply in_or_app. right.
      apply in_or_app. left. left. reflexivity.
  - destruct (Hsp a) as [X Y]; auto.
    + rewrite <- Hf. unfold flatten. rewrite H. repeat (apply in_or_app; right). left. reflexivity.
  - destruct (Hsp a) as [X Y]; auto.
    + rewrite <- Hf. unfold flatten. rewrite H. repeat (apply in_or_app; right). left. reflexivity.
Qed.

Lemma nodup_kwo so : NoDup (names_of (flatten so)) -> NoDup (names_of (kwoargs so)).
Proof.
  unfold flatten, names_of. rewrite !map_app. intros H.
  apply nodup_app_r in H. apply nodup_app_r in H. apply nodup_app_r in H. apply nodup_app_l in H. exact H.
Qed.

Theorem merge_right_neutral s nva nvk sr dr :
  valid_sig (params s) = true -> stars_plain (params s) ->
  exists r, merge [s; mkSig [mkParam nva VP None None UEmpty; mkParam nvk VK None None UEmpty]
                            None UEmpty sr dr] = Ok r /\ params r = params s.
Proof.
  intros Hv Hsp. destruct (sorted_facts s Hv Hsp) as (Hpk & Hnd & Hsa & Hsk & Hf).
  cbn [merge merge_steps].
  change (sort_params (mkSig [mkParam nva VP None None UEmpty; mkParam nvk VK None None UEmpty] None UEmpty sr dr))
    with (starsS (mkParam nva VP None None UEmpty) (mkParam nvk VK None None UEmpty) sr dr).
  destruct (merger_right_neutral (sort_params s) nva nvk sr dr Hpk (nodup_kwo _ Hnd) Hsa Hsk)
    as [res [E (E1 & E2 & E3 & E4 & E5)]].
  cbv zeta in E. rewrite E. cbn [to_incompatible bind]. unfold apply_params.
  assert (Efl : flatten res = params s).
  { unfold flatten. rewrite E1, E2, E3, E4, E5. exact Hf. }
  rewrite Efl.
  assert (Hval : validate (params s) = true).
  { unfold valid_sig in Hv. apply andb_true_iff in Hv. destruct Hv as [Hv _]. apply andb_true_iff in Hv. tauto. }
  rewrite Hval. eexists. split; reflexivity.
Qed.

(* ---- C02: embedding into a bare star-args / star-kwargs signature ---- *)
Lemma check_no_dupes_fresh seen ps :
  (forall x, In x (names_of ps) -> ~ In x seen) ->
  check_no_dupes seen ps = Ok (seen ++ names_of ps).
Proof.
  intros H. unfold check_no_dupes.
  assert (E : existsb (fun p => mem (pname p) seen) ps = false).
  { induction ps as [|p ps IH]; [reflexivity|]. cbn [existsb].
    assert (Hp : mem (pname p) seen = false).
    { apply mem_false_In. apply H. left. reflexivity. }
    rewrite Hp. apply IH. intros x Hx. apply H. right. exact Hx. }
  rewrite E. reflexivity.
Qed.

Lemma nodup_app_disj {A} (l l' : list A) x : NoDup (l ++ l') -> In x l' -> ~ In x l.
Proof. intros H H1 H2. exact (nodup_app_disjoint l l' x H H2 H1). Qed.

Lemma check_no_dupes_nil seen : check_no_dupes seen [] = Ok seen.
Proof. unfold check_no_dupes. cbn. rewrite app_nil_r. reflexivity. Qed.

(* the concatenation step of _embed when the outer signature has no named parameter *)
Lemma embed_concat_empty_outer {X} ipos ipok ikwo (K : list param -> list param -> list param -> res X) :
  NoDup (names_of ipos ++ names_of ipok ++ names_of ikwo) ->
  (do n1 <- check_no_dupes [] [] ;;
   do n2 <- check_no_dupes n1 [] ;;
   do e <-
     match ipos with
     | ip0 :: _ =>
         let ep := [] ++ map (set_kind PO) [] in
         let ep := if has_def ip0 then ep else clear_defaults ep in
         do n3 <- check_no_dupes n2 ipos ;;
         Ok (ep ++ ipos, @nil param, n3)
     | [] =>
         match ipok with
         | ik0 :: _ =>
             if has_def ik0 then Ok ([], [], n2)
             else Ok (clear_defaults [], clear_defaults [], n2)
         | [] => Ok ([], [], n2)
         end
     end ;;
   let '(e_pos, e_pok, n3) := e in
   do n4 <- check_no_dupes n3 ipok ;;
   let e_pok := e_pok ++ ipok in
   do n5 <- check_no_dupes n4 [] ;;
   do n6 <- check_no_dupes n5 ikwo ;;
   K e_pos e_pok (od_update (od_update [] []) ikwo))
  = K ipos ipok ikwo.
Proof.
  intros Hn. rewrite !check_no_dupes_nil. cbn [bind].
  assert (Hk : NoDup (names_of ikwo)) by (apply nodup_app_r in Hn; apply nodup_app_r in Hn; exact Hn).
  assert (Hkw : od_update (od_update [] []) ikwo = ikwo).
  { cbn [od_update fold_left]. rewrite od_update_fresh; [reflexivity|exact Hk|intros x _ []]. }
  rewrite Hkw.
  assert (D2 : forall x, In x (names_of ipok) -> ~ In x (names_of ipos)).
  { intros x Hx. apply (nodup_app_disj _ _ x Hn). apply in_or_app. left. exact Hx. }
  assert (D3 : forall x, In x (names_of ikwo) -> ~ In x (names_of ipos ++ names_of ipok)).
  { intros x Hx. rewrite app_assoc in Hn. apply (nodup_app_disj _ _ x Hn). exact Hx. }
  assert (D0 : forall (Y : list param) x, In x (names_of Y) -> ~ In x (@nil name)) by (intros Y x _ []).
  destruct ipos as [|ip0 ipr]; [destruct ipok as [|ik0 ikr]|]; cbv zeta;
    try destruct (has_def ik0); try destruct (has_def ip0);
    repeat first
      [ rewrite check_no_dupes_nil
      | rewrite check_no_dupes_fresh by first [ apply D0 | exact D2 | exact D3 ]
      | progress cbn [bind app names_of map clear_defaults] ];
    rewrite ?app_nil_r; reflexivity.
Qed.


Theorem embed_into_bare_stars i nva nvk sr dr :
  valid_sig (params i) = true -> stars_plain (params i) ->
  exists r, embed [mkSig [mkParam nva VP None None UEmpty; mkParam nvk VK None None UEmpty]
                         None UEmpty sr dr; i] true true = Ok r /\ params r = params i.
Proof.
  intros Hv Hsp. destruct (sorted_facts i Hv Hsp) as (Hpk & Hnd & Hsa & Hsk & Hf).
  set (va := mkParam nva VP None None UEmpty). set (vk := mkParam nvk VK None None UEmpty).
  set (so := sort_params i) in *.
  destruct (merger_right_neutral so nva nvk [] [] Hpk (nodup_kwo _ Hnd) Hsa Hsk)
    as [res [E (E1 & E2 & E3 & E4 & E5)]].
  cbv zeta in E. fold va vk in E.
  assert (Hn : NoDup (names_of (posargs so) ++ names_of (pokargs so) ++ names_of (kwoargs so))).
  { unfold flatten, names_of in Hnd. rewrite !map_app in Hnd.
    (* drop the two star entries *)
    assert (G : forall (a b c d e : list name), NoDup (a ++ b ++ c ++ d ++ e) -> NoDup (a ++ b ++ d)).
    { intros a b c d e H. induction a as [|x a IH]; cbn in *.
      - induction b as [|y b IHb]; cbn in *.
        + apply nodup_app_r in H. apply nodup_app_l in H. exact H.
        + inversion H as [|? ? Hy Hr]; subst. constructor; [|apply IHb; exact Hr].
          intros Hin. apply Hy. apply in_app_or in Hin. apply in_or_app. destruct Hin as [Hin|Hin]; [left; exact Hin|].
          right. apply in_or_app. right. apply in_or_app. left. exact Hin.
      - inversion H as [|? ? Hx Hr]; subst. constructor; [|apply IH; exact Hr].
        intros Hin. apply Hx. apply in_app_or in Hin. apply in_or_app. destruct Hin as [Hin|Hin]; [left; exact Hin|].
        right. apply in_app_or in Hin. apply in_or_app. destruct Hin as [Hin|Hin]; [left; exact Hin|].
        right. apply in_or_app. right. apply in_or_app. left. exact Hin. }
    exact (G _ _ _ _ _ Hnd). }
  assert (Hstep : embed_step (starsS va vk sr dr) so true true 1 =
                  Ok (mkSorted (posargs so) (pokargs so) (varargs so) (kwoargs so) (varkwargs so)
                               (fold_left (fun m kv => src_set m (fst kv) (snd kv))
                                          (src_pop (src_pop sr (pname va)) (pname vk)) (ssrc res))
                               (merge_depths dr (dep_incr 1 (sdep res))))).
  { unfold embed_step. cbn [starsS posargs pokargs varargs kwoargs varkwargs opt_if ssrc sdep].
    unfold starsS in E. rewrite E. cbn [bind]. rewrite E1, E2, E3, E4, E5.
    exact (embed_concat_empty_outer (posargs so) (pokargs so) (kwoargs so)
             (fun a b c => Ok (mkSorted a b (varargs so) c (varkwargs so)
                                        (fold_left (fun m kv => src_set m (fst kv) (snd kv))
                                                   (src_pop (src_pop sr (pname va)) (pname vk)) (ssrc res))
                                        (merge_depths dr (dep_incr 1 (sdep res))))) Hn). }
  cbn [embed embed_steps].
  change (sort_params (mkSig [va; vk] None UEmpty sr dr)) with (starsS va vk sr dr).
  fold so. rewrite Hstep. cbn [to_incompatible bind embed_steps]. unfold apply_params.
  assert (Efl : flatten (mkSorted (posargs so) (pokargs so) (varargs so) (kwoargs so) (varkwargs so)
                          (fold_left (fun m kv => src_set m (fst kv) (snd kv))
                                     (src_pop (src_pop sr (pname va)) (pname vk)) (ssrc res))
                          (merge_depths dr (dep_incr 1 (sdep res)))) = params i).
  { rewrite <- Hf. reflexivity. }
  rewrite Efl.
  assert (Hval : validate (params i) = true).
  { unfold valid_sig in Hv. apply andb_true_iff in Hv. destruct Hv as [Hv _]. apply andb_true_iff in Hv. tauto. }
  rewrite Hval. eexists. split; reflexivity.
Qed.
